import OSq.Proofs.PipelineBand2
/-
  OSq.Proofs.PipelineBand3 — **C05 for ALL inputs, part 3: closed form of the budget of a run** (how a pass changes the
  number of gates and their number of operands), and the concrete instance asked for.

  1. `pend_set_le`, `mergeLoop_length_le`, `merge_length_le`, `merge_gateCount_le`   (any scalar type) a completed merge
                              neither lengthens the circuit nor increases its number of gates (`DefaultIsIdentity atol`)
  2. `Decomposer.run_length_le`   every built-in decomposer answers with at most 8 gates (A-B-A 3, McKay 5, CNOT 8)
     `decomposeBuiltin_gateCount_le`   a completed built-in decomposition multiplies the number of gates by at most 8
     `gateCount_map_mapQubits`   a relabelling keeps it
  3. `ArityLe K c`, `pass_arity`   no pass (any kind, any outcome) increases the number of operands of a gate beyond
                              `K ≥ 1` (accepted replacements stay on the operands of the replaced gate: `check_subset`)
  4. `Pass.growth` (8 / 1), `Pass.rate` (`κ(K, atol)` / `perRot atol` / `0`), `closedRate atol K ps`
     `budget_le_rate`         `budget atol p c ≤ gateCount c.stmts · rate p`
     `pass_gateCount_le`      a completed `decompose`/`merge`/`map` multiplies the gate count by at most `growth p`
     `runBudget_le_closed`    **closed bound**: lists without `replace` (an arbitrary callback can return any number of
                              gates), `c.UWF`, `ArityLe K c`, `1 ≤ K`, `0 < atol ≤ π` ⇒
                              `runBudget atol ps c ≤ G₀ · closedRate atol K ps`, `G₀ = gateCount c.stmts` (initial circuit),
                              `closedRate (p :: ps) = rate p + growth p · closedRate ps`
  5. Non-vacuity: `exStd` (2 qubits, 3 gates), `atol = 10⁻⁷`, `[merge, map [1,0], decompose Z-Y-Z]`: if the run completes,
     the result is within `1.3·10⁻⁴ ≤ 10⁻³` of `P · original · P⁻¹` up to a phase; and the run
     `[map [1,0], decompose Z-Y-Z]` on `exMCirc`, whose completion is proved (`C05_main`), with the closed bound.
-/

set_option linter.unusedSectionVars false
set_option linter.unusedVariables false
set_option linter.unusedSimpArgs false
open Matrix
open scoped Matrix.Norms.L2Operator

namespace OSq
open Bands

/-! ## 1. The merger does not lengthen the circuit -/
section MergeCount
variable {α : Type} [Scalar α]

theorem pend_set_le (atol : α) (accs : Array (Rot α)) (i : Nat) (r r0 : Rot α) (h : accs[i]? = some r0) :
    pend atol (accs.set! i r) ≤ pend atol accs + 1 := by
  have := pend_set atol accs i r r0 h
  split at this <;> split at this <;> omega

/-- the loop of the merger: every statement consumed adds at most one statement to `out` or one pending accumulator -/
theorem mergeLoop_length_le (atol : α) (hdef : DefaultIsIdentity atol) (rest : List (Stmt α)) :
    ∀ (accs : Array (Rot α)) (out : List (Stmt α)) (accs' : Array (Rot α)) (out' : List (Stmt α)),
      mergeLoop atol accs out rest = .inr (accs', out') →
      out'.length + pend atol accs' ≤ out.length + pend atol accs + rest.length := by
  induction rest with
  | nil =>
    intro accs out accs' out' h
    rw [mergeLoop_nil] at h; injection h with h; injection h with h1 h2
    subst h1; subst h2; simp
  | cons s rest ih =>
    intro accs out accs' out' h
    cases hb : s.isBSR with
    | true =>
      cases s with
      | gate g nm =>
        cases g with
        | bsr q0 ax an ph =>
          cases hq0 : accGet? accs q0 with
          | none => rw [mergeLoop_bsr_key atol accs out rest q0 ax an ph nm hq0] at h; cases h
          | some acc0 =>
            cases hc : composeRot atol ⟨q0, ax, an, ph, nm⟩ acc0 with
            | error e => rw [mergeLoop_bsr_err atol accs out rest q0 ax an ph nm acc0 e hq0 hc] at h; cases h
            | ok r =>
              rw [mergeLoop_bsr_ok atol accs out rest q0 ax an ph nm acc0 r hq0 hc] at h
              have h1 := ih _ _ _ _ h
              have h2 := pend_set_le atol accs q0.toNat r acc0 (accGet?_some accs q0 acc0 hq0).2
              simp only [List.length_cons]
              omega
        | matrix m ops => simp [Stmt.isBSR] at hb
        | ctrl c g => simp [Stmt.isBSR] at hb
      | measure q b ax nm => simp [Stmt.isBSR] at hb
      | reset q nm => simp [Stmt.isBSR] at hb
      | comment c => simp [Stmt.isBSR] at hb
    | false =>
      cases hf : flushOps atol accs out s.qubits with
      | error o => rw [mergeLoop_nonBSR_err atol accs out rest s hb o hf] at h; cases h
      | ok p =>
        obtain ⟨accs1, out1⟩ := p
        rw [mergeLoop_nonBSR_ok atol accs out rest s hb accs1 out1 hf] at h
        have h1 := ih _ _ _ _ h
        have h2 := flushOps_pend atol hdef s.qubits accs out accs1 out1 hf
        simp only [List.length_cons] at h1 ⊢
        omega

/-- **a completed merge does not lengthen the circuit** (`I(q)` tests as identity: `DefaultIsIdentity atol`) -/
theorem merge_length_le (atol : α) (hdef : DefaultIsIdentity atol) (c : Circuit α) (hne : (merge atol c).2 = none) :
    (merge atol c).1.stmts.length ≤ c.stmts.length := by
  have hp0 : pend atol (Array.ofFn (n := c.nQubits) fun i => defaultI atol i.val) = 0 := by
    unfold pend
    rw [List.countP_eq_zero]
    intro r hr'
    obtain ⟨i, hi⟩ := List.getElem?_of_mem hr'
    have hi' : i < c.nQubits ∧ defaultI atol i = r := by simpa using hi
    rw [← hi'.2, hdef]; simp
  rw [merge_eq] at hne ⊢
  split at hne
  · rename_i st e heq
    exact absurd hne (mergeLoop_inl_some atol _ _ _ _ _ heq)
  · rename_i accs out heq
    have := mergeLoop_length_le atol hdef c.stmts _ [] accs out heq
    simp only [List.length_append, List.length_reverse, mergeTail_length]
    rw [hp0] at this
    simpa using this

theorem length_eq_filter_add_countP (p : Stmt α → Bool) (l : List (Stmt α)) :
    l.length = (l.filter (fun s => !p s)).length + l.countP p := by
  induction l with
  | nil => rfl
  | cons x l ih => cases hx : p x <;> simp [hx, ih] <;> omega

/-- … nor increase the number of gates: the gates that are not plain rotations are kept as they are (`merge_filter`) -/
theorem merge_gateCount_le (atol : α) (hdef : DefaultIsIdentity atol) (c : Circuit α) (hne : (merge atol c).2 = none) :
    gateCount (merge atol c).1.stmts ≤ gateCount c.stmts := by
  have hlen := merge_length_le atol hdef c hne
  have hf := merge_filter atol c
  have key : ∀ l : List (Stmt α), gateCount l = l.countP Stmt.isBSR + (l.filter notBSR).countP Stmt.isGate := by
    intro l
    unfold gateCount
    induction l with
    | nil => rfl
    | cons x l ih =>
      cases x with
      | gate g nm =>
        cases g <;>
          simp only [List.countP_cons, List.filter_cons, Stmt.isGate, Stmt.isBSR, notBSR, Bool.not_true,
            Bool.not_false, Bool.false_eq_true, if_true, if_false] <;> omega
      | measure q b ax nm =>
        simp only [List.countP_cons, List.filter_cons, Stmt.isGate, Stmt.isBSR, notBSR, Bool.not_true,
            Bool.not_false, Bool.false_eq_true, if_true, if_false]; omega
      | reset q nm =>
        simp only [List.countP_cons, List.filter_cons, Stmt.isGate, Stmt.isBSR, notBSR, Bool.not_true,
            Bool.not_false, Bool.false_eq_true, if_true, if_false]; omega
      | comment cm =>
        simp only [List.countP_cons, List.filter_cons, Stmt.isGate, Stmt.isBSR, notBSR, Bool.not_true,
            Bool.not_false, Bool.false_eq_true, if_true, if_false]; omega
  have e1 := length_eq_filter_add_countP Stmt.isBSR (merge atol c).1.stmts
  have e2 := length_eq_filter_add_countP Stmt.isBSR c.stmts
  have hn : (fun s : Stmt α => !s.isBSR) = notBSR := rfl
  rw [hn] at e1 e2
  rw [key, key, hf]
  rw [hf] at e1
  omega

end MergeCount

/-! ## 2. A built-in decomposer multiplies the number of gates by at most 8 -/
section DecomposeCount
variable {α : Type} [Scalar α]

/-- every built-in decomposer answers with at most 8 gates (A-B-A: 3, McKay: 5, CNOT: 8) -/
theorem Decomposer.run_length_le {atol : α} (d : Decomposer) (g : GStmt α) (out : List (GStmt α))
    (h : d.run atol g = .ok out) : out.length ≤ 8 := by
  obtain ⟨g1, nm⟩ := g
  cases d with
  | aba k =>
    cases g1 with
    | bsr q ax an ph =>
      have h : abaDecompose atol k (.bsr q ax an ph, nm) = .ok out := h
      exact le_trans (aba_length h) (by omega)
    | matrix m ops =>
      simp only [Decomposer.run, abaDecompose, pure, Except.pure, Except.ok.injEq] at h
      subst h; simp
    | ctrl c g' =>
      simp only [Decomposer.run, abaDecompose, pure, Except.pure, Except.ok.injEq] at h
      subst h; simp
  | mckay =>
    cases g1 with
    | bsr q ax an ph =>
      have h : mckayDecompose atol (.bsr q ax an ph, nm) = .ok out := h
      exact le_trans (mckay_shape h).2.1 (by omega)
    | matrix m ops =>
      simp only [Decomposer.run, mckayDecompose, pure, Except.pure, Except.ok.injEq] at h
      subst h; simp
    | ctrl c g' =>
      simp only [Decomposer.run, mckayDecompose, pure, Except.pure, Except.ok.injEq] at h
      subst h; simp
  | cnot =>
    have self : cnotDecompose atol (g1, nm) = .ok [(g1, nm)] → out.length ≤ 8 := by
      intro h'
      have h : cnotDecompose atol (g1, nm) = .ok out := h
      rw [h'] at h
      cases h; simp
    cases g1 with
    | bsr q ax an ph => exact self rfl
    | matrix m ops => exact self rfl
    | ctrl c g' =>
      cases g' with
      | matrix m ops => exact self rfl
      | ctrl c' g'' => exact self rfl
      | bsr t tax tan tph =>
        have h : cnotDecompose atol (.ctrl c (.bsr t tax tan tph), nm) = .ok out := h
        exact cnot_length h

/-- **a completed built-in decomposition multiplies the number of gates by at most 8** -/
theorem decomposeBuiltin_gateCount_le {atol : α} {d : Decomposer} {stmts out : List (Stmt α)}
    (h : decomposeBuiltin atol d stmts = (out, none)) : gateCount out ≤ 8 * gateCount stmts := by
  obtain ⟨hacc, rfl⟩ := decomposeBuiltin_ok_form h
  clear h
  unfold gateCount
  induction stmts with
  | nil => simp
  | cons s l ih =>
    have ih := ih (fun g nm hm => hacc g nm (List.mem_cons_of_mem _ hm))
    rw [List.flatMap_cons, List.countP_append, List.countP_cons]
    cases s with
    | gate g nm =>
      obtain ⟨repl, hrun, -⟩ := hacc g nm List.mem_cons_self
      have h8 := Decomposer.run_length_le d (g, nm) repl hrun
      have hc : (List.countP Stmt.isGate ((replOf (d.run atol) (g, nm)).map GStmt.toStmt)) ≤ 8 := by
        refine le_trans (List.countP_le_length) ?_
        simp only [replOf, hrun, List.length_map]
        exact h8
      simp only [Stmt.isGate, if_true] at hc ⊢
      omega
    | measure q b ax nm => simp only [Stmt.isGate, List.countP_cons, List.countP_nil] at ih ⊢; omega
    | reset q nm => simp only [Stmt.isGate, List.countP_cons, List.countP_nil] at ih ⊢; omega
    | comment cm => simp only [Stmt.isGate, List.countP_cons, List.countP_nil] at ih ⊢; omega

omit [Scalar α] in
theorem gateCount_map_mapQubits (m : List Int) (l : List (Stmt α)) :
    gateCount (l.map (Stmt.mapQubits m)) = gateCount l := by
  unfold gateCount
  rw [List.countP_map]
  apply List.countP_congr
  intro s _
  cases s <;> simp [Stmt.mapQubits, Stmt.isGate]

end DecomposeCount

/-! ## 3. No pass increases the number of operands of a gate -/

/-- every gate of the circuit acts on at most `K` qubits -/
def ArityLe (K : Nat) (c : Circuit ℝ) : Prop := ∀ g nm, Stmt.gate g nm ∈ c.stmts → g.operands.length ≤ K

/-- statement-level form -/
def Stmt.ArLe (K : Nat) (s : Stmt ℝ) : Prop := ∀ g nm, s = .gate g nm → g.operands.length ≤ K

theorem verdict_gok_arity (atol : ℝ) (K : Nat) (d : Nat → GStmt ℝ → Except Err (List (GStmt ℝ)))
    (hd : ∀ i g nm repl, g.operands.Nodup ∧ g.Unitary → d i (g, nm) = .ok repl →
      ∀ x ∈ repl, x.1.operands.Nodup ∧ x.1.Unitary)
    (i : Nat) (s : Stmt ℝ) (r : List (Stmt ℝ)) (hs : s.GOK ∧ s.ArLe K) (h : verdict atol d i s = .ok r) :
    ∀ x ∈ r, x.GOK ∧ x.ArLe K := by
  intro x hx
  refine ⟨verdict_gok atol d hd i s r hs.1 h x hx, ?_⟩
  cases s with
  | gate g nm =>
    simp only [verdict] at h
    cases hdd : d i (g, nm) with
    | error e => simp [hdd] at h
    | ok repl =>
      cases hc : checkGateReplacement atol g (repl.map (·.1)) with
      | some e => simp [hdd, hc] at h
      | none =>
        simp [hdd, hc] at h; subst h
        obtain ⟨y, hy, rfl⟩ := List.mem_map.mp hx
        rintro g' nm' e
        have hnd := (hd i g nm repl (hs.1 g nm rfl) hdd y hy).1
        have hsub := check_subset atol g _ hc y.1 (List.mem_map.mpr ⟨y, hy, rfl⟩)
        cases y with
        | mk y1 y2 =>
          simp only [GStmt.toStmt, Stmt.gate.injEq] at e
          obtain ⟨rfl, -⟩ := e
          exact le_trans (List.subperm_of_subset hnd hsub).length_le (hs.2 g nm rfl)
  | measure q b ax nm => simp [verdict] at h; subst h; simp at hx; subst hx; exact hs.2
  | reset q nm => simp [verdict] at h; subst h; simp at hx; subst hx; exact hs.2
  | comment c => simp [verdict] at h; subst h; simp at hx; subst hx; exact hs.2

/-- **no pass increases the number of operands of a gate** (`1 ≤ K`: the merger emits one-qubit gates), whatever the
    outcome of the pass -/
theorem pass_arity (atol : ℝ) (hat : 0 < atol) (hpi : atol ≤ Real.pi) (K : Nat) (hK : 1 ≤ K) (p : Pass ℝ)
    (c : Circuit ℝ) (hp : p.UFine) (h : c.UWF) (ha : ArityLe K c) : ArityLe K (p.run atol c).1 := by
  have hall : ∀ s ∈ c.stmts, s.GOK ∧ s.ArLe K := by
    intro s hs
    refine ⟨h.gok s hs, ?_⟩
    rintro g nm rfl
    exact ha g nm hs
  cases p with
  | decompose d =>
    intro g nm hm
    have hm : Stmt.gate g nm ∈ (decompose atol (fun _ g => d.run atol g) c.stmts).1 := hm
    rw [decompose_eq_genLoop] at hm
    exact (genLoop_all _ _ (fun s => s.GOK ∧ s.ArLe K)
      (fun i s r => verdict_gok_arity atol K _
        (fun _ g nm repl hg hr => DBand.run_GOK atol d (g, nm) hg repl hr) i s r)
      c.stmts 0 [] (by simp) hall _ hm).2 g nm rfl
  | replace name f =>
    intro g nm hm
    have hm : Stmt.gate g nm ∈ (replace atol name f c.stmts).1 := hm
    rw [replace_eq_genLoop] at hm
    refine (genLoop_all _ _ (fun s => s.GOK ∧ s.ArLe K)
      (fun i s r => verdict_gok_arity atol K _ ?_ i s r) c.stmts 0 [] (by simp) hall _ hm).2 g nm rfl
    intro i g nm repl hg hr
    rcases matchesName_cases name g nm with ⟨n, rfl, hn, _⟩ | hmm
    · rw [genericReplacer_match name f i g n hn] at hr
      intro x hx
      exact ⟨nodup_of_hasDup_false _ (hp.1 i n.args repl hr x hx).1, hp.2 i n.args repl hr x hx⟩
    · rw [genericReplacer_other name f i g nm hmm] at hr
      injection hr with hr; subst hr
      intro x hx
      rw [List.mem_singleton] at hx; subst hx
      exact hg
  | merge =>
    intro g nm hm
    rcases merge_emits_only_bsr atol c _ hm with h1 | h1
    · exact ha g nm h1
    · cases g with
      | bsr q ax an ph => exact hK
      | matrix m ops => simp [Stmt.isBSR] at h1
      | ctrl cq g => simp [Stmt.isBSR] at h1
  | map m =>
    rcases Pass.run_map_cases atol m c with ⟨e, he⟩ | he
    · rw [he]; exact ha
    · rw [he]
      intro g nm hm
      obtain ⟨t, ht, e⟩ := List.mem_map.mp hm
      cases t with
      | gate g0 nm0 =>
        simp only [Stmt.mapQubits, Stmt.gate.injEq] at e
        obtain ⟨rfl, -⟩ := e
        rw [Gate.operands_mapQubits_length]
        exact ha g0 nm0 ht
      | measure q b ax nm' => simp [Stmt.mapQubits] at e
      | reset q nm' => simp [Stmt.mapQubits] at e
      | comment cm => simp [Stmt.mapQubits] at e

/-! ## 4. Closed form of the budget of a run -/

/-- growth factor of the number of gates: `8` for a built-in decomposition, `1` for `merge` and `map` -/
def Pass.growth : Pass ℝ → Nat
  | .decompose _ => 8
  | _ => 1

/-- error per gate of the circuit the pass is applied to -/
noncomputable def Pass.rate (atol : ℝ) (K : Nat) : Pass ℝ → ℝ
  | .decompose _ => kappa K atol
  | .replace _ _ => kappa K atol
  | .merge => perRot atol
  | .map _ => 0

/-- the closed error rate of a list of passes, per gate of the INITIAL circuit:
    `rate p₁ + growth p₁ · (rate p₂ + growth p₂ · (…))` -/
noncomputable def closedRate (atol : ℝ) (K : Nat) : List (Pass ℝ) → ℝ
  | [] => 0
  | p :: ps => p.rate atol K + p.growth * closedRate atol K ps

theorem Pass.rate_nonneg (atol : ℝ) (hat : 0 ≤ atol) (K : Nat) (p : Pass ℝ) : 0 ≤ p.rate atol K := by
  cases p with
  | decompose d => exact kappa_nonneg K hat
  | replace name f => exact kappa_nonneg K hat
  | merge => exact perRot_nonneg atol hat
  | map m => exact le_refl _

theorem closedRate_nonneg (atol : ℝ) (hat : 0 ≤ atol) (K : Nat) (ps : List (Pass ℝ)) : 0 ≤ closedRate atol K ps := by
  induction ps with
  | nil => exact le_refl _
  | cons p ps ih =>
    exact add_nonneg (Pass.rate_nonneg atol hat K p) (mul_nonneg (Nat.cast_nonneg _) ih)

/-- the budget of one pass is at most `(number of gates) · rate` -/
theorem budget_le_rate (atol : ℝ) (hat : 0 ≤ atol) (p : Pass ℝ) (c : Circuit ℝ) (K : Nat) (hK : ArityLe K c) :
    budget atol p c ≤ (gateCount c.stmts : ℝ) * p.rate atol K := by
  cases p with
  | decompose d =>
    rw [budget_decompose]
    exact bandOf_sum_le atol hat K c.stmts hK
  | replace name f =>
    rw [budget_replace]
    refine (bandOfNamed_sum_le atol hat name K c.stmts (fun g nm hm _ => hK g (some nm) hm)).trans ?_
    have hcnt : c.stmts.countP (matchesName name) ≤ gateCount c.stmts := by
      unfold gateCount
      apply List.countP_mono_left
      intro s _ hs
      obtain ⟨g, n', rfl, _⟩ := (matchesName_true_iff name s).mp hs
      rfl
    exact mul_le_mul_of_nonneg_right (by exact_mod_cast hcnt) (kappa_nonneg K hat)
  | merge =>
    rw [budget_merge]
    have hcnt : c.stmts.countP Stmt.isBSR ≤ gateCount c.stmts := by
      unfold gateCount
      apply List.countP_mono_left
      intro s _ hs
      cases s with
      | gate g nm => rfl
      | measure q b ax nm => simp [Stmt.isBSR] at hs
      | reset q nm => simp [Stmt.isBSR] at hs
      | comment cm => simp [Stmt.isBSR] at hs
    exact mul_le_mul_of_nonneg_right (by exact_mod_cast hcnt) (perRot_nonneg atol hat)
  | map m =>
    rw [budget_map]
    simp [Pass.rate]

/-- a completed `decompose` / `merge` / `map` pass multiplies the number of gates by at most `Pass.growth` -/
theorem pass_gateCount_le (atol : ℝ) (hat : 0 < atol) (hpi : atol ≤ Real.pi) (p : Pass ℝ) (c c' : Circuit ℝ)
    (hnr : ∀ name f, p ≠ .replace name f) (hrun : p.run atol c = (c', none)) :
    gateCount c'.stmts ≤ p.growth * gateCount c.stmts := by
  cases p with
  | decompose d =>
    have h1 : decomposeBuiltin atol d c.stmts = (c'.stmts, none) := by
      have e1 : c' = { c with stmts := (decomposeBuiltin atol d c.stmts).1 } := (congrArg Prod.fst hrun).symm
      have e2 : (decomposeBuiltin atol d c.stmts).2 = none := congrArg Prod.snd hrun
      rw [e1]
      exact Prod.ext rfl e2
    exact decomposeBuiltin_gateCount_le h1
  | replace name f => exact absurd rfl (hnr name f)
  | merge =>
    have e1 : (merge atol c).1 = c' := congrArg Prod.fst hrun
    have e2 : (merge atol c).2 = none := congrArg Prod.snd hrun
    have := merge_gateCount_le atol (defaultIsIdentity_real atol hat hpi) c e2
    rw [e1] at this
    simpa [Pass.growth] using this
  | map m =>
    obtain ⟨-, -, rfl⟩ := run_map_none atol m c c' hrun
    simp [Pass.growth, gateCount_map_mapQubits]

/-- **closed form of the budget of a run** (lists of `decompose`, `merge`, `map` passes; any outcome):
    `runBudget atol ps c ≤ G₀ · closedRate atol K ps`, `G₀` the number of gates of the INITIAL circuit and `K ≥ 1` a bound
    on the number of operands of its gates.  E.g. `closedRate [merge, map m, decompose d] = perRot atol + κ(K, atol)`,
    `closedRate [decompose d, merge] = κ(K, atol) + 8 · perRot atol`. -/
theorem runBudget_le_closed (atol : ℝ) (hat : 0 < atol) (hpi : atol ≤ Real.pi) (K : Nat) (hK : 1 ≤ K)
    (ps : List (Pass ℝ)) (c : Circuit ℝ) (hnr : ∀ p ∈ ps, ∀ name f, p ≠ .replace name f) (h : c.UWF)
    (ha : ArityLe K c) :
    runBudget atol ps c ≤ (gateCount c.stmts : ℝ) * closedRate atol K ps := by
  induction ps generalizing c with
  | nil => simp [runBudget, closedRate]
  | cons p ps ih =>
    have hG : (0 : ℝ) ≤ gateCount c.stmts := Nat.cast_nonneg _
    have hp : p.UFine := by
      cases p with
      | replace name f => exact absurd rfl (hnr _ List.mem_cons_self name f)
      | decompose d => trivial
      | merge => trivial
      | map m => trivial
    cases hrun : p.run atol c with
    | mk c1 oe =>
      cases oe with
      | none =>
        rw [runBudget_cons_none atol p ps c c1 hrun]
        have hu1 := pass_uwf atol hat hpi p c hp h
        have ha1 := pass_arity atol hat hpi K hK p c hp h ha
        rw [hrun] at hu1 ha1
        have h1 := budget_le_rate atol hat.le p c K ha
        have h2 := ih c1 (fun q hq => hnr q (List.mem_cons_of_mem _ hq)) hu1 ha1
        have h3 : (gateCount c1.stmts : ℝ) ≤ (p.growth : ℝ) * gateCount c.stmts := by
          exact_mod_cast pass_gateCount_le atol hat hpi p c c1 (hnr p List.mem_cons_self) hrun
        have h4 := mul_le_mul_of_nonneg_right h3 (closedRate_nonneg atol hat.le K ps)
        simp only [closedRate]
        nlinarith
      | some e =>
        rw [runBudget_cons_some atol p ps c c1 e hrun]
        exact mul_nonneg hG (closedRate_nonneg atol hat.le K (p :: ps))

/-! ## 5. Non-vacuity -/
section Examples

theorem exStd_arity : ArityLe 2 exStd := by
  intro g nm hm
  simp only [exStd, rotStmtOf, exR, List.mem_cons, Stmt.gate.injEq, reduceCtorEq, List.not_mem_nil, or_false] at hm
  rcases hm with ⟨rfl, _⟩ | ⟨rfl, _⟩ | ⟨rfl, _⟩ <;> simp [Gate.operands]

theorem exMCirc_arity : ArityLe 2 exMCirc := by
  intro g nm hm
  simp only [exMCirc, List.mem_cons, Stmt.gate.injEq, reduceCtorEq, List.not_mem_nil, or_false] at hm
  rcases hm with ⟨rfl, _⟩ | ⟨rfl, _⟩ <;> simp [Gate.operands]

/-- the pass list of the example: merge, swap the two qubits, Z-Y-Z decomposition -/
noncomputable def exPasses : List (Pass ℝ) := [.merge, .map [1, 0], .decompose (.aba .ZYZ)]

theorem exPasses_ufine : ∀ p ∈ exPasses, p.UFine := by
  intro p hp
  simp only [exPasses, List.mem_cons, List.not_mem_nil, or_false] at hp
  rcases hp with rfl | rfl | rfl <;> trivial

theorem exPasses_norepl : ∀ p ∈ exPasses, ∀ name f, p ≠ .replace name f := by
  intro p hp name f
  simp only [exPasses, List.mem_cons, List.not_mem_nil, or_false] at hp
  rcases hp with rfl | rfl | rfl <;> simp

/-- the closed rate of the example list: `perRot atol + κ(K, atol)` -/
theorem exPasses_rate (atol : ℝ) (K : Nat) : closedRate atol K exPasses = perRot atol + kappa K atol := by
  simp [exPasses, closedRate, Pass.rate, Pass.growth]

/-- the relabelling of a completed run of the example list is the swap -/
theorem exPasses_maps (atol : ℝ) (c c' : Circuit ℝ) (hrun : runPasses atol exPasses c = (c', none)) :
    appliedMaps atol exPasses c = [[1, 0]] := by
  obtain ⟨c1, h1, hr1⟩ := runPasses_cons_ok hrun
  obtain ⟨c2, h2, hr2⟩ := runPasses_cons_ok hr1
  obtain ⟨c3, h3, hr3⟩ := runPasses_cons_ok hr2
  unfold exPasses
  rw [appliedMaps_cons_none _ _ _ _ _ h1, appliedMaps_cons_none _ _ _ _ _ h2, appliedMaps_cons_none _ _ _ _ _ h3]
  rfl

/-- **the all-inputs theorem on a concrete run** (task 4): the circuit `exStd`
    (`Rx(1/20) q0; CNOT q0 q1; Rx(1/20) q0; measure q0`, 2 qubits, 3 gates), `atol = 10⁻⁷`, the list
    `[merge, map [1, 0], decompose Z-Y-Z]`.  IF the run completes (the merger provably does; the Z-Y-Z decomposition of the
    merged circuit is only known to complete under a crisp hypothesis, so completion is the hypothesis here), the result
    has the invariant and implements the original up to one global phase, the swap of the two qubits and an error of at
    most `1.3·10⁻⁴ ≤ 10⁻³` in operator norm, for every measurement outcome:
    `runBudget ≤ G₀ · (perRot atol + κ(2, atol)) ≤ 3 · (1.5·10⁻⁶ + 4.04·10⁻⁵)`. -/
example (c' : Circuit ℝ) (hrun : runPasses (1 / 10 ^ 7 : ℝ) exPasses exStd = (c', none)) :
    c'.UWF ∧ c'.nQubits = 2 ∧
    ∃ z : ℂ, ‖z‖ = 1 ∧ ∀ o,
      ‖circOp 2 c'.stmts o - z • (permOp 2 [1, 0] * circOp 2 exStd.stmts o * (permOp 2 [1, 0])⁻¹)‖
        ≤ 13 / 100000 := by
  have hpi := Real.two_le_pi
  have hat : (0 : ℝ) < 1 / 10 ^ 7 := by norm_num
  have hle : (1 / 10 ^ 7 : ℝ) ≤ Real.pi := by
    have : (1 / 10 ^ 7 : ℝ) ≤ 2 := by norm_num
    linarith
  obtain ⟨hu, hq, -, z, hz, H⟩ := runPasses_band _ hat hle exPasses exStd c' exPasses_ufine exStd_uwf hrun
  refine ⟨hu, hq, z, hz, fun o => ?_⟩
  have h1 := H o
  rw [exPasses_maps _ _ _ hrun, permsOp_singleton] at h1
  refine le_trans h1 ?_
  have h2 := runBudget_le_closed _ hat hle 2 (by norm_num) exPasses exStd exPasses_norepl exStd_uwf exStd_arity
  have hG : (gateCount exStd.stmts : ℝ) = 3 := by
    have : gateCount exStd.stmts = 3 := rfl
    rw [this]; norm_num
  rw [exPasses_rate, hG] at h2
  have h3 := perRot_le (1 / 10 ^ 7 : ℝ) hat.le
  have h4 : kappa 2 (1 / 10 ^ 7 : ℝ) = 2 ^ 2 * (1 / 10 ^ 7 + 1e-5) := rfl
  rw [h4] at h2
  norm_num at h2 h3 ⊢
  linarith

/-- **a run whose completion is proved** (crisp instance, `C05_main` via `exM_run` of `OSq.Proofs.Main2`):
    `[map [1, 0], decompose Z-Y-Z]` on `exMCirc` at `atol = 1/1000` completes, and `runPasses_band` bounds the result by
    `G₀ · κ(2, atol) = 2 · 4 · (10⁻³ + 10⁻⁵)` (the exact theorem gives `0` on this input; the point is that every
    hypothesis of `runPasses_band`, completion included, is satisfiable). -/
example : ∃ c', runPasses (1 / 1000 : ℝ) [.map [1, 0], .decompose (.aba .ZYZ)] exMCirc = (c', none) ∧ c'.UWF ∧
    ∃ z : ℂ, ‖z‖ = 1 ∧ ∀ o,
      ‖circOp 2 c'.stmts o
          - z • (permsOp 2 (appliedMaps (1 / 1000 : ℝ) [.map [1, 0], .decompose (.aba .ZYZ)] exMCirc)
              * circOp 2 exMCirc.stmts o
              * (permsOp 2 (appliedMaps (1 / 1000 : ℝ) [.map [1, 0], .decompose (.aba .ZYZ)] exMCirc))⁻¹)‖
        ≤ 2 * kappa 2 (1 / 1000) := by
  have hpi := Real.two_le_pi
  have hat : (0 : ℝ) < 1 / 1000 := by norm_num
  have hle : (1 / 1000 : ℝ) ≤ Real.pi := by
    have : (1 / 1000 : ℝ) ≤ 2 := by norm_num
    linarith
  obtain ⟨hnone, -⟩ := C05_main (1 / 1000) hat (by norm_num) _ exMCirc exMCirc_wf exM_run
  cases hrun : runPasses (1 / 1000 : ℝ) [.map [1, 0], .decompose (.aba .ZYZ)] exMCirc with
  | mk c' oe =>
    rw [hrun] at hnone
    simp only at hnone
    subst hnone
    have hps : ∀ p ∈ ([.map [1, 0], .decompose (.aba .ZYZ)] : List (Pass ℝ)), p.UFine := by
      intro p hp
      simp only [List.mem_cons, List.not_mem_nil, or_false] at hp
      rcases hp with rfl | rfl <;> trivial
    have hnr : ∀ p ∈ ([.map [1, 0], .decompose (.aba .ZYZ)] : List (Pass ℝ)), ∀ name f, p ≠ .replace name f := by
      intro p hp name f
      simp only [List.mem_cons, List.not_mem_nil, or_false] at hp
      rcases hp with rfl | rfl <;> simp
    obtain ⟨hu, -, -, z, hz, H⟩ := runPasses_band _ hat hle _ exMCirc c' hps exMCirc_uwf hrun
    refine ⟨c', rfl, hu, z, hz, fun o => le_trans (H o) ?_⟩
    have h2 := runBudget_le_closed _ hat hle 2 (by norm_num) _ exMCirc hnr exMCirc_uwf exMCirc_arity
    have hG : (gateCount exMCirc.stmts : ℝ) = 2 := by
      have : gateCount exMCirc.stmts = 2 := rfl
      rw [this]; norm_num
    rw [hG] at h2
    simpa [closedRate, Pass.rate, Pass.growth] using h2

end Examples

end OSq

#print axioms OSq.merge_length_le
#print axioms OSq.merge_gateCount_le
#print axioms OSq.decomposeBuiltin_gateCount_le
#print axioms OSq.pass_arity
#print axioms OSq.pass_gateCount_le
#print axioms OSq.runBudget_le_closed
