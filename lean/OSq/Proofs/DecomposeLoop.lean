import OSq.Model.Passes
/-
  OSq.Proofs.DecomposeLoop — structural theorems about the decompose / replace drivers
  (`decomposeLoop`, `decompose`, `decomposeBuiltin`, `replace` in `OSq/Model/Passes.lean`;
  Python `decomposer/general_decomposer.py`).  Core Lean only; valid for every scalar type `α`
  (`[Scalar α]` only because `checkGateReplacement` mentions it).  `checkGateReplacement` is treated as an
  opaque `Option Err`, the decomposer `d : Nat → GStmt α → Except Err (List (GStmt α))` is arbitrary
  (it receives the 0-based call index, i.e. the number of gate statements visited before).

  Termination: `decomposeLoop` and `replace.go` are *structurally recursive* on the list of statements still
  to visit (replacements are pushed on the `out` accumulator and never revisited), so Lean accepts them
  without a termination proof; the totality theorems below (`decompose_ok_or_prefix`,
  `replace_ok_or_prefix`) are the corresponding statement about results: every run ends in one of two forms.

  Generic part (any statement type, any per-statement verdict `v`, any counter `bump`)
  * `genLoop_total`            the accumulator loop ends either in "all accepted, result = spec" or in
                               "first rejected statement at position k, result = spec (take k) ++ drop k".
  * `genLoop_ok`, `genLoop_fail`, `genLoop_filter`   the three consequences used below.

  Decompose
  * `spliceSpec`               the specification: walk the list, hand gate number `i` to `d i`, keep non-gates.
  * `spliceSpec_const`         for an index-independent decomposer `spliceSpec` is literally a `flatMap`.
  * `spliceSpec_eq_flatten`, `spliceChunks_length`, `spliceChunks_nongate`, `spliceChunks_gate`
                               `spliceSpec` = concatenation of one chunk per input statement; the chunk of a
                               non-gate is the statement itself, the chunk of a gate consists of gates only
                               (replacements stand exactly where the gate stood).
  * `decompose_ok_eq_flatMap`  every gate accepted ⇒ `decompose = (spliceSpec d 0 stmts, none)`.
  * `decompose_ok_flatMap_const`, `decomposeBuiltin_ok_flatMap`   the same, as a literal `flatMap`, for
                               index-independent decomposers / the built-in ones.
  * `decompose_fail_prefix`    first rejected gate at list position `k` ⇒
                               `decompose = (spliceSpec d 0 (take k) ++ drop k, some e)`.
  * `decompose_nongates`       comments / measurements / resets are the same, in the same order, in every case.
  * `decompose_ok_or_prefix`   totality: the result always has one of the two forms.
  * `decompose_none_iff`       no error is reported iff every gate is accepted.

  Replace
  * `genericReplacer`          Python's `_GenericReplacer.decompose` (anonymous / other names ↦ `[g]`).
  * `replace_go_eq_genLoop`    `replace` is the `decompose` body for `genericReplacer`, with the counter
                               advancing on matching gates only.
  * `replaceSpec`              the specification for `replace` (`matchIdx` = call index of `f`).
  * `replace_only_named`       in `replaceSpec` every statement that is not a named gate called `name`
                               contributes itself, unchanged; `replaceChunk_named` for matching gates.
  * `replace_ok_eq_spec`       all matching gates answered by `f` and accepted, all other gates pass their
                               self-check `checkGateReplacement atol g [g] = none` ⇒ result = spec, no error.
  * `replace_fail_prefix`      first rejected gate at position `k` ⇒ spec (take k) ++ drop k, with the error.
  * `replace_nongates`         comments / measurements / resets are untouched and in place, in every case.
  * `replace_ok_or_prefix`     totality for `replace`.
  * `replace_no_match`         no gate is called `name` and all self-checks pass ⇒ the IR is returned unchanged.
  * `replace_ok_flatMap_const` index-independent `f`, all accepted ⇒ literal `flatMap`.
  * `replace_eq_decompose_const` index-independent `f` ⇒ `replace = decompose` with `genericReplacer`.
-/
namespace OSq

/-! ## Generic accumulator loop -/
section generic
variable {S E : Type}

/-- The common shape of `decomposeLoop` and `replace.go`: `v i s` is the verdict on statement `s` when the
    counter is `i` (`.ok r`: replace `s` by `r`; `.error e`: stop), `bump s` tells whether `s` advances
    the counter. -/
def genLoop (v : Nat → S → Except E (List S)) (bump : S → Bool) :
    Nat → List S → List S → List S × Option E
  | _, out, [] => (out.reverse, none)
  | i, out, s :: rest =>
    match v i s with
    | .error e => (out.reverse ++ s :: rest, some e)
    | .ok r => genLoop v bump (i + (bump s).toNat) (r.reverse ++ out) rest

/-- Specification: concatenate the chunks `c i s`, advancing the counter on `bump`. -/
def genSpec (c : Nat → S → List S) (bump : S → Bool) : Nat → List S → List S
  | _, [] => []
  | i, s :: rest => c i s ++ genSpec c bump (i + (bump s).toNat) rest

/-- the counter value when the statement at position `k` is visited, starting from `i` -/
def ctrAt (bump : S → Bool) (i : Nat) (l : List S) (k : Nat) : Nat := i + (l.take k).countP bump

/-- the statement at position `k` (if any) is accepted -/
def OkAt (v : Nat → S → Except E (List S)) (bump : S → Bool) (i : Nat) (l : List S) (k : Nat) : Prop :=
  ∀ s, l[k]? = some s → ∃ r, v (ctrAt bump i l k) s = .ok r

/-- the statement at position `k` exists and is rejected with `e` -/
def ErrAt (v : Nat → S → Except E (List S)) (bump : S → Bool) (i : Nat) (l : List S) (k : Nat) (e : E) :
    Prop :=
  ∃ s, l[k]? = some s ∧ v (ctrAt bump i l k) s = .error e

theorem ctrAt_zero (bump : S → Bool) (i : Nat) (l : List S) : ctrAt bump i l 0 = i := by
  simp [ctrAt]

theorem ctrAt_succ (bump : S → Bool) (i : Nat) (s : S) (l : List S) (k : Nat) :
    ctrAt bump i (s :: l) (k + 1) = ctrAt bump (i + (bump s).toNat) l k := by
  simp only [ctrAt, List.take_succ_cons, List.countP_cons]
  cases bump s <;> simp <;> omega

theorem okAt_cons_succ (v : Nat → S → Except E (List S)) (bump : S → Bool) (i : Nat) (s : S)
    (l : List S) (k : Nat) :
    OkAt v bump i (s :: l) (k + 1) ↔ OkAt v bump (i + (bump s).toNat) l k := by
  simp only [OkAt, List.getElem?_cons_succ, ctrAt_succ]

theorem errAt_cons_succ (v : Nat → S → Except E (List S)) (bump : S → Bool) (i : Nat) (s : S)
    (l : List S) (k : Nat) (e : E) :
    ErrAt v bump i (s :: l) (k + 1) e ↔ ErrAt v bump (i + (bump s).toNat) l k e := by
  simp only [ErrAt, List.getElem?_cons_succ, ctrAt_succ]

theorem okAt_errAt_absurd {v : Nat → S → Except E (List S)} {bump : S → Bool} {i : Nat} {l : List S}
    {k : Nat} {e : E} (h1 : OkAt v bump i l k) (h2 : ErrAt v bump i l k e) : False := by
  obtain ⟨s, hs, he⟩ := h2
  obtain ⟨r, hr⟩ := h1 s hs
  rw [hr] at he; cases he

theorem errAt_lt {v : Nat → S → Except E (List S)} {bump : S → Bool} {i : Nat} {l : List S}
    {k : Nat} {e : E} (h : ErrAt v bump i l k e) : k < l.length := by
  obtain ⟨s, hs, _⟩ := h
  exact (List.getElem?_eq_some_iff.1 hs).1

variable (v : Nat → S → Except E (List S)) (bump : S → Bool) (c : Nat → S → List S)

/-- Totality of the loop, with the exact result in both cases.  `c` is any chunk function that agrees with
    the verdict on accepted statements. -/
theorem genLoop_total (hc : ∀ i s r, v i s = .ok r → c i s = r) (l : List S) (i : Nat) (out : List S) :
    ((∀ k, OkAt v bump i l k) ∧
        genLoop v bump i out l = (out.reverse ++ genSpec c bump i l, none)) ∨
    (∃ k e, (∀ j, j < k → OkAt v bump i l j) ∧ ErrAt v bump i l k e ∧
        genLoop v bump i out l = (out.reverse ++ (genSpec c bump i (l.take k) ++ l.drop k), some e)) := by
  induction l generalizing i out with
  | nil =>
    left
    refine ⟨?_, by simp [genLoop, genSpec]⟩
    intro k s hs; simp at hs
  | cons s rest ih =>
    cases hv : v i s with
    | error e =>
      right
      refine ⟨0, e, fun j hj => absurd hj (Nat.not_lt_zero j), ⟨s, by simp, by rw [ctrAt_zero]; exact hv⟩, ?_⟩
      simp [genLoop, hv, genSpec]
    | ok r =>
      have hloop : genLoop v bump i out (s :: rest) =
          genLoop v bump (i + (bump s).toNat) (r.reverse ++ out) rest := by
        simp [genLoop, hv]
      have h0 : OkAt v bump i (s :: rest) 0 := by
        intro s' hs'
        simp only [List.getElem?_cons_zero, Option.some.injEq] at hs'
        subst hs'
        exact ⟨r, by rw [ctrAt_zero]; exact hv⟩
      rcases ih (i + (bump s).toNat) (r.reverse ++ out) with ⟨hall, hres⟩ | ⟨k, e, hpre, herr, hres⟩
      · left
        refine ⟨?_, ?_⟩
        · intro k
          cases k with
          | zero => exact h0
          | succ k => exact (okAt_cons_succ ..).2 (hall k)
        · rw [hloop, hres]
          simp [genSpec, hc i s r hv]
      · right
        refine ⟨k + 1, e, ?_, (errAt_cons_succ ..).2 herr, ?_⟩
        · intro j hj
          cases j with
          | zero => exact h0
          | succ j => exact (okAt_cons_succ ..).2 (hpre j (by omega))
        · rw [hloop, hres]
          simp [genSpec, hc i s r hv]

theorem genLoop_ok (hc : ∀ i s r, v i s = .ok r → c i s = r) (l : List S) (i : Nat) (out : List S)
    (h : ∀ k, OkAt v bump i l k) :
    genLoop v bump i out l = (out.reverse ++ genSpec c bump i l, none) := by
  rcases genLoop_total v bump c hc l i out with ⟨_, hres⟩ | ⟨k, e, _, herr, _⟩
  · exact hres
  · exact (okAt_errAt_absurd (h k) herr).elim

theorem genLoop_fail (hc : ∀ i s r, v i s = .ok r → c i s = r) (l : List S) (i : Nat) (out : List S)
    (k : Nat) (e : E) (hpre : ∀ j, j < k → OkAt v bump i l j) (herr : ErrAt v bump i l k e) :
    genLoop v bump i out l = (out.reverse ++ (genSpec c bump i (l.take k) ++ l.drop k), some e) := by
  rcases genLoop_total v bump c hc l i out with ⟨hall, _⟩ | ⟨k', e', hpre', herr', hres⟩
  · exact (okAt_errAt_absurd (hall k) herr).elim
  · have hk : k = k' := by
      rcases Nat.lt_trichotomy k k' with h | h | h
      · exact (okAt_errAt_absurd (hpre' k h) herr).elim
      · exact h
      · exact (okAt_errAt_absurd (hpre k' h) herr').elim
    subst hk
    obtain ⟨s, hs, he⟩ := herr
    obtain ⟨s', hs', he'⟩ := herr'
    rw [hs] at hs'; cases hs'
    rw [he] at he'; cases he'
    exact hres

/-- Whatever happens, a class `P` of statements that every accepted replacement preserves is preserved
    by the loop (same elements, same order). -/
theorem genLoop_filter (P : S → Bool) (hP : ∀ i s r, v i s = .ok r → r.filter P = [s].filter P)
    (l : List S) (i : Nat) (out : List S) :
    (genLoop v bump i out l).1.filter P = (out.reverse ++ l).filter P := by
  induction l generalizing i out with
  | nil => simp [genLoop]
  | cons s rest ih =>
    cases hv : v i s with
    | error e => simp [genLoop, hv]
    | ok r =>
      have hloop : genLoop v bump i out (s :: rest) =
          genLoop v bump (i + (bump s).toNat) (r.reverse ++ out) rest := by
        simp [genLoop, hv]
      rw [hloop, ih]
      have := hP i s r hv
      simp only [List.reverse_append, List.reverse_reverse, List.filter_append, List.append_assoc]
      rw [this]
      simp only [List.filter_cons, List.filter_nil]
      split <;> simp

/-- The error component is `none` exactly when everything is accepted. -/
theorem genLoop_none_iff (l : List S) (i : Nat) (out : List S) :
    (genLoop v bump i out l).2 = none ↔ ∀ k, OkAt v bump i l k := by
  rcases genLoop_total v bump (fun i s => match v i s with | .ok r => r | .error _ => [s])
      (by intro i s r h; simp [h]) l i out with ⟨hall, hres⟩ | ⟨k, e, _, herr, hres⟩
  · simp [hres, hall]
  · rw [hres]
    constructor
    · intro h; cases h
    · intro h; exact (okAt_errAt_absurd (h k) herr).elim

/-- If the verdict does not depend on the counter, neither counter nor `bump` matter. -/
theorem genLoop_congr (v' : Nat → S → Except E (List S)) (bump' : S → Bool)
    (h : ∀ i i' s, v i s = v' i' s) (l : List S) (i i' : Nat) (out : List S) :
    genLoop v bump i out l = genLoop v' bump' i' out l := by
  induction l generalizing i i' out with
  | nil => rfl
  | cons s rest ih =>
    simp only [genLoop, ← h i i' s]
    cases v i s with
    | error e => rfl
    | ok r => exact ih _ _ _

end generic

variable {α : Type} [Scalar α]

/-! ## `decompose` -/

/-- number of gate statements in a list -/
def gateCount (l : List (Stmt α)) : Nat := l.countP Stmt.isGate

/-- the call index handed to the decomposer for the statement at list position `k` -/
def gateIdx (stmts : List (Stmt α)) (k : Nat) : Nat := gateCount (stmts.take k)

/-- what one statement becomes in the specification (depends on `d` only) -/
def spliceChunk (d : Nat → GStmt α → Except Err (List (GStmt α))) (i : Nat) : Stmt α → List (Stmt α)
  | .gate g nm =>
    match d i (g, nm) with
    | .ok repl => repl.map GStmt.toStmt
    | .error _ => [.gate g nm]
  | s => [s]

/-- **Specification of `decompose`**: walk the list; the `i`-th gate statement (0-based, counting from the
    start value) is replaced by what `d i` returns for it; every other statement is kept. -/
def spliceSpec (d : Nat → GStmt α → Except Err (List (GStmt α))) : Nat → List (Stmt α) → List (Stmt α)
  | _, [] => []
  | i, .gate g nm :: rest => spliceChunk d i (.gate g nm) ++ spliceSpec d (i + 1) rest
  | i, s :: rest => s :: spliceSpec d i rest

/-- the chunks themselves, one per input statement -/
def spliceChunks (d : Nat → GStmt α → Except Err (List (GStmt α))) :
    Nat → List (Stmt α) → List (List (Stmt α))
  | _, [] => []
  | i, s :: rest => spliceChunk d i s :: spliceChunks d (i + (Stmt.isGate s).toNat) rest

/-- the verdict of the loop body on one statement -/
def verdict (atol : α) (d : Nat → GStmt α → Except Err (List (GStmt α))) (i : Nat) :
    Stmt α → Except Err (List (Stmt α))
  | .gate g nm =>
    match d i (g, nm) with
    | .error e => .error e
    | .ok repl =>
      match checkGateReplacement atol g (repl.map (·.1)) with
      | some e => .error e
      | none => .ok (repl.map GStmt.toStmt)
  | s => .ok [s]

/-- The gate at hand is accepted: the decomposer returns and the replacement check passes. -/
def Accepts (atol : α) (d : Nat → GStmt α → Except Err (List (GStmt α))) (i : Nat) (s : Stmt α) : Prop :=
  ∀ g nm, s = .gate g nm →
    ∃ repl, d i (g, nm) = .ok repl ∧ checkGateReplacement atol g (repl.map (·.1)) = none

/-- The gate at hand is rejected with `e`: the decomposer raises `e`, or the replacement check does. -/
def Rejects (atol : α) (d : Nat → GStmt α → Except Err (List (GStmt α))) (i : Nat) (s : Stmt α)
    (e : Err) : Prop :=
  ∃ g nm, s = .gate g nm ∧
    (d i (g, nm) = .error e ∨
      ∃ repl, d i (g, nm) = .ok repl ∧ checkGateReplacement atol g (repl.map (·.1)) = some e)

theorem verdict_ok_iff (atol : α) (d : Nat → GStmt α → Except Err (List (GStmt α))) (i : Nat)
    (s : Stmt α) : (∃ r, verdict atol d i s = .ok r) ↔ Accepts atol d i s := by
  cases s with
  | gate g nm =>
    simp only [verdict, Accepts, Stmt.gate.injEq, and_imp]
    constructor
    · rintro ⟨r, hr⟩ g' nm' rfl rfl
      cases hd : d i (g, nm) with
      | error e => simp [hd] at hr
      | ok repl =>
        cases hc : checkGateReplacement atol g (repl.map (·.1)) with
        | some e => simp [hd, hc] at hr
        | none => exact ⟨repl, rfl, hc⟩
    · intro h
      obtain ⟨repl, hd, hc⟩ := h g nm rfl rfl
      exact ⟨repl.map GStmt.toStmt, by simp [hd, hc]⟩
  | measure q b ax nm => simp [verdict, Accepts]
  | reset q nm => simp [verdict, Accepts]
  | comment c => simp [verdict, Accepts]

theorem verdict_err_iff (atol : α) (d : Nat → GStmt α → Except Err (List (GStmt α))) (i : Nat)
    (s : Stmt α) (e : Err) : verdict atol d i s = .error e ↔ Rejects atol d i s e := by
  cases s with
  | gate g nm =>
    simp only [verdict, Rejects, Stmt.gate.injEq]
    constructor
    · intro hr
      refine ⟨g, nm, ⟨rfl, rfl⟩, ?_⟩
      cases hd : d i (g, nm) with
      | error e' => simp [hd] at hr; left; rw [hr]
      | ok repl =>
        right
        cases hc : checkGateReplacement atol g (repl.map (·.1)) with
        | some e' => simp [hd, hc] at hr; exact ⟨repl, rfl, by rw [hc, hr]⟩
        | none => simp [hd, hc] at hr
    · rintro ⟨g', nm', ⟨rfl, rfl⟩, h | ⟨repl, hd, hc⟩⟩
      · simp [h]
      · simp [hd, hc]
  | measure q b ax nm => simp [verdict, Rejects]
  | reset q nm => simp [verdict, Rejects]
  | comment c => simp [verdict, Rejects]

theorem verdict_chunk (atol : α) (d : Nat → GStmt α → Except Err (List (GStmt α))) (i : Nat)
    (s : Stmt α) (r : List (Stmt α)) (h : verdict atol d i s = .ok r) : spliceChunk d i s = r := by
  cases s with
  | gate g nm =>
    simp only [verdict] at h
    cases hd : d i (g, nm) with
    | error e => simp [hd] at h
    | ok repl =>
      cases hc : checkGateReplacement atol g (repl.map (·.1)) with
      | some e => simp [hd, hc] at h
      | none => simp [hd, hc] at h; simp [spliceChunk, hd, h]
  | measure q b ax nm => simp [verdict] at h; simp [spliceChunk, h]
  | reset q nm => simp [verdict] at h; simp [spliceChunk, h]
  | comment c => simp [verdict] at h; simp [spliceChunk, h]

omit [Scalar α] in
/-- every replacement is a gate statement -/
theorem toStmt_isGate (gs : GStmt α) : (GStmt.toStmt gs).isGate = true := rfl

omit [Scalar α] in
theorem filter_nongate_map_toStmt (repl : List (GStmt α)) :
    (repl.map GStmt.toStmt).filter (fun s => !s.isGate) = [] := by
  simp only [List.filter_eq_nil_iff, List.mem_map]
  rintro a ⟨x, _, rfl⟩
  simp [toStmt_isGate]

theorem verdict_filter (atol : α) (d : Nat → GStmt α → Except Err (List (GStmt α))) (i : Nat)
    (s : Stmt α) (r : List (Stmt α)) (h : verdict atol d i s = .ok r) :
    r.filter (fun s => !s.isGate) = [s].filter (fun s => !s.isGate) := by
  cases s with
  | gate g nm =>
    simp only [verdict] at h
    cases hd : d i (g, nm) with
    | error e => simp [hd] at h
    | ok repl =>
      cases hc : checkGateReplacement atol g (repl.map (·.1)) with
      | some e => simp [hd, hc] at h
      | none =>
        simp [hd, hc] at h; subst h
        rw [filter_nongate_map_toStmt]; simp [Stmt.isGate]
  | measure q b ax nm => simp [verdict] at h; subst h; rfl
  | reset q nm => simp [verdict] at h; subst h; rfl
  | comment c => simp [verdict] at h; subst h; rfl

/-- `decomposeLoop` is the generic loop with `verdict` as body and gates advancing the counter. -/
theorem decomposeLoop_eq_genLoop (atol : α) (d : Nat → GStmt α → Except Err (List (GStmt α)))
    (i : Nat) (out rest : List (Stmt α)) :
    decomposeLoop atol d i out rest = genLoop (verdict atol d) Stmt.isGate i out rest := by
  induction rest generalizing i out with
  | nil => simp [decomposeLoop, genLoop]
  | cons s rest ih =>
    cases s with
    | gate g nm =>
      simp only [decomposeLoop, genLoop, verdict]
      cases hd : d i (g, nm) with
      | error e => rfl
      | ok repl =>
        cases hc : checkGateReplacement atol g (repl.map (·.1)) with
        | some e => simp [hc]
        | none => simp only [hc]; rw [ih]; simp [Stmt.isGate]
    | measure q b ax nm => simp only [decomposeLoop, genLoop, verdict]; rw [ih]; simp [Stmt.isGate]
    | reset q nm => simp only [decomposeLoop, genLoop, verdict]; rw [ih]; simp [Stmt.isGate]
    | comment c => simp only [decomposeLoop, genLoop, verdict]; rw [ih]; simp [Stmt.isGate]

omit [Scalar α] in
theorem spliceSpec_eq_genSpec (d : Nat → GStmt α → Except Err (List (GStmt α))) (i : Nat)
    (l : List (Stmt α)) : spliceSpec d i l = genSpec (spliceChunk d) Stmt.isGate i l := by
  induction l generalizing i with
  | nil => rfl
  | cons s rest ih =>
    cases s <;> simp [spliceSpec, genSpec, ih, Stmt.isGate, spliceChunk]

omit [Scalar α] in
theorem spliceSpec_eq_flatten (d : Nat → GStmt α → Except Err (List (GStmt α))) (i : Nat)
    (l : List (Stmt α)) : spliceSpec d i l = (spliceChunks d i l).flatten := by
  rw [spliceSpec_eq_genSpec]
  induction l generalizing i with
  | nil => rfl
  | cons s rest ih => simp [genSpec, spliceChunks, ih]

omit [Scalar α] in
theorem spliceChunks_length (d : Nat → GStmt α → Except Err (List (GStmt α))) (i : Nat)
    (l : List (Stmt α)) : (spliceChunks d i l).length = l.length := by
  induction l generalizing i with
  | nil => rfl
  | cons s rest ih => simp [spliceChunks, ih]

omit [Scalar α] in
theorem spliceChunks_getElem? (d : Nat → GStmt α → Except Err (List (GStmt α))) (i : Nat)
    (l : List (Stmt α)) (k : Nat) :
    (spliceChunks d i l)[k]? = l[k]?.map (spliceChunk d (i + gateCount (l.take k))) := by
  induction l generalizing i k with
  | nil => simp [spliceChunks]
  | cons s rest ih =>
    cases k with
    | zero => simp [spliceChunks, gateCount]
    | succ k =>
      simp only [spliceChunks, List.getElem?_cons_succ, ih, List.take_succ_cons, gateCount,
        List.countP_cons]
      congr 2
      cases s.isGate <;> simp <;> omega

omit [Scalar α] in
/-- a non-gate statement is its own chunk: it stays, unchanged, at its place -/
theorem spliceChunks_nongate (d : Nat → GStmt α → Except Err (List (GStmt α))) (i : Nat)
    (l : List (Stmt α)) (k : Nat) (s : Stmt α) (hs : l[k]? = some s) (hg : s.isGate = false) :
    (spliceChunks d i l)[k]? = some [s] := by
  rw [spliceChunks_getElem?, hs]
  cases s <;> simp_all [spliceChunk, Stmt.isGate]

omit [Scalar α] in
/-- the chunk standing where a gate stood consists of gates only, namely `d`'s answer for that gate -/
theorem spliceChunks_gate (d : Nat → GStmt α → Except Err (List (GStmt α))) (i : Nat)
    (l : List (Stmt α)) (k : Nat) (g : Gate α) (nm : Option (Named α)) (repl : List (GStmt α))
    (hs : l[k]? = some (.gate g nm)) (hd : d (i + gateIdx l k) (g, nm) = .ok repl) :
    (spliceChunks d i l)[k]? = some (repl.map GStmt.toStmt) := by
  rw [spliceChunks_getElem?, hs]
  simp only [gateIdx] at hd
  simp [spliceChunk, hd]

omit [Scalar α] in
theorem spliceChunk_gate_all_gates (d : Nat → GStmt α → Except Err (List (GStmt α))) (i : Nat)
    (g : Gate α) (nm : Option (Named α)) : ∀ x ∈ spliceChunk d i (.gate g nm), x.isGate = true := by
  intro x hx
  simp only [spliceChunk] at hx
  cases hd : d i (g, nm) with
  | error e => simp [hd] at hx; subst hx; rfl
  | ok repl =>
    simp [hd] at hx
    obtain ⟨a, b, _, rfl⟩ := hx; rfl

/-- what an index-independent decomposer makes of a gate statement (the gate itself if it raises) -/
def replOf (d : GStmt α → Except Err (List (GStmt α))) (gs : GStmt α) : List (GStmt α) :=
  match d gs with
  | .ok r => r
  | .error _ => [gs]

omit [Scalar α] in
/-- For an index-independent decomposer the specification is literally a `flatMap`. -/
theorem spliceSpec_const (d : GStmt α → Except Err (List (GStmt α))) (i : Nat) (l : List (Stmt α)) :
    spliceSpec (fun _ => d) i l =
      l.flatMap fun s => match s with
        | .gate g nm => (replOf d (g, nm)).map GStmt.toStmt
        | s => [s] := by
  induction l generalizing i with
  | nil => rfl
  | cons s rest ih =>
    cases s with
    | gate g nm =>
      simp only [spliceSpec, List.flatMap_cons, ih, spliceChunk, replOf]
      cases d (g, nm) <;> simp [GStmt.toStmt]
    | measure q b ax nm => simp [spliceSpec, ih]
    | reset q nm => simp [spliceSpec, ih]
    | comment c => simp [spliceSpec, ih]

theorem okAt_verdict_iff (atol : α) (d : Nat → GStmt α → Except Err (List (GStmt α)))
    (stmts : List (Stmt α)) (k : Nat) :
    OkAt (verdict atol d) Stmt.isGate 0 stmts k ↔
      ∀ s, stmts[k]? = some s → Accepts atol d (gateIdx stmts k) s := by
  simp only [OkAt, ctrAt, gateIdx, gateCount, Nat.zero_add, verdict_ok_iff]

theorem errAt_verdict_iff (atol : α) (d : Nat → GStmt α → Except Err (List (GStmt α)))
    (stmts : List (Stmt α)) (k : Nat) (e : Err) :
    ErrAt (verdict atol d) Stmt.isGate 0 stmts k e ↔
      ∃ s, stmts[k]? = some s ∧ Rejects atol d (gateIdx stmts k) s e := by
  simp only [ErrAt, ctrAt, gateIdx, gateCount, Nat.zero_add, verdict_err_iff]

theorem decompose_eq_genLoop (atol : α) (d : Nat → GStmt α → Except Err (List (GStmt α)))
    (stmts : List (Stmt α)) :
    decompose atol d stmts = genLoop (verdict atol d) Stmt.isGate 0 [] stmts := by
  simp [decompose, decomposeLoop_eq_genLoop]

/-- **Replacements are spliced exactly where the gate stood.**  If every gate statement — the one at list
    position `k` receives call index `gateIdx stmts k`, the number of gate statements before it — is answered
    by the decomposer and passes the replacement check, `decompose` returns the specification and no error. -/
theorem decompose_ok_eq_flatMap (atol : α) (d : Nat → GStmt α → Except Err (List (GStmt α)))
    (stmts : List (Stmt α))
    (h : ∀ k g nm, stmts[k]? = some (.gate g nm) →
      ∃ repl, d (gateIdx stmts k) (g, nm) = .ok repl ∧
        checkGateReplacement atol g (repl.map (·.1)) = none) :
    decompose atol d stmts = (spliceSpec d 0 stmts, none) := by
  rw [decompose_eq_genLoop, spliceSpec_eq_genSpec,
    genLoop_ok _ _ (spliceChunk d) (verdict_chunk atol d) stmts 0 []]
  · simp
  · intro k
    rw [okAt_verdict_iff]
    rintro s hs g nm rfl
    exact h k g nm hs

/-- the literal `flatMap` form for an index-independent decomposer -/
theorem decompose_ok_flatMap_const (atol : α) (d : GStmt α → Except Err (List (GStmt α)))
    (stmts : List (Stmt α))
    (h : ∀ g nm, Stmt.gate g nm ∈ stmts →
      ∃ repl, d (g, nm) = .ok repl ∧ checkGateReplacement atol g (repl.map (·.1)) = none) :
    decompose atol (fun _ => d) stmts =
      (stmts.flatMap fun s => match s with
        | .gate g nm => (replOf d (g, nm)).map GStmt.toStmt
        | s => [s], none) := by
  rw [decompose_ok_eq_flatMap atol (fun _ => d) stmts, spliceSpec_const]
  intro k g nm hk
  exact h g nm (List.mem_of_getElem? hk)

/-- … in particular for the built-in decomposers -/
theorem decomposeBuiltin_ok_flatMap (atol : α) (d : Decomposer) (stmts : List (Stmt α))
    (h : ∀ g nm, Stmt.gate g nm ∈ stmts →
      ∃ repl, d.run atol (g, nm) = .ok repl ∧ checkGateReplacement atol g (repl.map (·.1)) = none) :
    decomposeBuiltin atol d stmts =
      (stmts.flatMap fun s => match s with
        | .gate g nm => (replOf (d.run atol) (g, nm)).map GStmt.toStmt
        | s => [s], none) :=
  decompose_ok_flatMap_const atol (d.run atol) stmts h

/-- **Failure leaves the replaced prefix and the untouched rest.**  If the gate at list position `k` is the
    first one that the decomposer refuses (raises `e`) or whose replacement the check rejects (with `e`),
    the IR left behind is the specification applied to the first `k` statements followed by the statements
    from position `k` on (the offending gate included), and the error is `e`. -/
theorem decompose_fail_prefix (atol : α) (d : Nat → GStmt α → Except Err (List (GStmt α)))
    (stmts : List (Stmt α)) (k : Nat) (g : Gate α) (nm : Option (Named α)) (e : Err)
    (hpre : ∀ j g' nm', j < k → stmts[j]? = some (.gate g' nm') →
      ∃ repl, d (gateIdx stmts j) (g', nm') = .ok repl ∧
        checkGateReplacement atol g' (repl.map (·.1)) = none)
    (hk : stmts[k]? = some (.gate g nm))
    (hrej : d (gateIdx stmts k) (g, nm) = .error e ∨
      ∃ repl, d (gateIdx stmts k) (g, nm) = .ok repl ∧
        checkGateReplacement atol g (repl.map (·.1)) = some e) :
    decompose atol d stmts = (spliceSpec d 0 (stmts.take k) ++ stmts.drop k, some e) := by
  rw [decompose_eq_genLoop, spliceSpec_eq_genSpec,
    genLoop_fail _ _ (spliceChunk d) (verdict_chunk atol d) stmts 0 [] k e]
  · simp
  · intro j hj
    rw [okAt_verdict_iff]
    rintro s hs g' nm' rfl
    exact hpre j g' nm' hj hs
  · rw [errAt_verdict_iff]
    exact ⟨_, hk, g, nm, rfl, hrej⟩

/-- **Comments, measurements and resets are untouched and in place** (same statements, same order),
    whether the pass succeeds or stops half-way. -/
theorem decompose_nongates (atol : α) (d : Nat → GStmt α → Except Err (List (GStmt α)))
    (stmts : List (Stmt α)) :
    (decompose atol d stmts).1.filter (fun s => !s.isGate) = stmts.filter (fun s => !s.isGate) := by
  rw [decompose_eq_genLoop, genLoop_filter _ _ _ (verdict_filter atol d)]
  simp

/-- **Totality**: every run of `decompose` ends in exactly one of the two forms above
    (the model is structurally recursive on the list of statements still to visit, so there is no
    other way for it to end). -/
theorem decompose_ok_or_prefix (atol : α) (d : Nat → GStmt α → Except Err (List (GStmt α)))
    (stmts : List (Stmt α)) :
    ((∀ k s, stmts[k]? = some s → Accepts atol d (gateIdx stmts k) s) ∧
        decompose atol d stmts = (spliceSpec d 0 stmts, none)) ∨
    (∃ k g nm e,
        (∀ j s, j < k → stmts[j]? = some s → Accepts atol d (gateIdx stmts j) s) ∧
        stmts[k]? = some (.gate g nm) ∧
        Rejects atol d (gateIdx stmts k) (.gate g nm) e ∧
        decompose atol d stmts = (spliceSpec d 0 (stmts.take k) ++ stmts.drop k, some e)) := by
  rw [decompose_eq_genLoop]
  rcases genLoop_total (verdict atol d) Stmt.isGate (spliceChunk d) (verdict_chunk atol d) stmts 0 []
    with ⟨hall, hres⟩ | ⟨k, e, hpre, herr, hres⟩
  · left
    refine ⟨fun k => (okAt_verdict_iff atol d stmts k).1 (hall k), ?_⟩
    rw [hres, spliceSpec_eq_genSpec]; simp
  · right
    obtain ⟨s, hs, g, nm, rfl, hrej⟩ := (errAt_verdict_iff atol d stmts k e).1 herr
    refine ⟨k, g, nm, e, fun j s hj => (okAt_verdict_iff atol d stmts j).1 (hpre j hj) s, hs,
      ⟨g, nm, rfl, hrej⟩, ?_⟩
    rw [hres, spliceSpec_eq_genSpec]; simp

/-- No error is reported iff every gate is accepted. -/
theorem decompose_none_iff (atol : α) (d : Nat → GStmt α → Except Err (List (GStmt α)))
    (stmts : List (Stmt α)) :
    (decompose atol d stmts).2 = none ↔
      ∀ k s, stmts[k]? = some s → Accepts atol d (gateIdx stmts k) s := by
  rw [decompose_eq_genLoop, genLoop_none_iff]
  exact forall_congr' fun k => okAt_verdict_iff atol d stmts k

/-! ## `replace` -/

/-- `s` is a named gate whose generator is called `name` -/
def matchesName (name : String) : Stmt α → Bool
  | .gate _ (some nm) => nm.name == name
  | _ => false

/-- Python's `_GenericReplacer.decompose`: anonymous gates and gates with another generator are returned as
    they are; for a matching gate `f` is called with the arguments (`j` = how often `f` was called before). -/
def genericReplacer (name : String) (f : Nat → List (Arg α) → Except Err (List (GStmt α))) (j : Nat)
    (gs : GStmt α) : Except Err (List (GStmt α)) :=
  match gs.2 with
  | some nm => if nm.name == name then f j nm.args else .ok [gs]
  | none => .ok [gs]

/-- what one statement becomes in the specification of `replace` -/
def replaceChunk (name : String) (f : Nat → List (Arg α) → Except Err (List (GStmt α))) (j : Nat)
    (s : Stmt α) : List (Stmt α) :=
  spliceChunk (genericReplacer name f) j s

/-- **Specification of `replace`**: the `j`-th (0-based) named gate called `name` is replaced by what
    `f j` returns for its arguments; every other statement is kept. -/
def replaceSpec (name : String) (f : Nat → List (Arg α) → Except Err (List (GStmt α))) :
    Nat → List (Stmt α) → List (Stmt α)
  | _, [] => []
  | j, s :: rest => replaceChunk name f j s ++ replaceSpec name f (j + (matchesName name s).toNat) rest

/-- the call index handed to `f` for the statement at list position `k` -/
def matchIdx (name : String) (stmts : List (Stmt α)) (k : Nat) : Nat :=
  (stmts.take k).countP (matchesName name)

omit [Scalar α] in
theorem genericReplacer_match (name : String) (f : Nat → List (Arg α) → Except Err (List (GStmt α)))
    (j : Nat) (g : Gate α) (n : Named α) (hn : n.name = name) :
    genericReplacer name f j (g, some n) = f j n.args := by
  simp [genericReplacer, hn]

omit [Scalar α] in
theorem genericReplacer_other (name : String) (f : Nat → List (Arg α) → Except Err (List (GStmt α)))
    (j : Nat) (g : Gate α) (nm : Option (Named α)) (h : matchesName name (.gate g nm) = false) :
    genericReplacer name f j (g, nm) = .ok [(g, nm)] := by
  cases nm with
  | none => rfl
  | some n => simp only [matchesName] at h; simp [genericReplacer, h]

omit [Scalar α] in
/-- **Only named gates called `name` are rewritten**: in the specification every other statement —
    anonymous gates, gates with another name, measurements, resets, comments — contributes itself. -/
theorem replace_only_named (name : String) (f : Nat → List (Arg α) → Except Err (List (GStmt α)))
    (j : Nat) (s : Stmt α) (h : matchesName name s = false) : replaceChunk name f j s = [s] := by
  cases s with
  | gate g nm => simp [replaceChunk, spliceChunk, genericReplacer_other name f j g nm h, GStmt.toStmt]
  | _ => rfl

omit [Scalar α] in
/-- a matching gate is replaced by `f`'s answer for its arguments -/
theorem replaceChunk_named (name : String) (f : Nat → List (Arg α) → Except Err (List (GStmt α)))
    (j : Nat) (g : Gate α) (n : Named α) (repl : List (GStmt α)) (hn : n.name = name)
    (hf : f j n.args = .ok repl) :
    replaceChunk name f j (.gate g (some n)) = repl.map GStmt.toStmt := by
  simp [replaceChunk, spliceChunk, genericReplacer_match name f j g n hn, hf]

/-- acceptance by `replace` of a matching gate: `f` answers and the check passes -/
theorem accepts_replacer_match (atol : α) (name : String)
    (f : Nat → List (Arg α) → Except Err (List (GStmt α))) (j : Nat) (g : Gate α) (n : Named α)
    (hn : n.name = name) :
    Accepts atol (genericReplacer name f) j (.gate g (some n)) ↔
      ∃ repl, f j n.args = .ok repl ∧ checkGateReplacement atol g (repl.map (·.1)) = none := by
  constructor
  · intro h
    obtain ⟨repl, hd, hc⟩ := h g (some n) rfl
    rw [genericReplacer_match name f j g n hn] at hd
    exact ⟨repl, hd, hc⟩
  · rintro ⟨repl, hf, hc⟩ g' nm' heq
    cases heq
    exact ⟨repl, by rw [genericReplacer_match name f j g n hn]; exact hf, hc⟩

/-- acceptance by `replace` of any other gate: its self-check passes -/
theorem accepts_replacer_other (atol : α) (name : String)
    (f : Nat → List (Arg α) → Except Err (List (GStmt α))) (j : Nat) (g : Gate α)
    (nm : Option (Named α)) (h : matchesName name (.gate g nm) = false) :
    Accepts atol (genericReplacer name f) j (.gate g nm) ↔ checkGateReplacement atol g [g] = none := by
  constructor
  · intro ha
    obtain ⟨repl, hd, hc⟩ := ha g nm rfl
    rw [genericReplacer_other name f j g nm h] at hd
    cases hd
    exact hc
  · rintro hc g' nm' heq
    cases heq
    exact ⟨[(g, nm)], genericReplacer_other name f j g nm h, hc⟩

/-- rejection by `replace` of a matching gate -/
theorem rejects_replacer_match (atol : α) (name : String)
    (f : Nat → List (Arg α) → Except Err (List (GStmt α))) (j : Nat) (g : Gate α) (n : Named α)
    (e : Err) (hn : n.name = name) :
    Rejects atol (genericReplacer name f) j (.gate g (some n)) e ↔
      (f j n.args = .error e ∨
        ∃ repl, f j n.args = .ok repl ∧ checkGateReplacement atol g (repl.map (·.1)) = some e) := by
  constructor
  · rintro ⟨g', nm', heq, h⟩
    cases heq
    rw [genericReplacer_match name f j g n hn] at h
    exact h
  · intro h
    exact ⟨g, some n, rfl, by rw [genericReplacer_match name f j g n hn]; exact h⟩

/-- rejection by `replace` of any other gate: its self-check fails -/
theorem rejects_replacer_other (atol : α) (name : String)
    (f : Nat → List (Arg α) → Except Err (List (GStmt α))) (j : Nat) (g : Gate α)
    (nm : Option (Named α)) (e : Err) (h : matchesName name (.gate g nm) = false) :
    Rejects atol (genericReplacer name f) j (.gate g nm) e ↔
      checkGateReplacement atol g [g] = some e := by
  constructor
  · rintro ⟨g', nm', heq, hr⟩
    cases heq
    rw [genericReplacer_other name f j g nm h] at hr
    rcases hr with hr | ⟨repl, hd, hc⟩
    · cases hr
    · cases hd; exact hc
  · intro hc
    exact ⟨g, nm, rfl, Or.inr ⟨[(g, nm)], genericReplacer_other name f j g nm h, hc⟩⟩

/-- `replace.go` is the generic loop whose body is the `decompose` body for `genericReplacer` and whose
    counter advances on matching gates only. -/
theorem replace_go_eq_genLoop (atol : α) (name : String)
    (f : Nat → List (Arg α) → Except Err (List (GStmt α))) (j : Nat) (out rest : List (Stmt α)) :
    replace.go atol name f j out rest =
      genLoop (verdict atol (genericReplacer name f)) (matchesName name) j out rest := by
  induction rest generalizing j out with
  | nil => simp [replace.go, genLoop]
  | cons s rest ih =>
    cases s with
    | gate g nm =>
      cases nm with
      | none =>
        simp only [replace.go, genLoop, verdict, genericReplacer, List.map_cons, List.map_nil]
        cases hc : checkGateReplacement atol g [g] with
        | some e => rfl
        | none => simp only []; rw [ih]; simp [matchesName, GStmt.toStmt]
      | some n =>
        simp only [replace.go, genLoop, verdict, genericReplacer]
        by_cases hn : (n.name == name) = true
        · simp only [hn, if_true]
          cases hf : f j n.args with
          | error e => rfl
          | ok repl =>
            cases hc : checkGateReplacement atol g (repl.map (·.1)) with
            | some e => simp [hc]
            | none => simp only [hc]; rw [ih]; simp [matchesName, hn]
        · simp only [hn, if_false, List.map_cons, List.map_nil, Bool.false_eq_true]
          cases hc : checkGateReplacement atol g [g] with
          | some e => rfl
          | none => simp only []; rw [ih]; simp [matchesName, hn, GStmt.toStmt]
    | measure q b ax nm => simp only [replace.go, genLoop, verdict]; rw [ih]; simp [matchesName]
    | reset q nm => simp only [replace.go, genLoop, verdict]; rw [ih]; simp [matchesName]
    | comment c => simp only [replace.go, genLoop, verdict]; rw [ih]; simp [matchesName]

theorem replace_eq_genLoop (atol : α) (name : String)
    (f : Nat → List (Arg α) → Except Err (List (GStmt α))) (stmts : List (Stmt α)) :
    replace atol name f stmts =
      genLoop (verdict atol (genericReplacer name f)) (matchesName name) 0 [] stmts := by
  simp [replace, replace_go_eq_genLoop]

omit [Scalar α] in
theorem replaceSpec_eq_genSpec (name : String) (f : Nat → List (Arg α) → Except Err (List (GStmt α)))
    (j : Nat) (l : List (Stmt α)) :
    replaceSpec name f j l =
      genSpec (spliceChunk (genericReplacer name f)) (matchesName name) j l := by
  induction l generalizing j with
  | nil => rfl
  | cons s rest ih => simp [replaceSpec, genSpec, ih, replaceChunk]

theorem okAt_rverdict_iff (atol : α) (name : String)
    (f : Nat → List (Arg α) → Except Err (List (GStmt α))) (stmts : List (Stmt α)) (k : Nat) :
    OkAt (verdict atol (genericReplacer name f)) (matchesName name) 0 stmts k ↔
      ∀ s, stmts[k]? = some s → Accepts atol (genericReplacer name f) (matchIdx name stmts k) s := by
  simp only [OkAt, ctrAt, matchIdx, Nat.zero_add, verdict_ok_iff]

theorem errAt_rverdict_iff (atol : α) (name : String)
    (f : Nat → List (Arg α) → Except Err (List (GStmt α))) (stmts : List (Stmt α)) (k : Nat) (e : Err) :
    ErrAt (verdict atol (genericReplacer name f)) (matchesName name) 0 stmts k e ↔
      ∃ s, stmts[k]? = some s ∧ Rejects atol (genericReplacer name f) (matchIdx name stmts k) s e := by
  simp only [ErrAt, ctrAt, matchIdx, Nat.zero_add, verdict_err_iff]

/-- the explicit acceptance condition of `replace` for the statement at position `k` -/
def RAcceptsAt (atol : α) (name : String) (f : Nat → List (Arg α) → Except Err (List (GStmt α)))
    (stmts : List (Stmt α)) (k : Nat) : Prop :=
  (∀ g n, stmts[k]? = some (.gate g (some n)) → n.name = name →
      ∃ repl, f (matchIdx name stmts k) n.args = .ok repl ∧
        checkGateReplacement atol g (repl.map (·.1)) = none) ∧
  (∀ g nm, stmts[k]? = some (.gate g nm) → matchesName name (.gate g nm) = false →
      checkGateReplacement atol g [g] = none)

/-- the explicit rejection condition of `replace` for the statement at position `k` -/
def RRejectsAt (atol : α) (name : String) (f : Nat → List (Arg α) → Except Err (List (GStmt α)))
    (stmts : List (Stmt α)) (k : Nat) (e : Err) : Prop :=
  ∃ g nm, stmts[k]? = some (.gate g nm) ∧
    ((∃ n, nm = some n ∧ n.name = name ∧
        (f (matchIdx name stmts k) n.args = .error e ∨
          ∃ repl, f (matchIdx name stmts k) n.args = .ok repl ∧
            checkGateReplacement atol g (repl.map (·.1)) = some e)) ∨
     (matchesName name (.gate g nm) = false ∧ checkGateReplacement atol g [g] = some e))

omit [Scalar α] in
theorem matchesName_cases (name : String) (g : Gate α) (nm : Option (Named α)) :
    (∃ n, nm = some n ∧ n.name = name ∧ matchesName name (.gate g nm) = true) ∨
      matchesName name (.gate g nm) = false := by
  cases nm with
  | none => right; rfl
  | some n =>
    by_cases hn : n.name = name
    · left; exact ⟨n, rfl, hn, by simp [matchesName, hn]⟩
    · right; simp [matchesName, hn]

theorem rAcceptsAt_iff (atol : α) (name : String)
    (f : Nat → List (Arg α) → Except Err (List (GStmt α))) (stmts : List (Stmt α)) (k : Nat) :
    (∀ s, stmts[k]? = some s → Accepts atol (genericReplacer name f) (matchIdx name stmts k) s) ↔
      RAcceptsAt atol name f stmts k := by
  constructor
  · intro h
    refine ⟨fun g n hk hn => ?_, fun g nm hk hm => ?_⟩
    · exact (accepts_replacer_match atol name f _ g n hn).1 (h _ hk)
    · exact (accepts_replacer_other atol name f _ g nm hm).1 (h _ hk)
  · rintro ⟨h1, h2⟩ s hs g nm rfl
    rcases matchesName_cases name g nm with ⟨n, rfl, hn, _⟩ | hm
    · exact (accepts_replacer_match atol name f _ g n hn).2 (h1 g n hs hn) g (some n) rfl
    · exact (accepts_replacer_other atol name f _ g nm hm).2 (h2 g nm hs hm) g nm rfl

theorem rRejectsAt_iff (atol : α) (name : String)
    (f : Nat → List (Arg α) → Except Err (List (GStmt α))) (stmts : List (Stmt α)) (k : Nat) (e : Err) :
    (∃ s, stmts[k]? = some s ∧ Rejects atol (genericReplacer name f) (matchIdx name stmts k) s e) ↔
      RRejectsAt atol name f stmts k e := by
  constructor
  · rintro ⟨s, hs, hr⟩
    obtain ⟨g, nm, rfl, _⟩ := id hr
    refine ⟨g, nm, hs, ?_⟩
    rcases matchesName_cases name g nm with ⟨n, rfl, hn, _⟩ | hm
    · exact Or.inl ⟨n, rfl, hn, (rejects_replacer_match atol name f _ g n e hn).1 hr⟩
    · exact Or.inr ⟨hm, (rejects_replacer_other atol name f _ g nm e hm).1 hr⟩
  · rintro ⟨g, nm, hs, ⟨n, rfl, hn, h⟩ | ⟨hm, hc⟩⟩
    · exact ⟨_, hs, (rejects_replacer_match atol name f _ g n e hn).2 h⟩
    · exact ⟨_, hs, (rejects_replacer_other atol name f _ g nm e hm).2 hc⟩

/-- If every matching gate is answered by `f` and passes the check, and every other gate passes its
    self-check, `replace` returns the specification and no error. -/
theorem replace_ok_eq_spec (atol : α) (name : String)
    (f : Nat → List (Arg α) → Except Err (List (GStmt α))) (stmts : List (Stmt α))
    (hmatch : ∀ k g n, stmts[k]? = some (.gate g (some n)) → n.name = name →
      ∃ repl, f (matchIdx name stmts k) n.args = .ok repl ∧
        checkGateReplacement atol g (repl.map (·.1)) = none)
    (hother : ∀ g nm, Stmt.gate g nm ∈ stmts → matchesName name (.gate g nm) = false →
      checkGateReplacement atol g [g] = none) :
    replace atol name f stmts = (replaceSpec name f 0 stmts, none) := by
  rw [replace_eq_genLoop, replaceSpec_eq_genSpec,
    genLoop_ok _ _ (spliceChunk (genericReplacer name f)) (verdict_chunk atol _) stmts 0 []]
  · simp
  · intro k
    rw [okAt_rverdict_iff, rAcceptsAt_iff]
    exact ⟨fun g n hk hn => hmatch k g n hk hn,
      fun g nm hk hm => hother g nm (List.mem_of_getElem? hk) hm⟩

/-- Failure of `replace` leaves the replaced prefix and the untouched rest. -/
theorem replace_fail_prefix (atol : α) (name : String)
    (f : Nat → List (Arg α) → Except Err (List (GStmt α))) (stmts : List (Stmt α))
    (k : Nat) (e : Err)
    (hpre : ∀ j, j < k → RAcceptsAt atol name f stmts j)
    (hrej : RRejectsAt atol name f stmts k e) :
    replace atol name f stmts = (replaceSpec name f 0 (stmts.take k) ++ stmts.drop k, some e) := by
  rw [replace_eq_genLoop, replaceSpec_eq_genSpec,
    genLoop_fail _ _ (spliceChunk (genericReplacer name f)) (verdict_chunk atol _) stmts 0 [] k e]
  · simp
  · intro j hj
    rw [okAt_rverdict_iff, rAcceptsAt_iff]
    exact hpre j hj
  · rw [errAt_rverdict_iff, rRejectsAt_iff]
    exact hrej

/-- Comments, measurements and resets are untouched and in place, in every case. -/
theorem replace_nongates (atol : α) (name : String)
    (f : Nat → List (Arg α) → Except Err (List (GStmt α))) (stmts : List (Stmt α)) :
    (replace atol name f stmts).1.filter (fun s => !s.isGate) = stmts.filter (fun s => !s.isGate) := by
  rw [replace_eq_genLoop, genLoop_filter _ _ _ (verdict_filter atol _)]
  simp

/-- Totality for `replace` (again the model is structurally recursive). -/
theorem replace_ok_or_prefix (atol : α) (name : String)
    (f : Nat → List (Arg α) → Except Err (List (GStmt α))) (stmts : List (Stmt α)) :
    ((∀ k, RAcceptsAt atol name f stmts k) ∧
        replace atol name f stmts = (replaceSpec name f 0 stmts, none)) ∨
    (∃ k e, (∀ j, j < k → RAcceptsAt atol name f stmts j) ∧ RRejectsAt atol name f stmts k e ∧
        replace atol name f stmts = (replaceSpec name f 0 (stmts.take k) ++ stmts.drop k, some e)) := by
  rw [replace_eq_genLoop]
  rcases genLoop_total (verdict atol (genericReplacer name f)) (matchesName name)
    (spliceChunk (genericReplacer name f)) (verdict_chunk atol _) stmts 0 []
    with ⟨hall, hres⟩ | ⟨k, e, hpre, herr, hres⟩
  · left
    refine ⟨fun k => (rAcceptsAt_iff ..).1 ((okAt_rverdict_iff atol name f stmts k).1 (hall k)), ?_⟩
    rw [hres, replaceSpec_eq_genSpec]; simp
  · right
    refine ⟨k, e, fun j hj => (rAcceptsAt_iff ..).1 ((okAt_rverdict_iff atol name f stmts j).1 (hpre j hj)),
      (rRejectsAt_iff ..).1 ((errAt_rverdict_iff atol name f stmts k e).1 herr), ?_⟩
    rw [hres, replaceSpec_eq_genSpec]; simp

omit [Scalar α] in
theorem replaceSpec_no_match (name : String) (f : Nat → List (Arg α) → Except Err (List (GStmt α)))
    (j : Nat) (l : List (Stmt α)) (h : ∀ s ∈ l, matchesName name s = false) :
    replaceSpec name f j l = l := by
  induction l generalizing j with
  | nil => rfl
  | cons s rest ih =>
    have hs := h s (List.mem_cons_self ..)
    simp [replaceSpec, replace_only_named name f j s hs, hs,
      ih j (fun x hx => h x (List.mem_cons_of_mem _ hx))]

/-- If no gate is called `name` and every gate passes its self-check, the IR is returned unchanged. -/
theorem replace_no_match (atol : α) (name : String)
    (f : Nat → List (Arg α) → Except Err (List (GStmt α))) (stmts : List (Stmt α))
    (hno : ∀ s ∈ stmts, matchesName name s = false)
    (hself : ∀ g nm, Stmt.gate g nm ∈ stmts → checkGateReplacement atol g [g] = none) :
    replace atol name f stmts = (stmts, none) := by
  rw [replace_ok_eq_spec atol name f stmts, replaceSpec_no_match name f 0 stmts hno]
  · intro k g n hk hn
    have := hno _ (List.mem_of_getElem? hk)
    simp [matchesName, hn] at this
  · intro g nm hm _; exact hself g nm hm

omit [Scalar α] in
/-- For an index-independent `f` the specification of `replace` is literally a `flatMap`. -/
theorem replaceSpec_const (name : String) (f : List (Arg α) → Except Err (List (GStmt α))) (j : Nat)
    (l : List (Stmt α)) :
    replaceSpec name (fun _ => f) j l = l.flatMap (replaceChunk name (fun _ => f) 0) := by
  induction l generalizing j with
  | nil => rfl
  | cons s rest ih =>
    simp only [replaceSpec, List.flatMap_cons, ih]
    congr 1

theorem replace_ok_flatMap_const (atol : α) (name : String)
    (f : List (Arg α) → Except Err (List (GStmt α))) (stmts : List (Stmt α))
    (hmatch : ∀ g n, Stmt.gate g (some n) ∈ stmts → n.name = name →
      ∃ repl, f n.args = .ok repl ∧ checkGateReplacement atol g (repl.map (·.1)) = none)
    (hother : ∀ g nm, Stmt.gate g nm ∈ stmts → matchesName name (.gate g nm) = false →
      checkGateReplacement atol g [g] = none) :
    replace atol name (fun _ => f) stmts =
      (stmts.flatMap (replaceChunk name (fun _ => f) 0), none) := by
  rw [replace_ok_eq_spec atol name (fun _ => f) stmts _ hother, replaceSpec_const]
  intro k g n hk hn
  exact hmatch g n (List.mem_of_getElem? hk) hn

/-- For an index-independent `f`, `replace` is `decompose` with Python's `_GenericReplacer`
    (this is how `general_decomposer.replace` is written). -/
theorem replace_eq_decompose_const (atol : α) (name : String)
    (f : List (Arg α) → Except Err (List (GStmt α))) (stmts : List (Stmt α)) :
    replace atol name (fun _ => f) stmts =
      decompose atol (fun _ => genericReplacer name (fun _ => f) 0) stmts := by
  rw [replace_eq_genLoop, decompose_eq_genLoop]
  exact genLoop_congr _ _ _ _ (fun i i' s => by cases s <;> rfl) stmts 0 0 []

/-! ## Non-vacuity examples

  The theorems hold for every scalar type; to exhibit concrete inputs on which the hypotheses (which mention
  `checkGateReplacement`) can be *evaluated by the kernel*, we use a toy scalar: the integers with trivial
  trigonometry (`cos = 1`, `sin = 0`), for which every rotation is the identity matrix, so a replacement is
  accepted iff it stays on the qubits of the gate it replaces. -/
namespace DecomposeLoopExamples

local instance : Trig Int where
  pi := 3
  sin _ := 0
  cos _ := 1
  tan _ := 0
  acos _ := 0
  sqrt x := x
  atan2 _ _ := 0
  floor x := x
  abs x := x.natAbs
  copysign x _ := x
  finite _ := true
local instance : OfScientific Int := ⟨fun _ _ _ => 0⟩
local instance : Scalar Int where
  decLt := inferInstance
  decLe := inferInstance
  decEqB x y := x == y

def rot (q : Int) : Gate Int := .bsr q (1, 0, 0) 0 0
def nRx (q : Int) : Named Int := ⟨"Rx", [.qubit q]⟩
def nRy (q : Int) : Named Int := ⟨"Ry", [.qubit q]⟩
def ax : Vec3 Int := (0, 0, 1)

/-- comment, named gate, measurement, anonymous gate, reset, named gate -/
def prog : List (Stmt Int) :=
  [.comment "a", .gate (rot 0) (some (nRx 0)), .measure 0 0 ax none, .gate (rot 1) none, .reset 1 none,
   .gate (rot 1) (some (nRy 1))]

/-- a call-index dependent decomposer: the `i`-th gate is repeated `i + 1` times -/
def dRep : Nat → GStmt Int → Except Err (List (GStmt Int)) := fun i gs => .ok (List.replicate (i + 1) gs)

/-- a decomposer that raises `TypeError` on its second call -/
def dFail : Nat → GStmt Int → Except Err (List (GStmt Int)) :=
  fun i gs => if i = 1 then .error .type else .ok [gs, gs]

/-- a decomposer whose second answer acts on a foreign qubit (rejected by the check) -/
def dBad : Nat → GStmt Int → Except Err (List (GStmt Int)) :=
  fun i gs => if i = 1 then .ok [(rot 7, none)] else .ok [gs, gs]

example : spliceSpec dRep 0 prog =
    [.comment "a", .gate (rot 0) (some (nRx 0)), .measure 0 0 ax none, .gate (rot 1) none, .gate (rot 1) none,
     .reset 1 none, .gate (rot 1) (some (nRy 1)), .gate (rot 1) (some (nRy 1)), .gate (rot 1) (some (nRy 1))] :=
  rfl

/-- `decompose_ok_eq_flatMap` on `prog` with `dRep` -/
example : decompose (0 : Int) dRep prog = (spliceSpec dRep 0 prog, none) := by
  apply decompose_ok_eq_flatMap
  intro k g nm hk
  match k, hk with
  | 1, hk =>
    simp only [prog, List.getElem?_cons_succ, List.getElem?_cons_zero, Option.some.injEq,
      Stmt.gate.injEq] at hk
    obtain ⟨rfl, rfl⟩ := hk
    exact ⟨_, rfl, by decide⟩
  | 3, hk =>
    simp only [prog, List.getElem?_cons_succ, List.getElem?_cons_zero, Option.some.injEq,
      Stmt.gate.injEq] at hk
    obtain ⟨rfl, rfl⟩ := hk
    exact ⟨_, rfl, by decide⟩
  | 5, hk =>
    simp only [prog, List.getElem?_cons_succ, List.getElem?_cons_zero, Option.some.injEq,
      Stmt.gate.injEq] at hk
    obtain ⟨rfl, rfl⟩ := hk
    exact ⟨_, rfl, by decide⟩
  | 0, hk | 2, hk | 4, hk | k + 6, hk => simp [prog] at hk

/-- `decompose_fail_prefix` on `prog` with `dFail`: the second gate (list position 3) makes the decomposer
    raise; the first gate has been replaced, everything from position 3 on is untouched. -/
example : decompose (0 : Int) dFail prog =
    ([.comment "a", .gate (rot 0) (some (nRx 0)), .gate (rot 0) (some (nRx 0)), .measure 0 0 ax none,
      .gate (rot 1) none, .reset 1 none, .gate (rot 1) (some (nRy 1))], some .type) := by
  rw [decompose_fail_prefix (0 : Int) dFail prog 3 (rot 1) none .type]
  · rfl
  · intro j g nm hj hk
    match j, hj, hk with
    | 1, _, hk =>
      simp only [prog, List.getElem?_cons_succ, List.getElem?_cons_zero, Option.some.injEq,
        Stmt.gate.injEq] at hk
      obtain ⟨rfl, rfl⟩ := hk
      exact ⟨_, rfl, by decide⟩
    | 0, _, hk | 2, _, hk => simp [prog] at hk
  · rfl
  · exact Or.inl rfl

/-- the same with a replacement rejected by the check (`ValueError`) -/
example : decompose (0 : Int) dBad prog =
    ([.comment "a", .gate (rot 0) (some (nRx 0)), .gate (rot 0) (some (nRx 0)), .measure 0 0 ax none,
      .gate (rot 1) none, .reset 1 none, .gate (rot 1) (some (nRy 1))], some .value) := by
  rw [decompose_fail_prefix (0 : Int) dBad prog 3 (rot 1) none .value]
  · rfl
  · intro j g nm hj hk
    match j, hj, hk with
    | 1, _, hk =>
      simp only [prog, List.getElem?_cons_succ, List.getElem?_cons_zero, Option.some.injEq,
        Stmt.gate.injEq] at hk
      obtain ⟨rfl, rfl⟩ := hk
      exact ⟨_, rfl, by decide⟩
    | 0, _, hk | 2, _, hk => simp [prog] at hk
  · rfl
  · exact Or.inr ⟨_, rfl, by decide⟩

/-- `decompose_nongates` / `decompose_ok_or_prefix` need no hypotheses; here on the failing run -/
example : (decompose (0 : Int) dBad prog).1.filter (fun s => !s.isGate) =
    [.comment "a", .measure 0 0 ax none, .reset 1 none] :=
  decompose_nongates (0 : Int) dBad prog

/-- `replace` of `Rx` by two copies; the anonymous gate and `Ry` are kept (their self-checks pass) -/
def fTwice : Nat → List (Arg Int) → Except Err (List (GStmt Int)) := fun _ args =>
  match args with
  | [.qubit q] => .ok [(rot q, some (nRx q)), (rot q, none)]
  | _ => .error .type

example : replace (0 : Int) "Rx" fTwice prog =
    ([.comment "a", .gate (rot 0) (some (nRx 0)), .gate (rot 0) none, .measure 0 0 ax none,
      .gate (rot 1) none, .reset 1 none, .gate (rot 1) (some (nRy 1))], none) := by
  rw [replace_ok_eq_spec (0 : Int) "Rx" fTwice prog]
  · rfl
  · intro k g n hk hn
    match k, hk with
    | 1, hk =>
      simp only [prog, List.getElem?_cons_succ, List.getElem?_cons_zero, Option.some.injEq,
        Stmt.gate.injEq] at hk
      obtain ⟨rfl, rfl⟩ := hk
      exact ⟨_, rfl, by decide⟩
    | 5, hk =>
      simp only [prog, List.getElem?_cons_succ, List.getElem?_cons_zero, Option.some.injEq,
        Stmt.gate.injEq] at hk
      obtain ⟨rfl, rfl⟩ := hk
      simp [nRy] at hn
    | 0, hk | 2, hk | 3, hk | 4, hk | k + 6, hk => simp [prog] at hk
  · intro g nm hm _
    simp only [prog, List.mem_cons, Stmt.gate.injEq, reduceCtorEq, false_or, List.not_mem_nil,
      or_false] at hm
    rcases hm with ⟨rfl, _⟩ | ⟨rfl, _⟩ | ⟨rfl, _⟩ <;> decide

/-- `replace_no_match`: nothing is called `"H"`, so the IR comes back unchanged -/
example : replace (0 : Int) "H" fTwice prog = (prog, none) := by
  apply replace_no_match
  · intro s hs
    simp only [prog, List.mem_cons, List.not_mem_nil, or_false] at hs
    rcases hs with rfl | rfl | rfl | rfl | rfl | rfl <;> simp [matchesName, nRx, nRy]
  · intro g nm hm
    simp only [prog, List.mem_cons, Stmt.gate.injEq, reduceCtorEq, false_or, List.not_mem_nil,
      or_false] at hm
    rcases hm with ⟨rfl, _⟩ | ⟨rfl, _⟩ | ⟨rfl, _⟩ <;> decide

/-- `replace_fail_prefix`: `f` raises on the only `Ry` (list position 5); the prefix is as it was because
    nothing before is called `Ry` -/
example : replace (0 : Int) "Ry" (fun _ _ => .error .key) prog = (prog, some .key) := by
  rw [replace_fail_prefix (0 : Int) "Ry" (fun _ _ => .error .key) prog 5 .key]
  · rfl
  · intro j hj
    refine ⟨fun g n hk hn => ?_, fun g nm hk _ => ?_⟩
    · match j, hj, hk with
      | 1, _, hk =>
        simp only [prog, List.getElem?_cons_succ, List.getElem?_cons_zero, Option.some.injEq,
          Stmt.gate.injEq] at hk
        obtain ⟨rfl, rfl⟩ := hk
        simp [nRx] at hn
      | 0, _, hk | 2, _, hk | 3, _, hk | 4, _, hk => simp [prog] at hk
    · match j, hj, hk with
      | 1, _, hk | 3, _, hk =>
        simp only [prog, List.getElem?_cons_succ, List.getElem?_cons_zero, Option.some.injEq,
          Stmt.gate.injEq] at hk
        obtain ⟨rfl, rfl⟩ := hk
        decide
      | 0, _, hk | 2, _, hk | 4, _, hk => simp [prog] at hk
  · exact ⟨rot 1, some (nRy 1), rfl, Or.inl ⟨nRy 1, rfl, rfl, Or.inl rfl⟩⟩

end DecomposeLoopExamples

end OSq

#print axioms OSq.genLoop_total
#print axioms OSq.decompose_ok_eq_flatMap
#print axioms OSq.decompose_ok_flatMap_const
#print axioms OSq.decomposeBuiltin_ok_flatMap
#print axioms OSq.decompose_fail_prefix
#print axioms OSq.decompose_nongates
#print axioms OSq.decompose_ok_or_prefix
#print axioms OSq.decompose_none_iff
#print axioms OSq.spliceSpec_const
#print axioms OSq.spliceSpec_eq_flatten
#print axioms OSq.spliceChunks_nongate
#print axioms OSq.spliceChunks_gate
#print axioms OSq.replace_only_named
#print axioms OSq.replace_ok_eq_spec
#print axioms OSq.replace_fail_prefix
#print axioms OSq.replace_nongates
#print axioms OSq.replace_ok_or_prefix
#print axioms OSq.replace_no_match
#print axioms OSq.replace_ok_flatMap_const
#print axioms OSq.replace_eq_decompose_const
