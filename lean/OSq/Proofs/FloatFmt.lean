import Mathlib.Tactic.Ring
import Mathlib.Tactic.Linarith
import Mathlib.Tactic.GCongr
import Mathlib.Tactic.Positivity
import Mathlib.Tactic.FieldSimp
import Mathlib.Algebra.Order.Field.Basic
import Mathlib.Algebra.Order.AbsoluteValue.Basic
import Mathlib.Data.Rat.Cast.Order
import OSq.Proofs.SplitOn
import OSq.Proofs.Writer
/-
  OSq.Proofs.FloatFmt — the float formatter of `OSq/Model/Text.lean`: Python's `format(x, '.P')` computed from
  the IEEE-754 bits by exact integer arithmetic (`roundSig`, `fmtPos`, `fmtBits`) and the repaired `visit_float`
  (`fixExponent`, `fmtFloat`) of `writer/writer.py` / `exporter/cqasmv1_exporter.py`.
  Property C04: the written float is a cQASM float literal.
  The string part uses `OSq.Proofs.SplitOn` (Batteries' string-position lemmas, for `String.splitOn`); the
  arithmetic part (`roundSig_bounds`) uses Mathlib tactics (`ring`, `gcongr`, `positivity`, `field_simp`).

  Recognisers (decidable, on the character list)
  * `isFloatText`    `[-]d+.d+ | [-]d(.d+)?e[+-]dd+`     what Python's `format(x, '.P')` produces for finite `x`
  * `isCqasmFloat`   `[-]d+.d+(e[+-]dd+)?`                cQASM's FLOAT_LITERAL: always a decimal point
  and their declarative counterparts `FixedForm`, `ExpForm`, `PointExpForm` (explicit decompositions);
  `isCqasmFloat_iff`: `isCqasmFloat s = true ↔ FixedForm s.toList ∨ PointExpForm s.toList`.

  Theorems
  * `fmtPos_eq`, `fmtDigs_form`   `fmtPos` = layout `fmtDigs` of the rounded digits; its two shapes.
  * `fmtPos_shape`        `isFloatText (fmtPos P num den) = true`          (for all `P`, `num`, `den`).
  * `fmtBits_form`, `fmtBits_shape`   the same for `fmtBits P bits`, every finite bit pattern (sign included).
  * `fixExponent_no_e`    a text without `e` is unchanged.
  * `fixExponent_exp`     `mant e ex` ↦ itself if `mant` has a point, else `mant.0 e ex`.
  * `fixExponent_has_point`  … so afterwards the mantissa part contains a `.`.
  * `fixExponent_form`    Python's two shapes become `[-]d+.d+` / `[-]d+.d+e[+-]dd+`.
  * `fmtFloat_literal`    for every finite bit pattern `isCqasmFloat (fixExponent (fmtBits P bits)) = true`;
    `fmtFloat_literal'`   the same for `fmtFloat P x`;  `isCqasmFloat_has_point`: such a text contains `'.'`.
    Counterexample without the repair (`example`s): `fmtBits 8 (bits of 1e-05) = "1e-05"`, not a cQASM literal.
  * `noNl_fmtFloat`       `fmtFloat P x` never contains a newline (all `x`, also `inf`/`nan`): discharges the
    `writeStmt_one_line_float`  formatter hypothesis of `OSq.Proofs.Writer.writeStmt_one_line`.
  * `findUp_spec`, `findDown_spec`, `e10_spec`   the decimal exponent search (`10^E ≤ num/den < 10^(E+1)`).
  * `roundHE_spec`        half-even rounding of a quotient is within 1/2 of it.
  * `roundSig_bounds`     for `P ≥ 1`, `den > 0`, `10^-400 ≤ num/den < 10^400`: `roundSig P num den = (d, e)` with
                          `10^(P-1) ≤ d < 10^P` and `HalfUlp P num den d e` (cross-multiplied in ℕ).
  * `halfUlp_iff`         `HalfUlp P num den d e ↔ |num/den − d·10^(e−P)| ≤ 10^(e−P)/2` over ℚ.
  * `roundSig_bounds_rat` the ℚ form of `roundSig_bounds`.
  * `fmtBits_eq`, `bitsFrac_range`   for a finite non-zero double, `fmtBits` formats `|x| = num/den` exactly, and
                          `num/den` satisfies the range assumption (so it is no restriction for doubles).
  * `fmtBits_correctly_rounded`  capstone: the digits laid out by `fmtBits P bits` are the `P`-digit half-ulp
                          rounding of the exact value of the double.
-/
set_option exponentiation.threshold 2000
namespace OSq

/-! ### Recognisers -/

/-- `[+-]dd+` -/
def isExpTail : List Char → Bool
  | s :: ds => (s == '+' || s == '-') && decide (2 ≤ ds.length) && ds.all Char.isDigit
  | [] => false

def stripSign : List Char → List Char
  | '-' :: t => t
  | l => l

/-- `[-]d+.d+ | [-]d(.d+)?e[+-]dd+` : the texts Python's `format(x, '.P')` produces for finite `x` -/
def isFloatTextL (l0 : List Char) : Bool :=
  let l := stripSign l0
  let ip := l.takeWhile Char.isDigit
  match l.dropWhile Char.isDigit with
  | '.' :: r =>
      let fp := r.takeWhile Char.isDigit
      !ip.isEmpty && !fp.isEmpty &&
      (match r.dropWhile Char.isDigit with
       | [] => true
       | 'e' :: t => ip.length == 1 && isExpTail t
       | _ => false)
  | 'e' :: t => ip.length == 1 && isExpTail t
  | _ => false

/-- `[-]d+.d+(e[+-]dd+)?` : cQASM's `FLOAT_LITERAL` — always with a decimal point -/
def isCqasmFloatL (l0 : List Char) : Bool :=
  let l := stripSign l0
  let ip := l.takeWhile Char.isDigit
  match l.dropWhile Char.isDigit with
  | '.' :: r =>
      let fp := r.takeWhile Char.isDigit
      !ip.isEmpty && !fp.isEmpty &&
      (match r.dropWhile Char.isDigit with
       | [] => true
       | 'e' :: t => isExpTail t
       | _ => false)
  | _ => false

def isFloatText (s : String) : Bool := isFloatTextL s.toList
def isCqasmFloat (s : String) : Bool := isCqasmFloatL s.toList

/-! ### Shapes -/

/-- all characters are decimal digits -/
def Digits (l : List Char) : Prop := ∀ c ∈ l, c.isDigit = true

theorem Digits.append {a b : List Char} (ha : Digits a) (hb : Digits b) : Digits (a ++ b) := by
  intro c hc; rcases List.mem_append.1 hc with h | h
  · exact ha c h
  · exact hb c h

theorem Digits.take {a : List Char} (ha : Digits a) (n : Nat) : Digits (a.take n) :=
  fun c hc => ha c (List.mem_of_mem_take hc)

theorem Digits.drop {a : List Char} (ha : Digits a) (n : Nat) : Digits (a.drop n) :=
  fun c hc => ha c (List.mem_of_mem_drop hc)

theorem digits_replicate_zero (n : Nat) : Digits (List.replicate n '0') := by
  intro c hc; rw [(List.mem_replicate.1 hc).2]; rfl

theorem digits_toDigits (n : Nat) : Digits (Nat.toDigits 10 n) :=
  fun _ hc => Nat.isDigit_of_mem_toDigits (by decide) (by decide) hc

theorem Digits.not_mem {l : List Char} (h : Digits l) (c : Char) (hc : c.isDigit = false) : c ∉ l := by
  intro hm; rw [h c hm] at hc; cases hc

private theorem takeWhile_digits (ds r : List Char) (h : Digits ds)
    (hr : ∀ c t, r = c :: t → c.isDigit = false) :
    (ds ++ r).takeWhile Char.isDigit = ds ∧ (ds ++ r).dropWhile Char.isDigit = r := by
  rw [List.takeWhile_append_of_pos h, List.dropWhile_append_of_pos h]
  cases r with
  | nil => simp
  | cons c t => simp [hr c t rfl]

private theorem stripSign_digit (l : List Char) (c : Char) (t : List Char) (h : l = c :: t) (hc : c.isDigit = true) :
    stripSign l = l := by
  subst h
  unfold stripSign
  split
  · next heq => cases heq; exact absurd hc (by decide)
  · rfl

/-- fixed notation: `[-] d+ . d+` -/
def FixedForm (l : List Char) : Prop :=
  ∃ sg ip fp, l = sg ++ ip ++ '.' :: fp ∧ (sg = [] ∨ sg = ['-']) ∧ Digits ip ∧ ip ≠ [] ∧ Digits fp ∧ fp ≠ []

/-- `[+-] d d+` -/
def ExpTailForm (l : List Char) : Prop :=
  ∃ s ds, l = s :: ds ∧ (s = '+' ∨ s = '-') ∧ Digits ds ∧ 2 ≤ ds.length

/-- exponent notation: `[-] d (. d+)? e [+-] d d+` -/
def ExpForm (l : List Char) : Prop :=
  ∃ sg d fr ex, l = sg ++ d :: fr ++ 'e' :: ex ∧ (sg = [] ∨ sg = ['-']) ∧ d.isDigit = true ∧
    (fr = [] ∨ ∃ fp, fr = '.' :: fp ∧ Digits fp ∧ fp ≠ []) ∧ ExpTailForm ex

/-- exponent notation with a decimal point: `[-] d+ . d+ e [+-] d d+` -/
def PointExpForm (l : List Char) : Prop :=
  ∃ sg ip fp ex, l = sg ++ ip ++ '.' :: fp ++ 'e' :: ex ∧ (sg = [] ∨ sg = ['-']) ∧ Digits ip ∧ ip ≠ [] ∧
    Digits fp ∧ fp ≠ [] ∧ ExpTailForm ex

theorem isExpTail_of_form {l : List Char} (h : ExpTailForm l) : isExpTail l = true := by
  obtain ⟨s, ds, rfl, hs, hd, hl⟩ := h
  simp only [isExpTail, Bool.and_eq_true, Bool.or_eq_true, beq_iff_eq, decide_eq_true_eq, List.all_eq_true]
  exact ⟨⟨hs, hl⟩, hd⟩

private theorem strip_sg (sg rest : List Char) (hsg : sg = [] ∨ sg = ['-']) (c : Char) (t : List Char)
    (hrest : rest = c :: t) (hc : c.isDigit = true) : stripSign (sg ++ rest) = rest := by
  rcases hsg with rfl | rfl
  · simpa using stripSign_digit rest c t hrest hc
  · rfl

theorem isFloatTextL_fixed {l : List Char} (h : FixedForm l) : isFloatTextL l = true := by
  obtain ⟨sg, ip, fp, rfl, hsg, hip, hipne, hfp, hfpne⟩ := h
  obtain ⟨c, t, rfl⟩ := List.exists_cons_of_ne_nil hipne
  have hs : stripSign (sg ++ (c :: t) ++ '.' :: fp) = (c :: t) ++ '.' :: fp := by
    rw [List.append_assoc]; exact strip_sg sg _ hsg c (t ++ '.' :: fp) rfl (hip c (by simp))
  have h1 := takeWhile_digits (c :: t) ('.' :: fp) hip (by intro c' t' h; cases h; rfl)
  have h2 := takeWhile_digits fp [] hfp (by intro c' t' h; cases h)
  simp only [List.append_nil] at h2
  unfold isFloatTextL
  simp only [hs, h1.1, h1.2, h2.1, h2.2]
  cases fp with
  | nil => exact absurd rfl hfpne
  | cons _ _ => rfl

theorem isCqasmFloatL_fixed {l : List Char} (h : FixedForm l) : isCqasmFloatL l = true := by
  obtain ⟨sg, ip, fp, rfl, hsg, hip, hipne, hfp, hfpne⟩ := h
  obtain ⟨c, t, rfl⟩ := List.exists_cons_of_ne_nil hipne
  have hs : stripSign (sg ++ (c :: t) ++ '.' :: fp) = (c :: t) ++ '.' :: fp := by
    rw [List.append_assoc]; exact strip_sg sg _ hsg c (t ++ '.' :: fp) rfl (hip c (by simp))
  have h1 := takeWhile_digits (c :: t) ('.' :: fp) hip (by intro c' t' h; cases h; rfl)
  have h2 := takeWhile_digits fp [] hfp (by intro c' t' h; cases h)
  simp only [List.append_nil] at h2
  unfold isCqasmFloatL
  simp only [hs, h1.1, h1.2, h2.1, h2.2]
  cases fp with
  | nil => exact absurd rfl hfpne
  | cons _ _ => rfl

theorem isCqasmFloatL_pointExp {l : List Char} (h : PointExpForm l) : isCqasmFloatL l = true := by
  obtain ⟨sg, ip, fp, ex, rfl, hsg, hip, hipne, hfp, hfpne, hex⟩ := h
  obtain ⟨c, t, rfl⟩ := List.exists_cons_of_ne_nil hipne
  have hs : stripSign (sg ++ (c :: t) ++ '.' :: fp ++ 'e' :: ex) = (c :: t) ++ '.' :: (fp ++ 'e' :: ex) := by
    have := strip_sg sg ((c :: t) ++ '.' :: (fp ++ 'e' :: ex)) hsg c (t ++ '.' :: (fp ++ 'e' :: ex)) rfl
      (hip c (by simp))
    simpa [List.append_assoc] using this
  have h1 := takeWhile_digits (c :: t) ('.' :: (fp ++ 'e' :: ex)) hip (by intro c' t' h; cases h; rfl)
  have h2 := takeWhile_digits fp ('e' :: ex) hfp (by intro c' t' h; cases h; rfl)
  unfold isCqasmFloatL
  simp only [hs, h1.1, h1.2, h2.1, h2.2, isExpTail_of_form hex]
  cases fp with
  | nil => exact absurd rfl hfpne
  | cons _ _ => rfl

theorem isFloatTextL_exp {l : List Char} (h : ExpForm l) : isFloatTextL l = true := by
  obtain ⟨sg, d, fr, ex, rfl, hsg, hd, hfr, hex⟩ := h
  have hd1 : Digits [d] := by intro c hc; rw [List.mem_singleton.1 hc]; exact hd
  rcases hfr with rfl | ⟨fp, rfl, hfp, hfpne⟩
  · have hs : stripSign (sg ++ d :: [] ++ 'e' :: ex) = [d] ++ 'e' :: ex := by
      have := strip_sg sg ([d] ++ 'e' :: ex) hsg d ('e' :: ex) rfl hd
      simpa [List.append_assoc] using this
    have h1 := takeWhile_digits [d] ('e' :: ex) hd1 (by intro c' t' h; cases h; rfl)
    unfold isFloatTextL
    simp only [hs, h1.1, h1.2, isExpTail_of_form hex]
    rfl
  · have hs : stripSign (sg ++ d :: ('.' :: fp) ++ 'e' :: ex) = [d] ++ '.' :: (fp ++ 'e' :: ex) := by
      have := strip_sg sg ([d] ++ '.' :: (fp ++ 'e' :: ex)) hsg d ('.' :: (fp ++ 'e' :: ex)) rfl hd
      simpa [List.append_assoc] using this
    have h1 := takeWhile_digits [d] ('.' :: (fp ++ 'e' :: ex)) hd1 (by intro c' t' h; cases h; rfl)
    have h2 := takeWhile_digits fp ('e' :: ex) hfp (by intro c' t' h; cases h; rfl)
    unfold isFloatTextL
    simp only [hs, h1.1, h1.2, h2.1, h2.2, isExpTail_of_form hex]
    cases fp with
    | nil => exact absurd rfl hfpne
    | cons _ _ => rfl

/-! ### The recogniser `isCqasmFloat` accepts exactly the two pointed shapes -/

theorem expTailForm_of_isExpTail {l : List Char} (h : isExpTail l = true) : ExpTailForm l := by
  cases l with
  | nil => simp [isExpTail] at h
  | cons s ds =>
    simp only [isExpTail, Bool.and_eq_true, Bool.or_eq_true, beq_iff_eq, decide_eq_true_eq, List.all_eq_true] at h
    exact ⟨s, ds, rfl, h.1.1, h.2, h.1.2⟩

private theorem stripSign_split (l : List Char) : ∃ sg, l = sg ++ stripSign l ∧ (sg = [] ∨ sg = ['-']) := by
  unfold stripSign
  split
  · exact ⟨['-'], rfl, Or.inr rfl⟩
  · exact ⟨[], rfl, Or.inl rfl⟩

private theorem digits_takeWhile (l : List Char) : Digits (l.takeWhile Char.isDigit) := by
  intro c hc
  have := List.all_takeWhile (p := Char.isDigit) (l := l)
  exact List.all_eq_true.1 this c hc

/-- the recogniser accepts exactly `[-]d+.d+` and `[-]d+.d+e[+-]dd+` -/
theorem isCqasmFloatL_iff (l : List Char) : isCqasmFloatL l = true ↔ FixedForm l ∨ PointExpForm l := by
  constructor
  · intro h
    obtain ⟨sg, hl, hsg⟩ := stripSign_split l
    unfold isCqasmFloatL at h
    simp only [] at h
    have hsplit := List.takeWhile_append_dropWhile (p := Char.isDigit) (l := stripSign l)
    have hip := digits_takeWhile (stripSign l)
    generalize (stripSign l).takeWhile Char.isDigit = ip at *
    generalize hr0 : (stripSign l).dropWhile Char.isDigit = r0 at *
    split at h
    · next r =>
      have hsplit2 := List.takeWhile_append_dropWhile (p := Char.isDigit) (l := r)
      have hfp := digits_takeWhile r
      generalize r.takeWhile Char.isDigit = fp at *
      generalize r.dropWhile Char.isDigit = r2 at *
      simp only [Bool.and_eq_true, Bool.not_eq_true', List.isEmpty_eq_false_iff] at h
      obtain ⟨⟨hipne, hfpne⟩, h3⟩ := h
      split at h3
      · left
        refine ⟨sg, ip, fp, ?_, hsg, hip, hipne, hfp, hfpne⟩
        rw [hl, ← hsplit, ← hsplit2]; simp
      · next t =>
        right
        refine ⟨sg, ip, fp, t, ?_, hsg, hip, hipne, hfp, hfpne, expTailForm_of_isExpTail h3⟩
        rw [hl, ← hsplit, ← hsplit2]; simp
      · cases h3
    · cases h
  · rintro (h | h)
    · exact isCqasmFloatL_fixed h
    · exact isCqasmFloatL_pointExp h

theorem isCqasmFloat_iff (s : String) :
    isCqasmFloat s = true ↔ FixedForm s.toList ∨ PointExpForm s.toList := isCqasmFloatL_iff _

/-! ### `fmtPos` -/

/-- the significant digits without trailing zeros (at least one digit) -/
def sigDigits (digs : Nat) : List Char :=
  let ds0 := (stripTrailingZeros (natDigits digs)).toList
  if ds0.isEmpty then ['0'] else ds0

/-- `fmtPos` after rounding: layout of the digits `digs` with decimal point position `decpt` -/
def fmtDigs (P digs : Nat) (decpt : Int) : String :=
  let ds := sigDigits digs
  if decpt > (P : Int) - 1 ∨ decpt < -3 then
    let first := ds.take 1
    let rest := ds.drop 1
    let e := decpt - 1
    let mant := if rest.isEmpty then first else first ++ ['.'] ++ rest
    String.ofList mant ++ "e" ++ (if e < 0 then "-" else "+") ++ expDigits e.natAbs
  else if decpt ≤ 0 then
    "0." ++ String.ofList (List.replicate (-decpt).toNat '0' ++ ds)
  else
    let dp := decpt.toNat
    if ds.length ≤ dp then String.ofList (ds ++ List.replicate (dp - ds.length) '0') ++ ".0"
    else String.ofList (ds.take dp ++ ['.'] ++ ds.drop dp)

theorem fmtPos_eq (P num den : Nat) :
    fmtPos P num den = fmtDigs P (roundSig P num den).1 (roundSig P num den).2 := rfl

theorem sigDigits_digits (digs : Nat) : Digits (sigDigits digs) ∧ sigDigits digs ≠ [] := by
  unfold sigDigits
  have hd : Digits (stripTrailingZeros (natDigits digs)).toList := by
    intro c hc
    simp only [stripTrailingZeros, natDigits, String.toList_ofList, List.mem_reverse] at hc
    have := (List.dropWhile_sublist _).subset hc
    rw [List.mem_reverse, Nat.toString_eq_repr, Nat.toList_repr] at this
    exact digits_toDigits digs c this
  cases h : (stripTrailingZeros (natDigits digs)).toList with
  | nil => exact ⟨by intro c hc; simp at hc; rw [hc]; rfl, by simp⟩
  | cons a t => rw [h] at hd; exact ⟨by simpa using hd, by simp⟩

theorem expDigits_form (n : Nat) : Digits (expDigits n).toList ∧ 2 ≤ (expDigits n).toList.length := by
  unfold expDigits
  split
  · rw [String.toList_append, Nat.toString_eq_repr, Nat.toList_repr]
    refine ⟨Digits.append (by intro c hc; simp at hc; rw [hc]; rfl) (digits_toDigits n), ?_⟩
    have := Nat.length_toDigits_pos (b := 10) (n := n)
    simp only [List.length_append]
    have h1 : "0".toList.length = 1 := rfl
    omega
  · next h =>
    rw [Nat.toString_eq_repr, Nat.toList_repr]
    refine ⟨digits_toDigits n, ?_⟩
    have := mt (Nat.length_toDigits_le_iff (b := 10) (n := n) (k := 1) (by decide) (by decide)).1 (by omega)
    omega

/-- Python's `format(x, '.P')` layout: fixed notation `d+.d+` or exponent notation `d(.d+)?e[+-]dd+`
    (behind an optional sign `sg`). -/
theorem fmtDigs_form (P digs : Nat) (decpt : Int) (sg : List Char) (hsg : sg = [] ∨ sg = ['-']) :
    FixedForm (sg ++ (fmtDigs P digs decpt).toList) ∨ ExpForm (sg ++ (fmtDigs P digs decpt).toList) := by
  obtain ⟨hds, hne⟩ := sigDigits_digits digs
  unfold fmtDigs
  obtain ⟨d, rest, hdr⟩ := List.exists_cons_of_ne_nil hne
  simp only []
  split
  · -- exponent notation
    right
    obtain ⟨hed, hel⟩ := expDigits_form (decpt - 1).natAbs
    refine ⟨sg, d, if rest.isEmpty then [] else '.' :: rest,
      (if decpt - 1 < 0 then "-" else "+").toList ++ (expDigits (decpt - 1).natAbs).toList, ?_, hsg,
      hds d (by rw [hdr]; simp), ?_, ?_⟩
    · rw [hdr]
      simp only [String.toList_append, String.toList_ofList, List.take_succ_cons, List.take_zero,
        List.drop_succ_cons, List.drop_zero]
      cases rest <;> simp [List.append_assoc]
    · cases hr : rest with
      | nil => left; rfl
      | cons a t =>
        right
        refine ⟨a :: t, by simp, ?_, by simp⟩
        intro c hc; exact hds c (by rw [hdr, hr]; exact List.mem_cons_of_mem _ hc)
    · by_cases hneg : decpt - 1 < 0
      · exact ⟨'-', _, by simp [hneg], Or.inr rfl, hed, hel⟩
      · exact ⟨'+', _, by simp [hneg], Or.inl rfl, hed, hel⟩
  · split
    · -- 0.000ddd
      left
      refine ⟨sg, ['0'], List.replicate (-decpt).toNat '0' ++ sigDigits digs, ?_, hsg, ?_, by simp,
        Digits.append (digits_replicate_zero _) hds, ?_⟩
      · simp [String.toList_append]
      · intro c hc; simp at hc; rw [hc]; rfl
      · simp [hne]
    · split
      · -- ddd000.0
        left
        refine ⟨sg, sigDigits digs ++ List.replicate (decpt.toNat - (sigDigits digs).length) '0', ['0'], ?_,
          hsg, Digits.append hds (digits_replicate_zero _), by simp [hne], ?_, by simp⟩
        · simp [String.toList_append]
        · intro c hc; simp at hc; rw [hc]; rfl
      · -- dd.ddd
        next h1 h2 h3 =>
        left
        have hdp : 0 < decpt.toNat := by omega
        refine ⟨sg, (sigDigits digs).take decpt.toNat, (sigDigits digs).drop decpt.toNat, ?_, hsg,
          hds.take _, ?_, hds.drop _, ?_⟩
        · simp
        · intro h
          have := congrArg List.length h
          simp only [List.length_take, List.length_nil] at this
          have : 0 < (sigDigits digs).length := List.length_pos_iff.2 hne
          omega
        · intro h
          have := congrArg List.length h
          simp only [List.length_drop, List.length_nil] at this
          omega

/-- `fmtPos` always produces a text of the shape `d+.d+` or `d(.d+)?e[+-]dd+`. -/
theorem fmtPos_shape (P num den : Nat) : isFloatText (fmtPos P num den) = true := by
  rw [fmtPos_eq]
  rcases fmtDigs_form P (roundSig P num den).1 (roundSig P num den).2 [] (Or.inl rfl) with h | h
  · exact isFloatTextL_fixed (by simpa using h)
  · exact isFloatTextL_exp (by simpa using h)

/-! ### `fmtBits` -/

/-- the bit pattern is a finite number (exponent field not all ones) -/
def FiniteBits (bits : UInt64) : Prop := ((bits >>> 52) &&& 0x7ff).toNat ≠ 0x7ff

instance (bits : UInt64) : Decidable (FiniteBits bits) := by unfold FiniteBits; infer_instance

theorem fmtBits_form (P : Nat) (bits : UInt64) (hfin : FiniteBits bits) :
    FixedForm (fmtBits P bits).toList ∨ ExpForm (fmtBits P bits).toList := by
  unfold fmtBits
  simp only []
  have hex : (((bits >>> 52) &&& 0x7ff).toNat == 0x7ff) = false := by
    rw [beq_eq_false_iff_ne]; exact hfin
  rw [hex]
  simp only [Bool.false_eq_true, if_false]
  have hsg : ∀ b : Bool, (if b = true then "-" else "").toList = [] ∨ (if b = true then "-" else "").toList = ['-'] := by
    intro b; cases b
    · left; rfl
    · right; rfl
  split
  · left
    refine ⟨(if (bits >>> 63 != 0) = true then "-" else "").toList, ['0'], ['0'], ?_, hsg _, ?_, by simp, ?_,
      by simp⟩
    · rw [String.toList_append, List.append_assoc]; rfl
    · intro c hc; simp at hc; rw [hc]; rfl
    · intro c hc; simp at hc; rw [hc]; rfl
  · rw [String.toList_append, fmtPos_eq]
    exact fmtDigs_form _ _ _ _ (hsg _)

/-- C04 (first half): for every finite bit pattern `format(x, '.P')` is `[-]d+.d+` or `[-]d(.d+)?e[+-]dd+`. -/
theorem fmtBits_shape (P : Nat) (bits : UInt64) (hfin : FiniteBits bits) : isFloatText (fmtBits P bits) = true := by
  rcases fmtBits_form P bits hfin with h | h
  · exact isFloatTextL_fixed h
  · exact isFloatTextL_exp h

/-! ### `fixExponent` -/

/-- a text without `e` is unchanged -/
theorem fixExponent_no_e (text : String) (h : 'e' ∉ text.toList) : fixExponent text = text := by
  unfold fixExponent
  rw [splitOn_char text "e" 'e' rfl, List.splitOn_eq_singleton h]
  rfl

/-- a text `mant e ex` keeps its mantissa if that has a point and gets `.0` appended to it otherwise -/
theorem fixExponent_exp (mant ex : String) (hm : 'e' ∉ mant.toList) (hx : 'e' ∉ ex.toList) :
    fixExponent (mant ++ "e" ++ ex) =
      if '.' ∈ mant.toList then mant ++ "e" ++ ex else mant ++ ".0e" ++ ex := by
  unfold fixExponent
  have hl : (mant ++ "e" ++ ex).toList = mant.toList ++ 'e' :: ex.toList := by
    simp [String.toList_append]
  rw [splitOn_char _ "e" 'e' rfl, hl, List.splitOn_append_cons_self_of_not_mem hm, List.splitOn_eq_singleton hx]
  simp only [List.map_cons, List.map_nil, String.ofList_toList, String.contains_char_eq, decide_eq_true_eq]

/-- after `fixExponent` the mantissa of an exponent-notation text contains a decimal point, and the text is
    either unchanged or has `.0` inserted before the `e` -/
theorem fixExponent_has_point (mant ex : String) (hm : 'e' ∉ mant.toList) (hx : 'e' ∉ ex.toList) :
    ∃ mant', fixExponent (mant ++ "e" ++ ex) = mant' ++ "e" ++ ex ∧ '.' ∈ mant'.toList ∧
      ((mant' = mant ∧ '.' ∈ mant.toList) ∨ (mant' = mant ++ ".0" ∧ '.' ∉ mant.toList)) := by
  rw [fixExponent_exp mant ex hm hx]
  by_cases h : '.' ∈ mant.toList
  · exact ⟨mant, by rw [if_pos h], h, Or.inl ⟨rfl, h⟩⟩
  · refine ⟨mant ++ ".0", ?_, by simp [String.toList_append], Or.inr ⟨rfl, h⟩⟩
    rw [if_neg h]
    apply String.toList_inj.1
    simp [String.toList_append]

example : fixExponent "1e-05" = "1.0e-05" := by
  have := fixExponent_exp "1" "-05" (by decide) (by decide)
  rw [if_neg (by decide)] at this
  exact this

theorem fixedForm_no_e {l : List Char} (h : FixedForm l) : 'e' ∉ l := by
  obtain ⟨sg, ip, fp, rfl, hsg, hip, _, hfp, _⟩ := h
  simp only [List.mem_append, List.mem_cons, not_or]
  refine ⟨⟨?_, hip.not_mem 'e' rfl⟩, by decide, hfp.not_mem 'e' rfl⟩
  rcases hsg with rfl | rfl <;> decide

theorem expTailForm_no_e {l : List Char} (h : ExpTailForm l) : 'e' ∉ l := by
  obtain ⟨s, ds, rfl, hs, hd, _⟩ := h
  simp only [List.mem_cons, not_or]
  refine ⟨?_, hd.not_mem 'e' rfl⟩
  rcases hs with rfl | rfl <;> decide

/-- `fixExponent` turns Python's two shapes into `[-]d+.d+` and `[-]d+.d+e[+-]dd+`. -/
theorem fixExponent_form (text : String) (h : FixedForm text.toList ∨ ExpForm text.toList) :
    FixedForm (fixExponent text).toList ∨ PointExpForm (fixExponent text).toList := by
  rcases h with h | h
  · left; rw [fixExponent_no_e text (fixedForm_no_e h)]; exact h
  · right
    obtain ⟨sg, d, fr, ex, hl, hsg, hd, hfr, hex⟩ := h
    have hd1 : Digits [d] := by intro c hc; rw [List.mem_singleton.1 hc]; exact hd
    have htext : text = String.ofList (sg ++ d :: fr) ++ "e" ++ String.ofList ex := by
      apply String.toList_inj.1
      rw [hl]; simp [String.toList_append]
    have hsge : 'e' ∉ sg := by rcases hsg with rfl | rfl <;> decide
    have hsgp : '.' ∉ sg := by rcases hsg with rfl | rfl <;> decide
    have hm : 'e' ∉ (String.ofList (sg ++ d :: fr)).toList := by
      rw [String.toList_ofList]
      simp only [List.mem_append, List.mem_cons, not_or]
      refine ⟨hsge, fun h => by rw [← h] at hd; exact absurd hd (by decide), ?_⟩
      rcases hfr with rfl | ⟨fp, rfl, hfp, _⟩
      · simp
      · simp only [List.mem_cons, not_or]; exact ⟨by decide, hfp.not_mem 'e' rfl⟩
    have hx : 'e' ∉ (String.ofList ex).toList := by
      rw [String.toList_ofList]; exact expTailForm_no_e hex
    rw [htext, fixExponent_exp _ _ hm hx]
    rcases hfr with rfl | ⟨fp, rfl, hfp, hfpne⟩
    · have hnp : '.' ∉ (String.ofList (sg ++ [d])).toList := by
        rw [String.toList_ofList]
        simp only [List.mem_append, List.mem_singleton, not_or]
        exact ⟨hsgp, fun h => by rw [← h] at hd; exact absurd hd (by decide)⟩
      rw [if_neg hnp]
      refine ⟨sg, [d], ['0'], ex, ?_, hsg, hd1, by simp, ?_, by simp, hex⟩
      · simp [String.toList_append]
      · intro c hc; simp at hc; rw [hc]; rfl
    · have hp : '.' ∈ (String.ofList (sg ++ d :: '.' :: fp)).toList := by
        rw [String.toList_ofList]; simp
      rw [if_pos hp]
      refine ⟨sg, [d], fp, ex, ?_, hsg, hd1, by simp, hfp, hfpne, hex⟩
      simp [String.toList_append]

/-- C04: for every finite (non-NaN, non-infinite) double the written text `fixExponent (format(x, '.P'))` is a
    cQASM float literal `[-]d+.d+(e[+-]dd+)?` — in particular it always contains a decimal point. -/
theorem fmtFloat_literal (P : Nat) (bits : UInt64) (hfin : FiniteBits bits) :
    isCqasmFloat (fixExponent (fmtBits P bits)) = true := by
  rcases fixExponent_form _ (fmtBits_form P bits hfin) with h | h
  · exact isCqasmFloatL_fixed h
  · exact isCqasmFloatL_pointExp h

theorem fmtFloat_literal' (P : Nat) (x : Float) (hfin : FiniteBits x.toBits) :
    isCqasmFloat (fmtFloat P x) = true := fmtFloat_literal P x.toBits hfin

/-- … and it still has one of Python's two shapes, so it reads back as the same number. -/
theorem isCqasmFloat_has_point (s : String) (h : isCqasmFloat s = true) : '.' ∈ s.toList := by
  unfold isCqasmFloat isCqasmFloatL at h
  simp only [] at h
  split at h
  · next r heq =>
    have hsub : (stripSign s.toList).dropWhile Char.isDigit <:+ s.toList := by
      refine (List.dropWhile_suffix _).trans ?_
      generalize s.toList = l
      unfold stripSign
      split
      · exact List.suffix_cons _ _
      · exact List.suffix_refl _
    rw [heq] at hsub
    exact hsub.subset (by simp)
  · cases h

-- `format(1e-05, '.8')` alone is *not* a cQASM float literal; the repaired text is
-- (0x3ee4f8b588e368f1 is the bit pattern of the double 1e-05, 0xc0934a0000000000 that of -1234.5)
example : fmtBits 8 0x3ee4f8b588e368f1 = "1e-05" := by decide
example : fixExponent (fmtBits 8 0x3ee4f8b588e368f1) = "1.0e-05" := by
  rw [show fmtBits 8 0x3ee4f8b588e368f1 = "1" ++ "e" ++ "-05" by decide,
    fixExponent_exp "1" "-05" (by decide) (by decide), if_neg (by decide)]
  decide
example : isCqasmFloat (fixExponent (fmtBits 8 0x3ee4f8b588e368f1)) = true :=
  fmtFloat_literal 8 _ (by decide)
example : fmtBits 8 0xc0934a0000000000 = "-1234.5" := by decide
example : fixExponent "-1234.5" = "-1234.5" := fixExponent_no_e _ (by decide)
example : fmtPos 8 1 100000 = "1e-05" := by decide
example : isCqasmFloat "1e-05" = false := by decide
example : isFloatText "1e-05" = true := by decide
example : isCqasmFloat "1.0e-05" = true := by decide

/-! ### Link to `OSq.Proofs.Writer`: the formatter never produces a newline -/

theorem expTailForm_no_nl {l : List Char} (h : ExpTailForm l) : '\n' ∉ l := by
  obtain ⟨s, ds, rfl, hs, hd, _⟩ := h
  simp only [List.mem_cons, not_or]
  refine ⟨?_, hd.not_mem '\n' rfl⟩
  rcases hs with rfl | rfl <;> decide

theorem form_no_nl {l : List Char} (h : FixedForm l ∨ PointExpForm l) : '\n' ∉ l := by
  rcases h with ⟨sg, ip, fp, rfl, hsg, hip, _, hfp, _⟩ | ⟨sg, ip, fp, ex, rfl, hsg, hip, _, hfp, _, hex⟩
  · simp only [List.mem_append, List.mem_cons, not_or]
    refine ⟨⟨?_, hip.not_mem '\n' rfl⟩, by decide, hfp.not_mem '\n' rfl⟩
    rcases hsg with rfl | rfl <;> decide
  · simp only [List.mem_append, List.mem_cons, not_or]
    refine ⟨⟨⟨?_, hip.not_mem '\n' rfl⟩, by decide, hfp.not_mem '\n' rfl⟩, by decide, expTailForm_no_nl hex⟩
    rcases hsg with rfl | rfl <;> decide

/-- The float formatter never produces a newline (hypothesis `hfmt` of `writeStmt_one_line`), for *every* bit
    pattern including `inf` and `nan`. -/
theorem noNl_fixExponent_fmtBits (P : Nat) (bits : UInt64) : noNl (fixExponent (fmtBits P bits)) := by
  by_cases hf : FiniteBits bits
  · exact form_no_nl (fixExponent_form _ (fmtBits_form P bits hf))
  · have hex : (((bits >>> 52) &&& 0x7ff).toNat == 0x7ff) = true := by
      unfold FiniteBits at hf
      simpa using hf
    unfold fmtBits
    simp only []
    rw [hex]
    simp only [if_true]
    cases (bits >>> 63 != 0) <;> cases ((bits &&& 0xfffffffffffff).toNat == 0) <;>
      simp only [if_true, Bool.false_eq_true, if_false] <;>
      (rw [fixExponent_no_e _ (by decide)]; decide)

theorem noNl_fmtFloat (P : Nat) (x : Float) : noNl (fmtFloat P x) := noNl_fixExponent_fmtBits P x.toBits

/-- C04 for the actual float formatter: every non-comment statement with newline-free names is written on
    exactly one line. -/
theorem writeStmt_one_line_float (P : Nat) (anon : Gate Float → String) (hanon : ∀ g, noNl (anon g))
    (s : Stmt Float) (hname : ∀ nm, s.named = some nm → noNl nm.name) (hc : ∀ t, s ≠ .comment t) :
    ∃ body, writeStmt (fmtFloat P) anon s = body ++ "\n" ∧ noNl body :=
  writeStmt_one_line (fmtFloat P) anon (noNl_fmtFloat P) hanon s hname hc

/-! ### `roundSig` -/

theorem findUp_spec (num den : Nat) (fuel e : Nat) (h : 10 ^ e * den ≤ num) :
    10 ^ (roundSig.findUp num den fuel e) * den ≤ num ∧
    (num < 10 ^ (roundSig.findUp num den fuel e + 1) * den ∨ 10 ^ (e + fuel) * den ≤ num) := by
  induction fuel generalizing e with
  | zero => exact ⟨h, Or.inr h⟩
  | succ n ih =>
    unfold roundSig.findUp
    by_cases hc : pow10 (e + 1) * den ≤ num
    · rw [if_pos hc]
      have := ih (e + 1) hc
      rw [show e + 1 + n = e + (n + 1) by omega] at this
      exact this
    · rw [if_neg hc]
      exact ⟨h, Or.inl (Nat.lt_of_not_le hc)⟩

theorem findDown_spec (num den : Nat) (fuel e : Nat) (h : ∀ k, k < e → num * 10 ^ k < den) :
    (∀ k, k < roundSig.findDown num den fuel e → num * 10 ^ k < den) ∧
    (den ≤ num * 10 ^ (roundSig.findDown num den fuel e) ∨ roundSig.findDown num den fuel e = e + fuel) := by
  induction fuel generalizing e with
  | zero => exact ⟨h, Or.inr rfl⟩
  | succ n ih =>
    unfold roundSig.findDown
    by_cases hc : num * pow10 e < den
    · rw [if_pos hc]
      have := ih (e + 1) (by
        intro k hk
        rcases Nat.lt_succ_iff_lt_or_eq.1 hk with h1 | rfl
        · exact h k h1
        · exact hc)
      rw [show e + 1 + n = e + (n + 1) by omega] at this
      exact this
    · rw [if_neg hc]
      exact ⟨h, Or.inl (Nat.le_of_not_lt hc)⟩

/-- the decimal exponent found by `roundSig` -/
def e10Of (num den : Nat) : Int :=
  if den ≤ num then (roundSig.findUp num den 400 0 : Int) else -((roundSig.findDown num den 400 0 : Nat) : Int)

/-- `10^E ≤ num/den < 10^(E+1)`, cross-multiplied -/
theorem e10_spec (num den : Nat) (hhi : num < 10 ^ 400 * den) (hlo : den ≤ num * 10 ^ 400) :
    10 ^ (e10Of num den).toNat * den ≤ num * 10 ^ (-(e10Of num den)).toNat ∧
    num * 10 ^ (-(e10Of num den)).toNat < 10 ^ ((e10Of num den).toNat + 1) * den := by
  unfold e10Of
  by_cases h : den ≤ num
  · rw [if_pos h]
    obtain ⟨h1, h2⟩ := findUp_spec num den 400 0 (by simpa using h)
    generalize roundSig.findUp num den 400 0 = n at h1 h2
    have e1 : ((n : Nat) : Int).toNat = n := by omega
    have e2 : (-((n : Nat) : Int)).toNat = 0 := by omega
    rw [e1, e2]
    simp only [Nat.pow_zero, Nat.mul_one]
    refine ⟨h1, ?_⟩
    rcases h2 with h2 | h2
    · exact h2
    · simp only [Nat.zero_add] at h2; omega
  · rw [if_neg h]
    have hlt : num < den := Nat.lt_of_not_le h
    obtain ⟨h1, h2⟩ := findDown_spec num den 400 0 (by intro k hk; omega)
    generalize roundSig.findDown num den 400 0 = n at h1 h2
    have e1 : (-((n : Nat) : Int)).toNat = 0 := by omega
    have e2 : (-(-((n : Nat) : Int))).toNat = n := by omega
    rw [e1, e2]
    simp only [Nat.pow_zero, Nat.one_mul, Nat.zero_add, Nat.pow_one]
    have hn : 0 < n := by
      rcases Nat.eq_zero_or_pos n with rfl | hn
      · rcases h2 with h2 | h2
        · simp at h2; omega
        · omega
      · exact hn
    constructor
    · rcases h2 with h2 | h2
      · exact h2
      · rw [h2]; simpa using hlo
    · have := h1 (n - 1) (by omega)
      have e : 10 ^ n = 10 ^ (n - 1) * 10 := by rw [← Nat.pow_succ]; congr 1; omega
      rw [e]
      have : num * (10 ^ (n - 1) * 10) = (num * 10 ^ (n - 1)) * 10 := by ring
      omega

/-- round half to even of `n2 / d2` -/
def roundHE (n2 d2 : Nat) : Nat :=
  let q := n2 / d2
  let r := n2 % d2
  if 2 * r > d2 then q + 1 else if 2 * r < d2 then q else (if q % 2 = 0 then q else q + 1)

/-- the scaled fraction `num/den · 10^(P-1-E)` -/
def scaledOf (P num den : Nat) : Nat × Nat :=
  let sh : Int := (P : Int) - 1 - e10Of num den
  if sh ≥ 0 then (num * pow10 sh.toNat, den) else (num, den * pow10 (-sh).toNat)

theorem roundSig_eq (P num den : Nat) :
    roundSig P num den =
      if roundHE (scaledOf P num den).1 (scaledOf P num den).2 ≥ 10 ^ P then
        (roundHE (scaledOf P num den).1 (scaledOf P num den).2 / 10, e10Of num den + 2)
      else (roundHE (scaledOf P num den).1 (scaledOf P num den).2, e10Of num den + 1) := rfl

theorem scaledOf_eq (P num den : Nat) :
    scaledOf P num den = (num * 10 ^ ((P : Int) - 1 - e10Of num den).toNat,
      den * 10 ^ (-((P : Int) - 1 - e10Of num den)).toNat) := by
  unfold scaledOf pow10
  simp only []
  split
  · next h =>
    have : (-((P : Int) - 1 - e10Of num den)).toNat = 0 := by omega
    rw [this]; simp
  · next h =>
    have : ((P : Int) - 1 - e10Of num den).toNat = 0 := by omega
    rw [this]; simp

theorem roundHE_spec (n2 d2 : Nat) (hd : 0 < d2) :
    2 * roundHE n2 d2 * d2 ≤ 2 * n2 + d2 ∧ 2 * n2 ≤ 2 * roundHE n2 d2 * d2 + d2 ∧
    n2 / d2 ≤ roundHE n2 d2 ∧ roundHE n2 d2 ≤ n2 / d2 + 1 := by
  have hdiv := Nat.div_add_mod n2 d2
  have hmod := Nat.mod_lt n2 hd
  unfold roundHE
  simp only []
  generalize n2 / d2 = q at *
  generalize n2 % d2 = r at *
  have e1 : 2 * (q + 1) * d2 = 2 * (d2 * q) + 2 * d2 := by ring
  have e2 : 2 * q * d2 = 2 * (d2 * q) := by ring
  split
  · rw [e1]; omega
  · split
    · rw [e2]; omega
    · split
      · rw [e2]; omega
      · rw [e1]; omega

theorem scaled_bounds (P num den : Nat) (hP : 1 ≤ P) (hhi : num < 10 ^ 400 * den)
    (hlo : den ≤ num * 10 ^ 400) :
    10 ^ (P - 1) * (scaledOf P num den).2 ≤ (scaledOf P num den).1 ∧
    (scaledOf P num den).1 < 10 ^ P * (scaledOf P num den).2 := by
  obtain ⟨h1, h2⟩ := e10_spec num den hhi hlo
  rw [scaledOf_eq]
  simp only []
  generalize hE : e10Of num den = E at *
  generalize ha : E.toNat = a at *
  generalize hb : (-E).toNat = b at *
  generalize hsp : ((P : Int) - 1 - E).toNat = sp
  generalize hsm : (-((P : Int) - 1 - E)).toNat = sm
  have hk : (P - 1) + sm + b = a + sp := by omega
  have hk' : P + sm + b = (a + 1) + sp := by omega
  have hb0 : 0 < 10 ^ b := by positivity
  constructor
  · apply Nat.le_of_mul_le_mul_right _ hb0
    calc 10 ^ (P - 1) * (den * 10 ^ sm) * 10 ^ b = 10 ^ ((P - 1) + sm + b) * den := by ring
      _ = 10 ^ (a + sp) * den := by rw [hk]
      _ = (10 ^ a * den) * 10 ^ sp := by ring
      _ ≤ (num * 10 ^ b) * 10 ^ sp := by gcongr
      _ = num * 10 ^ sp * 10 ^ b := by ring
  · apply Nat.lt_of_mul_lt_mul_right (a := 10 ^ b)
    calc num * 10 ^ sp * 10 ^ b = (num * 10 ^ b) * 10 ^ sp := by ring
      _ < (10 ^ (a + 1) * den) * 10 ^ sp := by gcongr
      _ = 10 ^ ((a + 1) + sp) * den := by ring
      _ = 10 ^ (P + sm + b) * den := by rw [hk']
      _ = 10 ^ P * (den * 10 ^ sm) * 10 ^ b := by ring

/-- `d · 10^(e-P)` is within half a unit in the `P`-th significant digit of `num/den`:
    `|num/den − d·10^(e−P)| ≤ 10^(e−P)/2`, cross-multiplied by `den · 10^max(P−e,0)` and split into the two
    one-sided inequalities (natural numbers only). -/
def HalfUlp (P num den d : Nat) (e : Int) : Prop :=
  2 * d * 10 ^ (e - P).toNat * den ≤ 2 * num * 10 ^ ((P : Int) - e).toNat + 10 ^ (e - P).toNat * den ∧
  2 * num * 10 ^ ((P : Int) - e).toNat ≤ 2 * d * 10 ^ (e - P).toNat * den + 10 ^ (e - P).toNat * den

/-- `roundSig P num den = (d, e)` with `d` a `P`-digit number and `0.d₁…d_P × 10^e` within half a unit in the
    last place of `num/den`.  Assumes `10^-400 ≤ num/den < 10^400` (the `findUp`/`findDown` fuel), which holds
    for every finite non-zero double. -/
theorem roundSig_bounds (P num den : Nat) (hP : 1 ≤ P) (hden : 0 < den) (hhi : num < 10 ^ 400 * den)
    (hlo : den ≤ num * 10 ^ 400) :
    10 ^ (P - 1) ≤ (roundSig P num den).1 ∧ (roundSig P num den).1 < 10 ^ P ∧
    HalfUlp P num den (roundSig P num den).1 (roundSig P num den).2 := by
  obtain ⟨hs1, hs2⟩ := scaled_bounds P num den hP hhi hlo
  have hd2 : 0 < (scaledOf P num den).2 := by
    rw [scaledOf_eq]; positivity
  obtain ⟨hr1, hr2, hr3, hr4⟩ := roundHE_spec (scaledOf P num den).1 (scaledOf P num den).2 hd2
  have hq1 : 10 ^ (P - 1) ≤ (scaledOf P num den).1 / (scaledOf P num den).2 :=
    (Nat.le_div_iff_mul_le hd2).2 hs1
  have hq2 : (scaledOf P num den).1 / (scaledOf P num den).2 < 10 ^ P :=
    (Nat.div_lt_iff_lt_mul hd2).2 hs2
  have hP10 : 10 ^ P = 10 ^ (P - 1) * 10 := by
    rw [← Nat.pow_succ]; congr 1; omega
  rw [roundSig_eq]
  generalize roundHE (scaledOf P num den).1 (scaledOf P num den).2 = q' at *
  rw [scaledOf_eq] at hr1 hr2
  simp only [] at hr1 hr2
  clear hhi hlo hs1 hs2 hd2
  generalize hE : e10Of num den = E at *
  unfold HalfUlp
  by_cases hc : q' ≥ 10 ^ P
  · rw [if_pos hc]
    have hq' : q' = 10 ^ P := by omega
    subst hq'
    simp only []
    have hdiv : 10 ^ P / 10 = 10 ^ (P - 1) := by rw [hP10]; simp
    rw [hdiv]
    refine ⟨Nat.le_refl _, by rw [hP10]; omega, ?_⟩
    by_cases hsh : (P : Int) - 1 - E ≥ 1
    · -- scaled by 10^sp, sp ≥ 1
      have e1 : (E + 2 - (P : Int)).toNat = 0 := by omega
      have e3 : (-((P : Int) - 1 - E)).toNat = 0 := by omega
      obtain ⟨sp, hsp⟩ : ∃ sp, ((P : Int) - 1 - E).toNat = sp + 1 := ⟨((P : Int) - 1 - E).toNat - 1, by omega⟩
      have e2 : ((P : Int) - (E + 2)).toNat = sp := by omega
      rw [e1, e2]
      rw [e3, hsp] at hr1 hr2
      simp only [Nat.pow_zero, Nat.mul_one, Nat.one_mul] at hr1 hr2 ⊢
      have x1 : 2 * (10 ^ (P - 1) * 10) * den = 20 * (10 ^ (P - 1) * den) := by ring
      have x2 : 2 * (num * 10 ^ (sp + 1)) = 20 * (num * 10 ^ sp) := by ring
      have x3 : 2 * 10 ^ (P - 1) * den = 2 * (10 ^ (P - 1) * den) := by ring
      have x4 : 2 * num * 10 ^ sp = 2 * (num * 10 ^ sp) := by ring
      rw [hP10, x1, x2] at hr1 hr2
      rw [x3, x4]
      omega
    · have e1 : ((P : Int) - 1 - E).toNat = 0 := by omega
      obtain ⟨sm, hsm⟩ : ∃ sm, (-((P : Int) - 1 - E)).toNat = sm := ⟨_, rfl⟩
      have e2 : (E + 2 - (P : Int)).toNat = sm + 1 := by omega
      have e3 : ((P : Int) - (E + 2)).toNat = 0 := by omega
      rw [e2, e3]
      rw [e1, hsm] at hr1 hr2
      simp only [Nat.pow_zero, Nat.mul_one] at hr1 hr2 ⊢
      have x1 : 2 * 10 ^ (P - 1) * 10 ^ (sm + 1) * den = 2 * (10 ^ (P - 1) * 10) * (den * 10 ^ sm) := by ring
      have x2 : 10 ^ (sm + 1) * den = 10 * (den * 10 ^ sm) := by ring
      rw [x1, x2, ← hP10]
      omega
  · rw [if_neg hc]
    simp only []
    have hlt : q' < 10 ^ P := Nat.lt_of_not_le hc
    refine ⟨by omega, hlt, ?_⟩
    have e1 : (E + 1 - (P : Int)).toNat = (-((P : Int) - 1 - E)).toNat := by omega
    have e2 : ((P : Int) - (E + 1)).toNat = ((P : Int) - 1 - E).toNat := by omega
    rw [e1, e2]
    generalize ((P : Int) - 1 - E).toNat = sp at *
    generalize (-((P : Int) - 1 - E)).toNat = sm at *
    have x1 : 2 * q' * 10 ^ sm * den = 2 * q' * (den * 10 ^ sm) := by ring
    have x2 : 2 * num * 10 ^ sp = 2 * (num * 10 ^ sp) := by ring
    have x3 : 10 ^ sm * den = den * 10 ^ sm := by ring
    rw [x1, x2, x3]
    exact ⟨hr1, hr2⟩

example : roundSig 8 1 3 = (33333333, 0) := by decide
example : roundSig 8 2 3 = (66666667, 0) := by decide
example : roundSig 3 9995 10 = (100, 4) := by decide   -- carry: 999.5 rounds to 1000 = 0.100e4


/-! ### The bound over ℚ -/

theorem zpow10 (t : Int) : (10 : ℚ) ^ t = (10 : ℚ) ^ t.toNat / (10 : ℚ) ^ (-t).toNat := by
  rcases le_total 0 t with h | h
  · have h1 : (-t).toNat = 0 := by omega
    rw [h1, pow_zero, div_one]
    conv_lhs => rw [← Int.toNat_of_nonneg h]
    exact zpow_natCast _ _
  · have h1 : t.toNat = 0 := by omega
    have h2 : t = -((-t).toNat : Int) := by omega
    rw [h1, pow_zero, one_div]
    conv_lhs => rw [h2]
    rw [zpow_neg, zpow_natCast]

theorem halfUlp_iff (P num den d : Nat) (e : Int) (hden : 0 < den) :
    HalfUlp P num den d e ↔ |(num : ℚ) / den - d * (10 : ℚ) ^ (e - P)| ≤ (10 : ℚ) ^ (e - P) / 2 := by
  unfold HalfUlp
  rw [zpow10, abs_le]
  have e2 : ((P : Int) - e).toNat = (-(e - P)).toNat := by congr 1; ring
  rw [e2]
  generalize (e - (P : Int)).toNat = a
  generalize (-(e - (P : Int))).toNat = b
  have hd : (0 : ℚ) < den := by exact_mod_cast hden
  have ha : (0 : ℚ) < 10 ^ a := by positivity
  have hb : (0 : ℚ) < 10 ^ b := by positivity
  have c1 : (2 * d * 10 ^ a * den ≤ 2 * num * 10 ^ b + 10 ^ a * den) ↔
      ((2 * d * 10 ^ a * den : ℚ) ≤ 2 * num * 10 ^ b + 10 ^ a * den) := by
    constructor <;> intro h <;> exact_mod_cast h
  have c2 : (2 * num * 10 ^ b ≤ 2 * d * 10 ^ a * den + 10 ^ a * den) ↔
      ((2 * num * 10 ^ b : ℚ) ≤ 2 * d * 10 ^ a * den + 10 ^ a * den) := by
    constructor <;> intro h <;> exact_mod_cast h
  rw [c1, c2]
  have K : (0 : ℚ) < 2 * den * 10 ^ b := by positivity
  have L1 : -((10 : ℚ) ^ a / 10 ^ b / 2) ≤ (num : ℚ) / den - d * ((10 : ℚ) ^ a / 10 ^ b) ↔
      (2 * d * 10 ^ a * den : ℚ) ≤ 2 * num * 10 ^ b + 10 ^ a * den := by
    rw [← sub_nonneg, ← sub_nonneg (b := (2 * d * 10 ^ a * den : ℚ))]
    have : (num : ℚ) / den - d * ((10 : ℚ) ^ a / 10 ^ b) - -((10 : ℚ) ^ a / 10 ^ b / 2) =
        (2 * num * 10 ^ b + 10 ^ a * den - 2 * d * 10 ^ a * den) / (2 * den * 10 ^ b) := by
      field_simp; ring
    rw [this, le_div_iff₀ K, zero_mul]
  have L2 : (num : ℚ) / den - d * ((10 : ℚ) ^ a / 10 ^ b) ≤ (10 : ℚ) ^ a / 10 ^ b / 2 ↔
      (2 * num * 10 ^ b : ℚ) ≤ 2 * d * 10 ^ a * den + 10 ^ a * den := by
    rw [← sub_nonneg, ← sub_nonneg (b := (2 * num * 10 ^ b : ℚ))]
    have : (10 : ℚ) ^ a / 10 ^ b / 2 - ((num : ℚ) / den - d * ((10 : ℚ) ^ a / 10 ^ b)) =
        (2 * d * 10 ^ a * den + 10 ^ a * den - 2 * num * 10 ^ b) / (2 * den * 10 ^ b) := by
      field_simp; ring
    rw [this, le_div_iff₀ K, zero_mul]
  rw [L1, L2]

/-- `roundSig_bounds` with the error bound stated over ℚ:
    `|num/den − d·10^(e−P)| ≤ 10^(e−P)/2`, i.e. half a unit in the `P`-th significant digit. -/
theorem roundSig_bounds_rat (P num den : Nat) (hP : 1 ≤ P) (hden : 0 < den) (hhi : num < 10 ^ 400 * den)
    (hlo : den ≤ num * 10 ^ 400) :
    10 ^ (P - 1) ≤ (roundSig P num den).1 ∧ (roundSig P num den).1 < 10 ^ P ∧
    |(num : ℚ) / den - (roundSig P num den).1 * (10 : ℚ) ^ ((roundSig P num den).2 - P)| ≤
      (10 : ℚ) ^ ((roundSig P num den).2 - P) / 2 := by
  obtain ⟨h1, h2, h3⟩ := roundSig_bounds P num den hP hden hhi hlo
  exact ⟨h1, h2, (halfUlp_iff P num den _ _ hden).1 h3⟩

example : roundSig 8 1 3 = (33333333, 0) ∧
    |((1 : Nat) : ℚ) / (3 : Nat) - (33333333 : Nat) * (10 : ℚ) ^ ((0 : Int) - (8 : Nat))| ≤
      (10 : ℚ) ^ ((0 : Int) - (8 : Nat)) / 2 :=
  ⟨by decide, (roundSig_bounds_rat 8 1 3 (by decide) (by decide) (by norm_num) (by norm_num)).2.2⟩

/-! ### Doubles satisfy the range assumption -/

/-- not `±0` -/
def NonzeroBits (bits : UInt64) : Prop :=
  ¬ (((bits >>> 52) &&& 0x7ff).toNat = 0 ∧ (bits &&& 0xfffffffffffff).toNat = 0)

instance (bits : UInt64) : Decidable (NonzeroBits bits) := by unfold NonzeroBits; infer_instance

/-- the exact value `|x| = num/den` of a finite non-zero double, as computed by `fmtBits` -/
def bitsFrac (bits : UInt64) : Nat × Nat :=
  let ex := ((bits >>> 52) &&& 0x7ff).toNat
  let fr := (bits &&& 0xfffffffffffff).toNat
  let me : Nat × Int := if ex == 0 then (fr, -1074) else (fr + 2 ^ 52, (ex : Int) - 1075)
  if me.2 ≥ 0 then (me.1 * 2 ^ me.2.toNat, 1) else (me.1, 2 ^ (-me.2).toNat)

theorem fmtBits_eq (P : Nat) (bits : UInt64) (hf : FiniteBits bits) (hn : NonzeroBits bits) :
    fmtBits P bits = (if (bits >>> 63) != 0 then "-" else "") ++ fmtPos P (bitsFrac bits).1 (bitsFrac bits).2 := by
  unfold fmtBits bitsFrac
  simp only []
  have hex : (((bits >>> 52) &&& 0x7ff).toNat == 0x7ff) = false := by
    rw [beq_eq_false_iff_ne]; exact hf
  have hz : (((bits >>> 52) &&& 0x7ff).toNat == 0 && (bits &&& 0xfffffffffffff).toNat == 0) = false := by
    unfold NonzeroBits at hn
    rw [Bool.and_eq_false_iff]
    by_cases h : ((bits >>> 52) &&& 0x7ff).toNat = 0
    · right; rw [beq_eq_false_iff_ne]; exact fun h2 => hn ⟨h, h2⟩
    · left; rw [beq_eq_false_iff_ne]; exact h
  rw [hex, hz]
  rfl

private theorem two_pow_le : 2 ^ 1074 ≤ 10 ^ 400 :=
  calc 2 ^ 1074 ≤ 2 ^ (3 * 400) := Nat.pow_le_pow_right (by decide) (by decide)
    _ = 8 ^ 400 := by rw [Nat.pow_mul]
    _ ≤ 10 ^ 400 := Nat.pow_le_pow_left (by decide) _

/-- every finite non-zero double lies in `[10^-400, 10^400)`: the range assumption of `roundSig_bounds` -/
theorem bitsFrac_range (bits : UInt64) (hf : FiniteBits bits) (hn : NonzeroBits bits) :
    0 < (bitsFrac bits).2 ∧ (bitsFrac bits).1 < 10 ^ 400 * (bitsFrac bits).2 ∧
    (bitsFrac bits).2 ≤ (bitsFrac bits).1 * 10 ^ 400 := by
  have hfr : (bits &&& 0xfffffffffffff).toNat < 2 ^ 52 := by
    rw [UInt64.toNat_and]
    exact Nat.lt_of_le_of_lt Nat.and_le_right (by decide)
  have hex : ((bits >>> 52) &&& 0x7ff).toNat < 2 ^ 11 := by
    rw [UInt64.toNat_and]
    exact Nat.lt_of_le_of_lt Nat.and_le_right (by decide)
  unfold FiniteBits at hf
  unfold NonzeroBits at hn
  unfold bitsFrac
  simp only []
  generalize ((bits >>> 52) &&& 0x7ff).toNat = ex at *
  generalize (bits &&& 0xfffffffffffff).toNat = fr at *
  have h10 := two_pow_le
  have hpos : 0 < 10 ^ 400 := by positivity
  by_cases h0 : ex = 0
  · subst h0
    have hfr0 : 0 < fr := by omega
    simp only [beq_self_eq_true, if_true]
    rw [if_neg (by decide)]
    simp only []
    have : (-(-1074 : Int)).toNat = 1074 := by decide
    rw [this]
    refine ⟨by positivity, ?_, ?_⟩
    · calc fr < 2 ^ 52 := hfr
        _ ≤ 2 ^ 1074 := Nat.pow_le_pow_right (by decide) (by decide)
        _ ≤ 10 ^ 400 := h10
        _ ≤ 10 ^ 400 * 2 ^ 1074 := Nat.le_mul_of_pos_right _ (by positivity)
    · calc 2 ^ 1074 ≤ 10 ^ 400 := h10
        _ ≤ fr * 10 ^ 400 := Nat.le_mul_of_pos_left _ hfr0
  · have hb : (ex == 0) = false := by rw [beq_eq_false_iff_ne]; exact h0
    rw [hb]
    simp only [Bool.false_eq_true, if_false]
    have hm1 : 2 ^ 52 ≤ fr + 2 ^ 52 := by omega
    have hm2 : fr + 2 ^ 52 < 2 ^ 53 := by omega
    generalize fr + 2 ^ 52 = m at *
    by_cases he : (ex : Int) - 1075 ≥ 0
    · rw [if_pos he]
      simp only []
      obtain ⟨k, hk⟩ : ∃ k, ((ex : Int) - 1075).toNat = k := ⟨_, rfl⟩
      have hk971 : k ≤ 971 := by omega
      rw [hk]
      refine ⟨by decide, ?_, ?_⟩
      · rw [Nat.mul_one]
        calc m * 2 ^ k < 2 ^ 53 * 2 ^ 971 :=
              Nat.mul_lt_mul_of_lt_of_le hm2 (Nat.pow_le_pow_right (by decide) hk971) (by positivity)
          _ = 2 ^ 1024 := by rw [← Nat.pow_add]
          _ ≤ 2 ^ 1074 := Nat.pow_le_pow_right (by decide) (by decide)
          _ ≤ 10 ^ 400 := h10
      · have : 0 < m * 2 ^ k := by positivity
        exact Nat.mul_pos this hpos
    · rw [if_neg he]
      simp only []
      obtain ⟨k, hk⟩ : ∃ k, (-((ex : Int) - 1075)).toNat = k := ⟨_, rfl⟩
      have hk1074 : k ≤ 1074 := by omega
      rw [hk]
      refine ⟨by positivity, ?_, ?_⟩
      · calc m < 2 ^ 53 := hm2
          _ ≤ 2 ^ 1074 := Nat.pow_le_pow_right (by decide) (by decide)
          _ ≤ 10 ^ 400 := h10
          _ ≤ 10 ^ 400 * 2 ^ k := Nat.le_mul_of_pos_right _ (by positivity)
      · calc 2 ^ k ≤ 2 ^ 1074 := Nat.pow_le_pow_right (by decide) hk1074
          _ ≤ 10 ^ 400 := h10
          _ ≤ m * 10 ^ 400 := Nat.le_mul_of_pos_left _ (by omega)


/-- Capstone: for a finite non-zero double with exact absolute value `num/den`, `fmtBits P bits` is the sign
    followed by the layout `fmtDigs P d e` of a `P`-digit number `d` (`10^(P-1) ≤ d < 10^P`) and exponent `e`
    with `|num/den − d·10^(e−P)| ≤ 10^(e−P)/2`. -/
theorem fmtBits_correctly_rounded (P : Nat) (hP : 1 ≤ P) (bits : UInt64) (hf : FiniteBits bits)
    (hn : NonzeroBits bits) :
    ∃ (d : Nat) (e : Int),
      fmtBits P bits = (if (bits >>> 63) != 0 then "-" else "") ++ fmtDigs P d e ∧
      10 ^ (P - 1) ≤ d ∧ d < 10 ^ P ∧
      |((bitsFrac bits).1 : ℚ) / (bitsFrac bits).2 - d * (10 : ℚ) ^ (e - P)| ≤ (10 : ℚ) ^ (e - P) / 2 := by
  obtain ⟨h0, h1, h2⟩ := bitsFrac_range bits hf hn
  obtain ⟨b1, b2, b3⟩ := roundSig_bounds_rat P (bitsFrac bits).1 (bitsFrac bits).2 hP h0 h1 h2
  exact ⟨_, _, by rw [fmtBits_eq P bits hf hn, fmtPos_eq], b1, b2, b3⟩

-- non-vacuity: the double 1e-05 (`bitsFrac` = 0x14f8b588e368f1 / 2^69)
example : ∃ (d : Nat) (e : Int), fmtBits 8 0x3ee4f8b588e368f1 = "" ++ fmtDigs 8 d e ∧
    10 ^ 7 ≤ d ∧ d < 10 ^ 8 ∧
    |((bitsFrac 0x3ee4f8b588e368f1).1 : ℚ) / (bitsFrac 0x3ee4f8b588e368f1).2 - d * (10 : ℚ) ^ (e - (8 : Nat))| ≤
      (10 : ℚ) ^ (e - (8 : Nat)) / 2 :=
  fmtBits_correctly_rounded 8 (by decide) 0x3ee4f8b588e368f1 (by decide) (by decide)
example : roundSig 8 (bitsFrac 0x3ee4f8b588e368f1).1 (bitsFrac 0x3ee4f8b588e368f1).2 = (10000000, -4) := by decide

end OSq

#print axioms OSq.isCqasmFloat_iff
#print axioms OSq.fmtPos_shape
#print axioms OSq.fmtBits_shape
#print axioms OSq.fixExponent_has_point
#print axioms OSq.fixExponent_form
#print axioms OSq.fmtFloat_literal
#print axioms OSq.noNl_fmtFloat
#print axioms OSq.writeStmt_one_line_float
#print axioms OSq.roundSig_bounds
#print axioms OSq.roundSig_bounds_rat
#print axioms OSq.bitsFrac_range
#print axioms OSq.fmtBits_correctly_rounded
