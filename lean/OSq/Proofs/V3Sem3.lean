import OSq.Proofs.V3Sem
import OSq.Proofs.CircuitSem6
import OSq.Proofs.Main3
import OSq.Proofs.EqBands2
import Mathlib.Algebra.Order.Chebyshev

/-
  OSq.Proofs.V3Sem3 — property C04, semantic half, whole circuit (item 4 of the task; `OSq.V3Sem`):
  **the state map of the re-read circuit is the state map of the written circuit**, for every assignment of
  measurement / reset outcomes, up to one global sign, within the accumulated per-statement bounds — with a constant
  that does NOT depend on the register size.

  No product-perturbation lemma for register operators existed in `Bands*` / `CircuitSem*`; this file provides one,
  with the ℓ² gain of a matrix as the norm (elementary: finite sums only, no operator-norm library).

  Linear algebra (`Fin N → ℂ`)
  * `nsq x = Σ ‖x r‖²`, `Gain M c := ∀ x, nsq (M *ᵥ x) ≤ c² · nsq x`.
  * `nsq_add_le` (Minkowski, squared form), `Gain.mul`, `Gain.add`, `Gain.smul`, `Gain.mono`, `gain_one`, `gain_zero`.
  * `Gain.entry_le`        an entry is at most the gain.
  * `gain_of_unitary`      a unitary matrix has gain 1.
  * `gain_of_entries`      entries `≤ ε` ⇒ gain `≤ N·ε`.
  The embedding (`lift` of `CircuitSem2`)
  * `fib`, `sum_agreeOff_real`, `card_fiber`, `sum_fibers`   double counting over the fibers of `agreeOff`.
  * `lift_mulVec`          the lifted operator acts fiberwise as the local operator.
  * `lift_gain`            **`lift` preserves the gain**;  `lift_entry`: local entries occur among the lifted entries.
  Statement operators
  * `gain_measOp`, `gain_resetOp`, `gain_bsr`, `gain_ctrl` (`toOp2_unitary`, `bd_unitary`), `libGate_form`
  * `gain_libStmt`         every statement operator of the default library (qubits inside the register) is a contraction.
  * `diff_gain`            two statement operators on the same `k` qubits with `‖A' − σA‖_entry ≤ ε` ⇒ `Gain (A' − σA) (2^k ε)`.
  Accumulation
  * `errSum l l' = Σ_i 2^(qubits of statement i) · opBound_i`;  `angleMass l = Σ_i 2^(qubits)·|θ_i|`.
  * `circOp_gain`          (product perturbation) along `Forall₂ (Reread atol)`: `Gain (circOp n l' o − τ·circOp n l o) (errSum l l')`,
                           one `τ = ±1` for all `o`; both `circOp` are contractions.
  * `circOp_entry_bound`   entrywise: `‖circOp n l' o r k − τ·circOp n l o r k‖ ≤ errSum l l'`.
  * `errSum_le`            `errSum l l' ≤ 5.1·10⁻⁸ · angleMass l`.
  * `writeCircuit_circuit_sem`  (main) circuit of library statements and comments, formatter hypotheses as in
                           `writeCircuit_read_sem`, any register size `n` containing all used qubits:
                           `rebuildProgram` succeeds with `c'`, same register sizes, and
                           `∃ τ = ±1, ∀ o r k, ‖circOp n c'.stmts o r k − τ·circOp n c.stmts o r k‖ ≤ errSum ≤ 5.1·10⁻⁸·angleMass`.
  * example                the 5-statement circuit of `V3Sem` on 2 qubits: within `5.1·10⁻⁸·(2·1/3)`.
  The hypothesis `hreg` (all qubits `< n`) is needed: outside the register the bit-level embedding is not a lift.
-/

open Matrix

namespace OSq
namespace V3Sem
open OSq.Sem OSq.GateTable OSq.SchedSem OSq.V1Sem Complex

/-! ### ℓ² gain of matrices on `Fin N → ℂ` (no operator-norm library needed) -/

/-- squared ℓ² norm of a vector -/
noncomputable def nsq {N : Nat} (x : Fin N → ℂ) : ℝ := ∑ r, ‖x r‖ ^ 2

theorem nsq_nonneg {N : Nat} (x : Fin N → ℂ) : 0 ≤ nsq x := Finset.sum_nonneg fun _ _ => sq_nonneg _

/-- `‖M x‖₂ ≤ c ‖x‖₂` for every `x` -/
def Gain {N : Nat} (M : Matrix (Fin N) (Fin N) ℂ) (c : ℝ) : Prop := ∀ x, nsq (M *ᵥ x) ≤ c ^ 2 * nsq x

/-- Minkowski, in squared form -/
theorem nsq_add_le {N : Nat} (u v : Fin N → ℂ) {a b T : ℝ} (ha : 0 ≤ a) (hb : 0 ≤ b) (hT : 0 ≤ T)
    (hu : nsq u ≤ a ^ 2 * T) (hv : nsq v ≤ b ^ 2 * T) : nsq (u + v) ≤ (a + b) ^ 2 * T := by
  have hcs := Finset.sum_mul_sq_le_sq_mul_sq Finset.univ (fun r => ‖u r‖) (fun r => ‖v r‖)
  have hS0 : 0 ≤ ∑ r, ‖u r‖ * ‖v r‖ := Finset.sum_nonneg fun _ _ => mul_nonneg (norm_nonneg _) (norm_nonneg _)
  have hS : ∑ r, ‖u r‖ * ‖v r‖ ≤ a * b * T := by
    have h1 : (∑ r, ‖u r‖ * ‖v r‖) ^ 2 ≤ (a * b * T) ^ 2 := by
      calc (∑ r, ‖u r‖ * ‖v r‖) ^ 2 ≤ nsq u * nsq v := hcs
        _ ≤ (a ^ 2 * T) * (b ^ 2 * T) := mul_le_mul hu hv (nsq_nonneg v) (by positivity)
        _ = (a * b * T) ^ 2 := by ring
    exact (pow_le_pow_iff_left₀ hS0 (by positivity) two_ne_zero).1 h1
  calc nsq (u + v) = ∑ r, ‖u r + v r‖ ^ 2 := rfl
    _ ≤ ∑ r, (‖u r‖ + ‖v r‖) ^ 2 :=
        Finset.sum_le_sum fun r _ => pow_le_pow_left₀ (norm_nonneg _) (norm_add_le _ _) 2
    _ = nsq u + 2 * ∑ r, ‖u r‖ * ‖v r‖ + nsq v := by
        simp only [nsq, Finset.mul_sum, ← Finset.sum_add_distrib]
        apply Finset.sum_congr rfl; intro r _; ring
    _ ≤ a ^ 2 * T + 2 * (a * b * T) + b ^ 2 * T := by linarith
    _ = (a + b) ^ 2 * T := by ring

theorem nsq_smul {N : Nat} (z : ℂ) (x : Fin N → ℂ) : nsq (z • x) = ‖z‖ ^ 2 * nsq x := by
  simp only [nsq, Pi.smul_apply, smul_eq_mul, norm_mul, mul_pow, Finset.mul_sum]

theorem Gain.mono {N : Nat} {M : Matrix (Fin N) (Fin N) ℂ} {c c' : ℝ} (h : Gain M c) (h0 : 0 ≤ c) (hc : c ≤ c') :
    Gain M c' := fun x =>
  (h x).trans (mul_le_mul_of_nonneg_right (pow_le_pow_left₀ h0 hc 2) (nsq_nonneg x))

theorem Gain.mul {N : Nat} {A B : Matrix (Fin N) (Fin N) ℂ} {a b : ℝ} (hA : Gain A a) (hB : Gain B b) :
    Gain (A * B) (a * b) := by
  intro x
  rw [← Matrix.mulVec_mulVec]
  calc nsq (A *ᵥ (B *ᵥ x)) ≤ a ^ 2 * nsq (B *ᵥ x) := hA _
    _ ≤ a ^ 2 * (b ^ 2 * nsq x) := mul_le_mul_of_nonneg_left (hB x) (sq_nonneg a)
    _ = (a * b) ^ 2 * nsq x := by ring

theorem Gain.add {N : Nat} {A B : Matrix (Fin N) (Fin N) ℂ} {a b : ℝ} (hA : Gain A a) (hB : Gain B b)
    (ha : 0 ≤ a) (hb : 0 ≤ b) : Gain (A + B) (a + b) := by
  intro x
  rw [Matrix.add_mulVec]
  exact nsq_add_le _ _ ha hb (nsq_nonneg x) (hA x) (hB x)

theorem Gain.smul {N : Nat} {A : Matrix (Fin N) (Fin N) ℂ} {a : ℝ} (hA : Gain A a) {z : ℂ} (hz : ‖z‖ = 1) :
    Gain (z • A) a := by
  intro x
  rw [Matrix.smul_mulVec, nsq_smul, hz, one_pow, one_mul]
  exact hA x

theorem gain_one {N : Nat} : Gain (1 : Matrix (Fin N) (Fin N) ℂ) 1 := by
  intro x; rw [Matrix.one_mulVec]; simp

/-- an entry is at most the gain -/
theorem Gain.entry_le {N : Nat} {D : Matrix (Fin N) (Fin N) ℂ} {c : ℝ} (h : Gain D c) (hc : 0 ≤ c) (r k : Fin N) :
    ‖D r k‖ ≤ c := by
  have h1 := h (Pi.single k 1)
  have e1 : nsq (Pi.single k (1 : ℂ) : Fin N → ℂ) = 1 := by
    unfold nsq
    rw [Finset.sum_eq_single k]
    · simp
    · intro b _ hb; simp [hb]
    · intro hk; exact absurd (Finset.mem_univ k) hk
  rw [e1, mul_one] at h1
  have e2 : ‖D r k‖ ^ 2 ≤ nsq (D *ᵥ Pi.single k 1) := by
    have : (D *ᵥ Pi.single k 1) r = D r k := by simp
    rw [← this]
    exact Finset.single_le_sum (f := fun r => ‖(D *ᵥ Pi.single k 1) r‖ ^ 2) (fun _ _ => sq_nonneg _)
      (Finset.mem_univ r)
  exact (pow_le_pow_iff_left₀ (norm_nonneg _) hc two_ne_zero).1 (e2.trans h1)

/-- a unitary matrix is an isometry -/
theorem gain_of_unitary {N : Nat} {U : Matrix (Fin N) (Fin N) ℂ} (hU : U ∈ Matrix.unitaryGroup (Fin N) ℂ) :
    Gain U 1 := by
  intro x
  have key : ∀ y : Fin N → ℂ, ((nsq y : ℝ) : ℂ) = star y ⬝ᵥ y := by
    intro y
    simp only [nsq, dotProduct, Pi.star_apply, Complex.ofReal_sum, Complex.ofReal_pow]
    apply Finset.sum_congr rfl
    intro r _
    rw [Complex.star_def, Complex.conj_mul']
  have h2 : star (U *ᵥ x) ⬝ᵥ (U *ᵥ x) = star x ⬝ᵥ x := by
    rw [Matrix.star_mulVec, Matrix.dotProduct_mulVec, Matrix.vecMul_vecMul, ← Matrix.star_eq_conjTranspose,
      Matrix.mem_unitaryGroup_iff'.1 hU, Matrix.vecMul_one]
  have h3 : nsq (U *ᵥ x) = nsq x := by
    apply Complex.ofReal_injective
    rw [key, key, h2]
  rw [h3]; simp

/-- entries `≤ ε` ⇒ gain `≤ N ε` -/
theorem gain_of_entries {N : Nat} {D : Matrix (Fin N) (Fin N) ℂ} {ε : ℝ} (h : ∀ i j, ‖D i j‖ ≤ ε) :
    Gain D (N * ε) := by
  intro x
  have hrow : ∀ i, ‖(D *ᵥ x) i‖ ^ 2 ≤ ε ^ 2 * (N * nsq x) := by
    intro i
    have h1 : ‖(D *ᵥ x) i‖ ≤ ε * ∑ j, ‖x j‖ := by
      calc ‖(D *ᵥ x) i‖ = ‖∑ j, D i j * x j‖ := rfl
        _ ≤ ∑ j, ‖D i j * x j‖ := norm_sum_le _ _
        _ ≤ ∑ j, ε * ‖x j‖ := Finset.sum_le_sum fun j _ => by
            rw [norm_mul]; exact mul_le_mul_of_nonneg_right (h i j) (norm_nonneg _)
        _ = ε * ∑ j, ‖x j‖ := by rw [Finset.mul_sum]
    have h2 : (∑ j, ‖x j‖) ^ 2 ≤ N * nsq x := by
      have := sq_sum_le_card_mul_sum_sq (s := (Finset.univ : Finset (Fin N))) (f := fun j => ‖x j‖)
      simpa [nsq] using this
    calc ‖(D *ᵥ x) i‖ ^ 2 ≤ (ε * ∑ j, ‖x j‖) ^ 2 := pow_le_pow_left₀ (norm_nonneg _) h1 2
      _ = ε ^ 2 * (∑ j, ‖x j‖) ^ 2 := by ring
      _ ≤ ε ^ 2 * (N * nsq x) := mul_le_mul_of_nonneg_left h2 (sq_nonneg _)
  calc nsq (D *ᵥ x) = ∑ i, ‖(D *ᵥ x) i‖ ^ 2 := rfl
    _ ≤ ∑ _i : Fin N, ε ^ 2 * (N * nsq x) := Finset.sum_le_sum fun i _ => hrow i
    _ = (N * ε) ^ 2 * nsq x := by
        rw [Finset.sum_const, Finset.card_univ, Fintype.card_fin, nsmul_eq_mul]; ring

/-! ### The embedding `lift` preserves the gain (double counting over the fibers of `agreeOff`) -/

section liftGain
variable {n k : Nat} (idx : List Nat) (hk : idx.length = k) (hnd : idx.Nodup) (hlt : ∀ q ∈ idx, q < n)

/-- the ket in the fiber of `r` (same bits outside `idx`) with local index `j` -/
def fib (r : Fin (2 ^ n)) (j : Fin (2 ^ k)) : Fin (2 ^ n) :=
  ⟨expandKet r.val j.val idx, expandKet_lt _ _ _ r.isLt hlt⟩

include hnd in
theorem subKet_fib (r : Fin (2 ^ n)) (j : Fin (2 ^ k)) : subKet idx hk (fib idx hlt r j) = j := by
  apply Fin.ext
  exact reducedKet_expandKet idx hnd r.val j.val (by rw [hk]; exact j.isLt)

theorem agreeOff_fib (r : Fin (2 ^ n)) (j : Fin (2 ^ k)) : agreeOff n idx r.val (fib idx hlt r j).val :=
  agreeOff_expandKet n idx r.val j.val

include hnd hk in
theorem fib_congr {r r' : Fin (2 ^ n)} (h : agreeOff n idx r.val r'.val) (j : Fin (2 ^ k)) :
    fib idx hlt r' j = fib idx hlt r j := by
  apply Fin.ext
  have hx : agreeOff n idx r'.val (fib idx hlt r j).val := agreeOff_trans (agreeOff_symm h) (agreeOff_fib idx hlt r j)
  have := expandKet_reducedKet idx r'.isLt (fib idx hlt r j).isLt hx
  rw [show reducedKet (fib idx hlt r j).val idx = j.val from congrArg Fin.val (subKet_fib idx hk hnd hlt r j)] at this
  exact this

include hnd hk in
theorem sum_agreeOff_real (r : Fin (2 ^ n)) (f : Fin (2 ^ n) → ℝ)
    (hf : ∀ x : Fin (2 ^ n), ¬ agreeOff n idx r.val x.val → f x = 0) :
    ∑ x, f x = ∑ j : Fin (2 ^ k), f (fib idx hlt r j) := by
  apply Complex.ofReal_injective
  rw [Complex.ofReal_sum, Complex.ofReal_sum]
  exact sum_agreeOff idx hnd hlt hk r (fun x => ((f x : ℝ) : ℂ)) (fun x hx => by rw [hf x hx]; rfl)

include hnd hk hlt in
/-- every fiber has `2^k` elements -/
theorem card_fiber (x : Fin (2 ^ n)) :
    ∑ r : Fin (2 ^ n), (if agreeOff n idx r.val x.val then (1 : ℝ) else 0) = 2 ^ k := by
  have h1 : ∀ r : Fin (2 ^ n), (if agreeOff n idx r.val x.val then (1 : ℝ) else 0)
      = if agreeOff n idx x.val r.val then (1 : ℝ) else 0 := by
    intro r
    by_cases h : agreeOff n idx r.val x.val
    · rw [if_pos h, if_pos (agreeOff_symm h)]
    · rw [if_neg h, if_neg (fun h' => h (agreeOff_symm h'))]
  rw [Finset.sum_congr rfl (fun r _ => h1 r),
    sum_agreeOff_real idx hk hnd hlt x _ (fun r hr => if_neg hr)]
  rw [Finset.sum_congr rfl (fun j _ => if_pos (agreeOff_fib idx hlt x j))]
  simp

include hnd hk in
/-- double counting: summing `g` over all fibers counts every ket `2^k` times -/
theorem sum_fibers (g : Fin (2 ^ n) → ℝ) :
    ∑ r : Fin (2 ^ n), ∑ j : Fin (2 ^ k), g (fib idx hlt r j) = 2 ^ k * ∑ x, g x := by
  have h1 : ∀ r : Fin (2 ^ n), ∑ j : Fin (2 ^ k), g (fib idx hlt r j)
      = ∑ x : Fin (2 ^ n), (if agreeOff n idx r.val x.val then g x else 0) := by
    intro r
    rw [sum_agreeOff_real idx hk hnd hlt r (fun x => if agreeOff n idx r.val x.val then g x else 0)
      (fun x hx => if_neg hx)]
    exact Finset.sum_congr rfl (fun j _ => (if_pos (agreeOff_fib idx hlt r j)).symm)
  rw [Finset.sum_congr rfl (fun r _ => h1 r), Finset.sum_comm, Finset.mul_sum]
  apply Finset.sum_congr rfl
  intro x _
  have : ∀ r : Fin (2 ^ n), (if agreeOff n idx r.val x.val then g x else 0)
      = g x * (if agreeOff n idx r.val x.val then (1 : ℝ) else 0) := by
    intro r; split <;> simp
  rw [Finset.sum_congr rfl (fun r _ => this r), ← Finset.mul_sum, card_fiber idx hk hnd hlt x]
  ring

include hnd hk in
/-- the lifted operator acts fiberwise as the local operator -/
theorem lift_mulVec (m : Op k) (x : Fin (2 ^ n) → ℂ) (r : Fin (2 ^ n)) :
    ((lift idx hk m : Op n) *ᵥ x) r = (m *ᵥ fun j => x (fib idx hlt r j)) (subKet idx hk r) := by
  show ∑ c, (lift idx hk m : Op n) r c * x c = ∑ j, m (subKet idx hk r) j * x (fib idx hlt r j)
  rw [sum_agreeOff idx hnd hlt hk r (fun c => (lift idx hk m : Op n) r c * x c)
    (fun c hc => by simp only [lift_apply, if_neg hc, zero_mul])]
  apply Finset.sum_congr rfl
  intro j _
  show (lift idx hk m : Op n) r (fib idx hlt r j) * x (fib idx hlt r j) = _
  rw [lift_apply, if_pos (agreeOff_fib idx hlt r j), subKet_fib idx hk hnd hlt r j]

include hnd hk hlt in
/-- **`lift` preserves the ℓ² gain** -/
theorem lift_gain {m : Op k} {c : ℝ} (hm : Gain m c) : Gain (lift idx hk m : Op n) c := by
  intro x
  have hpos : (0 : ℝ) < 2 ^ k := by positivity
  -- `g r := |(lift m x) r|²`; on the fiber of `r` it is `|(m y_r) j|²`
  have hg : ∀ r : Fin (2 ^ n), ∑ j : Fin (2 ^ k), ‖((lift idx hk m : Op n) *ᵥ x) (fib idx hlt r j)‖ ^ 2
      = nsq (m *ᵥ fun j => x (fib idx hlt r j)) := by
    intro r
    apply Finset.sum_congr rfl
    intro j _
    rw [lift_mulVec idx hk hnd hlt m x (fib idx hlt r j), subKet_fib idx hk hnd hlt r j]
    have : (fun j' : Fin (2 ^ k) => x (fib idx hlt (fib idx hlt r j) j')) = fun j' => x (fib idx hlt r j') := by
      funext j'
      rw [fib_congr idx hk hnd hlt (agreeOff_fib idx hlt r j) j']
    rw [this]
  have h1 := sum_fibers idx hk hnd hlt (fun r => ‖((lift idx hk m : Op n) *ᵥ x) r‖ ^ 2)
  have h2 := sum_fibers idx hk hnd hlt (fun r => ‖x r‖ ^ 2)
  simp only [hg] at h1
  have h3 : ∑ r : Fin (2 ^ n), nsq (m *ᵥ fun j => x (fib idx hlt r j))
      ≤ ∑ r : Fin (2 ^ n), c ^ 2 * nsq (fun j => x (fib idx hlt r j)) :=
    Finset.sum_le_sum fun r _ => hm _
  have h4 : ∑ r : Fin (2 ^ n), c ^ 2 * nsq (fun j : Fin (2 ^ k) => x (fib idx hlt r j))
      = c ^ 2 * (2 ^ k * nsq x) := by
    rw [← Finset.mul_sum]
    congr 1
  have h5 : 2 ^ k * nsq ((lift idx hk m : Op n) *ᵥ x) ≤ 2 ^ k * (c ^ 2 * nsq x) := by
    calc 2 ^ k * nsq ((lift idx hk m : Op n) *ᵥ x) = _ := h1.symm
      _ ≤ _ := h3
      _ = c ^ 2 * (2 ^ k * nsq x) := h4
      _ = 2 ^ k * (c ^ 2 * nsq x) := by ring
  exact le_of_mul_le_mul_left h5 hpos

include hnd hk in
/-- the entries of the local operator occur among the entries of the lifted one -/
theorem lift_entry (m : Op k) (i j : Fin (2 ^ k)) (hn : 0 < 2 ^ n) :
    m i j = (lift idx hk m : Op n) (fib idx hlt ⟨0, hn⟩ i) (fib idx hlt ⟨0, hn⟩ j) := by
  rw [lift_apply, if_pos, subKet_fib idx hk hnd hlt, subKet_fib idx hk hnd hlt]
  exact agreeOff_trans (agreeOff_symm (agreeOff_fib idx hlt ⟨0, hn⟩ i)) (agreeOff_fib idx hlt ⟨0, hn⟩ j)

end liftGain

/-! ### The statement operators of the library are contractions -/

theorem gain_measOp (n q : Nat) (b : Bool) : Gain (measOp n q b) 1 := by
  intro x
  have h : ∀ r, (measOp n q b *ᵥ x) r = if r.val.testBit q = b then x r else 0 := by
    intro r
    show ∑ c, measOp n q b r c * x c = _
    rw [Finset.sum_eq_single r]
    · simp [measOp]
    · intro c _ hc; simp [measOp, Ne.symm hc]
    · intro h; exact absurd (Finset.mem_univ r) h
  rw [one_pow, one_mul]
  apply Finset.sum_le_sum
  intro r _
  rw [h]
  split <;> simp

theorem gain_resetOp_local (b : Bool) : Gain (resetOp 1 0 b) 1 := by
  intro y
  rw [one_pow, one_mul]
  have h2 : ∀ f : Fin (2 ^ 1) → ℝ, ∑ r, f r = f ⟨0, by decide⟩ + f ⟨1, by decide⟩ := fun f => Fin.sum_univ_two f
  have hc2 : ∀ f : Fin (2 ^ 1) → ℂ, ∑ r, f r = f ⟨0, by decide⟩ + f ⟨1, by decide⟩ := fun f => Fin.sum_univ_two f
  unfold nsq
  rw [h2, h2]
  simp only [Matrix.mulVec, dotProduct, hc2, resetOp]
  cases b <;> simp [agreeOff_one_zero]

theorem gain_resetOp (n q : Nat) (hq : q < n) (b : Bool) : Gain (resetOp n q b) 1 := by
  rw [resetOp_eq_lift]
  exact lift_gain [q] rfl (by simp) (by intro x hx; simp at hx; omega) (gain_resetOp_local b)

/-- a one-qubit rotation about a unit axis, on a register qubit -/
theorem gain_bsr (n : Nat) (q : Int) (hq : 0 ≤ q ∧ q < (n : Int)) (a : Vec3 ℝ)
    (ha : a.1 ^ 2 + a.2.1 ^ 2 + a.2.2 ^ 2 = 1) (θ φ : ℝ) : Gain (gateOp n (.bsr q a θ φ)) 1 := by
  rw [gateOp_bsr_eq_lift n q (by omega) a θ φ]
  refine lift_gain [q.toNat] rfl (by simp) (by intro x hx; simp at hx; omega) ?_
  apply gain_of_unitary
  have h := rot_unitary a θ φ ha
  rw [← gateOp_one_rot a θ φ] at h
  exact h

theorem toOp2_unitary {M : M4} (h : M ∈ Matrix.unitaryGroup (Fin 2 ⊕ Fin 2) ℂ) :
    toOp2 M ∈ Matrix.unitaryGroup (Fin (2 ^ 2)) ℂ := by
  rw [Matrix.mem_unitaryGroup_iff'] at h ⊢
  have e : star (toOp2 M) = toOp2 (star M) := by
    rw [Matrix.star_eq_conjTranspose, Matrix.star_eq_conjTranspose]
    exact Matrix.conjTranspose_submatrix _ _ _
  rw [e, ← toOp2_mul, h, toOp2_one]

theorem bd_unitary {R : Matrix (Fin 2) (Fin 2) ℂ} (h : R ∈ Matrix.unitaryGroup (Fin 2) ℂ) :
    bd 1 R ∈ Matrix.unitaryGroup (Fin 2 ⊕ Fin 2) ℂ := by
  rw [Matrix.mem_unitaryGroup_iff'] at h ⊢
  rw [Matrix.star_eq_conjTranspose] at h ⊢
  unfold bd
  rw [Matrix.fromBlocks_conjTranspose, Matrix.fromBlocks_multiply]
  simp [h, Matrix.fromBlocks_one]

/-- a controlled one-qubit rotation (unit axis), control ≠ target, both register qubits -/
theorem gain_ctrl (n : Nat) (c t : Int) (hc : 0 ≤ c ∧ c < (n : Int)) (ht : 0 ≤ t ∧ t < (n : Int)) (hct : c ≠ t)
    (a : Vec3 ℝ) (ha : a.1 ^ 2 + a.2.1 ^ 2 + a.2.2 ^ 2 = 1) (θ φ : ℝ) :
    Gain (gateOp n (.ctrl c (.bsr t a θ φ))) 1 := by
  have hnd : [c, t].Nodup := by simp [hct]
  have hreg : ∀ q ∈ [c, t], 0 ≤ q ∧ q < (n : Int) := by
    intro q hq
    simp only [List.mem_cons, List.not_mem_nil, or_false] at hq
    rcases hq with rfl | rfl
    · exact hc
    · exact ht
  rw [gateOp_eq_lift [c, t] hnd hreg (.ctrl c (.bsr t a θ φ)) (by simp [Gate.operands])]
  refine lift_gain _ _ (nodup_map_toNat [c, t] hnd hreg) (map_toNat_lt [c, t] hreg) ?_
  apply gain_of_unitary
  have e := gateOp2_pos c t hct (.ctrl c (.bsr t a θ φ), none) (.inr (.inr ⟨a, θ, φ, rfl⟩))
  rw [op4_ctrl] at e
  have e' : gateOp [c, t].length ((Gate.ctrl c (.bsr t a θ φ)).pos [c, t]) = toOp2 (bd 1 (rot a θ φ)) := e
  rw [e']
  exact toOp2_unitary (bd_unitary (rot_unitary a θ φ ha))

/-- the two forms of a library gate: a unit-axis rotation, or a controlled unit-axis rotation with `c ≠ t` -/
theorem libGate_form {atol : ℝ} {g : Gate ℝ} {nm : Named ℝ} (h : LibGate atol g nm) :
    (∃ q a θ φ, g = .bsr q a θ φ ∧ a.1 ^ 2 + a.2.1 ^ 2 + a.2.2 ^ 2 = 1) ∨
    (∃ c t a θ φ, c ≠ t ∧ g = .ctrl c (.bsr t a θ φ) ∧ a.1 ^ 2 + a.2.1 ^ 2 + a.2.2 ^ 2 = 1) := by
  have hH : (1 / Real.sqrt 2) ^ 2 + (0 : ℝ) ^ 2 + (1 / Real.sqrt 2) ^ 2 = 1 := by
    rw [div_pow, Real.sq_sqrt (by norm_num)]; norm_num
  cases h with
  | H q => exact .inl ⟨_, _, _, _, rfl, hH⟩
  | CNOT c t hct => exact .inr ⟨_, _, _, _, _, hct, rfl, by norm_num⟩
  | CZ c t hct => exact .inr ⟨_, _, _, _, _, hct, rfl, by norm_num⟩
  | CR c t θ hct => exact .inr ⟨_, _, _, _, _, hct, rfl, by norm_num⟩
  | CRk c t k hct => exact .inr ⟨_, _, _, _, _, hct, rfl, by norm_num⟩
  | _ => exact .inl ⟨_, _, _, _, rfl, by norm_num⟩

/-- **every statement operator of the default library is an ℓ² contraction** (statement inside the register) -/
theorem gain_libStmt {atol : ℝ} (h0 : 0 < atol) (h1 : atol ≤ Real.pi / 2) {s : Stmt ℝ} (hs : LibStmt atol s)
    (n : Nat) (hreg : ∀ q ∈ s.qubits, 0 ≤ q ∧ q < (n : Int)) (b : Bool) : Gain (stmtOp n s b) 1 := by
  cases hs with
  | @gate name args g nm h =>
    show Gain (gateOp n g) 1
    rcases libGate_form (callGate_cases atol h0 h1 h) with ⟨q, a, θ, φ, rfl, ha⟩ | ⟨c, t, a, θ, φ, hct, rfl, ha⟩
    · exact gain_bsr n q (hreg q (by simp [Stmt.qubits, Gate.operands])) a ha θ φ
    · exact gain_ctrl n c t (hreg c (by simp [Stmt.qubits, Gate.operands]))
        (hreg t (by simp [Stmt.qubits, Gate.operands])) hct a ha θ φ
  | @measure name args s h =>
    obtain ⟨q, b', -, rfl⟩ := callMeasure_cases h
    exact gain_measOp n q.toNat b
  | @reset name args s h =>
    obtain ⟨q, -, rfl⟩ := callReset_cases h
    have := hreg q (by simp [Stmt.qubits])
    exact gain_resetOp n q.toNat (by omega) b

/-! ### The difference of two statement operators on the same qubits -/

theorem sameShape_qubits {s s' : Stmt ℝ} (h : SameShape s s') : s'.qubits = s.qubits := by
  cases h with
  | gate hn hq ho hp => exact ho
  | measure hn => rfl
  | reset hn => rfl

theorem sameShape_hasOutcome {s s' : Stmt ℝ} (h : SameShape s s') : s'.hasOutcome = s.hasOutcome := by
  cases h <;> rfl

/-- an entrywise bound `ε` on `A' − σ A` for two statement operators on the same `k` qubits is an ℓ² gain `2^k ε`
    on every register containing these qubits (both are lifts of `2^k × 2^k` operators along the same positions) -/
theorem diff_gain {s s' : Stmt ℝ} (hq : s'.qubits = s.qubits) (n : Nat)
    (hreg : ∀ q ∈ s.qubits, 0 ≤ q ∧ q < (n : Int)) (σ : ℂ) (ε : ℝ) (b : Bool)
    (hent : ∀ r k, ‖stmtOp n s' b r k - σ * stmtOp n s b r k‖ ≤ ε) :
    Gain (stmtOp n s' b - σ • stmtOp n s b) (2 ^ s.support.length * ε) := by
  have hreg' : ∀ q ∈ s'.qubits, 0 ≤ q ∧ q < (n : Int) := by rw [hq]; exact hreg
  have hsup : s'.support = s.support := by unfold Stmt.support; rw [hq]
  obtain ⟨k, hk, m, hm⟩ := stmtOp_is_lift s hreg b
  obtain ⟨k', hk', m', hm'⟩ := stmtOp_is_lift s' hreg' b
  have hnd := support_nodup s hreg
  have hlt := support_lt s hreg
  revert hk' m'
  rw [hsup]
  intro hk' m' hm'
  obtain rfl : k = k' := by rw [← hk', ← hk]
  have e : stmtOp n s' b - σ • stmtOp n s b = lift s.support hk (m' - σ • m) := by
    rw [hm, hm']
    ext r c
    simp only [lift_apply, Matrix.sub_apply, Matrix.smul_apply]
    split <;> simp
  have hn : 0 < 2 ^ n := by positivity
  have hD : ∀ i j, ‖(m' - σ • m) i j‖ ≤ ε := by
    intro i j
    rw [lift_entry s.support hk hnd hlt (m' - σ • m) i j hn, ← e]
    simpa [Matrix.sub_apply, Matrix.smul_apply] using hent _ _
  rw [e]
  have hg := gain_of_entries hD
  have hc : ((2 ^ k : ℕ) : ℝ) * ε = 2 ^ s.support.length * ε := by rw [hk]; push_cast; ring
  rw [hc] at hg
  exact lift_gain s.support hk hnd hlt hg

/-! ### Accumulation along the circuit -/

/-- the accumulated bound: `Σ_i 2^(number of qubits of statement i) · opBound_i` -/
noncomputable def errSum : List (Stmt ℝ) → List (Stmt ℝ) → ℝ
  | s :: l, s' :: l' => 2 ^ s.support.length * opBound s s' + errSum l l'
  | _, _ => 0

theorem errSum_nonneg : ∀ (l l' : List (Stmt ℝ)), 0 ≤ errSum l l'
  | [], _ => by simp [errSum]
  | _ :: _, [] => by simp [errSum]
  | s :: l, s' :: l' => by
    have := errSum_nonneg l l'
    have := opBound_nonneg s s'
    simp only [errSum]
    positivity

theorem gain_zero {N : Nat} : Gain (0 : Matrix (Fin N) (Fin N) ℂ) 0 := by
  intro x
  rw [Matrix.zero_mulVec]
  simp [nsq]

section accumulate
variable (atol : ℝ) (h0 : 0 < atol) (h1 : atol ≤ Real.pi / 2) (n : Nat)
include h0 h1

/-- **product perturbation**: along `Forall₂ (Reread atol)` the circuit operators differ, in ℓ² gain, by at most
    the accumulated bound, up to one global sign; both circuit operators are contractions -/
theorem circOp_gain {l l' : List (Stmt ℝ)} (hF : List.Forall₂ (Reread atol) l l')
    (hreg : ∀ s ∈ l, ∀ q ∈ s.qubits, 0 ≤ q ∧ q < (n : Int)) :
    ∃ τ : ℂ, (τ = 1 ∨ τ = -1) ∧ ∀ o, Gain (circOp n l' o - τ • circOp n l o) (errSum l l') ∧
      Gain (circOp n l' o) 1 ∧ Gain (circOp n l o) 1 := by
  induction hF with
  | nil =>
    refine ⟨1, .inl rfl, fun o => ⟨?_, by simpa using gain_one, by simpa using gain_one⟩⟩
    simp only [circOp_nil, one_smul, sub_self, errSum]
    exact gain_zero
  | @cons s s' l l' hR hF ih =>
    obtain ⟨τ, hτ, ih⟩ := ih (fun s hs => hreg s (List.mem_cons_of_mem _ hs))
    cases hR with
    | comment t =>
      refine ⟨τ, hτ, fun o => ?_⟩
      have e0 : opBound (.comment t) (.comment t) = 0 := by
        simp [opBound, stmtParams, angleDiff]
      simp only [circOp_comment, errSum, e0, mul_zero, zero_add]
      exact ih o
    | instr hs hs' hsh hop =>
      obtain ⟨σ, hσ, -, hent⟩ := hop
      have hσ1 : ‖σ‖ = 1 := by rcases hσ with rfl | rfl <;> simp
      have hq := sameShape_qubits hsh
      have hregs := hreg s List.mem_cons_self
      have hregs' : ∀ q ∈ s'.qubits, 0 ≤ q ∧ q < (n : Int) := by rw [hq]; exact hregs
      have hout : nOutcomes [s'] = nOutcomes [s] := by
        simp only [nOutcomes, List.countP_cons, List.countP_nil, sameShape_hasOutcome hsh]
      refine ⟨τ * σ, ?_, fun o => ?_⟩
      · rcases hτ with rfl | rfl <;> rcases hσ with rfl | rfl <;> simp
      · obtain ⟨ihD, ihR', ihR⟩ := ih (o.drop (nOutcomes [s]))
        have hA := gain_libStmt h0 h1 hs n hregs (o.headD false)
        have hA' := gain_libStmt h0 h1 hs' n hregs' (o.headD false)
        have hE := diff_gain hq n hregs σ (opBound s s') (o.headD false) (hent n (o.headD false))
        rw [circOp_cons' n s' l' o, circOp_cons' n s l o, hout]
        set R' := circOp n l' (o.drop (nOutcomes [s]))
        set R := circOp n l (o.drop (nOutcomes [s]))
        set A' := stmtOp n s' (o.headD false)
        set A := stmtOp n s (o.headD false)
        refine ⟨?_, by simpa using ihR'.mul hA', by simpa using ihR.mul hA⟩
        have key : R' * A' - (τ * σ) • (R * A) = R' * (A' - σ • A) + σ • ((R' - τ • R) * A) := by
          simp only [Matrix.mul_sub, Matrix.sub_mul, Matrix.mul_smul, Matrix.smul_mul, smul_sub, smul_smul]
          rw [mul_comm σ τ]
          abel
        rw [key]
        have g1 := ihR'.mul hE
        have g2 := (ihD.mul hA).smul hσ1
        have hpos : 0 ≤ 2 ^ s.support.length * opBound s s' :=
          mul_nonneg (by positivity) (opBound_nonneg s s')
        have := g1.add g2 (by simpa using hpos) (by simpa using errSum_nonneg l l')
        simpa [errSum] using this

/-- **entrywise form**: `‖circOp n l' o r k − τ · circOp n l o r k‖ ≤ errSum l l'`, one sign `τ = ±1` for all
    outcome assignments and all entries -/
theorem circOp_entry_bound {l l' : List (Stmt ℝ)} (hF : List.Forall₂ (Reread atol) l l')
    (hreg : ∀ s ∈ l, ∀ q ∈ s.qubits, 0 ≤ q ∧ q < (n : Int)) :
    ∃ τ : ℂ, (τ = 1 ∨ τ = -1) ∧ ∀ o r k, ‖circOp n l' o r k - τ * circOp n l o r k‖ ≤ errSum l l' := by
  obtain ⟨τ, hτ, h⟩ := circOp_gain atol h0 h1 n hF hreg
  refine ⟨τ, hτ, fun o r k => ?_⟩
  have := (h o).1.entry_le (errSum_nonneg l l') r k
  simpa [Matrix.sub_apply, Matrix.smul_apply] using this

end accumulate

/-- `Σ_s 2^(qubits of s) · |θ_s|` over the statements with a single float parameter -/
noncomputable def angleMass : List (Stmt ℝ) → ℝ
  | [] => 0
  | s :: l => 2 ^ s.support.length * paramMag (stmtParams s) + angleMass l

/-- the accumulated bound in terms of the angles of the original circuit: `≤ 5.1·10⁻⁸ · Σ 2^k |θ|` -/
theorem errSum_le {atol : ℝ} {l l' : List (Stmt ℝ)} (hF : List.Forall₂ (Reread atol) l l') :
    errSum l l' ≤ 51 / 10 ^ 9 * angleMass l := by
  induction hF with
  | nil => simp [errSum, angleMass]
  | @cons s s' l l' hR hF ih =>
    simp only [errSum, angleMass]
    have hb : opBound s s' ≤ 51 / 10 ^ 9 * paramMag (stmtParams s) := by
      cases hR with
      | comment t => simp [opBound, stmtParams, angleDiff, paramMag]
      | instr hs hs' hsh hop => exact (opBound_le hsh).2
    have hp : (0 : ℝ) ≤ 2 ^ s.support.length := by positivity
    nlinarith [mul_le_mul_of_nonneg_left hb hp]

/-- **C04, whole circuit (`writeCircuit_circuit_sem`).**  For a circuit of default-library statements and writable
    comments, a formatter producing tokens that denote the float parameters to 8 digits, and any register size `n`
    containing all the qubits used: the text is re-read and re-built (`rebuildProgram`) into a circuit `c'` with the
    same register sizes whose state map agrees with that of `c` for EVERY assignment `o` of measurement / reset
    outcomes, entrywise, up to ONE global sign `τ = ±1`, within
    `errSum = Σ_i 2^(qubits of statement i)·opBound_i ≤ 5.1·10⁻⁸ · Σ_i 2^(qubits)·|θ_i|`
    — a bound independent of the register size `n` and of the number of parameter-free statements. -/
theorem writeCircuit_circuit_sem (fmt : ℝ → String) (anon : Gate ℝ → String)
    (hfmt : ∀ x, isParamTok (fmt x) = true) (atol : ℝ) (h0 : 0 < atol) (h1 : atol ≤ Real.pi / 2)
    (c : Circuit ℝ) (hc : ∀ s ∈ c.stmts, Readable atol s)
    (hden : ∀ s ∈ c.stmts, ∀ x ∈ stmtFloats s, FmtDenotes fmt x) (n : Nat)
    (hreg : ∀ s ∈ c.stmts, ∀ q ∈ s.qubits, 0 ≤ q ∧ q < (n : Int)) :
    ∃ c', rebuildProgram atol (writeCircuit fmt anon c) = some c' ∧
      c'.nQubits = c.nQubits ∧ c'.nBits = c.nBits ∧
      errSum c.stmts c'.stmts ≤ 51 / 10 ^ 9 * angleMass c.stmts ∧
      ∃ τ : ℂ, (τ = 1 ∨ τ = -1) ∧
        ∀ o r k, ‖circOp n c'.stmts o r k - τ * circOp n c.stmts o r k‖ ≤ errSum c.stmts c'.stmts := by
  obtain ⟨c', -, hre, hq, hb, hF⟩ := writeCircuit_read_sem fmt anon hfmt atol h0 h1 c hc hden
  exact ⟨c', hre, hq, hb, errSum_le hF, circOp_entry_bound atol h0 h1 n hF hreg⟩

/-! ### Non-vacuity -/

/-- the example circuit of `V3Sem` (`Rz(1/3) q[0]; /* c */; CNOT q[0], q[1]; measure; reset`) on a 2-qubit
    register: the re-built circuit's state map is within `5.1·10⁻⁸ · (2 · 1/3)` of the original, for all outcomes -/
example : ∃ c', rebuildProgram Gen.atol (writeCircuit fmtThird (fun _ => "") exCircuit) = some c' ∧
    ∃ τ : ℂ, (τ = 1 ∨ τ = -1) ∧
      ∀ o r k, ‖circOp 2 c'.stmts o r k - τ * circOp 2 exCircuit.stmts o r k‖ ≤ 51 / 10 ^ 9 * (2 * (1 / 3)) := by
  have hreg : ∀ s ∈ exCircuit.stmts, ∀ q ∈ s.qubits, 0 ≤ q ∧ q < ((2 : Nat) : Int) := by
    intro s hs
    simp only [exCircuit, List.mem_cons, List.not_mem_nil, or_false] at hs
    rcases hs with rfl | rfl | rfl | rfl | rfl <;> intro q hq <;>
      simp [sRz, Stmt.qubits, Gate.operands] at hq <;> omega
  obtain ⟨c', h1, -, -, h4, τ, hτ, h5⟩ := writeCircuit_circuit_sem fmtThird (fun _ => "") fmtThird_tok Gen.atol
    atol_gen_pos atol_gen_le exCircuit (by
      intro s hs
      simp only [exCircuit, List.mem_cons, List.not_mem_nil, or_false] at hs
      rcases hs with rfl | rfl | rfl | rfl | rfl
      · exact .inl sRz_lib
      · exact .inr ⟨_, rfl, by decide, by rw [infix_pair_iff]; decide⟩
      · exact .inl (.gate (call_CNOT _ atol_gen_pos atol_gen_le 0 1 (by decide)))
      · exact .inl (.measure (call_measure 1 0))
      · exact .inl (.reset (call_reset 1))) (by
      intro s hs
      simp only [exCircuit, List.mem_cons, List.not_mem_nil, or_false] at hs
      rcases hs with rfl | rfl | rfl | rfl | rfl
      · exact sRz_floats
      all_goals (intro x hx; simp [stmtFloats, stmtParams, params, isQubitArg] at hx)) 2 hreg
  refine ⟨c', h1, τ, hτ, fun o r k => (h5 o r k).trans (h4.trans (le_of_eq ?_))⟩
  have e : angleMass exCircuit.stmts = 2 * (1 / 3) := by
    simp [angleMass, exCircuit, sRz, Stmt.support, Stmt.qubits, Gate.operands, dedup, stmtParams, params,
      isQubitArg, paramMag]
  rw [e]

end V3Sem
end OSq

#print axioms OSq.V3Sem.lift_gain
#print axioms OSq.V3Sem.gain_libStmt
#print axioms OSq.V3Sem.diff_gain
#print axioms OSq.V3Sem.circOp_gain
#print axioms OSq.V3Sem.circOp_entry_bound
#print axioms OSq.V3Sem.errSum_le
#print axioms OSq.V3Sem.writeCircuit_circuit_sem
