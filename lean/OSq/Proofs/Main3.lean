import OSq.Proofs.Main
import Mathlib.Data.Fintype.Sum
import Mathlib.Data.Matrix.Block
/-
  OSq.Proofs.Main3 — **C01 for the CNOT decomposer**: the bridge from the 4×4 block operators of `DecomposeSem`
  (`M4`, `bd`, `op4`, `listOp4`, `cnot_sem`) to the model's two-qubit local matrices (`localMatrix [c, t]`).

  On the local register `[c, t]` the control is qubit 0 (least significant bit of the ket index) and the target qubit 1;
  ket `x` corresponds to the block index `blk x` = (control bit, target bit) (`ctEquiv : Fin (2^2) ≃ Fin 2 ⊕ Fin 2`).
  * `toOp2 M`                 a block operator read on the kets; `toOp2_mul/_one/_smul`
  * `gateOp2_target`          a rotation on the target (local qubit 1) is `bd R R`
  * `gateOp2_control`         a rotation on the control (local qubit 0) is `R ⊗ 1`
  * `gateOp2_ctrl`            the controlled rotation `0 → 1` is `bd 1 R`
  * `IsCT c t g`, `gateOp2_pos`, `circOp_two_pos`   a list of such gates re-indexed to `[c, t]` has operator
                              `toOp2 (listOp4 c t out)`
  * `two_qubit_exactRepl`     (bridge 4×4 → `ExactRepl`) `listOp4 c t out = s • bd 1 (rot n α φ)`, `‖s‖ = 1` ⇒
                              `ExactRepl (.ctrl c (.bsr t n α φ)) (out.map (·.1))`
  * `two_qubit_accepted`      … and it is accepted for `0 < atol ≤ 1` (entry `(0,0)` of a controlled gate is `1`)
  * `bsr_selfcheck`           a unit-axis rotation passes its self-check (`atol ≤ 1/2`)
  * `CrispCNOTGate`, `cnot_xu_ok`, `cnotDecompose_total`, `cnot_accepted`, `CrispCNOT`, `cnot_gate_ok`
  * `C01_cnot_main`           **C01 for the CNOT decomposer** (same conclusion as `C01_aba_main`)
  * examples                  controlled `e^{i/3}Rx(π/2)` (two-CNOT path) in a circuit with a rotation, a measurement, a reset
-/

set_option linter.unusedSimpArgs false
set_option linter.unnecessarySeqFocus false
open Matrix

namespace OSq
open Sem Complex

/-! ## 1. (control, target) blocks ≃ kets of the local register `[c, t]` -/

/-- the target bit (bit 1) of a ket of the two-qubit local register -/
def tb (x : Fin (2 ^ 2)) : Fin 2 := ⟨bitOf x.val 1, bitOf_lt_two _ _⟩

/-- ket ↦ (control block, target index): the control is qubit 0 of the local register `[c, t]`, the target qubit 1 -/
def blk (x : Fin (2 ^ 2)) : Fin 2 ⊕ Fin 2 := if x.val.testBit 0 then .inr (tb x) else .inl (tb x)

/-- the inverse: control off ↦ `2·j`, control on ↦ `2·j + 1` -/
def unblk : Fin 2 ⊕ Fin 2 → Fin (2 ^ 2)
  | .inl j => ⟨2 * j.val, by have := j.isLt; omega⟩
  | .inr j => ⟨2 * j.val + 1, by have := j.isLt; omega⟩

def ctEquiv : Fin (2 ^ 2) ≃ Fin 2 ⊕ Fin 2 where
  toFun := blk
  invFun := unblk
  left_inv := by decide
  right_inv := by decide

/-- a 4×4 block operator read on the kets of the local register -/
def toOp2 (M : M4) : Op 2 := M.submatrix ctEquiv ctEquiv

theorem toOp2_apply (M : M4) (r c : Fin (2 ^ 2)) : toOp2 M r c = M (blk r) (blk c) := rfl

theorem toOp2_mul (M N : M4) : toOp2 (M * N) = toOp2 M * toOp2 N :=
  (Matrix.submatrix_mul_equiv M N ctEquiv ctEquiv ctEquiv).symm

theorem toOp2_one : toOp2 1 = 1 := Matrix.submatrix_one_equiv ctEquiv

theorem toOp2_smul (z : ℂ) (M : M4) : toOp2 (z • M) = z • toOp2 M := rfl

/-! index facts on the 4 kets (decidable) -/

theorem agree_t : ∀ r c : Fin (2 ^ 2), agreeOff 2 [1] r.val c.val ↔ r.val.testBit 0 = c.val.testBit 0 := by decide
theorem agree_c : ∀ r c : Fin (2 ^ 2), agreeOff 2 [0] r.val c.val ↔ tb r = tb c := by decide
theorem eq_iff_bits : ∀ r c : Fin (2 ^ 2), r.val = c.val ↔ (r.val.testBit 0 = c.val.testBit 0 ∧ tb r = tb c) := by
  decide
theorem bit0_of_true : ∀ r : Fin (2 ^ 2), r.val.testBit 0 = true → bitOf r.val 0 = 1 := by decide
theorem bit0_of_false : ∀ r : Fin (2 ^ 2), r.val.testBit 0 = false → bitOf r.val 0 = 0 := by decide

theorem can1_get_nat (a : Vec3 ℝ) (θ φ : ℝ) (i j : Nat) (hi : i < 2) (hj : j < 2) :
    ((can1 a θ φ).get i j).toC = rot a θ φ ⟨i, hi⟩ ⟨j, hj⟩ := can1_get a θ φ ⟨i, hi⟩ ⟨j, hj⟩

/-! ## 2. The three gate kinds on the local register -/

/-- a rotation on the target (local qubit 1) is `|0⟩⟨0|⊗R + |1⟩⟨1|⊗R` -/
theorem gateOp2_target (a : Vec3 ℝ) (θ φ : ℝ) :
    gateOp 2 (.bsr 1 a θ φ) = toOp2 (bd (rot a θ φ) (rot a θ φ)) := by
  ext r c
  rw [toOp2_apply, gateOp_apply]
  simp only [denote, embed1]
  have e1 : ((1 : Int)).toNat = 1 := rfl
  rw [e1]
  by_cases hag : agreeOff 2 [1] r.val c.val
  · rw [if_pos hag, can1_get_nat a θ φ _ _ (bitOf_lt_two _ _) (bitOf_lt_two _ _)]
    have hb := (agree_t r c).mp hag
    cases hr : r.val.testBit 0 <;> rw [hr] at hb <;> simp [blk, hr, ← hb, bd, tb]
  · rw [if_neg hag]
    have hb : ¬ r.val.testBit 0 = c.val.testBit 0 := fun h => hag ((agree_t r c).mpr h)
    cases hr : r.val.testBit 0 <;> cases hc : c.val.testBit 0 <;> simp [hr, hc] at hb <;>
      simp [blk, hr, hc, bd, Cx.toC_zero]

/-- a rotation on the control (local qubit 0) is `R ⊗ 1` -/
theorem gateOp2_control (a : Vec3 ℝ) (θ φ : ℝ) :
    gateOp 2 (.bsr 0 a θ φ) = toOp2 (Matrix.fromBlocks ((rot a θ φ 0 0) • 1) ((rot a θ φ 0 1) • 1)
      ((rot a θ φ 1 0) • 1) ((rot a θ φ 1 1) • 1)) := by
  ext r c
  rw [toOp2_apply, gateOp_apply]
  simp only [denote, embed1, Int.toNat_zero]
  by_cases hag : agreeOff 2 [0] r.val c.val
  · rw [if_pos hag, can1_get_nat a θ φ _ _ (bitOf_lt_two _ _) (bitOf_lt_two _ _)]
    have hb := (agree_c r c).mp hag
    cases hr : r.val.testBit 0 <;> cases hc : c.val.testBit 0 <;>
      simp [blk, hr, hc, hb, bit0_of_true, bit0_of_false]
  · rw [if_neg hag]
    have hb : ¬ tb r = tb c := fun h => hag ((agree_c r c).mpr h)
    cases hr : r.val.testBit 0 <;> cases hc : c.val.testBit 0 <;>
      simp [blk, hr, hc, hb, Cx.toC_zero]

/-- the controlled rotation (control = local qubit 0, target = local qubit 1) is `|0⟩⟨0|⊗1 + |1⟩⟨1|⊗R` -/
theorem gateOp2_ctrl (a : Vec3 ℝ) (θ φ : ℝ) :
    gateOp 2 (.ctrl 0 (.bsr 1 a θ φ)) = toOp2 (bd 1 (rot a θ φ)) := by
  ext r c
  rw [toOp2_apply, gateOp_apply]
  simp only [denote, ctrlOf, embed1, Int.toNat_zero]
  have e1 : ((1 : Int)).toNat = 1 := rfl
  rw [e1]
  by_cases hc' : c.val.testBit 0 = true
  · have hc := hc'
    rw [if_pos hc']
    by_cases hag : agreeOff 2 [1] r.val c.val
    · rw [if_pos hag, can1_get_nat a θ φ _ _ (bitOf_lt_two _ _) (bitOf_lt_two _ _)]
      have hb := (agree_t r c).mp hag
      rw [hc] at hb
      simp [blk, hc, hb, bd, tb]
    · rw [if_neg hag]
      have hb : ¬ r.val.testBit 0 = c.val.testBit 0 := fun h => hag ((agree_t r c).mpr h)
      rw [hc] at hb
      have hr : r.val.testBit 0 = false := by simpa using hb
      simp [blk, hc, hr, bd, Cx.toC_zero]
  · -- control off: identity column
    have hc : c.val.testBit 0 = false := by simpa using hc'
    rw [if_neg hc']
    simp only [delta]
    by_cases hrc : r.val = c.val
    · have hb := (eq_iff_bits r c).mp hrc
      rw [hc] at hb
      rw [if_pos hrc]
      simp [blk, hc, hb.1, hb.2, bd, Cx.toC_one]
    · rw [if_neg hrc]
      cases hr : r.val.testBit 0
      · have hb : ¬ tb r = tb c := fun h => hrc ((eq_iff_bits r c).mpr ⟨by rw [hr, hc], h⟩)
        simp [blk, hc, hr, hb, bd, Cx.toC_zero]
      · simp [blk, hc, hr, bd, Cx.toC_zero]

/-! ## 3. Bridge 4×4 → `ExactRepl` -/

/-- the gates a CNOT decomposition emits: rotations on the target or on the control, controlled rotations `c → t` -/
def IsCT (c t : Int) (g : GStmt ℝ) : Prop :=
  (∃ a θ ψ, g.1 = .bsr t a θ ψ) ∨ (∃ a θ ψ, g.1 = .bsr c a θ ψ) ∨ (∃ a θ ψ, g.1 = .ctrl c (.bsr t a θ ψ))

theorem idxOf_ct_c (c t : Int) : [c, t].idxOf c = 0 := by simp
theorem idxOf_ct_t (c t : Int) (hct : c ≠ t) : [c, t].idxOf t = 1 := by
  simp [List.idxOf_cons, hct]

/-- one gate: its operator on the local register `[c, t]` is `op4 c t` read on the kets -/
theorem gateOp2_pos (c t : Int) (hct : c ≠ t) (g : GStmt ℝ) (hg : IsCT c t g) :
    gateOp 2 (g.1.pos [c, t]) = toOp2 (op4 c t g) := by
  obtain ⟨g1, nm⟩ := g
  rcases hg with ⟨a, θ, ψ, h⟩ | ⟨a, θ, ψ, h⟩ | ⟨a, θ, ψ, h⟩ <;> simp only at h <;> subst h
  · rw [op4_target]
    simp only [Gate.pos, idxOf_ct_t c t hct]
    exact gateOp2_target a θ ψ
  · have : op4 c t (.bsr c a θ ψ, nm) = Matrix.fromBlocks ((rot a θ ψ 0 0) • 1) ((rot a θ ψ 0 1) • 1)
        ((rot a θ ψ 1 0) • 1) ((rot a θ ψ 1 1) • 1) := by
      simp [op4, hct]
    rw [this]
    simp only [Gate.pos, idxOf_ct_c c t]
    exact gateOp2_control a θ ψ
  · rw [op4_ctrl]
    simp only [Gate.pos, idxOf_ct_t c t hct, idxOf_ct_c c t]
    exact gateOp2_ctrl a θ ψ

/-- a list of such gates: the register operator on `[c, t]` is `listOp4 c t` read on the kets -/
theorem circOp_two_pos (c t : Int) (hct : c ≠ t) (out : List (GStmt ℝ)) (h : ∀ g ∈ out, IsCT c t g) :
    circOp 2 (gateStmts ((out.map (·.1)).map fun g => g.pos [c, t])) [] = toOp2 (listOp4 c t out) := by
  induction out with
  | nil => simp [gateStmts, toOp2_one]
  | cons g rest ih =>
    have ih' := ih (fun g hg => h g (List.mem_cons_of_mem _ hg))
    simp only [List.map_cons, gateStmts, circOp_gate, listOp4_cons, toOp2_mul]
    rw [← gateOp2_pos c t hct g (h g List.mem_cons_self)]
    congr 1

theorem isCT_operands {c t : Int} {g : GStmt ℝ} (h : IsCT c t g) : ∀ q ∈ g.1.operands, q ∈ [c, t] := by
  rcases h with ⟨a, θ, ψ, h⟩ | ⟨a, θ, ψ, h⟩ | ⟨a, θ, ψ, h⟩ <;> rw [h] <;> intro q hq <;>
    simp [Gate.operands] at hq ⊢ <;> tauto

theorem isCT_dimOk {c t : Int} {g : GStmt ℝ} (h : IsCT c t g) : g.1.dimOk := by
  rcases h with ⟨a, θ, ψ, h⟩ | ⟨a, θ, ψ, h⟩ | ⟨a, θ, ψ, h⟩ <;> rw [h] <;> trivial

/-- **Bridge 4×4 → `ExactRepl`.**  A list of rotations on `t`, rotations on `c` and controlled rotations `c → t`
    (`c ≠ t`) whose block operator is `s • (|0⟩⟨0|⊗1 + |1⟩⟨1|⊗R_n(α, φ))`, `‖s‖ = 1`, is an exact replacement of the
    controlled rotation in the sense of `check_gate_replacement`. -/
theorem two_qubit_exactRepl (c t : Int) (hct : c ≠ t) (n : Vec3 ℝ) (α φ : ℝ) (out : List (GStmt ℝ))
    (hq : ∀ g ∈ out, IsCT c t g) (s : ℂ) (hs : ‖s‖ = 1)
    (hop : listOp4 c t out = s • bd 1 (rot n α φ)) :
    ExactRepl (.ctrl c (.bsr t n α φ)) (out.map (·.1)) := by
  have hs0 : s ≠ 0 := by
    intro h0; rw [h0, norm_zero] at hs; exact zero_ne_one hs
  have hself : IsCT c t (Gate.ctrl c (.bsr t n α φ), none) := Or.inr (Or.inr ⟨_, _, _, rfl⟩)
  obtain ⟨A, hA⟩ := localMatrix_ok_of [c, t] [Gate.ctrl c (.bsr t n α φ)] (by
    intro g hg
    simp only [List.mem_singleton] at hg
    subst hg
    exact ⟨isCT_operands hself, trivial⟩)
  obtain ⟨B, hB⟩ := localMatrix_ok_of [c, t] (out.map (·.1)) (by
    intro g hg
    obtain ⟨g', hg', rfl⟩ := List.mem_map.mp hg
    exact ⟨isCT_operands (hq g' hg'), isCT_dimOk (hq g' hg')⟩)
  refine ⟨A, B, hA, hB, ?_⟩
  show PhaseEq (2 ^ 2) A B
  rw [phaseEq_iff_toMatrixOn]
  refine ⟨s⁻¹, by rw [norm_inv, hs, inv_one], ?_⟩
  have hAm := (localMatrix_toMatrixOn hA).2
  have hBm := (localMatrix_toMatrixOn hB).2
  have hA2 : A.toMatrixOn (2 ^ 2) = toOp2 (bd 1 (rot n α φ)) := by
    have := circOp_two_pos c t hct [(Gate.ctrl c (.bsr t n α φ), none)] (by
      intro g hg
      simp only [List.mem_singleton] at hg
      subst hg
      exact hself)
    simp only [listOp4_cons, listOp4_nil, Matrix.one_mul, op4_ctrl] at this
    rw [← this]
    exact hAm
  have hB2 : B.toMatrixOn (2 ^ 2) = s • toOp2 (bd 1 (rot n α φ)) := by
    rw [← toOp2_smul, ← hop, ← circOp_two_pos c t hct out hq]
    exact hBm
  show A.toMatrixOn (2 ^ 2) = s⁻¹ • B.toMatrixOn (2 ^ 2)
  rw [hA2, hB2, smul_smul, inv_mul_cancel₀ hs0, one_smul]

/-- … and it is accepted by `check_gate_replacement` for every `0 < atol ≤ 1` -/
theorem two_qubit_accepted (atol : ℝ) (h0 : 0 < atol) (h1 : atol ≤ 1) (c t : Int) (hct : c ≠ t) (n : Vec3 ℝ)
    (α φ : ℝ) (out : List (GStmt ℝ)) (hq : ∀ g ∈ out, IsCT c t g) (s : ℂ) (hs : ‖s‖ = 1)
    (hop : listOp4 c t out = s • bd 1 (rot n α φ)) :
    checkGateReplacement atol (.ctrl c (.bsr t n α φ)) (out.map (·.1)) = none := by
  apply exactRepl_accepted atol h0 (two_qubit_exactRepl c t hct n α φ out hq s hs hop)
  intro A hA
  have hspec := localMatrix_single_spec _ _ A hA
  refine ⟨0, 0, Nat.two_pow_pos _, Nat.two_pow_pos _, ?_⟩
  rw [hspec.2.2 0 0 (Nat.two_pow_pos _) (Nat.two_pow_pos _)]
  simp only [Gate.pos, denote, ctrlOf, Nat.zero_testBit, Bool.false_eq_true, if_false, delta, if_true,
    Cx.toC_one, norm_one]
  exact h1

/-! ## 4. C01 for the CNOT decomposer -/

/-- a unit-axis rotation passes its self-check -/
theorem bsr_selfcheck (atol : ℝ) (h0 : 0 < atol) (h1 : atol ≤ 1 / 2) (q : Int) (n : Vec3 ℝ) (α φ : ℝ)
    (hn : n.1 ^ 2 + n.2.1 ^ 2 + n.2.2 ^ 2 = 1) :
    checkGateReplacement atol (.bsr q n α φ) [.bsr q n α φ] = none :=
  single_qubit_accepted atol h0 h1 q n α φ hn [(.bsr q n α φ, none)]
    (by intro g hg; simp only [List.mem_singleton] at hg; subst hg; exact ⟨_, _, _, rfl⟩) 1 norm_one (by simp)

/-- **crisp hypotheses of the CNOT decomposer on `ControlledGate(c, R_n(α, φ) on t)`**: unit axis and angle window
    (guaranteed by the constructor); exact 7-decimal rounding of the axis of the composition `X·U` (always computed;
    without it `composeRot` may raise); and, for the path the guard selects: one-CNOT path — `ShortcutCrisp` of
    `DecomposeSem` plus the remaining hypotheses of `compose_crisp` (honest identity test, exact rounding of the
    phase); two-CNOT path — `GeneralCrisp`. -/
structure CrispCNOTGate (atol : ℝ) (t : Int) (n : Vec3 ℝ) (α φ : ℝ) : Prop where
  unit : n.1 ^ 2 + n.2.1 ^ 2 + n.2.2 ^ 2 = 1
  lo : -Real.pi + atol ≤ α
  hi : α < Real.pi + atol
  round : ¬ |Real.sin (cTheta (xRot t) ⟨t, n, α, φ, none⟩ / 2)| < atol →
      roundTo s7 (cAxis (xRot t) ⟨t, n, α, φ, none⟩).1 = (cAxis (xRot t) ⟨t, n, α, φ, none⟩).1 ∧
      roundTo s7 (cAxis (xRot t) ⟨t, n, α, φ, none⟩).2.1 = (cAxis (xRot t) ⟨t, n, α, φ, none⟩).2.1 ∧
      roundTo s7 (cAxis (xRot t) ⟨t, n, α, φ, none⟩).2.2 = (cAxis (xRot t) ⟨t, n, α, φ, none⟩).2.2
  path : ∀ xu θ0 θ1 θ2, composeRot atol (xRot t) ⟨t, n, α, φ, none⟩ = .ok xu →
      abaAngles atol .ZYZ xu.angle xu.axis = .ok (θ0, θ1, θ2) →
      (ShortcutCrisp atol t n α φ xu θ0 θ1 θ2 ∧
        (|Real.sin (cTheta (xRot t) ⟨t, n, α, φ, none⟩ / 2)| < atol →
          Real.sin (cTheta (xRot t) ⟨t, n, α, φ, none⟩ / 2) = 0) ∧
        (¬ |Real.sin (cTheta (xRot t) ⟨t, n, α, φ, none⟩ / 2)| < atol →
          roundTo s7 ((xRot t).phase + φ) = (xRot t).phase + φ)) ∨
      (¬ |pymod (θ0 - θ2) (2 * Real.pi)| < atol ∧ GeneralCrisp atol n α φ)

/-- the composition `X·U` of the CNOT decomposer succeeds; its result has a unit axis and an angle in the window -/
theorem cnot_xu_ok (atol : ℝ) (h0 : 0 < atol) (hpi : atol < Real.pi) (t : Int) (n : Vec3 ℝ) (α φ : ℝ)
    (hc : CrispCNOTGate atol t n α φ) :
    ∃ xu, composeRot atol (xRot t) ⟨t, n, α, φ, none⟩ = .ok xu ∧
      (xu.axis.1 ^ 2 + xu.axis.2.1 ^ 2 + xu.axis.2.2 ^ 2 = 1) ∧
      (-Real.pi + atol ≤ xu.angle ∧ xu.angle < Real.pi + atol) := by
  have hpos := Real.pi_pos
  have hXu : UnitVec (xRot t).axis := by simp [UnitVec, xRot, eAxis]
  have hUu : UnitVec (⟨t, n, α, φ, none⟩ : Rot ℝ).axis := (unitVec_iff n).2 hc.unit
  have hcr := composeRot_real atol (xRot t) ⟨t, n, α, φ, none⟩ hXu hUu rfl
  by_cases hs : |Real.sin (cTheta (xRot t) ⟨t, n, α, φ, none⟩ / 2)| < atol
  · rw [if_pos hs] at hcr
    refine ⟨_, hcr, ?_, ?_⟩
    · simp only [identityRot, one_real, zero_real]; norm_num
    · simp only [identityRot, zero_real]; constructor <;> linarith
  · rw [if_neg hs] at hcr
    have hne : Real.sin (cTheta (xRot t) ⟨t, n, α, φ, none⟩ / 2) ≠ 0 := by
      intro h; apply hs; rw [h, abs_zero]; exact h0
    obtain ⟨r1, r2, r3⟩ := hc.round hs
    have hu := cAxis_unit (xRot t) ⟨t, n, α, φ, none⟩ hXu hUu hne
    rw [r1, r2, r3, show ((cAxis (xRot t) ⟨t, n, α, φ, none⟩).1, (cAxis (xRot t) ⟨t, n, α, φ, none⟩).2.1,
      (cAxis (xRot t) ⟨t, n, α, φ, none⟩).2.2) = cAxis (xRot t) ⟨t, n, α, φ, none⟩ from rfl,
      mkAxis_unit _ hu] at hcr
    exact ⟨_, hcr, (unitVec_iff _).1 hu, normalizeAngle_range atol _ h0.le hpi⟩

/-- totality of the CNOT decomposer under the crisp hypotheses -/
theorem cnotDecompose_total (atol : ℝ) (h0 : 0 < atol) (hpi : atol < Real.pi) (c t : Int) (hct : c ≠ t)
    (n : Vec3 ℝ) (α φ : ℝ) (nm : Option (Named ℝ)) (hc : CrispCNOTGate atol t n α φ) :
    ∃ out, cnotDecompose atol (.ctrl c (.bsr t n α φ), nm) = .ok out := by
  obtain ⟨xu, hxu, hax, han⟩ := cnot_xu_ok atol h0 hpi t n α φ hc
  obtain ⟨θs, hθ⟩ := ABA.aba_total atol .ZYZ xu.angle xu.axis hax han.1 han.2.le
  obtain ⟨ts, hts⟩ := ABA.aba_total atol .ZYZ α n hc.unit hc.lo hc.hi.le
  exact cnotDecompose_ok atol h0 hpi c t hct n α φ nm xu θs ts hxu hθ hts

/-- under the crisp hypotheses and `0 < atol ≤ 1/2` the CNOT decomposer answers, the answer is accepted and exact -/
theorem cnot_accepted (atol : ℝ) (h0 : 0 < atol) (h1 : atol ≤ 1 / 2) (c t : Int) (hct : c ≠ t) (n : Vec3 ℝ)
    (α φ : ℝ) (nm : Option (Named ℝ)) (hc : CrispCNOTGate atol t n α φ) :
    ∃ out, cnotDecompose atol (.ctrl c (.bsr t n α φ), nm) = .ok out ∧
      checkGateReplacement atol (.ctrl c (.bsr t n α φ)) (out.map (·.1)) = none ∧
      ExactRepl (.ctrl c (.bsr t n α φ)) (out.map (·.1)) := by
  have hpi := atol_lt_pi h1
  have hpi2 : atol ≤ Real.pi / 2 := by have := Real.two_le_pi; linarith
  obtain ⟨out, hout⟩ := cnotDecompose_total atol h0 hpi c t hct n α φ nm hc
  obtain ⟨-, s, hs, hop⟩ := cnot_sem atol c t n α φ nm out h0 hpi2 hc.unit
    (fun xu θ0 θ1 θ2 h1 h2 => by
      rcases hc.path xu θ0 θ1 θ2 h1 h2 with ⟨h, hcomp, hph⟩ | h
      · exact Or.inl ⟨h, hcomp, fun hs => ⟨(hc.round hs).1, (hc.round hs).2.1, (hc.round hs).2.2, hph hs⟩⟩
      · exact Or.inr h) hout
  have hq : ∀ g ∈ out, IsCT c t g := by
    intro g hg
    rcases cnot_elems hout g hg with ⟨_, _, _, rfl⟩ | ⟨_, _, _, _, rfl⟩ | ⟨_, _, _, _, rfl⟩ | ⟨_, _, _, _, rfl⟩
    · exact Or.inr (Or.inr ⟨_, _, _, rfl⟩)
    · exact Or.inl ⟨_, _, _, rfl⟩
    · exact Or.inl ⟨_, _, _, rfl⟩
    · exact Or.inr (Or.inl ⟨_, _, _, rfl⟩)
  exact ⟨out, hout, two_qubit_accepted atol h0 (by linarith) c t hct n α φ out hq s hs hop,
    two_qubit_exactRepl c t hct n α φ out hq s hs hop⟩

/-- crisp hypotheses for a whole circuit and the CNOT decomposer: `CrispCNOTGate` for every controlled rotation;
    unit axis for the plain rotations and the self-check for matrix gates (both are returned unchanged and go through
    `check_gate_replacement` against themselves); nothing for other controlled gates. -/
def CrispCNOT (atol : ℝ) (c : Circuit ℝ) : Prop :=
  ∀ g nm, Stmt.gate g nm ∈ c.stmts →
    match g with
    | .ctrl _ (.bsr t n α φ) => CrispCNOTGate atol t n α φ
    | .ctrl _ _ => True
    | .bsr _ n _ _ => n.1 ^ 2 + n.2.1 ^ 2 + n.2.2 ^ 2 = 1
    | .matrix m ops => checkGateReplacement atol (.matrix m ops) [.matrix m ops] = none

theorem cnot_gate_ok (atol : ℝ) (h0 : 0 < atol) (h1 : atol ≤ 1 / 2) (c : Circuit ℝ)
    (hwf : c.wf = true) (hc : CrispCNOT atol c) (g : Gate ℝ) (nm : Option (Named ℝ))
    (hmem : Stmt.gate g nm ∈ c.stmts) :
    ∃ repl, Decomposer.cnot.run atol (g, nm) = .ok repl ∧
      checkGateReplacement atol g (repl.map (·.1)) = none ∧ ExactRepl g (repl.map (·.1)) := by
  have hs := (Circuit.wf_iff c).mp hwf _ hmem
  have hd := dimOk_of_wf hs
  have hnd := (gateWF_of_wf hs).1
  have hcg := hc g nm hmem
  cases g with
  | bsr q n α φ => exact ⟨[(.bsr q n α φ, nm)], rfl, bsr_selfcheck atol h0 h1 q n α φ hcg, exactRepl_self _ hd⟩
  | matrix m ops => exact ⟨[(.matrix m ops, nm)], rfl, hcg, exactRepl_self _ hd⟩
  | ctrl cq g' =>
    cases g' with
    | bsr t n α φ =>
      have hct : cq ≠ t := by
        simp only [Gate.operands, List.nodup_cons, List.mem_singleton] at hnd
        exact hnd.1
      exact cnot_accepted atol h0 h1 cq t hct n α φ nm hcg
    | matrix m ops =>
      exact ⟨[(.ctrl cq (.matrix m ops), nm)], rfl, ctrl_selfcheck atol h0 (by linarith) cq _ hd, exactRepl_self _ hd⟩
    | ctrl c2 g2 =>
      exact ⟨[(.ctrl cq (.ctrl c2 g2), nm)], rfl, ctrl_selfcheck atol h0 (by linarith) cq _ hd, exactRepl_self _ hd⟩

/-- **C01 for the CNOT decomposer**: same conclusion as `C01_aba_main`. -/
theorem C01_cnot_main (atol : ℝ) (h0 : 0 < atol) (h1 : atol ≤ 1 / 2) (c : Circuit ℝ)
    (hwf : c.wf = true) (hc : CrispCNOT atol c) :
    ∃ out, decomposeBuiltin atol .cnot c.stmts = (out, none) ∧ CircEquiv c.nQubits c.stmts out ∧
      SameBarriers c.stmts out ∧ Circuit.wf ⟨c.nQubits, c.nBits, out⟩ = true :=
  C01_of_gate_ok atol .cnot c hwf (cnot_gate_ok atol h0 h1 c hwf hc)

/-! ### Non-vacuity: the controlled `e^{i/3}·Rx(π/2)` (control 0, target 1; two-CNOT path), a rotation, a measurement
    and a reset, at `atol = 1/1000` -/
section Example

theorem exC_crisp : CrispCNOTGate (1 / 1000) 1 (1, 0, 0) (Real.pi / 2) (1 / 3) := by
  have hpi := Real.two_le_pi
  obtain ⟨xu, hxu, hax, han⟩ := dsEx2_compose
  have hxu' : composeRot (1 / 1000 : ℝ) (xRot 1) ⟨1, (1, 0, 0), Real.pi / 2, 1 / 3, none⟩ = .ok xu := hxu
  have hang : abaAngles (1 / 1000 : ℝ) .ZYZ xu.angle xu.axis
      = .ok (Real.pi / 2, -(Real.pi / 2), -(Real.pi / 2)) := by rw [hax, han]; exact dsEx2_abaAngles
  refine ⟨by norm_num, by linarith, by linarith, ?_, ?_⟩
  · intro _
    have hax' : cAxis (xRot 1) ⟨1, (1, 0, 0), Real.pi / 2, 1 / 3, none⟩ = (1, 0, 0) := dsEx2_cAxis
    rw [hax']
    have r1 : roundTo s7 (1 : ℝ) = 1 := roundTo_exact 1 10000000 (by rw [s7_eq]; norm_num)
    have r0 : roundTo s7 (0 : ℝ) = 0 := roundTo_exact 0 0 (by simp)
    exact ⟨r1, r0, r0⟩
  · intro xu' θ0 θ1 θ2 h1 h2
    rw [hxu'] at h1
    injection h1 with h1
    subst h1
    rw [hang] at h2
    injection h2 with h2
    simp only [Prod.mk.injEq] at h2
    obtain ⟨rfl, rfl, rfl⟩ := h2
    right
    have hnp : ¬ |Real.pi / 2 - Real.pi| < (1 / 1000 : ℝ) := by
      rw [abs_of_neg (by linarith)]; linarith
    refine ⟨?_, ⟨⟨by linarith, by linarith⟩, fun h => absurd h hnp, fun h => absurd h hnp, ?_, ?_⟩⟩
    · have hfl : ⌊(Real.pi / 2 - -(Real.pi / 2)) / (2 * Real.pi)⌋ = 0 := by
        rw [show (Real.pi / 2 - -(Real.pi / 2)) / (2 * Real.pi) = 1 / 2 by field_simp; ring]
        norm_num
      simp only [pymod, trig_floor_real, hfl]
      rw [abs_of_pos (by norm_num; linarith)]
      norm_num; linarith
    · intro _ h
      exfalso
      have : Real.sin (Real.pi / 2 / 2) = Real.sqrt 2 / 2 := by
        rw [show Real.pi / 2 / 2 = Real.pi / 4 by ring, Real.sin_pi_div_four]
      rw [this] at h
      have hs : Real.sqrt 2 * Real.sqrt 2 = 2 := Real.mul_self_sqrt (by norm_num)
      norm_num at h
      nlinarith [hs]
    · intro t0 t1 t2 he x hx habs
      rw [ex_abaAngles] at he
      injection he with he
      simp only [Prod.mk.injEq] at he
      obtain ⟨rfl, rfl, rfl⟩ := he
      simp only [List.mem_cons, List.not_mem_nil, or_false] at hx
      have hid : ∀ y : ℝ, -Real.pi + 1 / 1000 ≤ y → y < Real.pi + 1 / 1000 →
          normalizeAngle (1 / 1000 : ℝ) y = y := fun y h1 h2 =>
        normalizeAngle_id_of_window _ _ (by norm_num) (by linarith) h1 h2
      rcases hx with rfl | rfl | rfl | rfl | rfl | rfl
      · exfalso; rw [hid _ (by linarith) (by linarith), abs_of_pos (by linarith)] at habs; linarith
      · rw [show -(Real.pi / 2 + -(Real.pi / 2)) / 2 = (0 : ℝ) by ring]
        exact hid 0 (by linarith) (by linarith)
      · exfalso; rw [hid _ (by linarith) (by linarith), abs_of_neg (by linarith)] at habs; linarith
      · exfalso; rw [hid _ (by linarith) (by linarith), abs_of_pos (by linarith)] at habs; linarith
      · exfalso; rw [hid _ (by linarith) (by linarith), abs_of_neg (by linarith)] at habs; linarith
      · exfalso; rw [hid _ (by linarith) (by linarith), abs_of_pos (by norm_num)] at habs; norm_num at habs

noncomputable def exCCirc : Circuit ℝ :=
  ⟨2, 1, [.gate (.bsr 0 (0, 0, 1) 1 0) none,
          .gate (.ctrl 0 (.bsr 1 (1, 0, 0) (Real.pi / 2) (1 / 3))) none,
          .measure 1 0 (0, 0, 1) none,
          .reset 0 none]⟩

/-- items 1–2 (4×4 version) on the example gate -/
example : ∃ out, cnotDecompose (1 / 1000 : ℝ) (.ctrl 0 (.bsr 1 (1, 0, 0) (Real.pi / 2) (1 / 3)), none) = .ok out ∧
    checkGateReplacement (1 / 1000 : ℝ) (.ctrl 0 (.bsr 1 (1, 0, 0) (Real.pi / 2) (1 / 3))) (out.map (·.1)) = none ∧
    ExactRepl (.ctrl 0 (.bsr 1 (1, 0, 0) (Real.pi / 2) (1 / 3))) (out.map (·.1)) :=
  cnot_accepted (1 / 1000) (by norm_num) (by norm_num) 0 1 (by decide) (1, 0, 0) (Real.pi / 2) (1 / 3) none exC_crisp

/-- `C01_cnot_main` on the example circuit, all hypotheses discharged -/
example : ∃ out, decomposeBuiltin (1 / 1000 : ℝ) .cnot exCCirc.stmts = (out, none) ∧
    CircEquiv 2 exCCirc.stmts out ∧ SameBarriers exCCirc.stmts out ∧ Circuit.wf ⟨2, 1, out⟩ = true := by
  refine C01_cnot_main (1 / 1000) (by norm_num) (by norm_num) exCCirc ?_ ?_
  · simp [exCCirc, Circuit.wf, Stmt.wf, Gate.operands, inRange, hasDup, Gate.shapeOk]
  · intro g nm hm
    simp only [exCCirc, List.mem_cons, Stmt.gate.injEq, reduceCtorEq, List.not_mem_nil, or_false] at hm
    rcases hm with ⟨rfl, _⟩ | ⟨rfl, _⟩
    · show (0 : ℝ) ^ 2 + 0 ^ 2 + 1 ^ 2 = 1
      norm_num
    · exact exC_crisp

end Example

end OSq

#print axioms OSq.two_qubit_exactRepl
#print axioms OSq.two_qubit_accepted
#print axioms OSq.C01_cnot_main
