import OSq.Proofs.PipelineBand
/-
  OSq.Proofs.PipelineBand2 — **C05 for ALL inputs, part 2: sequences of passes** (`α := ℝ`, no crisp hypothesis), by
  induction on the list of passes on top of `pass_band` / `pass_fail_band` of `OSq.Proofs.PipelineBand`.

  * `runBudget atol ps c`     the sum of the budgets of the passes that completed, each on the intermediate circuit it
                              was applied to;  `trajectory`, `runBudget_eq_sum` (`= Σ_i budget p_i c_i`), `runBudget_nonneg`
  * `band_compose`            errors add, phases multiply, relabellings compose (conjugation by a unitary is isometric)
  * `appliedMaps_valid`       the relabellings performed along a run are valid mappings of the whole register
  * `runPasses_band`          **main theorem**: `∀ p ∈ ps, p.UFine`, `c.UWF`, `0 < atol ≤ π`,
                              `runPasses atol ps c = (c', none)` ⇒ `c'.UWF`, same registers, and
                              `∃ z, ‖z‖ = 1 ∧ ∀ o, ‖circOp n c'.stmts o − z • (P * circOp n c.stmts o * P⁻¹)‖ ≤ runBudget atol ps c`,
                              `P = permsOp n (appliedMaps atol ps c)`
  * `runPasses_fail_band`     the run raises in pass `i` at list position `k` of the intermediate circuit `ci`:
                              `c'.UWF` (well formed), same registers, `… ≤ runBudget atol ps c + budgetUpTo atol ps[i] ci k`
  * `runPasses_uwf`           the invariant holds wherever the run stops
  * `runPasses_band_nomap`    no `map` pass: `P = 1`
  Non-vacuity (section Examples): a run whose completion is proved (`[map [1,0], decompose Z-Y-Z]` on `exMCirc`, via
  `C05_main`), and a run that raises (`[merge, map [0]]` on `exStd`).  Closed form of `runBudget` and the 3-pass
  example: `OSq.Proofs.PipelineBand3`.
-/

set_option linter.unusedSectionVars false
set_option linter.unusedVariables false
set_option linter.unusedSimpArgs false
open Matrix
open scoped Matrix.Norms.L2Operator

namespace OSq
open Bands

/-! ## 1. Budget of a run -/

/-- **the budget of a run**: the sum of the budgets of the passes that completed, each on the intermediate circuit it
    was applied to (a pass that raises, and everything after it, contributes nothing here: see `runPasses_fail_band`
    for its partial budget) -/
noncomputable def runBudget (atol : ℝ) : List (Pass ℝ) → Circuit ℝ → ℝ
  | [], _ => 0
  | p :: ps, c =>
    match p.run atol c with
    | (c', none) => budget atol p c + runBudget atol ps c'
    | (_, some _) => 0

/-- the intermediate circuits of a run: the circuit each *completed* pass was applied to, in order -/
noncomputable def trajectory (atol : ℝ) : List (Pass ℝ) → Circuit ℝ → List (Circuit ℝ)
  | [], _ => []
  | p :: ps, c =>
    match p.run atol c with
    | (c', none) => c :: trajectory atol ps c'
    | (_, some _) => []

theorem runBudget_cons_none (atol : ℝ) (p : Pass ℝ) (ps : List (Pass ℝ)) (c c' : Circuit ℝ)
    (h : p.run atol c = (c', none)) : runBudget atol (p :: ps) c = budget atol p c + runBudget atol ps c' := by
  simp only [runBudget, h]

theorem runBudget_cons_some (atol : ℝ) (p : Pass ℝ) (ps : List (Pass ℝ)) (c c' : Circuit ℝ) (e : Err)
    (h : p.run atol c = (c', some e)) : runBudget atol (p :: ps) c = 0 := by
  simp only [runBudget, h]

/-- `runBudget` is the sum `Σ_i budget p_i c_i` over the intermediate circuits -/
theorem runBudget_eq_sum (atol : ℝ) (ps : List (Pass ℝ)) (c : Circuit ℝ) :
    runBudget atol ps c = (List.zipWith (budget atol) ps (trajectory atol ps c)).sum := by
  induction ps generalizing c with
  | nil => rfl
  | cons p ps ih =>
    cases hrun : p.run atol c with
    | mk c' oe =>
      cases oe with
      | none => simp only [runBudget, trajectory, hrun, List.zipWith_cons_cons, List.sum_cons, ih]
      | some e => simp only [runBudget, trajectory, hrun, List.zipWith_nil_right, List.sum_nil]

theorem runBudget_nonneg (atol : ℝ) (hat : 0 ≤ atol) (ps : List (Pass ℝ)) (c : Circuit ℝ) :
    0 ≤ runBudget atol ps c := by
  induction ps generalizing c with
  | nil => exact le_refl _
  | cons p ps ih =>
    cases hrun : p.run atol c with
    | mk c' oe =>
      cases oe with
      | none =>
        rw [runBudget_cons_none atol p ps c c' hrun]
        exact add_nonneg (budget_nonneg atol hat p c) (ih c')
      | some e => rw [runBudget_cons_some atol p ps c c' e hrun]

/-! ## 2. Composition of two bands -/

/-- **errors add, phases multiply, relabellings compose**: if `C₁` is within `b` of `z₁ • (P₁ C₀ P₁⁻¹)` and `C₂` within `B`
    of `z₂ • (P' C₁ P'⁻¹)` with `P'` unitary, then `C₂` is within `b + B` of `(z₂ z₁) • ((P' P₁) C₀ (P' P₁)⁻¹)` -/
theorem band_compose {n : Nat} (C2 C1 C0 P' P1 : Op n) (z2 z1 : ℂ) (B b : ℝ) (hz2 : ‖z2‖ = 1)
    (hP' : P' ∈ Matrix.unitaryGroup (Fin (2 ^ n)) ℂ)
    (h2 : ‖C2 - z2 • (P' * C1 * P'⁻¹)‖ ≤ B) (h1 : ‖C1 - z1 • (P1 * C0 * P1⁻¹)‖ ≤ b) :
    ‖C2 - (z2 * z1) • ((P' * P1) * C0 * (P' * P1)⁻¹)‖ ≤ b + B := by
  have e : C2 - (z2 * z1) • ((P' * P1) * C0 * (P' * P1)⁻¹)
      = (C2 - z2 • (P' * C1 * P'⁻¹)) + z2 • (P' * (C1 - z1 • (P1 * C0 * P1⁻¹)) * P'⁻¹) := by
    rw [Matrix.mul_inv_rev, Matrix.mul_sub, Matrix.sub_mul, smul_sub, Matrix.mul_smul, Matrix.smul_mul, smul_smul]
    simp only [Matrix.mul_assoc]
    abel
  rw [e]
  refine le_trans (norm_add_le _ _) ?_
  rw [norm_smul, hz2, one_mul, norm_conj_unitary _ _ hP']
  linarith

/-! ## 3. The sequence -/

/-- the relabellings performed along a run are valid mappings of the whole register -/
theorem appliedMaps_valid (atol : ℝ) (hat : 0 < atol) (hpi : atol ≤ Real.pi) (ps : List (Pass ℝ)) (c : Circuit ℝ)
    (hps : ∀ p ∈ ps, p.UFine) (h : c.UWF) :
    ∀ m ∈ appliedMaps atol ps c, mappingValid m = true ∧ m.length = c.nQubits := by
  induction ps generalizing c with
  | nil => intro m hm; cases hm
  | cons p ps ih =>
    cases hrun : p.run atol c with
    | mk c' oe =>
      cases oe with
      | none =>
        rw [appliedMaps_cons_none atol p ps c c' hrun]
        intro m hm
        rcases List.mem_append.mp hm with hm | hm
        · cases p with
          | map m' =>
            simp only [Pass.mapOf, List.mem_singleton] at hm
            subst hm
            obtain ⟨hv, hl, -⟩ := run_map_none atol m c c' hrun
            exact ⟨hv, hl⟩
          | decompose d => cases hm
          | replace name f => cases hm
          | merge => cases hm
        · have hp := hps p List.mem_cons_self
          have hu := pass_uwf atol hat hpi p c hp h
          have hq := (pass_wf atol p c hp.fine h.1).2.1
          rw [hrun] at hu hq
          rw [← hq]
          exact ih c' (fun q hq' => hps q (List.mem_cons_of_mem _ hq')) hu m hm
      | some e =>
        rw [appliedMaps_cons_some atol p ps c c' e hrun]
        intro m hm; cases hm

/-- **runPasses_band — C05 for ALL inputs** (no crisp hypothesis).  `ps` any finite list of passes (`decompose` with any
    built-in decomposer, `replace` with a callback returning constructible unitary gates, `merge`, `map`), `c` a circuit
    with the invariant `Circuit.UWF` (well formed, gates `Gate.Unitary`), `0 < atol ≤ π`.  If the run completes,
    `runPasses atol ps c = (c', none)`, then `c'` has the invariant on the same registers and for ONE unit scalar `z` and
    EVERY outcome assignment `o`

      `‖circOp n c'.stmts o − z • (P * circOp n c.stmts o * P⁻¹)‖ ≤ runBudget atol ps c = Σ_i budget p_i c_i`

    (ℓ² operator norm on `ℂ^(2^n)`, `n = c.nQubits`), `P = permsOp n (appliedMaps atol ps c)` the permutation matrix of
    the composed relabelling, `c_i` the intermediate circuits (`runBudget_eq_sum`).  Errors add because conjugation by
    `P` is isometric (`norm_conj_perms`); phases multiply. -/
theorem runPasses_band (atol : ℝ) (hat : 0 < atol) (hpi : atol ≤ Real.pi) (ps : List (Pass ℝ)) (c c' : Circuit ℝ)
    (hps : ∀ p ∈ ps, p.UFine) (h : c.UWF) (hrun : runPasses atol ps c = (c', none)) :
    c'.UWF ∧ c'.nQubits = c.nQubits ∧ c'.nBits = c.nBits ∧
    ∃ z : ℂ, ‖z‖ = 1 ∧ ∀ o,
      ‖circOp c.nQubits c'.stmts o
          - z • (permsOp c.nQubits (appliedMaps atol ps c) * circOp c.nQubits c.stmts o
                  * (permsOp c.nQubits (appliedMaps atol ps c))⁻¹)‖
        ≤ runBudget atol ps c := by
  induction ps generalizing c with
  | nil =>
    have : c' = c := (congrArg Prod.fst hrun).symm
    subst this
    refine ⟨h, rfl, rfl, 1, norm_one, fun o => ?_⟩
    simp [appliedMaps, runBudget]
  | cons p ps ih =>
    obtain ⟨c1, h1, h2⟩ := runPasses_cons_ok hrun
    have hp := hps p List.mem_cons_self
    have hps' : ∀ q ∈ ps, q.UFine := fun q hq => hps q (List.mem_cons_of_mem _ hq)
    obtain ⟨hu1, hq1, hb1, z1, hz1, H1⟩ := pass_band atol hat hpi p c c1 hp h h1
    obtain ⟨hu', hq', hb', z2, hz2, H2⟩ := ih c1 hps' hu1 h2
    rw [hq1] at H2 hq'
    refine ⟨hu', hq', hb'.trans hb1, z2 * z1, by rw [norm_mul, hz2, hz1, one_mul], fun o => ?_⟩
    rw [appliedMaps_cons_none atol p ps c c1 h1, permsOp_append, runBudget_cons_none atol p ps c c1 h1]
    have hP' : permsOp c.nQubits (appliedMaps atol ps c1) ∈ Matrix.unitaryGroup (Fin (2 ^ c.nQubits)) ℂ :=
      permsOp_unitary _ _ (fun m hm => by
        have := appliedMaps_valid atol hat hpi ps c1 hps' hu1 m hm
        rw [hq1] at this; exact this)
    exact band_compose _ _ _ _ _ z2 z1 _ _ hz2 hP' (H2 o) (H1 o)

/-- **runPasses_fail_band — the run that raises, all inputs.**  Same hypotheses; if the run stops with the error `e`,
    `runPasses atol ps c = (c', some e)`, then the circuit `c'` left behind has the invariant (in particular it is well
    formed) on the same registers, and: the error was raised by the pass `p = ps[i]` applied to the intermediate circuit
    `ci` (the first `i` passes completed), at list position `k` of `ci` (`Pass.StopsAt`: a refused gate for
    `decompose`/`replace`, a refused mapping for `map`; never a `merge`), and for ONE unit `z` and EVERY outcome
    assignment `o`

      `‖circOp n c'.stmts o − z • (P * circOp n c.stmts o * P⁻¹)‖ ≤ runBudget atol ps c + budgetUpTo atol p ci k`

    — the budgets of the completed passes (`runBudget` counts exactly those) plus the partial budget of the pass that
    raised (the gates it had replaced before position `k`); `P` the relabellings of the completed `map` passes. -/
theorem runPasses_fail_band (atol : ℝ) (hat : 0 < atol) (hpi : atol ≤ Real.pi) (ps : List (Pass ℝ))
    (c c' : Circuit ℝ) (e : Err) (hps : ∀ p ∈ ps, p.UFine) (h : c.UWF)
    (hrun : runPasses atol ps c = (c', some e)) :
    c'.UWF ∧ c'.nQubits = c.nQubits ∧ c'.nBits = c.nBits ∧
    ∃ (i : Nat) (p : Pass ℝ) (ci : Circuit ℝ) (k : Nat),
      ps[i]? = some p ∧ runPasses atol (ps.take i) c = (ci, none) ∧ p.run atol ci = (c', some e) ∧
      k ≤ ci.stmts.length ∧ p.StopsAt atol ci k e ∧ budgetUpTo atol p ci k ≤ budget atol p ci ∧
      ∃ z : ℂ, ‖z‖ = 1 ∧ ∀ o,
        ‖circOp c.nQubits c'.stmts o
            - z • (permsOp c.nQubits (appliedMaps atol ps c) * circOp c.nQubits c.stmts o
                    * (permsOp c.nQubits (appliedMaps atol ps c))⁻¹)‖
          ≤ runBudget atol ps c + budgetUpTo atol p ci k := by
  induction ps generalizing c with
  | nil => cases hrun
  | cons p ps ih =>
    have hp := hps p List.mem_cons_self
    have hps' : ∀ q ∈ ps, q.UFine := fun q hq => hps q (List.mem_cons_of_mem _ hq)
    cases h1 : p.run atol c with
    | mk c1 oe =>
      cases oe with
      | none =>
        rw [runPasses_cons_none atol p ps c c1 h1] at hrun
        obtain ⟨hu1, hq1, hb1, z1, hz1, H1⟩ := pass_band atol hat hpi p c c1 hp h h1
        obtain ⟨hu', hq', hb', i, p', ci, k, hi, htake, hfail, hk, hstop, hle, z2, hz2, H2⟩ := ih c1 hps' hu1 hrun
        rw [hq1] at H2 hq'
        refine ⟨hu', hq', hb'.trans hb1, i + 1, p', ci, k, by simpa using hi, ?_, hfail, hk, hstop, hle,
          z2 * z1, by rw [norm_mul, hz2, hz1, one_mul], fun o => ?_⟩
        · rw [List.take_succ_cons, runPasses_cons_none atol p _ c c1 h1]; exact htake
        · rw [appliedMaps_cons_none atol p ps c c1 h1, permsOp_append, runBudget_cons_none atol p ps c c1 h1]
          have hP' : permsOp c.nQubits (appliedMaps atol ps c1) ∈ Matrix.unitaryGroup (Fin (2 ^ c.nQubits)) ℂ :=
            permsOp_unitary _ _ (fun m hm => by
              have := appliedMaps_valid atol hat hpi ps c1 hps' hu1 m hm
              rw [hq1] at this; exact this)
          have := band_compose _ _ _ _ _ z2 z1 _ _ hz2 hP' (H2 o) (H1 o)
          linarith
      | some e1 =>
        rw [runPasses_cons_some atol p ps c c1 e1 h1] at hrun
        have e1' : c1 = c' := congrArg Prod.fst hrun
        have e2' : e1 = e := by
          have := congrArg Prod.snd hrun
          simpa using this
        subst e1'; subst e2'
        obtain ⟨hu1, hq1, hb1, k, hk, hstop, hle, z, hz, H⟩ := pass_fail_band atol hat hpi p c c1 e1 hp h h1
        refine ⟨hu1, hq1, hb1, 0, p, c, k, rfl, rfl, h1, hk, hstop, hle, z, hz, fun o => ?_⟩
        rw [appliedMaps_cons_some atol p ps c c1 e1 h1, runBudget_cons_some atol p ps c c1 e1 h1]
        simpa using H o

/-- the invariant (hence well-formedness) and the registers are kept wherever the run stops -/
theorem runPasses_uwf (atol : ℝ) (hat : 0 < atol) (hpi : atol ≤ Real.pi) (ps : List (Pass ℝ))
    (c : Circuit ℝ) (hps : ∀ p ∈ ps, p.UFine) (h : c.UWF) :
    (runPasses atol ps c).1.UWF ∧ (runPasses atol ps c).1.nQubits = c.nQubits ∧
    (runPasses atol ps c).1.nBits = c.nBits := by
  cases hrun : runPasses atol ps c with
  | mk c' oe =>
    cases oe with
    | none =>
      obtain ⟨a, b, d, -⟩ := runPasses_band atol hat hpi ps c c' hps h hrun
      exact ⟨a, b, d⟩
    | some e =>
      obtain ⟨a, b, d, -⟩ := runPasses_fail_band atol hat hpi ps c c' e hps h hrun
      exact ⟨a, b, d⟩

/-- without `map` passes the permutation is trivial -/
theorem runPasses_band_nomap (atol : ℝ) (hat : 0 < atol) (hpi : atol ≤ Real.pi) (ps : List (Pass ℝ))
    (c c' : Circuit ℝ) (hps : ∀ p ∈ ps, p.UFine) (hnomap : ∀ p ∈ ps, ∀ m, p ≠ .map m) (h : c.UWF)
    (hrun : runPasses atol ps c = (c', none)) :
    ∃ z : ℂ, ‖z‖ = 1 ∧ ∀ o,
      ‖circOp c.nQubits c'.stmts o - z • circOp c.nQubits c.stmts o‖ ≤ runBudget atol ps c := by
  obtain ⟨-, -, -, z, hz, H⟩ := runPasses_band atol hat hpi ps c c' hps h hrun
  refine ⟨z, hz, fun o => ?_⟩
  have := H o
  rw [appliedMaps_no_map atol ps c hnomap] at this
  simpa using this

/-! ## 4. Non-vacuity -/
section Examples

/-- **a run whose completion is proved** (crisp instance: `C05_main` via `exM_run` of `OSq.Proofs.Main2`):
    `[map [1, 0], decompose Z-Y-Z]` on `exMCirc` at `atol = 1/1000` completes, and all hypotheses of `runPasses_band`
    hold: the result has the invariant and is within `runBudget` (`= 0 + Σ_gates κ(#operands, atol)`, on the relabelled
    circuit) of the swapped original up to one phase. -/
example : ∃ c', runPasses (1 / 1000 : ℝ) [.map [1, 0], .decompose (.aba .ZYZ)] exMCirc = (c', none) ∧ c'.UWF ∧
    ∃ z : ℂ, ‖z‖ = 1 ∧ ∀ o,
      ‖circOp 2 c'.stmts o
          - z • (permsOp 2 (appliedMaps (1 / 1000 : ℝ) [.map [1, 0], .decompose (.aba .ZYZ)] exMCirc)
              * circOp 2 exMCirc.stmts o
              * (permsOp 2 (appliedMaps (1 / 1000 : ℝ) [.map [1, 0], .decompose (.aba .ZYZ)] exMCirc))⁻¹)‖
        ≤ runBudget (1 / 1000) [.map [1, 0], .decompose (.aba .ZYZ)] exMCirc := by
  have hpi := Real.two_le_pi
  have hat : (0 : ℝ) < 1 / 1000 := by norm_num
  have hle : (1 / 1000 : ℝ) ≤ Real.pi := by
    have : (1 / 1000 : ℝ) ≤ 2 := by norm_num
    linarith
  obtain ⟨hnone, -⟩ := C05_main (1 / 1000) hat (by norm_num) _ exMCirc exMCirc_wf exM_run
  cases hrun : runPasses (1 / 1000 : ℝ) [.map [1, 0], .decompose (.aba .ZYZ)] exMCirc with
  | mk c' oe =>
    rw [hrun] at hnone
    simp only at hnone
    subst hnone
    have hps : ∀ p ∈ ([.map [1, 0], .decompose (.aba .ZYZ)] : List (Pass ℝ)), p.UFine := by
      intro p hp
      simp only [List.mem_cons, List.not_mem_nil, or_false] at hp
      rcases hp with rfl | rfl <;> trivial
    obtain ⟨hu, -, -, z, hz, H⟩ := runPasses_band _ hat hle _ exMCirc c' hps exMCirc_uwf hrun
    exact ⟨c', rfl, hu, z, hz, H⟩

/-- **a run that raises** (`runPasses_fail_band`): `[merge, map [0]]` on the 2-qubit circuit `exStd`, `atol = 1/10`.  The
    merge completes (unit axes), the mapping `[0]` has the wrong size and is refused: the run stops in pass 1 with
    `ValueError`, the circuit left behind is well formed and within the budget of the completed merge, `2 · perRot(1/10)`,
    of the original, up to one global phase (no relabelling). -/
example : ∃ c', runPasses (1 / 10 : ℝ) [.merge, .map [0]] exStd = (c', some .value) ∧ c'.wf = true ∧
    ∃ z : ℂ, ‖z‖ = 1 ∧ ∀ o, ‖circOp 2 c'.stmts o - z • circOp 2 exStd.stmts o‖ ≤ 2 * perRot (1 / 10) := by
  have hpi := Real.two_le_pi
  have hat : (0 : ℝ) < 1 / 10 := by norm_num
  have hle : (1 / 10 : ℝ) ≤ Real.pi := by linarith
  have hne : (Pass.run (1 / 10 : ℝ) .merge exStd).2 = none :=
    merge_no_error_of_unit_axes (1 / 10) hat hle exStd (operandsInRange_of_wf exStd_uwf.1)
      (outUnit_of_unitary exStd_uwf.2)
  cases h1 : Pass.run (1 / 10 : ℝ) .merge exStd with
  | mk c1 oe =>
    rw [h1] at hne
    simp only at hne
    subst hne
    have hq1 : c1.nQubits = 2 := by
      have := (merge_registers (1 / 10 : ℝ) exStd).1
      have e : (merge (1 / 10 : ℝ) exStd).1 = c1 := congrArg Prod.fst h1
      rw [e] at this; exact this
    have h2 : Pass.run (1 / 10 : ℝ) (.map [0]) c1 = (c1, some .value) := by
      rw [Pass.run_map]
      have : (mkMapping [0] >>= mkMapper c1.nQubits) = .error .value := by
        rw [hq1]; rfl
      rw [this]
    have hrun : runPasses (1 / 10 : ℝ) [.merge, .map [0]] exStd = (c1, some .value) := by
      rw [runPasses_cons_none _ _ _ _ _ h1, runPasses_cons_some _ _ _ _ _ _ h2]
    have hps : ∀ p ∈ ([.merge, .map [0]] : List (Pass ℝ)), p.UFine := by
      intro p hp
      simp only [List.mem_cons, List.not_mem_nil, or_false] at hp
      rcases hp with rfl | rfl <;> trivial
    obtain ⟨hu, -, -, i, p, ci, k, hi, htake, hfail, -, -, -, z, hz, H⟩ :=
      runPasses_fail_band _ hat hle _ exStd c1 .value hps exStd_uwf hrun
    refine ⟨c1, hrun, hu.1, z, hz, fun o => ?_⟩
    have hpart : budgetUpTo (1 / 10 : ℝ) p ci k = 0 := by
      match i, hi, htake with
      | 0, hi, htake =>
        simp only [List.getElem?_cons_zero, Option.some.injEq] at hi
        subst hi
        have : ci = exStd := (congrArg Prod.fst htake).symm
        subst this
        rw [h1] at hfail
        cases hfail
      | 1, hi, _ =>
        simp only [List.getElem?_cons_succ, List.getElem?_cons_zero, Option.some.injEq] at hi
        subst hi
        rfl
      | (j + 2), hi, _ => simp at hi
    have hmaps : appliedMaps (1 / 10 : ℝ) [.merge, .map [0]] exStd = [] := by
      rw [appliedMaps_cons_none _ _ _ _ _ h1, appliedMaps_cons_some _ _ _ _ _ _ h2]; rfl
    have hb : runBudget (1 / 10 : ℝ) [.merge, .map [0]] exStd = 2 * perRot (1 / 10) := by
      rw [runBudget_cons_none _ _ _ _ _ h1, runBudget_cons_some _ _ _ _ _ _ h2, budget_merge]
      have : exStd.stmts.countP Stmt.isBSR = 2 := rfl
      rw [this]; norm_num
    have := H o
    rw [hmaps, hb, hpart, add_zero] at this
    simp only [permsOp_nil, inv_one, Matrix.one_mul, Matrix.mul_one] at this
    exact this

end Examples

end OSq

#print axioms OSq.runBudget_eq_sum
#print axioms OSq.band_compose
#print axioms OSq.runPasses_band
#print axioms OSq.runPasses_fail_band
#print axioms OSq.runPasses_uwf
#print axioms OSq.runPasses_band_nomap
