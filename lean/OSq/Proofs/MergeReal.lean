import OSq.Proofs.Compose
import OSq.Proofs.MergeStruct
import Mathlib.Analysis.SpecialFunctions.Trigonometric.Bounds
/-
  OSq.Proofs.MergeReal — the hypotheses of the structural merge theorems (`MergeStruct`) discharged at `α := ℝ`.

  Theorems
  * `normalizeAngle_of_mem`        `normalizeAngle` is the identity on `[-π + atol, π]` (`0 < atol`).
  * `defaultI_real`, `defaultIsIdentity_real`   `I(q)` is `(1,0,0), 0, 0`; `DefaultIsIdentity atol` for `0 < atol ≤ π`.
  * `tryName_cases` (any `α`)      `tryName r` is `r` or a parameter-free default gate whose angle and phase are
                                   within `atol` of `r`'s.
  * `named_angle`                  the angle of each parameter-free default rotation at ℝ.
  * `composeRot_angle_large`       a `composeRot` result that does not test as identity has `|angle| ≥ 2·atol`.
  * `composeRot_isIdentity_angle_zero`  a `composeRot` result that tests as identity has angle exactly `0`.
  * `renameKeepsNonIdentity_real`  `RenameKeepsNonIdentity atol` for `0 < atol ≤ π/4`.
  * `merge_per_qubit_order_real`, `merge_normal_form_real`   the per-qubit specification and the normal form (C14)
                                   at ℝ with no hypothesis left but `0 < atol ≤ π/4` and "the pass does not raise".
-/
namespace OSq
open Real

/-! ### `normalizeAngle` on its range, `I(q)` at ℝ -/

theorem normalizeAngle_of_mem (atol θ : ℝ) (hatol : 0 < atol) (h1 : -Real.pi + atol ≤ θ) (h2 : θ ≤ Real.pi) :
    normalizeAngle atol θ = θ := by
  have hpi := Real.pi_pos
  unfold normalizeAngle
  simp only [two_real, pi_real, one_real, trig_floor_real]
  by_cases h0 : 0 ≤ θ
  · have hf : ⌊θ / (2 * Real.pi)⌋ = 0 := by
      rw [Int.floor_eq_iff]
      constructor
      · simp; positivity
      · simp; rw [div_lt_one (by positivity)]; linarith
    rw [hf]
    have : θ - 2 * Real.pi * (((0 : ℤ) : ℝ) + 1) < -Real.pi + atol := by push_cast; linarith
    rw [if_pos this]; push_cast; ring
  · rw [not_le] at h0
    have hf : ⌊θ / (2 * Real.pi)⌋ = -1 := by
      rw [Int.floor_eq_iff]
      constructor
      · push_cast; rw [le_div_iff₀ (by positivity)]; linarith
      · push_cast; rw [div_lt_iff₀ (by positivity)]; linarith
    rw [hf]
    have e : θ - 2 * Real.pi * (((-1 : ℤ) : ℝ) + 1) = θ := by push_cast; ring
    rw [e, if_neg (by linarith), if_neg (by linarith)]

theorem normalizeAngle_zero (atol : ℝ) (hatol : 0 < atol) (hpi : atol ≤ Real.pi) :
    normalizeAngle atol (0 : ℝ) = 0 :=
  normalizeAngle_of_mem atol 0 hatol (by linarith) (by positivity)

theorem unitVec_x : UnitVec ((1 : ℝ), (0 : ℝ), (0 : ℝ)) := by simp [UnitVec]

/-- `I(q)` at ℝ -/
theorem defaultI_real (atol : ℝ) (hatol : 0 < atol) (hpi : atol ≤ Real.pi) (q : Nat) :
    defaultI atol q = ⟨(q : Int), (1, 0, 0), 0, 0, some ⟨"I", [.qubit q]⟩⟩ := by
  have hz := normalizeAngle_zero atol hatol hpi
  have hax : mkAxis ((1 : ℝ), (0 : ℝ), (0 : ℝ)) = .ok (1, 0, 0) := mkAxis_unit _ unitVec_x
  simp [defaultI, named, callGate, Gen.gateTable, bindArgs, GExpr.eval, envQubit, Env.find?, mkBSR,
    bind, Except.bind, pure, Except.pure, hz, hax]

/-- `DefaultIsIdentity` holds at ℝ for `0 < atol ≤ π`. -/
theorem defaultIsIdentity_real (atol : ℝ) (hatol : 0 < atol) (hpi : atol ≤ Real.pi) :
    DefaultIsIdentity atol := by
  intro q
  rw [defaultI_real atol hatol hpi q]
  simp [Rot.isIdentity, hatol]

/-! ### `tryName`: what it can return (any scalar type) -/
section generic
variable {α : Type} [Scalar α]

theorem tryName_go_cases (atol : α) (r : Rot α) (cl : α → α → Bool) (ns : List String) :
    tryName.go atol r cl ns = r ∨
    ∃ n ∈ ns, ∃ (q' : Int) (ax : Vec3 α) (an ph : α) (nm : Option (Named α)),
      named atol n [.qubit r.q] = .ok (.bsr q' ax an ph, nm) ∧
      cl an r.angle = true ∧ cl ph r.phase = true ∧
      tryName.go atol r cl ns = ⟨r.q, ax, an, ph, nm⟩ := by
  induction ns with
  | nil => left; simp [tryName.go]
  | cons n ns ih =>
    have lift : (tryName.go atol r cl ns = r ∨
        ∃ n' ∈ ns, ∃ (q' : Int) (ax : Vec3 α) (an ph : α) (nm : Option (Named α)),
          named atol n' [.qubit r.q] = .ok (.bsr q' ax an ph, nm) ∧
          cl an r.angle = true ∧ cl ph r.phase = true ∧
          tryName.go atol r cl ns = ⟨r.q, ax, an, ph, nm⟩) →
        (tryName.go atol r cl ns = r ∨
        ∃ n' ∈ n :: ns, ∃ (q' : Int) (ax : Vec3 α) (an ph : α) (nm : Option (Named α)),
          named atol n' [.qubit r.q] = .ok (.bsr q' ax an ph, nm) ∧
          cl an r.angle = true ∧ cl ph r.phase = true ∧
          tryName.go atol r cl ns = ⟨r.q, ax, an, ph, nm⟩) := by
      rintro (h | ⟨n', hn', rest⟩)
      · exact Or.inl h
      · exact Or.inr ⟨n', List.mem_cons_of_mem _ hn', rest⟩
    simp only [tryName.go]
    split
    · rename_i q' ax an ph nm hnamed
      split
      · rename_i hcl
        simp only [Bool.and_eq_true] at hcl
        exact Or.inr ⟨n, List.mem_cons_self, q', ax, an, ph, nm, hnamed, hcl.1.2, hcl.2, rfl⟩
      · exact lift ih
    · exact lift ih

/-- `tryName` returns its argument or a default gate whose angle and phase are within `atol` (`rtol = 0`). -/
theorem tryName_cases (atol : α) (r : Rot α) :
    tryName atol r = r ∨
    ∃ n ∈ Gen.bsrNoParams, ∃ (q' : Int) (ax : Vec3 α) (an ph : α) (nm : Option (Named α)),
      named atol n [.qubit r.q] = .ok (.bsr q' ax an ph, nm) ∧
      closeTo zero atol an r.angle = true ∧ closeTo zero atol ph r.phase = true ∧
      tryName atol r = ⟨r.q, ax, an, ph, nm⟩ :=
  tryName_go_cases atol r _ _

end generic

/-! ### The default gates at ℝ: only `I` has a small angle -/

/-- rotation angle (before normalisation) of the parameter-free default rotations -/
noncomputable def defaultAngle (n : String) : ℝ :=
  if n = "I" then 0
  else if n = "H" ∨ n = "X" ∨ n = "Y" ∨ n = "Z" then Real.pi
  else if n = "X90" ∨ n = "Y90" ∨ n = "S" then Real.pi / 2
  else if n = "mX90" ∨ n = "mY90" ∨ n = "Sdag" then -Real.pi / 2
  else if n = "T" then Real.pi / 4
  else -Real.pi / 4

theorem named_angle (atol : ℝ) (n : String) (hn : n ∈ Gen.bsrNoParams) (q q' : Int) (ax : Vec3 ℝ) (an ph : ℝ)
    (nm : Option (Named ℝ)) (h : named atol n [.qubit q] = .ok (.bsr q' ax an ph, nm)) :
    an = normalizeAngle atol (defaultAngle n) := by
  simp only [Gen.bsrNoParams, List.mem_cons, List.not_mem_nil, or_false] at hn
  rcases hn with rfl | rfl | rfl | rfl | rfl | rfl | rfl | rfl | rfl | rfl | rfl | rfl | rfl
  all_goals
    simp [named, callGate, Gen.gateTable, bindArgs, GExpr.eval, SExpr.eval, envQubit, Env.find?, mkBSR,
      bind, Except.bind, pure, Except.pure, intToScalar] at h
    revert h
    generalize mkAxis (α := ℝ) _ = m
    cases m with
    | error e => intro h; simp at h
    | ok v =>
      intro h
      simp at h
      simp [defaultAngle, h.1.2.2.1.symm]

theorem defaultAngle_vals (n : String) (hn : n ∈ Gen.bsrNoParams) (hI : n ≠ "I") :
    defaultAngle n = Real.pi ∨ defaultAngle n = Real.pi / 2 ∨ defaultAngle n = -Real.pi / 2 ∨
    defaultAngle n = Real.pi / 4 ∨ defaultAngle n = -Real.pi / 4 := by
  simp only [Gen.bsrNoParams, List.mem_cons, List.not_mem_nil, or_false] at hn
  rcases hn with rfl | rfl | rfl | rfl | rfl | rfl | rfl | rfl | rfl | rfl | rfl | rfl | rfl
  · exact absurd rfl hI
  all_goals simp [defaultAngle]

theorem defaultAngle_not_I (atol : ℝ) (hatol : 0 < atol) (h4 : atol ≤ Real.pi / 4) (n : String)
    (hn : n ∈ Gen.bsrNoParams) (hI : n ≠ "I") :
    normalizeAngle atol (defaultAngle n) = defaultAngle n ∧ Real.pi / 4 ≤ |defaultAngle n| := by
  have hpi := Real.pi_pos
  rcases defaultAngle_vals n hn hI with h | h | h | h | h <;> rw [h] <;>
    refine ⟨normalizeAngle_of_mem atol _ hatol (by linarith) (by linarith), ?_⟩
  · rw [abs_of_pos (by linarith)]; linarith
  · rw [abs_of_pos (by linarith)]; linarith
  · rw [abs_of_neg (by linarith)]; linarith
  · rw [abs_of_pos (by linarith)]
  · rw [abs_of_neg (by linarith)]; linarith

/-- a non-identity result of `composeRot` has a rotation angle of at least `2·atol` -/
theorem angle_bound (atol C : ℝ) (hs : ¬ |Real.sin (C / 2)| < atol) : 2 * atol ≤ |normalizeAngle atol C| := by
  obtain ⟨m, hm⟩ := normalizeAngle_shift atol C
  rw [hm]
  have e : (C + m * (2 * Real.pi)) / 2 = C / 2 + m * Real.pi := by ring
  have h1 : |Real.sin ((C + m * (2 * Real.pi)) / 2)| = |Real.sin (C / 2)| := by
    rw [e, Real.sin_add_int_mul_pi, abs_mul, abs_zpow, abs_neg, abs_one, one_zpow, one_mul]
  have h2 : |Real.sin ((C + m * (2 * Real.pi)) / 2)| ≤ |(C + m * (2 * Real.pi)) / 2| := Real.abs_sin_le_abs
  rw [h1, abs_div, abs_of_pos (by norm_num : (0 : ℝ) < 2)] at h2
  rw [not_lt] at hs
  linarith [le_div_iff₀ (by norm_num : (0 : ℝ) < 2) |>.mp (le_trans hs h2)]

theorem composeRot_angle_large (atol : ℝ) (hatol : 0 < atol) (a b r : Rot ℝ)
    (h : composeRot atol a b = .ok r) (hid : r.isIdentity atol = false) : 2 * atol ≤ |r.angle| := by
  unfold composeRot at h
  split at h
  · cases h
  · simp only at h
    split at h
    · injection h with h
      rw [← h] at hid
      simp [Rot.isIdentity, identityRot, hatol] at hid
    · rename_i hs
      split at h
      · cases h
      · injection h with h
        rw [← h]
        simp only [absS_real, trig_sin_real, two_real] at hs
        simp only [two_real]
        exact angle_bound atol _ hs

/-- **"tests as identity ⇒ is the identity" for accumulators, proved.**  A `composeRot` result that tests as
    identity is the exact identity rotation of the identity branch (angle `0`): the other branch has
    `|angle| ≥ 2·atol`. -/
theorem composeRot_isIdentity_angle_zero (atol : ℝ) (hatol : 0 < atol) (a b r : Rot ℝ)
    (h : composeRot atol a b = .ok r) (hid : r.isIdentity atol = true) : r.angle = 0 := by
  unfold composeRot at h
  split at h
  · cases h
  · simp only at h
    split at h
    · injection h with h
      rw [← h]; simp [identityRot]
    · rename_i hs
      split at h
      · cases h
      · exfalso
        injection h with h
        rw [← h] at hid
        simp only [absS_real, trig_sin_real, two_real] at hs
        have hb := angle_bound atol _ hs
        simp only [Rot.isIdentity, two_real, absS_real, trig_sin_real, Bool.and_eq_true, decide_eq_true_eq] at hid
        linarith [hid.1]

/-- **`RenameKeepsNonIdentity` holds at ℝ for `0 < atol ≤ π/4`**: the only default gate that tests as identity
    is `I`, and it is never within `atol` of a non-identity `composeRot` result (`|angle| ≥ 2·atol`). -/
theorem renameKeepsNonIdentity_real (atol : ℝ) (hatol : 0 < atol) (h4 : atol ≤ Real.pi / 4) :
    RenameKeepsNonIdentity atol := by
  intro a b r hab hid
  have hlarge := composeRot_angle_large atol hatol a b r hab hid
  unfold finalRot
  split
  · rcases tryName_cases atol r with h | ⟨n, hn, q', ax, an, ph, nm, hnamed, hcl, _, heq⟩
    · rw [h]; exact hid
    · rw [heq]
      have han := named_angle atol n hn r.q q' ax an ph nm hnamed
      by_cases hI : n = "I"
      · exfalso
        subst hI
        have : an = 0 := by
          rw [han]
          simp only [defaultAngle, ↓reduceIte]
          exact normalizeAngle_zero atol hatol (by linarith [Real.pi_pos])
        subst this
        simp only [closeTo, absS_real, zero_real, zero_mul, add_zero, zero_sub, abs_neg,
          decide_eq_true_eq] at hcl
        linarith
      · obtain ⟨e1, e2⟩ := defaultAngle_not_I atol hatol h4 n hn hI
        rw [e1] at han
        have : ¬ |an| < atol := by rw [han]; linarith
        simp [Rot.isIdentity, this]
  · exact hid

/-! ### The structural theorems at ℝ -/

theorem merge_per_qubit_order_real (atol : ℝ) (hatol : 0 < atol) (hpi : atol ≤ Real.pi) (c : Circuit ℝ)
    (hne : (merge atol c).2 = none) (q : Nat) (hq : q < c.nQubits) :
    trace (q : Int) (merge atol c).1.stmts = specTrace atol q (defaultI atol q) (trace (q : Int) c.stmts) :=
  merge_per_qubit_order atol (defaultIsIdentity_real atol hatol hpi) c hne q hq

/-- **Normal form (C14) at ℝ.** -/
theorem merge_normal_form_real (atol : ℝ) (hatol : 0 < atol) (h4 : atol ≤ Real.pi / 4) (c : Circuit ℝ)
    (hne : (merge atol c).2 = none) :
    (∀ q : Nat, q < c.nQubits → noAdjBSR (trace (q : Int) (merge atol c).1.stmts) = true) ∧
    (∀ s ∈ (merge atol c).1.stmts, ∀ r, s.rot? = some r → r.isIdentity atol = false) :=
  merge_normal_form atol (defaultIsIdentity_real atol hatol (by linarith [Real.pi_pos]))
    (renameKeepsNonIdentity_real atol hatol h4) c hne

/-- non-vacuity: a concrete circuit at ℝ (two barriers, no rotation) satisfies all hypotheses -/
noncomputable def exCircR : Circuit ℝ :=
  { nQubits := 2, nBits := 1, stmts := [.measure 0 0 (0, 0, 1) none, .reset 1 none] }

example : (∀ q : Nat, q < 2 → noAdjBSR (trace (q : Int) (merge (1 / 10 ^ 7 : ℝ) exCircR).1.stmts) = true) ∧
    (∀ s ∈ (merge (1 / 10 ^ 7 : ℝ) exCircR).1.stmts, ∀ r, s.rot? = some r →
      r.isIdentity (1 / 10 ^ 7 : ℝ) = false) := by
  have hpi := Real.two_le_pi
  refine merge_normal_form_real _ (by norm_num) (by norm_num; linarith) exCircR ?_
  apply merge_no_error_of_no_bsr
  · simp [OperandsInRange, exCircR, Stmt.qubits, inRange]
  · simp [exCircR, Stmt.isBSR]

#print axioms defaultIsIdentity_real
#print axioms renameKeepsNonIdentity_real
#print axioms composeRot_isIdentity_angle_zero
#print axioms merge_per_qubit_order_real
#print axioms merge_normal_form_real

end OSq
