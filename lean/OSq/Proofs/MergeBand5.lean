/-
  OSq.Proofs.MergeBand5 — non-vacuity of the all-inputs merge theorem on the **cancellation inside the band**:
  `Rx(1) q0; Rx(−1 + atol/2) q0` at `atol = 1/10`.  (`‖·‖` = L2 operator norm, namespace `OSq.Bands`.)

  * `ex_first`            `composeRot (1/10) Rx(1) I(0) = .ok Rx(1)`   (general branch, all roundings exact)
  * `ex_second`           `composeRot (1/10) Rx(−1 + 1/20) Rx(1) = .ok (identity)`: the identity test
                          `|sin(Θ/2)| = sin(1/40) < 1/10` fires although the product is `Rx(1/20) ≠ 1`
  * `exCancel_merged`     the merged circuit is EMPTY
  * example               `merge_all_inputs_std` instantiated: `‖circOp merged − z • circOp original‖ ≤ 2 · perRot (1/10)`
  * `exCancel_error_pos`  the true error is not zero: for EVERY scalar `z`,
                          `sin(1/40) ≤ ‖circOp 1 original o − z • circOp 1 merged o‖`   (`sin(1/40) ≈ atol/4`)
  * `exCancel_not_equiv`  hence `¬ CircEquiv`: the exact theorem `merge_sem_global_real` cannot apply (its conclusion is
                          false), example: `CrispR` fails on this input
-/
import OSq.Proofs.MergeBand4

set_option linter.unusedSectionVars false
set_option linter.unusedVariables false
set_option linter.unusedSimpArgs false
open Matrix
open scoped Matrix.Norms.L2Operator

namespace OSq
namespace Bands
open MergeAbs Sem

/-- `Rx(1)` and `Rx(−1 + 1/20)` on qubit 0, anonymous -/
noncomputable def exP : Rot ℝ := ⟨0, (1, 0, 0), 1, 0, none⟩
noncomputable def exM : Rot ℝ := ⟨0, (1, 0, 0), -1 + 1 / 20, 0, none⟩

noncomputable def exCancel : Circuit ℝ := { nQubits := 1, nBits := 0, stmts := [rotStmtOf exP, rotStmtOf exM] }

theorem exP_unit : UnitVec exP.axis := by simp [UnitVec, exP]
theorem exM_unit : UnitVec exM.axis := by simp [UnitVec, exM]

theorem sin_half_pos : 0 < Real.sin ((1 : ℝ) / 2) :=
  Real.sin_pos_of_pos_of_lt_pi (by norm_num) (by linarith [Real.two_le_pi])

theorem sin_half_ge : (1 : ℝ) / 10 ≤ Real.sin ((1 : ℝ) / 2) := by
  have hpi := Real.pi_pos
  have h4 := Real.pi_le_four
  have h := Real.mul_le_sin (x := (1 : ℝ) / 2) (by norm_num) (by linarith [Real.two_le_pi])
  have e : 2 / Real.pi * ((1 : ℝ) / 2) = 1 / Real.pi := by field_simp
  rw [e] at h
  have : (1 : ℝ) / 4 ≤ 1 / Real.pi := one_div_le_one_div_of_le hpi h4
  linarith

/-- the first composition is exact: general branch, no rounding error -/
theorem ex_first : composeRot (1 / 10 : ℝ) exP (defaultI (1 / 10) 0) = .ok exP := by
  have hpi := Real.two_le_pi
  have hat : (0 : ℝ) < 1 / 10 := by norm_num
  have hle : (1 / 10 : ℝ) ≤ Real.pi := by linarith
  have hs : Real.sin (exP.angle / 2) = Real.sin ((1 : ℝ) / 2) := by simp [exP]
  have hnot : ¬ |Real.sin (cTheta exP (dI 0) / 2)| < 1 / 10 := by
    rw [sin_half_cTheta_dI, abs_abs, hs, abs_of_pos sin_half_pos]
    exact not_lt.mpr sin_half_ge
  have hax : cAxis exP (dI 0) = (1, 0, 0) := by
    rw [cAxis_dI, hs, abs_of_pos sin_half_pos, div_self (ne_of_gt sin_half_pos)]
    simp [exP]
  have hth : cTheta exP (dI 0) = 1 := by
    rw [cTheta_dI_of_range exP 0 (by simp only [exP]; linarith) (by simp only [exP]; linarith)]
    simp [exP]
  have hph : exP.phase + (dI 0).phase = 0 := by simp [exP, dI]
  have hnid : exP.isIdentity (1 / 10) = false := by
    have : ¬ |(1 : ℝ)| < 1 / 10 := by rw [abs_one]; norm_num
    simp only [exP, Rot.isIdentity, absS_real, Bool.and_eq_false_iff, decide_eq_false_iff_not]
    exact Or.inl (decide_eq_false this)
  rw [defaultI_eq_dI (1 / 10) hat hle 0, composeRot_real (1 / 10) exP (dI 0) exP_unit (dI_unit 0) rfl,
    if_neg hnot, hax, hth, hph, roundTo_exact 1 10000000 (by rw [s7_eq]; norm_num), roundTo_exact 0 0 (by simp),
    mkAxis_unit _ unitVec_x, normalizeAngle_zero (1 / 10) hat hle,
    normalizeAngle_of_mem (1 / 10) 1 hat (by linarith) (by linarith), hnid, dI_isIdentity (1 / 10) hat 0]
  simp [Except.map, exP]

theorem cW_exM_exP : cW exM exP = Real.cos (1 / 40) := by
  have e : ((1 : ℝ) / 40) = (-1 + 1 / 20) / 2 + 1 / 2 := by ring
  rw [e, Real.cos_add]
  simp [cW, exM, exP, Vec3.dot]

/-- **the identity test of the second composition fires inside the band**: `Rx(−1 + 1/20)·Rx(1) = Rx(1/20)` is not
    the identity, but `|sin(Θ/2)| = sin(1/40) < 1/10` -/
theorem ex_second : composeRot (1 / 10 : ℝ) exM exP = .ok (identityRot 0) := by
  rw [composeRot_real (1 / 10) exM exP exM_unit exP_unit rfl, if_pos]
  · rfl
  · rw [sin_half_cTheta, cW_exM_exP]
    have h1 : 1 - Real.cos (1 / 40) ^ 2 = Real.sin (1 / 40) ^ 2 := by
      have := Real.sin_sq_add_cos_sq (1 / 40); linarith
    rw [h1, Real.sqrt_sq_eq_abs, abs_abs]
    have h := Real.abs_sin_le_abs (x := (1 : ℝ) / 40)
    rw [abs_of_pos (by norm_num : (0 : ℝ) < 1 / 40)] at h
    linarith

/-- the merged circuit is empty -/
theorem exCancel_merged : (merge (1 / 10 : ℝ) exCancel).1.stmts = [] := by
  have hfold : foldRot (1 / 10) [exP, exM] (defaultI (1 / 10) 0) = .ok (identityRot 0) := by
    simp only [foldRot, ex_first, ex_second]
  obtain ⟨accs', hsz, hget, _, hm⟩ := mergeLoop_segment (1 / 10) 0 [exP, exM]
    (Array.ofFn (n := 1) fun i => defaultI (1 / 10 : ℝ) i.val) [] [] (defaultI (1 / 10) 0) (identityRot 0)
    (by intro s hs; simp only [List.mem_cons, List.not_mem_nil, or_false] at hs; rcases hs with rfl | rfl <;> rfl)
    (by simp) hfold
  have hl : accs'.toList = [identityRot 0] := toList_of_size_one accs' _ (by rw [hsz]; simp) hget
  have key : mergeLoop (1 / 10 : ℝ) (Array.ofFn (n := exCancel.nQubits) fun i => defaultI (1 / 10 : ℝ) i.val) []
      exCancel.stmts = .inr (accs', []) := by
    rw [← mergeLoop_nil (1 / 10 : ℝ) accs' [], ← hm]; rfl
  rw [merge_eq, key]
  show ([] : List (Stmt ℝ)).reverse ++ mergeTail (1 / 10) accs' = []
  rw [mergeTail_eq, hl]
  simp [tailF, identityRot, Rot.isIdentity]

theorem exCancel_inRange : OperandsInRange exCancel.nQubits exCancel.stmts := by
  intro s hs q hq
  simp only [exCancel, List.mem_cons, List.not_mem_nil, or_false] at hs
  rcases hs with rfl | rfl <;>
    (simp only [rotStmtOf, exP, exM, Stmt.qubits, Gate.operands, List.mem_singleton] at hq; subst hq; rfl)

theorem exCancel_std : ∀ g nm, Stmt.gate g nm ∈ exCancel.stmts → ctrlRot g ∧ hasDup g.operands = false := by
  intro g nm hs
  simp only [exCancel, rotStmtOf, List.mem_cons, List.not_mem_nil, or_false, Stmt.gate.injEq] at hs
  rcases hs with ⟨rfl, -⟩ | ⟨rfl, -⟩
  · exact ⟨exP_unit, rfl⟩
  · exact ⟨exM_unit, rfl⟩

/-- **the band theorem on the cancellation example** -/
example : (merge (1 / 10 : ℝ) exCancel).2 = none ∧
    ∃ z : ℂ, ‖z‖ = 1 ∧ ∀ o : List Bool,
      ‖circOp 1 (merge (1 / 10 : ℝ) exCancel).1.stmts o - z • circOp 1 exCancel.stmts o‖ ≤ 2 * perRot (1 / 10) := by
  have hpi := Real.two_le_pi
  obtain ⟨h1, _, z, hz, H⟩ := merge_all_inputs_std (1 / 10) (by norm_num) (by linarith) exCancel exCancel_inRange
    exCancel_std
  refine ⟨h1, z, hz, fun o => ?_⟩
  have := H o
  have e : exCancel.stmts.countP Stmt.isBSR = 2 := rfl
  rw [e] at this
  exact_mod_cast this

/-- the `(0,1)` entry of the original operator `Rx(−1 + 1/20)·Rx(1) = Rx(1/20)` is `−i·sin(1/40)` -/
theorem exCancel_entry :
    (rot exM.axis exM.angle exM.phase * rot exP.axis exP.angle exP.phase) 0 1
      = -(Complex.I * (Real.sin (1 / 40) : ℂ)) := by
  rw [rot_eq, rot_eq, Matrix.mul_apply, Fin.sum_univ_two]
  simp only [exP, exM, Matrix.smul_apply, Matrix.of_apply, Matrix.cons_val', Matrix.cons_val_zero,
    Matrix.cons_val_one, Matrix.empty_val', Matrix.cons_val_fin_one, smul_eq_mul, Complex.ofReal_zero, mul_zero,
    Complex.exp_zero, one_mul, Complex.ofReal_one, mul_one, sub_zero, add_zero]
  have e : ((1 : ℝ) / 40) = (-1 + 1 / 20) / 2 + 1 / 2 := by ring
  rw [e, Real.sin_add]
  push_cast
  ring

theorem circOp_exCancel (o : List Bool) :
    circOp 1 exCancel.stmts o = (rot exM.axis exM.angle exM.phase * rot exP.axis exP.angle exP.phase : Op 1) := by
  simp only [exCancel, rotStmtOf, circOp_gate, circOp_nil, one_mul]
  have e1 : gateOp 1 (.bsr exP.q exP.axis exP.angle exP.phase) = rotOp1 exP := rfl
  have e2 : gateOp 1 (.bsr exM.q exM.axis exM.angle exM.phase) = rotOp1 exM := rfl
  rw [e1, e2, rotOp1_eq, rotOp1_eq]

/-- **the true error of the example is not zero**, whatever the phase: `sin(1/40) ≈ atol/4`, well inside the bound
    `2 · perRot (1/10)` -/
theorem exCancel_error_pos (z : ℂ) (o : List Bool) :
    Real.sin (1 / 40) ≤ ‖circOp 1 exCancel.stmts o - z • circOp 1 (merge (1 / 10 : ℝ) exCancel).1.stmts o‖ := by
  rw [exCancel_merged, circOp_exCancel, circOp_nil]
  have h := entry_le_opNorm
    ((rot exM.axis exM.angle exM.phase * rot exP.axis exP.angle exP.phase : Op 1) - z • (1 : Op 1)) i0 i1
  have e : ((rot exM.axis exM.angle exM.phase * rot exP.axis exP.angle exP.phase : Op 1) - z • (1 : Op 1)) i0 i1
      = -(Complex.I * (Real.sin (1 / 40) : ℂ)) := by
    rw [Matrix.sub_apply, Matrix.smul_apply]
    have : (1 : Op 1) i0 i1 = 0 := Matrix.one_apply_ne (by decide)
    rw [this, smul_zero, sub_zero]
    exact exCancel_entry
  rw [e, norm_neg, norm_mul, Complex.norm_I, one_mul, Complex.norm_real, Real.norm_eq_abs] at h
  exact (le_abs_self _).trans h

theorem sin_fortieth_pos : 0 < Real.sin ((1 : ℝ) / 40) :=
  Real.sin_pos_of_pos_of_lt_pi (by norm_num) (by linarith [Real.two_le_pi])

/-- **the exact (crisp) theorem does not apply**: the merged circuit is not the original up to a global phase -/
theorem exCancel_not_equiv : ¬ CircEquiv 1 exCancel.stmts (merge (1 / 10 : ℝ) exCancel).1.stmts := by
  rintro ⟨z, hz, H⟩
  have h := exCancel_error_pos z []
  rw [H [], sub_self, norm_zero] at h
  linarith [sin_fortieth_pos]

example : ¬ CrispR (1 / 10 : ℝ) (regSemQ exCancel.nQubits) exCancel.nQubits
    ((fun q => defaultI (1 / 10 : ℝ) q), []) (exCancel.stmts.map absStmt) := by
  intro hc
  have hpi := Real.two_le_pi
  have hne := (merge_all_inputs_std (1 / 10) (by norm_num) (by linarith) exCancel exCancel_inRange exCancel_std).1
  exact exCancel_not_equiv
    (merge_sem_global_real (1 / 10) (by norm_num) (by linarith) exCancel exCancel_inRange hne hc).1

end Bands
end OSq

#print axioms OSq.Bands.ex_first
#print axioms OSq.Bands.ex_second
#print axioms OSq.Bands.exCancel_merged
#print axioms OSq.Bands.exCancel_error_pos
#print axioms OSq.Bands.exCancel_not_equiv
