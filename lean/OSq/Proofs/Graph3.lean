import OSq.Proofs.Graph2
import OSq.Proofs.Remap
/-
  OSq.Proofs.Graph3 — the interaction graph of a relabelled circuit (C18 together with C03): for **any**
  relabelling `f` of the qubit indices (in particular `mapIdx m`, what `Circuit.map` applies),
  * `graph_mapQ_ok`    the relabelled circuit is accepted iff the original is;
  * `graph_mapQ_edge`  `(x, y)` is an edge of the relabelled circuit iff `x ≤ y` and it is the image, in either
                       orientation, of an edge of the original circuit;
  * `graph_remap_edge` the same for the statements produced by `Stmt.mapQubits m`.
-/
namespace OSq
variable {α : Type}

theorem mem_map_mapQ_gate (f : Int → Int) (stmts : List (Stmt α)) (g' : Gate α) (nm' : Option (Named α)) :
    Stmt.gate g' nm' ∈ stmts.map (Stmt.mapQ f) ↔
      ∃ g nm, Stmt.gate g nm ∈ stmts ∧ g' = g.mapQ f ∧ nm' = nm.map (Named.mapQ f) := by
  rw [List.mem_map]
  constructor
  · rintro ⟨s, hs, he⟩
    cases s with
    | gate g nm =>
      simp only [Stmt.mapQ, Stmt.gate.injEq] at he
      exact ⟨g, nm, hs, he.1.symm, he.2.symm⟩
    | measure q b ax nm => simp [Stmt.mapQ] at he
    | reset q nm => simp [Stmt.mapQ] at he
    | comment t => simp [Stmt.mapQ] at he
  · rintro ⟨g, nm, hs, rfl, rfl⟩
    exact ⟨Stmt.gate g nm, hs, rfl⟩

/-- Relabelling never changes whether the graph is produced. -/
theorem graph_mapQ_ok (f : Int → Int) (stmts : List (Stmt α)) :
    (∃ es, interactionGraph (stmts.map (Stmt.mapQ f)) = .ok es) ↔ (∃ es, interactionGraph stmts = .ok es) := by
  rw [graph_ok_iff, graph_ok_iff]
  constructor
  · intro h g nm hm
    have := h (g.mapQ f) (nm.map (Named.mapQ f)) ((mem_map_mapQ_gate f stmts _ _).2 ⟨g, nm, hm, rfl, rfl⟩)
    simpa [Gate.operands_mapQ] using this
  · intro h g' nm' hm
    obtain ⟨g, nm, hs, rfl, rfl⟩ := (mem_map_mapQ_gate f stmts _ _).1 hm
    simpa [Gate.operands_mapQ] using h g nm hs

/-- The edges of the relabelled circuit are exactly the images of the original edges (stored as `(min, max)`). -/
theorem graph_mapQ_edge (f : Int → Int) (stmts : List (Stmt α)) (es es' : List (Int × Int))
    (h : interactionGraph stmts = .ok es) (h' : interactionGraph (stmts.map (Stmt.mapQ f)) = .ok es')
    (x y : Int) :
    (x, y) ∈ es' ↔ x ≤ y ∧ ∃ a b, (a, b) ∈ es ∧ ((f a = x ∧ f b = y) ∨ (f a = y ∧ f b = x)) := by
  rw [graph_edge_iff _ es' h']
  constructor
  · rintro ⟨hxy, g', nm', hm, ho⟩
    obtain ⟨g, nm, hs, rfl, rfl⟩ := (mem_map_mapQ_gate f stmts _ _).1 hm
    refine ⟨hxy, ?_⟩
    rw [Gate.operands_mapQ] at ho
    -- the original gate has exactly two operands
    have two : ∃ a b, g.operands = [a, b] ∧ ((f a = x ∧ f b = y) ∨ (f a = y ∧ f b = x)) := by
      rcases ho with ho | ho
      · match hg : g.operands, ho with
        | [a, b], ho =>
          simp only [List.map_cons, List.map_nil, List.cons.injEq, and_true] at ho
          exact ⟨a, b, rfl, Or.inl ⟨ho.1, ho.2⟩⟩
      · match hg : g.operands, ho with
        | [a, b], ho =>
          simp only [List.map_cons, List.map_nil, List.cons.injEq, and_true] at ho
          exact ⟨a, b, rfl, Or.inr ⟨ho.1, ho.2⟩⟩
    obtain ⟨a, b, hg, hf⟩ := two
    by_cases hab : a ≤ b
    · exact ⟨a, b, (graph_edge_iff stmts es h a b).2 ⟨hab, g, nm, hs, Or.inl hg⟩, hf⟩
    · have hba : b ≤ a := by omega
      refine ⟨b, a, (graph_edge_iff stmts es h b a).2 ⟨hba, g, nm, hs, Or.inr hg⟩, ?_⟩
      rcases hf with hf | hf
      · exact Or.inr ⟨hf.2, hf.1⟩
      · exact Or.inl ⟨hf.2, hf.1⟩
  · rintro ⟨hxy, a, b, hab, hf⟩
    obtain ⟨_, g, nm, hs, hg⟩ := (graph_edge_iff stmts es h a b).1 hab
    refine ⟨hxy, g.mapQ f, nm.map (Named.mapQ f), (mem_map_mapQ_gate f stmts _ _).2 ⟨g, nm, hs, rfl, rfl⟩, ?_⟩
    rw [Gate.operands_mapQ]
    rcases hg with hg | hg <;> rcases hf with hf | hf <;> simp [hg, hf.1, hf.2]

/-- … in particular for the relabelling `Circuit.map` applies. -/
theorem graph_remap_edge (m : List Int) (stmts : List (Stmt α)) (es es' : List (Int × Int))
    (h : interactionGraph stmts = .ok es) (h' : interactionGraph (stmts.map (Stmt.mapQubits m)) = .ok es')
    (x y : Int) :
    (x, y) ∈ es' ↔ x ≤ y ∧ ∃ a b, (a, b) ∈ es ∧
      ((mapIdx m a = x ∧ mapIdx m b = y) ∨ (mapIdx m a = y ∧ mapIdx m b = x)) := by
  have e : stmts.map (Stmt.mapQubits m) = stmts.map (Stmt.mapQ (mapIdx m)) :=
    List.map_congr_left (fun s _ => Stmt.mapQubits_eq_mapQ m s)
  rw [e] at h'
  exact graph_mapQ_edge (mapIdx m) stmts es es' h h' x y

end OSq

#print axioms OSq.graph_mapQ_ok
#print axioms OSq.graph_mapQ_edge
#print axioms OSq.graph_remap_edge
