import OSq.Proofs.Pipeline
/-
  OSq.Proofs.PipelineShape — property C10, circuit level: the built-in decomposers deliver their advertised target
  gate set on whole circuits, and — the clause that was open — the pipeline
        Circuit.decompose(CNOTDecomposer()) → merge_single_qubit_gates() → Circuit.decompose(McKayDecomposer())
  leaves only `CNOT`, `Rz` and `X90` on circuits of one-qubit gates and singly-controlled rotations.
  (`OSq/Model/Passes.lean`: `decomposeBuiltin`, `decomposeLoop`, `abaDecompose`, `mckayDecompose`, `cnotDecompose`,
  `merge`; `OSq/Model/Pipeline.lean`: `Pass`, `runPasses`; Python `decomposer/*.py`, `merger/general_merger.py`.)
  Purely structural: every theorem holds for every scalar type `α` with `[Scalar α]` and every `atol`.  Core Lean only.
  Built on `OSq.Proofs.Shape` (per-gate shapes), `DecomposeLoop` (driver), `MergeStruct` (`merge_filter`), `Pipeline`.

  Vocabulary
  * `Stmt.gname?`            generator name of a gate statement
  * `StmtRot q n s`          `s` is a one-qubit rotation on `q` carrying the generator name `n` (statement form of `IsRot`)
  * `StmtCnot atol c t s`    `s` is `CNOT(c, t)` exactly as the default-gate generator builds it, and `c ≠ t`
  * `Stmt.isCtrlBSR`, `Stmt.inScope`, `InScope c`, `Stmt.isMulti`, `cnotMergeMckay` (the list of the three passes)

  Driver on success
  * `decomposeBuiltin_ok_form`   `decomposeBuiltin … = (out, none)` ⇒ every gate was answered and accepted, and `out`
                                 is the input with each gate replaced in place by the decomposer's answer (`flatMap`)
  * `decomposeBuiltin_ok_mem`    … as a characterisation of membership in `out` (iff)

  1. Circuit-level lifts
  * `decompose_mckay_circuit_shape`  after McKay: every gate is an original multi-qubit gate, or a rotation named `Rz`/`X90`
                                     on the qubit of an original rotation
  * `decompose_mckay_circuit_form`   exact form: original multi-qubit gate | original rotation *named* `Rz`/`X90`
                                     (untouched) | generated `Rz(q, θ)` | generated `X90(q)`
  * `decompose_cnot_circuit_shape`   after the CNOT decomposer: every gate is an original gate that is not a
                                     singly-controlled rotation, or — for a controlled rotation `(c, t)` of the input —
                                     the generated `CNOT(c, t)`, `Ry`/`Rz` on `t`, `Rz` on `c`
  * `aba_circuit_shape`              after any of the six A-B-A decomposers: original multi-qubit gate, or a non-identity
                                     rotation named `R_a` / `R_b` on the qubit of an original rotation
  * `cnot_elems_exact`, `mckay_elems_exact`   the per-gate facts in the exact form used here
  * `decomposeBuiltin_passthrough_sublist`, `decompose_mckay_keeps_others` (equality of the non-rotation sublists),
    `decompose_cnot_keeps_others`, `decompose_aba_keeps_others`   out-of-scope statements are all kept, in order
  2. Merge
  * `merge_output_kinds`     every gate emitted by the merger is a one-qubit rotation or an original multi-qubit gate;
                             the non-rotations are exactly the original ones, in order
  3. Pipeline
  * `cnotMergeMckay_stages`          a successful run splits into the three successful passes
  * `cnot_merge_mckay_target_set`    **main theorem**: `InScope c`, the three passes complete ⇒ every gate of the result
                                     is a generated `CNOT(ctl, t)` (for a controlled rotation `(ctl, t)` of `c`), a rotation
                                     named `Rz`, or a rotation named `X90`; comments/measurements/resets unchanged and
                                     in order; registers unchanged
  * `cnot_merge_mckay_target_set_fine`  the same with the rotations split into generated `Rz(q, θ)`, generated `X90(q)`,
                                     and rotations that left the *merge* pass already named `Rz`/`X90` (passed through)
  * `cnot_merge_mckay_general`       no `InScope` hypothesis: … or an original out-of-scope gate (matrix gate, controlled
                                     non-rotation), unchanged
  * `cnot_merge_mckay_names`         name-level corollary (`CNOT` / `Rz` / `X90`)
  * `cnot_merge_mckay_cnot_count`    at most two multi-qubit gates in the result per controlled rotation of the input
  * `cnot_merge_mckay_wf`            well-formed input ⇒ well-formed result
  4. Generalisation
  * `mckay_circuit_preserves`        any property of the multi-qubit gates survives a McKay pass; all other gates are
                                     named `Rz`/`X90`
  * `any_then_mckay`                 multi-qubit gates all named `CNOT` ⇒ after McKay all gates named `CNOT`/`Rz`/`X90`
  5. Tool
  * `evalWith`, `evalNamedS`, `namedS`, `named_eq_namedS`   `named` (defined through a well-founded mutual recursion
                                     that the kernel cannot unfold) equals a structurally recursive `namedS`, for every
                                     scalar; makes closed runs of the model provable by `decide +kernel`
  Non-vacuity (namespace `PipelineShapeExamples`): `InScope` at arbitrary `α`; a toy scalar `T2` on which the whole
  pipeline is *run in the kernel* on a 5-statement circuit (`exCirc_run`, `exCirc_names`: result
  `Rz X90 X90 Rz | Rz | CNOT Rz X90 X90 Rz CNOT X90 X90 Rz`, exhibiting the pass-through-by-name case) and every theorem
  of section 3 is instantiated; `mcCirc` for `any_then_mckay`.
-/
set_option linter.unusedSimpArgs false
set_option linter.unusedSectionVars false

namespace OSq
variable {α : Type} [Scalar α]

/-! ## Vocabulary (statement level) -/

/-- generator name of a gate statement (`None` for anonymous gates and for non-gates) -/
def Stmt.gname? : Stmt α → Option String
  | .gate _ nm => nm.map (·.name)
  | _ => none

/-- `s` is the gate statement of a Bloch-sphere rotation on `q` carrying the generator name `n`
    (statement-level form of `IsRot` of `OSq.Proofs.Shape`) -/
def StmtRot (q : Int) (n : String) (s : Stmt α) : Prop :=
  ∃ ax an ph args, s = .gate (.bsr q ax an ph) (some ⟨n, args⟩)

/-- `s` is the statement `CNOT(c, t)` exactly as the default-gate generator builds it: control `c`, an `X` rotation
    (normalised literal axis `(1,0,0)`, angle `normalize(π)`, phase `normalize(π/2)`) on the target `t ≠ c`, named
    `CNOT` with arguments `(c, t)`. -/
def StmtCnot (atol : α) (c t : Int) (s : Stmt α) : Prop :=
  c ≠ t ∧ ∃ axX, mkAxis (axisLit 0 : Vec3 α) = .ok axX ∧ s = (cnotStmt atol c t axX).toStmt

omit [Scalar α] in
theorem StmtRot.of_isRot {q : Int} {n : String} {r : GStmt α} (h : IsRot q n r) : StmtRot q n r.toStmt := by
  obtain ⟨ax, an, ph, args, rfl⟩ := h; exact ⟨ax, an, ph, args, rfl⟩

omit [Scalar α] in
theorem StmtRot.gname? {q : Int} {n : String} {s : Stmt α} (h : StmtRot q n s) : s.gname? = some n := by
  obtain ⟨_, _, _, _, rfl⟩ := h; rfl
omit [Scalar α] in
theorem StmtRot.isBSR {q : Int} {n : String} {s : Stmt α} (h : StmtRot q n s) : s.isBSR = true := by
  obtain ⟨_, _, _, _, rfl⟩ := h; rfl
omit [Scalar α] in
theorem StmtRot.isGate {q : Int} {n : String} {s : Stmt α} (h : StmtRot q n s) : s.isGate = true := by
  obtain ⟨_, _, _, _, rfl⟩ := h; rfl
omit [Scalar α] in
theorem StmtRot.qubits {q : Int} {n : String} {s : Stmt α} (h : StmtRot q n s) : s.qubits = [q] := by
  obtain ⟨_, _, _, _, rfl⟩ := h; rfl

theorem StmtCnot.gname? {atol : α} {c t : Int} {s : Stmt α} (h : StmtCnot atol c t s) : s.gname? = some "CNOT" := by
  obtain ⟨_, _, _, rfl⟩ := h; rfl
theorem StmtCnot.isBSR {atol : α} {c t : Int} {s : Stmt α} (h : StmtCnot atol c t s) : s.isBSR = false := by
  obtain ⟨_, _, _, rfl⟩ := h; rfl
theorem StmtCnot.isGate {atol : α} {c t : Int} {s : Stmt α} (h : StmtCnot atol c t s) : s.isGate = true := by
  obtain ⟨_, _, _, rfl⟩ := h; rfl
theorem StmtCnot.qubits {atol : α} {c t : Int} {s : Stmt α} (h : StmtCnot atol c t s) : s.qubits = [c, t] := by
  obtain ⟨_, _, _, rfl⟩ := h; rfl

omit [Scalar α] in
theorem Stmt.isGate_of_isBSR {s : Stmt α} (h : s.isBSR = true) : s.isGate = true := by
  cases s with
  | gate g nm => rfl
  | _ => simp [Stmt.isBSR] at h

/-! ## The decompose driver on success: membership -/

/-- **A successful run of `Circuit.decompose(built-in decomposer)`**: every gate statement was answered by the
    decomposer and passed the replacement check, and the result is the input with every gate statement replaced, in
    place, by the decomposer's answer. -/
theorem decomposeBuiltin_ok_form {atol : α} {d : Decomposer} {stmts out : List (Stmt α)}
    (h : decomposeBuiltin atol d stmts = (out, none)) :
    (∀ g nm, Stmt.gate g nm ∈ stmts →
      ∃ repl, d.run atol (g, nm) = .ok repl ∧ checkGateReplacement atol g (repl.map (·.1)) = none) ∧
    out = stmts.flatMap fun s => match s with
      | .gate g nm => (replOf (d.run atol) (g, nm)).map GStmt.toStmt
      | s => [s] := by
  have hacc : ∀ g nm, Stmt.gate g nm ∈ stmts →
      ∃ repl, d.run atol (g, nm) = .ok repl ∧ checkGateReplacement atol g (repl.map (·.1)) = none := by
    intro g nm hm
    have h2 : (decompose atol (fun _ g => d.run atol g) stmts).2 = none := by
      have : decompose atol (fun _ g => d.run atol g) stmts = (out, none) := h
      rw [this]
    rw [decompose_none_iff] at h2
    obtain ⟨k, hk⟩ := List.getElem?_of_mem hm
    exact h2 k _ hk g nm rfl
  refine ⟨hacc, ?_⟩
  have := decomposeBuiltin_ok_flatMap atol d stmts hacc
  rw [h] at this
  exact (Prod.mk.inj this).1

/-- membership form: a statement of the result is a non-gate statement of the input, or a member of the
    decomposer's answer for a gate statement of the input -/
theorem decomposeBuiltin_ok_mem {atol : α} {d : Decomposer} {stmts out : List (Stmt α)}
    (h : decomposeBuiltin atol d stmts = (out, none)) (s : Stmt α) :
    s ∈ out ↔ ((s.isGate = false ∧ s ∈ stmts) ∨
      ∃ g nm repl r, Stmt.gate g nm ∈ stmts ∧ d.run atol (g, nm) = .ok repl ∧ r ∈ repl ∧ s = r.toStmt) := by
  obtain ⟨hacc, rfl⟩ := decomposeBuiltin_ok_form h
  simp only [List.mem_flatMap]
  constructor
  · rintro ⟨s0, hs0, hs⟩
    cases s0 with
    | gate g nm =>
      obtain ⟨repl, hrun, -⟩ := hacc g nm hs0
      simp only [replOf, hrun, List.mem_map] at hs
      obtain ⟨r, hr, rfl⟩ := hs
      exact .inr ⟨g, nm, repl, r, hs0, hrun, hr, rfl⟩
    | measure q b ax nm =>
      simp only [List.mem_cons, List.not_mem_nil, or_false] at hs; subst hs; exact .inl ⟨rfl, hs0⟩
    | reset q nm =>
      simp only [List.mem_cons, List.not_mem_nil, or_false] at hs; subst hs; exact .inl ⟨rfl, hs0⟩
    | comment c =>
      simp only [List.mem_cons, List.not_mem_nil, or_false] at hs; subst hs; exact .inl ⟨rfl, hs0⟩
  · rintro (⟨hg, hs⟩ | ⟨g, nm, repl, r, hm, hrun, hr, rfl⟩)
    · refine ⟨s, hs, ?_⟩
      cases s with
      | gate g nm => simp [Stmt.isGate] at hg
      | _ => simp
    · refine ⟨_, hm, ?_⟩
      simp only [replOf, hrun, List.mem_map]
      exact ⟨r, hr, rfl⟩

/-! ## Per-gate facts in the form needed below -/

/-- `cnot_elems` of `OSq.Proofs.Shape` with the CNOTs in exact form: each member of a CNOT decomposition is the
    generated `CNOT(c, t)`, or `Ry`/`Rz` on the target, or `Rz` on the control; and `c ≠ t`. -/
theorem cnot_elems_exact {atol : α} {c t : Int} {tax : Vec3 α} {tan tph : α} {nm : Option (Named α)}
    {out : List (GStmt α)} (h : cnotDecompose atol (.ctrl c (.bsr t tax tan tph), nm) = .ok out) :
    c ≠ t ∧ ∀ s ∈ out, (∃ axX, mkAxis (axisLit 0 : Vec3 α) = .ok axX ∧ s = cnotStmt atol c t axX) ∨
      IsRot t "Ry" s ∨ IsRot t "Rz" s ∨ IsRot c "Rz" s := by
  obtain ⟨axX, axY, axZ, xu, θ0, θ1, θ2, hX, -, -, hct, -, -, h | h⟩ := cnot_form h
  · obtain ⟨-, φ, rfl⟩ := h
    refine ⟨hct, fun s hs => ?_⟩
    have hs := (mem_filterOutIdentities.1 hs).1
    simp only [List.mem_cons, List.not_mem_nil, or_false] at hs
    rcases hs with rfl | rfl | rfl | rfl | rfl | rfl
    · exact .inr (.inr (.inl (isRot_rotStmt ..)))
    · exact .inr (.inl (isRot_rotStmt ..))
    · exact .inl ⟨axX, hX, rfl⟩
    · exact .inr (.inl (isRot_rotStmt ..))
    · exact .inr (.inr (.inl (isRot_rotStmt ..)))
    · exact .inr (.inr (.inr (isRot_rotStmt ..)))
  · obtain ⟨-, t0, t1, t2, -, rfl⟩ := h
    refine ⟨hct, fun s hs => ?_⟩
    have hs := (mem_filterOutIdentities.1 hs).1
    simp only [List.mem_cons, List.not_mem_nil, or_false] at hs
    rcases hs with rfl | rfl | rfl | rfl | rfl | rfl | rfl | rfl
    · exact .inr (.inr (.inl (isRot_rotStmt ..)))
    · exact .inl ⟨axX, hX, rfl⟩
    · exact .inr (.inr (.inl (isRot_rotStmt ..)))
    · exact .inr (.inl (isRot_rotStmt ..))
    · exact .inl ⟨axX, hX, rfl⟩
    · exact .inr (.inl (isRot_rotStmt ..))
    · exact .inr (.inr (.inl (isRot_rotStmt ..)))
    · exact .inr (.inr (.inr (isRot_rotStmt ..)))

/-- a singly-controlled Bloch-sphere rotation: the scope of the CNOT decomposer -/
def Stmt.isCtrlBSR : Stmt α → Bool
  | .gate (.ctrl _ (.bsr _ _ _ _)) _ => true
  | _ => false

omit [Scalar α] in
theorem Stmt.isCtrlBSR_iff (s : Stmt α) :
    s.isCtrlBSR = true ↔ ∃ c t ax an ph nm, s = .gate (.ctrl c (.bsr t ax an ph)) nm := by
  constructor
  · intro h
    match s, h with
    | .gate (.ctrl c (.bsr t ax an ph)) nm, _ => exact ⟨c, t, ax, an, ph, nm, rfl⟩
  · rintro ⟨c, t, ax, an, ph, nm, rfl⟩; rfl

omit [Scalar α] in
theorem Stmt.isBSR_iff (s : Stmt α) :
    s.isBSR = true ↔ ∃ q ax an ph nm, s = .gate (.bsr q ax an ph) nm := by
  constructor
  · intro h
    match s, h with
    | .gate (.bsr q ax an ph) nm, _ => exact ⟨q, ax, an, ph, nm, rfl⟩
  · rintro ⟨q, ax, an, ph, nm, rfl⟩; rfl

/-! ## 1. Circuit-level lifts of the three shape theorems -/

/-- **C10, McKay, whole circuit.**  After a successful `Circuit.decompose(McKayDecomposer())` every gate statement is
    either a statement of the input that is not a one-qubit rotation (a controlled gate or a matrix gate: outside
    McKay's scope, passed through unchanged), or a rotation named `Rz` or `X90` on the qubit `q` of a one-qubit
    rotation of the input.  (A rotation of the input that already carries the *name* `Rz` or `X90` is passed
    through as it is — the decomposer looks at the name only —; it falls under the second case.) -/
theorem decompose_mckay_circuit_shape {atol : α} {stmts out : List (Stmt α)}
    (h : decomposeBuiltin atol .mckay stmts = (out, none)) :
    ∀ s ∈ out, s.isGate = true →
      (s ∈ stmts ∧ s.isBSR = false) ∨
      ∃ q ax an ph nm, Stmt.gate (.bsr q ax an ph) nm ∈ stmts ∧ (StmtRot q "Rz" s ∨ StmtRot q "X90" s) := by
  intro s hs hg
  rcases (decomposeBuiltin_ok_mem h s).1 hs with ⟨hng, -⟩ | ⟨g, nm, repl, r, hm, hrun, hr, rfl⟩
  · rw [hg] at hng; cases hng
  · change mckayDecompose atol (g, nm) = .ok repl at hrun
    cases g with
    | bsr q ax an ph =>
      refine .inr ⟨q, ax, an, ph, nm, hm, ?_⟩
      rcases (mckay_shape hrun).1 r hr with h1 | h1
      · exact .inl (.of_isRot h1)
      · exact .inr (.of_isRot h1)
    | matrix m ops =>
      rw [mckay_passthrough atol _ nm (by intro _ _ _ _ h; cases h)] at hrun
      cases hrun
      simp only [List.mem_cons, List.not_mem_nil, or_false] at hr; subst hr
      exact .inl ⟨hm, rfl⟩
    | ctrl c g' =>
      rw [mckay_passthrough atol _ nm (by intro _ _ _ _ h; cases h)] at hrun
      cases hrun
      simp only [List.mem_cons, List.not_mem_nil, or_false] at hr; subst hr
      exact .inl ⟨hm, rfl⟩

/-- **C10, CNOT decomposer, whole circuit.**  After a successful `Circuit.decompose(CNOTDecomposer())` every gate
    statement is either a statement of the input that is not a singly-controlled rotation (passed through
    unchanged), or belongs to the decomposition of a controlled rotation `ControlledGate(c, BSR(t, …))` of the
    input: the generated `CNOT(c, t)` (with `c ≠ t`), `Ry`/`Rz` on the target `t`, or `Rz` on the control `c`. -/
theorem decompose_cnot_circuit_shape {atol : α} {stmts out : List (Stmt α)}
    (h : decomposeBuiltin atol .cnot stmts = (out, none)) :
    ∀ s ∈ out, s.isGate = true →
      (s ∈ stmts ∧ s.isCtrlBSR = false) ∨
      ∃ c t ax an ph nm, Stmt.gate (.ctrl c (.bsr t ax an ph)) nm ∈ stmts ∧
        (StmtCnot atol c t s ∨ StmtRot t "Ry" s ∨ StmtRot t "Rz" s ∨ StmtRot c "Rz" s) := by
  intro s hs hg
  rcases (decomposeBuiltin_ok_mem h s).1 hs with ⟨hng, -⟩ | ⟨g, nm, repl, r, hm, hrun, hr, rfl⟩
  · rw [hg] at hng; cases hng
  · change cnotDecompose atol (g, nm) = .ok repl at hrun
    by_cases hsc : ∃ c t ax an ph, g = .ctrl c (.bsr t ax an ph)
    · obtain ⟨c, t, ax, an, ph, rfl⟩ := hsc
      refine .inr ⟨c, t, ax, an, ph, nm, hm, ?_⟩
      obtain ⟨hct, hel⟩ := cnot_elems_exact hrun
      rcases hel r hr with ⟨axX, hX, rfl⟩ | h1 | h1 | h1
      · exact .inl ⟨hct, axX, hX, rfl⟩
      · exact .inr (.inl (.of_isRot h1))
      · exact .inr (.inr (.inl (.of_isRot h1)))
      · exact .inr (.inr (.inr (.of_isRot h1)))
    · rw [cnot_passthrough atol g nm (fun c t ax an ph hh => hsc ⟨c, t, ax, an, ph, hh⟩)] at hrun
      cases hrun
      simp only [List.mem_cons, List.not_mem_nil, or_false] at hr; subst hr
      refine .inl ⟨hm, ?_⟩
      cases hb : (GStmt.toStmt (g, nm)).isCtrlBSR with
      | false => rfl
      | true =>
        obtain ⟨c, t, ax, an, ph, nm', he⟩ := (Stmt.isCtrlBSR_iff _).1 hb
        simp only [GStmt.toStmt, Stmt.gate.injEq] at he
        exact absurd ⟨c, t, ax, an, ph, he.1⟩ hsc

/-- **C10, A-B-A decomposers, whole circuit** (all six kinds `k`).  After a successful
    `Circuit.decompose(<k>Decomposer())` every gate statement is either a statement of the input that is not a
    one-qubit rotation (passed through unchanged), or a *non-identity* rotation named `R_a` or `R_b`
    (`rotName k.ia`, `rotName k.ib`: the two axes of the kind) on the qubit of a one-qubit rotation of the input. -/
theorem aba_circuit_shape {atol : α} {k : ABAKind} {stmts out : List (Stmt α)}
    (h : decomposeBuiltin atol (.aba k) stmts = (out, none)) :
    ∀ s ∈ out, s.isGate = true →
      (s ∈ stmts ∧ s.isBSR = false) ∨
      ∃ q ax an ph nm, Stmt.gate (.bsr q ax an ph) nm ∈ stmts ∧
        (StmtRot q (rotName k.ia) s ∨ StmtRot q (rotName k.ib) s) ∧
        ∃ g' nm', s = .gate g' nm' ∧ g'.isIdentity atol = false := by
  intro s hs hg
  rcases (decomposeBuiltin_ok_mem h s).1 hs with ⟨hng, -⟩ | ⟨g, nm, repl, r, hm, hrun, hr, rfl⟩
  · rw [hg] at hng; cases hng
  · change abaDecompose atol k (g, nm) = .ok repl at hrun
    cases g with
    | bsr q ax an ph =>
      refine .inr ⟨q, ax, an, ph, nm, hm, ?_, r.1, r.2, rfl, no_identity_aba hrun r hr⟩
      rcases aba_all_rot hrun r hr with h1 | h1
      · exact .inl (.of_isRot h1)
      · exact .inr (.of_isRot h1)
    | matrix m ops =>
      rw [aba_passthrough atol k _ nm (by intro _ _ _ _ h; cases h)] at hrun
      cases hrun
      simp only [List.mem_cons, List.not_mem_nil, or_false] at hr; subst hr
      exact .inl ⟨hm, rfl⟩
    | ctrl c g' =>
      rw [aba_passthrough atol k _ nm (by intro _ _ _ _ h; cases h)] at hrun
      cases hrun
      simp only [List.mem_cons, List.not_mem_nil, or_false] at hr; subst hr
      exact .inl ⟨hm, rfl⟩

/-- members of a McKay decomposition in exact form: either the rotation already carries the name `Rz`/`X90` and is
    returned as it is, or every member is a freshly generated `Rz(q, θ)` or `X90(q)` -/
theorem mckay_elems_exact {atol : α} {q : Int} {ax : Vec3 α} {an ph : α} {nm : Option (Named α)}
    {out : List (GStmt α)} (h : mckayDecompose atol (.bsr q ax an ph, nm) = .ok out) :
    ((nm.map (·.name) = some "Rz" ∨ nm.map (·.name) = some "X90") ∧ out = [(.bsr q ax an ph, nm)]) ∨
    (¬ (nm.map (·.name) = some "Rz" ∨ nm.map (·.name) = some "X90") ∧ ∀ s ∈ out,
      (∃ axZ θ, mkAxis (axisLit 2 : Vec3 α) = .ok axZ ∧ s = rotStmt atol "Rz" q axZ θ) ∨
      (∃ axX, mkAxis (axisLit 0 : Vec3 α) = .ok axX ∧ s = x90Stmt atol q axX)) := by
  rcases mckay_form h with ⟨hP, rfl⟩ | ⟨hP, ⟨-, rfl⟩ | ⟨-, ⟨-, axZ, hZ, rfl⟩ | ⟨-, t1, t2, t3, axX, axZ, -, hX, hZ, h4 | h5⟩⟩⟩
  · exact .inl ⟨hP, rfl⟩
  · exact .inr ⟨hP, by simp⟩
  · refine .inr ⟨hP, fun s hs => .inl ⟨axZ, an * ax.2.2, hZ, ?_⟩⟩
    simpa using hs
  · obtain ⟨-, -, rfl⟩ := h4
    refine .inr ⟨hP, fun s hs => ?_⟩
    simp only [List.mem_append, List.mem_cons] at hs
    rcases hs with hs | rfl | hs
    · have := (mem_filterOutIdentities.1 hs).1
      simp only [List.mem_cons, List.not_mem_nil, or_false] at this
      exact .inl ⟨axZ, t1, hZ, this⟩
    · exact .inr ⟨axX, hX, rfl⟩
    · have := (mem_filterOutIdentities.1 hs).1
      simp only [List.mem_cons, List.not_mem_nil, or_false] at this
      exact .inl ⟨axZ, t3, hZ, this⟩
  · obtain ⟨-, rfl⟩ := h5
    refine .inr ⟨hP, fun s hs => ?_⟩
    rcases (mckayGeneric_shape atol q axX axZ (mckayAngles atol ax an)).1 s hs with rfl | ⟨θ, -, rfl, -⟩
    · exact .inr ⟨axX, hX, rfl⟩
    · exact .inl ⟨axZ, θ, hZ, rfl⟩

/-- **McKay, whole circuit, exact form.**  After a successful McKay pass every gate statement is (1) a multi-qubit
    gate statement of the input, unchanged; (2) a one-qubit rotation of the input that carries the name `Rz` or `X90`,
    unchanged (whatever its axis and angle are: the decomposer tests the name only); (3) a freshly generated
    `Rz(q, θ)`; or (4) a freshly generated `X90(q)`. -/
theorem decompose_mckay_circuit_form {atol : α} {stmts out : List (Stmt α)}
    (h : decomposeBuiltin atol .mckay stmts = (out, none)) :
    ∀ s ∈ out, s.isGate = true →
      (s ∈ stmts ∧ s.isBSR = false) ∨
      (s ∈ stmts ∧ s.isBSR = true ∧ (s.gname? = some "Rz" ∨ s.gname? = some "X90")) ∨
      (∃ q axZ θ, mkAxis (axisLit 2 : Vec3 α) = .ok axZ ∧ s = (rotStmt atol "Rz" q axZ θ).toStmt) ∨
      (∃ q axX, mkAxis (axisLit 0 : Vec3 α) = .ok axX ∧ s = (x90Stmt atol q axX).toStmt) := by
  intro s hs hg
  rcases (decomposeBuiltin_ok_mem h s).1 hs with ⟨hng, -⟩ | ⟨g, nm, repl, r, hm, hrun, hr, rfl⟩
  · rw [hg] at hng; cases hng
  · change mckayDecompose atol (g, nm) = .ok repl at hrun
    cases g with
    | bsr q ax an ph =>
      rcases mckay_elems_exact hrun with ⟨hP, rfl⟩ | ⟨-, hel⟩
      · simp only [List.mem_cons, List.not_mem_nil, or_false] at hr; subst hr
        exact .inr (.inl ⟨hm, rfl, hP⟩)
      · rcases hel r hr with ⟨axZ, θ, hZ, rfl⟩ | ⟨axX, hX, rfl⟩
        · exact .inr (.inr (.inl ⟨q, axZ, θ, hZ, rfl⟩))
        · exact .inr (.inr (.inr ⟨q, axX, hX, rfl⟩))
    | matrix m ops =>
      rw [mckay_passthrough atol _ nm (by intro _ _ _ _ h; cases h)] at hrun
      cases hrun
      simp only [List.mem_cons, List.not_mem_nil, or_false] at hr; subst hr
      exact .inl ⟨hm, rfl⟩
    | ctrl c g' =>
      rw [mckay_passthrough atol _ nm (by intro _ _ _ _ h; cases h)] at hrun
      cases hrun
      simp only [List.mem_cons, List.not_mem_nil, or_false] at hr; subst hr
      exact .inl ⟨hm, rfl⟩

/-! ### Out-of-scope statements are all kept, in order -/

omit [Scalar α] in
theorem filter_sublist_flatMap {β : Type} (P : β → Bool) (f : β → List β) (l : List β)
    (h : ∀ x ∈ l, P x = true → f x = [x]) : (l.filter P).Sublist (l.flatMap f) := by
  induction l with
  | nil => simp
  | cons x l ih =>
    have ih' := ih (fun y hy => h y (List.mem_cons_of_mem _ hy))
    rw [List.flatMap_cons]
    cases hp : P x with
    | true =>
      rw [List.filter_cons_of_pos hp, h x List.mem_cons_self hp]
      exact List.Sublist.cons_cons _ ih'
    | false =>
      rw [List.filter_cons_of_neg (by simp [hp])]
      exact List.Sublist.trans ih' (List.sublist_append_right _ _)

/-- **Pass-through, whole circuit, any built-in decomposer.**  Let `keep` select statements on which the decomposer
    is the identity (non-gates always are).  After a successful run the selected statements of the input are all
    present in the result, unchanged and in the same order (as a sublist). -/
theorem decomposeBuiltin_passthrough_sublist {atol : α} {d : Decomposer} {stmts out : List (Stmt α)}
    (keep : Stmt α → Bool)
    (hkeep : ∀ g nm, keep (.gate g nm) = true → d.run atol (g, nm) = .ok [(g, nm)])
    (h : decomposeBuiltin atol d stmts = (out, none)) : (stmts.filter keep).Sublist out := by
  obtain ⟨-, rfl⟩ := decomposeBuiltin_ok_form h
  apply filter_sublist_flatMap
  intro s _ hk
  cases s with
  | gate g nm => simp [replOf, hkeep g nm hk, GStmt.toStmt]
  | _ => rfl

/-- McKay: everything that is not a one-qubit rotation (multi-qubit gates, measurements, resets, comments) is kept,
    in order — and nothing else of that kind appears: the two filtered lists are *equal*. -/
theorem decompose_mckay_keeps_others {atol : α} {stmts out : List (Stmt α)}
    (h : decomposeBuiltin atol .mckay stmts = (out, none)) : out.filter notBSR = stmts.filter notBSR := by
  obtain ⟨hacc, rfl⟩ := decomposeBuiltin_ok_form h
  clear h
  induction stmts with
  | nil => rfl
  | cons s l ih =>
    have ih' := ih (fun g nm hm => hacc g nm (List.mem_cons_of_mem _ hm))
    rw [List.flatMap_cons, List.filter_append, ih']
    cases s with
    | gate g nm =>
      obtain ⟨repl, hrun, -⟩ := hacc g nm List.mem_cons_self
      simp only [replOf, hrun]
      change mckayDecompose atol (g, nm) = .ok repl at hrun
      cases g with
      | bsr q ax an ph =>
        have : (repl.map GStmt.toStmt).filter notBSR = [] := by
          rw [List.filter_eq_nil_iff]
          intro x hx
          obtain ⟨r, hr, rfl⟩ := List.mem_map.1 hx
          rcases (mckay_shape hrun).1 r hr with h1 | h1
          · simp [notBSR, (StmtRot.of_isRot h1).isBSR]
          · simp [notBSR, (StmtRot.of_isRot h1).isBSR]
        rw [this]; rfl
      | matrix m ops =>
        rw [mckay_passthrough atol _ nm (by intro _ _ _ _ h; cases h)] at hrun
        cases hrun; rfl
      | ctrl c g' =>
        rw [mckay_passthrough atol _ nm (by intro _ _ _ _ h; cases h)] at hrun
        cases hrun; rfl
    | _ => rfl

/-- CNOT decomposer: everything that is not a singly-controlled rotation is kept, in order -/
theorem decompose_cnot_keeps_others {atol : α} {stmts out : List (Stmt α)}
    (h : decomposeBuiltin atol .cnot stmts = (out, none)) :
    (stmts.filter fun s => !s.isCtrlBSR).Sublist out := by
  apply decomposeBuiltin_passthrough_sublist _ _ h
  intro g nm hk
  apply cnot_passthrough
  intro c t ax an ph hg
  subst hg
  simp [Stmt.isCtrlBSR] at hk

/-- A-B-A decomposers: everything that is not a one-qubit rotation is kept, in order -/
theorem decompose_aba_keeps_others {atol : α} {k : ABAKind} {stmts out : List (Stmt α)}
    (h : decomposeBuiltin atol (.aba k) stmts = (out, none)) : (stmts.filter notBSR).Sublist out := by
  apply decomposeBuiltin_passthrough_sublist _ _ h
  intro g nm hk
  apply aba_passthrough
  intro q ax an ph hg
  subst hg
  simp [notBSR, Stmt.isBSR] at hk

/-! ## 2. What the merge pass emits -/

/-- **merge_output_kinds.**  Every gate statement in the result of `merge_single_qubit_gates` (also in the state left
    behind when it raises) is either a one-qubit rotation (`.bsr`: a flushed accumulator, anonymous or carrying a
    name) or a multi-qubit gate statement of the input (controlled or matrix gate), unchanged.  Moreover
    (`merge_filter`) the multi-qubit gates — and all non-gates — are *all* kept, in order. -/
theorem merge_output_kinds (atol : α) (c : Circuit α) :
    (∀ s ∈ (merge atol c).1.stmts, s.isGate = true → s.isBSR = true ∨ (s ∈ c.stmts ∧ s.isBSR = false)) ∧
    (merge atol c).1.stmts.filter notBSR = c.stmts.filter notBSR := by
  refine ⟨fun s hs _ => ?_, merge_filter atol c⟩
  cases hb : s.isBSR with
  | true => exact .inl rfl
  | false =>
    rcases merge_emits_only_bsr atol c s hs with h | h
    · exact .inr ⟨h, rfl⟩
    · rw [hb] at h; cases h

/-! ## 3. The pipeline  CNOT-decompose → merge → McKay-decompose -/

/-- the scope of the pipeline theorem: a gate statement is a one-qubit rotation (any `Gate.bsr`, named or not) or a
    singly-controlled one-qubit rotation (`Gate.ctrl c (Gate.bsr …)`); non-gate statements are unrestricted -/
def Stmt.inScope : Stmt α → Bool
  | .gate (.bsr _ _ _ _) _ => true
  | .gate (.ctrl _ (.bsr _ _ _ _)) _ => true
  | .gate _ _ => false
  | _ => true

/-- every gate of the circuit is a one-qubit rotation or a singly-controlled one-qubit rotation -/
def InScope (c : Circuit α) : Prop := ∀ s ∈ c.stmts, s.inScope = true

omit [Scalar α] in
theorem Stmt.inScope_gate {s : Stmt α} (h : s.inScope = true) (hg : s.isGate = true) :
    s.isBSR = true ∨ s.isCtrlBSR = true := by
  match s, h, hg with
  | .gate (.bsr _ _ _ _) _, _, _ => exact .inl rfl
  | .gate (.ctrl _ (.bsr _ _ _ _)) _, _, _ => exact .inr rfl

theorem runPasses_cons_ok {atol : α} {p : Pass α} {ps : List (Pass α)} {c c' : Circuit α}
    (h : runPasses atol (p :: ps) c = (c', none)) :
    ∃ c1, p.run atol c = (c1, none) ∧ runPasses atol ps c1 = (c', none) := by
  cases hrun : p.run atol c with
  | mk c1 oe =>
    cases oe with
    | none => rw [runPasses_cons_none atol p ps c c1 hrun] at h; exact ⟨c1, rfl, h⟩
    | some e => rw [runPasses_cons_some atol p ps c c1 e hrun] at h; cases h

theorem Pass.run_decompose_ok {atol : α} {d : Decomposer} {c c1 : Circuit α}
    (h : (Pass.decompose d : Pass α).run atol c = (c1, none)) :
    decomposeBuiltin atol d c.stmts = (c1.stmts, none) ∧ c1.nQubits = c.nQubits ∧ c1.nBits = c.nBits := by
  simp only [Pass.run, Prod.mk.injEq] at h
  obtain ⟨rfl, h2⟩ := h
  exact ⟨Prod.ext rfl h2, rfl, rfl⟩

/-- the three passes, as `Circuit` method calls: `decompose(CNOTDecomposer())`, `merge_single_qubit_gates()`,
    `decompose(McKayDecomposer())` -/
def cnotMergeMckay : List (Pass α) := [.decompose .cnot, .merge, .decompose .mckay]

/-- the three intermediate facts behind the pipeline theorem, made explicit:
    the passes succeed one after the other on circuits `c₁` (after CNOT decomposition), `c₂` (after merging). -/
theorem cnotMergeMckay_stages {atol : α} {c c' : Circuit α}
    (h : runPasses atol cnotMergeMckay c = (c', none)) :
    ∃ c₁ c₂ : Circuit α,
      decomposeBuiltin atol .cnot c.stmts = (c₁.stmts, none) ∧
      merge atol c₁ = (c₂, none) ∧
      decomposeBuiltin atol .mckay c₂.stmts = (c'.stmts, none) := by
  obtain ⟨c₁, h1, h⟩ := runPasses_cons_ok h
  obtain ⟨c₂, h2, h⟩ := runPasses_cons_ok h
  obtain ⟨c₃, h3, h⟩ := runPasses_cons_ok h
  cases h
  exact ⟨c₁, c₂, (Pass.run_decompose_ok h1).1, h2, (Pass.run_decompose_ok h3).1⟩

/-- **C10, last clause: the pipeline CNOT-decompose → merge → McKay-decompose delivers the target gate set
    {CNOT, Rz, X90}.**  Let every gate statement of `c` be a one-qubit rotation or a singly-controlled one-qubit
    rotation (`InScope c`) and let the three passes complete without raising.  Then every gate statement `s` of the
    resulting circuit `c'` is one of
    * `CNOT(ctl, t)` exactly as the default-gate generator builds it (`StmtCnot`: `ctl ≠ t`, the gate is
      `ControlledGate(ctl, X(t))`, name `CNOT`, arguments `(ctl, t)`), where `(ctl, t)` are control and target of a
      controlled rotation of the *input* circuit;
    * a one-qubit rotation carrying the generator name `Rz`;
    * a one-qubit rotation carrying the generator name `X90`.
    For the last two the statement is about the *name* (which is what the exporters/back-ends look at and what the
    McKay decomposer itself tests): a rotation that leaves the merge pass with the name `Rz`/`X90` is passed
    through by McKay as it is (see `mckay_passthrough_native`), every other rotation is re-generated by `Rz(q, θ)` /
    `X90(q)`; see `cnot_merge_mckay_target_set_fine` for that distinction.
    Comments, measurements and resets of `c'` are those of `c`, unchanged and in the same order; the registers are
    unchanged. -/
theorem cnot_merge_mckay_target_set {atol : α} {c c' : Circuit α} (hc : InScope c)
    (h : runPasses atol cnotMergeMckay c = (c', none)) :
    (∀ s ∈ c'.stmts, s.isGate = true →
      (∃ ctl t, StmtCnot atol ctl t s ∧ ∃ ax an ph nm, Stmt.gate (.ctrl ctl (.bsr t ax an ph)) nm ∈ c.stmts) ∨
      (∃ q, StmtRot q "Rz" s) ∨ (∃ q, StmtRot q "X90" s)) ∧
    c'.stmts.filter notGate = c.stmts.filter notGate ∧
    c'.nQubits = c.nQubits ∧ c'.nBits = c.nBits := by
  obtain ⟨c₁, c₂, h1, h2, h3⟩ := cnotMergeMckay_stages h
  refine ⟨?_, ?_, ?_⟩
  · -- stage 1: rotations and generated CNOTs only
    have k1 : ∀ s ∈ c₁.stmts, s.isGate = true → s.isBSR = true ∨
        ∃ ctl t, StmtCnot atol ctl t s ∧ ∃ ax an ph nm, Stmt.gate (.ctrl ctl (.bsr t ax an ph)) nm ∈ c.stmts := by
      intro s hs hg
      rcases decompose_cnot_circuit_shape h1 s hs hg with ⟨hm, hn⟩ | ⟨ctl, t, ax, an, ph, nm, hm, hk⟩
      · rcases Stmt.inScope_gate (hc s hm) hg with hb | hb
        · exact .inl hb
        · rw [hn] at hb; cases hb
      · rcases hk with hk | hk | hk | hk
        · exact .inr ⟨ctl, t, hk, ax, an, ph, nm, hm⟩
        · exact .inl hk.isBSR
        · exact .inl hk.isBSR
        · exact .inl hk.isBSR
    -- stage 2
    have k2 : ∀ s ∈ c₂.stmts, s.isGate = true → s.isBSR = true ∨
        ∃ ctl t, StmtCnot atol ctl t s ∧ ∃ ax an ph nm, Stmt.gate (.ctrl ctl (.bsr t ax an ph)) nm ∈ c.stmts := by
      intro s hs hg
      have hm := (merge_output_kinds atol c₁).1 s (by rw [h2]; exact hs) hg
      rcases hm with hb | ⟨hm, -⟩
      · exact .inl hb
      · exact k1 s hm hg
    -- stage 3
    intro s hs hg
    rcases decompose_mckay_circuit_shape h3 s hs hg with ⟨hm, hn⟩ | ⟨q, ax, an, ph, nm, -, hk | hk⟩
    · rcases k2 s hm hg with hb | hk
      · rw [hn] at hb; cases hb
      · exact .inl hk
    · exact .inr (.inl ⟨q, hk⟩)
    · exact .inr (.inr ⟨q, hk⟩)
  · have := runPasses_nongates atol cnotMergeMckay c (by
      intro p hp m
      simp only [cnotMergeMckay, List.mem_cons, List.not_mem_nil, or_false] at hp
      rcases hp with rfl | rfl | rfl <;> intro hh <;> cases hh)
    rwa [h] at this
  · obtain ⟨c₁', g1, h⟩ := runPasses_cons_ok h
    obtain ⟨c₂', g2, h⟩ := runPasses_cons_ok h
    obtain ⟨c₃', g3, h⟩ := runPasses_cons_ok h
    cases h
    obtain ⟨-, a1, b1⟩ := Pass.run_decompose_ok g1
    obtain ⟨-, a3, b3⟩ := Pass.run_decompose_ok g3
    have hm := merge_registers atol c₁'
    have g2' : merge atol c₁' = (c₂', none) := g2
    rw [g2'] at hm
    exact ⟨a3.trans (hm.1.trans a1), b3.trans (hm.2.trans b1)⟩

/-- **The pipeline on an arbitrary circuit** (no `InScope` hypothesis): if the three passes complete, every gate statement
    of the result is a generated `CNOT`, a rotation named `Rz`, a rotation named `X90`, or a gate statement of the
    input that is outside the scope of all three passes — a matrix gate or a controlled gate whose target is not a
    rotation (e.g. two or more controls) — unchanged. -/
theorem cnot_merge_mckay_general {atol : α} {c c' : Circuit α}
    (h : runPasses atol cnotMergeMckay c = (c', none)) :
    ∀ s ∈ c'.stmts, s.isGate = true →
      (∃ ctl t, StmtCnot atol ctl t s ∧ ∃ ax an ph nm, Stmt.gate (.ctrl ctl (.bsr t ax an ph)) nm ∈ c.stmts) ∨
      (∃ q, StmtRot q "Rz" s) ∨ (∃ q, StmtRot q "X90" s) ∨
      (s ∈ c.stmts ∧ s.inScope = false) := by
  obtain ⟨c₁, c₂, h1, h2, h3⟩ := cnotMergeMckay_stages h
  have k1 : ∀ s ∈ c₁.stmts, s.isGate = true → s.isBSR = true ∨
      (∃ ctl t, StmtCnot atol ctl t s ∧ ∃ ax an ph nm, Stmt.gate (.ctrl ctl (.bsr t ax an ph)) nm ∈ c.stmts) ∨
      (s ∈ c.stmts ∧ s.inScope = false) := by
    intro s hs hg
    rcases decompose_cnot_circuit_shape h1 s hs hg with ⟨hm, hn⟩ | ⟨ctl, t, ax, an, ph, nm, hm, hk⟩
    · cases hsc : s.inScope with
      | false => exact .inr (.inr ⟨hm, rfl⟩)
      | true =>
        rcases Stmt.inScope_gate hsc hg with hb | hb
        · exact .inl hb
        · rw [hn] at hb; cases hb
    · rcases hk with hk | hk | hk | hk
      · exact .inr (.inl ⟨ctl, t, hk, ax, an, ph, nm, hm⟩)
      · exact .inl hk.isBSR
      · exact .inl hk.isBSR
      · exact .inl hk.isBSR
  intro s hs hg
  rcases decompose_mckay_circuit_shape h3 s hs hg with ⟨hm, hn⟩ | ⟨q, ax, an, ph, nm, -, hk | hk⟩
  · have hm1 : s ∈ c₁.stmts := by
      rcases (merge_output_kinds atol c₁).1 s (by rw [h2]; exact hm) hg with hb | ⟨hm1, -⟩
      · rw [hn] at hb; cases hb
      · exact hm1
    rcases k1 s hm1 hg with hb | hk | hk
    · rw [hn] at hb; cases hb
    · exact .inl hk
    · exact .inr (.inr (.inr hk))
  · exact .inr (.inl ⟨q, hk⟩)
  · exact .inr (.inr (.inl ⟨q, hk⟩))

/-- **The pipeline, fine form.**  Same hypotheses; `c₂` is the circuit that leaves the merge pass.  Every gate
    statement of the result is (1) a generated `CNOT(ctl, t)` for a controlled rotation `(ctl, t)` of the input,
    (2) a freshly generated `Rz(q, θ)` (axis: the normalised literal `(0,0,1)`, angle `normalize θ`, phase
    `normalize 0`, arguments `(q, θ)`), (3) a freshly generated `X90(q)`, or (4) a rotation of `c₂` that carries the
    name `Rz` or `X90` and was therefore left alone by the McKay decomposer.  Case (4) happens: the merger keeps the
    name of a rotation that it composes with (what tests as) an identity, and re-names the final accumulators through
    `try_name_anonymous_bloch` (which knows `X90`). -/
theorem cnot_merge_mckay_target_set_fine {atol : α} {c c' : Circuit α} (hc : InScope c)
    (h : runPasses atol cnotMergeMckay c = (c', none)) :
    ∃ c₁ c₂ : Circuit α,
      decomposeBuiltin atol .cnot c.stmts = (c₁.stmts, none) ∧ merge atol c₁ = (c₂, none) ∧
      decomposeBuiltin atol .mckay c₂.stmts = (c'.stmts, none) ∧
      ∀ s ∈ c'.stmts, s.isGate = true →
        (∃ ctl t, StmtCnot atol ctl t s ∧ ∃ ax an ph nm, Stmt.gate (.ctrl ctl (.bsr t ax an ph)) nm ∈ c.stmts) ∨
        (∃ q axZ θ, mkAxis (axisLit 2 : Vec3 α) = .ok axZ ∧ s = (rotStmt atol "Rz" q axZ θ).toStmt) ∨
        (∃ q axX, mkAxis (axisLit 0 : Vec3 α) = .ok axX ∧ s = (x90Stmt atol q axX).toStmt) ∨
        (s ∈ c₂.stmts ∧ s.isBSR = true ∧ (s.gname? = some "Rz" ∨ s.gname? = some "X90")) := by
  obtain ⟨c₁, c₂, h1, h2, h3⟩ := cnotMergeMckay_stages h
  refine ⟨c₁, c₂, h1, h2, h3, fun s hs hg => ?_⟩
  rcases decompose_mckay_circuit_form h3 s hs hg with ⟨hm, hn⟩ | h4 | h5 | h6
  · -- a multi-qubit gate of `c₂`: it comes from `c₁`, where it is a generated CNOT
    left
    have hm1 : s ∈ c₁.stmts := by
      rcases (merge_output_kinds atol c₁).1 s (by rw [h2]; exact hm) hg with hb | ⟨hm1, -⟩
      · rw [hn] at hb; cases hb
      · exact hm1
    rcases decompose_cnot_circuit_shape h1 s hm1 hg with ⟨hm0, hn0⟩ | ⟨ctl, t, ax, an, ph, nm, hm0, hk⟩
    · rcases Stmt.inScope_gate (hc s hm0) hg with hb | hb
      · rw [hn] at hb; cases hb
      · rw [hn0] at hb; cases hb
    · rcases hk with hk | hk | hk | hk
      · exact ⟨ctl, t, hk, ax, an, ph, nm, hm0⟩
      · rw [hk.isBSR] at hn; cases hn
      · rw [hk.isBSR] at hn; cases hn
      · rw [hk.isBSR] at hn; cases hn
  · exact .inr (.inr (.inr h4))
  · exact .inr (.inl h5)
  · exact .inr (.inr (.inl h6))

/-- a multi-qubit gate statement (controlled or matrix gate) -/
def Stmt.isMulti (s : Stmt α) : Bool := s.isGate && !s.isBSR

theorem cnot_repl_multi_count {atol : α} {c t : Int} {tax : Vec3 α} {tan tph : α} {nm : Option (Named α)}
    {out : List (GStmt α)} (h : cnotDecompose atol (.ctrl c (.bsr t tax tan tph), nm) = .ok out) :
    (out.map GStmt.toStmt).countP Stmt.isMulti ≤ 2 := by
  obtain ⟨-, ⟨pre, rzc, hsub, hrz, hpre, -, hcnt⟩, -⟩ := cnot_shape h
  rw [List.countP_map]
  refine Nat.le_trans hsub.countP_le ?_
  rw [List.countP_append]
  have h0 : List.countP (Stmt.isMulti ∘ GStmt.toStmt) [rzc] = 0 := by
    simp [Stmt.isMulti, (StmtRot.of_isRot hrz).isBSR]
  rw [h0, Nat.add_zero]
  refine Nat.le_trans (List.countP_mono_left (q := fun s => s.name? == some "CNOT") ?_) ?_
  · intro x hx hm
    rcases hpre x hx with hk | hk | hk
    · simp [hk.name?]
    · simp [Stmt.isMulti, (StmtRot.of_isRot hk).isBSR] at hm
    · simp [Stmt.isMulti, (StmtRot.of_isRot hk).isBSR] at hm
  · rw [List.countP_eq_length_filter]; exact hcnt

/-- CNOT pass on an in-scope circuit: at most two multi-qubit gates per controlled rotation of the input -/
theorem decompose_cnot_multi_count {atol : α} {stmts out : List (Stmt α)}
    (hc : ∀ s ∈ stmts, s.inScope = true)
    (h : decomposeBuiltin atol .cnot stmts = (out, none)) :
    out.countP Stmt.isMulti ≤ 2 * stmts.countP Stmt.isCtrlBSR := by
  obtain ⟨hacc, rfl⟩ := decomposeBuiltin_ok_form h
  clear h
  induction stmts with
  | nil => simp
  | cons s l ih =>
    have ih' := ih (fun x hx => hc x (List.mem_cons_of_mem _ hx))
      (fun g nm hm => hacc g nm (List.mem_cons_of_mem _ hm))
    rw [List.flatMap_cons, List.countP_append, List.countP_cons]
    generalize List.countP Stmt.isMulti (List.flatMap _ l) = T at ih' ⊢
    have hs := hc s List.mem_cons_self
    cases s with
    | gate g nm =>
      obtain ⟨repl, hrun, -⟩ := hacc g nm List.mem_cons_self
      simp only [replOf, hrun]
      change cnotDecompose atol (g, nm) = .ok repl at hrun
      rcases Stmt.inScope_gate hs rfl with hb | hb
      · obtain ⟨q, ax, an, ph, nm', he⟩ := (Stmt.isBSR_iff _).1 hb
        cases he
        cases hrun
        simp only [List.map_cons, List.map_nil, GStmt.toStmt, List.countP_cons, List.countP_nil, Stmt.isMulti,
          Stmt.isGate, Stmt.isBSR, Stmt.isCtrlBSR]
        simp only [Bool.not_true, Bool.and_false, Bool.false_eq_true, if_false, Nat.zero_add, Nat.add_zero]
        exact ih'
      · obtain ⟨c, t, ax, an, ph, nm', he⟩ := (Stmt.isCtrlBSR_iff _).1 hb
        cases he
        have := cnot_repl_multi_count hrun
        simp only [Stmt.isCtrlBSR, if_true]
        omega
    | measure q b ax nm' =>
      simp only [List.countP_cons, List.countP_nil, Stmt.isMulti, Stmt.isGate, Stmt.isCtrlBSR]
      simpa using ih'
    | reset q nm' =>
      simp only [List.countP_cons, List.countP_nil, Stmt.isMulti, Stmt.isGate, Stmt.isCtrlBSR]
      simpa using ih'
    | comment cm =>
      simp only [List.countP_cons, List.countP_nil, Stmt.isMulti, Stmt.isGate, Stmt.isCtrlBSR]
      simpa using ih'

omit [Scalar α] in
theorem countP_isMulti_eq_of_filter {l l' : List (Stmt α)} (h : l.filter notBSR = l'.filter notBSR) :
    l.countP Stmt.isMulti = l'.countP Stmt.isMulti := by
  have key : ∀ k : List (Stmt α), k.countP Stmt.isMulti = (k.filter notBSR).countP Stmt.isGate := by
    intro k
    rw [List.countP_filter]
    apply List.countP_congr
    intro x _
    simp [Stmt.isMulti, notBSR]
  rw [key l, key l', h]

/-- **CNOT budget of the pipeline**: the result contains at most two multi-qubit gates (all of them `CNOT`s, by
    `cnot_merge_mckay_target_set`) per controlled rotation of the input. -/
theorem cnot_merge_mckay_cnot_count {atol : α} {c c' : Circuit α} (hc : InScope c)
    (h : runPasses atol cnotMergeMckay c = (c', none)) :
    c'.stmts.countP Stmt.isMulti ≤ 2 * c.stmts.countP Stmt.isCtrlBSR := by
  obtain ⟨c₁, c₂, h1, h2, h3⟩ := cnotMergeMckay_stages h
  have e3 := countP_isMulti_eq_of_filter (decompose_mckay_keeps_others h3)
  have e2 : c₂.stmts.countP Stmt.isMulti = c₁.stmts.countP Stmt.isMulti := by
    have := merge_filter atol c₁
    rw [h2] at this
    exact countP_isMulti_eq_of_filter this
  rw [e3, e2]
  exact decompose_cnot_multi_count hc h1

/-- name-level corollary: after the pipeline every gate statement is *named* `CNOT`, `Rz` or `X90` -/
theorem cnot_merge_mckay_names {atol : α} {c c' : Circuit α} (hc : InScope c)
    (h : runPasses atol cnotMergeMckay c = (c', none)) :
    ∀ s ∈ c'.stmts, s.isGate = true →
      s.gname? = some "CNOT" ∨ s.gname? = some "Rz" ∨ s.gname? = some "X90" := by
  intro s hs hg
  rcases (cnot_merge_mckay_target_set hc h).1 s hs hg with ⟨_, _, hk, -⟩ | ⟨_, hk⟩ | ⟨_, hk⟩
  · exact .inl hk.gname?
  · exact .inr (.inl hk.gname?)
  · exact .inr (.inr hk.gname?)

/-- with a well-formed input the result is well-formed too (all operands in range, none repeated): instance of
    `runPasses_wf_builtin` -/
theorem cnot_merge_mckay_wf {atol : α} {c c' : Circuit α} (hwf : c.wf = true)
    (h : runPasses atol cnotMergeMckay c = (c', none)) : c'.wf = true := by
  have := (runPasses_wf_builtin atol cnotMergeMckay c (by
    intro name f hp
    simp only [cnotMergeMckay, List.mem_cons, List.not_mem_nil, or_false] at hp
    rcases hp with hh | hh | hh <;> cases hh) hwf).1
  rwa [h] at this

/-! ## 4. Generalisation: anything, then McKay -/

/-- **any_then_mckay (general form).**  Whatever property `P` the multi-qubit gate statements of a circuit have, after a
    successful McKay pass every gate statement is a rotation named `Rz`, a rotation named `X90`, or one of the
    original multi-qubit gate statements (which has `P`). -/
theorem mckay_circuit_preserves {atol : α} {stmts out : List (Stmt α)} (P : Stmt α → Prop)
    (hP : ∀ s ∈ stmts, s.isGate = true → s.isBSR = false → P s)
    (h : decomposeBuiltin atol .mckay stmts = (out, none)) :
    ∀ s ∈ out, s.isGate = true → (s ∈ stmts ∧ s.isBSR = false ∧ P s) ∨ (∃ q, StmtRot q "Rz" s) ∨ (∃ q, StmtRot q "X90" s) := by
  intro s hs hg
  rcases decompose_mckay_circuit_shape h s hs hg with ⟨hm, hn⟩ | ⟨q, ax, an, ph, nm, -, hk | hk⟩
  · exact .inl ⟨hm, hn, hP s hm hg hn⟩
  · exact .inr (.inl ⟨q, hk⟩)
  · exact .inr (.inr ⟨q, hk⟩)

/-- **any_then_mckay.**  For any circuit whose multi-qubit gates (controlled and matrix gates) are all named `CNOT`,
    after a successful McKay pass all gate statements are named `CNOT`, `Rz` or `X90`. -/
theorem any_then_mckay {atol : α} {c c' : Circuit α}
    (hc : ∀ s ∈ c.stmts, s.isGate = true → s.isBSR = false → s.gname? = some "CNOT")
    (h : (Pass.decompose .mckay : Pass α).run atol c = (c', none)) :
    ∀ s ∈ c'.stmts, s.isGate = true →
      s.gname? = some "CNOT" ∨ s.gname? = some "Rz" ∨ s.gname? = some "X90" := by
  intro s hs hg
  rcases mckay_circuit_preserves (fun s => s.gname? = some "CNOT") hc (Pass.run_decompose_ok h).1 s hs hg with
    ⟨-, -, hk⟩ | ⟨_, hk⟩ | ⟨_, hk⟩
  · exact .inl hk
  · exact .inr (.inl hk.gname?)
  · exact .inr (.inr hk.gname?)

/-! ## 5. A kernel-evaluable form of `named` (tool for the examples)

`named` goes through `GExpr.eval` / `evalNamed`, a mutual definition compiled by well-founded recursion, which the
kernel cannot unfold; hence no closed term that mentions `named` (every decomposer, `defaultI`, `tryName`) can be
evaluated by `decide`.  `namedS` is the same function by structural recursion (on the fuel, then on the expression);
`named_eq_namedS` holds for every scalar type.  Recipe: `delta` the model functions until `named` is visible,
`rw [named_eq_namedS]`, `decide +kernel`. -/

/-- `GExpr.eval` with the callee for `.call` passed as a parameter: structural recursion on the expression -/
def evalWith (call : String → List (Arg α) → Except Err (Gate α)) (atol : α) (env : Env α) :
    List (String × α) → GExpr → Except Err (Gate α)
  | loc, .bsr q ax ay az angle phase => do
      let qi ← envQubit env q
      let an ← angle.eval atol env loc
      let ph ← phase.eval atol env loc
      mkBSR atol qi (intToScalar ax, intToScalar ay, intToScalar az) an ph
  | _, .identity q => do
      let qi ← envQubit env q
      mkBSR atol qi (one, zero, zero) zero zero
  | loc, .ctrl c body => do
      let ci ← envQubit env c
      let g ← evalWith call atol env loc body
      mkCtrl ci g
  | _, .call name args => do
      let as ← args.mapM fun a => match env.find? a with
        | some v => pure v
        | none => throw Err.key
      call name as
  | loc, .letS n v body => do
      let x ← v.eval atol env loc
      evalWith call atol env ((n, x) :: loc) body

/-- `evalNamed` by structural recursion on the fuel -/
def evalNamedS (atol : α) (table : List GateDef) : Nat → String → List (Arg α) → Except Err (Gate α)
  | fuel, name, args =>
    match table.find? (·.name == name) with
    | none => .error .value
    | some d =>
      if args.length > d.params.length then .error .type
      else do
        let env ← bindArgs d.params args
        evalWith (match fuel with
          | 0 => fun _ _ => throw .value
          | f + 1 => evalNamedS atol table f) atol env [] d.body

def callAt (atol : α) (table : List GateDef) : Nat → String → List (Arg α) → Except Err (Gate α)
  | 0 => fun _ _ => throw .value
  | f + 1 => evalNamedS atol table f

theorem eval_eq_evalWith (atol : α) (table : List GateDef) (fuel : Nat)
    (ih : ∀ f, fuel = f + 1 → ∀ name args, evalNamed atol table f name args = evalNamedS atol table f name args)
    (env : Env α) (loc : List (String × α)) (e : GExpr) :
    GExpr.eval atol table fuel env loc e = evalWith (callAt atol table fuel) atol env loc e := by
  induction e generalizing loc with
  | bsr q ax ay az angle phase => simp only [GExpr.eval, evalWith]
  | identity q => simp only [GExpr.eval, evalWith]
  | ctrl c body ihb => simp only [GExpr.eval, evalWith, ihb]
  | call name args =>
    simp only [GExpr.eval, evalWith]
    cases fuel with
    | zero => rfl
    | succ f => simp only [callAt, ih f rfl]; rfl
  | letS n v body ihb => simp only [GExpr.eval, evalWith, ihb]

theorem evalNamed_eq_evalNamedS (atol : α) (table : List GateDef) (fuel : Nat) (name : String) (args : List (Arg α)) :
    evalNamed atol table fuel name args = evalNamedS atol table fuel name args := by
  induction fuel generalizing name args with
  | zero =>
    rw [evalNamed, evalNamedS]
    simp only [eval_eq_evalWith atol table 0 (by intro f h; cases h), callAt]; rfl
  | succ f ih =>
    rw [evalNamed, evalNamedS]
    simp only [eval_eq_evalWith atol table (f + 1) (by intro f' h; cases h; exact ih), callAt]; rfl

/-- `named` (i.e. `callGate` on the generated table) with the structural evaluator -/
def namedS (atol : α) (name : String) (args : List (Arg α)) : Except Err (GStmt α) :=
  match Gen.gateTable.find? (·.name == name) with
  | none => .error .value
  | some d =>
      if args.length > d.params.length then .error .type
      else do
        let env ← bindArgs d.params args
        let g ← evalWith (callAt atol Gen.gateTable 8) atol env [] d.body
        pure (g, some ⟨name, env.map (·.2)⟩)

theorem named_eq_namedS : @named α _ = namedS := by
  funext atol name args
  unfold named namedS callGate
  simp only [eval_eq_evalWith atol Gen.gateTable 8 (fun f _ => evalNamed_eq_evalNamedS atol Gen.gateTable f)]
  cases Gen.gateTable.find? (·.name == name) with
  | none => rfl
  | some d =>
    simp only []
    split
    · rfl
    · cases bindArgs d.params args with
      | error e => rfl
      | ok env =>
        simp only [bind, Except.bind, pure, Except.pure]
        cases evalWith (callAt atol Gen.gateTable 8) atol env [] d.body <;> rfl

end OSq

/-! ## Non-vacuity -/
namespace OSq.PipelineShapeExamples
open OSq

/-- `InScope` for a circuit over an arbitrary scalar: a rotation, a controlled rotation, a measurement, a comment -/
example {α : Type} [Scalar α] (ax : Vec3 α) (θ φ : α) :
    InScope (⟨2, 1, [.gate (.bsr 0 ax θ φ) none, .comment "x", .gate (.ctrl 0 (.bsr 1 ax θ φ)) none,
      .measure 1 0 ax none]⟩ : Circuit α) := by
  intro s hs
  simp only [List.mem_cons, List.not_mem_nil, or_false] at hs
  rcases hs with rfl | rfl | rfl | rfl <;> rfl

/-- a doubly-controlled rotation and a matrix gate are *not* in scope -/
example {α : Type} [Scalar α] (ax : Vec3 α) (θ φ : α) :
    (Stmt.gate (.ctrl 2 (.ctrl 1 (.bsr 0 ax θ φ))) none).inScope = false := rfl
example {α : Type} [Scalar α] (m : Mat α) : (Stmt.gate (.matrix m [0, 1]) none).inScope = false := rfl

/-- A toy scalar on which the model can be *run* inside the kernel: integers, `π = 3`, constant `sin = cos = sqrt = 1`
    (so that `|z| = 1` for every complex number and, at `atol = 1`, every replacement check of
    `general_decomposer` passes).  It satisfies no law; no theorem depends on it.  It only shows that the hypotheses
    of the theorems above are simultaneously satisfiable on a circuit in which every branch of interest is taken. -/
structure T2 where
  v : Int
deriving DecidableEq, Inhabited

instance : Scalar T2 where
  add a b := ⟨a.v + b.v⟩
  sub a b := ⟨a.v - b.v⟩
  mul a b := ⟨a.v * b.v⟩
  div a b := ⟨a.v / b.v⟩
  neg a := ⟨-a.v⟩
  lt a b := a.v < b.v
  le a b := a.v ≤ b.v
  natCast n := ⟨n⟩
  pi := ⟨3⟩
  sin _ := ⟨1⟩
  cos _ := ⟨1⟩
  tan := id
  acos := id
  sqrt _ := ⟨1⟩
  atan2 a _ := a
  floor := id
  abs a := ⟨a.v.natAbs⟩
  copysign a _ := a
  finite _ := true
  ofScientific m s e := ⟨if s then 0 else m * 10 ^ e⟩
  decLt a b := inferInstanceAs (Decidable (a.v < b.v))
  decLe a b := inferInstanceAs (Decidable (a.v ≤ b.v))
  decEqB a b := a.v == b.v

/-- `Y90 q0; /* c */; controlled rotation q0 → q1; measure q1; an anonymous rotation on q0` -/
def exCirc : Circuit T2 :=
  { nQubits := 2, nBits := 2,
    stmts := [.gate (.bsr 0 (⟨0⟩, ⟨1⟩, ⟨0⟩) ⟨2⟩ ⟨0⟩) (some ⟨"Y90", [.qubit 0]⟩),
              .comment "c",
              .gate (.ctrl 0 (.bsr 1 (⟨0⟩, ⟨1⟩, ⟨0⟩) ⟨2⟩ ⟨1⟩)) none,
              .measure 1 1 (⟨0⟩, ⟨0⟩, ⟨1⟩) none,
              .gate (.bsr 0 (⟨0⟩, ⟨0⟩, ⟨1⟩) ⟨2⟩ ⟨0⟩) none] }

theorem exCirc_inScope : InScope exCirc := by
  intro s hs
  simp only [exCirc, List.mem_cons, List.not_mem_nil, or_false] at hs
  rcases hs with rfl | rfl | rfl | rfl | rfl <;> rfl

/-- the three passes complete on `exCirc` (evaluated in the kernel) -/
theorem exCirc_run : (runPasses (⟨1⟩ : T2) cnotMergeMckay exCirc).2 = none := by
  repeat (delta runPasses cnotMergeMckay Pass.run decomposeBuiltin decompose decomposeLoop Decomposer.run cnotDecompose mckayDecompose abaDecompose merge mergeLoop flushOps defaultI tryName tryName.go runPasses._f decomposeLoop._f mergeLoop._f flushOps._f tryName.go._f)
  rw [named_eq_namedS]
  decide +kernel

/-- … and the names in the result: the `Y90` became `Rz·X90·X90·Rz`, the controlled rotation two `CNOT`s with
    `Rz`/`X90` in between; the fifth gate is an `Rz` that left the *merge* pass still carrying its name and was passed
    through by McKay untouched (case (4) of `cnot_merge_mckay_target_set_fine`). -/
theorem exCirc_names : (runPasses (⟨1⟩ : T2) cnotMergeMckay exCirc).1.stmts.map Stmt.gname? =
    [none, some "Rz", some "X90", some "X90", some "Rz", some "Rz", some "CNOT", some "Rz", some "X90", some "X90",
      some "Rz", some "CNOT", some "X90", some "X90", some "Rz", none] := by
  repeat (delta runPasses cnotMergeMckay Pass.run decomposeBuiltin decompose decomposeLoop Decomposer.run cnotDecompose mckayDecompose abaDecompose merge mergeLoop flushOps defaultI tryName tryName.go runPasses._f decomposeLoop._f mergeLoop._f flushOps._f tryName.go._f)
  rw [named_eq_namedS]
  decide +kernel

theorem exCirc_run_eq : runPasses (⟨1⟩ : T2) cnotMergeMckay exCirc =
    ((runPasses (⟨1⟩ : T2) cnotMergeMckay exCirc).1, none) := Prod.ext rfl exCirc_run

/-- the pipeline theorem, its name-level corollary and the CNOT budget instantiated on `exCirc` -/
example : ∀ s ∈ (runPasses (⟨1⟩ : T2) cnotMergeMckay exCirc).1.stmts, s.isGate = true →
    (∃ ctl t, StmtCnot (⟨1⟩ : T2) ctl t s ∧ ∃ ax an ph nm, Stmt.gate (.ctrl ctl (.bsr t ax an ph)) nm ∈ exCirc.stmts) ∨
    (∃ q, StmtRot q "Rz" s) ∨ (∃ q, StmtRot q "X90" s) :=
  (cnot_merge_mckay_target_set exCirc_inScope exCirc_run_eq).1
example : ∀ s ∈ (runPasses (⟨1⟩ : T2) cnotMergeMckay exCirc).1.stmts, s.isGate = true →
    s.gname? = some "CNOT" ∨ s.gname? = some "Rz" ∨ s.gname? = some "X90" :=
  cnot_merge_mckay_names exCirc_inScope exCirc_run_eq
example : (runPasses (⟨1⟩ : T2) cnotMergeMckay exCirc).1.stmts.countP Stmt.isMulti ≤ 2 :=
  cnot_merge_mckay_cnot_count exCirc_inScope exCirc_run_eq
example : (runPasses (⟨1⟩ : T2) cnotMergeMckay exCirc).1.stmts.filter notGate = [.comment "c", .measure 1 1 (⟨0⟩, ⟨0⟩, ⟨1⟩) none] :=
  (cnot_merge_mckay_target_set exCirc_inScope exCirc_run_eq).2.1

/-- premises of `any_then_mckay`: a rotation, a gate named `CNOT`, a measurement; the McKay pass completes -/
def mcCirc : Circuit T2 :=
  { nQubits := 2, nBits := 1,
    stmts := [.gate (.bsr 0 (⟨1⟩, ⟨0⟩, ⟨0⟩) ⟨2⟩ ⟨0⟩) none,
              .gate (.ctrl 0 (.bsr 1 (⟨1⟩, ⟨0⟩, ⟨0⟩) ⟨3⟩ ⟨1⟩)) (some ⟨"CNOT", [.qubit 0, .qubit 1]⟩),
              .measure 1 0 (⟨0⟩, ⟨0⟩, ⟨1⟩) none] }

theorem mcCirc_run : ((Pass.decompose .mckay : Pass T2).run ⟨1⟩ mcCirc).2 = none := by
  repeat (delta Pass.run decomposeBuiltin decompose decomposeLoop Decomposer.run mckayDecompose abaDecompose decomposeLoop._f)
  rw [named_eq_namedS]
  decide +kernel

theorem mcCirc_names : ((Pass.decompose .mckay : Pass T2).run ⟨1⟩ mcCirc).1.stmts.map Stmt.gname? =
    [some "X90", some "X90", some "Rz", some "CNOT", none] := by
  repeat (delta Pass.run decomposeBuiltin decompose decomposeLoop Decomposer.run mckayDecompose abaDecompose decomposeLoop._f)
  rw [named_eq_namedS]
  decide +kernel

example : ∀ s ∈ ((Pass.decompose .mckay : Pass T2).run ⟨1⟩ mcCirc).1.stmts, s.isGate = true →
    s.gname? = some "CNOT" ∨ s.gname? = some "Rz" ∨ s.gname? = some "X90" := by
  refine any_then_mckay ?_ (Prod.ext rfl mcCirc_run)
  intro s hs hg hb
  simp only [mcCirc, List.mem_cons, List.not_mem_nil, or_false] at hs
  rcases hs with rfl | rfl | rfl
  · cases hb
  · rfl
  · cases hg

end OSq.PipelineShapeExamples

#print axioms OSq.decomposeBuiltin_ok_form
#print axioms OSq.decomposeBuiltin_ok_mem
#print axioms OSq.decompose_mckay_circuit_shape
#print axioms OSq.decompose_mckay_circuit_form
#print axioms OSq.decompose_cnot_circuit_shape
#print axioms OSq.aba_circuit_shape
#print axioms OSq.decomposeBuiltin_passthrough_sublist
#print axioms OSq.decompose_mckay_keeps_others
#print axioms OSq.decompose_cnot_keeps_others
#print axioms OSq.decompose_aba_keeps_others
#print axioms OSq.merge_output_kinds
#print axioms OSq.cnotMergeMckay_stages
#print axioms OSq.cnot_merge_mckay_target_set
#print axioms OSq.cnot_merge_mckay_target_set_fine
#print axioms OSq.cnot_merge_mckay_general
#print axioms OSq.cnot_merge_mckay_names
#print axioms OSq.cnot_merge_mckay_cnot_count
#print axioms OSq.cnot_merge_mckay_wf
#print axioms OSq.mckay_circuit_preserves
#print axioms OSq.any_then_mckay
#print axioms OSq.named_eq_namedS
#print axioms OSq.PipelineShapeExamples.exCirc_run
#print axioms OSq.PipelineShapeExamples.exCirc_names
#print axioms OSq.PipelineShapeExamples.mcCirc_run
