import OSq.Proofs.Shape
import OSq.Proofs.Construct
/-
  OSq.Proofs.ShapeReal — the part of property C10 ("no identity gates are emitted") that needs real analysis:
  at `α = ℝ` the McKay decomposer emits no identity.  (`OSq.Proofs.Shape.no_identity_mckay` is the structural part,
  valid for every scalar; the A-B-A and CNOT decomposers end with `filter_out_identities`, so `no_identity_aba`,
  `no_identity_cnot` there need no analysis.)

  * `normalizeAngle_not_small`   `atol ≤ |x| ≤ π + atol`, `atol < π/2` ⇒ `¬ |normalizeAngle atol x| < atol`
  * `x90_not_identity`           `X90(q)` is not an identity (`atol ≤ π/2`)
  * `rz_fixed_not_identity`      `Rz(q, θ)` with `θ` an output of `normalizeAngle` and `atol < |θ|` is not an identity
  * `no_identity_mckay_real`     for `0 < atol < π/2`, a rotation with unit axis and `|angle| ≤ π + atol` (every
        constructed `BlochSphereRotation`) that is not named `Rz`/`X90`: every gate emitted by `mckayDecompose` has
        `isIdentity = false`.
-/
namespace OSq

/-- an angle that is not small and at most `π + atol` in absolute value does not normalise to a small one -/
theorem normalizeAngle_not_small {atol x : ℝ} (h1 : atol < Real.pi / 2) (hx1 : atol ≤ |x|)
    (hx2 : |x| ≤ Real.pi + atol) : ¬ |normalizeAngle atol x| < atol := by
  intro hlt
  obtain ⟨k, hk⟩ := normalizeAngle_congr atol x
  rw [hk] at hlt
  have hpi := Real.pi_pos
  rcases lt_trichotomy k 0 with hk0 | hk0 | hk0
  · have : (k : ℝ) ≤ -1 := by exact_mod_cast Int.le_sub_one_of_lt hk0
    have h2 : 2 * Real.pi * (k : ℝ) ≤ -(2 * Real.pi) := by nlinarith
    have := abs_lt.1 hlt
    have := abs_le.1 hx2
    linarith
  · subst hk0
    simp at hlt
    linarith
  · have : (1 : ℝ) ≤ (k : ℝ) := by exact_mod_cast hk0
    have h2 : 2 * Real.pi ≤ 2 * Real.pi * (k : ℝ) := by nlinarith
    have := abs_lt.1 hlt
    have := abs_le.1 hx2
    linarith

theorem isIdentity_bsr_false_iff (atol : ℝ) (q : Int) (a : Vec3 ℝ) (θ φ : ℝ) :
    (Gate.bsr q a θ φ).isIdentity atol = false ↔ ¬ (|θ| < atol ∧ |φ| < atol) := by
  rw [Bool.eq_false_iff, Ne, isIdentity_bsr_iff]

theorem x90_not_identity {atol : ℝ} (h0 : 0 ≤ atol) (h1 : atol < Real.pi / 2) (q : Int) (ax : Vec3 ℝ) :
    (x90Stmt atol q ax).1.isIdentity atol = false := by
  have hpi := Real.pi_pos
  have hid : normalizeAngle atol (Real.pi / 2) = Real.pi / 2 :=
    normalizeAngle_id_of_window atol _ h0 (by linarith) (by linarith) (by linarith)
  have e : (OSq.π : ℝ) / sc 2 = Real.pi / 2 := by simp
  rw [x90Stmt, e, hid, isIdentity_bsr_false_iff]
  rintro ⟨h, -⟩
  rw [abs_of_pos (by linarith)] at h
  linarith

theorem rz_fixed_not_identity {atol : ℝ} (h0 : 0 ≤ atol) (h1 : atol < Real.pi) (q : Int) (ax : Vec3 ℝ) (y : ℝ)
    (hθ : atol < |normalizeAngle atol y|) :
    (rotStmt atol "Rz" q ax (normalizeAngle atol y)).1.isIdentity atol = false := by
  rw [rotStmt, normalizeAngle_idem atol y h0 h1, isIdentity_bsr_false_iff]
  rintro ⟨h, -⟩
  linarith

/-- **C10 at ℝ: the McKay decomposer emits no identity gate.**  Hypotheses: `0 < atol < π/2`; the input rotation is
    one that `BlochSphereRotation.__init__` can have produced (unit axis, `|angle| ≤ π + atol`) and is not passed
    through (not named `Rz`/`X90` — a pass-through `Rz(q, 0)` *is* returned although it is an identity). -/
theorem no_identity_mckay_real {atol : ℝ} (h0 : 0 < atol) (h1 : atol < Real.pi / 2)
    {q : Int} {ax : Vec3 ℝ} {an ph : ℝ} {nm : Option (Named ℝ)} {out : List (GStmt ℝ)}
    (h : mckayDecompose atol (.bsr q ax an ph, nm) = .ok out)
    (hn : ¬ (nm.map (·.name) = some "Rz" ∨ nm.map (·.name) = some "X90"))
    (hax : ax.1 ^ 2 + ax.2.1 ^ 2 + ax.2.2 ^ 2 = 1) (han : |an| ≤ Real.pi + atol) :
    ∀ s ∈ out, s.1.isIdentity atol = false := by
  have hpi := Real.pi_pos
  intro s hs
  rcases no_identity_mckay h hn s hs with hid | ⟨axX, rfl⟩ | ⟨axZ, θ, rfl, ⟨hθ, hwhich⟩ | ⟨rfl, hsmall, hzf⟩⟩
  · exact hid
  · exact x90_not_identity h0.le h1 q axX
  · obtain ⟨y, rfl⟩ : ∃ y, θ = normalizeAngle atol y := by
      rcases hwhich with rfl | rfl | rfl <;> exact ⟨_, rfl⟩
    exact rz_fixed_not_identity h0.le (by linarith) q axZ y hθ
  · -- rotation about z: the `Rz` parameter is `an * (±1)`
    have hz : ax.1 = 0 ∧ ax.2.1 = 0 := by
      simpa [Scalar.decEqB] using hzf
    have hzz : |ax.2.2| = 1 := by
      have : ax.2.2 ^ 2 = 1 := by rw [hz.1, hz.2] at hax; simpa using hax
      have h' : |ax.2.2| ^ 2 = 1 := by rw [sq_abs]; exact this
      nlinarith [abs_nonneg ax.2.2]
    have habs : |an * ax.2.2| = |an| := by rw [abs_mul, hzz, mul_one]
    have hns := normalizeAngle_not_small (x := an * ax.2.2) h1
      (by rw [habs]; exact not_lt.1 hsmall) (by rw [habs]; exact han)
    rw [rotStmt, isIdentity_bsr_false_iff]
    exact fun hh => hns hh.1

/-- the literal axes normalise at `ℝ`, so `Rz(q, θ)` always succeeds there -/
theorem axisLit_two_real : mkAxis (axisLit 2 : Vec3 ℝ) = .ok (0, 0, 1) := by
  have : (axisLit 2 : Vec3 ℝ) = (0, 0, 1) := by simp [axisLit, intToScalar]
  rw [this]; exact mkAxis_z 1 one_pos

/-- non-vacuity: a rotation by 1 rad about `z` at `atol = 10⁻³` decomposes into the single gate `Rz(q, 1)`, which is
    not an identity -/
example : ∃ out, mckayDecompose (1 / 1000 : ℝ) (.bsr 0 (0, 0, 1) 1 0, none) = .ok out ∧ out.length = 1 ∧
    ∀ s ∈ out, s.1.isIdentity (1 / 1000 : ℝ) = false := by
  have hpi := Real.two_le_pi
  have hrun : mckayDecompose (1 / 1000 : ℝ) (.bsr 0 (0, 0, 1) 1 0, none) =
      .ok [rotStmt (1 / 1000) "Rz" 0 (0, 0, 1) (1 * 1)] := by
    rw [mckayDecompose_bsr_eq, if_neg (by simp [GStmt.name?]), if_neg (by norm_num [absS_real]),
      if_pos (by simp [Scalar.decEqB]), (named_Rz_iff ..).2 ⟨_, axisLit_two_real, rfl⟩]
    rfl
  refine ⟨_, hrun, rfl, ?_⟩
  exact no_identity_mckay_real (by norm_num) (by linarith) hrun (by simp) (by norm_num)
    (by rw [abs_one]; linarith)

end OSq

#print axioms OSq.normalizeAngle_not_small
#print axioms OSq.x90_not_identity
#print axioms OSq.no_identity_mckay_real
