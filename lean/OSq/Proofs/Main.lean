import OSq.Proofs.CircuitSem3
import OSq.Proofs.DecomposeSem
import OSq.Proofs.Pipeline
import Mathlib.Tactic.Ring
import Mathlib.Tactic.Linarith
import Mathlib.Tactic.FinCases
/-
  OSq.Proofs.Main — the **end-to-end theorems** of properties C01 and C05 at `α := ℝ`, assembled from the layers
  proved elsewhere (operator level: `DecomposeSem`; local-to-global: `CircuitSem2/3`; drivers: `DecomposeLoop`;
  well-formedness: `Pipeline`), under explicit *crisp* hypotheses.

  Items 1–3 (A-B-A decomposers)
  * `gateOp_one_rot`, `circOp_one_pos`   on the one-qubit local register `[q]` the operator of `.bsr 0 a θ φ` is
                              `rot a θ φ`; a list of rotations on `q` re-indexed to `[q]` has operator `listOp`
  * `localMatrix_ok_of`       listed operands + fitting matrices ⇒ `localMatrix idx gs` exists
  * `single_qubit_exactRepl`  (bridge 2×2 → `ExactRepl`) `listOp out = z • rot n α φ`, `‖z‖ = 1`, all gates on `q`
                              ⇒ `ExactRepl (.bsr q n α φ) (out.map (·.1))`
  * `rot_entry_large`, `bsr_big`   a unit-axis rotation has an entry of modulus `≥ 1/2`
  * `single_qubit_accepted`   … hence `checkGateReplacement atol g out = none` for `0 < atol ≤ 1/2`
  * `CrispABAGate`            the hypotheses of `abaDecompose_sem` bundled
  * `aba_accepted`            under them the A-B-A decomposer answers, the answer is accepted and exact
  * `exactRepl_self`, `ctrl_selfcheck`   self-replacement is exact; a controlled gate passes its self-check
  * `CrispABA atol k c`       crisp hypotheses for a circuit
  * `C01_of_gate_ok`          generic assembly for any built-in decomposer
  * `C01_aba_main`            **C01 for the six A-B-A decomposers** (completes, same operation up to one global phase
                              for every outcome assignment, barriers in place, registers unchanged, well formed)
  * examples                  `e^{i/3}Rx(π/2)`, a controlled rotation, a measurement and a reset through Z-Y-Z
  Item 4 (McKay)
  * `mckayDecompose_ok`       totality of the McKay decomposer on unit-axis rotations with angle in the window
  * `CrispMcKayGate`, `mckay_accepted`, `CrispMcKay`, `mckay_gate_ok`
  * `C01_mckay_main`          **C01 for the McKay decomposer** (same conclusion)
  * example                   a rotation about `-z` with a phase, then a measurement
  (CNOT decomposer: `OSq.Proofs.Main3`; C05: `OSq.Proofs.Main2`; merge never raises under `CrispR`: `OSq.Proofs.Main4`;
   the matrix-gate self-check from a large entry: `OSq.Proofs.Main5`.)
-/

set_option linter.unusedSimpArgs false
set_option linter.unnecessarySeqFocus false
open Matrix

namespace OSq
open Sem Complex

/-! ## 1. Bridge 2×2 → `ExactRepl` -/

/-- on the one-qubit local register the operator of `.bsr 0 a θ φ` is `rot a θ φ` -/
theorem gateOp_one_rot_apply (a : Vec3 ℝ) (θ φ : ℝ) (r c : Fin 2) :
    gateOp 1 (.bsr 0 a θ φ) r c = rot a θ φ r c := by
  rw [← can1_get]
  show (denote 1 (.bsr 0 a θ φ) r.val c.val).toC = _
  have hag : agreeOff 1 [0] r.val c.val := by
    intro i hi hni
    have : i = 0 := by omega
    subst this
    simp at hni
  have hb : ∀ x : Fin 2, bitOf x.val 0 = x.val := by decide
  simp only [denote, embed1, Int.toNat_zero, if_pos hag, hb]

theorem gateOp_one_rot (a : Vec3 ℝ) (θ φ : ℝ) :
    (gateOp 1 (.bsr 0 a θ φ) : Matrix (Fin 2) (Fin 2) ℂ) = rot a θ φ := by
  ext r c; exact gateOp_one_rot_apply a θ φ r c

/-- the register operator of a list of rotations on `q`, re-indexed to the local register `[q]`, is `listOp` -/
theorem circOp_one_pos (q : Int) (out : List (GStmt ℝ)) (h : ∀ g ∈ out, ∃ a θ ψ, g.1 = .bsr q a θ ψ) :
    (circOp 1 (gateStmts ((out.map (·.1)).map fun g => g.pos [q])) [] : Matrix (Fin 2) (Fin 2) ℂ)
      = listOp out := by
  induction out with
  | nil => simp [gateStmts]
  | cons g rest ih =>
    obtain ⟨a, θ, ψ, hg⟩ := h g List.mem_cons_self
    obtain ⟨g1, nm⟩ := g
    simp only at hg
    subst hg
    have ih' := ih (fun g hg => h g (List.mem_cons_of_mem _ hg))
    simp only [List.map_cons, gateStmts, circOp_gate, listOp_cons, opOf_bsr, Gate.pos,
      List.idxOf_cons_self, Nat.cast_zero]
    rw [← ih', ← gateOp_one_rot a θ ψ]
    rfl

/-- a list of gates whose operands are listed and whose matrix nodes fit has a local matrix -/
theorem localMatrix_ok_of (idx : List Int) (gs : List (Gate ℝ))
    (h : ∀ g ∈ gs, (∀ q ∈ g.operands, q ∈ idx) ∧ g.dimOk) : ∃ B, localMatrix idx gs = .ok B := by
  have hm : gs.mapM (reindexGate idx) = .ok (gs.map fun g => g.pos idx) :=
    mapM_ok_of _ _ gs (fun g hg => by rw [reindexGate_eq, if_pos (h g hg).1])
  obtain ⟨M, hM⟩ := (circuitMatrix_ok_iff idx.length
      ((gs.map fun g => g.pos idx).map fun g => Stmt.gate g none)).mpr (by
    intro g nm hmem
    obtain ⟨g', hg', he⟩ := List.mem_map.mp hmem
    obtain ⟨g0, hg0, rfl⟩ := List.mem_map.mp hg'
    injection he with he _
    subst he
    exact (expand_ok_iff _).mpr ⟨Gate.pos_inReg idx g0 (h g0 hg0).1, (Gate.pos_dimOk idx g0).mpr (h g0 hg0).2⟩)
  refine ⟨M, ?_⟩
  unfold localMatrix
  rw [hm]
  exact hM

/-- **Bridge 2×2 → `ExactRepl`.**  A list `out` of rotations on the qubit `q` whose 2×2 operator is `z • R_n(α, φ)`
    (`‖z‖ = 1`) is an exact replacement of the gate `R_n(α, φ)` on `q` in the sense of `check_gate_replacement`:
    both local matrices exist and are phase-equal (`A = z⁻¹ • B`). -/
theorem single_qubit_exactRepl (q : Int) (n : Vec3 ℝ) (α φ : ℝ) (out : List (GStmt ℝ))
    (hq : ∀ g ∈ out, ∃ a θ ψ, g.1 = .bsr q a θ ψ) (z : ℂ) (hz : ‖z‖ = 1)
    (hop : listOp out = z • rot n α φ) :
    ExactRepl (.bsr q n α φ) (out.map (·.1)) := by
  have hz0 : z ≠ 0 := by
    intro h0; rw [h0, norm_zero] at hz; exact zero_ne_one hz
  obtain ⟨A, hA⟩ := localMatrix_ok_of [q] [Gate.bsr q n α φ] (by
    intro g hg
    simp only [List.mem_singleton] at hg
    subst hg
    exact ⟨fun x hx => by simpa [Gate.operands] using hx, trivial⟩)
  obtain ⟨B, hB⟩ := localMatrix_ok_of [q] (out.map (·.1)) (by
    intro g hg
    obtain ⟨g', hg', rfl⟩ := List.mem_map.mp hg
    obtain ⟨a, θ, ψ, he⟩ := hq g' hg'
    rw [he]
    exact ⟨fun x hx => by simpa [Gate.operands] using hx, trivial⟩)
  refine ⟨A, B, hA, hB, ?_⟩
  show PhaseEq (2 ^ 1) A B
  rw [phaseEq_iff_toMatrixOn]
  refine ⟨z⁻¹, by rw [norm_inv, hz, inv_one], ?_⟩
  have hAm := (localMatrix_toMatrixOn hA).2
  have hBm := (localMatrix_toMatrixOn hB).2
  have hA2 : (A.toMatrixOn (2 ^ 1) : Matrix (Fin 2) (Fin 2) ℂ) = rot n α φ := by
    have := circOp_one_pos q [(Gate.bsr q n α φ, none)] (by
      intro g hg
      simp only [List.mem_singleton] at hg
      subst hg
      exact ⟨_, _, _, rfl⟩)
    rw [listOp_singleton, opOf_bsr] at this
    rw [← this]
    exact hAm
  have hB2 : (B.toMatrixOn (2 ^ 1) : Matrix (Fin 2) (Fin 2) ℂ) = z • rot n α φ := by
    rw [← hop, ← circOp_one_pos q out hq]
    exact hBm
  show (A.toMatrixOn (2 ^ 1) : Matrix (Fin 2) (Fin 2) ℂ) = z⁻¹ • (B.toMatrixOn (2 ^ 1) : Matrix (Fin 2) (Fin 2) ℂ)
  rw [hA2, hB2, smul_smul, inv_mul_cancel₀ hz0, one_smul]

/-! ## 2. Acceptance -/

/-- a unitary 2×2 rotation has an entry of modulus `≥ 1/2` in its first column -/
theorem rot_entry_large (n : Vec3 ℝ) (α φ : ℝ) (hn : n.1 ^ 2 + n.2.1 ^ 2 + n.2.2 ^ 2 = 1) :
    ∃ i : Fin 2, 1 / 2 ≤ ‖rot n α φ i 0‖ := by
  have h := congrFun (congrFun (rot_conjTranspose_mul_self n α φ hn) 0) 0
  rw [Matrix.mul_apply, Fin.sum_univ_two] at h
  simp only [Matrix.conjTranspose_apply, Matrix.one_apply_eq, RCLike.star_def, Complex.conj_mul'] at h
  have h' : ‖rot n α φ 0 0‖ ^ 2 + ‖rot n α φ 1 0‖ ^ 2 = 1 := by exact_mod_cast h
  by_contra hcon
  simp only [not_exists, not_le] at hcon
  have a := hcon 0
  have b := hcon 1
  nlinarith [norm_nonneg (rot n α φ 0 0), norm_nonneg (rot n α φ 1 0)]

/-- the local matrix of a rotation on its own qubit is `rot` -/
theorem localMatrix_bsr_toMatrixOn {q : Int} {n : Vec3 ℝ} {α φ : ℝ} {A : Mat ℝ}
    (hA : localMatrix [q] [Gate.bsr q n α φ] = .ok A) :
    (A.toMatrixOn (2 ^ 1) : Matrix (Fin 2) (Fin 2) ℂ) = rot n α φ := by
  have hAm := (localMatrix_toMatrixOn hA).2
  have := circOp_one_pos q [(Gate.bsr q n α φ, none)] (by
    intro g hg
    simp only [List.mem_singleton] at hg
    subst hg
    exact ⟨_, _, _, rfl⟩)
  rw [listOp_singleton, opOf_bsr] at this
  rw [← this]
  exact hAm

/-- the large-entry hypothesis of `exactRepl_accepted` for a unit-axis rotation and `atol ≤ 1/2` -/
theorem bsr_big (atol : ℝ) (h1 : atol ≤ 1 / 2) (q : Int) (n : Vec3 ℝ) (α φ : ℝ)
    (hn : n.1 ^ 2 + n.2.1 ^ 2 + n.2.2 ^ 2 = 1) :
    ∀ A, localMatrix (Gate.bsr q n α φ).operands [Gate.bsr q n α φ] = .ok A →
      ∃ i j, i < 2 ^ (Gate.bsr q n α φ).operands.length ∧ j < 2 ^ (Gate.bsr q n α φ).operands.length ∧
        atol ≤ ‖(A.get i j).toC‖ := by
  intro A hA
  have hm := localMatrix_bsr_toMatrixOn hA
  obtain ⟨i, hi⟩ := rot_entry_large n α φ hn
  refine ⟨i.val, 0, i.isLt, Nat.two_pow_pos _, ?_⟩
  have : (A.get i.val 0).toC = rot n α φ i 0 := by
    rw [← hm]; rfl
  rw [this]; linarith

/-- **acceptance, one qubit**: an exact single-qubit replacement of a unit-axis rotation passes
    `check_gate_replacement` for every `0 < atol ≤ 1/2` -/
theorem single_qubit_accepted (atol : ℝ) (h0 : 0 < atol) (h1 : atol ≤ 1 / 2) (q : Int) (n : Vec3 ℝ) (α φ : ℝ)
    (hn : n.1 ^ 2 + n.2.1 ^ 2 + n.2.2 ^ 2 = 1) (out : List (GStmt ℝ))
    (hq : ∀ g ∈ out, ∃ a θ ψ, g.1 = .bsr q a θ ψ) (z : ℂ) (hz : ‖z‖ = 1)
    (hop : listOp out = z • rot n α φ) :
    checkGateReplacement atol (.bsr q n α φ) (out.map (·.1)) = none :=
  exactRepl_accepted atol h0 (single_qubit_exactRepl q n α φ out hq z hz hop) (bsr_big atol h1 q n α φ hn)

theorem atol_lt_pi {atol : ℝ} (h1 : atol ≤ 1 / 2) : atol < Real.pi := by
  have := Real.two_le_pi; linarith

/-- the hypotheses of `abaDecompose_sem` on a rotation `R_n(α, ·)`: unit axis, angle in the constructor's window
    (both guaranteed by `mkBSR`, hypotheses here) and honesty of every tolerance test the A-B-A code makes -/
structure CrispABAGate (atol : ℝ) (k : ABAKind) (n : Vec3 ℝ) (α : ℝ) : Prop where
  unit : n.1 ^ 2 + n.2.1 ^ 2 + n.2.2 ^ 2 = 1
  lo : -Real.pi + atol ≤ α
  hi : α < Real.pi + atol
  cπ : |α - Real.pi| < atol → α = Real.pi
  ca : |α - Real.pi| < atol → |Vec3.get n k.ia| < atol → Vec3.get n k.ia = 0
  cs : ¬ (|α - Real.pi| < atol ∧ |Vec3.get n k.ia| < atol) →
        Real.sin (α / 2) ^ 2 * ((Vec3.get n k.ib) ^ 2 + (Vec3.get n k.ic) ^ 2) < atol ^ 2 →
        Real.sin (α / 2) ^ 2 * ((Vec3.get n k.ib) ^ 2 + (Vec3.get n k.ic) ^ 2) = 0
  fil : ∀ t1 t2 t3, abaAngles atol k α n = .ok (t1, t2, t3) → ∀ t ∈ [t1, t2, t3],
        |normalizeAngle atol t| < atol → normalizeAngle atol t = 0

/-- **aba_accepted**: under the hypotheses of `abaDecompose_sem` and `0 < atol ≤ 1/2` the A-B-A decomposer does not
    raise, its output is an exact replacement, and `check_gate_replacement` accepts it -/
theorem aba_accepted (atol : ℝ) (h0 : 0 < atol) (h1 : atol ≤ 1 / 2) (k : ABAKind) (q : Int) (n : Vec3 ℝ)
    (α φ : ℝ) (nm : Option (Named ℝ)) (hc : CrispABAGate atol k n α) :
    ∃ out, abaDecompose atol k (.bsr q n α φ, nm) = .ok out ∧
      checkGateReplacement atol (.bsr q n α φ) (out.map (·.1)) = none ∧
      ExactRepl (.bsr q n α φ) (out.map (·.1)) := by
  have hpi := atol_lt_pi h1
  obtain ⟨out, hout⟩ := abaDecompose_ok atol k q n α φ nm h0.le hpi hc.unit hc.lo hc.hi.le
  obtain ⟨⟨z, hz, hop⟩, hq⟩ := abaDecompose_sem atol k q n α φ nm out h0 hpi hc.unit hc.lo hc.hi hc.cπ hc.ca
    hc.cs hc.fil hout
  exact ⟨out, hout, single_qubit_accepted atol h0 h1 q n α φ hc.unit out hq z hz hop,
    single_qubit_exactRepl q n α φ out hq z hz hop⟩

/-! ## 3. C01 for the A-B-A decomposers -/

/-- a gate with listed operands and fitting matrices is an exact replacement of itself -/
theorem exactRepl_self (g : Gate ℝ) (hd : g.dimOk) : ExactRepl g [g] := by
  obtain ⟨A, hA⟩ := (localMatrix_single_ok_iff g.operands g).mpr ⟨fun q hq => hq, hd⟩
  exact ⟨A, A, hA, hA, PhaseEq.refl _ A⟩

/-- a controlled gate passes its self-check for every `0 < atol ≤ 1` (its local matrix has the entry `1` at `(0,0)`) -/
theorem ctrl_selfcheck (atol : ℝ) (h0 : 0 < atol) (h1 : atol ≤ 1) (c : Int) (g : Gate ℝ) (hd : g.dimOk) :
    checkGateReplacement atol (.ctrl c g) [.ctrl c g] = none := by
  apply exactRepl_accepted atol h0 (exactRepl_self (.ctrl c g) hd)
  intro A hA
  have hspec := localMatrix_single_spec _ _ A hA
  refine ⟨0, 0, Nat.two_pow_pos _, Nat.two_pow_pos _, ?_⟩
  rw [hspec.2.2 0 0 (Nat.two_pow_pos _) (Nat.two_pow_pos _)]
  simp only [Gate.pos, denote, ctrlOf, Nat.zero_testBit, Bool.false_eq_true, if_false, delta, if_true,
    Cx.toC_one, norm_one]
  exact h1

/-- **crisp hypotheses for a whole circuit and an A-B-A decomposer**: every rotation satisfies `CrispABAGate`; every
    matrix gate passes its self-check (true as soon as its matrix has an entry of modulus `≥ atol`, e.g. for a unitary
    one); nothing is asked of controlled gates (their self-check is proved: `ctrl_selfcheck`). -/
def CrispABA (atol : ℝ) (k : ABAKind) (c : Circuit ℝ) : Prop :=
  ∀ g nm, Stmt.gate g nm ∈ c.stmts →
    match g with
    | .bsr _ n α _ => CrispABAGate atol k n α
    | .matrix m ops => checkGateReplacement atol (.matrix m ops) [.matrix m ops] = none
    | .ctrl _ _ => True

theorem dimOk_of_wf {nq nb : Nat} {g : Gate ℝ} {nm : Option (Named ℝ)}
    (h : Stmt.wf nq nb (.gate g nm) = true) : g.dimOk := by
  simp only [Stmt.wf, Bool.and_eq_true] at h
  exact Gate.dimOk_of_shapeOk g h.2

/-- per gate: the A-B-A decomposer answers, the answer is accepted and exact -/
theorem aba_gate_ok (atol : ℝ) (h0 : 0 < atol) (h1 : atol ≤ 1 / 2) (k : ABAKind) (c : Circuit ℝ)
    (hwf : c.wf = true) (hc : CrispABA atol k c) (g : Gate ℝ) (nm : Option (Named ℝ))
    (hmem : Stmt.gate g nm ∈ c.stmts) :
    ∃ repl, (Decomposer.aba k).run atol (g, nm) = .ok repl ∧
      checkGateReplacement atol g (repl.map (·.1)) = none ∧ ExactRepl g (repl.map (·.1)) := by
  have hs := (Circuit.wf_iff c).mp hwf _ hmem
  have hd := dimOk_of_wf hs
  have hcg := hc g nm hmem
  cases g with
  | bsr q n α φ => exact aba_accepted atol h0 h1 k q n α φ nm hcg
  | matrix m ops => exact ⟨[(.matrix m ops, nm)], rfl, hcg, exactRepl_self _ hd⟩
  | ctrl cq g' =>
    exact ⟨[(.ctrl cq g', nm)], rfl, ctrl_selfcheck atol h0 (by linarith) cq g' hd, exactRepl_self _ hd⟩

/-- generic assembly: a built-in decomposer that answers every gate of a well-formed circuit with an accepted, exact
    replacement completes, preserves the operation up to one global phase for every outcome assignment, keeps the
    barriers in place and leaves a well-formed circuit on the same registers -/
theorem C01_of_gate_ok (atol : ℝ) (d : Decomposer) (c : Circuit ℝ) (hwf : c.wf = true)
    (hg : ∀ g nm, Stmt.gate g nm ∈ c.stmts → ∃ repl, d.run atol (g, nm) = .ok repl ∧
      checkGateReplacement atol g (repl.map (·.1)) = none ∧ ExactRepl g (repl.map (·.1))) :
    ∃ out, decomposeBuiltin atol d c.stmts = (out, none) ∧ CircEquiv c.nQubits c.stmts out ∧
      SameBarriers c.stmts out ∧ Circuit.wf ⟨c.nQubits, c.nBits, out⟩ = true := by
  have hrun := decomposeBuiltin_ok_flatMap atol d c.stmts
    (fun g nm hm => by obtain ⟨r, h1, h2, _⟩ := hg g nm hm; exact ⟨r, h1, h2⟩)
  refine ⟨_, hrun, ?_⟩
  have hsem := decomposeBuiltin_sem c.nQubits atol d c.stmts _
    (fun g nm hm => gateWF_of_wf ((Circuit.wf_iff c).mp hwf _ hm)) hrun
    (fun g nm repl hm hd _ => by
      obtain ⟨r, h1, _, h3⟩ := hg g nm hm
      rw [h1] at hd; injection hd with hd; subst hd; exact h3)
  refine ⟨hsem.1, hsem.2, ?_⟩
  have hw := (decompose_wf atol d c hwf).1
  simp only [Pass.run, hrun] at hw
  exact hw

/-- **C01 for the six A-B-A decomposers.**  For every well-formed circuit `c` (any length, any register, all statement
    kinds) whose rotations satisfy the crisp hypotheses `CrispABA`, and every `0 < atol ≤ 1/2`:
    the decomposition **completes without raising**, the result implements **the same operation up to ONE global phase
    for EVERY combination of measurement / reset outcomes**, the **comments, measurements and resets are untouched and
    in place**, the **registers are unchanged** and the result is well formed. -/
theorem C01_aba_main (atol : ℝ) (h0 : 0 < atol) (h1 : atol ≤ 1 / 2) (k : ABAKind) (c : Circuit ℝ)
    (hwf : c.wf = true) (hc : CrispABA atol k c) :
    ∃ out, decomposeBuiltin atol (.aba k) c.stmts = (out, none) ∧ CircEquiv c.nQubits c.stmts out ∧
      SameBarriers c.stmts out ∧ Circuit.wf ⟨c.nQubits, c.nBits, out⟩ = true :=
  C01_of_gate_ok atol (.aba k) c hwf (aba_gate_ok atol h0 h1 k c hwf hc)

/-! ### Non-vacuity of items 1–3: `e^{i/3}·Rx(π/2)` on qubit 0, a controlled rotation, a measurement and a reset,
    through the Z-Y-Z decomposer at `atol = 1/1000` -/
section Example

theorem exM_crisp : CrispABAGate (1 / 1000) .ZYZ (1, 0, 0) (Real.pi / 2) := by
  have hpi := Real.two_le_pi
  have hnp : ¬ |Real.pi / 2 - Real.pi| < (1 / 1000 : ℝ) := by
    rw [abs_of_neg (by linarith)]; linarith
  refine ⟨by norm_num, by linarith, by linarith, fun h => absurd h hnp, fun h => absurd h hnp, ?_, ?_⟩
  · intro _ h
    exfalso
    simp only [ABAKind.ib, ABAKind.ic, ABAKind.ia, Vec3.get] at h
    have : Real.sin (Real.pi / 2 / 2) = Real.sqrt 2 / 2 := by
      rw [show Real.pi / 2 / 2 = Real.pi / 4 by ring, Real.sin_pi_div_four]
    rw [this] at h
    have hs : Real.sqrt 2 * Real.sqrt 2 = 2 := Real.mul_self_sqrt (by norm_num)
    nlinarith [hs]
  · intro t1 t2 t3 he t ht habs
    rw [ex_abaAngles] at he
    injection he with he
    simp only [Prod.mk.injEq] at he
    obtain ⟨rfl, rfl, rfl⟩ := he
    exfalso
    simp only [List.mem_cons, List.not_mem_nil, or_false, or_self_left] at ht
    rcases ht with rfl | rfl
    · rw [normalizeAngle_id_of_window _ _ (by norm_num) (by linarith) (by linarith) (by linarith),
        abs_of_pos (by linarith)] at habs
      linarith
    · rw [normalizeAngle_id_of_window _ _ (by norm_num) (by linarith) (by linarith) (by linarith),
        abs_of_neg (by linarith)] at habs
      linarith

/-- the example circuit: 2 qubits, 1 bit -/
noncomputable def exMCirc : Circuit ℝ :=
  ⟨2, 1, [.gate (.bsr 0 (1, 0, 0) (Real.pi / 2) (1 / 3)) none,
          .gate (.ctrl 0 (.bsr 1 (0, 0, 1) 1 0)) none,
          .measure 0 0 (0, 0, 1) none,
          .reset 1 none]⟩

theorem exMCirc_wf : exMCirc.wf = true := by
  simp [exMCirc, Circuit.wf, Stmt.wf, Gate.operands, inRange, hasDup, Gate.shapeOk]

theorem exMCirc_crisp : CrispABA (1 / 1000) .ZYZ exMCirc := by
  intro g nm hm
  simp only [exMCirc, List.mem_cons, Stmt.gate.injEq, reduceCtorEq, false_or, List.not_mem_nil, or_false] at hm
  rcases hm with ⟨rfl, _⟩ | ⟨rfl, _⟩
  · exact exM_crisp
  · trivial

/-- item 1 + 2 on the example gate -/
example : ∃ out, abaDecompose (1 / 1000 : ℝ) .ZYZ (.bsr 0 (1, 0, 0) (Real.pi / 2) (1 / 3), none) = .ok out ∧
    checkGateReplacement (1 / 1000 : ℝ) (.bsr 0 (1, 0, 0) (Real.pi / 2) (1 / 3)) (out.map (·.1)) = none ∧
    ExactRepl (.bsr 0 (1, 0, 0) (Real.pi / 2) (1 / 3)) (out.map (·.1)) :=
  aba_accepted (1 / 1000) (by norm_num) (by norm_num) .ZYZ 0 (1, 0, 0) (Real.pi / 2) (1 / 3) none exM_crisp

/-- item 3 on the example circuit: all hypotheses of `C01_aba_main` are discharged -/
example : ∃ out, decomposeBuiltin (1 / 1000 : ℝ) (.aba .ZYZ) exMCirc.stmts = (out, none) ∧
    CircEquiv 2 exMCirc.stmts out ∧ SameBarriers exMCirc.stmts out ∧ Circuit.wf ⟨2, 1, out⟩ = true :=
  C01_aba_main (1 / 1000) (by norm_num) (by norm_num) .ZYZ exMCirc exMCirc_wf exMCirc_crisp

end Example

/-! ## 4. C01 for the McKay decomposer -/

/-- totality of the McKay decomposer on a unit-axis rotation with an angle in the constructor's window -/
theorem mckayDecompose_ok (atol : ℝ) (h0 : 0 ≤ atol) (hpi : atol < Real.pi) (q : Int) (n : Vec3 ℝ) (α φ : ℝ)
    (nm : Option (Named ℝ)) (hn : n.1 ^ 2 + n.2.1 ^ 2 + n.2.2 ^ 2 = 1)
    (h1 : -Real.pi + atol ≤ α) (h2 : α ≤ Real.pi + atol) :
    ∃ out, mckayDecompose atol (.bsr q n α φ, nm) = .ok out := by
  rw [mckayDecompose_bsr_eq]
  split
  · exact ⟨_, rfl⟩
  split
  · exact ⟨_, rfl⟩
  split
  · have := named_rot_real atol h0 hpi 2 q (α * n.2.2)
    simp only [rotName] at this
    rw [this]; exact ⟨_, rfl⟩
  · obtain ⟨zxz, hz⟩ := abaDecompose_ok atol .ZXZ q n α φ nm h0 hpi hn h1 h2
    have hx : named atol "X90" [.qubit q] = .ok (x90Stmt atol q (eAxis 0)) :=
      (named_X90_iff atol q _).2 ⟨_, mkAxis_axisLit 0, rfl⟩
    rw [hz, hx]
    simp only [bind, Except.bind]
    rw [mckayTail_eq (mkAxis_axisLit 2)]
    split
    · split
      · exact ⟨_, rfl⟩
      · exact ⟨_, rfl⟩
    · exact ⟨_, rfl⟩

/-- the hypotheses of `mckay_sem` bundled -/
structure CrispMcKayGate (atol : ℝ) (n : Vec3 ℝ) (α : ℝ) (nm : Option (Named ℝ)) : Prop where
  unit : n.1 ^ 2 + n.2.1 ^ 2 + n.2.2 ^ 2 = 1
  lo : -Real.pi + atol ≤ α
  hi : α < Real.pi + atol
  null : |α| < atol → α = 0
  cπ : McKayDeep atol n α nm → |α - Real.pi| < atol → α = Real.pi
  ca : McKayDeep atol n α nm → |α - Real.pi| < atol → |n.2.2| < atol → n.2.2 = 0
  cs : McKayDeep atol n α nm → ¬ (|α - Real.pi| < atol ∧ |n.2.2| < atol) →
        Real.sin (α / 2) ^ 2 * (n.1 ^ 2 + n.2.1 ^ 2) < atol ^ 2 → Real.sin (α / 2) ^ 2 * (n.1 ^ 2 + n.2.1 ^ 2) = 0
  zxz : McKayDeep atol n α nm → ∀ t1 t2 t3, abaAngles atol .ZXZ α n = .ok (t1, t2, t3) →
        (∀ t ∈ [t1, t3], |normalizeAngle atol t| < atol → normalizeAngle atol t = 0) ∧
        (|normalizeAngle atol t2 - Real.pi / 2| < atol → normalizeAngle atol t2 = Real.pi / 2)
  gen : McKayDeep atol n α nm →
        ∀ x ∈ [(mckayAngles atol n α).1, (mckayAngles atol n α).2.1, (mckayAngles atol n α).2.2],
        ¬ atol < |x| → x = 0

/-- under the hypotheses of `mckay_sem` and `0 < atol ≤ 1/2` the McKay decomposer answers, the answer is accepted
    and exact -/
theorem mckay_accepted (atol : ℝ) (h0 : 0 < atol) (h1 : atol ≤ 1 / 2) (q : Int) (n : Vec3 ℝ)
    (α φ : ℝ) (nm : Option (Named ℝ)) (hc : CrispMcKayGate atol n α nm) :
    ∃ out, mckayDecompose atol (.bsr q n α φ, nm) = .ok out ∧
      checkGateReplacement atol (.bsr q n α φ) (out.map (·.1)) = none ∧
      ExactRepl (.bsr q n α φ) (out.map (·.1)) := by
  have hpi := atol_lt_pi h1
  obtain ⟨out, hout⟩ := mckayDecompose_ok atol h0.le hpi q n α φ nm hc.unit hc.lo hc.hi.le
  obtain ⟨⟨z, hz, hop⟩, hq⟩ := mckay_sem atol q n α φ nm out h0 hpi hc.unit hc.lo hc.hi hc.null hc.cπ hc.ca
    hc.cs hc.zxz hc.gen hout
  exact ⟨out, hout, single_qubit_accepted atol h0 h1 q n α φ hc.unit out hq z hz hop,
    single_qubit_exactRepl q n α φ out hq z hz hop⟩

/-- crisp hypotheses for a whole circuit and the McKay decomposer -/
def CrispMcKay (atol : ℝ) (c : Circuit ℝ) : Prop :=
  ∀ g nm, Stmt.gate g nm ∈ c.stmts →
    match g with
    | .bsr _ n α _ => CrispMcKayGate atol n α nm
    | .matrix m ops => checkGateReplacement atol (.matrix m ops) [.matrix m ops] = none
    | .ctrl _ _ => True

theorem mckay_gate_ok (atol : ℝ) (h0 : 0 < atol) (h1 : atol ≤ 1 / 2) (c : Circuit ℝ)
    (hwf : c.wf = true) (hc : CrispMcKay atol c) (g : Gate ℝ) (nm : Option (Named ℝ))
    (hmem : Stmt.gate g nm ∈ c.stmts) :
    ∃ repl, Decomposer.mckay.run atol (g, nm) = .ok repl ∧
      checkGateReplacement atol g (repl.map (·.1)) = none ∧ ExactRepl g (repl.map (·.1)) := by
  have hs := (Circuit.wf_iff c).mp hwf _ hmem
  have hd := dimOk_of_wf hs
  have hcg := hc g nm hmem
  cases g with
  | bsr q n α φ => exact mckay_accepted atol h0 h1 q n α φ nm hcg
  | matrix m ops => exact ⟨[(.matrix m ops, nm)], rfl, hcg, exactRepl_self _ hd⟩
  | ctrl cq g' =>
    exact ⟨[(.ctrl cq g', nm)], rfl, ctrl_selfcheck atol h0 (by linarith) cq g' hd, exactRepl_self _ hd⟩

/-- **C01 for the McKay decomposer** (`Rz`/`X90` basis), same conclusion as `C01_aba_main`. -/
theorem C01_mckay_main (atol : ℝ) (h0 : 0 < atol) (h1 : atol ≤ 1 / 2) (c : Circuit ℝ)
    (hwf : c.wf = true) (hc : CrispMcKay atol c) :
    ∃ out, decomposeBuiltin atol .mckay c.stmts = (out, none) ∧ CircEquiv c.nQubits c.stmts out ∧
      SameBarriers c.stmts out ∧ Circuit.wf ⟨c.nQubits, c.nBits, out⟩ = true :=
  C01_of_gate_ok atol .mckay c hwf (mckay_gate_ok atol h0 h1 c hwf hc)

/-! ### Non-vacuity of `C01_mckay_main`: a rotation by `1` about `-z` with a phase, then a measurement -/
section ExampleMcKay

theorem exMc_crisp : CrispMcKayGate (1 / 1000) (0, 0, -1) 1 none := by
  have hpi := Real.two_le_pi
  have hnn : ¬ |(1 : ℝ)| < 1 / 1000 := by norm_num
  have hD : ¬ McKayDeep (1 / 1000) (0, 0, -1) 1 none := fun hD => hD.2.2 ⟨rfl, rfl⟩
  exact ⟨by norm_num, by linarith, by linarith, fun h => absurd h hnn, fun h => absurd h hD,
    fun h => absurd h hD, fun h => absurd h hD, fun h => absurd h hD, fun h => absurd h hD⟩

noncomputable def exMcCirc : Circuit ℝ :=
  ⟨1, 1, [.gate (.bsr 0 (0, 0, -1) 1 (1 / 3)) none, .measure 0 0 (0, 0, 1) none]⟩

example : ∃ out, decomposeBuiltin (1 / 1000 : ℝ) .mckay exMcCirc.stmts = (out, none) ∧
    CircEquiv 1 exMcCirc.stmts out ∧ SameBarriers exMcCirc.stmts out ∧ Circuit.wf ⟨1, 1, out⟩ = true := by
  refine C01_mckay_main (1 / 1000) (by norm_num) (by norm_num) exMcCirc ?_ ?_
  · simp [exMcCirc, Circuit.wf, Stmt.wf, Gate.operands, inRange, hasDup, Gate.shapeOk]
  · intro g nm hm
    simp only [exMcCirc, List.mem_cons, Stmt.gate.injEq, reduceCtorEq, List.not_mem_nil, or_false] at hm
    obtain ⟨rfl, rfl⟩ := hm
    exact exMc_crisp

end ExampleMcKay

end OSq

#print axioms OSq.single_qubit_exactRepl
#print axioms OSq.aba_accepted
#print axioms OSq.C01_aba_main
#print axioms OSq.C01_mckay_main
