import OSq.Proofs.CircuitSem2
import OSq.Proofs.Remap
import Mathlib.LinearAlgebra.Matrix.NonsingularInverse
/-
  OSq.Proofs.CircuitSem4 — **relabelling the qubits conjugates the operation by the qubit permutation** (C03/C05:
  the mapper / `remap_ir`).  For a valid mapping `m` (a permutation of `0 … n-1`, `n = m.length`) the circuit
  `stmts.map (Stmt.mapQubits m)` implements, for every outcome assignment, `P · (original operation) · P⁻¹`, where `P`
  is the permutation matrix of the basis permutation that moves bit `i` of the ket index to bit `m[i]`.

  Definitions
  * `unmapKet m x`        `reducedKet x (m.map toNat)`: bit `i` of the result is bit `m[i]` of `x` (the inverse basis
                          permutation `τ`, as a function on `Fin (2^n)`: `unmapFin`)
  * `qpermOp m : Op n`    the permutation matrix `P`: entry `(r, c) = 1` iff `τ r = c`, i.e. iff bit `m[i]` of `r` is
                          bit `i` of `c` for all `i` (`qpermOp_eq_one_iff`): `P |c⟩ = |c with qubit i moved to qubit m[i]⟩`
  Theorems
  * `pos_mapQubits`       re-indexing the relabelled gate along `m` gives the gate back
  * `unmapFin_bijective`  `τ` is a bijection of `Fin (2^n)`
  * `gateOp_mapQubits`    `gateOp n (g.mapQubits m) r c = gateOp n g (τ r) (τ c)`  (from `denote_lift` with `idx = m`:
                          `denote` only inspects bits at operand positions)
  * `stmtOp_mapQubits`    the same for every statement kind (gate, measure, reset, comment) and outcome
  * `circOp_mapQubits`    `circOp n (stmts.map (Stmt.mapQubits m)) o = (circOp n stmts o).submatrix τ τ`
  * `qpermOp_mul_transpose`, `qpermOp_transpose_mul`, `qpermOp_inv`   `P Pᵀ = Pᵀ P = 1`, `P⁻¹ = Pᵀ`
  * `qpermOp_conj`        `P * M * Pᵀ = M.submatrix τ τ`
  * `map_sem`             **`circOp n (stmts.map (Stmt.mapQubits m)) o = P * circOp n stmts o * P⁻¹`**
  * `map_sem_equiv`       consequently relabelling respects `CircEquiv`
  * `remap_sem`           the same for the `remap` pass of `OSq/Model/Mapping.lean` (full-size valid mapping)
-/
open Matrix

namespace OSq

section mapping
variable (m : List Int) (hv : mappingValid m = true)

/-- the inverse basis permutation: bit `i` of the result is bit `m[i]` of `x` -/
def unmapKet (x : Nat) : Nat := reducedKet x (m.map Int.toNat)

theorem unmapKet_lt (x : Nat) : unmapKet m x < 2 ^ m.length := by
  have := reducedKet_lt x (m.map Int.toNat)
  rwa [List.length_map] at this

/-- `τ` on `Fin (2^n)` -/
def unmapFin (x : Fin (2 ^ m.length)) : Fin (2 ^ m.length) := ⟨unmapKet m x.val, unmapKet_lt m x.val⟩

@[simp] theorem unmapFin_val (x : Fin (2 ^ m.length)) : (unmapFin m x).val = unmapKet m x.val := rfl

include hv in
theorem mapping_reg : ∀ q ∈ m, 0 ≤ q ∧ q < (m.length : Int) :=
  fun q hq => mappingValid_range m hv q hq

include hv in
/-- every register position is an image of the mapping -/
theorem mem_map_toNat_of_lt {i : Nat} (hi : i < m.length) : i ∈ m.map Int.toNat := by
  have := (mappingValid_iff_covers m).mp hv i hi
  exact List.mem_map.mpr ⟨(i : Int), this, by simp⟩

include hv in
theorem agreeOff_mapping (r c : Nat) : agreeOff m.length (m.map Int.toNat) r c :=
  fun _ hi hni => absurd (mem_map_toNat_of_lt m hv hi) hni

include hv in
theorem idxOf_mapIdx (q : Int) (h0 : 0 ≤ q) (h1 : q < m.length) :
    ((m.idxOf (mapIdx m q) : Nat) : Int) = q := by
  have hq : q = (q.toNat : Int) := by omega
  have hlt : q.toNat < m.length := by omega
  rw [hq, mapIdx_of_lt m q.toNat hlt, (mappingValid_nodup m hv).idxOf_getElem q.toNat hlt]

include hv in
theorem idxOf_mapIdx_nat (q : Int) (h0 : 0 ≤ q) (h1 : q < m.length) :
    m.idxOf (mapIdx m q) = q.toNat := by
  have := idxOf_mapIdx m hv q h0 h1
  omega

include hv in
/-- bit `q` of `τ x` is bit `m[q]` of `x` -/
theorem unmapKet_testBit (x : Nat) (q : Int) (h0 : 0 ≤ q) (h1 : q < m.length) :
    (unmapKet m x).testBit q.toNat = x.testBit (mapIdx m q).toNat := by
  have := reducedKet_testBit_idxOf m x (mapIdx_mem m q h0 h1)
  rwa [idxOf_mapIdx_nat m hv q h0 h1] at this

include hv in
/-- **re-indexing the relabelled gate along `m` gives the gate back** -/
theorem pos_mapQubits {α : Type} (g : Gate α) (hg : g.inReg m.length) : (g.mapQubits m).pos m = g := by
  induction g with
  | bsr q ax an ph =>
    have := hg q (by simp [Gate.operands])
    simp only [Gate.mapQubits, Gate.pos, idxOf_mapIdx m hv q this.1 this.2]
  | matrix mt ops =>
    simp only [Gate.mapQubits, Gate.pos, List.map_map]
    congr 1
    have : ∀ q ∈ ops, ((fun q => ((m.idxOf q : Nat) : Int)) ∘ mapIdx m) q = id q := by
      intro q hq
      have := hg q hq
      simp only [Function.comp, id, idxOf_mapIdx m hv q this.1 this.2]
    rw [List.map_congr_left this, List.map_id]
  | ctrl c g ih =>
    have hc := hg c (by simp [Gate.operands])
    simp only [Gate.mapQubits, Gate.pos, idxOf_mapIdx m hv c hc.1 hc.2,
      ih (fun q hq => hg q (by simp [Gate.operands, hq]))]

include hv in
theorem unmapKet_inj {r c : Nat} (hr : r < 2 ^ m.length) (hc : c < 2 ^ m.length)
    (h : unmapKet m r = unmapKet m c) : r = c :=
  (eq_iff_agreeOff_reducedKet (m.map Int.toNat) hr hc).mpr ⟨agreeOff_mapping m hv r c, h⟩

include hv in
theorem unmapFin_injective : Function.Injective (unmapFin m) := by
  intro r c h
  apply Fin.ext
  exact unmapKet_inj m hv r.isLt c.isLt (congrArg Fin.val h)

include hv in
theorem unmapFin_bijective : Function.Bijective (unmapFin m) :=
  (unmapFin_injective m hv).bijective_of_finite

/-! ### statements -/

include hv in
/-- **gates**: the operator of the relabelled gate at `(r, c)` is that of the gate at `(τ r, τ c)` -/
theorem gateOp_mapQubits (g : Gate ℝ) (hg : g.inReg m.length) :
    gateOp m.length (g.mapQubits m) = (gateOp m.length g).submatrix (unmapFin m) (unmapFin m) := by
  ext r c
  have hops : ∀ q ∈ (g.mapQubits m).operands, q ∈ m := by
    intro q hq
    rw [Gate.operands_mapQubits] at hq
    obtain ⟨q0, hq0, rfl⟩ := List.mem_map.mp hq
    exact mapIdx_mem m q0 (hg q0 hq0).1 (hg q0 hq0).2
  rw [gateOp_apply, denote_lift m (mappingValid_nodup m hv) (mapping_reg m hv) (g.mapQubits m) hops
    r.isLt c.isLt, if_pos (agreeOff_mapping m hv _ _), pos_mapQubits m hv g hg]
  rfl

include hv in
theorem measOp_mapIdx (q : Int) (h0 : 0 ≤ q) (h1 : q < m.length) (b : Bool) :
    measOp m.length (mapIdx m q).toNat b
      = (measOp m.length q.toNat b).submatrix (unmapFin m) (unmapFin m) := by
  ext r c
  simp only [measOp, Matrix.submatrix_apply, unmapFin_val, unmapKet_testBit m hv r.val q h0 h1,
    (unmapFin_injective m hv).eq_iff]

include hv in
theorem resetOp_mapIdx (q : Int) (h0 : 0 ≤ q) (h1 : q < m.length) (b : Bool) :
    resetOp m.length (mapIdx m q).toNat b
      = (resetOp m.length q.toNat b).submatrix (unmapFin m) (unmapFin m) := by
  ext r c
  simp only [resetOp, Matrix.submatrix_apply, unmapFin_val, unmapKet_testBit m hv _ q h0 h1]
  have hag := agreeOff_sub_iff (n := m.length) m (mappingValid_nodup m hv) (mapping_reg m hv)
    [mapIdx m q] (by simpa using mapIdx_mem m q h0 h1) r.val c.val
  simp only [List.map_cons, List.map_nil, idxOf_mapIdx_nat m hv q h0 h1] at hag
  have : agreeOff m.length [(mapIdx m q).toNat] r.val c.val
      ↔ agreeOff m.length [q.toNat] (unmapKet m r.val) (unmapKet m c.val) := by
    rw [hag]
    exact ⟨fun h => h.2, fun h => ⟨agreeOff_mapping m hv _ _, h⟩⟩
  simp only [this]

include hv in
/-- **every statement kind** -/
theorem stmtOp_mapQubits (s : Stmt ℝ) (hs : ∀ q ∈ s.qubits, 0 ≤ q ∧ q < (m.length : Int)) (b : Bool) :
    stmtOp m.length (s.mapQubits m) b
      = (stmtOp m.length s b).submatrix (unmapFin m) (unmapFin m) := by
  cases s with
  | gate g nm => exact gateOp_mapQubits m hv g hs
  | measure q bit ax nm =>
    have := hs q (by simp [Stmt.qubits])
    exact measOp_mapIdx m hv q this.1 this.2 b
  | reset q nm =>
    have := hs q (by simp [Stmt.qubits])
    exact resetOp_mapIdx m hv q this.1 this.2 b
  | comment c =>
    simp only [Stmt.mapQubits, stmtOp]
    ext r c
    simp [Matrix.one_apply, (unmapFin_injective m hv).eq_iff]

theorem hasOutcome_mapQubits {α : Type} (s : Stmt α) : (s.mapQubits m).hasOutcome = s.hasOutcome := by
  cases s <;> rfl

include hv in
/-- **circuits**: the relabelled circuit is the original one in the relabelled basis -/
theorem circOp_mapQubits (stmts : List (Stmt ℝ))
    (hs : ∀ s ∈ stmts, ∀ q ∈ s.qubits, 0 ≤ q ∧ q < (m.length : Int)) (o : List Bool) :
    circOp m.length (stmts.map (Stmt.mapQubits m)) o
      = (circOp m.length stmts o).submatrix (unmapFin m) (unmapFin m) := by
  induction stmts generalizing o with
  | nil =>
    ext r c
    simp [Matrix.one_apply, (unmapFin_injective m hv).eq_iff]
  | cons s rest ih =>
    have ih' := ih (fun x hx => hs x (List.mem_cons_of_mem _ hx))
    rw [List.map_cons, circOp_cons, circOp_cons, hasOutcome_mapQubits]
    split
    · rw [ih', stmtOp_mapQubits m hv s (hs s List.mem_cons_self),
        Matrix.submatrix_mul _ _ _ _ _ (unmapFin_bijective m hv)]
    · rw [ih', stmtOp_mapQubits m hv s (hs s List.mem_cons_self),
        Matrix.submatrix_mul _ _ _ _ _ (unmapFin_bijective m hv)]

/-! ### the permutation matrix -/

/-- **the permutation matrix of the qubit relabelling**: `P |c⟩ = |r⟩` where bit `m[i]` of `r` is bit `i` of `c` -/
def qpermOp : Op m.length := fun r c => if unmapFin m r = c then 1 else 0

theorem qpermOp_apply (r c : Fin (2 ^ m.length)) :
    qpermOp m r c = if unmapFin m r = c then 1 else 0 := rfl

/-- the entry `(r, c)` of `P` is `1` exactly when qubit `i` of `c` sits at qubit `m[i]` of `r`, for every `i` -/
theorem qpermOp_eq_one_iff (r c : Fin (2 ^ m.length)) :
    qpermOp m r c = 1 ↔ ∀ i (hi : i < m.length), r.val.testBit (m[i]).toNat = c.val.testBit i := by
  rw [qpermOp_apply]
  constructor
  · intro h
    have hrc : unmapFin m r = c := by
      by_contra hne
      rw [if_neg hne] at h
      exact zero_ne_one h
    intro i hi
    rw [← hrc, unmapFin_val, unmapKet, reducedKet_spec, dif_pos (by rwa [List.length_map])]
    simp
  · intro h
    rw [if_pos]
    apply Fin.ext
    apply Nat.eq_of_testBit_eq
    intro i
    rw [unmapFin_val, unmapKet, reducedKet_spec]
    by_cases hi : i < m.length
    · rw [dif_pos (by rwa [List.length_map])]
      simpa using h i hi
    · rw [dif_neg (by rwa [List.length_map])]
      exact (testBit_ge c.isLt (Nat.le_of_not_lt hi)).symm

theorem qpermOp_mul (M : Op m.length) (r c : Fin (2 ^ m.length)) :
    (qpermOp m * M) r c = M (unmapFin m r) c := by
  rw [Matrix.mul_apply, Finset.sum_eq_single (unmapFin m r)]
  · simp [qpermOp_apply]
  · intro x _ hx
    simp [qpermOp_apply, Ne.symm hx]
  · intro h; exact absurd (Finset.mem_univ _) h

theorem mul_qpermOp_transpose (M : Op m.length) (r c : Fin (2 ^ m.length)) :
    (M * (qpermOp m)ᵀ) r c = M r (unmapFin m c) := by
  rw [Matrix.mul_apply, Finset.sum_eq_single (unmapFin m c)]
  · simp [qpermOp_apply]
  · intro x _ hx
    simp [qpermOp_apply, Ne.symm hx]
  · intro h; exact absurd (Finset.mem_univ _) h

/-- conjugation by `P` is the change of basis `τ` -/
theorem qpermOp_conj (M : Op m.length) :
    qpermOp m * M * (qpermOp m)ᵀ = M.submatrix (unmapFin m) (unmapFin m) := by
  ext r c
  rw [mul_qpermOp_transpose, qpermOp_mul m, Matrix.submatrix_apply]

include hv in
theorem qpermOp_mul_transpose : qpermOp m * (qpermOp m)ᵀ = 1 := by
  have := qpermOp_conj m 1
  rw [Matrix.mul_one] at this
  rw [this]
  ext r c
  simp [Matrix.one_apply, (unmapFin_injective m hv).eq_iff]

include hv in
theorem qpermOp_inv : (qpermOp m)⁻¹ = (qpermOp m)ᵀ :=
  Matrix.inv_eq_right_inv (qpermOp_mul_transpose m hv)

include hv in
theorem qpermOp_transpose_mul : (qpermOp m)ᵀ * qpermOp m = 1 :=
  mul_eq_one_comm.mp (qpermOp_mul_transpose m hv)

include hv in
/-- **Relabelling the qubits conjugates the operation by the qubit permutation**, for every combination of
    measurement and reset outcomes. -/
theorem map_sem (stmts : List (Stmt ℝ))
    (hs : ∀ s ∈ stmts, ∀ q ∈ s.qubits, 0 ≤ q ∧ q < (m.length : Int)) (o : List Bool) :
    circOp m.length (stmts.map (Stmt.mapQubits m)) o
      = qpermOp m * circOp m.length stmts o * (qpermOp m)⁻¹ := by
  rw [qpermOp_inv m hv, qpermOp_conj m, circOp_mapQubits m hv stmts hs o]

include hv in
/-- relabelling respects circuit equivalence (same phase) -/
theorem map_sem_equiv (s1 s2 : List (Stmt ℝ))
    (h1 : ∀ s ∈ s1, ∀ q ∈ s.qubits, 0 ≤ q ∧ q < (m.length : Int))
    (h2 : ∀ s ∈ s2, ∀ q ∈ s.qubits, 0 ≤ q ∧ q < (m.length : Int))
    (h : CircEquiv m.length s1 s2) :
    CircEquiv m.length (s1.map (Stmt.mapQubits m)) (s2.map (Stmt.mapQubits m)) := by
  obtain ⟨z, hz, H⟩ := h
  refine ⟨z, hz, ?_⟩
  intro o
  rw [map_sem m hv s1 h1, map_sem m hv s2 h2, H]
  simp only [Matrix.mul_smul, Matrix.smul_mul]

end mapping

/-- **the `remap` pass** (C03/C05) with a valid mapping of the size of the register: it succeeds and the new
    circuit implements `P · (original) · P⁻¹`. -/
theorem remap_sem (m : List Int) (hv : mappingValid m = true) (c : Circuit ℝ) (hn : c.nQubits = m.length)
    (hs : ∀ s ∈ c.stmts, ∀ q ∈ s.allQubits, 0 ≤ q ∧ q < (m.length : Int)) (o : List Bool) :
    (remap m c).2 = none ∧
      circOp m.length (remap m c).1.stmts o = qpermOp m * circOp m.length c.stmts o * (qpermOp m)⁻¹ := by
  have h1 : ¬ (m.length > c.nQubits) := by omega
  have h2 : (c.stmts.all fun s => s.allQubits.all fun q => decide (0 ≤ q) && decide (q < m.length)) = true := by
    rw [List.all_eq_true]
    intro s hs'
    rw [List.all_eq_true]
    intro q hq
    have := hs s hs' q hq
    simp [this.1, this.2]
  have hr : remap m c = ({ c with stmts := c.stmts.map (Stmt.mapQubits m) }, none) := by
    simp only [remap, h1, h2, if_false, Bool.not_true, Bool.false_eq_true]
  rw [hr]
  refine ⟨rfl, ?_⟩
  apply map_sem m hv
  intro s hs' q hq
  exact hs s hs' q (by simp [Stmt.allQubits, hq])

/-! ## Non-vacuity -/

-- swapping the two qubits of a 2-qubit register: `m = [1, 0]`
example : mappingValid [1, 0] = true := by decide

-- `P |01⟩ = |10⟩`: the entry `(2, 1)` of the permutation matrix is `1`
example : qpermOp [1, 0] ⟨2, by decide⟩ ⟨1, by decide⟩ = 1 := by
  rw [qpermOp_apply, if_pos]
  apply Fin.ext; decide

example (g : Gate ℝ) (hg : g.inReg 2) (o : List Bool) :
    circOp 2 ([.measure 0 0 (0, 0, 1) none, .gate g none, .reset 1 none].map (Stmt.mapQubits [1, 0])) o
      = qpermOp [1, 0] * circOp 2 [.measure 0 0 (0, 0, 1) none, .gate g none, .reset 1 none] o
          * (qpermOp [1, 0])⁻¹ := by
  apply map_sem [1, 0] (by decide)
  intro s hs q hq
  simp only [List.mem_cons, List.not_mem_nil, or_false] at hs
  rcases hs with rfl | rfl | rfl
  · simp [Stmt.qubits] at hq; subst hq; decide
  · exact hg q hq
  · simp [Stmt.qubits] at hq; subst hq; decide

end OSq

#print axioms OSq.pos_mapQubits
#print axioms OSq.gateOp_mapQubits
#print axioms OSq.stmtOp_mapQubits
#print axioms OSq.circOp_mapQubits
#print axioms OSq.qpermOp_eq_one_iff
#print axioms OSq.qpermOp_conj
#print axioms OSq.qpermOp_inv
#print axioms OSq.map_sem
#print axioms OSq.map_sem_equiv
#print axioms OSq.remap_sem
