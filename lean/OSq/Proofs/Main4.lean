import OSq.Proofs.MergeSemReal
/-
  OSq.Proofs.Main4 — **the merge pass does not raise under the analytic crisp hypotheses** `CrispR` (companion of
  `merge_sem_real` / `merge_sem_global_real`, which take "no exception" as a hypothesis).

  * `mergeLoop_total_of_crispR`   in-range operands, accumulators with unit axes (`AccGood`), `CrispR` along the run ⇒
                                  the model's `mergeLoop` ends in `.inr` (no `KeyError`, no failed composition)
  * `merge_no_error_of_crispR`    `OperandsInRange`, `0 < atol ≤ π`, `CrispR` ⇒ `(merge atol c).2 = none`
-/
set_option linter.unusedSectionVars false
set_option linter.unusedVariables false
namespace OSq
open Real MergeAbs Function

variable {M : Type} [Monoid M]

theorem mergeLoop_total_of_crispR (atol : ℝ) (hatol : 0 < atol) (hpi : atol ≤ Real.pi) (S : Sem PQuat M (Stmt ℝ))
    (htouch : ∀ s : Stmt ℝ, S.touches s = s.qubits.map Int.toNat) (n : ℕ) (rest : List (Stmt ℝ)) :
    ∀ (accs : Array (Rot ℝ)) (out : List (Stmt ℝ)), accs.size = n → AccOK accs → OperandsInRange n rest →
      (∀ q, AccGood atol (absAccs atol accs q)) →
      CrispR atol S n (absState atol accs out) (rest.map absStmt) →
      ∃ accs' out', mergeLoop atol accs out rest = .inr (accs', out') := by
  induction rest with
  | nil =>
    intro accs out _ _ _ _ _
    exact ⟨accs, out, mergeLoop_nil atol accs out⟩
  | cons s rest ih =>
    intro accs out hsz hok hr hg hcr
    have hr' : OperandsInRange n rest := fun s' hs' => hr s' (List.mem_cons_of_mem _ hs')
    cases hb : s.isBSR with
    | true =>
      cases s with
      | gate g nm =>
        cases g with
        | bsr q0 ax an ph =>
          have hin : inRange n q0 = true := hr _ List.mem_cons_self q0 (by simp [Stmt.qubits, Gate.operands])
          obtain ⟨acc0, hq0⟩ := accGet?_inRange accs q0 (by rw [hsz]; exact hin)
          obtain ⟨hq0nn, hget0⟩ := accGet?_some accs q0 acc0 hq0
          have hlt : q0.toNat < accs.size := by
            rcases Nat.lt_or_ge q0.toNat accs.size with h | h
            · exact h
            · rw [Array.getElem?_eq_none h] at hget0; cases hget0
          have hcr' : CrispPair atol ⟨q0, ax, an, ph, nm⟩ (absAccs atol accs q0.toNat) ∧
              CrispR atol S n (gstep S (modelAlg atol Rot.op) (absState atol accs out)
                (.rot q0.toNat ⟨q0, ax, an, ph, nm⟩)) (rest.map absStmt) := hcr
          obtain ⟨⟨hq, hux, hc, hrd⟩, hrest⟩ := hcr'
          rw [absAccs_get atol accs _ acc0 hget0] at hq hc hrd
          have hgacc : AccGood atol acc0 := by
            have := hg q0.toNat; rwa [absAccs_get atol accs _ acc0 hget0] at this
          obtain ⟨r, hokr⟩ := compose_ok_of_crisp atol hatol ⟨q0, ax, an, ph, nm⟩ acc0 hux hgacc.1 hq
            (fun hs => ⟨(hrd hs).1, (hrd hs).2.1, (hrd hs).2.2.1⟩)
          obtain ⟨_, hunit⟩ := compose_crisp_op atol hatol ⟨q0, ax, an, ph, nm⟩ acc0 r hux hgacc.1 hokr hc hrd
          rw [mergeLoop_bsr_ok atol accs out rest q0 ax an ph nm acc0 r hq0 hokr]
          have hrq : r.q = ((q0.toNat : Nat) : Int) := by
            rw [(composeRot_q atol _ _ _ hokr).2]; show q0 = _; omega
          have hstep : gstep S (modelAlg atol Rot.op) (absState atol accs out)
              (.rot q0.toNat ⟨q0, ax, an, ph, nm⟩) = absState atol (accs.set! q0.toNat r) out := by
            show (update (absAccs atol accs) q0.toNat
              (compTotal atol ⟨q0, ax, an, ph, nm⟩ (absAccs atol accs q0.toNat)), _) = _
            rw [absAccs_get atol accs _ acc0 hget0, compTotal_ok atol _ _ r hokr,
              ← absAccs_set atol accs _ _ hlt]
            rfl
          rw [hstep] at hrest
          refine ih _ _ (by simpa using hsz) (hok.set q0.toNat r hrq) hr' ?_ hrest
          intro q'
          rw [absAccs_set atol accs _ _ hlt]
          by_cases e : q' = q0.toNat
          · subst e
            rw [update_self]
            exact ⟨hunit, composeRot_isIdentity_angle_zero atol hatol _ _ r hokr⟩
          · rw [update_of_ne e]; exact hg q'
        | matrix m ops => simp [Stmt.isBSR] at hb
        | ctrl c g => simp [Stmt.isBSR] at hb
      | measure q b ax nm => simp [Stmt.isBSR] at hb
      | reset q nm => simp [Stmt.isBSR] at hb
      | comment c => simp [Stmt.isBSR] at hb
    | false =>
      obtain ⟨accs1, out1, hf, hsz1, hok1⟩ :=
        flushOps_ok atol n s.qubits (hr s List.mem_cons_self) accs out hsz hok
      obtain ⟨f1, f2, f3⟩ := flushOps_sim atol (Rot.op) s.qubits accs out accs1 out1 hok hf
      rw [mergeLoop_nonBSR_ok atol accs out rest s hb accs1 out1 hf]
      have hstep : gstep S (modelAlg atol Rot.op) (absState atol accs out) (absStmt s)
          = absState atol accs1 (s :: out1) := by
        rw [absStmt_nonBSR s hb]
        show ((gflush (modelAlg atol Rot.op) (S.touches s) (absState atol accs out)).1,
          St.bar s :: (gflush (modelAlg atol Rot.op) (S.touches s) (absState atol accs out)).2) = _
        rw [htouch, ← f3]
        simp [absState, absStmt_nonBSR s hb]
      have hcr' : CrispR atol S n (gstep S (modelAlg atol Rot.op) (absState atol accs out) (absStmt s))
          (rest.map absStmt) := by
        have : CrispR atol S n (absState atol accs out) (absStmt s :: rest.map absStmt) := hcr
        rw [absStmt_nonBSR s hb] at this ⊢
        exact this
      rw [hstep] at hcr'
      refine ih _ _ hsz1 hok1 hr' ?_ hcr'
      intro q
      have hgf := gflush_good atol hatol hpi (s.qubits.map Int.toNat) (absState atol accs out) hg q
      rw [← f3] at hgf
      exact hgf

/-- **the merge pass does not raise** when the operands are in range and the run is crisp (`CrispR`) -/
theorem merge_no_error_of_crispR (atol : ℝ) (hatol : 0 < atol) (hpi : atol ≤ Real.pi) (S : Sem PQuat M (Stmt ℝ))
    (htouch : ∀ s : Stmt ℝ, S.touches s = s.qubits.map Int.toNat)
    (c : Circuit ℝ) (hr : OperandsInRange c.nQubits c.stmts)
    (hc : CrispR atol S c.nQubits ((fun q => defaultI atol q), []) (c.stmts.map absStmt)) :
    (merge atol c).2 = none := by
  obtain ⟨hsz, hok⟩ := initAccs_ok atol c.nQubits
  have hinit : absState atol (Array.ofFn (n := c.nQubits) fun i => defaultI atol i.val) []
      = ((fun q => defaultI atol q), []) := absState_init atol c.nQubits
  obtain ⟨accs', out', h⟩ := mergeLoop_total_of_crispR atol hatol hpi S htouch c.nQubits c.stmts _ [] hsz hok hr
    (by
      intro q
      have := congrArg Prod.fst hinit
      simp only [absState] at this
      rw [this]
      exact defaultI_good atol hatol hpi q)
    (by rw [hinit]; exact hc)
  rw [merge_eq, h]

end OSq

#print axioms OSq.mergeLoop_total_of_crispR
#print axioms OSq.merge_no_error_of_crispR
