import OSq.Model.Mapping
import Batteries.Data.List.Perm
/-
  OSq.Proofs.Remap — structural theorems about `Mapping` validity, `Mapper` size check and the qubit remapper
  (`OSq/Model/Mapping.lean`; Python `mapper/mapping.py`, `mapper/general_mapper.py`, `mapper/qubit_remapper.py`).
  Valid for every scalar type `α` (no `[Scalar α]` needed).  The only non-core import is the single module
  `Batteries.Data.List.Perm` (pigeonhole: `subperm_of_subset`, `Subperm.perm_of_length_le`).

  Mapping / Mapper
  * `mappingValid_iff_perm`   a mapping is accepted iff it is a permutation of `0 … n-1`.
  * `mappingValid_iff_covers` … iff every key `0 … n-1` occurs among the values (the second half of the
                              Python test `keys == set(values)` is implied by the first: pigeonhole).
  * `mappingValid_nodup`, `mappingValid_range`   consequences: no repeated value; values stay in range.
  * `mkMapping_ok_iff`, `mkMapper_ok_iff`        the constructors succeed iff valid / iff sizes agree.
  Remapper, value model
  * `remap_fail_unchanged`    failure is atomic: the circuit is returned as it was.
  * `remap_error_value`       the only error is `ValueError`.
  * `remap_ok_iff`            success iff the mapping is not larger than the register and covers every qubit
                              used, in either view.
  * `remap_spec`              on success: statements are `map (Stmt.mapQubits m)`, registers unchanged.
  * `remap_length`, `remap_getElem?`   length and order of the statement list are unchanged.
  * view lemmas `Gate.operands_mapQubits` (any control depth), `Stmt.qubits_mapQubits`,
    `Stmt.qubitArgs_mapQubits` (argument view), `Stmt.allQubits_mapQubits`: every qubit occurrence, in both
    views, is relabelled by `mapIdx m`, exactly once.
  * unchanged parts: `Stmt.eraseQubits_mapQubits` (everything except qubit indices: statement kind, names,
    all non-qubit arguments, argument order and count, bit targets, comments, matrices, axes, angles,
    control nesting), and the readable corollaries `Stmt.kind_mapQubits`, `Stmt.isGate_mapQubits`,
    `Stmt.name_mapQubits`, `Stmt.bit_mapQubits`, `Stmt.measAxis_mapQubits`, `Stmt.mapQubits_comment`,
    `Named.args_mapQubits_getElem?`, `Arg.mapQubits_of_not_qubit`, `Named.nonQubitArgs_mapQubits`,
    `Gate.eraseQubits_mapQubits`.
  * `mapQubits_comp`          mapping with `m` and then with a left inverse `m'` restores every statement
                              whose qubits are in range.
  * `remap_inverse`           `remap m' (remap m c).1 = (c, none)`.
  * `invMapping`, `invMapping_left_inverse`, `remap_invMapping`   a valid mapping has such an inverse.
  Remapper, object-identity model
  * `visitCells_spec`         invariant of the visiting loop.
  * `heap_remap_once`         every reachable cell is relabelled exactly once, however often it is reachable;
  * `heap_remap_other`        every other cell is untouched; `heap_remap_ir`, `heap_remap_cellsOf`: the object
                              graph itself is unchanged.
-/
namespace OSq
variable {α : Type}

/-! ## Mapping validity -/

/-- the keys `0 … n-1` of `dict(enumerate(l))` -/
def keysOf (n : Nat) : List Int := (List.range n).map Int.ofNat

theorem mem_keysOf {n : Nat} {v : Int} : v ∈ keysOf n ↔ 0 ≤ v ∧ v < n := by
  simp only [keysOf, List.mem_map, List.mem_range, Int.ofNat_eq_natCast]
  constructor
  · rintro ⟨a, ha, rfl⟩; omega
  · rintro ⟨h0, h1⟩; exact ⟨v.toNat, by omega, by omega⟩

theorem nodup_keysOf (n : Nat) : (keysOf n).Nodup := by
  unfold keysOf
  rw [List.Nodup, List.pairwise_map]
  exact (List.nodup_range (n := n)).imp (fun {a b} h => by simp only [Int.ofNat_eq_natCast]; omega)

theorem length_keysOf (n : Nat) : (keysOf n).length = n := by simp [keysOf]

theorem mappingValid_iff (l : List Int) :
    mappingValid l = true ↔ (∀ k ∈ keysOf l.length, k ∈ l) ∧ (∀ v ∈ l, v ∈ keysOf l.length) := by
  simp only [mappingValid, keysOf, Bool.and_eq_true, List.all_eq_true, List.contains_iff_mem]

/-- pigeonhole: a list of length `n` containing all of `0 … n-1` is a permutation of it -/
theorem perm_of_covers (l : List Int) (h : ∀ k ∈ keysOf l.length, k ∈ l) : l.Perm (keysOf l.length) := by
  have hsub : (keysOf l.length).Subperm l := List.subperm_of_subset (nodup_keysOf _) h
  exact (hsub.perm_of_length_le (by rw [length_keysOf]; exact Nat.le_refl _)).symm

/-- **A mapping is accepted iff it is a permutation of `0 … n-1`.** -/
theorem mappingValid_iff_perm (l : List Int) :
    mappingValid l = true ↔ l.Perm ((List.range l.length).map Int.ofNat) := by
  rw [mappingValid_iff]
  constructor
  · rintro ⟨h, _⟩; exact perm_of_covers l h
  · intro hp
    exact ⟨fun k hk => hp.mem_iff.2 hk, fun v hv => hp.mem_iff.1 hv⟩

/-- The first half of the Python test already decides validity. -/
theorem mappingValid_iff_covers (l : List Int) :
    mappingValid l = true ↔ ∀ k : Nat, k < l.length → (k : Int) ∈ l := by
  constructor
  · intro h k hk
    exact ((mappingValid_iff l).1 h).1 k (mem_keysOf.2 ⟨by omega, by omega⟩)
  · intro h
    rw [mappingValid_iff_perm]
    apply perm_of_covers
    intro k hk
    obtain ⟨h0, h1⟩ := mem_keysOf.1 hk
    have := h k.toNat (by omega)
    rwa [Int.toNat_of_nonneg h0] at this

theorem mappingValid_nodup (l : List Int) (h : mappingValid l = true) : l.Nodup :=
  ((mappingValid_iff_perm l).1 h).nodup_iff.2 (nodup_keysOf _)

theorem mappingValid_range (l : List Int) (h : mappingValid l = true) (v : Int) (hv : v ∈ l) :
    0 ≤ v ∧ v < l.length :=
  mem_keysOf.1 (((mappingValid_iff l).1 h).2 v hv)

theorem mkMapping_ok_iff (l : List Int) : mkMapping l = .ok l ↔ mappingValid l = true := by
  unfold mkMapping; split <;> simp_all

theorem mkMapping_error_iff (l : List Int) : mkMapping l = .error .value ↔ mappingValid l = false := by
  unfold mkMapping; split <;> simp_all

/-- **`Mapper.__init__` succeeds iff the mapping has exactly the register size.** -/
theorem mkMapper_ok_iff (n : Nat) (m : List Int) : mkMapper n m = .ok m ↔ m.length = n := by
  unfold mkMapper; split <;> simp_all

theorem mkMapper_error_iff (n : Nat) (m : List Int) : mkMapper n m = .error .value ↔ m.length ≠ n := by
  unfold mkMapper; split <;> simp_all

/-! ## `mapIdx` -/

theorem mapIdx_of_lt (m : List Int) (i : Nat) (h : i < m.length) : mapIdx m (i : Int) = m[i] := by
  simp [mapIdx, List.getD_eq_getElem?_getD, h]

theorem mapIdx_neg (m : List Int) (q : Int) (h : q < 0) : mapIdx m q = q := by
  simp [mapIdx]; omega

theorem mapIdx_mem (m : List Int) (q : Int) (h0 : 0 ≤ q) (h1 : q < m.length) : mapIdx m q ∈ m := by
  have : q = (q.toNat : Int) := by omega
  rw [this, mapIdx_of_lt m q.toNat (by omega)]
  exact List.getElem_mem _

/-- for a valid mapping the image of an in-range index is in range -/
theorem mapIdx_range (m : List Int) (hv : mappingValid m = true) (q : Int) (h0 : 0 ≤ q)
    (h1 : q < m.length) : 0 ≤ mapIdx m q ∧ mapIdx m q < m.length :=
  mappingValid_range m hv _ (mapIdx_mem m q h0 h1)

/-! ## Relabelling with an arbitrary function (auxiliary), and `mapQubits` as an instance -/

def Gate.mapQ (f : Int → Int) : Gate α → Gate α
  | .bsr q ax an ph => .bsr (f q) ax an ph
  | .matrix mt ops => .matrix mt (ops.map f)
  | .ctrl c g => .ctrl (f c) (g.mapQ f)

def Arg.mapQ (f : Int → Int) : Arg α → Arg α
  | .qubit i => .qubit (f i)
  | a => a

def Named.mapQ (f : Int → Int) (nm : Named α) : Named α :=
  { nm with args := nm.args.map (Arg.mapQ f) }

def Stmt.mapQ (f : Int → Int) : Stmt α → Stmt α
  | .gate g nm => .gate (g.mapQ f) (nm.map (Named.mapQ f))
  | .measure q b ax nm => .measure (f q) b ax (nm.map (Named.mapQ f))
  | .reset q nm => .reset (f q) (nm.map (Named.mapQ f))
  | .comment s => .comment s

theorem Gate.mapQubits_eq_mapQ (m : List Int) (g : Gate α) : g.mapQubits m = g.mapQ (mapIdx m) := by
  induction g with
  | bsr q ax an ph => rfl
  | matrix mt ops => rfl
  | ctrl c g ih => simp [Gate.mapQubits, Gate.mapQ, ih]

theorem Arg.mapQubits_eq_mapQ (m : List Int) (a : Arg α) : a.mapQubits m = a.mapQ (mapIdx m) := by
  cases a <;> rfl

theorem Named.mapQubits_eq_mapQ (m : List Int) (nm : Named α) : nm.mapQubits m = nm.mapQ (mapIdx m) := by
  simp only [Named.mapQubits, Named.mapQ]
  congr 1

theorem Stmt.mapQubits_eq_mapQ (m : List Int) (s : Stmt α) : s.mapQubits m = s.mapQ (mapIdx m) := by
  have hn : ∀ nm : Option (Named α), nm.map (Named.mapQubits m) = nm.map (Named.mapQ (mapIdx m)) := by
    intro nm; cases nm <;> simp [Named.mapQubits_eq_mapQ]
  cases s <;> simp [Stmt.mapQubits, Stmt.mapQ, hn, Gate.mapQubits_eq_mapQ]

theorem Gate.operands_mapQ (f : Int → Int) (g : Gate α) : (g.mapQ f).operands = g.operands.map f := by
  induction g with
  | bsr q ax an ph => rfl
  | matrix mt ops => rfl
  | ctrl c g ih => simp [Gate.mapQ, Gate.operands, ih]

theorem Named.qubitArgs_mapQ (f : Int → Int) (nm : Named α) :
    (nm.mapQ f).qubitArgs = nm.qubitArgs.map f := by
  simp only [Named.qubitArgs, Named.mapQ]
  induction nm.args with
  | nil => rfl
  | cons a as ih => cases a <;> simp_all [Arg.mapQ]

theorem Stmt.qubits_mapQ (f : Int → Int) (s : Stmt α) : (s.mapQ f).qubits = s.qubits.map f := by
  cases s <;> simp [Stmt.mapQ, Stmt.qubits, Gate.operands_mapQ]

theorem Stmt.named_mapQ (f : Int → Int) (s : Stmt α) : (s.mapQ f).named = s.named.map (Named.mapQ f) := by
  cases s <;> rfl

theorem Stmt.allQubits_mapQ (f : Int → Int) (s : Stmt α) : (s.mapQ f).allQubits = s.allQubits.map f := by
  simp only [Stmt.allQubits, Stmt.qubits_mapQ, Stmt.named_mapQ, List.map_append]
  cases s.named <;> simp [Named.qubitArgs_mapQ]

theorem Gate.mapQ_comp (f g : Int → Int) (x : Gate α) : (x.mapQ g).mapQ f = x.mapQ (f ∘ g) := by
  induction x with
  | bsr q ax an ph => rfl
  | matrix mt ops => simp [Gate.mapQ]
  | ctrl c x ih => simp [Gate.mapQ, ih]

theorem Arg.mapQ_comp (f g : Int → Int) (a : Arg α) : (a.mapQ g).mapQ f = a.mapQ (f ∘ g) := by
  cases a <;> rfl

theorem Named.mapQ_comp (f g : Int → Int) (nm : Named α) : (nm.mapQ g).mapQ f = nm.mapQ (f ∘ g) := by
  simp only [Named.mapQ, List.map_map]
  congr 1
  exact List.map_congr_left (fun a _ => Arg.mapQ_comp f g a)

theorem Stmt.mapQ_comp (f g : Int → Int) (s : Stmt α) : (s.mapQ g).mapQ f = s.mapQ (f ∘ g) := by
  have hn : ∀ nm : Option (Named α),
      (nm.map (Named.mapQ g)).map (Named.mapQ f) = nm.map (Named.mapQ (f ∘ g)) := by
    intro nm; cases nm <;> simp [Named.mapQ_comp]
  cases s <;> simp [Stmt.mapQ, hn, Gate.mapQ_comp]

theorem Gate.mapQ_id_on (f : Int → Int) (g : Gate α) (h : ∀ q ∈ g.operands, f q = q) : g.mapQ f = g := by
  induction g with
  | bsr q ax an ph => simp [Gate.mapQ, h q (by simp [Gate.operands])]
  | matrix mt ops =>
    simp only [Gate.mapQ, Gate.matrix.injEq, true_and]
    calc ops.map f = ops.map id := List.map_congr_left (fun q hq => h q hq)
      _ = ops := List.map_id _
  | ctrl c g ih =>
    simp only [Gate.operands, List.mem_cons] at h
    simp [Gate.mapQ, h c (Or.inl rfl), ih (fun q hq => h q (Or.inr hq))]

theorem mem_qubitArgs (nm : Named α) (i : Int) : i ∈ nm.qubitArgs ↔ Arg.qubit i ∈ nm.args := by
  simp only [Named.qubitArgs, List.mem_filterMap]
  constructor
  · rintro ⟨a, ha, h⟩
    cases a <;> simp at h
    subst h; exact ha
  · intro h; exact ⟨_, h, rfl⟩

theorem Named.mapQ_id_on (f : Int → Int) (nm : Named α) (h : ∀ q ∈ nm.qubitArgs, f q = q) :
    nm.mapQ f = nm := by
  cases nm with
  | mk name args =>
    simp only [Named.mapQ, Named.mk.injEq, true_and]
    calc args.map (Arg.mapQ f) = args.map id := by
          apply List.map_congr_left
          intro a ha
          cases a with
          | qubit i => simp [Arg.mapQ, h i ((mem_qubitArgs ⟨name, args⟩ i).2 ha)]
          | _ => rfl
      _ = args := List.map_id _

theorem Stmt.mapQ_id_on (f : Int → Int) (s : Stmt α) (h : ∀ q ∈ s.allQubits, f q = q) : s.mapQ f = s := by
  have hq : ∀ q ∈ s.qubits, f q = q := fun q hq => h q (by simp [Stmt.allQubits, hq])
  have hn : s.named.map (Named.mapQ f) = s.named := by
    cases hnm : s.named with
    | none => rfl
    | some nm =>
      simp only [Option.map_some, Option.some.injEq]
      exact Named.mapQ_id_on f nm (fun q hq => h q (by simp [Stmt.allQubits, hnm, hq]))
  cases s with
  | gate g nm =>
    simp only [Stmt.named] at hn
    simp only [Stmt.mapQ, hn]
    rw [Gate.mapQ_id_on f g hq]
  | measure q b ax nm =>
    simp only [Stmt.named] at hn
    simp [Stmt.mapQ, hn, hq q (by simp [Stmt.qubits])]
  | reset q nm =>
    simp only [Stmt.named] at hn
    simp [Stmt.mapQ, hn, hq q (by simp [Stmt.qubits])]
  | comment c => rfl

/-! ## View lemmas for `mapQubits`: every qubit occurrence is relabelled by `mapIdx m` -/

/-- semantic view of a gate, at any control depth -/
theorem Gate.operands_mapQubits (m : List Int) (g : Gate α) :
    (g.mapQubits m).operands = g.operands.map (mapIdx m) := by
  rw [Gate.mapQubits_eq_mapQ, Gate.operands_mapQ]

/-- semantic view of a statement -/
theorem Stmt.qubits_mapQubits (m : List Int) (s : Stmt α) :
    (s.mapQubits m).qubits = s.qubits.map (mapIdx m) := by
  rw [Stmt.mapQubits_eq_mapQ, Stmt.qubits_mapQ]

theorem Named.qubitArgs_mapQubits (m : List Int) (nm : Named α) :
    (nm.mapQubits m).qubitArgs = nm.qubitArgs.map (mapIdx m) := by
  rw [Named.mapQubits_eq_mapQ, Named.qubitArgs_mapQ]

/-- argument view of a statement -/
theorem Stmt.qubitArgs_mapQubits (m : List Int) (s : Stmt α) :
    ((s.mapQubits m).named.map Named.qubitArgs) =
      (s.named.map fun nm => nm.qubitArgs.map (mapIdx m)) := by
  rw [Stmt.mapQubits_eq_mapQ, Stmt.named_mapQ]
  cases s.named <;> simp [Named.qubitArgs_mapQ]

/-- both views together (what `_QubitCollector` sees) -/
theorem Stmt.allQubits_mapQubits (m : List Int) (s : Stmt α) :
    (s.mapQubits m).allQubits = s.allQubits.map (mapIdx m) := by
  rw [Stmt.mapQubits_eq_mapQ, Stmt.allQubits_mapQ]

/-! ## What `mapQubits` leaves alone -/

/-- forget all qubit indices (both views), keep everything else -/
def Gate.eraseQubits (g : Gate α) : Gate α := g.mapQ (fun _ => 0)
def Stmt.eraseQubits (s : Stmt α) : Stmt α := s.mapQ (fun _ => 0)

/-- matrices, axes, angles, phases, control nesting and operand counts are unchanged -/
theorem Gate.eraseQubits_mapQubits (m : List Int) (g : Gate α) :
    (g.mapQubits m).eraseQubits = g.eraseQubits := by
  rw [Gate.mapQubits_eq_mapQ, Gate.eraseQubits, Gate.mapQ_comp]; rfl

/-- **Everything except the qubit indices is unchanged**: statement kind, generator names, every non-qubit
    argument, number and order of arguments, bit targets, measurement axes, comments, gate matrices, axes,
    angles, phases, control nesting. -/
theorem Stmt.eraseQubits_mapQubits (m : List Int) (s : Stmt α) :
    (s.mapQubits m).eraseQubits = s.eraseQubits := by
  rw [Stmt.mapQubits_eq_mapQ, Stmt.eraseQubits, Stmt.mapQ_comp]; rfl

def Stmt.kind : Stmt α → Nat
  | .gate _ _ => 0 | .measure _ _ _ _ => 1 | .reset _ _ => 2 | .comment _ => 3
def Stmt.bit? : Stmt α → Option Int
  | .measure _ b _ _ => some b | _ => none
def Stmt.measAxis? : Stmt α → Option (Vec3 α)
  | .measure _ _ ax _ => some ax | _ => none
def Arg.isQubit : Arg α → Bool
  | .qubit _ => true | _ => false

theorem Stmt.kind_mapQubits (m : List Int) (s : Stmt α) : (s.mapQubits m).kind = s.kind := by
  cases s <;> rfl
theorem Stmt.isGate_mapQubits (m : List Int) (s : Stmt α) : (s.mapQubits m).isGate = s.isGate := by
  cases s <;> rfl
theorem Stmt.bit_mapQubits (m : List Int) (s : Stmt α) : (s.mapQubits m).bit? = s.bit? := by
  cases s <;> rfl
theorem Stmt.measAxis_mapQubits (m : List Int) (s : Stmt α) : (s.mapQubits m).measAxis? = s.measAxis? := by
  cases s <;> rfl
theorem Stmt.mapQubits_comment (m : List Int) (t : String) :
    (Stmt.comment t : Stmt α).mapQubits m = .comment t := rfl
theorem Stmt.named_mapQubits (m : List Int) (s : Stmt α) :
    (s.mapQubits m).named = s.named.map (Named.mapQubits m) := by
  cases s <;> rfl
theorem Named.name_mapQubits (m : List Int) (nm : Named α) : (nm.mapQubits m).name = nm.name := rfl
theorem Stmt.name_mapQubits (m : List Int) (s : Stmt α) :
    (s.mapQubits m).named.map (·.name) = s.named.map (·.name) := by
  rw [Stmt.named_mapQubits]; cases s.named <;> rfl
theorem Named.args_length_mapQubits (m : List Int) (nm : Named α) :
    (nm.mapQubits m).args.length = nm.args.length := by
  simp [Named.mapQubits]
/-- arguments keep their position; each is mapped on its own -/
theorem Named.args_mapQubits_getElem? (m : List Int) (nm : Named α) (i : Nat) :
    (nm.mapQubits m).args[i]? = nm.args[i]?.map (Arg.mapQubits m) := by
  simp [Named.mapQubits]
theorem Arg.mapQubits_qubit (m : List Int) (i : Int) :
    (Arg.qubit i : Arg α).mapQubits m = .qubit (mapIdx m i) := rfl
/-- bits, integers and floats among the arguments are untouched -/
theorem Arg.mapQubits_of_not_qubit (m : List Int) (a : Arg α) (h : a.isQubit = false) :
    a.mapQubits m = a := by
  cases a <;> first | rfl | simp [Arg.isQubit] at h
theorem Arg.isQubit_mapQubits (m : List Int) (a : Arg α) : (a.mapQubits m).isQubit = a.isQubit := by
  cases a <;> rfl
theorem Named.nonQubitArgs_mapQubits (m : List Int) (nm : Named α) :
    (nm.mapQubits m).args.filter (fun a => !a.isQubit) = nm.args.filter (fun a => !a.isQubit) := by
  simp only [Named.mapQubits, List.filter_map]
  induction nm.args with
  | nil => rfl
  | cons a as ih =>
    cases a <;> simp_all [Arg.isQubit, Arg.mapQubits, Function.comp]
/-- the three constructors of `Gate`: only the qubit slots change -/
theorem Gate.mapQubits_bsr (m : List Int) (q : Int) (ax : Vec3 α) (an ph : α) :
    (Gate.bsr q ax an ph).mapQubits m = .bsr (mapIdx m q) ax an ph := rfl
theorem Gate.mapQubits_matrix (m : List Int) (mt : Mat α) (ops : List Int) :
    (Gate.matrix mt ops).mapQubits m = .matrix mt (ops.map (mapIdx m)) := rfl
theorem Gate.mapQubits_ctrl (m : List Int) (c : Int) (g : Gate α) :
    (Gate.ctrl c g).mapQubits m = .ctrl (mapIdx m c) (g.mapQubits m) := rfl

/-! ## `remap` -/

/-- the mapping covers every qubit the circuit uses, in either view -/
def Covers (m : List Int) (c : Circuit α) : Prop :=
  ∀ s ∈ c.stmts, ∀ q ∈ s.allQubits, 0 ≤ q ∧ q < m.length

theorem remap_check_iff (m : List Int) (c : Circuit α) :
    (c.stmts.all fun s => s.allQubits.all fun q => decide (0 ≤ q) && decide (q < m.length)) = true ↔
      Covers m c := by
  simp [Covers, List.all_eq_true]

theorem remap_of_ok (m : List Int) (c : Circuit α) (h1 : m.length ≤ c.nQubits) (h2 : Covers m c) :
    remap m c = ({ c with stmts := c.stmts.map (Stmt.mapQubits m) }, none) := by
  unfold remap
  rw [if_neg (by omega), if_neg (by rw [(remap_check_iff m c).2 h2]; simp)]

theorem remap_of_fail (m : List Int) (c : Circuit α) (h : ¬ (m.length ≤ c.nQubits ∧ Covers m c)) :
    remap m c = (c, some .value) := by
  unfold remap
  by_cases h1 : m.length > c.nQubits
  · rw [if_pos h1]
  · rw [if_neg h1, if_pos]
    have : ¬ Covers m c := fun hc => h ⟨by omega, hc⟩
    rw [← remap_check_iff] at this
    simpa using this

theorem remap_cases (m : List Int) (c : Circuit α) :
    (m.length ≤ c.nQubits ∧ Covers m c ∧
        remap m c = ({ c with stmts := c.stmts.map (Stmt.mapQubits m) }, none)) ∨
    (¬ (m.length ≤ c.nQubits ∧ Covers m c) ∧ remap m c = (c, some .value)) := by
  by_cases h : m.length ≤ c.nQubits ∧ Covers m c
  · exact Or.inl ⟨h.1, h.2, remap_of_ok m c h.1 h.2⟩
  · exact Or.inr ⟨h, remap_of_fail m c h⟩

/-- **Failure is atomic**: when the remapper raises, nothing has been relabelled. -/
theorem remap_fail_unchanged (m : List Int) (c : Circuit α) (e : Err) (h : (remap m c).2 = some e) :
    (remap m c).1 = c := by
  rcases remap_cases m c with ⟨_, _, hr⟩ | ⟨_, hr⟩
  · rw [hr] at h; cases h
  · rw [hr]

theorem remap_error_value (m : List Int) (c : Circuit α) (e : Err) (h : (remap m c).2 = some e) :
    e = .value := by
  rcases remap_cases m c with ⟨_, _, hr⟩ | ⟨_, hr⟩
  · rw [hr] at h; cases h
  · rw [hr] at h; cases h; rfl

/-- **Invalid mappings are rejected, valid ones accepted**: success iff the mapping is not larger than the
    register and covers every qubit the circuit uses (in either view). -/
theorem remap_ok_iff (m : List Int) (c : Circuit α) :
    (remap m c).2 = none ↔
      m.length ≤ c.nQubits ∧ ∀ s ∈ c.stmts, ∀ q ∈ s.allQubits, 0 ≤ q ∧ q < m.length := by
  rcases remap_cases m c with ⟨h1, h2, hr⟩ | ⟨hn, hr⟩
  · rw [hr]; exact ⟨fun _ => ⟨h1, h2⟩, fun _ => rfl⟩
  · rw [hr]; exact ⟨fun h => (by simp at h), fun h => absurd h hn⟩

/-- **Every statement is relabelled, once, in place; registers are unchanged.** -/
theorem remap_spec (m : List Int) (c : Circuit α) (h : (remap m c).2 = none) :
    (remap m c).1.stmts = c.stmts.map (Stmt.mapQubits m) ∧
      (remap m c).1.nQubits = c.nQubits ∧ (remap m c).1.nBits = c.nBits := by
  rcases remap_cases m c with ⟨_, _, hr⟩ | ⟨_, hr⟩
  · rw [hr]; exact ⟨rfl, rfl, rfl⟩
  · rw [hr] at h; cases h

theorem remap_length (m : List Int) (c : Circuit α) : (remap m c).1.stmts.length = c.stmts.length := by
  rcases remap_cases m c with ⟨_, _, hr⟩ | ⟨_, hr⟩ <;> rw [hr] <;> simp

theorem remap_getElem? (m : List Int) (c : Circuit α) (h : (remap m c).2 = none) (k : Nat) :
    (remap m c).1.stmts[k]? = c.stmts[k]?.map (Stmt.mapQubits m) := by
  rw [(remap_spec m c h).1]; simp

/-! ## Composition and inverse -/

/-- Mapping with `m` and then with a left inverse `m'` of `m` restores every statement whose qubits
    (both views) are all in `0 … m.length-1`. -/
theorem mapQubits_comp (m m' : List Int)
    (hinv : ∀ i : Nat, i < m.length → mapIdx m' (mapIdx m (i : Int)) = (i : Int))
    (s : Stmt α) (hs : ∀ q ∈ s.allQubits, 0 ≤ q ∧ q < m.length) :
    (s.mapQubits m).mapQubits m' = s := by
  rw [Stmt.mapQubits_eq_mapQ, Stmt.mapQubits_eq_mapQ, Stmt.mapQ_comp]
  apply Stmt.mapQ_id_on
  intro q hq
  obtain ⟨h0, h1⟩ := hs q hq
  have := hinv q.toNat (by omega)
  rwa [Int.toNat_of_nonneg h0] at this

/-- **Remapping with the inverse mapping restores the circuit.** -/
theorem remap_inverse (m m' : List Int) (c : Circuit α)
    (hm : m.length = c.nQubits) (hm' : m'.length = c.nQubits) (hv : mappingValid m = true)
    (hcov : ∀ s ∈ c.stmts, ∀ q ∈ s.allQubits, 0 ≤ q ∧ q < m.length)
    (hinv : ∀ i : Nat, i < m.length → mapIdx m' (mapIdx m (i : Int)) = (i : Int)) :
    remap m' (remap m c).1 = (c, none) := by
  rw [remap_of_ok m c (by omega) hcov]
  have hcov' : Covers m' ({ c with stmts := c.stmts.map (Stmt.mapQubits m) } : Circuit α) := by
    intro s hs q hq
    simp only [List.mem_map] at hs
    obtain ⟨s0, hs0, rfl⟩ := hs
    rw [Stmt.allQubits_mapQubits, List.mem_map] at hq
    obtain ⟨q0, hq0, rfl⟩ := hq
    obtain ⟨h0, h1⟩ := hcov s0 hs0 q0 hq0
    have := mapIdx_range m hv q0 h0 h1
    omega
  rw [remap_of_ok m' _ (by simp; omega) hcov']
  simp only [List.map_map, Prod.mk.injEq, and_true]
  have : c.stmts.map (Stmt.mapQubits m' ∘ Stmt.mapQubits m) = c.stmts := by
    calc c.stmts.map (Stmt.mapQubits m' ∘ Stmt.mapQubits m) = c.stmts.map id :=
          List.map_congr_left (fun s hs => mapQubits_comp m m' hinv s (hcov s hs))
      _ = c.stmts := List.map_id _
  rw [this]

/-- the inverse of a valid mapping: position of `k` among the values -/
def invMapping (m : List Int) : List Int :=
  (List.range m.length).map fun k => Int.ofNat (m.idxOf (Int.ofNat k))

theorem length_invMapping (m : List Int) : (invMapping m).length = m.length := by simp [invMapping]

theorem invMapping_left_inverse (m : List Int) (hv : mappingValid m = true) (i : Nat) (hi : i < m.length) :
    mapIdx (invMapping m) (mapIdx m (i : Int)) = (i : Int) := by
  rw [mapIdx_of_lt m i hi]
  obtain ⟨h0, h1⟩ := mappingValid_range m hv m[i] (List.getElem_mem _)
  have hk : m[i] = ((m[i]).toNat : Int) := by omega
  rw [hk, mapIdx_of_lt _ _ (by rw [length_invMapping]; omega)]
  simp only [invMapping, List.getElem_map, List.getElem_range, Int.ofNat_eq_natCast]
  rw [← hk, (mappingValid_nodup m hv).idxOf_getElem]

/-- every valid mapping of register size can be undone -/
theorem remap_invMapping (m : List Int) (c : Circuit α)
    (hm : m.length = c.nQubits) (hv : mappingValid m = true)
    (hcov : ∀ s ∈ c.stmts, ∀ q ∈ s.allQubits, 0 ≤ q ∧ q < m.length) :
    remap (invMapping m) (remap m c).1 = (c, none) :=
  remap_inverse m (invMapping m) c hm (by rw [length_invMapping]; exact hm) hv hcov
    (invMapping_left_inverse m hv)

/-! ## Object-identity (heap) model -/

/-- Invariant of the visiting loop.  After visiting `cs` from the state `(val, seen)`:
    cells already seen keep their value; unseen cells that occur in `cs` are relabelled exactly once
    (no matter how often they occur); all other cells keep their value. -/
theorem visitCells_spec (m : List Int) (cs : List Nat) (val : Nat → Int) (seen : List Nat) (x : Nat) :
    (Heap.visitCells m cs (val, seen)).1 x =
      if x ∉ seen ∧ x ∈ cs then mapIdx m (val x) else val x := by
  induction cs generalizing val seen with
  | nil => simp [Heap.visitCells]
  | cons c cs ih =>
    by_cases hc : c ∈ seen
    · have : Heap.visitCells m (c :: cs) (val, seen) = Heap.visitCells m cs (val, seen) := by
        simp [Heap.visitCells, hc]
      rw [this, ih]
      by_cases hx : x ∈ seen
      · simp [hx]
      · have : x ≠ c := fun h => hx (h ▸ hc)
        simp [hx, this]
    · have : Heap.visitCells m (c :: cs) (val, seen) =
          Heap.visitCells m cs ((fun x => if x = c then mapIdx m (val c) else val x), c :: seen) := by
        simp [Heap.visitCells, hc]
      rw [this, ih]
      by_cases hxc : x = c
      · subst hxc; simp [hc]
      · by_cases hx : x ∈ seen
        · simp [hx, hxc]
        · simp [hx, hxc]

/-- the set of visited cells after the loop -/
theorem visitCells_seen (m : List Int) (cs : List Nat) (val : Nat → Int) (seen : List Nat) (x : Nat) :
    x ∈ (Heap.visitCells m cs (val, seen)).2 ↔ x ∈ seen ∨ x ∈ cs := by
  induction cs generalizing val seen with
  | nil => simp [Heap.visitCells]
  | cons c cs ih =>
    by_cases hc : c ∈ seen
    · have : Heap.visitCells m (c :: cs) (val, seen) = Heap.visitCells m cs (val, seen) := by
        simp [Heap.visitCells, hc]
      rw [this, ih]
      constructor
      · rintro (h | h)
        · exact Or.inl h
        · exact Or.inr (List.mem_cons_of_mem _ h)
      · rintro (h | h)
        · exact Or.inl h
        · rcases List.mem_cons.1 h with rfl | h
          · exact Or.inl hc
          · exact Or.inr h
    · have : Heap.visitCells m (c :: cs) (val, seen) =
          Heap.visitCells m cs ((fun x => if x = c then mapIdx m (val c) else val x), c :: seen) := by
        simp [Heap.visitCells, hc]
      rw [this, ih]
      simp only [List.mem_cons]
      constructor
      · rintro ((rfl | h) | h)
        · exact Or.inr (Or.inl rfl)
        · exact Or.inl h
        · exact Or.inr (Or.inr h)
      · rintro (h | rfl | h)
        · exact Or.inl (Or.inr h)
        · exact Or.inl (Or.inl rfl)
        · exact Or.inr h

/-- **Every reachable cell is relabelled exactly once**, however many statement objects reach it and however
    often those occur in the IR. -/
theorem heap_remap_once (m : List Int) (h : Heap) (c : Nat) (hc : c ∈ h.ir.flatMap h.cellsOf) :
    (h.remap m).val c = mapIdx m (h.val c) := by
  simp only [Heap.remap, visitCells_spec]
  simp [hc]

/-- every cell that is not reachable from the IR keeps its value -/
theorem heap_remap_other (m : List Int) (h : Heap) (c : Nat) (hc : c ∉ h.ir.flatMap h.cellsOf) :
    (h.remap m).val c = h.val c := by
  simp only [Heap.remap, visitCells_spec]
  simp [hc]

theorem heap_remap_ir (m : List Int) (h : Heap) : (h.remap m).ir = h.ir := rfl
theorem heap_remap_cellsOf (m : List Int) (h : Heap) : (h.remap m).cellsOf = h.cellsOf := rfl

/-- the view of a statement object (the indices in its cells, in order) after remapping:
    `mapIdx m` of the view before — the heap model agrees with the value model `Stmt.mapQubits`. -/
theorem heap_remap_view (m : List Int) (h : Heap) (s : Nat) (hs : s ∈ h.ir) :
    ((h.remap m).cellsOf s).map (h.remap m).val = ((h.cellsOf s).map h.val).map (mapIdx m) := by
  rw [heap_remap_cellsOf, List.map_map]
  apply List.map_congr_left
  intro c hc
  exact heap_remap_once m h c (List.mem_flatMap.2 ⟨s, hs, hc⟩)

/-! ## Non-vacuity examples (at `α := Unit`) -/
namespace RemapExamples

example : mappingValid [2, 0, 1] = true := by decide
example : ([2, 0, 1] : List Int).Perm ((List.range 3).map Int.ofNat) :=
  (mappingValid_iff_perm [2, 0, 1]).1 (by decide)
example : mappingValid [2, 0, 2] = false := by decide
example : mappingValid [1, 2, 3] = false := by decide
example : mkMapper 3 [2, 0, 1] = .ok [2, 0, 1] := (mkMapper_ok_iff 3 [2, 0, 1]).2 rfl
example : mkMapper 4 [2, 0, 1] = .error .value := (mkMapper_error_iff 4 [2, 0, 1]).2 (by decide)

def u3 : Vec3 Unit := ((), (), ())
def mt : Mat Unit := ⟨4, #[]⟩
/-- CNOT-like named controlled gate, a matrix gate, a named measurement, a reset, a comment, and a named
    gate with mixed arguments -/
def circ : Circuit Unit :=
  { nQubits := 3, nBits := 2,
    stmts := [.gate (.ctrl 0 (.bsr 2 u3 () ())) (some ⟨"CNOT", [.qubit 0, .qubit 2]⟩),
              .gate (.matrix mt [1, 2]) none,
              .comment "c",
              .measure 1 0 u3 (some ⟨"measure", [.qubit 1, .bit 0]⟩),
              .reset 2 none,
              .gate (.bsr 1 u3 () ()) (some ⟨"Rx", [.qubit 1, .float ()]⟩)] }

def circ' : Circuit Unit :=
  { nQubits := 3, nBits := 2,
    stmts := [.gate (.ctrl 2 (.bsr 1 u3 () ())) (some ⟨"CNOT", [.qubit 2, .qubit 1]⟩),
              .gate (.matrix mt [0, 1]) none,
              .comment "c",
              .measure 0 0 u3 (some ⟨"measure", [.qubit 0, .bit 0]⟩),
              .reset 1 none,
              .gate (.bsr 0 u3 () ()) (some ⟨"Rx", [.qubit 0, .float ()]⟩)] }

example : remap [2, 0, 1] circ = (circ', none) := rfl
example : (remap [2, 0, 1] circ).2 = none :=
  (remap_ok_iff [2, 0, 1] circ).2 ⟨by decide, by
    intro s hs q hq
    simp only [circ, List.mem_cons, List.not_mem_nil, or_false] at hs
    rcases hs with rfl | rfl | rfl | rfl | rfl | rfl <;>
      simp [Stmt.allQubits, Stmt.qubits, Stmt.named, Gate.operands, Named.qubitArgs] at hq ⊢ <;> omega⟩
/-- too large a mapping, and a mapping that does not cover qubit 2: refused, circuit unchanged -/
example : remap [0, 1, 2, 3] circ = (circ, some .value) := rfl
example : remap [1, 0] circ = (circ, some .value) := rfl
example : (remap [1, 0] circ).1 = circ := remap_fail_unchanged [1, 0] circ .value rfl
/-- the inverse mapping restores the circuit -/
example : invMapping [2, 0, 1] = [1, 2, 0] := by decide
example : remap [1, 2, 0] (remap [2, 0, 1] circ).1 = (circ, none) :=
  remap_invMapping [2, 0, 1] circ rfl (by decide) ((remap_ok_iff [2, 0, 1] circ).1 rfl).2

/-- IR in which statement object 0 occurs twice and cell 11 is shared by objects 0 and 1 -/
def heap : Heap :=
  { ir := [0, 1, 0], cellsOf := fun s => if s = 0 then [10, 11] else [11, 12],
    val := fun c => if c = 10 then 0 else if c = 11 then 1 else if c = 12 then 2 else 7 }

example : (heap.remap [2, 0, 1]).val 11 = 0 :=
  heap_remap_once [2, 0, 1] heap 11 (by decide)
example : ((heap.remap [2, 0, 1]).val 10, (heap.remap [2, 0, 1]).val 12) = (2, 1) := by
  rw [heap_remap_once [2, 0, 1] heap 10 (by decide), heap_remap_once [2, 0, 1] heap 12 (by decide)]; rfl
example : (heap.remap [2, 0, 1]).val 13 = 7 :=
  heap_remap_other [2, 0, 1] heap 13 (by decide)

end RemapExamples

end OSq

#print axioms OSq.mappingValid_iff_perm
#print axioms OSq.mappingValid_iff_covers
#print axioms OSq.mkMapper_ok_iff
#print axioms OSq.remap_fail_unchanged
#print axioms OSq.remap_ok_iff
#print axioms OSq.remap_spec
#print axioms OSq.Gate.operands_mapQubits
#print axioms OSq.Stmt.qubits_mapQubits
#print axioms OSq.Stmt.qubitArgs_mapQubits
#print axioms OSq.Stmt.eraseQubits_mapQubits
#print axioms OSq.mapQubits_comp
#print axioms OSq.remap_inverse
#print axioms OSq.remap_invMapping
#print axioms OSq.visitCells_spec
#print axioms OSq.heap_remap_once
#print axioms OSq.heap_remap_other
#print axioms OSq.heap_remap_view
