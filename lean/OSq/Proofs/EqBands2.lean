import OSq.Proofs.EqBands
import Mathlib.Analysis.InnerProductSpace.PiL2

/-
  OSq.Proofs.EqBands2 — continuation of `OSq.Proofs.EqBands`: **soundness of `equivPhase` with a *unit* phase**, its lift
  to `check_gate_replacement` (C06) and `compare_gates` (C16) on the whole register, and what acceptance implies for the
  Frobenius norms.  `α := ℝ`, all inputs, no crisp hypothesis.

  Since the repair of the Python code the measured phase is normalised (`ph = w/‖w‖`, `w = a_p/b_p`), so `‖ph‖ = 1`
  holds by construction (`equivPhase_sound`).  The detour of the previous version of this file — recovering a unit phase
  for two matrices of equal Frobenius norm through the ℓ² triangle inequality, at the price of the slack
  `unitSlack N atol = (√N·atol + 2·1e-5 + 1e-5·√N·atol)/(1 − 1e-5)` — is gone: the bounds below are `atol + 1e-5·B`.

  * `EqBands.l2_bound`              `|x_k − y_k| ≤ α + r·y_k ∀k  ⇒  |‖x‖₂ − ‖y‖₂| ≤ √N·α + r·‖y‖₂`
  * `EqBands.frob n m`              Frobenius norm of the `n·n` stored entries
  * `equivPhase_phase_modulus`      accepted ⇒ `|‖a‖_F − ‖b‖_F| ≤ n·atol + 1e-5·‖b‖_F`  (accepted matrices have nearly the
                                    same Frobenius norm: a mere multiple `c·b`, `c ≠ 1`, is excluded)
  * `equivPhase_phase_modulus_eq`   … relative form: `‖b‖_F = F > 0` ⇒ `|‖a‖_F/F − 1| ≤ n·atol/F + 1e-5`
  * `equivPhase_sound_band_unit`    accepted, `‖b_ij‖ ≤ B` ⇒ a **unit** `z` with `‖a_ij − z·b_ij‖ ≤ atol + 1e-5·B`
  * `equivPhase_sound_band_left`    accepted, `‖a_ij‖ ≤ A` (NO hypothesis on `b`) ⇒ a unit `z` with
                                    `‖a_ij − z·b_ij‖ ≤ atol + 1e-5·(A + atol)/(1 − 1e-5)` and `‖b_ij‖ ≤ (A + atol)/(1 − 1e-5)`
  * `EqBands.unitary_col_sum`, `unitary_entry_le_one`, `frob_of_unitary` (`= √n`), `lift_conjTranspose`, `unitary_of_lift`
  * `equivPhase_sound_unitary`      accepted, `b` unitary ⇒ unit `z`, every entry within `atol + 1e-5`
  * `equivPhase_sound_unitary_left` accepted, `a` unitary (nothing about `b`) ⇒ unit `z`, every entry within
                                    `atol + leftSlack atol`, `leftSlack atol = 1e-5·(1 + atol)/(1 − 1e-5)`
  * `compareGatesWith_sound_unit_reg`, `compareGates_sound_unit_reg`, `checkGateReplacement_sound_unit_reg`
                                    the same on the register operators (second operator unitary)
  * `checkGateReplacement_sound_unit_reg_left`   only the replaced gate unitary, NO hypothesis on the replacement
  * `compareGates_band_rejects_unit_reg` (`= ok false`), `checkGateReplacement_band_rejects_unit_reg` (`≠ none`)
                                    operators (the second one unitary) such that every *unit* `z` leaves an entry farther
                                    than `atol + 1e-5` are rejected
  * `EqBands.unitSlack` (legacy definition, kept for reference) with `rtol_le_unitSlack : 1e-5 ≤ unitSlack N atol`: every
    bound `atol + 1e-5` of this file implies the old bound `atol + unitSlack N atol`.
  Together with `…_band_accepts_reg` of `OSq.Proofs.EqBands` this is the envelope with unit phases:
  within `atol/3` ⇒ accepted;  farther than `atol + 1e-5` ⇒ rejected.
-/

namespace OSq
namespace EqBands

/-- ℓ² estimate: `|x_k − y_k| ≤ α + r·y_k` for all `k` ⇒ `|‖x‖₂ − ‖y‖₂| ≤ √N·α + r·‖y‖₂` -/
theorem l2_bound {N : Nat} (x y : Fin N → ℝ) (α r : ℝ) (hα : 0 ≤ α) (hr : 0 ≤ r) (hy : ∀ k, 0 ≤ y k)
    (h : ∀ k, |x k - y k| ≤ α + r * y k) :
    |√(∑ k, x k ^ 2) - √(∑ k, y k ^ 2)| ≤ √(N : ℝ) * α + r * √(∑ k, y k ^ 2) := by
  have hX : ‖(WithLp.toLp 2 x : EuclideanSpace ℝ (Fin N))‖ = √(∑ k, x k ^ 2) := by
    rw [EuclideanSpace.norm_eq]; simp
  have hY : ‖(WithLp.toLp 2 y : EuclideanSpace ℝ (Fin N))‖ = √(∑ k, y k ^ 2) := by
    rw [EuclideanSpace.norm_eq]; simp
  have hU : ‖(WithLp.toLp 2 (fun _ => α) : EuclideanSpace ℝ (Fin N))‖ = √(N : ℝ) * α := by
    rw [EuclideanSpace.norm_eq]
    simp only [Real.norm_eq_abs, sq_abs, Finset.sum_const, Finset.card_univ, Fintype.card_fin, nsmul_eq_mul]
    rw [Real.sqrt_mul (Nat.cast_nonneg N), Real.sqrt_sq hα]
  have h1 := abs_norm_sub_norm_le (WithLp.toLp 2 x : EuclideanSpace ℝ (Fin N)) (WithLp.toLp 2 y)
  have h2 : ‖(WithLp.toLp 2 x : EuclideanSpace ℝ (Fin N)) - WithLp.toLp 2 y‖
      ≤ ‖(WithLp.toLp 2 (fun _ => α) : EuclideanSpace ℝ (Fin N)) + r • WithLp.toLp 2 y‖ := by
    rw [EuclideanSpace.norm_eq, EuclideanSpace.norm_eq]
    apply Real.sqrt_le_sqrt
    apply Finset.sum_le_sum
    intro k _
    simp only [PiLp.sub_apply, PiLp.add_apply, PiLp.smul_apply, smul_eq_mul, Real.norm_eq_abs, sq_abs]
    have h3 := h k
    have h4 : 0 ≤ α + r * y k := by have := mul_nonneg hr (hy k); linarith
    rw [← sq_abs (x k - y k)]
    exact pow_le_pow_left₀ (abs_nonneg _) h3 2
  have h3 : ‖(WithLp.toLp 2 (fun _ => α) : EuclideanSpace ℝ (Fin N)) + r • WithLp.toLp 2 y‖
      ≤ √(N : ℝ) * α + r * √(∑ k, y k ^ 2) := by
    refine le_trans (norm_add_le _ _) ?_
    rw [norm_smul, Real.norm_of_nonneg hr, hU, hY]
  rw [hX, hY] at h1
  linarith

/-- Frobenius norm of the `n × n` stored entries -/
noncomputable def frob (n : Nat) (m : Mat ℝ) : ℝ := √(∑ k : Fin (n * n), ‖m.flat k‖ ^ 2)

theorem frob_nonneg (n : Nat) (m : Mat ℝ) : 0 ≤ frob n m := Real.sqrt_nonneg _

end EqBands

/-- **Accepted matrices have nearly the same Frobenius norm**: `|‖a‖_F − ‖b‖_F| ≤ n·atol + 1e-5·‖b‖_F`.
    (Before the phase was normalised the statement had to carry the modulus of the estimated phase:
    `|‖a‖_F − ‖ph‖·‖b‖_F| ≤ …`.) -/
theorem equivPhase_phase_modulus (atol : ℝ) (hatol : 0 < atol) (n : Nat) (a b : Mat ℝ) (ha : a.n = n)
    (h : equivPhase atol a b = true) :
    |EqBands.frob n a - EqBands.frob n b| ≤ n * atol + 1e-5 * EqBands.frob n b := by
  obtain ⟨ph, hph, -, -, -, H⟩ := equivPhase_sound_unit atol hatol a b h
  have key := EqBands.l2_bound (N := n * n) (fun k => ‖a.flat k‖) (fun k => ‖b.flat k‖) atol 1e-5
    hatol.le rtol_real_nonneg (fun k => norm_nonneg _) (by
      intro k
      have h1 := abs_norm_sub_norm_le (a.flat k) (ph * b.flat k)
      have h2 := H k (by rw [ha]; exact k.isLt)
      rw [norm_mul, hph, one_mul] at h1
      exact le_trans h1 h2)
  have e2 : √((n * n : ℕ) : ℝ) = n := by
    rw [Nat.cast_mul, Real.sqrt_mul_self (Nat.cast_nonneg n)]
  rw [e2] at key
  exact key

/-- relative form: for `‖b‖_F = F > 0` the ratio of the Frobenius norms is within `n·atol/F + 1e-5` of `1`
    (so `a = c·b` with `|c − 1| > n·atol/F + 1e-5` is never accepted) -/
theorem equivPhase_phase_modulus_eq (atol F : ℝ) (hatol : 0 < atol) (n : Nat) (a b : Mat ℝ) (ha : a.n = n)
    (hF : 0 < F) (hFb : EqBands.frob n b = F) (h : equivPhase atol a b = true) :
    |EqBands.frob n a / F - 1| ≤ n * atol / F + 1e-5 := by
  have key := equivPhase_phase_modulus atol hatol n a b ha h
  rw [hFb] at key
  have e : EqBands.frob n a / F - 1 = (EqBands.frob n a - F) / F := by field_simp
  rw [e, abs_div, abs_of_pos hF, div_le_iff₀ hF, add_mul, div_mul_cancel₀ _ hF.ne']
  exact key

/-- **Soundness with a unit phase.**  (No hypothesis on Frobenius norms any more: the measured phase is a unit.) -/
theorem equivPhase_sound_band_unit (atol B : ℝ) (hatol : 0 < atol) (n : Nat) (a b : Mat ℝ) (ha : a.n = n)
    (hb : b.n = n) (hB : ∀ i j, i < n → j < n → ‖(b.get i j).toC‖ ≤ B) (h : equivPhase atol a b = true) :
    ∃ z : ℂ, ‖z‖ = 1 ∧ ∀ i j, i < n → j < n →
      ‖(a.get i j).toC - z * (b.get i j).toC‖ ≤ atol + 1e-5 * B := by
  obtain ⟨ph, hph, -, -, -, H⟩ := equivPhase_sound_band atol B hatol n a b ha hb hB h
  exact ⟨ph, hph, H⟩

/-- **Soundness with a unit phase and no hypothesis on `b`**: a bound `A` on the entries of `a` is enough, because an
    accepted `b` cannot have larger entries than `(A + atol)/(1 − 1e-5)`. -/
theorem equivPhase_sound_band_left (atol A : ℝ) (hatol : 0 < atol) (n : Nat) (a b : Mat ℝ) (ha : a.n = n)
    (hb : b.n = n) (hA : ∀ i j, i < n → j < n → ‖(a.get i j).toC‖ ≤ A) (h : equivPhase atol a b = true) :
    ∃ z : ℂ, ‖z‖ = 1 ∧ ∀ i j, i < n → j < n →
      ‖(b.get i j).toC‖ ≤ (A + atol) / (1 - 1e-5) ∧
      ‖(a.get i j).toC - z * (b.get i j).toC‖ ≤ atol + 1e-5 * ((A + atol) / (1 - 1e-5)) := by
  obtain ⟨z, hz, -, -, -, H⟩ := equivPhase_sound_unit atol hatol a b h
  refine ⟨z, hz, ?_⟩
  intro i j hi hj
  have h1 := H (i * n + j) (by rw [ha]; exact Mat.index_lt hi hj)
  rw [← Mat.get_eq_flat a ha, ← Mat.get_eq_flat b hb] at h1
  have h2 := norm_sub_norm_le (z * (b.get i j).toC) (a.get i j).toC
  rw [norm_mul, hz, one_mul, norm_sub_rev] at h2
  have h3 := hA i j hi hj
  rw [rtol_real] at h1 ⊢
  have hr1 : (0:ℝ) < 1 - 1 / 100000 := by norm_num
  have hbd : ‖(b.get i j).toC‖ ≤ (A + atol) / (1 - 1 / 100000) := by
    rw [le_div_iff₀ hr1]; linarith
  refine ⟨hbd, ?_⟩
  have : 1 / 100000 * ‖(b.get i j).toC‖ ≤ 1 / 100000 * ((A + atol) / (1 - 1 / 100000)) :=
    mul_le_mul_of_nonneg_left hbd (by norm_num)
  linarith

/-! ## Unitary matrices -/

namespace EqBands

/-- every column of a unitary has ℓ² norm one -/
theorem unitary_col_sum {N : Nat} {A : Matrix (Fin N) (Fin N) ℂ} (hA : A ∈ Matrix.unitaryGroup (Fin N) ℂ)
    (c : Fin N) : (∑ i, ‖A i c‖ ^ 2 : ℝ) = 1 := by
  have h1 := congrFun (congrFun (Matrix.mem_unitaryGroup_iff'.mp hA) c) c
  rw [Matrix.mul_apply] at h1
  simp only [Matrix.star_apply, Matrix.one_apply_eq] at h1
  have : ((∑ i, ‖A i c‖ ^ 2 : ℝ) : ℂ) = 1 := by
    rw [← h1]
    push_cast
    apply Finset.sum_congr rfl
    intro i _
    have hstar : star (A i c) * A i c = ((Complex.normSq (A i c) : ℝ) : ℂ) := by
      rw [Complex.normSq_eq_conj_mul_self]; rfl
    rw [hstar, Complex.normSq_eq_norm_sq]
    push_cast
    rfl
  exact_mod_cast this

/-- the entries of a unitary have modulus at most one -/
theorem unitary_entry_le_one {N : Nat} {A : Matrix (Fin N) (Fin N) ℂ} (hA : A ∈ Matrix.unitaryGroup (Fin N) ℂ)
    (r c : Fin N) : ‖A r c‖ ≤ 1 := by
  have h := unitary_col_sum hA c
  have h1 : ‖A r c‖ ^ 2 ≤ ∑ i, ‖A i c‖ ^ 2 :=
    Finset.single_le_sum (f := fun i => ‖A i c‖ ^ 2) (fun i _ => sq_nonneg _) (Finset.mem_univ r)
  rw [h] at h1
  have := norm_nonneg (A r c)
  nlinarith

/-- the Frobenius norm of the stored entries, through `Mat.get` -/
theorem frob_sq (n : Nat) (a : Mat ℝ) (ha : a.n = n) :
    (∑ k : Fin (n * n), ‖a.flat k‖ ^ 2) = ∑ j : Fin n, ∑ i : Fin n, ‖a.toMatrixOn n i j‖ ^ 2 := by
  rw [Finset.sum_comm, ← Fintype.sum_prod_type', ← Fintype.sum_equiv finProdFinEquiv
    (fun x : Fin n × Fin n => ‖a.toMatrixOn n x.1 x.2‖ ^ 2) (fun k => ‖a.flat k‖ ^ 2)]
  intro x
  rw [Mat.toMatrixOn_apply, Mat.get_eq_flat a ha]
  congr 3
  simp [finProdFinEquiv, Nat.mul_comm, Nat.add_comm]

/-- a unitary `n × n` matrix has Frobenius norm `√n` -/
theorem frob_of_unitary (n : Nat) (a : Mat ℝ) (ha : a.n = n)
    (hU : a.toMatrixOn n ∈ Matrix.unitaryGroup (Fin n) ℂ) : frob n a = √(n : ℝ) := by
  unfold frob
  rw [frob_sq n a ha]
  congr 1
  rw [Finset.sum_congr rfl (fun j _ => unitary_col_sum hU j)]
  simp

end EqBands

/-- LEGACY: the extra slack the unit-phase soundness statements for unitary `N × N` matrices needed before the measured
    phase was normalised: `(√N·atol + 2·1e-5 + 1e-5·√N·atol)/(1 − 1e-5)`  (`≈ √N·atol + 2e-5`).  No theorem needs it any
    more; it dominates the new slack `1e-5` (`rtol_le_unitSlack`). -/
noncomputable def EqBands.unitSlack (N : Nat) (atol : ℝ) : ℝ :=
  (√(N : ℝ) * atol + 2 * 1e-5 + 1e-5 * (√(N : ℝ) * atol)) / (1 - 1e-5)

theorem EqBands.unitSlack_nonneg (N : Nat) {atol : ℝ} (h : 0 ≤ atol) : 0 ≤ EqBands.unitSlack N atol := by
  unfold EqBands.unitSlack
  rw [rtol_real]
  have : 0 ≤ √(N : ℝ) * atol := mul_nonneg (Real.sqrt_nonneg _) h
  apply div_nonneg
  · linarith
  · norm_num

/-- the new slack `1e-5` is below the old one -/
theorem EqBands.rtol_le_unitSlack (N : Nat) {atol : ℝ} (h : 0 ≤ atol) : (1e-5 : ℝ) ≤ EqBands.unitSlack N atol := by
  unfold EqBands.unitSlack
  rw [rtol_real]
  have : 0 ≤ √(N : ℝ) * atol := mul_nonneg (Real.sqrt_nonneg _) h
  rw [le_div_iff₀ (by norm_num)]
  nlinarith

/-- the slack when only the *first* matrix is known to be unitary: `1e-5·(1 + atol)/(1 − 1e-5)` (`≈ 1e-5`) -/
noncomputable def EqBands.leftSlack (atol : ℝ) : ℝ := 1e-5 * ((1 + atol) / (1 - 1e-5))

theorem EqBands.leftSlack_nonneg {atol : ℝ} (h : 0 ≤ atol) : 0 ≤ EqBands.leftSlack atol := by
  unfold EqBands.leftSlack
  rw [rtol_real]
  have : (0:ℝ) ≤ (1 + atol) / (1 - 1 / 100000) := div_nonneg (by linarith) (by norm_num)
  positivity

/-- **Soundness, unit phase, `b` unitary.**  If `equivPhase` accepts `a` against a unitary `n × n` matrix `b`, a *unit*
    complex `z` brings every entry of `z·b` within `atol + 1e-5` of `a`.  (Before the repair: both unitary, bound
    `atol + unitSlack n atol`.) -/
theorem equivPhase_sound_unitary (atol : ℝ) (hatol : 0 < atol) (n : Nat) (a b : Mat ℝ) (ha : a.n = n)
    (hb : b.n = n) (hUb : b.toMatrixOn n ∈ Matrix.unitaryGroup (Fin n) ℂ) (h : equivPhase atol a b = true) :
    ∃ z : ℂ, ‖z‖ = 1 ∧ ∀ i j, i < n → j < n →
      ‖(a.get i j).toC - z * (b.get i j).toC‖ ≤ atol + 1e-5 := by
  obtain ⟨z, hz, H⟩ := equivPhase_sound_band_unit atol 1 hatol n a b ha hb
    (fun i j hi hj => EqBands.unitary_entry_le_one hUb ⟨i, hi⟩ ⟨j, hj⟩) h
  refine ⟨z, hz, ?_⟩
  intro i j hi hj
  have := H i j hi hj
  rwa [mul_one] at this

/-- **Soundness, unit phase, only `a` unitary** — nothing is assumed about `b`. -/
theorem equivPhase_sound_unitary_left (atol : ℝ) (hatol : 0 < atol) (n : Nat) (a b : Mat ℝ) (ha : a.n = n)
    (hb : b.n = n) (hUa : a.toMatrixOn n ∈ Matrix.unitaryGroup (Fin n) ℂ) (h : equivPhase atol a b = true) :
    ∃ z : ℂ, ‖z‖ = 1 ∧ ∀ i j, i < n → j < n →
      ‖(a.get i j).toC - z * (b.get i j).toC‖ ≤ atol + EqBands.leftSlack atol := by
  obtain ⟨z, hz, H⟩ := equivPhase_sound_band_left atol 1 hatol n a b ha hb
    (fun i j hi hj => EqBands.unitary_entry_le_one hUa ⟨i, hi⟩ ⟨j, hj⟩) h
  exact ⟨z, hz, fun i j hi hj => (H i j hi hj).2⟩

/-! ## Gate level, unitary operators, unit phase -/

namespace EqBands
section liftU
variable {n k : Nat} (idx : List Nat) (hk : idx.length = k)

theorem lift_conjTranspose (A : Op k) :
    Matrix.conjTranspose (lift idx hk A : Op n) = lift idx hk (Matrix.conjTranspose A) := by
  ext r c
  rw [Matrix.conjTranspose_apply, lift_apply, lift_apply]
  by_cases h : agreeOff n idx r.val c.val
  · rw [if_pos h, if_pos (agreeOff_symm h), Matrix.conjTranspose_apply]
  · rw [if_neg h, if_neg (fun h' => h (agreeOff_symm h')), star_zero]

/-- if the embedding of a local operator is unitary, so is the local operator -/
theorem unitary_of_lift (hnd : idx.Nodup) (hlt : ∀ q ∈ idx, q < n) (A : Op k)
    (h : (lift idx hk A : Op n) ∈ Matrix.unitaryGroup (Fin (2 ^ n)) ℂ) :
    A ∈ Matrix.unitaryGroup (Fin (2 ^ k)) ℂ := by
  rw [Matrix.mem_unitaryGroup_iff'] at h ⊢
  apply lift_injective (n := n) idx hk hnd hlt
  rw [lift_mul idx hk hnd hlt, lift_one, Matrix.star_eq_conjTranspose, ← lift_conjTranspose,
    ← Matrix.star_eq_conjTranspose]
  exact h

end liftU
end EqBands

/-- **`compare_gates` (any admissible enumeration), second operator unitary: accepted ⇒ equal up to a *unit* phase within
    `atol + 1e-5`** on the whole register. -/
theorem compareGatesWith_sound_unit_reg (atol : ℝ) (hatol : 0 < atol) (n : Nat) (idx : List Int) (hnd : idx.Nodup)
    (hreg : ∀ q ∈ idx, 0 ≤ q ∧ q < (n : Int)) (g1 g2 : Gate ℝ)
    (hU2 : gateOp n g2 ∈ Matrix.unitaryGroup (Fin (2 ^ n)) ℂ)
    (h : compareGatesWith atol idx g1 g2 = .ok true) :
    ∃ z : ℂ, ‖z‖ = 1 ∧ ∀ r c : Fin (2 ^ n),
      ‖gateOp n g1 r c - z * gateOp n g2 r c‖ ≤ atol + 1e-5 := by
  cases hA : localMatrix idx [g1] with
  | error e => simp [compareGatesWith, hA, bind, Except.bind] at h
  | ok A =>
    cases hB : localMatrix idx [g2] with
    | error e => simp [compareGatesWith, hA, hB, bind, Except.bind] at h
    | ok B =>
      rw [compareGatesWith_eq atol idx g1 g2 hA hB] at h
      have h' : equivPhase atol A B = true := by injection h
      have hgA := gateOp_eq_lift_localMatrix (n := n) idx hnd hreg hA
      have hgB := gateOp_eq_lift_localMatrix (n := n) idx hnd hreg hB
      have hndN := nodup_map_toNat (n := n) idx hnd hreg
      have hltN := map_toNat_lt (n := n) idx hreg
      rw [hgB] at hU2
      obtain ⟨z, hz, H⟩ := equivPhase_sound_unitary atol hatol (2 ^ idx.length) A B
        (localMatrix_dim hA).1 (localMatrix_dim hB).1 (EqBands.unitary_of_lift _ _ hndN hltN _ hU2) h'
      refine ⟨z, hz, ?_⟩
      rw [hgA, hgB]
      apply EqBands.lift_rel_of_local _ _ (P := fun x y => ‖x - z * y‖ ≤ atol + 1e-5)
      · simp only [mul_zero, sub_zero, norm_zero]
        have := rtol_real_nonneg
        linarith
      · intro i j
        exact H i.val j.val i.isLt j.isLt

/-- **`compare_gates`, second operator unitary, unit phase: soundness.** -/
theorem compareGates_sound_unit_reg (atol : ℝ) (hatol : 0 < atol) (n : Nat) (g1 g2 : Gate ℝ)
    (hr1 : g1.inReg n) (hr2 : g2.inReg n)
    (hU2 : gateOp n g2 ∈ Matrix.unitaryGroup (Fin (2 ^ n)) ℂ)
    (h : compareGates atol g1 g2 = .ok true) :
    ∃ z : ℂ, ‖z‖ = 1 ∧ ∀ r c : Fin (2 ^ n),
      ‖gateOp n g1 r c - z * gateOp n g2 r c‖ ≤ atol + 1e-5 :=
  compareGatesWith_sound_unit_reg atol hatol n _ (dedup_nodup _) (dedup_union_reg hr1 hr2) g1 g2 hU2 h

/-- **`compare_gates`, second operator unitary: rejects everything farther than `atol + 1e-5` from every unit multiple.** -/
theorem compareGates_band_rejects_unit_reg (atol : ℝ) (hatol : 0 < atol) (n : Nat) (g1 g2 : Gate ℝ)
    (hr1 : g1.inReg n) (hd1 : g1.dimOk) (hr2 : g2.inReg n) (hd2 : g2.dimOk)
    (hU2 : gateOp n g2 ∈ Matrix.unitaryGroup (Fin (2 ^ n)) ℂ)
    (hfar : ∀ z : ℂ, ‖z‖ = 1 → ∃ r c : Fin (2 ^ n),
      atol + 1e-5 < ‖gateOp n g1 r c - z * gateOp n g2 r c‖) :
    compareGates atol g1 g2 = .ok false := by
  obtain ⟨A, hA⟩ := (localMatrix_single_ok_iff (dedup (g1.operands ++ g2.operands)) g1).mpr
    ⟨fun q hq => (mem_dedup _ q).mpr (List.mem_append_left _ hq), hd1⟩
  obtain ⟨B, hB⟩ := (localMatrix_single_ok_iff (dedup (g1.operands ++ g2.operands)) g2).mpr
    ⟨fun q hq => (mem_dedup _ q).mpr (List.mem_append_right _ hq), hd2⟩
  have hv : compareGates atol g1 g2 = .ok (equivPhase atol A B) := by
    rw [compareGates_eq_with, compareGatesWith_eq atol _ g1 g2 hA hB]
  cases he : equivPhase atol A B with
  | false => rw [hv, he]
  | true =>
    exfalso
    rw [he] at hv
    obtain ⟨z, hz, H⟩ := compareGates_sound_unit_reg atol hatol n g1 g2 hr1 hr2 hU2 hv
    obtain ⟨r, c, hrc⟩ := hfar z hz
    exact absurd (H r c) (not_le.mpr hrc)

/-- **`check_gate_replacement`, replacement unitary, unit phase: soundness.** -/
theorem checkGateReplacement_sound_unit_reg (atol : ℝ) (hatol : 0 < atol) (n : Nat) (g : Gate ℝ)
    (gs : List (Gate ℝ)) (hwf : GateWF n g)
    (hU2 : circOp n (gateStmts gs) [] ∈ Matrix.unitaryGroup (Fin (2 ^ n)) ℂ)
    (h : checkGateReplacement atol g gs = none) :
    ∃ z : ℂ, ‖z‖ = 1 ∧ ∀ r c : Fin (2 ^ n),
      ‖gateOp n g r c - z * circOp n (gateStmts gs) [] r c‖ ≤ atol + 1e-5 := by
  obtain ⟨-, A, B, hA, hB, heq⟩ := checkGateReplacement_none_local atol g gs h
  have hgA := gateOp_eq_lift_local hwf hA
  have hgB := localMatrix_lift (n := n) g.operands hwf.1 hwf.2 hB []
  have hndN := nodup_map_toNat (n := n) g.operands hwf.1 hwf.2
  have hltN := map_toNat_lt (n := n) g.operands hwf.2
  rw [← hgB] at hU2
  obtain ⟨z, hz, H⟩ := equivPhase_sound_unitary atol hatol (2 ^ g.operands.length) A B
    (localMatrix_dim hA).1 (localMatrix_dim hB).1 (EqBands.unitary_of_lift _ _ hndN hltN _ hU2) heq
  refine ⟨z, hz, ?_⟩
  rw [hgA, ← hgB]
  apply EqBands.lift_rel_of_local _ _ (P := fun x y => ‖x - z * y‖ ≤ atol + 1e-5)
  · simp only [mul_zero, sub_zero, norm_zero]
    have := rtol_real_nonneg
    linarith
  · intro i j
    exact H i.val j.val i.isLt j.isLt

/-- **`check_gate_replacement`, only the replaced gate unitary — NO hypothesis on the replacement**: an accepted
    replacement is within `atol + leftSlack atol` (`≈ atol + 1e-5`) of the gate, entrywise on the register, up to a unit
    phase.  (With the un-normalised phase this was false: `MatrixGate(2·U)` was accepted for `U`.) -/
theorem checkGateReplacement_sound_unit_reg_left (atol : ℝ) (hatol : 0 < atol) (n : Nat) (g : Gate ℝ)
    (gs : List (Gate ℝ)) (hwf : GateWF n g)
    (hU1 : gateOp n g ∈ Matrix.unitaryGroup (Fin (2 ^ n)) ℂ)
    (h : checkGateReplacement atol g gs = none) :
    ∃ z : ℂ, ‖z‖ = 1 ∧ ∀ r c : Fin (2 ^ n),
      ‖gateOp n g r c - z * circOp n (gateStmts gs) [] r c‖ ≤ atol + EqBands.leftSlack atol := by
  obtain ⟨-, A, B, hA, hB, heq⟩ := checkGateReplacement_none_local atol g gs h
  have hgA := gateOp_eq_lift_local hwf hA
  have hgB := localMatrix_lift (n := n) g.operands hwf.1 hwf.2 hB []
  have hndN := nodup_map_toNat (n := n) g.operands hwf.1 hwf.2
  have hltN := map_toNat_lt (n := n) g.operands hwf.2
  rw [hgA] at hU1
  obtain ⟨z, hz, H⟩ := equivPhase_sound_unitary_left atol hatol (2 ^ g.operands.length) A B
    (localMatrix_dim hA).1 (localMatrix_dim hB).1 (EqBands.unitary_of_lift _ _ hndN hltN _ hU1) heq
  refine ⟨z, hz, ?_⟩
  rw [hgA, ← hgB]
  apply EqBands.lift_rel_of_local _ _ (P := fun x y => ‖x - z * y‖ ≤ atol + EqBands.leftSlack atol)
  · simp only [mul_zero, sub_zero, norm_zero]
    have := EqBands.leftSlack_nonneg hatol.le
    linarith
  · intro i j
    exact H i.val j.val i.isLt j.isLt

/-- **`check_gate_replacement`, replacement unitary: rejects everything farther than `atol + 1e-5` from every unit
    multiple** (`≠ none`; it is `ValueError` when the matrix sizes fit, see `checkGateReplacement_band_rejects_value`). -/
theorem checkGateReplacement_band_rejects_unit_reg (atol : ℝ) (hatol : 0 < atol) (n : Nat) (g : Gate ℝ)
    (gs : List (Gate ℝ)) (hwf : GateWF n g)
    (hU2 : circOp n (gateStmts gs) [] ∈ Matrix.unitaryGroup (Fin (2 ^ n)) ℂ)
    (hfar : ∀ z : ℂ, ‖z‖ = 1 → ∃ r c : Fin (2 ^ n),
      atol + 1e-5 < ‖gateOp n g r c - z * circOp n (gateStmts gs) [] r c‖) :
    checkGateReplacement atol g gs ≠ none := by
  intro h
  obtain ⟨z, hz, H⟩ := checkGateReplacement_sound_unit_reg atol hatol n g gs hwf hU2 h
  obtain ⟨r, c, hrc⟩ := hfar z hz
  exact absurd (H r c) (not_le.mpr hrc)

/-! ## Examples (non-vacuity) -/

namespace EqBands

theorem dg_one_toMatrixOn (s : ℝ) (hs : s = 1 ∨ s = -1) :
    (dg s s).toMatrixOn 2 ∈ Matrix.unitaryGroup (Fin 2) ℂ := by
  have h : (dg s s).toMatrixOn 2 = (s : ℂ) • (1 : Matrix (Fin 2) (Fin 2) ℂ) := by
    ext i j
    rw [Mat.toMatrixOn_apply, dg_get _ _ _ _ i.isLt j.isLt]
    fin_cases i <;> fin_cases j <;> simp
  rw [h, Matrix.mem_unitaryGroup_iff', star_smul, smul_mul_smul_comm, star_one, one_mul]
  rcases hs with rfl | rfl <;> simp

/-- `I₂` against `−I₂`: accepted (phase `−1`) -/
theorem accept_neg (atol : ℝ) (h0 : 0 < atol) (h1 : atol ≤ 1) : equivPhase atol (dg 1 1) (dg (-1) (-1)) = true := by
  apply equivPhase_complete_exact' atol h0 2 (by decide) _ _ rfl rfl
  · refine ⟨0, 0, by decide, by decide, ?_⟩
    rw [dg_get _ _ _ _ (by decide) (by decide)]
    simpa using h1
  · refine ⟨-1, by simp, ?_⟩
    intro i j hi hj
    rw [dg_get _ _ _ _ hi hj, dg_get _ _ _ _ hi hj]
    split_ifs <;> simp

end EqBands

open EqBands in
example (atol : ℝ) (h0 : 0 < atol) (h1 : atol ≤ 1) :
    |frob 2 (dg 1 1) / √2 - 1| ≤ (2 : ℕ) * atol / √2 + 1e-5 :=
  equivPhase_phase_modulus_eq atol (√2) h0 2 _ _ rfl (by positivity)
    (by simpa using frob_of_unitary 2 _ rfl (dg_one_toMatrixOn (-1) (Or.inr rfl))) (accept_neg atol h0 h1)

open EqBands in
example (atol : ℝ) (h0 : 0 < atol) (h1 : atol ≤ 1) :
    ∃ z : ℂ, ‖z‖ = 1 ∧ ∀ i j, i < 2 → j < 2 →
      ‖((dg 1 1).get i j).toC - z * ((dg (-1) (-1)).get i j).toC‖ ≤ atol + 1e-5 :=
  equivPhase_sound_unitary atol h0 2 _ _ rfl rfl (dg_one_toMatrixOn (-1) (Or.inr rfl)) (accept_neg atol h0 h1)

open EqBands in
example (atol : ℝ) (h0 : 0 < atol) (h1 : atol ≤ 1) :
    ∃ z : ℂ, ‖z‖ = 1 ∧ ∀ i j, i < 2 → j < 2 →
      ‖((dg 1 1).get i j).toC - z * ((dg (-1) (-1)).get i j).toC‖ ≤ atol + leftSlack atol :=
  equivPhase_sound_unitary_left atol h0 2 _ _ rfl rfl (dg_one_toMatrixOn 1 (Or.inl rfl)) (accept_neg atol h0 h1)

namespace EqBands

theorem one_unitary (n : Nat) : (1 : Op n) ∈ Matrix.unitaryGroup (Fin (2 ^ n)) ℂ := by
  rw [Matrix.mem_unitaryGroup_iff']; simp

/-- `CZ(0,1)` on two qubits is unitary (a diagonal matrix of signs) -/
theorem CZ_unitary : gateOp 2 (gCZ 0 1) ∈ Matrix.unitaryGroup (Fin (2 ^ 2)) ℂ := by
  have h : gateOp 2 (gCZ 0 1) = Matrix.diagonal
      (fun r : Fin (2 ^ 2) => if (r.val.testBit 0 && r.val.testBit 1) = true then (-1 : ℂ) else 1) := by
    ext r c
    rw [show gateOp 2 (gCZ 0 1) r c = _ from gateOp_CZ_apply 2 0 1 r c, Matrix.diagonal_apply]
  rw [h, Matrix.mem_unitaryGroup_iff', Matrix.star_eq_conjTranspose, Matrix.diagonal_conjTranspose,
    Matrix.diagonal_mul_diagonal, ← Matrix.diagonal_one]
  congr 1
  funext r
  simp only [Pi.star_apply]
  split <;> simp

/-- for `atol ≤ 1/4` the rejection threshold `atol + 1e-5` is below `1` -/
theorem thresh_lt_one (atol : ℝ) (h1 : atol ≤ 1 / 4) : atol + 1e-5 < 1 := by
  rw [rtol_real]; linarith

end EqBands

open EqBands in
/-- `compareGates_sound_unit_reg` and `compareGates_band_rejects_unit_reg` on `CZ(0,1)` against the controlled identity -/
example (atol : ℝ) (h0 : 0 < atol) (h1 : atol ≤ 1 / 4) :
    compareGates atol (gCZ 0 1) (.ctrl 0 (.bsr 1 (0, 0, 1) 0 0)) = .ok false := by
  have hI : gateOp 2 (.ctrl 0 (.bsr 1 ((0, 0, 1) : Vec3 ℝ) 0 0)) = 1 :=
    gateOp_ctrl_of_one 2 0 _ (gateOp_bsr_zero 2 1 (by omega) _)
  have hr : (Gate.ctrl 0 (.bsr 1 ((0, 0, 1) : Vec3 ℝ) 0 0) : Gate ℝ).inReg 2 := by
    intro q hq
    simp only [Gate.operands, List.mem_cons, List.not_mem_nil, or_false] at hq
    rcases hq with rfl | rfl <;> omega
  apply compareGates_band_rejects_unit_reg atol h0 2 (gCZ 0 1) _ (gCZ_reg 0 1 2 (by omega) (by omega)) trivial hr
    trivial (by rw [hI]; exact one_unitary 2)
  intro z hz
  rw [hI]
  have hlt := thresh_lt_one atol h1
  have k0 : gateOp 2 (gCZ 0 1) ⟨0, by norm_num⟩ ⟨0, by norm_num⟩ = 1 :=
    (gateOp_CZ_apply 2 0 1 _ _).trans (by simp)
  have k3 : gateOp 2 (gCZ 0 1) ⟨3, by norm_num⟩ ⟨3, by norm_num⟩ = -1 :=
    (gateOp_CZ_apply 2 0 1 _ _).trans (by simp; decide)
  have t2 : (2:ℝ) ≤ ‖(1:ℂ) - z‖ + ‖(-1:ℂ) - z‖ := by
    have := norm_sub_le ((1:ℂ) - z) ((-1:ℂ) - z)
    have e : (1:ℂ) - z - (-1 - z) = 2 := by ring
    rw [e] at this
    simpa using this
  by_cases hc : 1 ≤ ‖(1:ℂ) - z‖
  · refine ⟨⟨0, by norm_num⟩, ⟨0, by norm_num⟩, ?_⟩
    rw [k0, Matrix.one_apply_eq, mul_one]
    linarith
  · refine ⟨⟨3, by norm_num⟩, ⟨3, by norm_num⟩, ?_⟩
    rw [k3, Matrix.one_apply_eq, mul_one]
    linarith

open EqBands in
example (atol : ℝ) (h0 : 0 < atol) (h1 : atol ≤ 1) (ax ax' : Vec3 ℝ) :
    ∃ z : ℂ, ‖z‖ = 1 ∧ ∀ r c : Fin (2 ^ 2),
      ‖gateOp 2 (.ctrl 0 (.bsr 1 ax 0 0)) r c - z * gateOp 2 (.ctrl 0 (.bsr 1 ax' 0 0)) r c‖ ≤ atol + 1e-5 := by
  have hI : ∀ a : Vec3 ℝ, gateOp 2 (.ctrl 0 (.bsr 1 a 0 0)) = 1 :=
    fun a => gateOp_ctrl_of_one 2 0 _ (gateOp_bsr_zero 2 1 (by omega) _)
  have hr : ∀ a : Vec3 ℝ, (Gate.ctrl 0 (.bsr 1 a 0 0) : Gate ℝ).inReg 2 := by
    intro a q hq
    simp only [Gate.operands, List.mem_cons, List.not_mem_nil, or_false] at hq
    rcases hq with rfl | rfl <;> omega
  apply compareGates_sound_unit_reg atol h0 2 _ _ (hr ax) (hr ax') (by rw [hI]; exact one_unitary 2)
  exact compareGates_accepts_exact atol h0 2 _ _ (hr ax) trivial (hr ax') trivial 1 norm_one
    (by rw [hI, hI, one_smul]) (by rw [hI]; exact one_big 2 atol h1)

open EqBands in
/-- `check_gate_replacement`: the empty replacement for `CZ(0,1)` is rejected (unit-phase form); for the controlled
    identity it is accepted and the soundness statement applies -/
example (atol : ℝ) (h0 : 0 < atol) (h1 : atol ≤ 1 / 4) : checkGateReplacement atol (gCZ 0 1) [] ≠ none := by
  apply checkGateReplacement_band_rejects_unit_reg atol h0 2 (gCZ 0 1) []
    ⟨by simp [gCZ, gZ, Gate.operands], gCZ_reg 0 1 2 (by omega) (by omega)⟩
    (by simp only [gateStmts, List.map_nil, circOp_nil]; exact one_unitary 2)
  intro z hz
  simp only [gateStmts, List.map_nil, circOp_nil]
  have hlt := thresh_lt_one atol h1
  have k0 : gateOp 2 (gCZ 0 1) ⟨0, by norm_num⟩ ⟨0, by norm_num⟩ = 1 :=
    (gateOp_CZ_apply 2 0 1 _ _).trans (by simp)
  have k3 : gateOp 2 (gCZ 0 1) ⟨3, by norm_num⟩ ⟨3, by norm_num⟩ = -1 :=
    (gateOp_CZ_apply 2 0 1 _ _).trans (by simp; decide)
  have t2 : (2:ℝ) ≤ ‖(1:ℂ) - z‖ + ‖(-1:ℂ) - z‖ := by
    have := norm_sub_le ((1:ℂ) - z) ((-1:ℂ) - z)
    have e : (1:ℂ) - z - (-1 - z) = 2 := by ring
    rw [e] at this
    simpa using this
  by_cases hc : 1 ≤ ‖(1:ℂ) - z‖
  · refine ⟨⟨0, by norm_num⟩, ⟨0, by norm_num⟩, ?_⟩
    rw [k0, Matrix.one_apply_eq, mul_one]
    linarith
  · refine ⟨⟨3, by norm_num⟩, ⟨3, by norm_num⟩, ?_⟩
    rw [k3, Matrix.one_apply_eq, mul_one]
    linarith

open EqBands in
example (atol : ℝ) (h0 : 0 < atol) (h1 : atol ≤ 1) (ax : Vec3 ℝ) :
    ∃ z : ℂ, ‖z‖ = 1 ∧ ∀ r c : Fin (2 ^ 1),
      ‖gateOp 1 (.bsr 0 ax 0 0) r c - z * circOp 1 (gateStmts []) [] r c‖ ≤ atol + 1e-5 := by
  have hq : (0 : Int) ≤ 0 ∧ (0 : Int) < ((1 : Nat) : Int) := by omega
  have hwf : GateWF 1 (.bsr 0 ax 0 0) := ⟨by simp [Gate.operands], by
    intro q hq'; simp only [Gate.operands, List.mem_singleton] at hq'; subst hq'; exact hq⟩
  apply checkGateReplacement_sound_unit_reg atol h0 1 _ [] hwf
    (by simp only [gateStmts, List.map_nil, circOp_nil]; exact one_unitary 1)
  apply checkGateReplacement_accepts_exact atol h0 1 (.bsr 0 ax 0 0) [] hwf trivial (by simp) (by simp) 1 norm_one
  · rw [gateOp_bsr_zero 1 0 hq]; simp [gateStmts]
  · rw [gateOp_bsr_zero 1 0 hq]; exact one_big 1 atol h1

open EqBands in
/-- … and the version without any hypothesis on the replacement -/
example (atol : ℝ) (h0 : 0 < atol) (h1 : atol ≤ 1) (ax : Vec3 ℝ) :
    ∃ z : ℂ, ‖z‖ = 1 ∧ ∀ r c : Fin (2 ^ 1),
      ‖gateOp 1 (.bsr 0 ax 0 0) r c - z * circOp 1 (gateStmts []) [] r c‖ ≤ atol + leftSlack atol := by
  have hq : (0 : Int) ≤ 0 ∧ (0 : Int) < ((1 : Nat) : Int) := by omega
  have hwf : GateWF 1 (.bsr 0 ax 0 0) := ⟨by simp [Gate.operands], by
    intro q hq'; simp only [Gate.operands, List.mem_singleton] at hq'; subst hq'; exact hq⟩
  apply checkGateReplacement_sound_unit_reg_left atol h0 1 _ [] hwf
    (by rw [gateOp_bsr_zero 1 0 hq]; exact one_unitary 1)
  apply checkGateReplacement_accepts_exact atol h0 1 (.bsr 0 ax 0 0) [] hwf trivial (by simp) (by simp) 1 norm_one
  · rw [gateOp_bsr_zero 1 0 hq]; simp [gateStmts]
  · rw [gateOp_bsr_zero 1 0 hq]; exact one_big 1 atol h1

end OSq

#print axioms OSq.EqBands.l2_bound
#print axioms OSq.equivPhase_phase_modulus
#print axioms OSq.equivPhase_phase_modulus_eq
#print axioms OSq.equivPhase_sound_band_unit
#print axioms OSq.equivPhase_sound_band_left
#print axioms OSq.EqBands.frob_of_unitary
#print axioms OSq.equivPhase_sound_unitary
#print axioms OSq.equivPhase_sound_unitary_left
#print axioms OSq.EqBands.rtol_le_unitSlack
#print axioms OSq.compareGatesWith_sound_unit_reg
#print axioms OSq.compareGates_sound_unit_reg
#print axioms OSq.compareGates_band_rejects_unit_reg
#print axioms OSq.checkGateReplacement_sound_unit_reg
#print axioms OSq.checkGateReplacement_sound_unit_reg_left
#print axioms OSq.checkGateReplacement_band_rejects_unit_reg
