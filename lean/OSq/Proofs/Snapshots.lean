import OSq.Proofs.Remap
/-
  OSq.Proofs.Snapshots — properties C13 ("circuits obtained from a builder are independent snapshots: later
  builder calls, or passes run on one snapshot, never change another") and C17 ("passes change only the circuit
  they are invoked on"), in an object-identity (heap) model in the style of `Heap`/`Heap.remap`
  (`OSq/Model/Mapping.lean`, `OSq/Proofs/Remap.lean`).  No Mathlib; the only import is `OSq.Proofs.Remap`
  (for the tie `mapInPlace_eq_heap_remap`).

  Python facts being modelled
  * `CircuitBuilder.to_circuit()` returns `Circuit(deepcopy(register_manager), deepcopy(ir))`  (`snapshot`);
  * a builder call appends a *new* statement object (with new `Qubit` objects) to the builder's IR   (`append`);
  * `remap_ir` writes the `Qubit.index` cells reachable from the one circuit it is called on, in place,
    each cell once (`mapInPlace`, which is `Heap.remap` on the sub-heap of that circuit);
  * `decompose` / `merge` / `replace` replace entries of the statement list of the one circuit they are called
    on by newly created objects and keep the other entries (`replaceObjs`).
  Modelling limit: a circuit's statement *list* is a Lean value (`List Nat` of object ids), so aliasing of the
  list object itself (two circuits holding the same Python `list`) is not expressible here; aliasing of statement
  objects and of qubit cells is (see `shared_breaks`).

  Definitions
  * `Obj`, `Store`, `World`      statement object = payload tag + ids of its qubit cells; store `Nat → Option Obj`,
                                 cell contents `Nat → Int`, fresh-id counter `next` (one id space for both)
  * `view`, `denote`, `reach`    value of an object / of a circuit (list of object ids); reachable cell ids
  * `WF`, `Live`, `Extends`      nothing allocated at or above `next`; ids of a circuit below `next`; a world
                                 that only adds fresh ids
  * `alloc`, `append`, `allocMany`, `snapshot`, `snapshot'` (shallow), `mapInPlace`, `replaceObjs`
  * `Separated w cs`             `WF`, all circuits live, reachable cell sets pairwise disjoint
  * `State`, `Step k`, `StepsAvoid j`   the four operations as a transition system on (world, live circuits)

  Theorems
  * `frame_extends`          an extension changes neither the denotation nor the reachable cells of a live circuit
  * `append_spec`            `append` extends the world; the builder then denotes `old ++ [some p]`
  * `frame_append`           appending to a builder does not change the denotation of any live circuit
  * `snapshot_fresh`         ids (objects and cells) of a snapshot are `≥ next`: not in the builder, never allocated
  * `snapshot_content`       the snapshot denotes the same statement list as the builder
  * `snapshot_shape`         deep copy preserves the sharing pattern (it is an injective renaming `i ↦ i + next`)
  * `frame_snapshot`         taking a snapshot changes no live circuit
  * `mapInPlace_self`        the mapped circuit denotes the old statements with `f` applied to every index
  * `frame_map`              `mapInPlace` on `c` does not change `c'` if their reachable cell sets are disjoint
  * `mapInPlace_eq_heap_remap`  `mapInPlace w c (mapIdx m)` is `Heap.remap m` on the sub-heap of `c`
  * `replaceObjs_spec`       result denotes the entrywise rewriting; kept ids are old ids of `c`, others fresh
  * `frame_replace`          `replaceObjs` on one circuit changes no live circuit's denotation
  * `separated_append`, `separated_snapshot`, `separated_mapInPlace`, `separated_replaceObjs`, `step_separated`
                             `Separated` is preserved by all four operations;  `separated_init`
  * `step_frame`             (C17) a step acting on circuit `k` leaves every other live circuit `j ≠ k` in place
                             with the same denotation and reachable cells
  * `stepsAvoid_frame`       (C13) any sequence of steps none of which acts on circuit `j` leaves it unchanged
  * `snapshot_independent`   after `snapshot`, mapping the snapshot does not change the builder and vice versa
  * `shared_breaks`          with the shallow `snapshot'` (reusing object ids) `frame_map`'s conclusion fails
  * `shared_not_separated`   … and the shallow snapshot is not `Separated` from the builder
-/
namespace OSq
namespace Snap

/-- a statement object: an opaque payload (`tag`: kind of statement, parameters, name) and the ids of the
    `Qubit` cells it references (operands and qubit arguments, in visiting order; may repeat) -/
structure Obj where
  tag : Nat
  cells : List Nat
deriving DecidableEq, Repr

/-- object id ↦ statement object -/
abbrev Store := Nat → Option Obj

/-- a statement as a value: payload and the indices stored in its qubit cells -/
abbrev SVal := Nat × List Int

structure World where
  objs : Store
  val : Nat → Int          -- `Qubit.index` of a cell
  next : Nat               -- fresh-id counter (objects and cells share one id space)

def World.empty : World := ⟨fun _ => none, fun _ => 0, 0⟩

def cellsOf (w : World) (i : Nat) : List Nat :=
  match w.objs i with
  | some o => o.cells
  | none => []

/-- the cells reachable from a circuit (list of object ids) -/
def reach (w : World) (c : List Nat) : List Nat := c.flatMap (cellsOf w)

/-- what an object id denotes (`none`: dangling) -/
def view (w : World) (i : Nat) : Option SVal := (w.objs i).map fun o => (o.tag, o.cells.map w.val)

/-- the statement list a circuit denotes -/
def denote (w : World) (c : List Nat) : List (Option SVal) := c.map (view w)

/-- nothing is allocated at or above `next`; objects reference allocated cells only -/
def WF (w : World) : Prop :=
  (∀ i, w.next ≤ i → w.objs i = none) ∧ (∀ i o, w.objs i = some o → ∀ x ∈ o.cells, x < w.next)

def Live (w : World) (c : List Nat) : Prop := ∀ i ∈ c, i < w.next

/-- `w'` differs from `w` only at ids that were fresh in `w` -/
def Extends (w w' : World) : Prop :=
  w.next ≤ w'.next ∧ (∀ i, i < w.next → w'.objs i = w.objs i) ∧ (∀ x, x < w.next → w'.val x = w.val x)

theorem Extends.refl (w : World) : Extends w w := ⟨Nat.le_refl _, fun _ _ => rfl, fun _ _ => rfl⟩

theorem Extends.trans {a b c : World} (h1 : Extends a b) (h2 : Extends b c) : Extends a c :=
  ⟨Nat.le_trans h1.1 h2.1,
   fun i hi => by rw [h2.2.1 i (Nat.lt_of_lt_of_le hi h1.1), h1.2.1 i hi],
   fun x hx => by rw [h2.2.2 x (Nat.lt_of_lt_of_le hx h1.1), h1.2.2 x hx]⟩

theorem Live.mono {w w' : World} {c : List Nat} (h : Live w c) (he : Extends w w') : Live w' c :=
  fun i hi => Nat.lt_of_lt_of_le (h i hi) he.1

theorem WF_empty : WF World.empty := ⟨fun _ _ => rfl, fun i o h => by simp [World.empty] at h⟩

theorem cellsOf_lt {w : World} (hw : WF w) {i x : Nat} (hx : x ∈ cellsOf w i) : x < w.next := by
  unfold cellsOf at hx
  split at hx
  · next o ho => exact hw.2 i o ho x hx
  · simp at hx

theorem reach_lt {w : World} (hw : WF w) {c : List Nat} {x : Nat} (hx : x ∈ reach w c) : x < w.next := by
  simp only [reach, List.mem_flatMap] at hx
  obtain ⟨i, _, hi⟩ := hx
  exact cellsOf_lt hw hi

theorem flatMap_congr' {l : List Nat} {f g : Nat → List Nat} (h : ∀ a ∈ l, f a = g a) :
    l.flatMap f = l.flatMap g := by
  induction l with
  | nil => rfl
  | cons a l ih =>
    simp only [List.flatMap_cons]
    rw [h a (List.mem_cons_self ..), ih (fun b hb => h b (List.mem_cons_of_mem _ hb))]

theorem mem_reach {w : World} {c : List Nat} {x : Nat} : x ∈ reach w c ↔ ∃ i ∈ c, x ∈ cellsOf w i := by
  simp [reach, List.mem_flatMap]

/-! ## Frame lemma for extensions -/

theorem cellsOf_extends {w w' : World} (he : Extends w w') {i : Nat} (hi : i < w.next) :
    cellsOf w' i = cellsOf w i := by
  unfold cellsOf; rw [he.2.1 i hi]

theorem view_extends {w w' : World} (hw : WF w) (he : Extends w w') {i : Nat} (hi : i < w.next) :
    view w' i = view w i := by
  unfold view
  rw [he.2.1 i hi]
  cases ho : w.objs i with
  | none => rfl
  | some o =>
    simp only [Option.map_some]
    congr 2
    apply List.map_congr_left
    intro x hx
    exact he.2.2 x (hw.2 i o ho x hx)

/-- **frame**: a world that only adds fresh ids changes neither the denotation nor the reachable cells of a
    live circuit -/
theorem frame_extends {w w' : World} (hw : WF w) (he : Extends w w') {c : List Nat} (hc : Live w c) :
    denote w' c = denote w c ∧ reach w' c = reach w c := by
  constructor
  · unfold denote
    apply List.map_congr_left
    intro i hi
    exact view_extends hw he (hc i hi)
  · unfold reach
    apply flatMap_congr'
    intro i hi
    exact cellsOf_extends he (hc i hi)

/-! ## Allocation of one new statement object (a builder call, or one replacement gate of a pass) -/

/-- allocate fresh cells holding the indices `p.2` and a fresh object with payload `p.1` referencing them -/
def alloc (w : World) (p : SVal) : World × Nat :=
  let k := p.2.length
  ({ objs := fun i => if i = w.next + k then some ⟨p.1, (List.range k).map (w.next + ·)⟩ else w.objs i,
     val := fun x => if w.next ≤ x ∧ x < w.next + k then p.2.getD (x - w.next) 0 else w.val x,
     next := w.next + k + 1 }, w.next + k)

theorem range_map_getD (l : List Int) : (List.range l.length).map (fun j => l.getD j 0) = l := by
  apply List.ext_getElem (by simp)
  intro i h1 h2
  simp only [List.getElem_map, List.getElem_range]
  rw [List.getD_eq_getElem?_getD, List.getElem?_eq_getElem h2]
  rfl

theorem alloc_extends (w : World) (p : SVal) : Extends w (alloc w p).1 := by
  refine ⟨by simp only [alloc]; omega, ?_, ?_⟩
  · intro i hi
    simp only [alloc]
    rw [if_neg (by omega)]
  · intro x hx
    simp only [alloc]
    rw [if_neg (by omega)]

theorem alloc_wf {w : World} (hw : WF w) (p : SVal) : WF (alloc w p).1 := by
  constructor
  · intro i hi
    simp only [alloc] at hi ⊢
    rw [if_neg (by omega)]
    exact hw.1 i (by omega)
  · intro i o ho x hx
    simp only [alloc] at ho ⊢
    split at ho
    · injection ho with ho
      subst ho
      simp only [List.mem_map, List.mem_range] at hx
      obtain ⟨j, hj, rfl⟩ := hx
      omega
    · have := hw.2 i o ho x hx
      omega

theorem alloc_id_lt (w : World) (p : SVal) : (alloc w p).2 < (alloc w p).1.next := by
  simp only [alloc]; omega

theorem alloc_id_ge (w : World) (p : SVal) : w.next ≤ (alloc w p).2 := by
  simp only [alloc]; omega

theorem view_alloc_new (w : World) (p : SVal) : view (alloc w p).1 (alloc w p).2 = some p := by
  simp only [view, alloc, if_true, Option.map_some, List.map_map]
  congr 1
  obtain ⟨t, l⟩ := p
  simp only
  congr 1
  rw [← range_map_getD l]
  simp only [List.length_map, List.length_range]
  apply List.map_congr_left
  intro j hj
  simp only [List.mem_range] at hj
  simp only [Function.comp]
  rw [if_pos ⟨by omega, by omega⟩]
  congr 1
  · exact range_map_getD l
  · omega

theorem cellsOf_alloc_new (w : World) (p : SVal) {x : Nat} (hx : x ∈ cellsOf (alloc w p).1 (alloc w p).2) :
    w.next ≤ x := by
  simp only [cellsOf, alloc, if_true, List.mem_map, List.mem_range] at hx
  obtain ⟨j, _, rfl⟩ := hx
  omega

/-- a builder call: allocate the new statement and put its id at the end of the builder's list -/
def append (w : World) (b : List Nat) (p : SVal) : World × List Nat :=
  ((alloc w p).1, b ++ [(alloc w p).2])

theorem append_spec {w : World} (hw : WF w) {b : List Nat} (hb : Live w b) (p : SVal) :
    WF (append w b p).1 ∧ Extends w (append w b p).1 ∧ Live (append w b p).1 (append w b p).2 ∧
    denote (append w b p).1 (append w b p).2 = denote w b ++ [some p] ∧
    (∀ x ∈ reach (append w b p).1 (append w b p).2, x ∈ reach w b ∨ w.next ≤ x) := by
  have he := alloc_extends w p
  refine ⟨alloc_wf hw p, he, ?_, ?_, ?_⟩
  · intro i hi
    simp only [append, List.mem_append, List.mem_singleton] at hi
    rcases hi with hi | rfl
    · exact hb.mono he i hi
    · exact alloc_id_lt w p
  · simp only [append, denote, List.map_append, List.map_cons, List.map_nil]
    rw [view_alloc_new]
    congr 1
    exact (frame_extends hw he hb).1
  · intro x hx
    simp only [append, reach, List.flatMap_append, List.mem_append, List.flatMap_cons, List.flatMap_nil,
      List.append_nil] at hx
    rcases hx with hx | hx
    · left
      have := (frame_extends hw he hb).2
      unfold reach at this
      rw [this] at hx
      exact hx
    · right; exact cellsOf_alloc_new w p hx

/-- **frame_append**: appending to the builder changes no live circuit (in particular no snapshot). -/
theorem frame_append {w : World} (hw : WF w) (b : List Nat) (p : SVal) {c : List Nat} (hc : Live w c) :
    denote (append w b p).1 c = denote w c ∧ reach (append w b p).1 c = reach w c :=
  frame_extends hw (alloc_extends w p) hc

/-! ## Deep copy -/

/-- `deepcopy`: every object of `b` and every cell reachable from `b` gets a fresh id (`i ↦ i + next`, an
    injective renaming onto fresh ids, so the sharing pattern is preserved like `deepcopy`'s memo does) with
    the contents copied. -/
def snapshot (w : World) (b : List Nat) : World × List Nat :=
  let d := w.next
  ({ objs := fun j => if d ≤ j ∧ j - d ∈ b
                      then (w.objs (j - d)).map (fun o => ⟨o.tag, o.cells.map (· + d)⟩) else w.objs j,
     val := fun x => if d ≤ x ∧ x - d ∈ reach w b then w.val (x - d) else w.val x,
     next := d + d }, b.map (· + d))

/-- the shallow variant (`Circuit(rm, copy(ir))`, or handing out the builder's statements): reuses the ids -/
def snapshot' (w : World) (b : List Nat) : World × List Nat := (w, b)

theorem snapshot_extends (w : World) (b : List Nat) : Extends w (snapshot w b).1 := by
  refine ⟨by simp only [snapshot]; omega, ?_, ?_⟩
  · intro i hi
    simp only [snapshot]
    rw [if_neg (by omega)]
  · intro x hx
    simp only [snapshot]
    rw [if_neg (by omega)]

theorem snapshot_wf {w : World} (hw : WF w) {b : List Nat} (hb : Live w b) : WF (snapshot w b).1 := by
  constructor
  · intro j hj
    simp only [snapshot] at hj ⊢
    rw [if_neg]
    · exact hw.1 j (by omega)
    · rintro ⟨_, hm⟩
      have := hb _ hm
      omega
  · intro j o ho x hx
    simp only [snapshot] at ho ⊢
    split at ho
    · next hc =>
      cases ho' : w.objs (j - w.next) with
      | none => rw [ho'] at ho; simp at ho
      | some o' =>
        rw [ho'] at ho
        simp only [Option.map_some, Option.some.injEq] at ho
        subst ho
        simp only [List.mem_map] at hx
        obtain ⟨y, hy, rfl⟩ := hx
        have := hw.2 _ o' ho' y hy
        omega
    · have := hw.2 j o ho x hx
      omega

theorem view_snapshot_new {w : World} {b : List Nat} {i : Nat} (hi : i ∈ b) :
    view (snapshot w b).1 (i + w.next) = view w i := by
  simp only [view, snapshot]
  have e : i + w.next - w.next = i := by omega
  rw [if_pos ⟨by omega, by rw [e]; exact hi⟩, e]
  cases ho : w.objs i with
  | none => rfl
  | some o =>
    simp only [Option.map_some, List.map_map]
    congr 2
    apply List.map_congr_left
    intro x hx
    simp only [Function.comp]
    have e' : x + w.next - w.next = x := by omega
    have hm : x + w.next - w.next ∈ reach w b := by
      rw [e']; exact mem_reach.2 ⟨i, hi, by simp [cellsOf, ho, hx]⟩
    rw [if_pos ⟨by omega, hm⟩, e']

theorem cellsOf_snapshot_new {w : World} {b : List Nat} {i : Nat} (hi : i ∈ b) :
    cellsOf (snapshot w b).1 (i + w.next) = (cellsOf w i).map (· + w.next) := by
  simp only [cellsOf, snapshot]
  have e : i + w.next - w.next = i := by omega
  rw [if_pos ⟨by omega, by rw [e]; exact hi⟩, e]
  cases ho : w.objs i with
  | none => rfl
  | some o => rfl

/-- **snapshot_content**: the snapshot denotes the same statement list as the builder. -/
theorem snapshot_content (w : World) (b : List Nat) :
    denote (snapshot w b).1 (snapshot w b).2 = denote w b := by
  simp only [denote]
  show List.map (view (snapshot w b).1) (b.map (· + w.next)) = _
  rw [List.map_map]
  apply List.map_congr_left
  intro i hi
  exact view_snapshot_new hi

/-- deep copy preserves the sharing pattern: the copy's object ids and reachable cells are the builder's,
    renamed by the injective map `i ↦ i + next`. -/
theorem snapshot_shape (w : World) (b : List Nat) :
    (snapshot w b).2 = b.map (· + w.next) ∧
    reach (snapshot w b).1 (snapshot w b).2 = (reach w b).map (· + w.next) := by
  refine ⟨rfl, ?_⟩
  show reach (snapshot w b).1 (b.map (· + w.next)) = _
  simp only [reach, List.flatMap_map, List.map_flatMap]
  apply flatMap_congr'
  intro i hi
  exact cellsOf_snapshot_new hi

/-- **snapshot_fresh**: every object id and every reachable cell id of a snapshot is `≥ next`: it is not an id
    of the builder, not a cell reachable from the builder, and was never allocated before (`w.objs i = none`). -/
theorem snapshot_fresh {w : World} (hw : WF w) {b : List Nat} (hb : Live w b) :
    (∀ i ∈ (snapshot w b).2, w.next ≤ i ∧ i ∉ b ∧ w.objs i = none) ∧
    (∀ x ∈ reach (snapshot w b).1 (snapshot w b).2, w.next ≤ x ∧ x ∉ reach w b ∧
        ∀ c, Live w c → x ∉ reach w c) := by
  constructor
  · intro i hi
    have hi : i ∈ b.map (· + w.next) := hi
    simp only [List.mem_map] at hi
    obtain ⟨j, _, rfl⟩ := hi
    refine ⟨by omega, ?_, hw.1 _ (by omega)⟩
    intro hm
    have := hb _ hm
    omega
  · intro x hx
    rw [(snapshot_shape w b).2, List.mem_map] at hx
    obtain ⟨y, _, rfl⟩ := hx
    have hfresh : ∀ c, y + w.next ∉ reach w c := by
      intro c hm
      have := reach_lt hw hm
      omega
    exact ⟨by omega, hfresh b, fun c _ => hfresh c⟩

theorem snapshot_live {w : World} {b : List Nat} (hb : Live w b) : Live (snapshot w b).1 (snapshot w b).2 := by
  intro i hi
  have hi : i ∈ b.map (· + w.next) := hi
  simp only [List.mem_map] at hi
  obtain ⟨j, hj, rfl⟩ := hi
  have := hb j hj
  simp only [snapshot]
  omega

/-- **frame_snapshot**: taking a snapshot changes no live circuit (the builder included). -/
theorem frame_snapshot {w : World} (hw : WF w) (b : List Nat) {c : List Nat} (hc : Live w c) :
    denote (snapshot w b).1 c = denote w c ∧ reach (snapshot w b).1 c = reach w c :=
  frame_extends hw (snapshot_extends w b) hc

/-! ## In-place relabelling (`remap_ir`) -/

/-- relabel every cell reachable from `c`, once (the spec of `Heap.remap`: `heap_remap_once/other`) -/
def mapInPlace (w : World) (c : List Nat) (f : Int → Int) : World :=
  { w with val := fun x => if x ∈ reach w c then f (w.val x) else w.val x }

@[simp] theorem mapInPlace_objs (w : World) (c : List Nat) (f : Int → Int) : (mapInPlace w c f).objs = w.objs := rfl
@[simp] theorem mapInPlace_next (w : World) (c : List Nat) (f : Int → Int) : (mapInPlace w c f).next = w.next := rfl
@[simp] theorem reach_mapInPlace (w : World) (c c' : List Nat) (f : Int → Int) :
    reach (mapInPlace w c f) c' = reach w c' := rfl

theorem mapInPlace_wf {w : World} (hw : WF w) (c : List Nat) (f : Int → Int) : WF (mapInPlace w c f) := hw

/-- the model's remapper on the sub-heap of circuit `c` is `mapInPlace` -/
theorem mapInPlace_eq_heap_remap (w : World) (c : List Nat) (m : List Int) :
    (mapInPlace w c (mapIdx m)).val = (Heap.remap m ⟨c, cellsOf w, w.val⟩).val := by
  funext x
  by_cases hx : x ∈ reach w c
  · rw [heap_remap_once m ⟨c, cellsOf w, w.val⟩ x hx]
    simp only [mapInPlace]; rw [if_pos hx]
  · rw [heap_remap_other m ⟨c, cellsOf w, w.val⟩ x hx]
    simp only [mapInPlace]; rw [if_neg hx]

/-- the mapped circuit denotes the old statements with `f` applied to every index -/
theorem mapInPlace_self (w : World) (c : List Nat) (f : Int → Int) :
    denote (mapInPlace w c f) c = (denote w c).map (Option.map fun s => (s.1, s.2.map f)) := by
  simp only [denote, List.map_map]
  apply List.map_congr_left
  intro i hi
  simp only [Function.comp, view, mapInPlace_objs]
  cases ho : w.objs i with
  | none => rfl
  | some o =>
    simp only [Option.map_some, List.map_map]
    congr 2
    apply List.map_congr_left
    intro x hx
    simp only [mapInPlace, Function.comp]
    rw [if_pos (mem_reach.2 ⟨i, hi, by simp [cellsOf, ho, hx]⟩)]

/-- **frame_map**: relabelling the cells of `c` in place does not change the denotation of `c'`, provided
    their reachable cell sets are disjoint. -/
theorem frame_map (w : World) (c c' : List Nat) (f : Int → Int)
    (hdisj : ∀ x ∈ reach w c, x ∉ reach w c') :
    denote (mapInPlace w c f) c' = denote w c' := by
  simp only [denote]
  apply List.map_congr_left
  intro i hi
  simp only [view, mapInPlace_objs]
  cases ho : w.objs i with
  | none => rfl
  | some o =>
    simp only [Option.map_some]
    congr 2
    apply List.map_congr_left
    intro x hx
    simp only [mapInPlace]
    rw [if_neg]
    intro hm
    exact hdisj x hm (mem_reach.2 ⟨i, hi, by simp [cellsOf, ho, hx]⟩)

/-! ## Passes that replace list entries by new objects (`decompose`, `merge`, `replace`) -/

def allocMany : World → List SVal → World × List Nat
  | w, [] => (w, [])
  | w, p :: ps =>
    let a := alloc w p
    let r := allocMany a.1 ps
    (r.1, a.2 :: r.2)

/-- a pass given by an entrywise rewriting `f` (`none`: keep the object; `some ps`: replace it by newly
    allocated objects for `ps`) -/
def replaceObjs (f : SVal → Option (List SVal)) : World → List Nat → World × List Nat
  | w, [] => (w, [])
  | w, i :: c =>
    match (view w i).bind f with
    | none =>
      let r := replaceObjs f w c
      (r.1, i :: r.2)
    | some ps =>
      let a := allocMany w ps
      let r := replaceObjs f a.1 c
      (r.1, a.2 ++ r.2)

/-- the value-level meaning of `replaceObjs` on one entry -/
def rewriteV (f : SVal → Option (List SVal)) : Option SVal → List (Option SVal)
  | none => [none]
  | some s => match f s with
    | none => [some s]
    | some ps => ps.map some

theorem allocMany_spec {w : World} (hw : WF w) (ps : List SVal) :
    WF (allocMany w ps).1 ∧ Extends w (allocMany w ps).1 ∧ Live (allocMany w ps).1 (allocMany w ps).2 ∧
    (∀ i ∈ (allocMany w ps).2, w.next ≤ i) ∧
    denote (allocMany w ps).1 (allocMany w ps).2 = ps.map some ∧
    (∀ x ∈ reach (allocMany w ps).1 (allocMany w ps).2, w.next ≤ x) := by
  induction ps generalizing w with
  | nil =>
    exact ⟨hw, Extends.refl w, fun _ h => by simp [allocMany] at h, fun _ h => by simp [allocMany] at h, rfl,
      fun _ h => by simp [allocMany, reach] at h⟩
  | cons p ps ih =>
    have hw1 := alloc_wf hw p
    have he1 := alloc_extends w p
    obtain ⟨k1, k2, k3, k4, k5, k6⟩ := ih hw1
    simp only [allocMany]
    have hlt := alloc_id_lt w p
    refine ⟨k1, he1.trans k2, ?_, ?_, ?_, ?_⟩
    · intro i hi
      simp only [List.mem_cons] at hi
      rcases hi with rfl | hi
      · exact Nat.lt_of_lt_of_le hlt k2.1
      · exact k3 i hi
    · intro i hi
      simp only [List.mem_cons] at hi
      rcases hi with rfl | hi
      · exact alloc_id_ge w p
      · exact Nat.le_trans he1.1 (k4 i hi)
    · simp only [denote, List.map_cons]
      rw [view_extends hw1 k2 hlt, view_alloc_new]
      congr 1
    · intro x hx
      simp only [reach, List.flatMap_cons, List.mem_append] at hx
      rcases hx with hx | hx
      · rw [cellsOf_extends k2 hlt] at hx
        exact cellsOf_alloc_new w p hx
      · exact Nat.le_trans he1.1 (k6 x hx)

theorem rewriteV_keep {f : SVal → Option (List SVal)} {v : Option SVal} (h : v.bind f = none) :
    rewriteV f v = [v] := by
  cases v with
  | none => rfl
  | some s =>
    simp only [Option.bind_some] at h
    simp [rewriteV, h]

theorem rewriteV_repl {f : SVal → Option (List SVal)} {v : Option SVal} {ps : List SVal}
    (h : v.bind f = some ps) : rewriteV f v = ps.map some := by
  cases v with
  | none => simp at h
  | some s =>
    simp only [Option.bind_some] at h
    simp [rewriteV, h]

/-- `replaceObjs`: the new circuit denotes the entrywise rewriting of the old one; its ids are old ids of the
    same circuit or fresh; its reachable cells are old cells of the same circuit or fresh; the world is only
    extended (no existing object or cell is written). -/
theorem replaceObjs_spec (f : SVal → Option (List SVal)) {w : World} (hw : WF w) {c : List Nat} (hc : Live w c) :
    WF (replaceObjs f w c).1 ∧ Extends w (replaceObjs f w c).1 ∧
    Live (replaceObjs f w c).1 (replaceObjs f w c).2 ∧
    (∀ i ∈ (replaceObjs f w c).2, i ∈ c ∨ w.next ≤ i) ∧
    denote (replaceObjs f w c).1 (replaceObjs f w c).2 = (denote w c).flatMap (rewriteV f) ∧
    (∀ x ∈ reach (replaceObjs f w c).1 (replaceObjs f w c).2, x ∈ reach w c ∨ w.next ≤ x) := by
  induction c generalizing w with
  | nil =>
    exact ⟨hw, Extends.refl w, fun _ h => by simp [replaceObjs] at h, fun _ h => by simp [replaceObjs] at h,
      rfl, fun _ h => by simp [replaceObjs, reach] at h⟩
  | cons i c ih =>
    have hi : i < w.next := hc i (List.mem_cons_self ..)
    have hc' : Live w c := fun j hj => hc j (List.mem_cons_of_mem _ hj)
    cases hv : (view w i).bind f with
    | none =>
      obtain ⟨k1, k2, k3, k4, k5, k6⟩ := ih hw hc'
      have e : replaceObjs f w (i :: c) = ((replaceObjs f w c).1, i :: (replaceObjs f w c).2) := by
        simp only [replaceObjs, hv]
      rw [e]
      refine ⟨k1, k2, ?_, ?_, ?_, ?_⟩
      · intro j hj
        simp only [List.mem_cons] at hj
        rcases hj with rfl | hj
        · exact Nat.lt_of_lt_of_le hi k2.1
        · exact k3 j hj
      · intro j hj
        simp only [List.mem_cons] at hj ⊢
        rcases hj with rfl | hj
        · exact Or.inl (Or.inl rfl)
        · rcases k4 j hj with h | h
          · exact Or.inl (Or.inr h)
          · exact Or.inr h
      · simp only [denote, List.map_cons, List.flatMap_cons]
        rw [view_extends hw k2 hi, rewriteV_keep hv]
        simp only [denote] at k5
        rw [k5]; rfl
      · intro x hx
        simp only [reach, List.flatMap_cons, List.mem_append] at hx ⊢
        rcases hx with hx | hx
        · rw [cellsOf_extends k2 hi] at hx
          exact Or.inl (Or.inl hx)
        · rcases k6 x hx with h | h
          · exact Or.inl (Or.inr h)
          · exact Or.inr h
    | some ps =>
      obtain ⟨a1, a2, a3, a4, a5, a6⟩ := allocMany_spec hw ps
      obtain ⟨k1, k2, k3, k4, k5, k6⟩ := ih a1 (hc'.mono a2)
      have e : replaceObjs f w (i :: c) =
          ((replaceObjs f (allocMany w ps).1 c).1, (allocMany w ps).2 ++ (replaceObjs f (allocMany w ps).1 c).2) := by
        simp only [replaceObjs, hv]
      rw [e]
      have fr := frame_extends a1 k2 a3
      have fr' := frame_extends hw a2 hc'
      refine ⟨k1, a2.trans k2, ?_, ?_, ?_, ?_⟩
      · intro j hj
        simp only [List.mem_append] at hj
        rcases hj with hj | hj
        · exact Nat.lt_of_lt_of_le (a3 j hj) k2.1
        · exact k3 j hj
      · intro j hj
        simp only [List.mem_append, List.mem_cons] at hj ⊢
        rcases hj with hj | hj
        · exact Or.inr (a4 j hj)
        · rcases k4 j hj with h | h
          · exact Or.inl (Or.inr h)
          · exact Or.inr (Nat.le_trans a2.1 h)
      · have hd : denote (replaceObjs f (allocMany w ps).1 c).1
            ((allocMany w ps).2 ++ (replaceObjs f (allocMany w ps).1 c).2) =
            denote (replaceObjs f (allocMany w ps).1 c).1 (allocMany w ps).2 ++
            denote (replaceObjs f (allocMany w ps).1 c).1 (replaceObjs f (allocMany w ps).1 c).2 := by
          simp [denote]
        rw [hd, fr.1, a5, k5, fr'.1]
        simp only [denote, List.map_cons, List.flatMap_cons]
        rw [rewriteV_repl hv]
      · intro x hx
        have hr : reach (replaceObjs f (allocMany w ps).1 c).1
            ((allocMany w ps).2 ++ (replaceObjs f (allocMany w ps).1 c).2) =
            reach (replaceObjs f (allocMany w ps).1 c).1 (allocMany w ps).2 ++
            reach (replaceObjs f (allocMany w ps).1 c).1 (replaceObjs f (allocMany w ps).1 c).2 := by
          simp [reach]
        rw [hr, fr.2, List.mem_append] at hx
        rcases hx with hx | hx
        · exact Or.inr (a6 x hx)
        · rcases k6 x hx with h | h
          · rw [fr'.2] at h
            left
            simp only [reach, List.flatMap_cons, List.mem_append]
            exact Or.inr h
          · exact Or.inr (Nat.le_trans a2.1 h)

/-- **frame_replace**: a replacing pass on `c` changes no live circuit `c'` (it writes no existing object/cell). -/
theorem frame_replace (f : SVal → Option (List SVal)) {w : World} (hw : WF w) {c : List Nat} (hc : Live w c)
    {c' : List Nat} (hc' : Live w c') :
    denote (replaceObjs f w c).1 c' = denote w c' ∧ reach (replaceObjs f w c).1 c' = reach w c' :=
  frame_extends hw (replaceObjs_spec f hw hc).2.1 hc'

/-! ## The separation invariant over the list of live circuits -/

/-- the world is well formed, all live circuits (builder and snapshots) are live, and their reachable cell
    sets are pairwise disjoint -/
def Separated (w : World) (cs : List (List Nat)) : Prop :=
  WF w ∧ (∀ c ∈ cs, Live w c) ∧
  ∀ i j (hi : i < cs.length) (hj : j < cs.length), i ≠ j → ∀ x ∈ reach w cs[i], x ∉ reach w cs[j]

theorem separated_init : Separated World.empty [[]] := by
  refine ⟨WF_empty, ?_, ?_⟩
  · intro c hc i hi
    simp only [List.mem_singleton] at hc
    subst hc
    simp at hi
  · intro i j hi hj hne
    simp only [List.length_singleton] at hi hj
    omega

/-- core of all preservation proofs: every cell of the new configuration is an old cell of the circuit at the
    same position, or a fresh cell of the one position `k` that was acted on -/
theorem separated_of_cover {w w' : World} {cs cs' : List (List Nat)} (hS : Separated w cs) (hw' : WF w')
    (hL : ∀ c ∈ cs', Live w' c) (k : Nat)
    (cover : ∀ i (hi : i < cs'.length) x, x ∈ reach w' cs'[i] →
      (∃ hi' : i < cs.length, x ∈ reach w cs[i]) ∨ (i = k ∧ w.next ≤ x)) :
    Separated w' cs' := by
  refine ⟨hw', hL, ?_⟩
  intro i j hi hj hne x hxi hxj
  rcases cover i hi x hxi with ⟨hi', h1⟩ | ⟨h1, h1'⟩ <;> rcases cover j hj x hxj with ⟨hj', h2⟩ | ⟨h2, h2'⟩
  · exact hS.2.2 i j hi' hj' hne x h1 h2
  · have := reach_lt hS.1 h1; omega
  · have := reach_lt hS.1 h2; omega
  · omega

/-- replacing circuit `k` by `c'` whose cells are old cells of circuit `k` or fresh, in an extended world -/
theorem separated_set {w w' : World} {cs : List (List Nat)} (hS : Separated w cs) (hw' : WF w')
    (he : Extends w w') {k : Nat} (hk : k < cs.length) {c' : List Nat} (hc' : Live w' c')
    (hr : ∀ x ∈ reach w' c', x ∈ reach w cs[k] ∨ w.next ≤ x) : Separated w' (cs.set k c') := by
  apply separated_of_cover hS hw' _ k
  · intro i hi x hx
    have hi0 : i < cs.length := by simpa using hi
    by_cases hik : i = k
    · subst hik
      rw [List.getElem_set_self] at hx
      rcases hr x hx with h | h
      · exact Or.inl ⟨hi0, h⟩
      · exact Or.inr ⟨rfl, h⟩
    · rw [List.getElem_set_ne (fun h => hik h.symm)] at hx
      rw [(frame_extends hS.1 he (hS.2.1 _ (List.getElem_mem hi0))).2] at hx
      exact Or.inl ⟨hi0, hx⟩
  · intro c hc
    rcases List.mem_or_eq_of_mem_set hc with h | h
    · exact (hS.2.1 c h).mono he
    · subst h; exact hc'

/-- adding a circuit all of whose cells are fresh, in an extended world -/
theorem separated_push {w w' : World} {cs : List (List Nat)} (hS : Separated w cs) (hw' : WF w')
    (he : Extends w w') {c' : List Nat} (hc' : Live w' c') (hr : ∀ x ∈ reach w' c', w.next ≤ x) :
    Separated w' (cs ++ [c']) := by
  apply separated_of_cover hS hw' _ cs.length
  · intro i hi x hx
    by_cases hik : i < cs.length
    · rw [List.getElem_append_left hik] at hx
      rw [(frame_extends hS.1 he (hS.2.1 _ (List.getElem_mem hik))).2] at hx
      exact Or.inl ⟨hik, hx⟩
    · have hi' : i = cs.length := by simp at hi; omega
      subst hi'
      rw [List.getElem_append_right (Nat.le_refl _)] at hx
      simp only [Nat.sub_self, List.getElem_cons_zero] at hx
      exact Or.inr ⟨rfl, hr x hx⟩
  · intro c hc
    simp only [List.mem_append, List.mem_singleton] at hc
    rcases hc with h | h
    · exact (hS.2.1 c h).mono he
    · subst h; exact hc'

theorem separated_append {w : World} {cs : List (List Nat)} (hS : Separated w cs) {k : Nat} (hk : k < cs.length)
    (p : SVal) : Separated (append w cs[k] p).1 (cs.set k (append w cs[k] p).2) := by
  obtain ⟨a1, a2, a3, _, a5⟩ := append_spec hS.1 (hS.2.1 _ (List.getElem_mem hk)) p
  exact separated_set hS a1 a2 hk a3 a5

/-- `snapshot` establishes exactly the disjointness `frame_map` needs -/
theorem separated_snapshot {w : World} {cs : List (List Nat)} (hS : Separated w cs) {k : Nat}
    (hk : k < cs.length) : Separated (snapshot w cs[k]).1 (cs ++ [(snapshot w cs[k]).2]) := by
  have hb := hS.2.1 _ (List.getElem_mem hk)
  exact separated_push hS (snapshot_wf hS.1 hb) (snapshot_extends _ _) (snapshot_live hb)
    (fun x hx => ((snapshot_fresh hS.1 hb).2 x hx).1)

theorem separated_mapInPlace {w : World} {cs : List (List Nat)} (hS : Separated w cs) (c : List Nat)
    (f : Int → Int) : Separated (mapInPlace w c f) cs := hS

theorem separated_replaceObjs {w : World} {cs : List (List Nat)} (hS : Separated w cs) {k : Nat}
    (hk : k < cs.length) (f : SVal → Option (List SVal)) :
    Separated (replaceObjs f w cs[k]).1 (cs.set k (replaceObjs f w cs[k]).2) := by
  obtain ⟨a1, a2, a3, _, _, a6⟩ := replaceObjs_spec f hS.1 (hS.2.1 _ (List.getElem_mem hk))
  exact separated_set hS a1 a2 hk a3 a6

/-! ## The transition system -/

structure State where
  w : World
  cs : List (List Nat)       -- live circuits: position 0 is the builder's IR, the others are snapshots

def State.init : State := ⟨World.empty, [[]]⟩

/-- `Step k s t`: one operation acting on circuit `k` (a builder call on it, a snapshot of it, an in-place
    relabelling of it, a replacing pass on it) -/
inductive Step : Nat → State → State → Prop
  | append (s : State) (k : Nat) (hk : k < s.cs.length) (p : SVal) :
      Step k s ⟨(append s.w s.cs[k] p).1, s.cs.set k (append s.w s.cs[k] p).2⟩
  | snapshot (s : State) (k : Nat) (hk : k < s.cs.length) :
      Step k s ⟨(snapshot s.w s.cs[k]).1, s.cs ++ [(snapshot s.w s.cs[k]).2]⟩
  | map (s : State) (k : Nat) (hk : k < s.cs.length) (f : Int → Int) :
      Step k s ⟨mapInPlace s.w s.cs[k] f, s.cs⟩
  | replace (s : State) (k : Nat) (hk : k < s.cs.length) (f : SVal → Option (List SVal)) :
      Step k s ⟨(replaceObjs f s.w s.cs[k]).1, s.cs.set k (replaceObjs f s.w s.cs[k]).2⟩

/-- `Separated` is preserved by all four operations -/
theorem step_separated {k : Nat} {s t : State} (hS : Separated s.w s.cs) (h : Step k s t) :
    Separated t.w t.cs := by
  cases h with
  | append _ _ hk p => exact separated_append hS hk p
  | snapshot _ _ hk => exact separated_snapshot hS hk
  | map _ _ hk f => exact separated_mapInPlace hS _ f
  | replace _ _ hk f => exact separated_replaceObjs hS hk f

/-- **C17** (passes change only the circuit they are invoked on) and one step of **C13**: a step acting on
    circuit `k` leaves every other live circuit `j ≠ k` at its position, with the same object ids, the same
    denotation and the same reachable cells. -/
theorem step_frame {k : Nat} {s t : State} (hS : Separated s.w s.cs) (h : Step k s t)
    {j : Nat} (hj : j < s.cs.length) (hjk : j ≠ k) :
    ∃ hj' : j < t.cs.length, t.cs[j] = s.cs[j] ∧ denote t.w s.cs[j] = denote s.w s.cs[j] ∧
      reach t.w s.cs[j] = reach s.w s.cs[j] := by
  have hL := hS.2.1 _ (List.getElem_mem hj)
  cases h with
  | append _ _ hk p =>
    refine ⟨by simpa using hj, ?_, frame_append hS.1 s.cs[k] p hL⟩
    simp only
    rw [List.getElem_set_ne (fun h => hjk h.symm)]
  | snapshot _ _ hk =>
    refine ⟨by simp; omega, ?_, frame_snapshot hS.1 _ hL⟩
    simp only
    rw [List.getElem_append_left hj]
  | map _ _ hk f =>
    exact ⟨hj, rfl, frame_map _ _ _ f (hS.2.2 k j hk hj (fun h => hjk h.symm)), rfl⟩
  | replace _ _ hk f =>
    refine ⟨by simpa using hj, ?_, frame_replace f hS.1 (hS.2.1 _ (List.getElem_mem hk)) hL⟩
    simp only
    rw [List.getElem_set_ne (fun h => hjk h.symm)]

/-- a snapshot step also leaves the circuit it copies unchanged, and the new last circuit denotes the same -/
theorem step_snapshot_content (s : State) (k : Nat) (hk : k < s.cs.length) (hS : Separated s.w s.cs) :
    denote (snapshot s.w s.cs[k]).1 s.cs[k] = denote s.w s.cs[k] ∧
    denote (snapshot s.w s.cs[k]).1 (snapshot s.w s.cs[k]).2 = denote s.w s.cs[k] :=
  ⟨(frame_snapshot hS.1 _ (hS.2.1 _ (List.getElem_mem hk))).1, snapshot_content _ _⟩

/-- any number of steps, none of which acts on circuit `j` -/
inductive StepsAvoid (j : Nat) : State → State → Prop
  | refl (s : State) : StepsAvoid j s s
  | tail {s t u : State} {k : Nat} : StepsAvoid j s t → k ≠ j → Step k t u → StepsAvoid j s u

/-- **C13**: whatever is done later to the builder or to other snapshots (builder calls, further snapshots,
    in-place relabellings, replacing passes — any number, in any order), circuit `j` stays at its position and
    denotes the same statement list; the invariant `Separated` holds throughout. -/
theorem stepsAvoid_frame {j : Nat} {s t : State} (hS : Separated s.w s.cs) (h : StepsAvoid j s t)
    (hj : j < s.cs.length) :
    Separated t.w t.cs ∧ ∃ hj' : j < t.cs.length, t.cs[j] = s.cs[j] ∧
      denote t.w s.cs[j] = denote s.w s.cs[j] := by
  induction h with
  | refl => exact ⟨hS, hj, rfl, rfl⟩
  | tail _ hne hstep ih =>
    obtain ⟨hT, hj', e1, e2⟩ := ih
    refine ⟨step_separated hT hstep, ?_⟩
    obtain ⟨hj'', f1, f2, _⟩ := step_frame hT hstep hj' (fun h => hne h.symm)
    refine ⟨hj'', f1.trans e1, ?_⟩
    rw [e1] at f2
    exact f2.trans e2

/-- every state reachable from the initial one (empty world, one empty builder) is separated -/
inductive Reachable : State → Prop
  | init : Reachable State.init
  | step {s t : State} {k : Nat} : Reachable s → Step k s t → Reachable t

theorem reachable_separated {s : State} (h : Reachable s) : Separated s.w s.cs := by
  induction h with
  | init => exact separated_init
  | step _ hstep ih => exact step_separated ih hstep

/-- after `to_circuit()`, relabelling the snapshot does not change the builder, and relabelling the builder's
    statements does not change the snapshot -/
theorem snapshot_independent {w : World} (hw : WF w) {b : List Nat} (hb : Live w b) (f : Int → Int) :
    denote (mapInPlace (snapshot w b).1 (snapshot w b).2 f) b = denote w b ∧
    denote (mapInPlace (snapshot w b).1 b f) (snapshot w b).2 = denote w b := by
  have hfr := snapshot_fresh hw hb
  have hframe := frame_snapshot hw b hb
  constructor
  · rw [frame_map _ _ _ f, hframe.1]
    intro x hx
    rw [hframe.2]
    exact (hfr.2 x hx).2.1
  · rw [frame_map _ _ _ f, snapshot_content]
    intro x hx hx'
    rw [hframe.2] at hx
    exact (hfr.2 x hx').2.1 hx

/-! ## Non-vacuity and the counterexample -/
namespace Examples

/-- the builder after `H(0); CNOT(0, 1)` (payload tags 1 and 2) -/
def w2 : World × List Nat :=
  let a := append World.empty [] (1, [0])
  append a.1 a.2 (2, [0, 1])

example : denote w2.1 w2.2 = [some (1, [0]), some (2, [0, 1])] := by decide
example : w2.2 = [1, 4] ∧ reach w2.1 w2.2 = [0, 2, 3] ∧ w2.1.next = 5 := by decide

/-- its deep copy: object ids 6, 9; cells 5, 7, 8 -/
example : (snapshot w2.1 w2.2).2 = [6, 9] ∧ reach (snapshot w2.1 w2.2).1 (snapshot w2.1 w2.2).2 = [5, 7, 8] := by
  decide
example : denote (snapshot w2.1 w2.2).1 (snapshot w2.1 w2.2).2 = [some (1, [0]), some (2, [0, 1])] := by decide

/-- relabel the snapshot with `q ↦ q + 10`: the snapshot changes, the builder does not -/
example :
    let s := snapshot w2.1 w2.2
    let w' := mapInPlace s.1 s.2 (· + 10)
    denote w' s.2 = [some (1, [10]), some (2, [10, 11])] ∧ denote w' w2.2 = [some (1, [0]), some (2, [0, 1])] := by
  decide

/-- a decomposition-like pass on the snapshot: replace the statement with tag 2 by three new ones -/
def dec : SVal → Option (List SVal) := fun s => if s.1 = 2 then some [(1, [1]), (3, s.2), (1, [1])] else none

example :
    let s := snapshot w2.1 w2.2
    let r := replaceObjs dec s.1 s.2
    denote r.1 r.2 = [some (1, [0]), some (1, [1]), some (3, [0, 1]), some (1, [1])] ∧
    denote r.1 w2.2 = [some (1, [0]), some (2, [0, 1])] ∧ r.2.head? = some 6 := by
  decide

/-- the general theorems instantiated on this state -/
theorem sep2 : Separated (snapshot w2.1 w2.2).1 [w2.2, (snapshot w2.1 w2.2).2] := by
  show Separated (snapshot w2.1 w2.2).1 ([w2.2] ++ [(snapshot w2.1 w2.2).2])
  have h0 : Separated World.empty [[]] := separated_init
  have h1 := separated_append h0 (k := 0) (by decide) (1, [0])
  have h2 := separated_append h1 (k := 0) (by decide) (2, [0, 1])
  exact separated_snapshot h2 (k := 0) (by decide)

/-- C13 on this state: whatever happens later to the builder (position 0) or to further snapshots, the
    snapshot at position 1 keeps its ids and its denotation -/
example (t : State) (h : StepsAvoid 1 ⟨(snapshot w2.1 w2.2).1, [w2.2, (snapshot w2.1 w2.2).2]⟩ t) :
    ∃ hj : 1 < t.cs.length, t.cs[1] = [6, 9] ∧ denote t.w [6, 9] = [some (1, [0]), some (2, [0, 1])] := by
  obtain ⟨_, hj, e1, e2⟩ := stepsAvoid_frame (s := ⟨(snapshot w2.1 w2.2).1, [w2.2, (snapshot w2.1 w2.2).2]⟩)
    sep2 h (by decide)
  exact ⟨hj, e1, e2⟩

/-- such a run exists: a further builder call `X(2)` and a relabelling of the builder's statements -/
example : ∃ t, StepsAvoid 1 ⟨(snapshot w2.1 w2.2).1, [w2.2, (snapshot w2.1 w2.2).2]⟩ t ∧ t.cs.length = 2 ∧
    denote t.w t.cs[0]! = [some (1, [1]), some (2, [1, 2]), some (4, [3])] := by
  refine ⟨_, .tail (.tail (.refl _) (k := 0) (by decide) (.append _ 0 (by decide) (4, [2]))) (k := 0) (by decide)
    (.map _ 0 (by decide) (· + 1)), by decide, by decide⟩

/-- **shared_breaks**: without the deep copy (`snapshot'` reuses the object ids, hence the cells), relabelling
    the "snapshot" in place changes what the builder denotes: the conclusion of `frame_map` fails. -/
theorem shared_breaks :
    let s := snapshot' w2.1 w2.2
    denote (mapInPlace s.1 s.2 (· + 10)) w2.2 ≠ denote w2.1 w2.2 := by
  decide

/-- … and indeed the shallow snapshot is not separated from the builder (the hypothesis of `frame_map` fails) -/
theorem shared_not_separated :
    ¬ Separated (snapshot' w2.1 w2.2).1 [w2.2, (snapshot' w2.1 w2.2).2] := by
  intro h
  exact h.2.2 0 1 (by decide) (by decide) (by decide) 0 (by decide) (by decide)

end Examples

end Snap
end OSq

#print axioms OSq.Snap.snapshot_fresh
#print axioms OSq.Snap.snapshot_content
#print axioms OSq.Snap.frame_append
#print axioms OSq.Snap.frame_map
#print axioms OSq.Snap.frame_replace
#print axioms OSq.Snap.replaceObjs_spec
#print axioms OSq.Snap.mapInPlace_eq_heap_remap
#print axioms OSq.Snap.step_separated
#print axioms OSq.Snap.step_frame
#print axioms OSq.Snap.stepsAvoid_frame
#print axioms OSq.Snap.reachable_separated
#print axioms OSq.Snap.snapshot_independent
#print axioms OSq.Snap.Examples.shared_breaks
#print axioms OSq.Snap.Examples.shared_not_separated
