/-
  OSq.Proofs.MergeBand3 — **C02 for ALL inputs, circuit level**: "merging single-qubit gates preserves the circuit's
  operation up to a global phase" with NO crisp hypothesis, up to an explicit, dimension-free error in the operator
  norm (`‖·‖` = L2 operator norm of `Matrix.Norms.L2Operator`, see `MergeBand2`).  `α := ℝ`, `s7 = 10^7` is the rounding
  scale of `compose_bloch_sphere_rotations`, namespace `OSq.Bands`.

  Constants (operator norm):  `Kc atol = 2√2·atol + 5/s7`   one `composeRot` (identity branch `2√2·atol`; general branch
                                                            `5/s7`: rounding of the axis `4/s7`, of the phase `1/s7`)
                              `Ec atol = atol`              a rotation that tests as identity, vs `e^{iφ}·1` (not
                                                            needed at circuit level: an *accumulator* that tests as
                                                            identity IS the identity, `composeRot_isIdentity_zero`)
                              `Fc atol = 7·atol`            the final renaming `try_name_anonymous_bloch`
                              `perRot atol = Kc + Fc = (2√2 + 7)·atol + 5/s7 ≤ 10·atol + 5·10⁻⁷` (`perRot_le`)
  (twice the entrywise constants of `Bands`/`Bands2`: the conversion `opNorm_le_of_entry_le` on 2×2 matrices is the only
  place where a factor is lost; at register level nothing is lost.)

  1. one qubit
  * `composeRot_all_inputs_op`   unit axes, same qubit ⇒ `composeRot atol u a = .ok r`, `r` has a unit axis and
                                 `∃ z, ‖z‖ = 1 ∧ ‖rotOp1 r − z • (rotOp1 u * rotOp1 a)‖ ≤ Kc atol`
                                 (operator-norm form of `Bands.composeRot_all_inputs` + `composeRot_total`)
  * `identity_op_band`           `is_identity` accepts `a` ⇒ `∃ z, ‖z‖ = 1 ∧ ‖rotOp1 a − z • 1‖ ≤ Ec atol`
  * `tryName_go_cases_ax`, `finalRot_op_band`   `finalRot` keeps unit axis and qubit and
                                 `∃ z, ‖z‖ = 1 ∧ ‖rotOp1 (finalRot atol a) − z • rotOp1 a‖ ≤ Fc atol`
  * `foldRot_all_inputs_op`      a run of `k` rotations folded with `composeRot`: never raises,
                                 `‖rotOp1 r − z • (prodOp1 l * rotOp1 acc)‖ ≤ k · Kc atol`
  2. `composeRot_isIdentity_zero`  a `composeRot` result that tests as identity has angle `0` and phase `0` exactly
     `bandHyp_model`             the model's parameters satisfy `MergeAbs.BandHyp` for `stSem n`, `stApprox n` with
                                 `K = Kc atol`, `E = 0`, `F = Fc atol` (inputs: `GoodRot`, accumulators: `GoodAcc atol`)
  3. circuit level
  * `merge_all_inputs`           in-range operands, unit-axis rotations, other gates of norm `≤ 1`, `0 < atol ≤ π`, no
                                 exception ⇒ `∃ z, ‖z‖ = 1 ∧ ∀ o, ‖circOp n merged o − z • circOp n original o‖ ≤ G · perRot atol`,
                                 `G` = number of one-qubit rotations of the input; ONE phase for ALL outcome assignments
  * `merge_all_inputs_entry`     the same entrywise, `≤ G · (10·atol + 5·10⁻⁷)`, no dimension factor
  4. totality
  * `merge_no_error_of_unit_axes`   in-range operands and unit axes ⇒ `(merge atol c).2 = none` (no crisp hypothesis)
  * `merge_all_inputs'`          unconditional form: no exception ∧ `SameBarriers` ∧ the band
  5. non-vacuity: `exBand = Rx(1/20) q0; Rx(1/20) q0`, `atol = 1/10`
  * example                      `merge_all_inputs'` instantiated on it
  * `ex_compose_dI`, `ex_compose_id`, `exBand_merged`   both compositions take the identity branch; the merged circuit is EMPTY
  * `exBand_not_equiv`           `¬ CircEquiv 1 exBand.stmts (merge (1/10) exBand).1.stmts`: the conclusion of the exact
                                 theorem `merge_sem_global_real` is false here, so (example) its hypothesis `CrispR` fails
-/
import OSq.Proofs.MergeBand2
import OSq.Proofs.Bands2
import OSq.Proofs.MergeIdem

set_option linter.unusedSectionVars false
set_option linter.unusedVariables false
set_option linter.unnecessarySeqFocus false
set_option linter.unusedSimpArgs false
open Matrix
open scoped Matrix.Norms.L2Operator

namespace OSq
namespace Bands
open MergeAbs Sem

/-! ## 1. One-qubit constants in the operator norm -/

theorem rotOp1_eq (r : Rot ℝ) :
    rotOp1 r = (rot r.axis r.angle r.phase : Matrix (Fin 2) (Fin 2) ℂ) := by
  ext a b
  exact gateOp_one_bsr r.axis r.angle r.phase a b

/-- per-composition constant, operator norm: twice the entrywise constant of `Bands.composeRot_all_inputs` -/
noncomputable def Kc (atol : ℝ) : ℝ := 2 * (√2 * atol + 5 / (2 * s7))
/-- identity-test constant (after aligning the phase) -/
noncomputable def Ec (atol : ℝ) : ℝ := atol
/-- final-renaming constant (after aligning the phase) -/
noncomputable def Fc (atol : ℝ) : ℝ := 7 * atol

theorem Kc_nonneg (atol : ℝ) (hat : 0 ≤ atol) : 0 ≤ Kc atol := by
  have := s7_pos; unfold Kc; positivity

/-- **composeRot_all_inputs_op**: for unit-axis rotations on one qubit `composeRot` never raises, the result has a
    unit axis, sits on the same qubit, and its operator is within `Kc atol = 2√2·atol + 5/s7` (operator norm) of
    `z • (U_u · U_a)` for one unit scalar `z`.  No crisp hypothesis. -/
theorem composeRot_all_inputs_op (atol : ℝ) (hat : 0 < atol) (u a : Rot ℝ) (hu : UnitVec u.axis)
    (ha : UnitVec a.axis) (hq : u.q = a.q) :
    ∃ r, composeRot atol u a = .ok r ∧ UnitVec r.axis ∧ r.q = u.q ∧
      ∃ z : ℂ, ‖z‖ = 1 ∧ ‖rotOp1 r - z • (rotOp1 u * rotOp1 a)‖ ≤ Kc atol := by
  obtain ⟨r, hr⟩ := composeRot_total atol hat u a hu ha hq
  obtain ⟨hru, z, hz, hd⟩ := composeRot_all_inputs atol hat u a r hu ha hr
  refine ⟨r, hr, hru, (compose_ok_same_qubit atol u a r hr).2, z, hz, ?_⟩
  rw [rotOp1_eq, rotOp1_eq, rotOp1_eq]
  have h7 := s7_pos
  exact opNorm_le_of_entry_le (A := rot r.axis r.angle r.phase
      - z • (rot u.axis u.angle u.phase * rot a.axis a.angle a.phase)) (by positivity)
    (fun i j => by rw [Matrix.sub_apply]; exact hd i j)

/-- **identity test, operator norm**: a unit-axis rotation that `is_identity` accepts (`|θ| < atol`, `|φ| < atol`)
    is within `Ec atol = atol` of `e^{iφ} • 1`. -/
theorem identity_op_band (atol : ℝ) (a : Rot ℝ) (ha : UnitVec a.axis) (hid : a.isIdentity atol = true) :
    ∃ z : ℂ, ‖z‖ = 1 ∧ ‖rotOp1 a - z • (1 : Op 1)‖ ≤ Ec atol := by
  simp only [Rot.isIdentity, absS_real, Bool.and_eq_true] at hid
  have hid : |a.angle| < atol ∧ |a.phase| < atol := ⟨of_decide_eq_true hid.1, of_decide_eq_true hid.2⟩
  have ha' := (unitVec_iff _).mp ha
  refine ⟨Complex.exp (Complex.I * a.phase), norm_exp_I_mul a.phase, ?_⟩
  rw [rotOp1_eq, rot_phase_smul]
  have hat : 0 ≤ atol := (abs_nonneg _).trans hid.1.le
  have key : ‖(rot a.axis a.angle 0 - 1 : Matrix (Fin 2) (Fin 2) ℂ)‖ ≤ 2 * (atol / 2) :=
    opNorm_le_of_entry_le (by positivity) (fun i j => by
      rw [Matrix.sub_apply]
      have := rot_sub_one_entry_le a.axis ha' a.angle 0 i j
      rw [abs_zero, add_zero] at this
      linarith [hid.1])
  have e : Complex.exp (Complex.I * a.phase) • rot a.axis a.angle 0
      - Complex.exp (Complex.I * a.phase) • (1 : Matrix (Fin 2) (Fin 2) ℂ)
      = Complex.exp (Complex.I * a.phase) • (rot a.axis a.angle 0 - 1) := by rw [smul_sub]
  show ‖Complex.exp (Complex.I * a.phase) • rot a.axis a.angle 0
      - Complex.exp (Complex.I * a.phase) • (1 : Matrix (Fin 2) (Fin 2) ℂ)‖ ≤ Ec atol
  rw [e, norm_smul, norm_exp_I_mul, one_mul]
  unfold Ec
  linarith

/-! ### `tryName`, with the closeness of the axis -/
section generic
variable {α : Type} [Scalar α]

theorem tryName_go_cases_ax (atol : α) (r : Rot α) (cl : α → α → Bool) (ns : List String) :
    tryName.go atol r cl ns = r ∨
    ∃ n ∈ ns, ∃ (q' : Int) (ax : Vec3 α) (an ph : α) (nm : Option (Named α)),
      named atol n [.qubit r.q] = .ok (.bsr q' ax an ph, nm) ∧
      cl ax.1 r.axis.1 = true ∧ cl ax.2.1 r.axis.2.1 = true ∧ cl ax.2.2 r.axis.2.2 = true ∧
      cl an r.angle = true ∧ cl ph r.phase = true ∧
      tryName.go atol r cl ns = ⟨r.q, ax, an, ph, nm⟩ := by
  induction ns with
  | nil => left; simp [tryName.go]
  | cons n ns ih =>
    have lift' : (tryName.go atol r cl ns = r ∨
        ∃ n' ∈ ns, ∃ (q' : Int) (ax : Vec3 α) (an ph : α) (nm : Option (Named α)),
          named atol n' [.qubit r.q] = .ok (.bsr q' ax an ph, nm) ∧
          cl ax.1 r.axis.1 = true ∧ cl ax.2.1 r.axis.2.1 = true ∧ cl ax.2.2 r.axis.2.2 = true ∧
          cl an r.angle = true ∧ cl ph r.phase = true ∧
          tryName.go atol r cl ns = ⟨r.q, ax, an, ph, nm⟩) →
        (tryName.go atol r cl ns = r ∨
        ∃ n' ∈ n :: ns, ∃ (q' : Int) (ax : Vec3 α) (an ph : α) (nm : Option (Named α)),
          named atol n' [.qubit r.q] = .ok (.bsr q' ax an ph, nm) ∧
          cl ax.1 r.axis.1 = true ∧ cl ax.2.1 r.axis.2.1 = true ∧ cl ax.2.2 r.axis.2.2 = true ∧
          cl an r.angle = true ∧ cl ph r.phase = true ∧
          tryName.go atol r cl ns = ⟨r.q, ax, an, ph, nm⟩) := by
      rintro (h | ⟨n', hn', rest⟩)
      · exact Or.inl h
      · exact Or.inr ⟨n', List.mem_cons_of_mem _ hn', rest⟩
    simp only [tryName.go]
    split
    · rename_i q' ax an ph nm hnamed
      split
      · rename_i hcl
        simp only [Bool.and_eq_true] at hcl
        exact Or.inr ⟨n, List.mem_cons_self, q', ax, an, ph, nm, hnamed, hcl.1.1.1.1, hcl.1.1.1.2, hcl.1.1.2,
          hcl.1.2, hcl.2, rfl⟩
      · exact lift' ih
    · exact lift' ih

end generic

theorem closeTo_real_iff (atol x y : ℝ) : closeTo zero atol x y = true ↔ |x - y| ≤ atol := by
  simp only [closeTo, absS_real, zero_real, zero_mul, add_zero, decide_eq_true_eq]

/-- **final renaming, operator norm**: `finalRot` (= `try_name_anonymous_bloch` on anonymous accumulators) keeps a unit
    axis and the qubit, and moves the operator by at most `Fc atol = 7·atol` up to a unit phase (`|Δangle|/2 ≤ atol/2`,
    axis `≤ 3·atol`, entrywise; twice that in operator norm; the phase difference is absorbed in `z`). -/
theorem finalRot_op_band (atol : ℝ) (hat : 0 ≤ atol) (a : Rot ℝ) (ha : UnitVec a.axis) :
    UnitVec (finalRot atol a).axis ∧ (finalRot atol a).q = a.q ∧
    ∃ z : ℂ, ‖z‖ = 1 ∧ ‖rotOp1 (finalRot atol a) - z • rotOp1 a‖ ≤ Fc atol := by
  have hF : 0 ≤ Fc atol := by unfold Fc; positivity
  have triv : UnitVec a.axis ∧ a.q = a.q ∧ ∃ z : ℂ, ‖z‖ = 1 ∧ ‖rotOp1 a - z • rotOp1 a‖ ≤ Fc atol :=
    ⟨ha, rfl, 1, norm_one, by rw [one_smul, sub_self, norm_zero]; exact hF⟩
  unfold finalRot
  split
  · rcases tryName_go_cases_ax atol a (fun x y => closeTo zero atol x y) Gen.bsrNoParams with
      h | ⟨n, hn, q', ax, an, ph, nm, hnamed, c1, c2, c3, c4, c5, heq⟩
    · have : tryName atol a = a := h
      rw [this]; exact triv
    · have heq' : tryName atol a = ⟨a.q, ax, an, ph, nm⟩ := heq
      rw [heq']
      have hax := named_unit atol n hn a.q q' ax an ph nm hnamed
      have hax' := (unitVec_iff _).mp hax
      rw [closeTo_real_iff] at c1 c2 c3 c4 c5
      refine ⟨hax, rfl, Complex.exp (Complex.I * ((ph - a.phase : ℝ) : ℂ)), norm_exp_I_mul _, ?_⟩
      rw [rotOp1_eq, rotOp1_eq]
      have hrot : rot ax an ph = Complex.exp (Complex.I * ((ph - a.phase : ℝ) : ℂ)) • rot ax an a.phase := by
        have := rot_phase_add ax an a.phase (ph - a.phase)
        rwa [add_sub_cancel] at this
      show ‖rot ax an ph - Complex.exp (Complex.I * ((ph - a.phase : ℝ) : ℂ)) • rot a.axis a.angle a.phase‖ ≤ Fc atol
      rw [hrot, ← smul_sub, norm_smul, norm_exp_I_mul, one_mul]
      have key : ‖(rot ax an a.phase - rot a.axis a.angle a.phase : Matrix (Fin 2) (Fin 2) ℂ)‖
          ≤ 2 * (7 / 2 * atol) :=
        opNorm_le_of_entry_le (by positivity) (fun i j => by
          rw [Matrix.sub_apply]
          have e1 := rot_lipschitz_angle ax hax' an a.angle a.phase i j
          have e2 := rot_lipschitz_axis ax a.axis a.angle a.phase i j
          have hs : |Real.sin (a.angle / 2)| ≤ 1 := Real.abs_sin_le_one _
          have hsum : |ax.1 - a.axis.1| + |ax.2.1 - a.axis.2.1| + |ax.2.2 - a.axis.2.2| ≤ 3 * atol := by linarith
          have hsum0 : 0 ≤ |ax.1 - a.axis.1| + |ax.2.1 - a.axis.2.1| + |ax.2.2 - a.axis.2.2| := by positivity
          have e2' : |Real.sin (a.angle / 2)| * (|ax.1 - a.axis.1| + |ax.2.1 - a.axis.2.1| + |ax.2.2 - a.axis.2.2|)
              ≤ 3 * atol := by
            calc _ ≤ 1 * (|ax.1 - a.axis.1| + |ax.2.1 - a.axis.2.1| + |ax.2.2 - a.axis.2.2|) :=
                  mul_le_mul_of_nonneg_right hs hsum0
              _ ≤ 3 * atol := by linarith
          calc ‖rot ax an a.phase i j - rot a.axis a.angle a.phase i j‖
              = ‖(rot ax an a.phase i j - rot ax a.angle a.phase i j)
                  + (rot ax a.angle a.phase i j - rot a.axis a.angle a.phase i j)‖ := by ring_nf
            _ ≤ _ := norm_add_le _ _
            _ ≤ |an - a.angle| / 2 + 3 * atol := add_le_add e1 (e2.trans e2')
            _ ≤ 7 / 2 * atol := by linarith)
      unfold Fc
      linarith
  · exact triv

/-! ### accumulator level: a run of rotations on one qubit -/

/-- the operator of a list of rotation records in program order (first element applied first), on `Op 1` -/
noncomputable def prodOp1 : List (Rot ℝ) → Op 1
  | [] => 1
  | s :: rest => prodOp1 rest * rotOp1 s

theorem norm_rotOp1_le (r : Rot ℝ) (h : UnitVec r.axis) : ‖rotOp1 r‖ ≤ 1 := by
  rw [rotOp1_eq]
  exact opNorm_le_one_of_unitary (m := Fin 2) (rot_unitary _ _ _ ((unitVec_iff _).mp h))

theorem norm_prodOp1_le (l : List (Rot ℝ)) (h : ∀ s ∈ l, UnitVec s.axis) : ‖prodOp1 l‖ ≤ 1 := by
  induction l with
  | nil => exact opNorm_one_le
  | cons s l ih =>
    have h1 := ih (fun s' hs' => h s' (List.mem_cons_of_mem _ hs'))
    have h2 := norm_rotOp1_le s (h s List.mem_cons_self)
    refine (norm_mul_le _ _).trans ?_
    nlinarith [norm_nonneg (prodOp1 l), norm_nonneg (rotOp1 s)]

/-- **foldRot_all_inputs_op**: folding `composeRot` over a run of `k` unit-axis rotations of one qubit
    (`acc ↦ composeRot stmt acc`, as the merge loop does) never raises, and the operator of the final accumulator is
    within `k · Kc atol` (operator norm — errors add, all factors have norm `≤ 1`) of `z • (U_{k-1} ⋯ U_0 · U_acc)`
    for one unit scalar `z`.  No crisp hypothesis. -/
theorem foldRot_all_inputs_op (atol : ℝ) (hat : 0 < atol) (l : List (Rot ℝ)) :
    ∀ acc : Rot ℝ, (∀ s ∈ l, UnitVec s.axis ∧ s.q = acc.q) → UnitVec acc.axis →
      ∃ r, foldRot atol l acc = .ok r ∧ UnitVec r.axis ∧ r.q = acc.q ∧
        ∃ z : ℂ, ‖z‖ = 1 ∧ ‖rotOp1 r - z • (prodOp1 l * rotOp1 acc)‖ ≤ l.length * Kc atol := by
  induction l with
  | nil =>
    intro acc _ hacc
    exact ⟨acc, rfl, hacc, rfl, 1, norm_one, by simp [prodOp1]⟩
  | cons s rest ih =>
    intro acc hl hacc
    obtain ⟨hs, hsq⟩ := hl s List.mem_cons_self
    obtain ⟨r1, hc, hr1, hq1, w, hw, d1⟩ := composeRot_all_inputs_op atol hat s acc hs hacc hsq
    have hrest : ∀ s' ∈ rest, UnitVec s'.axis ∧ s'.q = r1.q := fun s' hs' =>
      ⟨(hl s' (List.mem_cons_of_mem _ hs')).1, by rw [(hl s' (List.mem_cons_of_mem _ hs')).2, hq1, hsq]⟩
    obtain ⟨r, hf, hr, hq, z, hz, d⟩ := ih r1 hrest hr1
    refine ⟨r, by simp only [foldRot, hc]; exact hf, hr, by rw [hq, hq1, hsq], z * w,
      by rw [norm_mul, hz, hw, one_mul], ?_⟩
    have e : rotOp1 r - (z * w) • (prodOp1 (s :: rest) * rotOp1 acc)
        = (rotOp1 r - z • (prodOp1 rest * rotOp1 r1))
          + z • (prodOp1 rest * (rotOp1 r1 - w • (rotOp1 s * rotOp1 acc))) := by
      simp only [prodOp1]
      rw [Matrix.mul_sub, Matrix.mul_smul, smul_sub, smul_smul, Matrix.mul_assoc]
      abel
    rw [e]
    refine (norm_add_le _ _).trans ?_
    have h2 : ‖z • (prodOp1 rest * (rotOp1 r1 - w • (rotOp1 s * rotOp1 acc)))‖ ≤ Kc atol := by
      rw [norm_smul, hz, one_mul]
      refine (norm_mul_le _ _).trans ?_
      have := norm_prodOp1_le rest (fun s' hs' => (hrest s' hs').1)
      nlinarith [norm_nonneg (prodOp1 rest), norm_nonneg (rotOp1 r1 - w • (rotOp1 s * rotOp1 acc))]
    rw [List.length_cons]
    push_cast
    linarith

/-- non-vacuity: the chain `Ry(1)·e^{i/7}`, `Rx(1)·e^{i/3}`, `Ry(1)·e^{i/7}` of `Bands2` (inexact rounding) -/
example : ∃ r, foldRot (1 / 10 : ℝ) [exB, exA, exB] ⟨0, (1, 0, 0), 0, 0, none⟩ = .ok r ∧
    ∃ z : ℂ, ‖z‖ = 1 ∧
      ‖rotOp1 r - z • (prodOp1 [exB, exA, exB] * rotOp1 ⟨0, (1, 0, 0), 0, 0, none⟩)‖ ≤ (3 : ℕ) * Kc (1 / 10) := by
  obtain ⟨r, h, _, _, z, hz, d⟩ := foldRot_all_inputs_op (1 / 10) (by norm_num) [exB, exA, exB]
    ⟨0, (1, 0, 0), 0, 0, none⟩ (by
      intro s hs
      simp only [List.mem_cons, List.not_mem_nil, or_false] at hs
      rcases hs with rfl | rfl | rfl
      · exact ⟨exB_unit, rfl⟩
      · exact ⟨exA_unit, rfl⟩
      · exact ⟨exB_unit, rfl⟩) (by simp [UnitVec])
  exact ⟨r, h, z, hz, d⟩

/-! ## 2. The model's algorithm satisfies the all-inputs hypotheses -/

/-- the accumulator invariant: unit axis, on qubit `q` -/
def GoodRot (q : ℕ) (r : Rot ℝ) : Prop := UnitVec r.axis ∧ r.q = (q : Int)

/-- **an accumulator that tests as identity is the exact identity**: a `composeRot` result with `|angle| < atol` and
    `|phase| < atol` comes from the identity branch (the general branch has `|angle| ≥ 2·atol`), so angle and phase are
    exactly `0`.  (This is why the identity filter at a flush costs nothing at circuit level: all the loss of the
    identity band is inside `composeRot`, constant `Kc`.) -/
theorem composeRot_isIdentity_zero (atol : ℝ) (hatol : 0 < atol) (a b r : Rot ℝ)
    (h : composeRot atol a b = .ok r) (hid : r.isIdentity atol = true) : r.angle = 0 ∧ r.phase = 0 := by
  unfold composeRot at h
  split at h
  · cases h
  · simp only at h
    split at h
    · injection h with h
      rw [← h]
      simp [identityRot, zero_real]
    · rename_i hs
      split at h
      · cases h
      · exfalso
        injection h with h
        have hl : 2 * atol ≤ |r.angle| := by
          rw [← h]
          simp only [absS_real, trig_sin_real, two_real] at hs
          simp only [two_real]
          exact angle_bound atol _ hs
        simp only [Rot.isIdentity, absS_real, Bool.and_eq_true] at hid
        have := of_decide_eq_true hid.1
        linarith

/-- the accumulator invariant: unit axis, on qubit `q`, and "tests as identity ⇒ angle and phase are `0`" -/
def GoodAcc (atol : ℝ) (q : ℕ) (r : Rot ℝ) : Prop :=
  UnitVec r.axis ∧ r.q = (q : Int) ∧ (r.isIdentity atol = true → r.angle = 0 ∧ r.phase = 0)

/-- **the parameters of the model's merge pass satisfy `BandHyp`** for the register semantics `stSem n`, the distance
    `stApprox n` (operator norm, one unit phase for all outcomes), input rotations with `GoodRot`, the accumulator
    invariant `GoodAcc atol`, and the constants `K = Kc atol`, `E = 0`, `F = Fc atol` — for every `0 < atol ≤ π`, with no
    crisp hypothesis. -/
theorem bandHyp_model (atol : ℝ) (hat : 0 < atol) (hpi : atol ≤ Real.pi) (n : ℕ) :
    BandHyp (stSem n) (modelAlg atol rotOp1) (stApprox n) n GoodRot (GoodAcc atol) (Kc atol) 0 (Fc atol) where
  K_nonneg := Kc_nonneg atol hat.le
  E_nonneg := le_refl _
  F_nonneg := by unfold Fc; positivity
  unit_id := defaultIsIdentity_real atol hat hpi
  good_unit := fun q _ => by
    show GoodAcc atol q (defaultI atol q)
    rw [defaultI_real atol hat hpi q]
    exact ⟨by simp [UnitVec], rfl, fun _ => ⟨rfl, rfl⟩⟩
  good_comp := fun q _ u a hu ha => by
    obtain ⟨r, hr, hru, hrq, _⟩ := composeRot_all_inputs_op atol hat u a hu.1 ha.1 (hu.2.trans ha.2.1.symm)
    show GoodAcc atol q (compTotal atol u a)
    rw [compTotal_ok atol u a r hr]
    exact ⟨hru, hrq.trans hu.2, composeRot_isIdentity_zero atol hat u a r hr⟩
  contr_in := fun q _ a ha => contr_embST n q _ (norm_rotOp1_le a ha.1)
  contr_emb := fun q _ a ha => contr_embST n q _ (norm_rotOp1_le a ha.1)
  contr_fin := fun q _ a ha => contr_embST n q _ (norm_rotOp1_le _ (finalRot_op_band atol hat.le a ha.1).1)
  near_comp := fun q _ u a hu ha => by
    obtain ⟨r, hr, hru, hrq, z, hz, hd⟩ :=
      composeRot_all_inputs_op atol hat u a hu.1 ha.1 (hu.2.trans ha.2.1.symm)
    show (stApprox n).near (Kc atol) (embST n q (rotOp1 (compTotal atol u a)))
      (embST n q (rotOp1 u) * embST n q (rotOp1 a))
    rw [compTotal_ok atol u a r hr, ← map_mul]
    exact near_embST n q _ _ z hz (Kc_nonneg atol hat.le) hd
  near_id := fun q _ a ha hid => by
    obtain ⟨h1, h2⟩ := ha.2.2 hid
    have e : rotOp1 a = 1 := by
      rw [rotOp1_eq, h1, h2, rot_zero]
    show (stApprox n).near 0 (embST n q (rotOp1 a)) 1
    rw [e, map_one]
    exact (stApprox n).near_refl _
  near_fin := fun q _ a ha _ => by
    obtain ⟨_, _, z, hz, hd⟩ := finalRot_op_band atol hat.le a ha.1
    exact near_embST n q _ _ z hz (by unfold Fc; positivity) hd

/-! ## 3. The circuit-level all-inputs theorem -/

/-- the per-rotation constant: `Kc + Fc = (2√2 + 7)·atol + 5/s7 ≤ 10·atol + 5·10⁻⁷` -/
noncomputable def perRot (atol : ℝ) : ℝ := Kc atol + Fc atol

theorem perRot_le (atol : ℝ) (hat : 0 ≤ atol) : perRot atol ≤ 10 * atol + 5 / 10 ^ 7 := by
  unfold perRot Kc Fc
  rw [s7_eq]
  have h2 := sqrt_two_le
  have : √2 * atol ≤ 3 / 2 * atol := mul_le_mul_of_nonneg_right h2 hat
  norm_num
  linarith

/-- **merge_all_inputs** — the all-inputs, circuit-level form of C02.  For every circuit `c` (any length, any
    register) whose operands are in range, whose one-qubit rotations have unit axes and whose other gates have
    operators of norm `≤ 1` (e.g. are unitary), for every `0 < atol ≤ π`: if the merge pass does not raise (it cannot:
    `merge_no_error_of_unit_axes`), there is ONE unit scalar `z` such that for EVERY assignment `o` of measurement /
    reset outcomes

      `‖circOp n merged o − z • circOp n original o‖ ≤ G · perRot atol`     (operator norm on `ℂ^(2^n)`)

    where `G` is the number of one-qubit rotations of `c` and
    `perRot atol = Kc + Fc = (2√2·atol + 5/s7) + 7·atol ≤ 10·atol + 5·10⁻⁷` (`Kc`: one composition; `Fc`: the final
    renaming; the identity filter itself costs nothing, see `composeRot_isIdentity_zero`).
    NO crisp hypothesis, no dimension factor. -/
theorem merge_all_inputs (atol : ℝ) (hat : 0 < atol) (hpi : atol ≤ Real.pi) (c : Circuit ℝ)
    (hr : OperandsInRange c.nQubits c.stmts) (hne : (merge atol c).2 = none)
    (hax : ∀ s ∈ c.stmts, ∀ r, s.rot? = some r → UnitVec r.axis)
    (hgate : ∀ g nm, Stmt.gate g nm ∈ c.stmts → (Stmt.gate g nm : Stmt ℝ).isBSR = false →
      ‖gateOp c.nQubits g‖ ≤ 1) :
    ∃ z : ℂ, ‖z‖ = 1 ∧ ∀ o : List Bool,
      ‖circOp c.nQubits (merge atol c).1.stmts o - z • circOp c.nQubits c.stmts o‖
        ≤ (c.stmts.countP Stmt.isBSR : ℝ) * perRot atol := by
  have h := merge_sem_approx atol (stSem c.nQubits) rotOp1 (stApprox c.nQubits) (fun _ => rfl) c hr hne
    GoodRot (GoodAcc atol) (Kc atol) 0 (Fc atol) (bandHyp_model atol hat hpi c.nQubits)
    (by
      intro s hs r hsr
      refine ⟨hax s hs r hsr, ?_⟩
      have hq := hr s hs r.q (by rw [rot?_qubits s r hsr]; simp)
      simp only [inRange, Bool.and_eq_true, decide_eq_true_eq] at hq
      omega)
    (by
      intro s hs hb
      exact contr_denST c.nQubits s (fun g nm e => hgate g nm (e ▸ hs) (e ▸ hb)))
  rw [denS_stSem _ _ (merge_output_inReg atol c hr hne),
    denS_stSem _ _ (fun s hs => inRegSem_of_inRange _ s (hr s hs))] at h
  obtain ⟨z, hz, H⟩ := h
  refine ⟨z, hz, fun o => ?_⟩
  have := (H o).2
  rw [mul_zero, add_zero] at this
  exact this

/-- the same entrywise (no dimension factor either) -/
theorem merge_all_inputs_entry (atol : ℝ) (hat : 0 < atol) (hpi : atol ≤ Real.pi) (c : Circuit ℝ)
    (hr : OperandsInRange c.nQubits c.stmts) (hne : (merge atol c).2 = none)
    (hax : ∀ s ∈ c.stmts, ∀ r, s.rot? = some r → UnitVec r.axis)
    (hgate : ∀ g nm, Stmt.gate g nm ∈ c.stmts → (Stmt.gate g nm : Stmt ℝ).isBSR = false →
      ‖gateOp c.nQubits g‖ ≤ 1) :
    ∃ z : ℂ, ‖z‖ = 1 ∧ ∀ (o : List Bool) (i j : Fin (2 ^ c.nQubits)),
      ‖circOp c.nQubits (merge atol c).1.stmts o i j - z * circOp c.nQubits c.stmts o i j‖
        ≤ (c.stmts.countP Stmt.isBSR : ℝ) * (10 * atol + 5 / 10 ^ 7) := by
  obtain ⟨z, hz, H⟩ := merge_all_inputs atol hat hpi c hr hne hax hgate
  refine ⟨z, hz, fun o i j => ?_⟩
  have h1 := entry_le_opNorm (circOp c.nQubits (merge atol c).1.stmts o - z • circOp c.nQubits c.stmts o) i j
  rw [Matrix.sub_apply, Matrix.smul_apply, smul_eq_mul] at h1
  refine h1.trans ((H o).trans ?_)
  exact mul_le_mul_of_nonneg_left (perRot_le atol hat.le) (Nat.cast_nonneg _)

/-! ## 4. Totality: for unit axes the pass never raises -/

def AccUnit (accs : Array (Rot ℝ)) : Prop := ∀ (i : Nat) (r : Rot ℝ), accs[i]? = some r → UnitVec r.axis

theorem AccUnit.set {accs : Array (Rot ℝ)} (h : AccUnit accs) (i : Nat) (r : Rot ℝ) (hr : UnitVec r.axis) :
    AccUnit (accs.set! i r) := by
  intro j r' hj
  simp only [Array.set!_eq_setIfInBounds, Array.getElem?_setIfInBounds] at hj
  split at hj
  · split at hj
    · injection hj with hj; rw [← hj]; exact hr
    · cases hj
  · exact h j r' hj

theorem defaultI_unit (atol : ℝ) (hat : 0 < atol) (hpi : atol ≤ Real.pi) (q : Nat) :
    UnitVec (defaultI atol q).axis := by
  rw [defaultI_real atol hat hpi q]; simp [UnitVec]

theorem flushOps_unit (atol : ℝ) (hat : 0 < atol) (hpi : atol ≤ Real.pi) (qs : List Int) :
    ∀ (accs : Array (Rot ℝ)) (out : List (Stmt ℝ)) (accs' : Array (Rot ℝ)) (out' : List (Stmt ℝ)),
      AccUnit accs → flushOps atol accs out qs = .ok (accs', out') → AccUnit accs' := by
  induction qs with
  | nil =>
    intro accs out accs' out' hu h
    rw [flushOps_nil] at h; injection h with h; injection h with h1 h2
    subst h1; exact hu
  | cons q0 qs ih =>
    intro accs out accs' out' hu h
    cases hq0 : accGet? accs q0 with
    | none => rw [flushOps_cons_key atol accs out q0 qs hq0] at h; cases h
    | some r0 =>
      cases hid : r0.isIdentity atol with
      | true =>
        rw [flushOps_cons_id atol accs out q0 qs r0 hq0 hid] at h
        exact ih accs out accs' out' hu h
      | false =>
        rw [flushOps_cons_emit atol accs out q0 qs r0 hq0 hid] at h
        exact ih _ _ accs' out' (hu.set _ _ (defaultI_unit atol hat hpi _)) h

theorem mergeLoop_total_unit (atol : ℝ) (hat : 0 < atol) (hpi : atol ≤ Real.pi) (n : Nat) (rest : List (Stmt ℝ))
    (hr : OperandsInRange n rest) (hax : ∀ s ∈ rest, ∀ r, s.rot? = some r → UnitVec r.axis) :
    ∀ (accs : Array (Rot ℝ)) (out : List (Stmt ℝ)), accs.size = n → AccOK accs → AccUnit accs →
      ∃ accs' out', mergeLoop atol accs out rest = .inr (accs', out') := by
  induction rest with
  | nil => intro accs out _ _ _; exact ⟨accs, out, mergeLoop_nil atol accs out⟩
  | cons s rest ih =>
    intro accs out hsz hok hu
    have ih := ih (fun s' hs' => hr s' (List.mem_cons_of_mem _ hs'))
      (fun s' hs' => hax s' (List.mem_cons_of_mem _ hs'))
    have hs := hr s List.mem_cons_self
    cases hb : s.isBSR with
    | true =>
      cases s with
      | gate g nm =>
        cases g with
        | bsr q ax an ph =>
          have hqr : inRange n q = true := hs q (by simp [Stmt.qubits, Gate.operands])
          obtain ⟨acc, hacc⟩ := accGet?_inRange accs q (by rw [hsz]; exact hqr)
          obtain ⟨hq0, hget⟩ := accGet?_some accs q acc hacc
          have haq : acc.q = q := by rw [hok _ _ hget]; omega
          have hux : UnitVec ax := hax _ List.mem_cons_self ⟨q, ax, an, ph, nm⟩ rfl
          obtain ⟨r, hc, hru, hrq, _⟩ := composeRot_all_inputs_op atol hat ⟨q, ax, an, ph, nm⟩ acc hux
            (hu _ _ hget) haq.symm
          rw [mergeLoop_bsr_ok atol accs out rest q ax an ph nm acc r hacc hc]
          refine ih _ _ (by simpa using hsz) (hok.set _ _ ?_) (hu.set _ _ hru)
          rw [hrq]; show q = _; omega
        | matrix m ops => simp [Stmt.isBSR] at hb
        | ctrl c g => simp [Stmt.isBSR] at hb
      | measure q b ax nm => simp [Stmt.isBSR] at hb
      | reset q nm => simp [Stmt.isBSR] at hb
      | comment c => simp [Stmt.isBSR] at hb
    | false =>
      obtain ⟨accs', out', hf, hsz', hok'⟩ := flushOps_ok atol n s.qubits hs accs out hsz hok
      rw [mergeLoop_nonBSR_ok atol accs out rest s hb accs' out' hf]
      exact ih accs' (s :: out') hsz' hok' (flushOps_unit atol hat hpi _ accs out accs' out' hu hf)

/-- **the merge pass never raises** on a circuit with in-range operands whose rotations have unit axes
    (`0 < atol ≤ π`; no crisp hypothesis — compare `merge_no_error_of_crispR`) -/
theorem merge_no_error_of_unit_axes (atol : ℝ) (hat : 0 < atol) (hpi : atol ≤ Real.pi) (c : Circuit ℝ)
    (hr : OperandsInRange c.nQubits c.stmts)
    (hax : ∀ s ∈ c.stmts, ∀ r, s.rot? = some r → UnitVec r.axis) : (merge atol c).2 = none := by
  obtain ⟨hsz, hok⟩ := initAccs_ok atol c.nQubits
  have hu : AccUnit (Array.ofFn (n := c.nQubits) fun i => defaultI atol i.val) := by
    intro i r hi
    rw [Array.getElem?_ofFn] at hi
    split at hi
    · injection hi with hi; rw [← hi]; exact defaultI_unit atol hat hpi i
    · cases hi
  obtain ⟨accs', out', h⟩ := mergeLoop_total_unit atol hat hpi c.nQubits c.stmts hr hax _ [] hsz hok hu
  rw [merge_eq, h]

/-- **merge_all_inputs, unconditional form**: no hypothesis on the run at all -/
theorem merge_all_inputs' (atol : ℝ) (hat : 0 < atol) (hpi : atol ≤ Real.pi) (c : Circuit ℝ)
    (hr : OperandsInRange c.nQubits c.stmts)
    (hax : ∀ s ∈ c.stmts, ∀ r, s.rot? = some r → UnitVec r.axis)
    (hgate : ∀ g nm, Stmt.gate g nm ∈ c.stmts → (Stmt.gate g nm : Stmt ℝ).isBSR = false →
      ‖gateOp c.nQubits g‖ ≤ 1) :
    (merge atol c).2 = none ∧ SameBarriers c.stmts (merge atol c).1.stmts ∧
    ∃ z : ℂ, ‖z‖ = 1 ∧ ∀ o : List Bool,
      ‖circOp c.nQubits (merge atol c).1.stmts o - z • circOp c.nQubits c.stmts o‖
        ≤ (c.stmts.countP Stmt.isBSR : ℝ) * perRot atol :=
  ⟨merge_no_error_of_unit_axes atol hat hpi c hr hax, (merge_sameBarriers atol c).symm,
    merge_all_inputs atol hat hpi c hr (merge_no_error_of_unit_axes atol hat hpi c hr hax) hax hgate⟩

/-! ## 5. Non-vacuity: two rotations strictly inside the band -/

/-- `Rx(1/20)` on qubit 0 (anonymous); the tolerance of the example is `atol = 1/10` -/
noncomputable def exR : Rot ℝ := ⟨0, (1, 0, 0), 1 / 20, 0, none⟩

/-- the circuit `Rx(1/20) q0; Rx(1/20) q0` on a one-qubit register: each rotation is strictly inside the identity
    band of `atol = 1/10`, their product `Rx(1/10)` is not the identity -/
noncomputable def exBand : Circuit ℝ := { nQubits := 1, nBits := 0, stmts := [rotStmtOf exR, rotStmtOf exR] }

theorem exR_unit : UnitVec exR.axis := by simp [UnitVec, exR]

theorem exBand_inRange : OperandsInRange exBand.nQubits exBand.stmts := by
  intro s hs q hq
  simp only [exBand, List.mem_cons, List.not_mem_nil, or_false] at hs
  rcases hs with rfl | rfl <;>
    (simp only [rotStmtOf, exR, Stmt.qubits, Gate.operands, List.mem_singleton] at hq; subst hq; rfl)

theorem exBand_axes : ∀ s ∈ exBand.stmts, ∀ r, s.rot? = some r → UnitVec r.axis := by
  intro s hs r hr
  simp only [exBand, List.mem_cons, List.not_mem_nil, or_false] at hs
  rcases hs with rfl | rfl <;>
    (simp only [rotStmtOf, Stmt.rot?, Option.some.injEq] at hr; subst hr; exact exR_unit)

theorem exBand_gates : ∀ g nm, Stmt.gate g nm ∈ exBand.stmts → (Stmt.gate g nm : Stmt ℝ).isBSR = false →
    ‖gateOp exBand.nQubits g‖ ≤ 1 := by
  intro g nm hs hb
  simp only [exBand, List.mem_cons, List.not_mem_nil, or_false] at hs
  rcases hs with h | h <;> (rw [h] at hb; simp [rotStmtOf, Stmt.isBSR] at hb)

/-- **`merge_all_inputs'` instantiated**: the pass does not raise on `exBand` and the merged circuit is within
    `2 · perRot (1/10)` of the original, up to one unit phase -/
example : (merge (1 / 10 : ℝ) exBand).2 = none ∧
    ∃ z : ℂ, ‖z‖ = 1 ∧ ∀ o : List Bool,
      ‖circOp 1 (merge (1 / 10 : ℝ) exBand).1.stmts o - z • circOp 1 exBand.stmts o‖
        ≤ 2 * perRot (1 / 10) := by
  have hpi := Real.two_le_pi
  obtain ⟨h1, _, z, hz, H⟩ := merge_all_inputs' (1 / 10) (by norm_num) (by linarith) exBand exBand_inRange
    exBand_axes exBand_gates
  refine ⟨h1, z, hz, fun o => ?_⟩
  have := H o
  have e : exBand.stmts.countP Stmt.isBSR = 2 := rfl
  rw [e] at this
  exact_mod_cast this

/-- both tolerance tests of the example fire although nothing is exactly the identity: `composeRot Rx(1/20) acc`
    takes the identity branch for `acc = I(0)` and for `acc = ` the anonymous identity -/
theorem ex_compose_dI : composeRot (1 / 10 : ℝ) exR (defaultI (1 / 10) 0) = .ok (identityRot 0) := by
  have hpi := Real.two_le_pi
  rw [defaultI_eq_dI (1 / 10) (by norm_num) (by linarith) 0,
    composeRot_real (1 / 10) exR (dI 0) exR_unit (dI_unit 0) rfl, if_pos]
  · rfl
  · rw [sin_half_cTheta_dI, abs_abs]
    have h := Real.abs_sin_le_abs (x := exR.angle / 2)
    have e : |exR.angle / 2| = 1 / 40 := by simp only [exR]; rw [abs_of_pos (by norm_num)]; norm_num
    rw [e] at h
    linarith

theorem identityRot_unit (q : Int) : UnitVec (identityRot (α := ℝ) q).axis := by
  simp [identityRot, UnitVec]

theorem ex_compose_id : composeRot (1 / 10 : ℝ) exR (identityRot 0) = .ok (identityRot 0) := by
  have e : cTheta exR (identityRot 0) = cTheta exR (dI 0) := by
    simp [cTheta, cW, identityRot, dI]
  rw [composeRot_real (1 / 10) exR (identityRot 0) exR_unit (identityRot_unit 0) rfl, if_pos]
  · rfl
  · rw [e, sin_half_cTheta_dI, abs_abs]
    have h := Real.abs_sin_le_abs (x := exR.angle / 2)
    have e : |exR.angle / 2| = 1 / 40 := by simp only [exR]; rw [abs_of_pos (by norm_num)]; norm_num
    rw [e] at h
    linarith

theorem toList_of_size_one (accs : Array (Rot ℝ)) (r : Rot ℝ) (hs : accs.size = 1) (h0 : accs[0]? = some r) :
    accs.toList = [r] := by
  obtain ⟨l⟩ := accs
  simp only [List.size_toArray] at hs
  match l, hs with
  | [x], _ => simp at h0; simp [h0]

/-- **the merged circuit of the example is empty**: both rotations are absorbed by the identity branch of
    `composeRot`, the accumulator tests as identity at the end and nothing is emitted -/
theorem exBand_merged : (merge (1 / 10 : ℝ) exBand).1.stmts = [] := by
  have hfold : foldRot (1 / 10) [exR, exR] (defaultI (1 / 10) 0) = .ok (identityRot 0) := by
    simp only [foldRot, ex_compose_dI, ex_compose_id]
  obtain ⟨accs', hsz, hget, _, hm⟩ := mergeLoop_segment (1 / 10) 0 [exR, exR]
    (Array.ofFn (n := 1) fun i => defaultI (1 / 10 : ℝ) i.val) [] [] (defaultI (1 / 10) 0) (identityRot 0)
    (by intro s hs; simp only [List.mem_cons, List.not_mem_nil, or_false] at hs; rcases hs with rfl | rfl <;> rfl)
    (by simp) hfold
  have hl : accs'.toList = [identityRot 0] := toList_of_size_one accs' _ (by rw [hsz]; simp) hget
  have key : mergeLoop (1 / 10 : ℝ) (Array.ofFn (n := exBand.nQubits) fun i => defaultI (1 / 10 : ℝ) i.val) []
      exBand.stmts = .inr (accs', []) := by
    rw [← mergeLoop_nil (1 / 10 : ℝ) accs' [], ← hm]; rfl
  rw [merge_eq, key]
  show ([] : List (Stmt ℝ)).reverse ++ mergeTail (1 / 10) accs' = []
  rw [mergeTail_eq, hl]
  simp [tailF, identityRot, Rot.isIdentity]

/-- the (0,1) entry of the original operator `Rx(1/20)·Rx(1/20) = Rx(1/10)` is `−i·sin(1/20) ≠ 0` -/
theorem exBand_entry : (rot exR.axis exR.angle exR.phase * rot exR.axis exR.angle exR.phase) 0 1 ≠ 0 := by
  rw [rot_eq, Matrix.mul_apply, Fin.sum_univ_two]
  simp only [exR, Matrix.smul_apply, Matrix.of_apply, Matrix.cons_val', Matrix.cons_val_zero, Matrix.cons_val_one,
    Matrix.empty_val', Matrix.cons_val_fin_one, smul_eq_mul, Complex.ofReal_zero, mul_zero, Complex.exp_zero,
    one_mul, Complex.ofReal_one, mul_one, sub_zero, add_zero]
  have hpi := Real.two_le_pi
  have hs : 0 < Real.sin (1 / 20 / 2) := Real.sin_pos_of_pos_of_lt_pi (by norm_num) (by linarith)
  have hc : 0 < Real.cos (1 / 20 / 2) :=
    Real.cos_pos_of_mem_Ioo ⟨by linarith, by linarith⟩
  generalize Real.sin (1 / 20 / 2) = sn at hs ⊢
  generalize Real.cos (1 / 20 / 2) = cs at hc ⊢
  intro h
  have e : (cs : ℂ) * -(Complex.I * sn) + -(Complex.I * sn) * cs = ((-(2 * cs * sn) : ℝ) : ℂ) * Complex.I := by
    push_cast; ring
  rw [e] at h
  rcases mul_eq_zero.mp h with h0 | h0
  · have := Complex.ofReal_eq_zero.mp h0
    nlinarith
  · exact Complex.I_ne_zero h0

/-- **the exact (crisp) theorem does not apply to the example**: the merged circuit is NOT equal to the original up
    to a global phase — the conclusion of `merge_sem_global_real` fails, hence so does its hypothesis `CrispR`, for
    every choice of the remaining data.  Only the band theorem `merge_all_inputs` speaks about this input. -/
theorem exBand_not_equiv : ¬ CircEquiv 1 exBand.stmts (merge (1 / 10 : ℝ) exBand).1.stmts := by
  rw [exBand_merged]
  rintro ⟨z, hz, H⟩
  have h := H []
  simp only [exBand, rotStmtOf, circOp_gate, circOp_nil, one_mul] at h
  have e : gateOp 1 (.bsr exR.q exR.axis exR.angle exR.phase) = rotOp1 exR := rfl
  rw [e, rotOp1_eq] at h
  have h01 := congrFun (congrFun h i0) i1
  apply exBand_entry
  have : (z • (1 : Op 1)) i0 i1 = 0 := by simp [i0, i1]
  rw [this] at h01
  exact h01

example : ¬ CrispR (1 / 10 : ℝ) (regSemQ exBand.nQubits) exBand.nQubits ((fun q => defaultI (1 / 10 : ℝ) q), [])
    (exBand.stmts.map absStmt) := by
  intro hc
  have hpi := Real.two_le_pi
  have hne := merge_no_error_of_unit_axes (1 / 10) (by norm_num) (by linarith) exBand exBand_inRange exBand_axes
  exact exBand_not_equiv
    (merge_sem_global_real (1 / 10) (by norm_num) (by linarith) exBand exBand_inRange hne hc).1

end Bands
end OSq

#print axioms OSq.Bands.composeRot_all_inputs_op
#print axioms OSq.Bands.identity_op_band
#print axioms OSq.Bands.finalRot_op_band
#print axioms OSq.Bands.foldRot_all_inputs_op
#print axioms OSq.Bands.composeRot_isIdentity_zero
#print axioms OSq.Bands.bandHyp_model
#print axioms OSq.Bands.merge_all_inputs
#print axioms OSq.Bands.merge_all_inputs_entry
#print axioms OSq.Bands.merge_no_error_of_unit_axes
#print axioms OSq.Bands.merge_all_inputs'
#print axioms OSq.Bands.exBand_merged
#print axioms OSq.Bands.exBand_not_equiv
