/-
  OSq.Proofs.Bands2 — all-inputs error bounds (no crisp hypothesis), continued: the composition of two rotations
  with its 7-decimal rounding, and chains of compositions (the merge pass on one qubit).  Entrywise norm on 2×2
  complex matrices, `α := ℝ`, `s7 = 10^7` is the model's rounding scale.

  Tools (sharp sandwich lemmas, also used by `Bands3`)
  * `qNormSq`, `qdist2_mul_left/right`   the quaternion distance is invariant under multiplication by unit quaternions
  * `PUQ M`                  `M = z • q.toMat` with `‖z‖ = 1`, `q` a unit quaternion (closed under products, contains
                             every unit-axis `rot`, `Xop`, scalar unit multiples)
  * `puq_sandwich`           `PUQ A → PUQ B → ‖(A * (p.toMat − q.toMat) * B) i j‖ ≤ C` when `qdist2 p q ≤ C²`
                             (no loss of a constant, in contrast to `Bands.sandwich_one_sub_rot`)
  * `puq_sandwich_scalar`    `‖(A * (w • 1) * B) i j‖ ≤ ‖w‖`
  * `qdist2_ofRot_angle`     `qdist2 (ofRot n θ) (ofRot n θ') ≤ (|θ − θ'|/2)²` for a unit axis
  * `unitary_mul_entry_le`   `U` unitary, `‖E k l‖ ≤ ε` for all entries ⇒ `‖(U * E) i j‖ ≤ √2·ε`
  1. `composeRot`
  * `axis_renorm_dist`       rounding a unit vector componentwise by `≤ δ` and renormalising moves it by `≤ 2√3·δ`
                             (squared: `≤ 12·δ²`)
  * `composeRot_general_band`  general branch (`¬ |sin(Θ/2)| < atol`), with rounding of the axis and of the phase:
                             `‖rot r i j − (z • (U_a·U_b)) i j‖ ≤ 5/(2·s7)` (`2/s7` axis `+ 1/(2·s7)` phase), `z = ±1`
  * `composeRot_all_inputs`  any branch, no crisp and no exact-rounding hypothesis:
                             `UnitVec r.axis ∧ ∃ z, ‖z‖ = 1 ∧ ∀ i j, ‖rot r i j − (z • (U_a·U_b)) i j‖ ≤ √2·atol + 5/(2·s7)`
  * `composeRot_total`       for unit axes on one qubit `composeRot` never raises (the rounded axis cannot vanish)
  2. chains
  * `foldRot`, `rotOp`, `prodOp`   the accumulator fold `acc ↦ composeRot stmt acc` of the merge pass on one qubit, the
                             operator of a rotation record, the product of the operators of a list (program order)
  * `foldRot_all_inputs`     `‖rotOp r i j − (z • (prodOp l * rotOp acc)) i j‖ ≤ l.length · (2·atol + 4/s7)`
  * `foldRot_identity_start`  the same from the identity accumulator: `… − (z • prodOp l) i j‖ ≤ m·(2·atol + 4/s7)`
  * `foldRot_total`          for unit axes on one qubit the fold never raises
  * `mergeLoop_segment`      on a segment of rotation statements of one qubit `k` the model's `mergeLoop` performs
                             `foldRot` on the accumulator of `k` and touches nothing else
  * `mergeLoop_segment_band` … hence the per-segment statement of C02 up to `m·(2·atol + 4/s7)`, with totality
  3. identity filter, sharp constants
  * `prodF`, `filter_band_gen`   generic: any reading `f` of the gates as phase×unit-quaternion matrices
  * `drop_cost_rot`          dropping `rot a θ φ` between two such matrices costs `≤ |θ|/2 + |φ|`
  * `filter_identities_band_sharp`   `‖(A * (listOp (filter l) − listOp l) * B) i j‖ ≤ k·c` (`c = (3/2)·atol` always)
  * `filter_identities_band_phase0`  phase-free lists (everything the decomposers emit): `≤ k·atol/2`
  Examples (non-vacuity) follow the theorems.
-/
import OSq.Proofs.Bands
import OSq.Proofs.MergeReal

set_option linter.unnecessarySeqFocus false
set_option linter.unusedSimpArgs false
set_option linter.unusedVariables false
open Matrix

namespace OSq
namespace Bands
open Sem Complex

/-! ### 0. Sharp sandwich lemmas: phase × unit quaternion -/

/-- squared norm of a quaternion -/
def qNormSq (q : ABA.Q) : ℝ := q.w ^ 2 + q.x ^ 2 + q.y ^ 2 + q.z ^ 2

/-- the unit quaternion -/
def qone : ABA.Q := ⟨1, 0, 0, 0⟩

theorem qone_toMat : qone.toMat = 1 := ABA.Q.toMat_one'
theorem qNormSq_qone : qNormSq qone = 1 := by simp [qNormSq, qone]

theorem qNormSq_mul (p q : ABA.Q) : qNormSq (p * q) = qNormSq p * qNormSq q := by
  simp only [qNormSq, ABA.Q.mul_def, ABA.Q.mul]; ring

theorem qdist2_mul_left (a p q : ABA.Q) : qdist2 (a * p) (a * q) = qNormSq a * qdist2 p q := by
  simp only [qdist2, qNormSq, ABA.Q.mul_def, ABA.Q.mul]; ring

theorem qdist2_mul_right (p q b : ABA.Q) : qdist2 (p * b) (q * b) = qdist2 p q * qNormSq b := by
  simp only [qdist2, qNormSq, ABA.Q.mul_def, ABA.Q.mul]; ring

theorem qdist2_nonneg (p q : ABA.Q) : 0 ≤ qdist2 p q := by unfold qdist2; positivity

theorem qdist2_self (p : ABA.Q) : qdist2 p p = 0 := by simp [qdist2]

theorem qNormSq_ofRot (n : ℝ × ℝ × ℝ) (hn : n.1 ^ 2 + n.2.1 ^ 2 + n.2.2 ^ 2 = 1) (θ : ℝ) :
    qNormSq (ABA.Q.ofRot n θ) = 1 := by
  simp only [qNormSq, ABA.Q.ofRot]
  have := Real.sin_sq_add_cos_sq (θ / 2)
  nlinarith

/-- quaternion distance of two rotations about the same unit axis -/
theorem qdist2_ofRot_angle (n : ℝ × ℝ × ℝ) (hn : n.1 ^ 2 + n.2.1 ^ 2 + n.2.2 ^ 2 = 1) (θ θ' : ℝ) :
    qdist2 (ABA.Q.ofRot n θ) (ABA.Q.ofRot n θ') ≤ (|θ - θ'| / 2) ^ 2 := by
  have h := cos_sin_sub_sq_le (θ / 2) (θ' / 2)
  have e : (|θ - θ'| / 2) ^ 2 = (θ / 2 - θ' / 2) ^ 2 := by
    rw [div_pow, sq_abs]; ring
  rw [e]
  simp only [qdist2, ABA.Q.ofRot]
  have : (Real.cos (θ / 2) - Real.cos (θ' / 2)) ^ 2 + (Real.sin (θ / 2) * n.1 - Real.sin (θ' / 2) * n.1) ^ 2
      + (Real.sin (θ / 2) * n.2.1 - Real.sin (θ' / 2) * n.2.1) ^ 2
      + (Real.sin (θ / 2) * n.2.2 - Real.sin (θ' / 2) * n.2.2) ^ 2
      = (Real.cos (θ / 2) - Real.cos (θ' / 2)) ^ 2
        + (Real.sin (θ / 2) - Real.sin (θ' / 2)) ^ 2 * (n.1 ^ 2 + n.2.1 ^ 2 + n.2.2 ^ 2) := by ring
  rw [this, hn, mul_one]
  exact h

theorem ofRot_zero (n : ℝ × ℝ × ℝ) : ABA.Q.ofRot n 0 = qone := by
  simp [ABA.Q.ofRot, qone]

/-- distance of a unit-axis rotation to the identity -/
theorem qdist2_qone_ofRot (n : ℝ × ℝ × ℝ) (hn : n.1 ^ 2 + n.2.1 ^ 2 + n.2.2 ^ 2 = 1) (θ : ℝ) :
    qdist2 qone (ABA.Q.ofRot n θ) ≤ (|θ| / 2) ^ 2 := by
  have := qdist2_ofRot_angle n hn 0 θ
  rwa [ofRot_zero, zero_sub, abs_neg] at this

/-- **phase × unit quaternion**: the matrices `z • q.toMat`, `‖z‖ = 1`, `|q| = 1` (in fact all of `U(2)`, but only
    closure properties are needed) -/
def PUQ (M : Matrix (Fin 2) (Fin 2) ℂ) : Prop :=
  ∃ (z : ℂ) (q : ABA.Q), ‖z‖ = 1 ∧ qNormSq q = 1 ∧ M = z • q.toMat

theorem PUQ.one : PUQ 1 := ⟨1, qone, by simp, qNormSq_qone, by rw [one_smul, qone_toMat]⟩

theorem PUQ.mul {A B : Matrix (Fin 2) (Fin 2) ℂ} (hA : PUQ A) (hB : PUQ B) : PUQ (A * B) := by
  obtain ⟨z, p, hz, hp, rfl⟩ := hA
  obtain ⟨w, q, hw, hq, rfl⟩ := hB
  refine ⟨z * w, p * q, by rw [norm_mul, hz, hw, one_mul], by rw [qNormSq_mul, hp, hq, one_mul], ?_⟩
  rw [smul_mul_smul_comm, ABA.Q.toMat_mul]

theorem PUQ.smul {A : Matrix (Fin 2) (Fin 2) ℂ} (hA : PUQ A) (w : ℂ) (hw : ‖w‖ = 1) : PUQ (w • A) := by
  obtain ⟨z, p, hz, hp, rfl⟩ := hA
  exact ⟨w * z, p, by rw [norm_mul, hz, hw, one_mul], hp, by rw [smul_smul]⟩

theorem PUQ.toMat (q : ABA.Q) (hq : qNormSq q = 1) : PUQ q.toMat := ⟨1, q, by simp, hq, by rw [one_smul]⟩

theorem PUQ.rot (n : ℝ × ℝ × ℝ) (hn : n.1 ^ 2 + n.2.1 ^ 2 + n.2.2 ^ 2 = 1) (θ φ : ℝ) : PUQ (rot n θ φ) :=
  ⟨Complex.exp (I * φ), ABA.Q.ofRot n θ, norm_exp_I_mul φ, qNormSq_ofRot n hn θ, rot_eq_qMat n θ φ⟩

theorem PUQ.entry_le_one {A : Matrix (Fin 2) (Fin 2) ℂ} (hA : PUQ A) (i j : Fin 2) : ‖A i j‖ ≤ 1 := by
  obtain ⟨z, p, hz, hp, rfl⟩ := hA
  rw [Matrix.smul_apply, smul_eq_mul, norm_mul, hz, one_mul]
  exact qMat_entry_le zero_le_one (by rw [one_pow]; exact hp.le) i j

/-- **sharp sandwich**: between two phase×unit-quaternion matrices the entrywise size of a difference of two
    quaternion matrices is at most the Euclidean distance of the quaternions. -/
theorem puq_sandwich {A B : Matrix (Fin 2) (Fin 2) ℂ} (hA : PUQ A) (hB : PUQ B) (p q : ABA.Q) {C : ℝ}
    (hC : 0 ≤ C) (h : qdist2 p q ≤ C ^ 2) (i j : Fin 2) :
    ‖(A * (p.toMat - q.toMat) * B) i j‖ ≤ C := by
  obtain ⟨z, a, hz, ha, rfl⟩ := hA
  obtain ⟨w, b, hw, hb, rfl⟩ := hB
  have e : z • a.toMat * (p.toMat - q.toMat) * w • b.toMat
      = (z * w) • ((a * p * b).toMat - (a * q * b).toMat) := by
    simp only [ABA.Q.toMat_mul, Matrix.smul_mul, Matrix.mul_smul, Matrix.mul_sub, Matrix.sub_mul]
    rw [← smul_sub, smul_smul, mul_comm w z]
  rw [e, Matrix.smul_apply, smul_eq_mul, norm_mul, norm_mul, hz, hw, one_mul, one_mul, Matrix.sub_apply]
  refine toMat_sub_entry_le _ _ hC ?_ i j
  rw [qdist2_mul_right, qdist2_mul_left, ha, hb, one_mul, mul_one]
  exact h

/-- the same for a scalar matrix in the middle -/
theorem puq_sandwich_scalar {A B : Matrix (Fin 2) (Fin 2) ℂ} (hA : PUQ A) (hB : PUQ B) (w : ℂ) (i j : Fin 2) :
    ‖(A * (w • (1 : Matrix (Fin 2) (Fin 2) ℂ)) * B) i j‖ ≤ ‖w‖ := by
  rw [Matrix.mul_smul, Matrix.mul_one, Matrix.smul_mul, Matrix.smul_apply, smul_eq_mul, norm_mul]
  have := (hA.mul hB).entry_le_one i j
  nlinarith [norm_nonneg w]

/-- one-sided: `‖(A * (p.toMat − q.toMat)) i j‖ ≤ C` -/
theorem puq_left {A : Matrix (Fin 2) (Fin 2) ℂ} (hA : PUQ A) (p q : ABA.Q) {C : ℝ}
    (hC : 0 ≤ C) (h : qdist2 p q ≤ C ^ 2) (i j : Fin 2) :
    ‖(A * (p.toMat - q.toMat)) i j‖ ≤ C := by
  have := puq_sandwich hA PUQ.one p q hC h i j
  rwa [Matrix.mul_one] at this

theorem opOf_puq (g : GStmt ℝ)
    (h : ∀ q a θ φ, g.1 = .bsr q a θ φ → a.1 ^ 2 + a.2.1 ^ 2 + a.2.2 ^ 2 = 1) : PUQ (opOf g) := by
  obtain ⟨g, nm⟩ := g
  cases g with
  | bsr q a θ φ => exact PUQ.rot a (h q a θ φ rfl) θ φ
  | matrix m ops => exact PUQ.one
  | ctrl c g => exact PUQ.one

theorem listOp_puq (l : List (GStmt ℝ)) (h : UnitAxes l) : PUQ (listOp l) := by
  induction l with
  | nil => exact PUQ.one
  | cons g l ih =>
    rw [listOp_cons]
    exact (ih (fun g' hg' => h g' (List.mem_cons_of_mem _ hg'))).mul (opOf_puq g (h g List.mem_cons_self))

/-! ### left multiplication by a unitary: factor `√2` on the entrywise norm -/

theorem unitary_row_sum_le {U : Matrix (Fin 2) (Fin 2) ℂ} (hU : U ∈ Matrix.unitaryGroup (Fin 2) ℂ) (i : Fin 2) :
    ‖U i 0‖ + ‖U i 1‖ ≤ √2 := by
  have h := Matrix.mem_unitaryGroup_iff.mp hU
  have hii := congrFun (congrFun h i) i
  simp only [Matrix.mul_apply, Fin.sum_univ_two, Matrix.star_apply, Matrix.one_apply_eq,
    Complex.star_def, Complex.mul_conj] at hii
  have h2 : Complex.normSq (U i 0) + Complex.normSq (U i 1) = 1 := by exact_mod_cast hii
  rw [← Complex.sq_norm, ← Complex.sq_norm] at h2
  have hsq : (‖U i 0‖ + ‖U i 1‖) ^ 2 ≤ (√2) ^ 2 := by
    rw [Real.sq_sqrt (by norm_num)]
    nlinarith [sq_nonneg (‖U i 0‖ - ‖U i 1‖)]
  exact (abs_le_of_sq_le_sq' hsq (Real.sqrt_nonneg 2)).2

/-- `U` unitary and every entry of `E` of modulus `≤ ε` ⇒ every entry of `U * E` has modulus `≤ √2·ε` -/
theorem unitary_mul_entry_le {U E : Matrix (Fin 2) (Fin 2) ℂ} (hU : U ∈ Matrix.unitaryGroup (Fin 2) ℂ) {ε : ℝ}
    (hE : ∀ k l, ‖E k l‖ ≤ ε) (i j : Fin 2) : ‖(U * E) i j‖ ≤ √2 * ε := by
  rw [Matrix.mul_apply, Fin.sum_univ_two]
  refine (norm_add_le _ _).trans ?_
  rw [norm_mul, norm_mul]
  have h0 := hE 0 j
  have h1 := hE 1 j
  have hr := unitary_row_sum_le hU i
  have hε : 0 ≤ ε := (norm_nonneg _).trans h0
  have a0 := norm_nonneg (U i 0)
  have a1 := norm_nonneg (U i 1)
  calc ‖U i 0‖ * ‖E 0 j‖ + ‖U i 1‖ * ‖E 1 j‖
      ≤ ‖U i 0‖ * ε + ‖U i 1‖ * ε :=
        add_le_add (mul_le_mul_of_nonneg_left h0 a0) (mul_le_mul_of_nonneg_left h1 a1)
    _ = (‖U i 0‖ + ‖U i 1‖) * ε := by ring
    _ ≤ √2 * ε := mul_le_mul_of_nonneg_right hr hε

/-! ### 1. `composeRot`: the general branch with its rounding -/

/-- Cauchy–Schwarz in the form needed: the norm `N` of `v` differs from the norm `1` of `u` by at most `|v − u|` -/
theorem norm_sub_one_sq_le {u1 u2 u3 v1 v2 v3 N : ℝ} (hu : u1 ^ 2 + u2 ^ 2 + u3 ^ 2 = 1) (hN0 : 0 ≤ N)
    (hN : N ^ 2 = v1 ^ 2 + v2 ^ 2 + v3 ^ 2) :
    (N - 1) ^ 2 ≤ (v1 - u1) ^ 2 + (v2 - u2) ^ 2 + (v3 - u3) ^ 2 := by
  have hcs : (u1 * v1 + u2 * v2 + u3 * v3) ^ 2 ≤ N ^ 2 := by
    rw [hN]
    nlinarith [sq_nonneg (u1 * v2 - u2 * v1), sq_nonneg (u1 * v3 - u3 * v1), sq_nonneg (u2 * v3 - u3 * v2)]
  have hle : u1 * v1 + u2 * v2 + u3 * v3 ≤ N := (abs_le_of_sq_le_sq' hcs hN0).2
  nlinarith

/-- **axis_renorm_dist**: `u` a unit vector, `v` any vector of norm `N > 0`: the renormalised `v/N` is at squared
    distance `≤ 4·|v − u|²` from `u`. -/
theorem axis_renorm_dist {u1 u2 u3 v1 v2 v3 N : ℝ} (hu : u1 ^ 2 + u2 ^ 2 + u3 ^ 2 = 1) (hN0 : 0 < N)
    (hN : N ^ 2 = v1 ^ 2 + v2 ^ 2 + v3 ^ 2) :
    (v1 / N - u1) ^ 2 + (v2 / N - u2) ^ 2 + (v3 / N - u3) ^ 2
      ≤ 4 * ((v1 - u1) ^ 2 + (v2 - u2) ^ 2 + (v3 - u3) ^ 2) := by
  have hD := norm_sub_one_sq_le hu hN0.le hN
  have e : ∀ x : ℝ, x / N - x = x * (1 - N) / N := by intro x; field_simp
  have hs : (v1 / N - v1) ^ 2 + (v2 / N - v2) ^ 2 + (v3 / N - v3) ^ 2 = (N - 1) ^ 2 := by
    rw [e, e, e]
    have : (v1 * (1 - N) / N) ^ 2 + (v2 * (1 - N) / N) ^ 2 + (v3 * (1 - N) / N) ^ 2
        = (v1 ^ 2 + v2 ^ 2 + v3 ^ 2) * (1 - N) ^ 2 / N ^ 2 := by ring
    rw [this, ← hN]
    field_simp
    ring
  have t : ∀ x y z : ℝ, (x - z) ^ 2 ≤ 2 * (x - y) ^ 2 + 2 * (y - z) ^ 2 := by
    intro x y z; nlinarith [sq_nonneg ((x - y) - (y - z))]
  have t1 := t (v1 / N) v1 u1
  have t2 := t (v2 / N) v2 u2
  have t3 := t (v3 / N) v3 u3
  linarith

theorem s7_pos : (0 : ℝ) < s7 := by rw [s7_eq]; norm_num

theorem unitVec_iff (n : Vec3 ℝ) : UnitVec n ↔ n.1 ^ 2 + n.2.1 ^ 2 + n.2.2 ^ 2 = 1 := by
  unfold UnitVec; constructor <;> intro h <;> nlinarith

/-- the true product `U_a · U_b` in terms of the un-rounded combined axis and angle -/
theorem rot_mul_rot_cAxis (a b : Rot ℝ) (ha : UnitVec a.axis) (hb : UnitVec b.axis)
    (hs : Real.sin (cTheta a b / 2) ≠ 0) :
    rot a.axis a.angle a.phase * rot b.axis b.angle b.phase
      = rot (cAxis a b) (cTheta a b) (a.phase + b.phase) := by
  rw [rot_mul_rot, rot_eq_quat, quat_cAxis a b ha hb hs]
  rfl

/-- what the general branch returns: the rounded, renormalised axis is within `12·δ²` (squared) of the exact one -/
theorem rounded_axis_dist (u : Vec3 ℝ) (hu : UnitVec u) (ax : Vec3 ℝ)
    (hm : mkAxis (roundTo s7 u.1, roundTo s7 u.2.1, roundTo s7 u.2.2) = .ok ax) :
    ax.1 ^ 2 + ax.2.1 ^ 2 + ax.2.2 ^ 2 = 1 ∧
    (ax.1 - u.1) ^ 2 + (ax.2.1 - u.2.1) ^ 2 + (ax.2.2 - u.2.2) ^ 2 ≤ 3 / s7 ^ 2 := by
  have hu' := (unitVec_iff u).mp hu
  obtain ⟨hv0, hax, haxu⟩ := mkAxis_ok _ _ hm
  refine ⟨haxu, ?_⟩
  simp only at hax
  set v1 := roundTo s7 u.1
  set v2 := roundTo s7 u.2.1
  set v3 := roundTo s7 u.2.2
  have r1 : |v1 - u.1| ≤ 1 / (2 * s7) := roundTo_error s7 u.1 s7_pos
  have r2 : |v2 - u.2.1| ≤ 1 / (2 * s7) := roundTo_error s7 u.2.1 s7_pos
  have r3 : |v3 - u.2.2| ≤ 1 / (2 * s7) := roundTo_error s7 u.2.2 s7_pos
  have hδ : (0 : ℝ) ≤ 1 / (2 * s7) := by have := s7_pos; positivity
  have q1 : (v1 - u.1) ^ 2 ≤ (1 / (2 * s7)) ^ 2 := by rw [← sq_abs]; exact pow_le_pow_left₀ (abs_nonneg _) r1 2
  have q2 : (v2 - u.2.1) ^ 2 ≤ (1 / (2 * s7)) ^ 2 := by rw [← sq_abs]; exact pow_le_pow_left₀ (abs_nonneg _) r2 2
  have q3 : (v3 - u.2.2) ^ 2 ≤ (1 / (2 * s7)) ^ 2 := by rw [← sq_abs]; exact pow_le_pow_left₀ (abs_nonneg _) r3 2
  set N := √(v1 ^ 2 + v2 ^ 2 + v3 ^ 2) with hNdef
  have hNsq : N ^ 2 = v1 ^ 2 + v2 ^ 2 + v3 ^ 2 := Real.sq_sqrt (by positivity)
  have hN0 : 0 < N := by
    apply Real.sqrt_pos.mpr
    rcases lt_or_eq_of_le (by positivity : 0 ≤ v1 ^ 2 + v2 ^ 2 + v3 ^ 2) with h | h
    · exact h
    · exfalso
      apply hv0
      have e1 : v1 = 0 := by nlinarith [sq_nonneg v1, sq_nonneg v2, sq_nonneg v3]
      have e2 : v2 = 0 := by nlinarith [sq_nonneg v1, sq_nonneg v2, sq_nonneg v3]
      have e3 : v3 = 0 := by nlinarith [sq_nonneg v1, sq_nonneg v2, sq_nonneg v3]
      rw [e1, e2, e3]
  have hd := axis_renorm_dist hu' hN0 hNsq
  rw [hax]
  simp only
  have e : (3 : ℝ) / s7 ^ 2 = 4 * (3 * (1 / (2 * s7)) ^ 2) := by
    have := s7_pos; field_simp; ring
  rw [e]
  linarith

/-- **composeRot_general_band**: the general branch of `composeRot` (`¬ |sin(Θ/2)| < atol`) for unit axes, with *no*
    hypothesis on the rounding: the three axis components and the phase are rounded to 7 decimals, the axis is
    renormalised; the operator of the result is within `5/(2·s7) = 2.5e-7` (`2/s7` for the axis, `1/(2·s7)` for the
    phase), entrywise, of `± U_a · U_b`. -/
theorem composeRot_general_band (atol : ℝ) (hat : 0 < atol) (a b r : Rot ℝ) (ha : UnitVec a.axis)
    (hb : UnitVec b.axis) (h : composeRot atol a b = .ok r) (hnf : ¬ |Real.sin (cTheta a b / 2)| < atol) :
    UnitVec r.axis ∧ ∃ z : ℂ, ‖z‖ = 1 ∧ ∀ i j : Fin 2,
      ‖rot r.axis r.angle r.phase i j - (z • (rot a.axis a.angle a.phase * rot b.axis b.angle b.phase)) i j‖
        ≤ 5 / (2 * s7) := by
  have hq := (compose_ok_same_qubit atol a b r h).1
  have hne : Real.sin (cTheta a b / 2) ≠ 0 := by
    intro h0; apply hnf; rw [h0, abs_zero]; exact hat
  have hu := cAxis_unit a b ha hb hne
  have hu' := (unitVec_iff _).mp hu
  rw [composeRot_real atol a b ha hb hq, if_neg hnf] at h
  cases hm : mkAxis (roundTo s7 (cAxis a b).1, roundTo s7 (cAxis a b).2.1, roundTo s7 (cAxis a b).2.2) with
  | error e => rw [hm] at h; cases h
  | ok ax =>
    rw [hm] at h
    simp only [Except.map] at h
    injection h with h
    subst h
    obtain ⟨haxu, hdist⟩ := rounded_axis_dist (cAxis a b) hu ax hm
    refine ⟨(unitVec_iff ax).mpr haxu, ?_⟩
    obtain ⟨k, hk⟩ := normalizeAngle_congr atol (cTheta a b)
    obtain ⟨k', hk'⟩ := normalizeAngle_congr atol (roundTo s7 (a.phase + b.phase))
    refine ⟨(-1 : ℂ) ^ k, norm_neg_one_zpow k, fun i j => ?_⟩
    simp only
    rw [hk, hk', rot_phase_add_int_mul_two_pi, rot_add_int_mul_two_pi, rot_mul_rot_cAxis a b ha hb hne,
      Matrix.smul_apply, Matrix.smul_apply, smul_eq_mul, smul_eq_mul, ← mul_sub, norm_mul, norm_neg_one_zpow,
      one_mul]
    set ρ := roundTo s7 (a.phase + b.phase)
    have h7 := s7_pos
    have e1 : ‖rot ax (cTheta a b) ρ i j - rot (cAxis a b) (cTheta a b) ρ i j‖ ≤ 2 / s7 := by
      apply rot_sub_entry_le _ _ _ _ _ (by positivity)
      simp only [qdist2, ABA.Q.ofRot]
      have hs1 := Real.sin_sq_le_one (cTheta a b / 2)
      have e : (2 / s7) ^ 2 = 4 / s7 ^ 2 := by rw [div_pow]; norm_num
      rw [e]
      have e3 : (3 : ℝ) / s7 ^ 2 ≤ 4 / s7 ^ 2 := by
        apply div_le_div_of_nonneg_right (by norm_num) (by positivity)
      have hD0 : 0 ≤ (ax.1 - (cAxis a b).1) ^ 2 + (ax.2.1 - (cAxis a b).2.1) ^ 2
          + (ax.2.2 - (cAxis a b).2.2) ^ 2 := by positivity
      have : (Real.cos (cTheta a b / 2) - Real.cos (cTheta a b / 2)) ^ 2
          + (Real.sin (cTheta a b / 2) * ax.1 - Real.sin (cTheta a b / 2) * (cAxis a b).1) ^ 2
          + (Real.sin (cTheta a b / 2) * ax.2.1 - Real.sin (cTheta a b / 2) * (cAxis a b).2.1) ^ 2
          + (Real.sin (cTheta a b / 2) * ax.2.2 - Real.sin (cTheta a b / 2) * (cAxis a b).2.2) ^ 2
          = Real.sin (cTheta a b / 2) ^ 2 * ((ax.1 - (cAxis a b).1) ^ 2 + (ax.2.1 - (cAxis a b).2.1) ^ 2
            + (ax.2.2 - (cAxis a b).2.2) ^ 2) := by ring
      rw [this]
      nlinarith [mul_le_mul_of_nonneg_right hs1 hD0]
    have e2 : ‖rot (cAxis a b) (cTheta a b) ρ i j - rot (cAxis a b) (cTheta a b) (a.phase + b.phase) i j‖
        ≤ 1 / (2 * s7) :=
      (rot_lipschitz_phase _ hu' _ _ _ i j).trans (roundTo_error s7 _ s7_pos)
    have e5 : (5 : ℝ) / (2 * s7) = 2 / s7 + 1 / (2 * s7) := by field_simp; ring
    rw [e5]
    calc ‖rot ax (cTheta a b) ρ i j - rot (cAxis a b) (cTheta a b) (a.phase + b.phase) i j‖
        = ‖(rot ax (cTheta a b) ρ i j - rot (cAxis a b) (cTheta a b) ρ i j)
            + (rot (cAxis a b) (cTheta a b) ρ i j - rot (cAxis a b) (cTheta a b) (a.phase + b.phase) i j)‖ := by
          ring_nf
      _ ≤ _ := norm_add_le _ _
      _ ≤ 2 / s7 + 1 / (2 * s7) := add_le_add e1 e2

/-- **composeRot_all_inputs**: for unit-axis rotations `a`, `b`, whenever `composeRot atol a b` succeeds — either
    branch, no crisp hypothesis on the identity test, no exact-rounding hypothesis — the result has a unit axis and
    its operator is within `√2·atol + 5/(2·s7)` (entrywise) of `z • (U_a · U_b)` for one unit scalar `z`
    (identity branch: `≤ √2·atol`; general branch: `≤ 5/(2·s7) = 2.5e-7`). -/
theorem composeRot_all_inputs (atol : ℝ) (hat : 0 < atol) (a b r : Rot ℝ) (ha : UnitVec a.axis)
    (hb : UnitVec b.axis) (h : composeRot atol a b = .ok r) :
    UnitVec r.axis ∧ ∃ z : ℂ, ‖z‖ = 1 ∧ ∀ i j : Fin 2,
      ‖rot r.axis r.angle r.phase i j - (z • (rot a.axis a.angle a.phase * rot b.axis b.angle b.phase)) i j‖
        ≤ √2 * atol + 5 / (2 * s7) := by
  have h7 := s7_pos
  by_cases hf : |Real.sin (cTheta a b / 2)| < atol
  · obtain ⟨hr, z, hz, hd⟩ := composeRot_identity_band atol a b r ha hb h hf
    have hz0 : z ≠ 0 := by intro h0; rw [h0, norm_zero] at hz; exact zero_ne_one hz
    refine ⟨by rw [hr]; simp [identityRot, UnitVec], z⁻¹, by rw [norm_inv, hz, inv_one], fun i j => ?_⟩
    have := hd i j
    have e : rot r.axis r.angle r.phase i j
        - (z⁻¹ • (rot a.axis a.angle a.phase * rot b.axis b.angle b.phase)) i j
        = -(z⁻¹ * ((rot a.axis a.angle a.phase * rot b.axis b.angle b.phase) i j
          - (z • rot r.axis r.angle r.phase) i j)) := by
      rw [Matrix.smul_apply, Matrix.smul_apply, smul_eq_mul, smul_eq_mul]
      field_simp
      ring
    rw [e, norm_neg, norm_mul, norm_inv, hz, inv_one, one_mul]
    have : (0 : ℝ) ≤ 5 / (2 * s7) := by positivity
    linarith
  · obtain ⟨hr, z, hz, hd⟩ := composeRot_general_band atol hat a b r ha hb h hf
    refine ⟨hr, z, hz, fun i j => (hd i j).trans ?_⟩
    have : 0 ≤ √2 * atol := by positivity
    linarith

/-- totality: for unit axes on one qubit the composition never raises (the rounded axis cannot be the zero vector) -/
theorem composeRot_total (atol : ℝ) (hat : 0 < atol) (a b : Rot ℝ) (ha : UnitVec a.axis) (hb : UnitVec b.axis)
    (hq : a.q = b.q) : ∃ r, composeRot atol a b = .ok r := by
  cases hc : composeRot atol a b with
  | ok r => exact ⟨r, rfl⟩
  | error e =>
    exfalso
    obtain ⟨-, hne | ⟨-, hs, h1, h2, h3⟩⟩ := compose_error_cases atol a b ha hb e hc
    · exact hne hq
    · have hne : Real.sin (cTheta a b / 2) ≠ 0 := by
        intro h0; apply hs; rw [h0, abs_zero]; exact hat
      have hu := (unitVec_iff _).mp (cAxis_unit a b ha hb hne)
      have h7 := s7_pos
      have r1 := roundTo_error s7 (cAxis a b).1 s7_pos
      have r2 := roundTo_error s7 (cAxis a b).2.1 s7_pos
      have r3 := roundTo_error s7 (cAxis a b).2.2 s7_pos
      rw [h1, zero_sub, abs_neg] at r1
      rw [h2, zero_sub, abs_neg] at r2
      rw [h3, zero_sub, abs_neg] at r3
      have hδ : (1 : ℝ) / (2 * s7) ≤ 1 / 2 := by
        rw [s7_eq]; norm_num
      have q1 : (cAxis a b).1 ^ 2 ≤ (1 / 2) ^ 2 := by
        rw [← sq_abs]; exact pow_le_pow_left₀ (abs_nonneg _) (r1.trans hδ) 2
      have q2 : (cAxis a b).2.1 ^ 2 ≤ (1 / 2) ^ 2 := by
        rw [← sq_abs]; exact pow_le_pow_left₀ (abs_nonneg _) (r2.trans hδ) 2
      have q3 : (cAxis a b).2.2 ^ 2 ≤ (1 / 2) ^ 2 := by
        rw [← sq_abs]; exact pow_le_pow_left₀ (abs_nonneg _) (r3.trans hδ) 2
      linarith

/-- non-vacuity, general branch with inexact rounding: `Rx(1)·e^{i/3}` after `Ry(1)·e^{i/7}` (the combined axis has
    irrational components), at `atol = 1/10`. -/
noncomputable def exA : Rot ℝ := ⟨0, (1, 0, 0), 1, 1 / 3, none⟩
noncomputable def exB : Rot ℝ := ⟨0, (0, 1, 0), 1, 1 / 7, none⟩
theorem exA_unit : UnitVec exA.axis := by simp [UnitVec, exA]
theorem exB_unit : UnitVec exB.axis := by simp [UnitVec, exB]

example : ∃ r, composeRot (1 / 10 : ℝ) exA exB = .ok r ∧
    UnitVec r.axis ∧ ∃ z : ℂ, ‖z‖ = 1 ∧ ∀ i j : Fin 2,
      ‖rot r.axis r.angle r.phase i j
        - (z • (rot exA.axis exA.angle exA.phase * rot exB.axis exB.angle exB.phase)) i j‖
        ≤ √2 * (1 / 10) + 5 / (2 * s7) := by
  obtain ⟨r, h⟩ := composeRot_total (1 / 10) (by norm_num) exA exB exA_unit exB_unit rfl
  exact ⟨r, h, composeRot_all_inputs (1 / 10) (by norm_num) _ _ r exA_unit exB_unit h⟩

/-! ### 2. Chains of compositions (the merge pass on one qubit) -/

/-- the accumulator fold of the merge pass on one qubit: `acc_{i+1} = composeRot stmt_i acc_i` -/
noncomputable def foldRot (atol : ℝ) : List (Rot ℝ) → Rot ℝ → Except Err (Rot ℝ)
  | [], acc => .ok acc
  | s :: rest, acc =>
    match composeRot atol s acc with
    | .error e => .error e
    | .ok r => foldRot atol rest r

/-- the operator of a rotation record -/
noncomputable def rotOp (r : Rot ℝ) : Matrix (Fin 2) (Fin 2) ℂ := rot r.axis r.angle r.phase

/-- the operator of a list of rotation records in program order (first element applied first) -/
noncomputable def prodOp : List (Rot ℝ) → Matrix (Fin 2) (Fin 2) ℂ
  | [] => 1
  | s :: rest => prodOp rest * rotOp s

theorem rotOp_unitary (r : Rot ℝ) (h : UnitVec r.axis) : rotOp r ∈ Matrix.unitaryGroup (Fin 2) ℂ :=
  rot_unitary _ _ _ ((unitVec_iff _).mp h)

theorem prodOp_unitary (l : List (Rot ℝ)) (h : ∀ s ∈ l, UnitVec s.axis) :
    prodOp l ∈ Matrix.unitaryGroup (Fin 2) ℂ := by
  induction l with
  | nil => exact one_mem _
  | cons s l ih =>
    exact mul_mem (ih (fun s' hs' => h s' (List.mem_cons_of_mem _ hs'))) (rotOp_unitary s (h s List.mem_cons_self))

/-- per-step constant of the chain bound: `√2·(√2·atol + 5/(2·s7)) ≤ 2·atol + 4/s7` -/
theorem chain_step_const (atol : ℝ) (hat : 0 ≤ atol) : √2 * (√2 * atol + 5 / (2 * s7)) ≤ 2 * atol + 4 / s7 := by
  have h7 := s7_pos
  have hs : √2 * √2 = 2 := Real.mul_self_sqrt (by norm_num)
  have h2 := sqrt_two_le
  have e : √2 * (√2 * atol + 5 / (2 * s7)) = 2 * atol + √2 * (5 / (2 * s7)) := by
    rw [mul_add, ← mul_assoc, hs]
  rw [e]
  have hp : (0 : ℝ) ≤ 5 / (2 * s7) := by positivity
  have : √2 * (5 / (2 * s7)) ≤ 3 / 2 * (5 / (2 * s7)) := mul_le_mul_of_nonneg_right h2 hp
  have e2 : (3 : ℝ) / 2 * (5 / (2 * s7)) ≤ 4 / s7 := by
    have e3 : (3 : ℝ) / 2 * (5 / (2 * s7)) = (15 / 4) / s7 := by field_simp; ring
    rw [e3]
    exact div_le_div_of_nonneg_right (by norm_num) h7.le
  linarith

/-- **foldRot_all_inputs**: a list `l` of `m` unit-axis rotations on one qubit is folded into an accumulator with
    `composeRot` (`acc ↦ composeRot stmt acc`, as `merge_single_qubit_gates` does).  With no crisp and no
    exact-rounding hypothesis, whenever the fold succeeds the operator of the final accumulator is within
    `m·(2·atol + 4/s7)`, entrywise, of `z • (U_{m-1} ⋯ U_0 · U_acc)` for one unit scalar `z`.  (Errors add: every
    factor is unitary, and left multiplication by a unitary costs at most `√2` on the entrywise norm.) -/
theorem foldRot_all_inputs (atol : ℝ) (hat : 0 < atol) (l : List (Rot ℝ)) :
    ∀ (acc r : Rot ℝ), (∀ s ∈ l, UnitVec s.axis) → UnitVec acc.axis → foldRot atol l acc = .ok r →
    UnitVec r.axis ∧ ∃ z : ℂ, ‖z‖ = 1 ∧ ∀ i j : Fin 2,
      ‖rotOp r i j - (z • (prodOp l * rotOp acc)) i j‖ ≤ l.length * (2 * atol + 4 / s7) := by
  induction l with
  | nil =>
    intro acc r _ hacc h
    simp only [foldRot] at h
    injection h with h
    subst h
    exact ⟨hacc, 1, by simp, fun i j => by simp [prodOp]⟩
  | cons s rest ih =>
    intro acc r hl hacc h
    have hs := hl s List.mem_cons_self
    have hrest : ∀ s' ∈ rest, UnitVec s'.axis := fun s' hs' => hl s' (List.mem_cons_of_mem _ hs')
    simp only [foldRot] at h
    cases hc : composeRot atol s acc with
    | error e => rw [hc] at h; cases h
    | ok r1 =>
      rw [hc] at h
      simp only at h
      obtain ⟨hr1, w, hw, hd1⟩ := composeRot_all_inputs atol hat s acc r1 hs hacc hc
      obtain ⟨hr, z, hz, hd⟩ := ih r1 r hrest hr1 h
      refine ⟨hr, z * w, by rw [norm_mul, hz, hw, one_mul], fun i j => ?_⟩
      have e : rotOp r - (z * w) • (prodOp (s :: rest) * rotOp acc)
          = (rotOp r - z • (prodOp rest * rotOp r1))
            + z • (prodOp rest * (rotOp r1 - w • (rotOp s * rotOp acc))) := by
        simp only [prodOp]
        rw [Matrix.mul_sub, Matrix.mul_smul, smul_sub, smul_smul, Matrix.mul_assoc]
        abel
      have e' : rotOp r i j - ((z * w) • (prodOp (s :: rest) * rotOp acc)) i j
          = (rotOp r i j - (z • (prodOp rest * rotOp r1)) i j)
            + (z • (prodOp rest * (rotOp r1 - w • (rotOp s * rotOp acc)))) i j := by
        have := congrFun (congrFun e i) j
        simpa only [Matrix.sub_apply, Matrix.add_apply] using this
      rw [e']
      refine (norm_add_le _ _).trans ?_
      have h1 := hd i j
      have h2 : ‖(z • (prodOp rest * (rotOp r1 - w • (rotOp s * rotOp acc)))) i j‖ ≤ 2 * atol + 4 / s7 := by
        rw [Matrix.smul_apply, smul_eq_mul, norm_mul, hz, one_mul]
        refine (unitary_mul_entry_le (prodOp_unitary rest hrest) (ε := √2 * atol + 5 / (2 * s7)) ?_ i j).trans
          (chain_step_const atol hat.le)
        intro k l'
        rw [Matrix.sub_apply]
        exact hd1 k l'
      rw [List.length_cons]
      push_cast
      linarith

/-- **foldRot_identity_start**: the chain bound from the identity accumulator (the state of a qubit at the start of
    the merge pass and after every flush): `‖rotOp r i j − (z • (U_{m-1} ⋯ U_0)) i j‖ ≤ m·(2·atol + 4/s7)`. -/
theorem foldRot_identity_start (atol : ℝ) (hat : 0 < atol) (l : List (Rot ℝ)) (q : Int) (nm : Option (Named ℝ))
    (r : Rot ℝ) (hl : ∀ s ∈ l, UnitVec s.axis) (h : foldRot atol l ⟨q, (1, 0, 0), 0, 0, nm⟩ = .ok r) :
    UnitVec r.axis ∧ ∃ z : ℂ, ‖z‖ = 1 ∧ ∀ i j : Fin 2,
      ‖rotOp r i j - (z • prodOp l) i j‖ ≤ l.length * (2 * atol + 4 / s7) := by
  have := foldRot_all_inputs atol hat l ⟨q, (1, 0, 0), 0, 0, nm⟩ r hl (by simp [UnitVec]) h
  have e : rotOp (⟨q, (1, 0, 0), 0, 0, nm⟩ : Rot ℝ) = 1 := by simp [rotOp, rot_zero]
  rwa [e, Matrix.mul_one] at this

/-- totality of the fold for unit axes on one qubit -/
theorem foldRot_total (atol : ℝ) (hat : 0 < atol) (l : List (Rot ℝ)) :
    ∀ acc : Rot ℝ, (∀ s ∈ l, UnitVec s.axis ∧ s.q = acc.q) → UnitVec acc.axis → ∃ r, foldRot atol l acc = .ok r := by
  induction l with
  | nil => intro acc _ _; exact ⟨acc, rfl⟩
  | cons s rest ih =>
    intro acc hl hacc
    obtain ⟨hs, hq⟩ := hl s List.mem_cons_self
    obtain ⟨r1, hc⟩ := composeRot_total atol hat s acc hs hacc hq
    have hq1 := (compose_ok_same_qubit atol s acc r1 hc).2
    have hr1 := (composeRot_all_inputs atol hat s acc r1 hs hacc hc).1
    obtain ⟨r, hr⟩ := ih r1 (fun s' hs' => ⟨(hl s' (List.mem_cons_of_mem _ hs')).1, by
      rw [(hl s' (List.mem_cons_of_mem _ hs')).2, hq1, hq]⟩) hr1
    exact ⟨r, by simp only [foldRot, hc]; exact hr⟩

/-- non-vacuity: the chain `Ry(1)·e^{i/7}`, `Rx(1)·e^{i/3}`, `Ry(1)·e^{i/7}` on qubit 0 from the identity accumulator -/
example : ∃ r, foldRot (1 / 10 : ℝ) [exB, exA, exB] ⟨0, (1, 0, 0), 0, 0, none⟩ = .ok r ∧
    ∃ z : ℂ, ‖z‖ = 1 ∧ ∀ i j : Fin 2,
      ‖rotOp r i j - (z • prodOp [exB, exA, exB]) i j‖ ≤ (3 : ℕ) * (2 * (1 / 10) + 4 / s7) := by
  have hl : ∀ s ∈ [exB, exA, exB], UnitVec s.axis ∧ s.q = (0 : Int) := by
    intro s hs
    simp only [List.mem_cons, List.not_mem_nil, or_false] at hs
    rcases hs with rfl | rfl | rfl
    · exact ⟨exB_unit, rfl⟩
    · exact ⟨exA_unit, rfl⟩
    · exact ⟨exB_unit, rfl⟩
  obtain ⟨r, h⟩ := foldRot_total (1 / 10) (by norm_num) [exB, exA, exB] ⟨0, (1, 0, 0), 0, 0, none⟩ hl
    (by simp [UnitVec])
  exact ⟨r, h, (foldRot_identity_start (1 / 10) (by norm_num) _ 0 none r (fun s hs => (hl s hs).1) h).2⟩

/-! #### the fold is what the merge loop does on a one-qubit segment -/

/-- a rotation record as a statement of the circuit -/
def rotStmtOf (s : Rot ℝ) : Stmt ℝ := .gate (.bsr s.q s.axis s.angle s.phase) s.nm

/-- **mergeLoop_segment**: on a segment of rotation statements of one qubit `k` the merge loop performs `foldRot` on
    the accumulator of `k` and leaves everything else (the other accumulators, the output) untouched. -/
theorem mergeLoop_segment (atol : ℝ) (k : Nat) (rs : List (Rot ℝ)) :
    ∀ (accs : Array (Rot ℝ)) (out rest : List (Stmt ℝ)) (acc r : Rot ℝ),
      (∀ s ∈ rs, s.q = (k : Int)) → accs[k]? = some acc → foldRot atol rs acc = .ok r →
      ∃ accs' : Array (Rot ℝ), accs'.size = accs.size ∧ accs'[k]? = some r ∧ (∀ j, j ≠ k → accs'[j]? = accs[j]?) ∧
        mergeLoop atol accs out (rs.map rotStmtOf ++ rest) = mergeLoop atol accs' out rest := by
  induction rs with
  | nil =>
    intro accs out rest acc r _ hacc h
    simp only [foldRot] at h
    injection h with h
    subst h
    exact ⟨accs, rfl, hacc, fun _ _ => rfl, rfl⟩
  | cons s rs ih =>
    intro accs out rest acc r hq hacc h
    have hs := hq s List.mem_cons_self
    obtain ⟨sq, sax, san, sph, snm⟩ := s
    simp only at hs
    subst hs
    simp only [foldRot] at h
    cases hc : composeRot atol ⟨(k : Int), sax, san, sph, snm⟩ acc with
    | error e => rw [hc] at h; cases h
    | ok r1 =>
      rw [hc] at h
      simp only at h
      have hk : k < accs.size := by
        by_contra hlt
        rw [Array.getElem?_eq_none (by omega)] at hacc
        cases hacc
      obtain ⟨accs', hsz, hget, hoth, hm⟩ := ih (accs.set! k r1) out rest r1 r
        (fun s' hs' => hq s' (List.mem_cons_of_mem _ hs')) (by simp [hk]) h
      refine ⟨accs', by rw [hsz]; simp, hget, fun j hj => by rw [hoth j hj]; simp [hj.symm], ?_⟩
      rw [← hm]
      have hg : accGet? accs (k : Int) = some acc := by
        simp [accGet?, hacc]
      simp only [List.map_cons, List.cons_append, rotStmtOf, mergeLoop, hg, hc, Int.toNat_natCast]

/-- **mergeLoop_segment_band**: the band version of the per-segment statement of C02.  On a segment of `m` unit-axis
    rotation statements of qubit `k` (accumulator `acc`, unit axis, on `k`) the merge loop never raises, touches only
    the accumulator of `k`, and the new accumulator `r` satisfies
    `‖rotOp r i j − (z • (U_{m-1} ⋯ U_0 · U_acc)) i j‖ ≤ m·(2·atol + 4/s7)` for one unit scalar `z` — no crisp and no
    exact-rounding hypothesis. -/
theorem mergeLoop_segment_band (atol : ℝ) (hat : 0 < atol) (k : Nat) (rs : List (Rot ℝ)) (accs : Array (Rot ℝ))
    (out rest : List (Stmt ℝ)) (acc : Rot ℝ) (hq : ∀ s ∈ rs, s.q = (k : Int)) (hu : ∀ s ∈ rs, UnitVec s.axis)
    (hacc : accs[k]? = some acc) (hau : UnitVec acc.axis) (hqa : acc.q = (k : Int)) :
    ∃ (accs' : Array (Rot ℝ)) (r : Rot ℝ), accs'.size = accs.size ∧ accs'[k]? = some r ∧
      (∀ j, j ≠ k → accs'[j]? = accs[j]?) ∧
      mergeLoop atol accs out (rs.map rotStmtOf ++ rest) = mergeLoop atol accs' out rest ∧
      UnitVec r.axis ∧ ∃ z : ℂ, ‖z‖ = 1 ∧ ∀ i j : Fin 2,
        ‖rotOp r i j - (z • (prodOp rs * rotOp acc)) i j‖ ≤ rs.length * (2 * atol + 4 / s7) := by
  obtain ⟨r, hr⟩ := foldRot_total atol hat rs acc (fun s hs => ⟨hu s hs, by rw [hq s hs, hqa]⟩) hau
  obtain ⟨accs', h1, h2, h3, h4⟩ := mergeLoop_segment atol k rs accs out rest acc r hq hacc hr
  obtain ⟨h5, h6⟩ := foldRot_all_inputs atol hat rs acc r hu hau hr
  exact ⟨accs', r, h1, h2, h3, h4, h5, h6⟩

/-- non-vacuity: the segment `Ry(1)·e^{i/7}; Rx(1)·e^{i/3}` on qubit 0 of a one-qubit register -/
example : ∃ (accs' : Array (Rot ℝ)) (r : Rot ℝ),
    mergeLoop (1 / 10 : ℝ) #[⟨0, (1, 0, 0), 0, 0, none⟩] [] ([exB, exA].map rotStmtOf ++ [])
      = mergeLoop (1 / 10 : ℝ) accs' [] [] ∧ accs'[0]? = some r ∧
    ∃ z : ℂ, ‖z‖ = 1 ∧ ∀ i j : Fin 2,
      ‖rotOp r i j - (z • (prodOp [exB, exA] * rotOp ⟨0, (1, 0, 0), 0, 0, none⟩)) i j‖
        ≤ (2 : ℕ) * (2 * (1 / 10) + 4 / s7) := by
  obtain ⟨accs', r, -, h2, -, h4, -, h6⟩ := mergeLoop_segment_band (1 / 10) (by norm_num) 0 [exB, exA]
    #[⟨0, (1, 0, 0), 0, 0, none⟩] [] [] ⟨0, (1, 0, 0), 0, 0, none⟩
    (by intro s hs; simp only [List.mem_cons, List.not_mem_nil, or_false] at hs; rcases hs with rfl | rfl <;> rfl)
    (by intro s hs; simp only [List.mem_cons, List.not_mem_nil, or_false] at hs
        rcases hs with rfl | rfl
        · exact exB_unit
        · exact exA_unit)
    rfl (by simp [UnitVec]) rfl
  exact ⟨accs', r, h4, h2, h6⟩

/-! ### 3. The identity filter, sharp constants (`atol/2` per dropped phase-free rotation) -/

/-- product of `f g` over a list in program order (`listOp = prodF opOf`) -/
noncomputable def prodF (f : GStmt ℝ → Matrix (Fin 2) (Fin 2) ℂ) : List (GStmt ℝ) → Matrix (Fin 2) (Fin 2) ℂ
  | [] => 1
  | g :: l => prodF f l * f g

theorem listOp_eq_prodF (l : List (GStmt ℝ)) : listOp l = prodF opOf l := by
  induction l with
  | nil => rfl
  | cons g l ih => rw [listOp_cons, ih]; rfl

theorem prodF_puq (f : GStmt ℝ → Matrix (Fin 2) (Fin 2) ℂ) (l : List (GStmt ℝ)) (hf : ∀ g ∈ l, PUQ (f g)) :
    PUQ (prodF f l) := by
  induction l with
  | nil => exact PUQ.one
  | cons g l ih =>
    exact (ih (fun g' hg' => hf g' (List.mem_cons_of_mem _ hg'))).mul (hf g List.mem_cons_self)

theorem idCount_cons (atol : ℝ) (g : GStmt ℝ) (l : List (GStmt ℝ)) :
    idCount atol (g :: l) = (if g.1.isIdentity atol then 1 else 0) + idCount atol l := by
  unfold idCount
  rw [List.filter_cons]
  split <;> simp [Nat.add_comm]

/-- **generic filter band**: `f` any reading of the gates as phase×unit-quaternion matrices; if dropping a gate that
    `is_identity` accepts costs at most `c` between any two such matrices, then the filtered product is within
    `k·c` of the full product, `k` the number of dropped gates — also between any two such matrices. -/
theorem filter_band_gen (atol c : ℝ) (hc0 : 0 ≤ c) (f : GStmt ℝ → Matrix (Fin 2) (Fin 2) ℂ)
    (l : List (GStmt ℝ)) (hf : ∀ g ∈ l, PUQ (f g))
    (hd : ∀ g ∈ l, g.1.isIdentity atol = true → ∀ A B, PUQ A → PUQ B → ∀ i j : Fin 2,
      ‖(A * (1 - f g) * B) i j‖ ≤ c) :
    ∀ A B, PUQ A → PUQ B → ∀ i j : Fin 2,
      ‖(A * (prodF f (filterOutIdentities atol l) - prodF f l) * B) i j‖ ≤ idCount atol l * c := by
  induction l with
  | nil => intro A B _ _ i j; simp [filterOutIdentities, idCount, prodF]
  | cons g l ih =>
    have hf' : ∀ g' ∈ l, PUQ (f g') := fun g' hg' => hf g' (List.mem_cons_of_mem _ hg')
    have ih' := ih hf' (fun g' hg' => hd g' (List.mem_cons_of_mem _ hg'))
    have hg := hf g List.mem_cons_self
    intro A B hA hB i j
    rw [idCount_cons]
    unfold filterOutIdentities at ih' ⊢
    rw [List.filter_cons]
    cases hid : g.1.isIdentity atol with
    | false =>
      simp only [Bool.not_false, if_true, Bool.false_eq_true, if_false, Nat.zero_add]
      have e : A * (prodF f (g :: List.filter (fun g => !g.1.isIdentity atol) l) - prodF f (g :: l)) * B
          = A * (prodF f (List.filter (fun g => !g.1.isIdentity atol) l) - prodF f l) * (f g * B) := by
        simp only [prodF, Matrix.sub_mul, Matrix.mul_sub, Matrix.mul_assoc]
      rw [e]
      exact ih' A (f g * B) hA (hg.mul hB) i j
    | true =>
      simp only [Bool.not_true, Bool.false_eq_true, if_false, if_true]
      have e : A * (prodF f (List.filter (fun g => !g.1.isIdentity atol) l) - prodF f (g :: l)) * B
          = A * (prodF f (List.filter (fun g => !g.1.isIdentity atol) l) - prodF f l) * B
            + (A * prodF f l) * (1 - f g) * B := by
        simp only [prodF, Matrix.sub_mul, Matrix.mul_sub, Matrix.mul_assoc, Matrix.mul_one]
        abel
      rw [e, Matrix.add_apply]
      refine (norm_add_le _ _).trans ?_
      have h1 := ih' A B hA hB i j
      have h2 := hd g List.mem_cons_self hid (A * prodF f l) B (hA.mul (prodF_puq f l hf')) hB i j
      push_cast
      linarith

/-- dropping a unit-axis rotation `(θ, φ)` between two phase×unit-quaternion matrices costs `≤ |θ|/2 + |φ|` -/
theorem drop_cost_rot (a : ℝ × ℝ × ℝ) (ha : a.1 ^ 2 + a.2.1 ^ 2 + a.2.2 ^ 2 = 1) (θ φ : ℝ)
    {A B : Matrix (Fin 2) (Fin 2) ℂ} (hA : PUQ A) (hB : PUQ B) (i j : Fin 2) :
    ‖(A * (1 - rot a θ φ) * B) i j‖ ≤ |θ| / 2 + |φ| := by
  have e : A * (1 - rot a θ φ) * B
      = A * (qone.toMat - (ABA.Q.ofRot a θ).toMat) * B
        + A * ((1 - Complex.exp (I * φ)) • (1 : Matrix (Fin 2) (Fin 2) ℂ)) * (rot a θ 0 * B) := by
    rw [rot_phase_smul a θ φ, rot_eq_qMat0, qone_toMat]
    simp only [Matrix.mul_sub, Matrix.sub_mul, Matrix.mul_smul, Matrix.smul_mul, Matrix.mul_one, sub_smul,
      one_smul, Matrix.mul_assoc]
    abel
  rw [e, Matrix.add_apply]
  refine (norm_add_le _ _).trans (add_le_add ?_ ?_)
  · exact puq_sandwich hA hB _ _ (by positivity) (qdist2_qone_ofRot a ha θ) i j
  · refine (puq_sandwich_scalar hA ((PUQ.rot a ha θ 0).mul hB) _ i j).trans ?_
    have := norm_exp_sub_exp_le 0 φ
    rw [zero_sub, abs_neg] at this
    simpa using this

/-- **filter_identities_band_sharp**: for a list of unit-axis rotations in which every gate the identity filter
    drops satisfies `|θ|/2 + |φ| ≤ c` (always true with `c = (3/2)·atol`; with `c = atol/2` when the gates carry no
    phase, as all gates emitted by the decomposers do), the filtered list is within `k·c` of the full list,
    `k = idCount` the number of dropped gates — entrywise, and also between two phase×unit-quaternion matrices. -/
theorem filter_identities_band_sharp (atol c : ℝ) (hc0 : 0 ≤ c) (l : List (GStmt ℝ)) (hl : UnitAxes l)
    (hcost : ∀ g ∈ l, ∀ q a θ φ, g.1 = .bsr q a θ φ → |θ| < atol → |φ| < atol → |θ| / 2 + |φ| ≤ c)
    {A B : Matrix (Fin 2) (Fin 2) ℂ} (hA : PUQ A) (hB : PUQ B) (i j : Fin 2) :
    ‖(A * (listOp (filterOutIdentities atol l) - listOp l) * B) i j‖ ≤ idCount atol l * c := by
  rw [listOp_eq_prodF, listOp_eq_prodF]
  refine filter_band_gen atol c hc0 opOf l (fun g hg => opOf_puq g (hl g hg)) ?_ A B hA hB i j
  intro g hg hid A' B' hA' hB' i' j'
  obtain ⟨g, nm⟩ := g
  cases g with
  | bsr q a θ φ =>
    obtain ⟨ht, hp⟩ := (isIdentity_bsr_iff atol q a θ φ).mp hid
    rw [opOf_bsr]
    exact (drop_cost_rot a (hl _ hg q a θ φ rfl) θ φ hA' hB' i' j').trans (hcost _ hg q a θ φ rfl ht hp)
  | matrix m ops => simpa [opOf] using hc0
  | ctrl c' g' => simpa [opOf] using hc0

/-- every rotation of the list has phase `0` -/
def Phase0 (l : List (GStmt ℝ)) : Prop := ∀ g ∈ l, ∀ q a θ φ, g.1 = .bsr q a θ φ → φ = 0

/-- phase-free lists: `atol/2` per dropped gate, entrywise -/
theorem filter_identities_band_phase0 (atol : ℝ) (hat : 0 ≤ atol) (l : List (GStmt ℝ)) (hl : UnitAxes l)
    (hp : Phase0 l) {A B : Matrix (Fin 2) (Fin 2) ℂ} (hA : PUQ A) (hB : PUQ B) (i j : Fin 2) :
    ‖(A * (listOp (filterOutIdentities atol l) - listOp l) * B) i j‖ ≤ idCount atol l * (atol / 2) := by
  refine filter_identities_band_sharp atol (atol / 2) (by positivity) l hl ?_ hA hB i j
  intro g hg q a θ φ he ht _
  rw [hp g hg q a θ φ he, abs_zero]
  linarith

/-- non-vacuity: one gate strictly inside the identity band between two other gates -/
example : ∀ i j, ‖(listOp (filterOutIdentities (1 / 1000)
      [(.bsr 0 (1, 0, 0) 1 0, none), (.bsr 0 (0, 0, 1) (1 / 2000) 0, none), (.bsr 0 (1, 0, 0) 1 0, none)])
    - listOp [(.bsr 0 (1, 0, 0) 1 0, none), (.bsr 0 (0, 0, 1) (1 / 2000) 0, none), (.bsr 0 (1, 0, 0) 1 0, none)]) i j‖
      ≤ (1 : ℕ) * ((1 / 1000) / 2) := by
  intro i j
  have hl : UnitAxes [(.bsr 0 (1, 0, 0) 1 0, none), (.bsr 0 (0, 0, 1) (1 / 2000) 0, none),
      (.bsr 0 (1, 0, 0) 1 0, none)] := by
    intro g hg q a θ φ he
    simp only [List.mem_cons, List.not_mem_nil, or_false] at hg
    rcases hg with rfl | rfl | rfl <;> (injection he with _ ha _ _; subst ha; norm_num)
  have hp : Phase0 [(.bsr 0 (1, 0, 0) 1 0, none), (.bsr 0 (0, 0, 1) (1 / 2000) 0, none),
      (.bsr 0 (1, 0, 0) 1 0, none)] := by
    intro g hg q a θ φ he
    simp only [List.mem_cons, List.not_mem_nil, or_false] at hg
    rcases hg with rfl | rfl | rfl <;> (injection he with _ _ _ hph; exact hph.symm)
  have := filter_identities_band_phase0 (1 / 1000) (by norm_num) _ hl hp PUQ.one PUQ.one i j
  rw [Matrix.one_mul, Matrix.mul_one] at this
  have h1 : (Gate.bsr 0 ((1, 0, 0) : Vec3 ℝ) 1 0).isIdentity (1 / 1000) = false := by
    rw [Bool.eq_false_iff]; intro h; rw [isIdentity_bsr_iff] at h; norm_num at h
  have h2 : (Gate.bsr 0 ((0, 0, 1) : Vec3 ℝ) (1 / 2000) 0).isIdentity (1 / 1000) = true := by
    rw [isIdentity_bsr_iff]; norm_num [abs_of_pos]
  have hc : idCount (1 / 1000) [(.bsr 0 (1, 0, 0) 1 0, none), (.bsr 0 (0, 0, 1) (1 / 2000) 0, none),
      (.bsr 0 (1, 0, 0) 1 0, none)] = 1 := by
    rw [idCount_cons, idCount_cons, idCount_cons, h1, h2]
    rfl
  rwa [hc] at this

end Bands
end OSq

#print axioms OSq.Bands.puq_sandwich
#print axioms OSq.Bands.composeRot_general_band
#print axioms OSq.Bands.composeRot_all_inputs
#print axioms OSq.Bands.composeRot_total
#print axioms OSq.Bands.foldRot_all_inputs
#print axioms OSq.Bands.foldRot_identity_start
#print axioms OSq.Bands.foldRot_total
#print axioms OSq.Bands.mergeLoop_segment
#print axioms OSq.Bands.mergeLoop_segment_band
#print axioms OSq.Bands.filter_band_gen
#print axioms OSq.Bands.filter_identities_band_sharp
#print axioms OSq.Bands.filter_identities_band_phase0
