import OSq.Proofs.CheckIff
import Mathlib.Tactic.IntervalCases

/-
  OSq.Proofs.EqBands — **tolerance bands** for `equivPhase` (`common.are_matrices_equivalent_up_to_global_phase`),
  `check_gate_replacement` (C06) and `compare_gates` / `Gate.__eq__` (C16) at `α := ℝ`, for ALL inputs: no crisp
  hypothesis anywhere.  `OSq.Proofs.Equality` / `OSq.Proofs.CheckIff` give the iff-forms at the exact level; this file
  gives the two-sided envelope at the tolerance level:

      distance to "equal up to a phase"  ≤ atol/3 (pivot ≥ 4/3·atol)      ⇒ accepted   (even ≤ 2/5·atol, pivot ≥ 7/5·atol)
      no UNIT complex factor brings every entry within atol + 1e-5·|b_k|  ⇒ rejected

  and shows by explicit pairs that no single threshold in between is decided uniformly.
  (Model after the repair of the Python code: the measured phase is normalised, `ph = w/‖w‖`, `w = a_p/b_p`.)

  0. helpers (namespace `EqBands`)
  * `pivot_lt`, `pivot_max`       the arg-max of `a` is a valid index / dominates every entry
  * `unit_sub_sq_le`, `dir_sub_unit_le`   `‖w/‖w‖ − z‖ ≤ 2‖w − z‖/(‖w‖ + 1)` for a unit `z` (direction of a complex number)
  * `phase_err`                   `‖a_p − z·b_p‖ ≤ ε` ⇒ the measured phase is within `2ε/(‖a_p‖ + ‖b_p‖)` of `z`
  * `core_close`, `core_close_B`  the estimate `|a_k − ph·b_k| ≤ ε + 2ε/(|a_p|+|b_p|)·|b_k| ≤ atol`
  * `band_cond_of_old`, `band_cond_B_of_old`   the inequalities that were sufficient for the un-normalised estimate imply
                                  the new ones
  * `lift_rel_of_local`, `local_rel_of_lift`, `local_big_of_lift`   entrywise relations pass through the embedding `lift`
  * `dg x y` (the matrix `diag(x, y)`), `dgc u v` (complex diagonal), `gD x y` (the one-qubit matrix gate),
    `argmaxAbs_eq_zero`, `gateOp1_matrix`
  1. completeness with a gap (`a`, `b` of dimension `n > 0`, `‖z‖ = 1`, every entry `‖a_ij − z·b_ij‖ ≤ ε`,
     `a` has an entry of modulus `≥ m`)
  * `equivPhase_complete_band'`      `atol ≤ m − ε` and `ε·(4m + ε) ≤ atol·(2m − ε)` ⇒ accepted  (sharp form for the
                                     normalised phase; no bound on `b` needed)
  * `equivPhase_complete_band`       `atol ≤ m − ε` and `2·m·ε ≤ atol·(m − ε)` ⇒ accepted  (statement unchanged: the old
                                     inequality implies the new one)
  * `equivPhase_complete_band_B'`    the variant with `‖b_ij‖ ≤ B`: `ε·(2m − ε + 2B) ≤ atol·(2m − ε)` ⇒ accepted
  * `equivPhase_complete_band_B`     … `ε·(m − ε + B) ≤ atol·(m − ε)` ⇒ accepted (statement unchanged)
  * `equivPhase_complete_band_third` `atol ≤ 3/4·m`, `ε ≤ atol/3` ⇒ accepted (unchanged)
  * `equivPhase_complete_band_two_fifths`  `atol ≤ 5/7·m`, `ε ≤ 2/5·atol` ⇒ accepted (new: what the normalisation buys)
  * `equivPhase_complete_band_unit`  some entry of `a` of modulus `≥ 1/2`, `atol ≤ 3/8`, `ε ≤ atol/3` ⇒ accepted
                                     (in particular `atol ≤ 1/4`, `ε ≤ atol/5`; unchanged)
  2. soundness with explicit constants
  * `equivPhase_sound_band`          accepted, `‖b_ij‖ ≤ B` ⇒ `ph = pivotPhase a b` is a UNIT, both pivots `≥ atol`, and
                                     every entry is within `atol + 1e-5·B` of `ph·b_ij`
  3. gate level (`_reg`: entries of the operators on the whole `n`-qubit register, `gateOp`/`circOp`; otherwise entries
     of the two local matrices the code compares)
  * `checkGateReplacement_band_accepts(_reg)`   replacement on the gate's qubits and inside the band ⇒ `none` (accepted)
  * `checkGateReplacement_band_rejects(_reg)`   no UNIT `z` with all entries within `atol + 1e-5·‖z·entry‖` ⇒ not accepted;
    `checkGateReplacement_band_rejects_value`   … and the outcome is `ValueError` when the matrix sizes fit
  * `compareGatesWith_band_accepts(_reg)`, `compareGates_band_accepts(_reg)`      inside the band ⇒ `ok true`
  * `compareGatesWith_band_rejects(_reg)`, `compareGates_band_rejects(_reg)`      outside ⇒ not `ok true` / `ok false`
  * `gateEq_band_accepts_reg`, `gateEq_band_rejects_reg`   `Gate.__eq__` for every pair other than two plain rotations
    (two plain rotations use `bsrEq`, for which `bsrEq_iff` in `OSq.Proofs.Equality` is already an unconditional iff)
  4. sharpness (`diag` matrices)
  * `EqBands.sharp_accept` + `sharp_accept_far`   `I₂` vs `diag(1, 1−ε)`: accepted whenever `ε ≤ atol + 1e-5·(1−ε)`, although
                                     every unit `z` leaves an entry at distance `≥ ε`
  * `EqBands.sharp_reject` + `sharp_reject_near`  unit `u`: `I₂` vs `diag(u, ū)`: within `‖1 − u‖` of equal (`z = 1`), rejected
                                     as soon as `atol + 1e-5 < 2·|Im u|` (`≈ 2·‖1 − u‖`: a pivot error perpendicular to the
                                     pivot rotates the phase estimate and is doubled)
  * `EqBands.sharp_accept_modulus`   `I₂` vs `diag(1−ε, 1+ε)` (rejected before the repair for `2ε > atol(1−ε) + 1e-5(1+ε)`) is now
                                     accepted whenever `ε ≤ atol + 1e-5·(1−ε)`: a wrong modulus at the pivot is harmless
  * examples: `atol = 1/100`, distance `3/500 ∈ (atol/2, atol]`: one pair accepted, one rejected;
    `atol = 1e-7` (the value of `ATOL` in `common.py`), `ε = 1e-6 = 10·atol`: accepted.
  REMARK (finding): `np.allclose(…, atol=ATOL)` keeps numpy's default `rtol = 1e-5`, so for entries of modulus ≈ 1 the
  effective tolerance is `atol + 1e-5 ≈ 101·ATOL`; "differs by more than numerical tolerance ⇒ rejected" holds with
  that tolerance (the rejects-theorems), not with `ATOL`.
-/

namespace OSq
namespace EqBands

/-- the pivot (arg-max of `a`) is a valid flat index -/
theorem pivot_lt {n : Nat} (hn : 0 < n) (a : Mat ℝ) (ha : a.n = n) : argmaxAbs a < n * n := by
  have := (argmaxAbs_spec a (by omega)).1
  rwa [ha] at this

/-- the pivot entry dominates every stored entry -/
theorem pivot_max {n : Nat} (a : Mat ℝ) (ha : a.n = n) (k : Nat) (hk : k < n * n) :
    ‖a.flat k‖ ≤ ‖a.flat (argmaxAbs a)‖ := by
  have := argmaxAbs_max a k (by rw [ha]; exact hk)
  rwa [Mat.absAt_eq, Mat.absAt_eq] at this

/-- for unit `u`, `z` and real `p`: `(p+1)·‖u − z‖ ≤ 2·‖p·u − z‖` (squared; `2(p u − z) = (p+1)(u − z) + (p−1)(u + z)`
    and `u − z ⟂ u + z`) -/
theorem unit_sub_sq_le (u z : ℂ) (p : ℝ) (hu : ‖u‖ = 1) (hz : ‖z‖ = 1) :
    ((p + 1) * ‖u - z‖) ^ 2 ≤ (2 * ‖(p : ℂ) * u - z‖) ^ 2 := by
  have hu' : u.re * u.re + u.im * u.im = 1 := by
    have := Complex.normSq_eq_norm_sq u
    rw [hu, Complex.normSq_apply] at this
    linarith
  have hz' : z.re * z.re + z.im * z.im = 1 := by
    have := Complex.normSq_eq_norm_sq z
    rw [hz, Complex.normSq_apply] at this
    linarith
  rw [mul_pow, mul_pow, ← Complex.normSq_eq_norm_sq, ← Complex.normSq_eq_norm_sq, Complex.normSq_apply,
    Complex.normSq_apply]
  simp only [Complex.sub_re, Complex.sub_im, Complex.mul_re, Complex.mul_im, Complex.ofReal_re,
    Complex.ofReal_im, zero_mul, sub_zero, add_zero]
  have key : 2 ^ 2 * ((p * u.re - z.re) * (p * u.re - z.re) + (p * u.im - z.im) * (p * u.im - z.im))
      - (p + 1) ^ 2 * ((u.re - z.re) * (u.re - z.re) + (u.im - z.im) * (u.im - z.im))
      = (p - 1) ^ 2 * ((u.re + z.re) ^ 2 + (u.im + z.im) ^ 2)
        + 2 * (p ^ 2 - 1) * ((u.re * u.re + u.im * u.im) - (z.re * z.re + z.im * z.im)) := by ring
  rw [hu', hz', sub_self, mul_zero, add_zero] at key
  have : 0 ≤ (p - 1) ^ 2 * ((u.re + z.re) ^ 2 + (u.im + z.im) ^ 2) := by positivity
  linarith

/-- **the direction of a complex number near a unit**: `‖w/‖w‖ − z‖ ≤ 2‖w − z‖/(‖w‖ + 1)` for `‖z‖ = 1`, `w ≠ 0`
    (the sharp form of the Lipschitz estimate `sgn_sub_le` of `Bands5`: constant `2/(‖w‖+1) ≈ 1` instead of `2`) -/
theorem dir_sub_unit_le {w z : ℂ} (hw : w ≠ 0) (hz : ‖z‖ = 1) :
    ‖w / ((‖w‖ : ℝ) : ℂ) - z‖ ≤ 2 * ‖w - z‖ / (‖w‖ + 1) := by
  have hp : 0 < ‖w‖ := norm_pos_iff.mpr hw
  have hpc : ((‖w‖ : ℝ) : ℂ) ≠ 0 := by exact_mod_cast hp.ne'
  have hu : ‖w / ((‖w‖ : ℝ) : ℂ)‖ = 1 := norm_div_norm_self hw
  have hsq := unit_sub_sq_le (w / ((‖w‖ : ℝ) : ℂ)) z ‖w‖ hu hz
  rw [mul_div_cancel₀ _ hpc] at hsq
  have h := (abs_le_of_sq_le_sq' hsq (by positivity)).2
  rw [le_div_iff₀ (by linarith)]
  linarith

/-- **error of the measured (normalised) phase**: if the pivot entries satisfy `‖a_p − z·b_p‖ ≤ ε` for a unit `z`, the
    phase `ph = w/‖w‖`, `w = a_p/b_p`, which `equivPhase` uses is within `2ε/(‖a_p‖ + ‖b_p‖)` of `z`. -/
theorem phase_err {z ap bp : ℂ} {ε : ℝ} (hz : ‖z‖ = 1) (hap : ap ≠ 0) (hbp : bp ≠ 0) (hp : ‖ap - z * bp‖ ≤ ε) :
    ‖ap / bp / ((‖ap / bp‖ : ℝ) : ℂ) - z‖ ≤ 2 * ε / (‖ap‖ + ‖bp‖) := by
  have hP : 0 < ‖ap‖ := norm_pos_iff.mpr hap
  have hQ : 0 < ‖bp‖ := norm_pos_iff.mpr hbp
  refine le_trans (dir_sub_unit_le (div_ne_zero hap hbp) hz) ?_
  have e1 : ap / bp - z = (ap - z * bp) / bp := by field_simp
  rw [e1, norm_div, norm_div]
  have e2 : 2 * (‖ap - z * bp‖ / ‖bp‖) / (‖ap‖ / ‖bp‖ + 1) = 2 * ‖ap - z * bp‖ / (‖ap‖ + ‖bp‖) := by
    field_simp
  rw [e2]
  exact div_le_div_of_nonneg_right (by linarith) (by linarith)

/-- **core estimate** (normalised phase): `z` unit, pivot and `k`-th entries within `ε` of `z·b`, `|a_k| ≤ |a_p|`,
    `|a_p| ≥ m`, `atol ≤ m − ε`, `ε·(4m + ε) ≤ atol·(2m − ε)`; then with the *measured* phase `ph = w/‖w‖`,
    `w = a_p/b_p`, the `k`-th entry is within `atol`.
    (`|ph − z| ≤ 2ε/(|a_p| + |b_p|)`, `|b_k| ≤ |a_p| + ε`, `|b_p| ≥ |a_p| − ε`.) -/
theorem core_close {ε atol m : ℝ} {z ap bp ak bk : ℂ} (hz : ‖z‖ = 1) (hε : 0 ≤ ε)
    (hp : ‖ap - z * bp‖ ≤ ε) (hk : ‖ak - z * bk‖ ≤ ε) (hmax : ‖ak‖ ≤ ‖ap‖) (hm : m ≤ ‖ap‖)
    (hat : 0 < atol) (h1 : atol ≤ m - ε) (h2 : ε * (4 * m + ε) ≤ atol * (2 * m - ε)) :
    ‖ak - ap / bp / ((‖ap / bp‖ : ℝ) : ℂ) * bk‖ ≤ atol := by
  have h4 := norm_sub_norm_le ap (z * bp)
  rw [norm_mul, hz, one_mul] at h4
  have hQ : ‖ap‖ - ε ≤ ‖bp‖ := by linarith
  have hβpos : 0 < ‖bp‖ := by linarith
  have hPpos : 0 < ‖ap‖ := by linarith
  have hbp : bp ≠ 0 := norm_pos_iff.mp hβpos
  have hap : ap ≠ 0 := norm_pos_iff.mp hPpos
  have hbk : ‖bk‖ ≤ ‖ap‖ + ε := by
    have h3 := norm_sub_norm_le (z * bk) ak
    rw [norm_mul, hz, one_mul, norm_sub_rev] at h3
    linarith
  have hmpos : 0 < m := by linarith
  have h2ε : 0 ≤ atol - 2 * ε := by
    by_contra hcon
    have hcon := not_le.mp hcon
    nlinarith [mul_nonneg hε hε, mul_nonneg hε hat.le]
  have hph := phase_err hz hap hbp hp
  set ph := ap / bp / ((‖ap / bp‖ : ℝ) : ℂ) with hphdef
  have hid : ak - ph * bk = (ak - z * bk) - (ph - z) * bk := by ring
  rw [hid]
  have hsum : 0 < ‖ap‖ + ‖bp‖ := by linarith
  have hq : ‖(ph - z) * bk‖ ≤ 2 * ε / (‖ap‖ + ‖bp‖) * (‖ap‖ + ε) := by
    rw [norm_mul]
    exact mul_le_mul hph hbk (norm_nonneg _) (by positivity)
  have hfin : 2 * ε / (‖ap‖ + ‖bp‖) * (‖ap‖ + ε) ≤ atol - ε := by
    rw [div_mul_eq_mul_div, div_le_iff₀ hsum]
    have e1 : 0 ≤ (atol - ε) * (‖bp‖ - (‖ap‖ - ε)) := mul_nonneg (by linarith) (by linarith)
    have e2 : 0 ≤ (atol - 2 * ε) * (‖ap‖ - m) := mul_nonneg h2ε (by linarith)
    nlinarith
  calc ‖(ak - z * bk) - (ph - z) * bk‖
      ≤ ‖ak - z * bk‖ + ‖(ph - z) * bk‖ := norm_sub_le _ _
    _ ≤ ε + (atol - ε) := add_le_add hk (le_trans hq hfin)
    _ = atol := by ring

/-- variant of the core estimate with an explicit bound `B` on the entries of `b`:
    `ε·(2m − ε + 2B) ≤ atol·(2m − ε)` -/
theorem core_close_B {ε atol m B : ℝ} {z ap bp ak bk : ℂ} (hz : ‖z‖ = 1) (hε : 0 ≤ ε)
    (hp : ‖ap - z * bp‖ ≤ ε) (hk : ‖ak - z * bk‖ ≤ ε) (hm : m ≤ ‖ap‖) (hB : ‖bk‖ ≤ B)
    (hat : 0 < atol) (h1 : atol ≤ m - ε) (h2 : ε * (2 * m - ε + 2 * B) ≤ atol * (2 * m - ε)) :
    ‖ak - ap / bp / ((‖ap / bp‖ : ℝ) : ℂ) * bk‖ ≤ atol := by
  have h4 := norm_sub_norm_le ap (z * bp)
  rw [norm_mul, hz, one_mul] at h4
  have hQ : ‖ap‖ - ε ≤ ‖bp‖ := by linarith
  have hβpos : 0 < ‖bp‖ := by linarith
  have hPpos : 0 < ‖ap‖ := by linarith
  have hbp : bp ≠ 0 := norm_pos_iff.mp hβpos
  have hap : ap ≠ 0 := norm_pos_iff.mp hPpos
  have hB0 : 0 ≤ B := le_trans (norm_nonneg _) hB
  have hmε : 0 < 2 * m - ε := by linarith
  have hεa : 0 ≤ atol - ε := by
    by_contra hcon
    have hcon := not_le.mp hcon
    nlinarith [mul_nonneg hε hB0]
  have hph := phase_err hz hap hbp hp
  set ph := ap / bp / ((‖ap / bp‖ : ℝ) : ℂ) with hphdef
  have hid : ak - ph * bk = (ak - z * bk) - (ph - z) * bk := by ring
  rw [hid]
  have hsum : 0 < ‖ap‖ + ‖bp‖ := by linarith
  have hq : ‖(ph - z) * bk‖ ≤ 2 * ε / (‖ap‖ + ‖bp‖) * B := by
    rw [norm_mul]
    exact mul_le_mul hph hB (norm_nonneg _) (by positivity)
  have hfin : 2 * ε / (‖ap‖ + ‖bp‖) * B ≤ atol - ε := by
    rw [div_mul_eq_mul_div, div_le_iff₀ hsum]
    have e1 : 0 ≤ (atol - ε) * (‖ap‖ + ‖bp‖ - (2 * m - ε)) := mul_nonneg hεa (by linarith)
    nlinarith
  calc ‖(ak - z * bk) - (ph - z) * bk‖
      ≤ ‖ak - z * bk‖ + ‖(ph - z) * bk‖ := norm_sub_le _ _
    _ ≤ ε + (atol - ε) := add_le_add hk (le_trans hq hfin)
    _ = atol := by ring

/-- flat-index form of the hypotheses used below -/
theorem flat_of_get {n : Nat} (hn : 0 < n) {a b : Mat ℝ} (ha : a.n = n) (hb : b.n = n)
    {P : ℂ → ℂ → Prop} (h : ∀ i j, i < n → j < n → P (a.get i j).toC (b.get i j).toC) (k : Nat)
    (hk : k < n * n) : P (a.flat k) (b.flat k) := by
  rw [Mat.flat_eq_get a ha, Mat.flat_eq_get b hb]
  exact h _ _ ((Nat.div_lt_iff_lt_mul hn).mpr hk) (Nat.mod_lt _ hn)

/-- flat form of band completeness -/
theorem complete_band_flat (atol ε m : ℝ) (hatol : 0 < atol) (hε : 0 ≤ ε) (n : Nat) (hn : 0 < n)
    (a b : Mat ℝ) (ha : a.n = n) (z : ℂ) (hz : ‖z‖ = 1)
    (hclose : ∀ k, k < n * n → ‖a.flat k - z * b.flat k‖ ≤ ε)
    (hbig : ∃ k, k < n * n ∧ m ≤ ‖a.flat k‖)
    (h1 : atol ≤ m - ε) (h2 : ε * (4 * m + ε) ≤ atol * (2 * m - ε)) :
    equivPhase atol a b = true := by
  have hl := pivot_lt hn a ha
  have hm : m ≤ ‖a.flat (argmaxAbs a)‖ := by
    obtain ⟨k, hk, hle⟩ := hbig
    exact le_trans hle (pivot_max a ha k hk)
  have hp := hclose _ hl
  have h4 := norm_sub_norm_le (a.flat (argmaxAbs a)) (z * b.flat (argmaxAbs a))
  rw [norm_mul, hz, one_mul] at h4
  rw [equivPhase_iff]
  refine ⟨not_lt.mpr (by linarith), not_lt.mpr (by linarith), ?_⟩
  intro k hk
  rw [ha] at hk
  have : ‖a.flat k - pivotPhase a b * b.flat k‖ ≤ atol :=
    core_close hz hε hp (hclose k hk) (pivot_max a ha k hk) hm hatol h1 h2
  have h0 : (0 : ℝ) ≤ 1e-5 * ‖pivotPhase a b * b.flat k‖ :=
    mul_nonneg rtol_real_nonneg (norm_nonneg _)
  linarith

theorem complete_band_flat_B (atol ε m B : ℝ) (hatol : 0 < atol) (hε : 0 ≤ ε) (n : Nat) (hn : 0 < n)
    (a b : Mat ℝ) (ha : a.n = n) (z : ℂ) (hz : ‖z‖ = 1)
    (hclose : ∀ k, k < n * n → ‖a.flat k - z * b.flat k‖ ≤ ε)
    (hbig : ∃ k, k < n * n ∧ m ≤ ‖a.flat k‖) (hB : ∀ k, k < n * n → ‖b.flat k‖ ≤ B)
    (h1 : atol ≤ m - ε) (h2 : ε * (2 * m - ε + 2 * B) ≤ atol * (2 * m - ε)) :
    equivPhase atol a b = true := by
  have hl := pivot_lt hn a ha
  have hm : m ≤ ‖a.flat (argmaxAbs a)‖ := by
    obtain ⟨k, hk, hle⟩ := hbig
    exact le_trans hle (pivot_max a ha k hk)
  have hp := hclose _ hl
  have h4 := norm_sub_norm_le (a.flat (argmaxAbs a)) (z * b.flat (argmaxAbs a))
  rw [norm_mul, hz, one_mul] at h4
  rw [equivPhase_iff]
  refine ⟨not_lt.mpr (by linarith), not_lt.mpr (by linarith), ?_⟩
  intro k hk
  rw [ha] at hk
  have : ‖a.flat k - pivotPhase a b * b.flat k‖ ≤ atol :=
    core_close_B hz hε hp (hclose k hk) hm (hB k hk) hatol h1 h2
  have h0 : (0 : ℝ) ≤ 1e-5 * ‖pivotPhase a b * b.flat k‖ :=
    mul_nonneg rtol_real_nonneg (norm_nonneg _)
  linarith

/-- the sufficient inequality of the un-normalised phase estimate implies the one of the normalised estimate -/
theorem band_cond_of_old {atol ε m : ℝ} (hatol : 0 < atol) (hε : 0 ≤ ε) (h1 : atol ≤ m - ε)
    (h2 : 2 * m * ε ≤ atol * (m - ε)) : ε * (4 * m + ε) ≤ atol * (2 * m - ε) := by
  have hm : 0 < m := by linarith
  have hεa : ε ≤ atol := by
    have : m * (2 * ε) ≤ m * atol := by nlinarith
    have := le_of_mul_le_mul_left this hm
    linarith
  nlinarith [mul_nonneg hε (sub_nonneg.mpr hεa)]

theorem band_cond_B_of_old {atol ε m B : ℝ} (hatol : 0 < atol) (hε : 0 ≤ ε) (hB : 0 ≤ B) (h1 : atol ≤ m - ε)
    (h2 : ε * (m - ε + B) ≤ atol * (m - ε)) : ε * (2 * m - ε + 2 * B) ≤ atol * (2 * m - ε) := by
  have hmε : 0 < m - ε := by linarith
  have hεa : ε ≤ atol := by
    have : (m - ε) * ε ≤ (m - ε) * atol := by nlinarith [mul_nonneg hε hB]
    exact le_of_mul_le_mul_left this hmε
  nlinarith [mul_nonneg hε (sub_nonneg.mpr hεa)]

end EqBands

/-! ## 1. Completeness with a gap -/

/-- **Completeness with a gap, normalised phase (sharp form).**  `a`, `b` of dimension `n > 0`.  If for some unit complex
    `z` every entry satisfies `‖a_ij − z·b_ij‖ ≤ ε`, `a` has an entry of modulus `≥ m`, the pivot tests have room
    (`atol ≤ m − ε`) and `ε·(4m + ε) ≤ atol·(2m − ε)` (i.e. `ε·(1 + 2(m+ε)/(2m−ε)) ≤ atol`), then
    `equivPhase atol a b = true`.  No bound on the entries of `b` is needed: `|b_k| ≤ |a_k| + ε ≤ |a_pivot| + ε`. -/
theorem equivPhase_complete_band' (atol ε m : ℝ) (hatol : 0 < atol) (hε : 0 ≤ ε) (n : Nat) (hn : 0 < n)
    (a b : Mat ℝ) (ha : a.n = n) (hb : b.n = n) (z : ℂ) (hz : ‖z‖ = 1)
    (hclose : ∀ i j, i < n → j < n → ‖(a.get i j).toC - z * (b.get i j).toC‖ ≤ ε)
    (hbig : ∃ i j, i < n ∧ j < n ∧ m ≤ ‖(a.get i j).toC‖)
    (h1 : atol ≤ m - ε) (h2 : ε * (4 * m + ε) ≤ atol * (2 * m - ε)) :
    equivPhase atol a b = true := by
  apply EqBands.complete_band_flat atol ε m hatol hε n hn a b ha z hz _ _ h1 h2
  · exact EqBands.flat_of_get hn ha hb (P := fun x y => ‖x - z * y‖ ≤ ε) hclose
  · obtain ⟨i, j, hi, hj, h⟩ := hbig
    exact ⟨i * n + j, Mat.index_lt hi hj, by rwa [← Mat.get_eq_flat a ha]⟩

/-- **Completeness with a gap** under the inequality that was sufficient for the un-normalised phase estimate
    (`2·m·ε ≤ atol·(m − ε)`): it implies the sharper condition of `equivPhase_complete_band'`, so the statement and its
    constants are unchanged by the normalisation of the phase. -/
theorem equivPhase_complete_band (atol ε m : ℝ) (hatol : 0 < atol) (hε : 0 ≤ ε) (n : Nat) (hn : 0 < n)
    (a b : Mat ℝ) (ha : a.n = n) (hb : b.n = n) (z : ℂ) (hz : ‖z‖ = 1)
    (hclose : ∀ i j, i < n → j < n → ‖(a.get i j).toC - z * (b.get i j).toC‖ ≤ ε)
    (hbig : ∃ i j, i < n ∧ j < n ∧ m ≤ ‖(a.get i j).toC‖)
    (h1 : atol ≤ m - ε) (h2 : 2 * m * ε ≤ atol * (m - ε)) :
    equivPhase atol a b = true :=
  equivPhase_complete_band' atol ε m hatol hε n hn a b ha hb z hz hclose hbig h1
    (EqBands.band_cond_of_old hatol hε h1 h2)

/-- variant with an explicit bound `B` on the moduli of the entries of `b`, normalised phase (sharp form):
    `ε·(2m − ε + 2B) ≤ atol·(2m − ε)` -/
theorem equivPhase_complete_band_B' (atol ε m B : ℝ) (hatol : 0 < atol) (hε : 0 ≤ ε) (n : Nat) (hn : 0 < n)
    (a b : Mat ℝ) (ha : a.n = n) (hb : b.n = n) (z : ℂ) (hz : ‖z‖ = 1)
    (hclose : ∀ i j, i < n → j < n → ‖(a.get i j).toC - z * (b.get i j).toC‖ ≤ ε)
    (hbig : ∃ i j, i < n ∧ j < n ∧ m ≤ ‖(a.get i j).toC‖)
    (hB : ∀ i j, i < n → j < n → ‖(b.get i j).toC‖ ≤ B)
    (h1 : atol ≤ m - ε) (h2 : ε * (2 * m - ε + 2 * B) ≤ atol * (2 * m - ε)) :
    equivPhase atol a b = true := by
  apply EqBands.complete_band_flat_B atol ε m B hatol hε n hn a b ha z hz _ _ _ h1 h2
  · exact EqBands.flat_of_get hn ha hb (P := fun x y => ‖x - z * y‖ ≤ ε) hclose
  · obtain ⟨i, j, hi, hj, h⟩ := hbig
    exact ⟨i * n + j, Mat.index_lt hi hj, by rwa [← Mat.get_eq_flat a ha]⟩
  · exact EqBands.flat_of_get hn hb hb (P := fun _ y => ‖y‖ ≤ B) hB

/-- … and under the old inequality `ε·(m − ε + B) ≤ atol·(m − ε)` (unchanged statement) -/
theorem equivPhase_complete_band_B (atol ε m B : ℝ) (hatol : 0 < atol) (hε : 0 ≤ ε) (n : Nat) (hn : 0 < n)
    (a b : Mat ℝ) (ha : a.n = n) (hb : b.n = n) (z : ℂ) (hz : ‖z‖ = 1)
    (hclose : ∀ i j, i < n → j < n → ‖(a.get i j).toC - z * (b.get i j).toC‖ ≤ ε)
    (hbig : ∃ i j, i < n ∧ j < n ∧ m ≤ ‖(a.get i j).toC‖)
    (hB : ∀ i j, i < n → j < n → ‖(b.get i j).toC‖ ≤ B)
    (h1 : atol ≤ m - ε) (h2 : ε * (m - ε + B) ≤ atol * (m - ε)) :
    equivPhase atol a b = true := by
  have hB0 : 0 ≤ B := by
    obtain ⟨i, j, hi, hj, -⟩ := hbig
    exact le_trans (norm_nonneg _) (hB i j hi hj)
  exact equivPhase_complete_band_B' atol ε m B hatol hε n hn a b ha hb z hz hclose hbig hB h1
    (EqBands.band_cond_B_of_old hatol hε hB0 h1 h2)

/-- **one third of the tolerance is always accepted**: `atol ≤ 3/4·m` (`m` = a lower bound of the largest modulus
    in `a`) and `ε ≤ atol/3`. -/
theorem equivPhase_complete_band_third (atol ε m : ℝ) (hatol : 0 < atol) (hε : 0 ≤ ε) (n : Nat) (hn : 0 < n)
    (a b : Mat ℝ) (ha : a.n = n) (hb : b.n = n) (z : ℂ) (hz : ‖z‖ = 1)
    (hclose : ∀ i j, i < n → j < n → ‖(a.get i j).toC - z * (b.get i j).toC‖ ≤ ε)
    (hbig : ∃ i j, i < n ∧ j < n ∧ m ≤ ‖(a.get i j).toC‖)
    (h1 : atol ≤ 3 / 4 * m) (h2 : ε ≤ atol / 3) :
    equivPhase atol a b = true := by
  apply equivPhase_complete_band atol ε m hatol hε n hn a b ha hb z hz hclose hbig
  · linarith
  · nlinarith

/-- with the normalised phase even `ε ≤ 2/5·atol` is always accepted (`atol ≤ 5/7·m`): the sharper constant the
    normalisation buys -/
theorem equivPhase_complete_band_two_fifths (atol ε m : ℝ) (hatol : 0 < atol) (hε : 0 ≤ ε) (n : Nat) (hn : 0 < n)
    (a b : Mat ℝ) (ha : a.n = n) (hb : b.n = n) (z : ℂ) (hz : ‖z‖ = 1)
    (hclose : ∀ i j, i < n → j < n → ‖(a.get i j).toC - z * (b.get i j).toC‖ ≤ ε)
    (hbig : ∃ i j, i < n ∧ j < n ∧ m ≤ ‖(a.get i j).toC‖)
    (h1 : atol ≤ 5 / 7 * m) (h2 : ε ≤ 2 / 5 * atol) :
    equivPhase atol a b = true := by
  apply equivPhase_complete_band' atol ε m hatol hε n hn a b ha hb z hz hclose hbig
  · linarith
  · nlinarith

/-- corollary for matrices having an entry of modulus `≥ 1/2` (every unitary on at most two qubits): `atol ≤ 3/8`
    and `ε ≤ atol/3` — in particular `atol ≤ 1/4`, `ε ≤ atol/5`. -/
theorem equivPhase_complete_band_unit (atol ε : ℝ) (hatol : 0 < atol) (hε : 0 ≤ ε) (n : Nat) (hn : 0 < n)
    (a b : Mat ℝ) (ha : a.n = n) (hb : b.n = n) (z : ℂ) (hz : ‖z‖ = 1)
    (hclose : ∀ i j, i < n → j < n → ‖(a.get i j).toC - z * (b.get i j).toC‖ ≤ ε)
    (hbig : ∃ i j, i < n ∧ j < n ∧ 1 / 2 ≤ ‖(a.get i j).toC‖)
    (h1 : atol ≤ 3 / 8) (h2 : ε ≤ atol / 3) :
    equivPhase atol a b = true :=
  equivPhase_complete_band_third atol ε (1 / 2) hatol hε n hn a b ha hb z hz hclose hbig (by linarith)
    (by linarith)

/-! ## 2. Soundness with explicit constants -/

/-- **Soundness with explicit constants.**  If the test accepts and the entries of `b` have modulus `≤ B`, then the
    measured phase `ph = pivotPhase a b` is a **unit** (`‖ph‖ = 1`; both pivots `≥ atol`) and every entry of `a` is
    within `atol + 1e-5·B` of `ph·b_ij`.  (Before the repair of the Python code `‖ph‖ = 1` was not implied — `a = 2·b`
    was accepted — and the bound read `atol + 1e-5·‖ph‖·B`.) -/
theorem equivPhase_sound_band (atol B : ℝ) (hatol : 0 < atol) (n : Nat) (a b : Mat ℝ) (ha : a.n = n)
    (hb : b.n = n) (hB : ∀ i j, i < n → j < n → ‖(b.get i j).toC‖ ≤ B)
    (h : equivPhase atol a b = true) :
    ∃ ph : ℂ, ‖ph‖ = 1 ∧ ph = pivotPhase a b ∧
      atol ≤ ‖a.flat (argmaxAbs a)‖ ∧ atol ≤ ‖b.flat (argmaxAbs a)‖ ∧
      ∀ i j, i < n → j < n →
        ‖(a.get i j).toC - ph * (b.get i j).toC‖ ≤ atol + 1e-5 * B := by
  obtain ⟨ph, hph, hdef, h1, h2, H⟩ := equivPhase_sound_unit atol hatol a b h
  refine ⟨ph, hph, hdef, h1, h2, ?_⟩
  intro i j hi hj
  have := H (i * n + j) (by rw [ha]; exact Mat.index_lt hi hj)
  rw [← Mat.get_eq_flat a ha, ← Mat.get_eq_flat b hb] at this
  have hb' := hB i j hi hj
  have : 1e-5 * ‖(b.get i j).toC‖ ≤ 1e-5 * B := mul_le_mul_of_nonneg_left hb' rtol_real_nonneg
  linarith

/-! ## 3. Gate level -/

namespace EqBands

section liftP
variable {n k : Nat} (idx : List Nat) (hk : idx.length = k)

/-- an entrywise relation between two local operators (true of `0, 0`) holds between their lifts -/
theorem lift_rel_of_local {P : ℂ → ℂ → Prop} (h0 : P 0 0) (A B : Op k) (h : ∀ i j, P (A i j) (B i j))
    (r c : Fin (2 ^ n)) : P ((lift idx hk A : Op n) r c) ((lift idx hk B : Op n) r c) := by
  rw [lift_apply, lift_apply]
  split
  · exact h _ _
  · exact h0

/-- an entrywise relation between two lifts holds between the local operators -/
theorem local_rel_of_lift (hnd : idx.Nodup) (hlt : ∀ q ∈ idx, q < n) {P : ℂ → ℂ → Prop} (A B : Op k)
    (h : ∀ r c : Fin (2 ^ n), P ((lift idx hk A : Op n) r c) ((lift idx hk B : Op n) r c))
    (i j : Fin (2 ^ k)) : P (A i j) (B i j) := by
  have := h (ketAt idx hlt i) (ketAt idx hlt j)
  rwa [lift_ketAt idx hk hnd hlt, lift_ketAt idx hk hnd hlt] at this

/-- a non-zero entry of a lift is an entry of the local operator -/
theorem local_big_of_lift {m : ℝ} (hm : 0 < m) (A : Op k) (h : ∃ r c : Fin (2 ^ n), m ≤ ‖(lift idx hk A : Op n) r c‖) :
    ∃ i j : Fin (2 ^ k), m ≤ ‖A i j‖ := by
  obtain ⟨r, c, hrc⟩ := h
  rw [lift_apply] at hrc
  split at hrc
  · exact ⟨_, _, hrc⟩
  · rw [norm_zero] at hrc; linarith

end liftP

/-- the verdict of `check_gate_replacement` once both local matrices are at hand -/
theorem check_of_equiv {atol : ℝ} {g : Gate ℝ} {gs : List (Gate ℝ)}
    (hloc : ∀ r ∈ gs, ∀ q ∈ r.operands, q ∈ g.operands) {A B : Mat ℝ}
    (hA : localMatrix g.operands [g] = .ok A) (hB : localMatrix g.operands gs = .ok B) :
    (equivPhase atol A B = true → checkGateReplacement atol g gs = none) ∧
    (equivPhase atol A B = false → checkGateReplacement atol g gs = some .value) := by
  rw [checkGateReplacement_local atol g gs hloc hA hB]
  constructor
  · intro h; rw [h]; rfl
  · intro h; rw [h]; rfl

end EqBands

/-- **`check_gate_replacement` accepts everything inside the band** (local matrices). -/
theorem checkGateReplacement_band_accepts (atol ε m : ℝ) (hatol : 0 < atol) (hε : 0 ≤ ε) (g : Gate ℝ)
    (gs : List (Gate ℝ)) (hloc : ∀ r ∈ gs, ∀ q ∈ r.operands, q ∈ g.operands) {A B : Mat ℝ}
    (hA : localMatrix g.operands [g] = .ok A) (hB : localMatrix g.operands gs = .ok B)
    (z : ℂ) (hz : ‖z‖ = 1)
    (hclose : ∀ i j, i < 2 ^ g.operands.length → j < 2 ^ g.operands.length →
      ‖(A.get i j).toC - z * (B.get i j).toC‖ ≤ ε)
    (hbig : ∃ i j, i < 2 ^ g.operands.length ∧ j < 2 ^ g.operands.length ∧ m ≤ ‖(A.get i j).toC‖)
    (h1 : atol ≤ m - ε) (h2 : 2 * m * ε ≤ atol * (m - ε)) :
    checkGateReplacement atol g gs = none :=
  (EqBands.check_of_equiv hloc hA hB).1
    (equivPhase_complete_band atol ε m hatol hε _ (Nat.two_pow_pos _) A B (localMatrix_dim hA).1
      (localMatrix_dim hB).1 z hz hclose hbig h1 h2)

/-- **… register level.** -/
theorem checkGateReplacement_band_accepts_reg (atol ε m : ℝ) (hatol : 0 < atol) (hε : 0 ≤ ε) (n : Nat)
    (g : Gate ℝ) (gs : List (Gate ℝ)) (hwf : GateWF n g) (hd : g.dimOk) (hds : ∀ r ∈ gs, r.dimOk)
    (hloc : ∀ r ∈ gs, ∀ q ∈ r.operands, q ∈ g.operands) (z : ℂ) (hz : ‖z‖ = 1)
    (hclose : ∀ r c : Fin (2 ^ n), ‖gateOp n g r c - z * circOp n (gateStmts gs) [] r c‖ ≤ ε)
    (hbig : ∃ r c, m ≤ ‖gateOp n g r c‖)
    (h1 : atol ≤ m - ε) (h2 : 2 * m * ε ≤ atol * (m - ε)) :
    checkGateReplacement atol g gs = none := by
  obtain ⟨A, hA⟩ := (localMatrix_single_ok_iff g.operands g).mpr ⟨fun q hq => hq, hd⟩
  obtain ⟨B, hB⟩ := localMatrix_list_ok_of g.operands gs (fun r hr => ⟨hloc r hr, hds r hr⟩)
  have hgA := gateOp_eq_lift_local hwf hA
  have hgB := localMatrix_lift (n := n) g.operands hwf.1 hwf.2 hB []
  have hndN := nodup_map_toNat (n := n) g.operands hwf.1 hwf.2
  have hltN := map_toNat_lt (n := n) g.operands hwf.2
  rw [hgA, ← hgB] at hclose
  rw [hgA] at hbig
  have hloc' := EqBands.local_rel_of_lift _ _ hndN hltN (P := fun x y => ‖x - z * y‖ ≤ ε) _ _ hclose
  obtain ⟨i, j, hij⟩ := EqBands.local_big_of_lift _ _ (by linarith : 0 < m) _ hbig
  exact checkGateReplacement_band_accepts atol ε m hatol hε g gs hloc hA hB z hz
    (fun i j hi hj => hloc' ⟨i, hi⟩ ⟨j, hj⟩) ⟨i.val, j.val, i.isLt, j.isLt, hij⟩ h1 h2

/-- **`check_gate_replacement` rejects everything outside the band** (local matrices). -/
theorem checkGateReplacement_band_rejects (atol : ℝ) (hatol : 0 < atol) (g : Gate ℝ) (gs : List (Gate ℝ))
    (hfar : ∀ A B, localMatrix g.operands [g] = .ok A → localMatrix g.operands gs = .ok B →
      ¬ ∃ z : ℂ, ‖z‖ = 1 ∧ ∀ i j, i < 2 ^ g.operands.length → j < 2 ^ g.operands.length →
        ‖(A.get i j).toC - z * (B.get i j).toC‖ ≤ atol + 1e-5 * ‖z * (B.get i j).toC‖) :
    checkGateReplacement atol g gs ≠ none := by
  intro h
  obtain ⟨-, A, B, hA, hB, heq⟩ := checkGateReplacement_none_local atol g gs h
  exact hfar A B hA hB
    (equivPhase_sound_get atol hatol _ A B (localMatrix_dim hA).1 (localMatrix_dim hB).1 heq)

/-- **… register level.** -/
theorem checkGateReplacement_band_rejects_reg (atol : ℝ) (hatol : 0 < atol) (n : Nat) (g : Gate ℝ)
    (gs : List (Gate ℝ)) (hwf : GateWF n g)
    (hfar : ¬ ∃ z : ℂ, ‖z‖ = 1 ∧ ∀ r c : Fin (2 ^ n),
      ‖gateOp n g r c - z * circOp n (gateStmts gs) [] r c‖
        ≤ atol + 1e-5 * ‖z * circOp n (gateStmts gs) [] r c‖) :
    checkGateReplacement atol g gs ≠ none := by
  apply checkGateReplacement_band_rejects atol hatol g gs
  rintro A B hA hB ⟨z, hz, H⟩
  apply hfar
  refine ⟨z, hz, ?_⟩
  rw [gateOp_eq_lift_local hwf hA, ← localMatrix_lift (n := n) g.operands hwf.1 hwf.2 hB []]
  apply EqBands.lift_rel_of_local _ _ (P := fun x y => ‖x - z * y‖ ≤ atol + 1e-5 * ‖z * y‖)
  · simp only [mul_zero, sub_zero, norm_zero]
    linarith
  · intro i j
    exact H i.val j.val i.isLt j.isLt

/-- … and the rejection is a `ValueError` when all matrix sizes fit -/
theorem checkGateReplacement_band_rejects_value (atol : ℝ) (hatol : 0 < atol) (n : Nat) (g : Gate ℝ)
    (gs : List (Gate ℝ)) (hwf : GateWF n g) (hd : g.dimOk) (hds : ∀ r ∈ gs, r.dimOk)
    (hfar : ¬ ∃ z : ℂ, ‖z‖ = 1 ∧ ∀ r c : Fin (2 ^ n),
      ‖gateOp n g r c - z * circOp n (gateStmts gs) [] r c‖
        ≤ atol + 1e-5 * ‖z * circOp n (gateStmts gs) [] r c‖) :
    checkGateReplacement atol g gs = some .value := by
  have hne := checkGateReplacement_band_rejects_reg atol hatol n g gs hwf hfar
  by_cases hloc : ∀ r ∈ gs, ∀ q ∈ r.operands, q ∈ g.operands
  · obtain ⟨A, hA⟩ := (localMatrix_single_ok_iff g.operands g).mpr ⟨fun q hq => hq, hd⟩
    obtain ⟨B, hB⟩ := localMatrix_list_ok_of g.operands gs (fun r hr => ⟨hloc r hr, hds r hr⟩)
    cases he : equivPhase atol A B with
    | true => exact absurd ((EqBands.check_of_equiv hloc hA hB).1 he) hne
    | false => exact (EqBands.check_of_equiv hloc hA hB).2 he
  · have hex : ∃ r ∈ gs, ∃ q ∈ r.operands, q ∉ g.operands := by
      by_contra hcon
      apply hloc
      intro r hr q hq
      by_contra hq'
      exact hcon ⟨r, hr, q, hq, hq'⟩
    exact checkGateReplacement_foreign atol g gs hex

/-! ### `compare_gates` / `Gate.__eq__` -/

/-- **`compare_gates` (any enumeration) accepts everything inside the band** (local matrices). -/
theorem compareGatesWith_band_accepts (atol ε m : ℝ) (hatol : 0 < atol) (hε : 0 ≤ ε) (idx : List Int)
    (g1 g2 : Gate ℝ) {A B : Mat ℝ} (hA : localMatrix idx [g1] = .ok A) (hB : localMatrix idx [g2] = .ok B)
    (z : ℂ) (hz : ‖z‖ = 1)
    (hclose : ∀ i j, i < 2 ^ idx.length → j < 2 ^ idx.length →
      ‖(A.get i j).toC - z * (B.get i j).toC‖ ≤ ε)
    (hbig : ∃ i j, i < 2 ^ idx.length ∧ j < 2 ^ idx.length ∧ m ≤ ‖(A.get i j).toC‖)
    (h1 : atol ≤ m - ε) (h2 : 2 * m * ε ≤ atol * (m - ε)) :
    compareGatesWith atol idx g1 g2 = .ok true := by
  rw [compareGatesWith_eq atol idx g1 g2 hA hB,
    equivPhase_complete_band atol ε m hatol hε _ (Nat.two_pow_pos _) A B (localMatrix_dim hA).1
      (localMatrix_dim hB).1 z hz hclose hbig h1 h2]

/-- the same for `compare_gates` itself (union enumerated in first-occurrence order) -/
theorem compareGates_band_accepts (atol ε m : ℝ) (hatol : 0 < atol) (hε : 0 ≤ ε) (g1 g2 : Gate ℝ)
    {A B : Mat ℝ} (hA : localMatrix (dedup (g1.operands ++ g2.operands)) [g1] = .ok A)
    (hB : localMatrix (dedup (g1.operands ++ g2.operands)) [g2] = .ok B) (z : ℂ) (hz : ‖z‖ = 1)
    (hclose : ∀ i j, i < 2 ^ (dedup (g1.operands ++ g2.operands)).length →
      j < 2 ^ (dedup (g1.operands ++ g2.operands)).length →
      ‖(A.get i j).toC - z * (B.get i j).toC‖ ≤ ε)
    (hbig : ∃ i j, i < 2 ^ (dedup (g1.operands ++ g2.operands)).length ∧
      j < 2 ^ (dedup (g1.operands ++ g2.operands)).length ∧ m ≤ ‖(A.get i j).toC‖)
    (h1 : atol ≤ m - ε) (h2 : 2 * m * ε ≤ atol * (m - ε)) :
    compareGates atol g1 g2 = .ok true :=
  compareGatesWith_band_accepts atol ε m hatol hε _ g1 g2 hA hB z hz hclose hbig h1 h2

/-- **… register level, any admissible enumeration.** -/
theorem compareGatesWith_band_accepts_reg (atol ε m : ℝ) (hatol : 0 < atol) (hε : 0 ≤ ε) (n : Nat)
    (idx : List Int) (hnd : idx.Nodup) (hreg : ∀ q ∈ idx, 0 ≤ q ∧ q < (n : Int)) (g1 g2 : Gate ℝ)
    (hg1 : ∀ q ∈ g1.operands, q ∈ idx) (hd1 : g1.dimOk) (hg2 : ∀ q ∈ g2.operands, q ∈ idx) (hd2 : g2.dimOk)
    (z : ℂ) (hz : ‖z‖ = 1)
    (hclose : ∀ r c : Fin (2 ^ n), ‖gateOp n g1 r c - z * gateOp n g2 r c‖ ≤ ε)
    (hbig : ∃ r c, m ≤ ‖gateOp n g1 r c‖)
    (h1 : atol ≤ m - ε) (h2 : 2 * m * ε ≤ atol * (m - ε)) :
    compareGatesWith atol idx g1 g2 = .ok true := by
  obtain ⟨A, hA⟩ := (localMatrix_single_ok_iff idx g1).mpr ⟨hg1, hd1⟩
  obtain ⟨B, hB⟩ := (localMatrix_single_ok_iff idx g2).mpr ⟨hg2, hd2⟩
  have hgA := gateOp_eq_lift_localMatrix (n := n) idx hnd hreg hA
  have hgB := gateOp_eq_lift_localMatrix (n := n) idx hnd hreg hB
  have hndN := nodup_map_toNat (n := n) idx hnd hreg
  have hltN := map_toNat_lt (n := n) idx hreg
  rw [hgA, hgB] at hclose
  rw [hgA] at hbig
  have hloc' := EqBands.local_rel_of_lift _ _ hndN hltN (P := fun x y => ‖x - z * y‖ ≤ ε) _ _ hclose
  obtain ⟨i, j, hij⟩ := EqBands.local_big_of_lift _ _ (by linarith : 0 < m) _ hbig
  exact compareGatesWith_band_accepts atol ε m hatol hε idx g1 g2 hA hB z hz
    (fun i j hi hj => hloc' ⟨i, hi⟩ ⟨j, hj⟩) ⟨i.val, j.val, i.isLt, j.isLt, hij⟩ h1 h2

/-- **`compare_gates` accepts everything inside the band, register level.** -/
theorem compareGates_band_accepts_reg (atol ε m : ℝ) (hatol : 0 < atol) (hε : 0 ≤ ε) (n : Nat)
    (g1 g2 : Gate ℝ) (hr1 : g1.inReg n) (hd1 : g1.dimOk) (hr2 : g2.inReg n) (hd2 : g2.dimOk)
    (z : ℂ) (hz : ‖z‖ = 1)
    (hclose : ∀ r c : Fin (2 ^ n), ‖gateOp n g1 r c - z * gateOp n g2 r c‖ ≤ ε)
    (hbig : ∃ r c, m ≤ ‖gateOp n g1 r c‖)
    (h1 : atol ≤ m - ε) (h2 : 2 * m * ε ≤ atol * (m - ε)) :
    compareGates atol g1 g2 = .ok true := by
  rw [compareGates_eq_with]
  exact compareGatesWith_band_accepts_reg atol ε m hatol hε n _ (dedup_nodup _) (dedup_union_reg hr1 hr2) g1 g2
    (fun q hq => (mem_dedup _ q).mpr (List.mem_append_left _ hq)) hd1
    (fun q hq => (mem_dedup _ q).mpr (List.mem_append_right _ hq)) hd2 z hz hclose hbig h1 h2

/-- **`compare_gates` (any enumeration) rejects everything outside the band** (local matrices). -/
theorem compareGatesWith_band_rejects (atol : ℝ) (hatol : 0 < atol) (idx : List Int) (g1 g2 : Gate ℝ)
    (hfar : ∀ A B, localMatrix idx [g1] = .ok A → localMatrix idx [g2] = .ok B →
      ¬ ∃ z : ℂ, ‖z‖ = 1 ∧ ∀ i j, i < 2 ^ idx.length → j < 2 ^ idx.length →
        ‖(A.get i j).toC - z * (B.get i j).toC‖ ≤ atol + 1e-5 * ‖z * (B.get i j).toC‖) :
    compareGatesWith atol idx g1 g2 ≠ .ok true := by
  intro h
  cases hA : localMatrix idx [g1] with
  | error e => simp [compareGatesWith, hA, bind, Except.bind] at h
  | ok A =>
    cases hB : localMatrix idx [g2] with
    | error e => simp [compareGatesWith, hA, hB, bind, Except.bind] at h
    | ok B =>
      rw [compareGatesWith_eq atol idx g1 g2 hA hB] at h
      have h' : equivPhase atol A B = true := by injection h
      exact hfar A B hA hB
        (equivPhase_sound_get atol hatol _ A B (localMatrix_dim hA).1 (localMatrix_dim hB).1 h')

theorem compareGates_band_rejects (atol : ℝ) (hatol : 0 < atol) (g1 g2 : Gate ℝ)
    (hfar : ∀ A B, localMatrix (dedup (g1.operands ++ g2.operands)) [g1] = .ok A →
      localMatrix (dedup (g1.operands ++ g2.operands)) [g2] = .ok B →
      ¬ ∃ z : ℂ, ‖z‖ = 1 ∧ ∀ i j, i < 2 ^ (dedup (g1.operands ++ g2.operands)).length →
        j < 2 ^ (dedup (g1.operands ++ g2.operands)).length →
        ‖(A.get i j).toC - z * (B.get i j).toC‖ ≤ atol + 1e-5 * ‖z * (B.get i j).toC‖) :
    compareGates atol g1 g2 ≠ .ok true :=
  compareGatesWith_band_rejects atol hatol _ g1 g2 hfar

/-- **… register level, any admissible enumeration**: the verdict is `False` (no error). -/
theorem compareGatesWith_band_rejects_reg (atol : ℝ) (hatol : 0 < atol) (n : Nat)
    (idx : List Int) (hnd : idx.Nodup) (hreg : ∀ q ∈ idx, 0 ≤ q ∧ q < (n : Int)) (g1 g2 : Gate ℝ)
    (hg1 : ∀ q ∈ g1.operands, q ∈ idx) (hd1 : g1.dimOk) (hg2 : ∀ q ∈ g2.operands, q ∈ idx) (hd2 : g2.dimOk)
    (hfar : ¬ ∃ z : ℂ, ‖z‖ = 1 ∧ ∀ r c : Fin (2 ^ n),
      ‖gateOp n g1 r c - z * gateOp n g2 r c‖ ≤ atol + 1e-5 * ‖z * gateOp n g2 r c‖) :
    compareGatesWith atol idx g1 g2 = .ok false := by
  obtain ⟨A, hA⟩ := (localMatrix_single_ok_iff idx g1).mpr ⟨hg1, hd1⟩
  obtain ⟨B, hB⟩ := (localMatrix_single_ok_iff idx g2).mpr ⟨hg2, hd2⟩
  have hne : compareGatesWith atol idx g1 g2 ≠ .ok true := by
    apply compareGatesWith_band_rejects atol hatol idx g1 g2
    rintro A' B' hA' hB' ⟨z, hz, H⟩
    apply hfar
    refine ⟨z, hz, ?_⟩
    rw [gateOp_eq_lift_localMatrix (n := n) idx hnd hreg hA', gateOp_eq_lift_localMatrix (n := n) idx hnd hreg hB']
    apply EqBands.lift_rel_of_local _ _ (P := fun x y => ‖x - z * y‖ ≤ atol + 1e-5 * ‖z * y‖)
    · simp only [mul_zero, sub_zero, norm_zero]
      linarith
    · intro i j
      exact H i.val j.val i.isLt j.isLt
  rw [compareGatesWith_eq atol idx g1 g2 hA hB] at hne ⊢
  cases he : equivPhase atol A B with
  | true => rw [he] at hne; exact absurd rfl hne
  | false => rfl

/-- **`compare_gates` rejects everything outside the band, register level.** -/
theorem compareGates_band_rejects_reg (atol : ℝ) (hatol : 0 < atol) (n : Nat) (g1 g2 : Gate ℝ)
    (hr1 : g1.inReg n) (hd1 : g1.dimOk) (hr2 : g2.inReg n) (hd2 : g2.dimOk)
    (hfar : ¬ ∃ z : ℂ, ‖z‖ = 1 ∧ ∀ r c : Fin (2 ^ n),
      ‖gateOp n g1 r c - z * gateOp n g2 r c‖ ≤ atol + 1e-5 * ‖z * gateOp n g2 r c‖) :
    compareGates atol g1 g2 = .ok false := by
  rw [compareGates_eq_with]
  exact compareGatesWith_band_rejects_reg atol hatol n _ (dedup_nodup _) (dedup_union_reg hr1 hr2) g1 g2
    (fun q hq => (mem_dedup _ q).mpr (List.mem_append_left _ hq)) hd1
    (fun q hq => (mem_dedup _ q).mpr (List.mem_append_right _ hq)) hd2 hfar

namespace EqBands
/-- every pair other than two plain rotations goes through `compare_gates` -/
theorem gateEq_eq_compareGates' (atol : ℝ) (g1 g2 : Gate ℝ) (hnb : ¬ (g1.isBsr = true ∧ g2.isBsr = true)) :
    gateEq atol g1 g2 = compareGates atol g1 g2 := by
  cases g1 with
  | bsr q1 a1 n1 p1 =>
    cases g2 with
    | bsr q2 a2 n2 p2 => exact absurd ⟨rfl, rfl⟩ hnb
    | matrix m ops => rfl
    | ctrl c g => rfl
  | matrix m ops => rfl
  | ctrl c g => rfl
end EqBands

/-- **`Gate.__eq__`, every pair other than two plain rotations: accepts inside the band.** -/
theorem gateEq_band_accepts_reg (atol ε m : ℝ) (hatol : 0 < atol) (hε : 0 ≤ ε) (n : Nat)
    (g1 g2 : Gate ℝ) (hnb : ¬ (g1.isBsr = true ∧ g2.isBsr = true))
    (hr1 : g1.inReg n) (hd1 : g1.dimOk) (hr2 : g2.inReg n) (hd2 : g2.dimOk)
    (z : ℂ) (hz : ‖z‖ = 1)
    (hclose : ∀ r c : Fin (2 ^ n), ‖gateOp n g1 r c - z * gateOp n g2 r c‖ ≤ ε)
    (hbig : ∃ r c, m ≤ ‖gateOp n g1 r c‖)
    (h1 : atol ≤ m - ε) (h2 : 2 * m * ε ≤ atol * (m - ε)) :
    gateEq atol g1 g2 = .ok true := by
  rw [EqBands.gateEq_eq_compareGates' atol g1 g2 hnb]
  exact compareGates_band_accepts_reg atol ε m hatol hε n g1 g2 hr1 hd1 hr2 hd2 z hz hclose hbig h1 h2

/-- **… rejects outside the band.** -/
theorem gateEq_band_rejects_reg (atol : ℝ) (hatol : 0 < atol) (n : Nat) (g1 g2 : Gate ℝ)
    (hnb : ¬ (g1.isBsr = true ∧ g2.isBsr = true))
    (hr1 : g1.inReg n) (hd1 : g1.dimOk) (hr2 : g2.inReg n) (hd2 : g2.dimOk)
    (hfar : ¬ ∃ z : ℂ, ‖z‖ = 1 ∧ ∀ r c : Fin (2 ^ n),
      ‖gateOp n g1 r c - z * gateOp n g2 r c‖ ≤ atol + 1e-5 * ‖z * gateOp n g2 r c‖) :
    gateEq atol g1 g2 = .ok false := by
  rw [EqBands.gateEq_eq_compareGates' atol g1 g2 hnb]
  exact compareGates_band_rejects_reg atol hatol n g1 g2 hr1 hd1 hr2 hd2 hfar


/-! ## 4. Concrete matrices, sharpness, examples -/

namespace EqBands

/-- the real diagonal 2×2 matrix `diag(x, y)` -/
noncomputable def dg (x y : ℝ) : Mat ℝ :=
  Mat.ofFn 2 fun i j => if i = j then (if i = 0 then (⟨x, 0⟩ : Cx ℝ) else ⟨y, 0⟩) else Cx.zero

theorem dg_get (x y : ℝ) (i j : Nat) (hi : i < 2) (hj : j < 2) :
    ((dg x y).get i j).toC = if i = j then (if i = 0 then (x : ℂ) else (y : ℂ)) else 0 := by
  unfold dg
  rw [Mat.get_ofFn hi hj]
  split_ifs <;> first | exact Cx.toC_zero | (apply Complex.ext <;> simp)

theorem dg_flat (x y : ℝ) :
    (dg x y).flat 0 = x ∧ (dg x y).flat 1 = 0 ∧ (dg x y).flat 2 = 0 ∧ (dg x y).flat 3 = y := by
  refine ⟨?_, ?_, ?_, ?_⟩ <;>
  · rw [Mat.flat_eq_get (dg x y) (n := 2) rfl, dg_get x y _ _ (by decide) (by decide)]
    simp

theorem argmaxAbs_eq_zero (a : Mat ℝ) (hn : 0 < a.n) (h : ∀ k, k < a.n * a.n → ‖a.flat k‖ ≤ ‖a.flat 0‖) :
    argmaxAbs a = 0 := by
  by_contra hne
  have h0 : 0 < argmaxAbs a := Nat.pos_of_ne_zero hne
  obtain ⟨h1, _, h3⟩ := argmaxAbs_spec a hn
  have h4 := h3 0 h0
  have h5 := h _ h1
  rw [Mat.absAt_eq, Mat.absAt_eq] at h4
  linarith

theorem argmax_dg_one : argmaxAbs (dg 1 1) = 0 := by
  apply argmaxAbs_eq_zero _ (by decide)
  obtain ⟨f0, f1, f2, f3⟩ := dg_flat 1 1
  intro k hk
  have hk' : k < 4 := hk
  interval_cases k
  · exact le_refl _
  · rw [f1, f0]; simp
  · rw [f2, f0]; simp
  · rw [f3, f0]

/-- **sharpness, accepted side**: `I₂` against `diag(1, 1−ε)` is accepted as soon as `ε ≤ atol + 1e-5·(1−ε)` -/
theorem sharp_accept (atol ε : ℝ) (hat0 : 0 < atol) (h0 : 0 ≤ ε) (hε1 : ε ≤ 1)
    (h1 : ε ≤ atol + 1e-5 * (1 - ε)) (hat : atol ≤ 1) :
    equivPhase atol (dg 1 1) (dg 1 (1 - ε)) = true := by
  obtain ⟨a0, a1, a2, a3⟩ := dg_flat 1 1
  obtain ⟨b0, b1, b2, b3⟩ := dg_flat 1 (1 - ε)
  have hph : pivotPhase (dg 1 1) (dg 1 (1 - ε)) = 1 :=
    pivotPhase_of_unit _ _ norm_one (by rw [argmax_dg_one, a0, b0]; simp)
  rw [equivPhase_iff, hph, argmax_dg_one, a0, b0]
  have hr : (0:ℝ) ≤ 1e-5 := rtol_real_nonneg
  refine ⟨?_, ?_, ?_⟩
  · simpa using hat
  · simpa using hat
  · intro k hk
    have hk' : k < 4 := hk
    have hnn : ∀ w : ℂ, ‖(0:ℂ)‖ ≤ atol + 1e-5 * ‖w‖ := by
      intro w
      have := mul_nonneg hr (norm_nonneg w)
      rw [norm_zero]; linarith
    interval_cases k
    · rw [a0, b0]
      have : ((1:ℝ):ℂ) - 1 * ((1:ℝ):ℂ) = 0 := by simp
      rw [this]; exact hnn _
    · rw [a1, b1]
      have : (0:ℂ) - 1 * 0 = 0 := by simp
      rw [this]; exact hnn _
    · rw [a2, b2]
      have : (0:ℂ) - 1 * 0 = 0 := by simp
      rw [this]; exact hnn _
    · rw [a3, b3]
      have e1 : ((1:ℝ):ℂ) - 1 * ((1 - ε : ℝ) : ℂ) = ((ε : ℝ) : ℂ) := by
        push_cast; ring
      rw [e1, one_mul, Complex.norm_real, Complex.norm_real, Real.norm_eq_abs, Real.norm_eq_abs, abs_of_nonneg h0,
        abs_of_nonneg (by linarith)]
      exact h1

theorem sharp_accept_far (ε : ℝ) (h1 : ε ≤ 1) (z : ℂ) (hz : ‖z‖ = 1) :
    ε ≤ ‖((dg 1 1).get 1 1).toC - z * ((dg 1 (1 - ε)).get 1 1).toC‖ := by
  rw [dg_get _ _ _ _ (by decide) (by decide), dg_get _ _ _ _ (by decide) (by decide)]
  simp only [if_true, one_ne_zero, if_false]
  have := norm_sub_norm_le ((1:ℝ):ℂ) (z * ((1 - ε : ℝ) : ℂ))
  rw [norm_mul, hz, one_mul, Complex.norm_real, Complex.norm_real, Real.norm_eq_abs, Real.norm_eq_abs,
    abs_of_nonneg (by linarith : (0:ℝ) ≤ 1 - ε), abs_one] at this
  linarith

/-- the complex diagonal 2×2 matrix `diag(u, v)` -/
noncomputable def dgc (u v : ℂ) : Mat ℝ :=
  Mat.ofFn 2 fun i j => if i = j then (if i = 0 then (⟨u.re, u.im⟩ : Cx ℝ) else ⟨v.re, v.im⟩) else Cx.zero

theorem dgc_get (u v : ℂ) (i j : Nat) (hi : i < 2) (hj : j < 2) :
    ((dgc u v).get i j).toC = if i = j then (if i = 0 then u else v) else 0 := by
  unfold dgc
  rw [Mat.get_ofFn hi hj]
  split_ifs <;> first | exact Cx.toC_zero | (apply Complex.ext <;> simp)

theorem dgc_flat (u v : ℂ) :
    (dgc u v).flat 0 = u ∧ (dgc u v).flat 1 = 0 ∧ (dgc u v).flat 2 = 0 ∧ (dgc u v).flat 3 = v := by
  refine ⟨?_, ?_, ?_, ?_⟩ <;>
  · rw [Mat.flat_eq_get (dgc u v) (n := 2) rfl, dgc_get u v _ _ (by decide) (by decide)]
    simp

/-- for a unit `u`: `1 − ū² = ū·(u − ū)`, of modulus `2·|Im u|` -/
theorem norm_one_sub_conj_sq {u : ℂ} (hu : ‖u‖ = 1) :
    ‖1 - (starRingEnd ℂ) u * (starRingEnd ℂ) u‖ = 2 * |u.im| := by
  have h1 : (starRingEnd ℂ) u * u = 1 := by
    rw [mul_comm, Complex.mul_conj, Complex.normSq_eq_norm_sq, hu]; simp
  have e : 1 - (starRingEnd ℂ) u * (starRingEnd ℂ) u = (starRingEnd ℂ) u * (u - (starRingEnd ℂ) u) := by
    rw [mul_sub, h1]
  have e2 : u - (starRingEnd ℂ) u = ((2 * u.im : ℝ) : ℂ) * Complex.I := by
    apply Complex.ext <;> simp
    ring
  rw [e, norm_mul, Complex.norm_conj, hu, one_mul, e2, norm_mul, Complex.norm_I, mul_one, Complex.norm_real,
    Real.norm_eq_abs, abs_mul, abs_two]

/-- **sharpness, rejected side**: for a unit `u`, `I₂` against `diag(u, ū)` — every entry within `‖1 − u‖` of equal
    (`z = 1`: `sharp_reject_near`) — is rejected as soon as `atol + 1e-5 < 2·|Im u|` (`= ‖1 − u‖·‖1 + u‖ ≈ 2·‖1 − u‖`):
    the phase is measured at the pivot entry only (`ph = ū`), so an error of the pivot *perpendicular* to it rotates the
    estimate and is doubled on the entry perturbed the other way.  (An error *along* the pivot — a wrong modulus — no
    longer matters: the phase is normalised; before the repair `I₂` against `diag(1−ε, 1+ε)` was rejected for that
    reason, now it is accepted as soon as `ε ≤ atol + 1e-5·(1−ε)`, see `sharp_accept_modulus`.) -/
theorem sharp_reject (atol : ℝ) (u : ℂ) (hu : ‖u‖ = 1) (hrej : atol + 1e-5 < 2 * |u.im|) :
    equivPhase atol (dg 1 1) (dgc u ((starRingEnd ℂ) u)) = false := by
  cases h : equivPhase atol (dg 1 1) (dgc u ((starRingEnd ℂ) u)) with
  | false => rfl
  | true =>
    exfalso
    obtain ⟨a0, a1, a2, a3⟩ := dg_flat 1 1
    obtain ⟨b0, b1, b2, b3⟩ := dgc_flat u ((starRingEnd ℂ) u)
    have hu0 : u ≠ 0 := ne_zero_of_norm_one hu
    have h1 : (starRingEnd ℂ) u * u = 1 := by
      rw [mul_comm, Complex.mul_conj, Complex.normSq_eq_norm_sq, hu]; simp
    have hph : pivotPhase (dg 1 1) (dgc u ((starRingEnd ℂ) u)) = (starRingEnd ℂ) u :=
      pivotPhase_of_unit _ _ (by rw [Complex.norm_conj, hu]) (by
        rw [argmax_dg_one, a0, b0, div_eq_iff hu0, h1]
        simp)
    rw [equivPhase_iff, hph] at h
    have h3 := h.2.2 3 (by decide)
    rw [a3, b3, norm_mul, Complex.norm_conj, hu, mul_one] at h3
    have e : ((1:ℝ):ℂ) - (starRingEnd ℂ) u * (starRingEnd ℂ) u = 1 - (starRingEnd ℂ) u * (starRingEnd ℂ) u := by
      push_cast; ring
    rw [e, norm_one_sub_conj_sq hu] at h3
    linarith

theorem sharp_reject_near (u : ℂ) (i j : Nat) (hi : i < 2) (hj : j < 2) :
    ‖((dg 1 1).get i j).toC - 1 * ((dgc u ((starRingEnd ℂ) u)).get i j).toC‖ ≤ ‖1 - u‖ := by
  rw [dg_get _ _ _ _ hi hj, dgc_get _ _ _ _ hi hj, one_mul]
  split_ifs
  · simp
  · have : ((1:ℝ):ℂ) - (starRingEnd ℂ) u = (starRingEnd ℂ) (1 - u) := by simp
    rw [this, Complex.norm_conj]
  · simp

/-- a wrong *modulus* at the pivot is harmless now: `I₂` against `diag(1−ε, 1+ε)` (rejected before the repair as soon
    as `atol·(1−ε) + 1e-5·(1+ε) < 2ε`) is accepted whenever `ε ≤ atol + 1e-5·(1−ε)` -/
theorem sharp_accept_modulus (atol ε : ℝ) (hat0 : 0 < atol) (h0 : 0 ≤ ε) (hε1 : ε < 1)
    (h1 : ε ≤ atol + 1e-5 * (1 - ε)) (hat : atol ≤ 1 - ε) :
    equivPhase atol (dg 1 1) (dg (1 - ε) (1 + ε)) = true := by
  obtain ⟨a0, a1, a2, a3⟩ := dg_flat 1 1
  obtain ⟨b0, b1, b2, b3⟩ := dg_flat (1 - ε) (1 + ε)
  have hpos : 0 < 1 - ε := by linarith
  have hph : pivotPhase (dg 1 1) (dg (1 - ε) (1 + ε)) = 1 := by
    unfold pivotPhase
    rw [argmax_dg_one, a0, b0]
    have e : ((1:ℝ):ℂ) / ((1 - ε : ℝ) : ℂ) = (((1 - ε)⁻¹ : ℝ) : ℂ) := by push_cast; ring
    have hinv : 0 < (1 - ε)⁻¹ := inv_pos.mpr hpos
    rw [e, Complex.norm_real, Real.norm_eq_abs, abs_of_pos hinv]
    exact div_self (by exact_mod_cast hinv.ne')
  rw [equivPhase_iff, hph, argmax_dg_one, a0, b0]
  have hr : (0:ℝ) ≤ 1e-5 := rtol_real_nonneg
  refine ⟨?_, ?_, ?_⟩
  · simpa using le_trans hat (by linarith)
  · rw [Complex.norm_real, Real.norm_eq_abs, abs_of_pos hpos]; exact not_lt.mpr hat
  · intro k hk
    have hk' : k < 4 := hk
    have hnn : ∀ w : ℂ, ‖(0:ℂ)‖ ≤ atol + 1e-5 * ‖w‖ := by
      intro w
      have := mul_nonneg hr (norm_nonneg w)
      rw [norm_zero]; linarith
    interval_cases k
    · rw [a0, b0]
      have e1 : ((1:ℝ):ℂ) - 1 * ((1 - ε : ℝ) : ℂ) = ((ε : ℝ) : ℂ) := by push_cast; ring
      rw [e1, one_mul, Complex.norm_real, Complex.norm_real, Real.norm_eq_abs, Real.norm_eq_abs, abs_of_nonneg h0,
        abs_of_pos hpos]
      exact h1
    · rw [a1, b1]
      have : (0:ℂ) - 1 * 0 = 0 := by simp
      rw [this]; exact hnn _
    · rw [a2, b2]
      have : (0:ℂ) - 1 * 0 = 0 := by simp
      rw [this]; exact hnn _
    · rw [a3, b3]
      have e1 : ((1:ℝ):ℂ) - 1 * ((1 + ε : ℝ) : ℂ) = ((-ε : ℝ) : ℂ) := by push_cast; ring
      rw [e1, one_mul, Complex.norm_real, Complex.norm_real, Real.norm_eq_abs, Real.norm_eq_abs, abs_neg,
        abs_of_nonneg h0, abs_of_pos (by linarith)]
      have : 1e-5 * (1 - ε) ≤ 1e-5 * (1 + ε) := mul_le_mul_of_nonneg_left (by linarith) hr
      linarith

theorem dg_near (ε : ℝ) (h0 : 0 ≤ ε) (i j : Nat) (hi : i < 2) (hj : j < 2) :
    ‖((dg 1 1).get i j).toC - 1 * ((dg 1 (1 - ε)).get i j).toC‖ ≤ ε := by
  rw [dg_get _ _ _ _ hi hj, dg_get _ _ _ _ hi hj, one_mul]
  split_ifs
  · simpa using h0
  · have : ((1:ℝ):ℂ) - ((1 - ε : ℝ) : ℂ) = ((ε : ℝ) : ℂ) := by push_cast; ring
    rw [this, Complex.norm_real, Real.norm_eq_abs, abs_of_nonneg h0]
  · simpa using h0

/-- a one-qubit matrix gate on a one-qubit register is its matrix -/
theorem gateOp1_matrix (M : Mat ℝ) (r c : Fin (2 ^ 1)) :
    gateOp 1 (.matrix M [0]) r c = (M.get r.val c.val).toC := by
  rw [gateOp_apply]
  simp only [denote, embedM, List.map_cons, List.map_nil, Int.toNat_zero]
  rw [if_pos (agreeOff_one_zero _ _)]
  have hb : ∀ x : Fin (2 ^ 1), subIdx x.val [0] = x.val := by decide
  rw [hb r, hb c]

noncomputable def gD (x y : ℝ) : Gate ℝ := .matrix (dg x y) [0]

theorem gD_reg (x y : ℝ) : (gD x y).inReg 1 := by
  intro q hq
  simp only [gD, Gate.operands, List.mem_singleton] at hq
  subst hq; omega

theorem gD_close (ε : ℝ) (h0 : 0 ≤ ε) (r c : Fin (2 ^ 1)) :
    ‖gateOp 1 (gD 1 1) r c - 1 * gateOp 1 (gD 1 (1 - ε)) r c‖ ≤ ε := by
  rw [gD, gD, gateOp1_matrix, gateOp1_matrix]
  exact dg_near ε h0 _ _ r.isLt c.isLt

theorem gD_big : ∃ r c, (1:ℝ) ≤ ‖gateOp 1 (gD 1 1) r c‖ := by
  refine ⟨⟨0, by norm_num⟩, ⟨0, by norm_num⟩, ?_⟩
  rw [gD, gateOp1_matrix, dg_get _ _ _ _ (by decide) (by decide)]
  simp

end EqBands

open EqBands in
example (atol : ℝ) (h0 : 0 < atol) (h1 : atol ≤ 3 / 4) :
    compareGates atol (gD 1 1) (gD 1 (1 - atol / 3)) = .ok true :=
  compareGates_band_accepts_reg atol (atol / 3) 1 h0 (by linarith) 1 _ _ (gD_reg _ _) rfl (gD_reg _ _) rfl
    1 norm_one (gD_close _ (by linarith)) gD_big (by linarith) (by nlinarith)

open EqBands in
example (atol : ℝ) (h0 : 0 < atol) (h1 : atol ≤ 3 / 4) :
    checkGateReplacement atol (gD 1 1) [gD 1 (1 - atol / 3)] = none := by
  apply checkGateReplacement_band_accepts_reg atol (atol / 3) 1 h0 (by linarith) 1 (gD 1 1) _
    ⟨by simp [gD, Gate.operands], gD_reg 1 1⟩ rfl
    (by intro r hr; simp only [List.mem_singleton] at hr; subst hr; rfl)
    (by intro r hr q hq; simp only [List.mem_singleton] at hr; subst hr; exact hq)
    1 norm_one _ gD_big (by linarith) (by nlinarith)
  intro r c
  simp only [gateStmts, List.map_cons, List.map_nil, circOp_gate, circOp_nil, Matrix.one_mul]
  exact gD_close _ (by linarith) r c

namespace EqBands
/-- `CZ(0,1)` is farther than any reasonable tolerance from every (unit) multiple of the identity -/
theorem CZ_far (atol : ℝ) (h1 : atol ≤ 1 / 2) :
    ¬ ∃ z : ℂ, ‖z‖ = 1 ∧ ∀ r c : Fin (2 ^ 2),
      ‖gateOp 2 (gCZ 0 1) r c - z * (1 : Op 2) r c‖ ≤ atol + 1e-5 * ‖z * (1 : Op 2) r c‖ := by
  rintro ⟨z, -, H⟩
  have k0 : gateOp 2 (gCZ 0 1) ⟨0, by norm_num⟩ ⟨0, by norm_num⟩ = 1 :=
    (gateOp_CZ_apply 2 0 1 _ _).trans (by simp)
  have k3 : gateOp 2 (gCZ 0 1) ⟨3, by norm_num⟩ ⟨3, by norm_num⟩ = -1 :=
    (gateOp_CZ_apply 2 0 1 _ _).trans (by simp; decide)
  have e0 := H ⟨0, by norm_num⟩ ⟨0, by norm_num⟩
  have e3 := H ⟨3, by norm_num⟩ ⟨3, by norm_num⟩
  rw [k0] at e0
  rw [k3] at e3
  simp only [Matrix.one_apply_eq, mul_one, rtol_real] at e0 e3
  have t1 : ‖z‖ ≤ 1 + ‖(1:ℂ) - z‖ := by
    have := norm_sub_norm_le z ((1:ℂ))
    rw [norm_one, norm_sub_rev] at this
    linarith
  have t2 : (2:ℝ) ≤ ‖(1:ℂ) - z‖ + ‖(-1:ℂ) - z‖ := by
    have := norm_sub_le ((1:ℂ) - z) ((-1:ℂ) - z)
    have e : (1:ℂ) - z - (-1 - z) = 2 := by ring
    rw [e] at this
    simpa using this
  linarith

end EqBands

open EqBands in
example (atol : ℝ) (h0 : 0 < atol) (h1 : atol ≤ 1 / 2) (ax : Vec3 ℝ) :
    compareGates atol (gCZ 0 1) (.ctrl 0 (.bsr 1 ax 0 0)) = .ok false := by
  have hI : gateOp 2 (.ctrl 0 (.bsr 1 ax 0 0)) = 1 :=
    gateOp_ctrl_of_one 2 0 _ (gateOp_bsr_zero 2 1 (by omega) ax)
  have hr : (Gate.ctrl 0 (.bsr 1 ax 0 0) : Gate ℝ).inReg 2 := by
    intro q hq
    simp only [Gate.operands, List.mem_cons, List.not_mem_nil, or_false] at hq
    rcases hq with rfl | rfl <;> omega
  apply compareGates_band_rejects_reg atol h0 2 (gCZ 0 1) (.ctrl 0 (.bsr 1 ax 0 0))
    (gCZ_reg 0 1 2 (by omega) (by omega)) trivial hr trivial
  rw [hI]; exact CZ_far atol h1

open EqBands in
example (atol : ℝ) (h0 : 0 < atol) (h1 : atol ≤ 1 / 2) :
    checkGateReplacement atol (gCZ 0 1) [] = some .value := by
  apply checkGateReplacement_band_rejects_value atol h0 2 (gCZ 0 1) []
    ⟨by simp [gCZ, gZ, Gate.operands], gCZ_reg 0 1 2 (by omega) (by omega)⟩ trivial (by simp)
  simp only [gateStmts, List.map_nil, circOp_nil]
  exact CZ_far atol h1


/-! ### Examples for sections 1, 2 and 4 -/

namespace EqBands

-- `equivPhase_complete_band_third` / `_unit` on a pair that is *not* exactly phase-equal
example (atol : ℝ) (h0 : 0 < atol) (h1 : atol ≤ 3 / 4) :
    equivPhase atol (dg 1 1) (dg 1 (1 - atol / 3)) = true :=
  equivPhase_complete_band_third atol (atol / 3) 1 h0 (by linarith) 2 (by decide) _ _ rfl rfl 1 norm_one
    (dg_near _ (by linarith))
    ⟨0, 0, by decide, by decide, by rw [dg_get _ _ _ _ (by decide) (by decide)]; simp⟩ (by linarith) le_rfl

example (atol : ℝ) (h0 : 0 < atol) (h1 : atol ≤ 3 / 8) :
    equivPhase atol (dg 1 1) (dg 1 (1 - atol / 3)) = true :=
  equivPhase_complete_band_unit atol (atol / 3) h0 (by linarith) 2 (by decide) _ _ rfl rfl 1 norm_one
    (dg_near _ (by linarith))
    ⟨0, 0, by decide, by decide, by rw [dg_get _ _ _ _ (by decide) (by decide)]; simp; norm_num⟩ h1 le_rfl

-- `equivPhase_complete_band` with its general side conditions, and `_B` with `B = 1`
example : equivPhase (1 / 10 : ℝ) (dg 1 1) (dg 1 (1 - 1 / 25)) = true :=
  equivPhase_complete_band (1 / 10) (1 / 25) 1 (by norm_num) (by norm_num) 2 (by decide) _ _ rfl rfl 1 norm_one
    (dg_near _ (by norm_num))
    ⟨0, 0, by decide, by decide, by rw [dg_get _ _ _ _ (by decide) (by decide)]; simp⟩ (by norm_num) (by norm_num)

example : equivPhase (1 / 10 : ℝ) (dg 1 1) (dg 1 (1 - 1 / 25)) = true := by
  apply equivPhase_complete_band_B (1 / 10) (1 / 25) 1 1 (by norm_num) (by norm_num) 2 (by decide) _ _ rfl rfl 1
    norm_one (dg_near _ (by norm_num))
    ⟨0, 0, by decide, by decide, by rw [dg_get _ _ _ _ (by decide) (by decide)]; simp⟩ _ (by norm_num) (by norm_num)
  intro i j hi hj
  rw [dg_get _ _ _ _ hi hj]
  split_ifs
  · simp
  · rw [Complex.norm_real, Real.norm_eq_abs, abs_of_nonneg (by norm_num)]; norm_num
  · simp

-- `equivPhase_sound_band` on the same pair (`B = 1`): a unit phase
example : ∃ ph : ℂ, ‖ph‖ = 1 ∧ ∀ i j, i < 2 → j < 2 →
    ‖((dg 1 1).get i j).toC - ph * ((dg 1 (1 - 1 / 25)).get i j).toC‖ ≤ 1 / 10 + 1e-5 * 1 := by
  obtain ⟨ph, h1, -, -, -, H⟩ := equivPhase_sound_band (1 / 10) 1 (by norm_num) 2 (dg 1 1) (dg 1 (1 - 1 / 25)) rfl rfl
    (by
      intro i j hi hj
      rw [dg_get _ _ _ _ hi hj]
      split_ifs
      · simp
      · rw [Complex.norm_real, Real.norm_eq_abs, abs_of_nonneg (by norm_num)]; norm_num
      · simp)
    (sharp_accept _ _ (by norm_num) (by norm_num) (by norm_num) (by norm_num) (by norm_num))
  exact ⟨ph, h1, H⟩

/-- the unit complex number `(1 − t²)/(1 + t²) + i·2t/(1 + t²)` with `t = 3/1000`: within `3/500` of `1` -/
noncomputable def uEx : ℂ := ⟨999991 / 1000009, 6000 / 1000009⟩

theorem uEx_norm : ‖uEx‖ = 1 := by
  have : ‖uEx‖ ^ 2 = 1 := by
    rw [← Complex.normSq_eq_norm_sq, Complex.normSq_apply]
    simp only [uEx]
    norm_num
  have h0 := norm_nonneg uEx
  nlinarith

theorem uEx_near : ‖1 - uEx‖ ≤ 3 / 500 := by
  have : ‖1 - uEx‖ ^ 2 ≤ (3 / 500) ^ 2 := by
    rw [← Complex.normSq_eq_norm_sq, Complex.normSq_apply]
    simp only [uEx, Complex.sub_re, Complex.sub_im, Complex.one_re, Complex.one_im]
    norm_num
  exact (abs_le_of_sq_le_sq' this (by norm_num)).2

-- sharpness: tolerance `1/100`, both pairs at distance `≤ 3/500 ∈ (atol/2, atol]` from "equal up to a phase" (`z = 1`)
example : equivPhase (1 / 100 : ℝ) (dg 1 1) (dg 1 (1 - 3 / 500)) = true ∧
    equivPhase (1 / 100 : ℝ) (dg 1 1) (dgc uEx ((starRingEnd ℂ) uEx)) = false ∧
    (∀ i j, i < 2 → j < 2 →
      ‖((dg 1 1).get i j).toC - 1 * ((dg 1 (1 - 3 / 500)).get i j).toC‖ ≤ 3 / 500) ∧
    (∀ i j, i < 2 → j < 2 →
      ‖((dg 1 1).get i j).toC - 1 * ((dgc uEx ((starRingEnd ℂ) uEx)).get i j).toC‖ ≤ 3 / 500) :=
  ⟨sharp_accept _ _ (by norm_num) (by norm_num) (by norm_num) (by norm_num) (by norm_num),
   sharp_reject _ _ uEx_norm (by
     simp only [uEx]
     rw [abs_of_pos (by norm_num)]
     norm_num),
   fun i j hi hj => dg_near _ (by norm_num) i j hi hj,
   fun i j hi hj => le_trans (sharp_reject_near uEx i j hi hj) uEx_near⟩

-- … while the pair with a wrong modulus at the pivot (rejected before the phase was normalised) is now accepted
example : equivPhase (1 / 100 : ℝ) (dg 1 1) (dg (1 - 3 / 500) (1 + 3 / 500)) = true :=
  sharp_accept_modulus _ _ (by norm_num) (by norm_num) (by norm_num) (by norm_num) (by norm_num)

-- the relative term dominates for the library's `ATOL = 1e-7`: a pair `10·ATOL` away from equal is accepted
example : equivPhase (1e-7 : ℝ) (dg 1 1) (dg 1 (1 - 1e-6)) = true ∧
    ∀ z : ℂ, ‖z‖ = 1 → (1e-6 : ℝ) ≤ ‖((dg 1 1).get 1 1).toC - z * ((dg 1 (1 - 1e-6)).get 1 1).toC‖ :=
  ⟨sharp_accept _ _ (by norm_num) (by norm_num) (by norm_num) (by norm_num) (by norm_num),
   fun z hz => sharp_accept_far _ (by norm_num) z hz⟩

end EqBands

end OSq

#print axioms OSq.EqBands.dir_sub_unit_le
#print axioms OSq.equivPhase_complete_band'
#print axioms OSq.equivPhase_complete_band
#print axioms OSq.equivPhase_complete_band_B'
#print axioms OSq.equivPhase_complete_band_B
#print axioms OSq.equivPhase_complete_band_third
#print axioms OSq.equivPhase_complete_band_two_fifths
#print axioms OSq.equivPhase_complete_band_unit
#print axioms OSq.equivPhase_sound_band
#print axioms OSq.checkGateReplacement_band_accepts
#print axioms OSq.checkGateReplacement_band_accepts_reg
#print axioms OSq.checkGateReplacement_band_rejects
#print axioms OSq.checkGateReplacement_band_rejects_reg
#print axioms OSq.checkGateReplacement_band_rejects_value
#print axioms OSq.compareGatesWith_band_accepts_reg
#print axioms OSq.compareGates_band_accepts
#print axioms OSq.compareGates_band_accepts_reg
#print axioms OSq.compareGates_band_rejects
#print axioms OSq.compareGatesWith_band_rejects_reg
#print axioms OSq.compareGates_band_rejects_reg
#print axioms OSq.gateEq_band_accepts_reg
#print axioms OSq.gateEq_band_rejects_reg
#print axioms OSq.EqBands.sharp_accept
#print axioms OSq.EqBands.sharp_accept_far
#print axioms OSq.EqBands.sharp_reject
#print axioms OSq.EqBands.sharp_reject_near
#print axioms OSq.EqBands.sharp_accept_modulus
