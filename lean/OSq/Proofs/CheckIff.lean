import OSq.Model.CircuitEq
import OSq.Proofs.CircuitSem3
import OSq.Proofs.CircuitSem5
import Mathlib.LinearAlgebra.UnitaryGroup
import Mathlib.Data.Matrix.Basis
/-
  OSq.Proofs.CheckIff — the **iff-form, register-level** statements of C06 (`check_gate_replacement`: "the pass accepts
  a proposed replacement if it acts on the gate's qubits and equals the gate up to a global phase, and rejects it if it
  touches other qubits or differs") and C16 (`Gate.__eq__` / `compare_gates` / `Circuit.__eq__`: "comparing two gates
  reports equal exactly when they perform the same operation on the union of their qubits up to a global phase"), at
  `α := ℝ`, at the *exact level*: every closeness test `‖x − y‖ ≤ atol + rtol·‖y‖` the code makes is honest (holds
  only when `x = y`) and the pivot test `‖·‖ < atol` fires only for `0`.  Operators are those of `OSq.Sem.Circuit`
  (`gateOp n g`, `circOp n stmts o` on the whole `n`-qubit register).

  1. The embedding is injective
  * `lift_injective`, `lift_eq_iff`, `lift_eq_smul_iff`   `lift idx a = z • lift idx b ↔ a = z • b` (duplicate-free in-range `idx`)
  Crisp comparisons
  * `CrispCmp atol a b`         the three kinds of tests `equivPhase atol a b` makes are honest
  * `equivPhase_iff_crisp`      `equivPhase atol a b = true ↔ ∃ z, ‖z‖ = 1 ∧ a = z • b`   (`a ≠ 0`, `CrispCmp`)
  * `crispCmp_of_smul`, `crispCmp_localMatrix_of_exact`   exactly equal inputs (unit factor, an entry `≥ atol`) are crisp
  4. C06
  * `localMatrix_list_ok_of`    `localMatrix idx gs` exists if all operands are listed and all matrix sizes fit
  * `checkGateReplacement_reject_foreign`   a replacement touching a qubit outside `g.operands` ⇒ `ValueError` (any `α`)
  * `checkGateReplacement_none_local`       accepted ⇒ only the gate's qubits are touched, both local matrices exist (any `α`)
  * `checkGateReplacement_iff_exact`        **accepted ⇔ acts on the gate's qubits ∧ ∃ z, ‖z‖ = 1 ∧ circOp n gs [] = z • gateOp n g**
  * `checkGateReplacement_reject_iff_exact` `ValueError` ⇔ the negation (no other outcome)
  * `checkGateReplacement_nil_iff_exact`    `[]` accepted for `g` ⇔ `gateOp n g = z • 1`, `‖z‖ = 1` (identity-gate case)
  * `checkGateReplacement_accepts_exact`    acceptance of an exact replacement, no crispness hypothesis
  2. C16, `compare_gates`
  * `unit_of_unitary_smul`      `A = z • B`, both unitary ⇒ `‖z‖ = 1`;  `ne_zero_of_unitary`;  `exists_big_of_unitary`
  * `compareGatesWith_iff_exact`  any admissible enumeration of the qubits: no error, and `True ⇔ ∃ z, ‖z‖ = 1 ∧ gateOp n g1 = z • gateOp n g2`
                                (the right-hand side does not mention the enumeration: C17 in iff form)
  * `compareGates_iff_exact`, `compareGates_false_iff_exact`, `compareGates_iff_exact_unitary` (`‖z‖ = 1`)
  * `compareGates_accepts_exact`  operators exactly phase-equal with an entry `≥ atol` ⇒ `True`, no crispness hypothesis
  3. C16, `Gate.__eq__`
  * `lift_disjoint_eq`          `lift [q1] U = lift [q2] V`, `q1 ≠ q2` ⇔ `U = V = c • 1`
  * `gateOp_bsr_eq_iff`         two plain rotations are the same register operator ⇔ same qubit and `rot = rot`, or both `c • 1`
  * `CrispBsr`, `gateEq_bsr_iff_exact`   two plain rotations: `True ⇔ gateOp n g1 = gateOp n g2` (**phase included**)
  * `gateEq_iff_exact_of_not_both_bsr`   every other pair: `True ⇔ ∃ z, ‖z‖ = 1 ∧ gateOp n g1 = z • gateOp n g2`
  * `SameOp`, `CrispEq`, `EqHyp`, `gateEq_iff_exact`, `gateEq_total_exact`, `gateEq_false_iff_exact`   the dispatch, one statement
  * `SameOp.refl/.symm/.scalar/.trans_partial`, `gateEq_refl_crisp`, `gateEq_symm_exact`, `gateEq_trans_exact_partial`
  * `gateEq_not_transitive`     FINDING: `Gate.__eq__` is not transitive even on exact inputs
                                (`I(0) == CI(1,0)`, `CI(1,0) == −I(0)`, `I(0) != −I(0)`)
  5. C16, `Circuit.__eq__` (specification definitions `axisClose`, `stmtEq`, `stmtsEq`, `circuitEq` mirroring `ir.py`, `circuit.py`)
  * `stmtsEq_true_iff`, `circuit_eq_pointwise`   `True ⇔` same register sizes ∧ same length ∧ pairwise `stmtEq … = True`
  * `circuitEq_sound`, `circuitEq_ne_of_stmt`
  * `stmtEq_refl_exact`, `circuitEq_refl_exact`, `circuitEq_refl_crisp`
  * `circuitEq_ne_of_gate_differs`, `circuitEq_false_of_gate_differs`   one gate statement with a different operator ⇒ unequal
  Concrete operators / examples
  * `gateOp_bsr_zero` (`I(q) ↦ 1`), `gateOp_bsr_phase`, `gateOp_ctrl_of_one`, `rot_Z_entries`, `gateOp_CZ_apply`, `gateOp_CZ_comm`,
    `gateOp_CZm` (the matrix gate `diag(1,1,1,-1)`), and `example`s: CZ(0,1) / CZ(1,0) / matrix gate; X(0) in two
    representations; I(0) vs I(1); X(0) vs X(1); the empty replacement for I(0); foreign qubit; circuits.
-/

open Matrix

namespace OSq

/-! ## 1. `lift` is injective -/

section liftInj
variable {n k : Nat} (idx : List Nat) (hk : idx.length = k) (hnd : idx.Nodup) (hlt : ∀ q ∈ idx, q < n)
include hnd hlt

/-- the register ket whose bits at `idx` spell `j` and whose other bits are `0` -/
def ketAt (j : Fin (2 ^ k)) : Fin (2 ^ n) :=
  ⟨expandKet 0 j.val idx, expandKet_lt _ _ _ (Nat.two_pow_pos n) hlt⟩

omit hnd in
theorem agreeOff_ketAt (i j : Fin (2 ^ k)) :
    agreeOff n idx (ketAt idx hlt i : Fin (2 ^ n)).val (ketAt idx hlt j : Fin (2 ^ n)).val :=
  agreeOff_trans (agreeOff_symm (agreeOff_expandKet n idx 0 i.val)) (agreeOff_expandKet n idx 0 j.val)

theorem subKet_ketAt (j : Fin (2 ^ k)) : subKet idx hk (ketAt idx hlt j : Fin (2 ^ n)) = j := by
  apply Fin.ext
  exact reducedKet_expandKet idx hnd 0 j.val (by rw [hk]; exact j.isLt)

/-- every entry of `m` is an entry of `lift idx m` (at kets that are zero outside `idx`) -/
theorem lift_ketAt (m : Op k) (i j : Fin (2 ^ k)) :
    (lift idx hk m : Op n) (ketAt idx hlt i) (ketAt idx hlt j) = m i j := by
  rw [lift_apply, if_pos (agreeOff_ketAt idx hlt i j), subKet_ketAt idx hk hnd hlt,
    subKet_ketAt idx hk hnd hlt]

/-- **`lift` is injective** (duplicate-free, in-range positions) -/
theorem lift_injective {a b : Op k} (h : (lift idx hk a : Op n) = lift idx hk b) : a = b := by
  ext i j
  rw [← lift_ketAt idx hk hnd hlt a i j, ← lift_ketAt idx hk hnd hlt b i j, h]

theorem lift_eq_iff {a b : Op k} : (lift idx hk a : Op n) = lift idx hk b ↔ a = b :=
  ⟨lift_injective idx hk hnd hlt, fun h => by rw [h]⟩

/-- hence equality up to a scalar can be read on either side of the embedding -/
theorem lift_eq_smul_iff {a b : Op k} (z : ℂ) :
    (lift idx hk a : Op n) = z • lift idx hk b ↔ a = z • b := by
  rw [← lift_smul, lift_eq_iff idx hk hnd hlt]

end liftInj

/-! ## Crisp comparisons: `equivPhase` at the exact level -/

/-- **the tests made by `equivPhase atol a b` are honest**: with `l = argmaxAbs a` and the measured (normalised)
    phase `z = pivotPhase a b = w/‖w‖`, `w = a_l / b_l`, the two pivot tests `‖a_l‖ < atol`, `‖b_l‖ < atol` fire only
    for a zero entry, and every closeness test `‖a_k − z·b_k‖ ≤ atol + 1e-5·‖z·b_k‖` holds only when `a_k = z·b_k`. -/
def CrispCmp (atol : ℝ) (a b : Mat ℝ) : Prop :=
  (‖a.flat (argmaxAbs a)‖ < atol → a.flat (argmaxAbs a) = 0) ∧
  (‖b.flat (argmaxAbs a)‖ < atol → b.flat (argmaxAbs a) = 0) ∧
  ∀ k, k < a.n * a.n →
    ‖a.flat k - pivotPhase a b * b.flat k‖ ≤ atol + 1e-5 * ‖pivotPhase a b * b.flat k‖ →
    a.flat k = pivotPhase a b * b.flat k

/-- **`equivPhase`, exact level**: for a non-zero `a` and honest tests, the verdict is `True` exactly when
    `a = z • b` for some complex `z` of modulus one — a genuine global phase (before the repair of the Python
    code the right-hand side was only `∃ z ≠ 0`: any non-zero multiple was accepted). -/
theorem equivPhase_iff_crisp (atol : ℝ) (hatol : 0 < atol) (N : Nat) (a b : Mat ℝ)
    (ha : a.n = N) (hb : b.n = N) (hne : a.toMatrixOn N ≠ 0) (hc : CrispCmp atol a b) :
    equivPhase atol a b = true ↔ ∃ z : ℂ, ‖z‖ = 1 ∧ a.toMatrixOn N = z • b.toMatrixOn N := by
  obtain ⟨hpa, hpb, hck⟩ := hc
  constructor
  · intro h
    obtain ⟨z, hz, H⟩ := equivPhase_crisp atol hatol N a b ha hb h (by rw [← ha]; exact hck)
    refine ⟨z, hz, ?_⟩
    ext i j
    simp only [Mat.toMatrixOn_apply, Matrix.smul_apply, smul_eq_mul]
    exact H i j i.isLt j.isLt
  · rintro ⟨z, hz, H⟩
    have hflat : ∀ k, k < N * N → a.flat k = z * b.flat k := by
      intro k hk
      have hN : 0 < N := by
        rcases Nat.eq_zero_or_pos N with h0 | h0
        · subst h0; simp at hk
        · exact h0
      rw [Mat.flat_eq_get a ha, Mat.flat_eq_get b hb]
      have := congrFun (congrFun H ⟨k / N, (Nat.div_lt_iff_lt_mul hN).mpr hk⟩) ⟨k % N, Nat.mod_lt _ hN⟩
      simpa [Mat.toMatrixOn_apply] using this
    -- some entry of `a` is non-zero, hence so is the pivot
    have hex : ∃ i j : Fin N, a.toMatrixOn N i j ≠ 0 := by
      by_contra hcon
      apply hne
      ext i j
      by_contra hij
      exact hcon ⟨i, j, hij⟩
    obtain ⟨i, j, hij⟩ := hex
    have hN : 0 < N := Nat.lt_of_le_of_lt (Nat.zero_le _) i.isLt
    have hl : argmaxAbs a < N * N := by
      have := (argmaxAbs_spec a (by omega)).1
      rwa [ha] at this
    have hal : a.flat (argmaxAbs a) ≠ 0 := by
      intro h0
      have hmax := argmaxAbs_max a (i.val * N + j.val) (by rw [ha]; exact Mat.index_lt i.isLt j.isLt)
      rw [Mat.absAt_eq, Mat.absAt_eq, h0, norm_zero, ← Mat.get_eq_flat a ha] at hmax
      apply hij
      rw [Mat.toMatrixOn_apply]
      exact norm_le_zero_iff.mp hmax
    have hbl : b.flat (argmaxAbs a) ≠ 0 := by
      intro h0
      apply hal
      rw [hflat _ hl, h0, mul_zero]
    have hph : pivotPhase a b = z := by
      apply pivotPhase_of_unit a b hz
      rw [hflat _ hl, mul_div_assoc, div_self hbl, mul_one]
    rw [equivPhase_iff]
    refine ⟨fun h => hal (hpa h), fun h => hbl (hpb h), ?_⟩
    intro k hk
    rw [ha] at hk
    rw [hph, hflat k hk, sub_self, norm_zero]
    have : (0 : ℝ) ≤ 1e-5 * ‖z * b.flat k‖ := mul_nonneg rtol_real_nonneg (norm_nonneg _)
    linarith

/-! ## 4. `check_gate_replacement`, register level, exact -/

section generic
variable {α : Type} [Scalar α]

/-- `localMatrix` of a gate list exists as soon as every operand is listed and every matrix node fits -/
theorem localMatrix_list_ok_of (idx : List Int) (gs : List (Gate α))
    (h : ∀ r ∈ gs, (∀ q ∈ r.operands, q ∈ idx) ∧ r.dimOk) : ∃ B, localMatrix idx gs = .ok B := by
  have hmap : gs.mapM (reindexGate idx) = .ok (gs.map fun g => g.pos idx) :=
    mapM_ok_of _ _ gs (fun r hr => by rw [reindexGate_eq, if_pos (h r hr).1])
  obtain ⟨B, hB⟩ := (circuitMatrix_ok_iff idx.length
      ((gs.map fun g => g.pos idx).map fun g => Stmt.gate g none)).mpr (by
    intro g nm hg
    obtain ⟨g', hg', e⟩ := List.mem_map.mp hg
    obtain ⟨r, hr, rfl⟩ := List.mem_map.mp hg'
    cases e
    exact (expand_ok_iff _).mpr ⟨Gate.pos_inReg idx r (h r hr).1, (Gate.pos_dimOk idx r).mpr (h r hr).2⟩)
  exact ⟨B, by simp only [localMatrix, hmap, bind, Except.bind]; exact hB⟩

/-- the three outcomes of `check_gate_replacement` -/
theorem checkGateReplacement_foreign (atol : α) (g : Gate α) (gs : List (Gate α))
    (h : ∃ r ∈ gs, ∃ q ∈ r.operands, q ∉ g.operands) : checkGateReplacement atol g gs = some .value := by
  obtain ⟨r, hr, q, hq, hnot⟩ := h
  have hall : ((gs.map Gate.operands).flatten.all fun q => g.operands.contains q) = false := by
    rw [List.all_eq_false]
    exact ⟨q, List.mem_flatten.mpr ⟨r.operands, List.mem_map.mpr ⟨r, hr, rfl⟩, hq⟩, by simpa using hnot⟩
  simp only [checkGateReplacement, hall, Bool.not_false, if_true]

theorem checkGateReplacement_local (atol : α) (g : Gate α) (gs : List (Gate α))
    (h : ∀ r ∈ gs, ∀ q ∈ r.operands, q ∈ g.operands) {A B : Mat α}
    (hA : localMatrix g.operands [g] = .ok A) (hB : localMatrix g.operands gs = .ok B) :
    checkGateReplacement atol g gs = if equivPhase atol A B then none else some .value := by
  have hall : ((gs.map Gate.operands).flatten.all fun q => g.operands.contains q) = true := by
    rw [List.all_eq_true]
    intro q hq
    obtain ⟨l, hl, hql⟩ := List.mem_flatten.mp hq
    obtain ⟨r, hr, rfl⟩ := List.mem_map.mp hl
    simpa using h r hr q hql
  simp only [checkGateReplacement, hall, hA, hB, Bool.not_true, Bool.false_eq_true, if_false]

end generic

/-- **C06, rejection of foreign qubits**: a replacement touching a qubit outside the gate's operands is rejected
    with `ValueError`, whatever its matrix (any scalar type, any tolerance). -/
theorem checkGateReplacement_reject_foreign {α : Type} [Scalar α] (atol : α) (g : Gate α) (gs : List (Gate α))
    (r : Gate α) (hr : r ∈ gs) (q : Int) (hq : q ∈ r.operands) (hnot : q ∉ g.operands) :
    checkGateReplacement atol g gs = some .value :=
  checkGateReplacement_foreign atol g gs ⟨r, hr, q, hq, hnot⟩

/-- acceptance implies that the replacement only touches the gate's qubits and both local matrices exist -/
theorem checkGateReplacement_none_local {α : Type} [Scalar α] (atol : α) (g : Gate α) (gs : List (Gate α))
    (h : checkGateReplacement atol g gs = none) :
    (∀ r ∈ gs, ∀ q ∈ r.operands, q ∈ g.operands) ∧
      ∃ A B, localMatrix g.operands [g] = .ok A ∧ localMatrix g.operands gs = .ok B ∧
        equivPhase atol A B = true := by
  have hloc : ∀ r ∈ gs, ∀ q ∈ r.operands, q ∈ g.operands := by
    intro r hr q hq
    by_contra hnot
    rw [checkGateReplacement_foreign atol g gs ⟨r, hr, q, hq, hnot⟩] at h
    cases h
  refine ⟨hloc, ?_⟩
  have hall : ((gs.map Gate.operands).flatten.all fun q => g.operands.contains q) = true := by
    rw [List.all_eq_true]
    intro q hq
    obtain ⟨l, hl, hql⟩ := List.mem_flatten.mp hq
    obtain ⟨r, hr, rfl⟩ := List.mem_map.mp hl
    simpa using hloc r hr q hql
  cases hA : localMatrix g.operands [g] with
  | error e =>
    simp only [checkGateReplacement, hall, hA, Bool.not_true, Bool.false_eq_true, if_false] at h
    cases h
  | ok A =>
    cases hB : localMatrix g.operands gs with
    | error e =>
      simp only [checkGateReplacement, hall, hA, hB, Bool.not_true, Bool.false_eq_true, if_false] at h
      cases h
    | ok B =>
      rw [checkGateReplacement_local atol g gs hloc hA hB] at h
      refine ⟨A, B, rfl, rfl, ?_⟩
      by_contra hne
      rw [if_neg hne] at h
      cases h

/-- the register operator of `g` is the lift of its local matrix on its own operands -/
theorem gateOp_eq_lift_local {n : Nat} {g : Gate ℝ} (hwf : GateWF n g) {A : Mat ℝ}
    (hA : localMatrix g.operands [g] = .ok A) :
    gateOp n g = lift (g.operands.map Int.toNat) (List.length_map _) (A.toMatrixOn (2 ^ g.operands.length)) := by
  have := localMatrix_lift (n := n) g.operands hwf.1 hwf.2 hA []
  rw [this]
  simp [gateStmts]

/-- **C06 at the register level, exact.**  For a gate with distinct in-range operands whose operator is not
    zero (automatic for a unitary), replacement gates whose matrix nodes have the right size, and honest
    tolerance tests: `check_gate_replacement` accepts **exactly when** the replacement acts on the gate's qubits
    only and its operator on the whole register equals the gate's operator up to a global phase (a scalar of
    modulus one; a mere non-zero multiple is rejected). -/
theorem checkGateReplacement_iff_exact (atol : ℝ) (hatol : 0 < atol) (n : Nat) (g : Gate ℝ) (gs : List (Gate ℝ))
    (hwf : GateWF n g) (hd : g.dimOk) (hds : ∀ r ∈ gs, r.dimOk) (hne : gateOp n g ≠ 0)
    (hcrisp : ∀ A B, localMatrix g.operands [g] = .ok A → localMatrix g.operands gs = .ok B →
      CrispCmp atol A B) :
    checkGateReplacement atol g gs = none ↔
      (∀ r ∈ gs, ∀ q ∈ r.operands, q ∈ g.operands) ∧
        ∃ z : ℂ, ‖z‖ = 1 ∧ circOp n (gateStmts gs) [] = z • gateOp n g := by
  have hndN := nodup_map_toNat (n := n) g.operands hwf.1 hwf.2
  have hltN := map_toNat_lt (n := n) g.operands hwf.2
  -- the criterion once both local matrices are at hand
  have key : ∀ A B, localMatrix g.operands [g] = .ok A → localMatrix g.operands gs = .ok B →
      (equivPhase atol A B = true ↔ ∃ z : ℂ, ‖z‖ = 1 ∧ circOp n (gateStmts gs) [] = z • gateOp n g) := by
    intro A B hA hB
    have hgA := gateOp_eq_lift_local hwf hA
    have hgB := localMatrix_lift (n := n) g.operands hwf.1 hwf.2 hB []
    have hneA : A.toMatrixOn (2 ^ g.operands.length) ≠ 0 := by
      intro h0
      apply hne
      rw [hgA, h0, lift_zero]
    rw [equivPhase_iff_crisp atol hatol _ A B (localMatrix_dim hA).1 (localMatrix_dim hB).1 hneA
      (hcrisp A B hA hB), ← hgB, hgA]
    constructor
    · rintro ⟨z, hz, H⟩
      refine ⟨z⁻¹, norm_inv_of_norm_one hz, ?_⟩
      rw [H, lift_smul, smul_smul, inv_mul_cancel₀ (ne_zero_of_norm_one hz), one_smul]
    · rintro ⟨z, hz, H⟩
      refine ⟨z⁻¹, norm_inv_of_norm_one hz, ?_⟩
      rw [lift_eq_smul_iff _ _ hndN hltN] at H
      rw [H, smul_smul, inv_mul_cancel₀ (ne_zero_of_norm_one hz), one_smul]
  constructor
  · intro h
    obtain ⟨hloc, A, B, hA, hB, heq⟩ := checkGateReplacement_none_local atol g gs h
    exact ⟨hloc, (key A B hA hB).mp heq⟩
  · rintro ⟨hloc, hz⟩
    obtain ⟨A, hA⟩ := (localMatrix_single_ok_iff g.operands g).mpr ⟨fun q hq => hq, hd⟩
    obtain ⟨B, hB⟩ := localMatrix_list_ok_of g.operands gs (fun r hr => ⟨hloc r hr, hds r hr⟩)
    rw [checkGateReplacement_local atol g gs hloc hA hB, (key A B hA hB).mpr hz, if_pos rfl]

/-- the identity-gate case: the empty replacement is accepted exactly for a gate that is a unit multiple (a phase times) of `1` -/
theorem checkGateReplacement_nil_iff_exact (atol : ℝ) (hatol : 0 < atol) (n : Nat) (g : Gate ℝ)
    (hwf : GateWF n g) (hd : g.dimOk) (hne : gateOp n g ≠ 0)
    (hcrisp : ∀ A B, localMatrix g.operands [g] = .ok A → localMatrix g.operands [] = .ok B →
      CrispCmp atol A B) :
    checkGateReplacement atol g [] = none ↔ ∃ z : ℂ, ‖z‖ = 1 ∧ gateOp n g = z • (1 : Op n) := by
  rw [checkGateReplacement_iff_exact atol hatol n g [] hwf hd (by simp) hne hcrisp]
  simp only [List.not_mem_nil, false_imp_iff, implies_true, true_and, gateStmts, List.map_nil, circOp_nil]
  constructor
  · rintro ⟨z, hz, H⟩
    exact ⟨z⁻¹, norm_inv_of_norm_one hz, by rw [H, smul_smul, inv_mul_cancel₀ (ne_zero_of_norm_one hz), one_smul]⟩
  · rintro ⟨z, hz, H⟩
    exact ⟨z⁻¹, norm_inv_of_norm_one hz, by rw [H, smul_smul, inv_mul_cancel₀ (ne_zero_of_norm_one hz), one_smul]⟩

/-- **C06, rejection**: under the same hypotheses the only other outcome is `ValueError`, raised exactly when the
    replacement touches a foreign qubit or its register operator is not a unit multiple (phase multiple) of the gate's. -/
theorem checkGateReplacement_reject_iff_exact (atol : ℝ) (hatol : 0 < atol) (n : Nat) (g : Gate ℝ)
    (gs : List (Gate ℝ)) (hwf : GateWF n g) (hd : g.dimOk) (hds : ∀ r ∈ gs, r.dimOk) (hne : gateOp n g ≠ 0)
    (hcrisp : ∀ A B, localMatrix g.operands [g] = .ok A → localMatrix g.operands gs = .ok B →
      CrispCmp atol A B) :
    checkGateReplacement atol g gs = some .value ↔
      ¬ ((∀ r ∈ gs, ∀ q ∈ r.operands, q ∈ g.operands) ∧
        ∃ z : ℂ, ‖z‖ = 1 ∧ circOp n (gateStmts gs) [] = z • gateOp n g) := by
  rw [← checkGateReplacement_iff_exact atol hatol n g gs hwf hd hds hne hcrisp]
  by_cases hloc : ∀ r ∈ gs, ∀ q ∈ r.operands, q ∈ g.operands
  · obtain ⟨A, hA⟩ := (localMatrix_single_ok_iff g.operands g).mpr ⟨fun q hq => hq, hd⟩
    obtain ⟨B, hB⟩ := localMatrix_list_ok_of g.operands gs (fun r hr => ⟨hloc r hr, hds r hr⟩)
    rw [checkGateReplacement_local atol g gs hloc hA hB]
    split <;> simp
  · have hex : ∃ r ∈ gs, ∃ q ∈ r.operands, q ∉ g.operands := by
      by_contra hcon
      apply hloc
      intro r hr q hq
      by_contra hq'
      exact hcon ⟨r, hr, q, hq, hq'⟩
    rw [checkGateReplacement_foreign atol g gs hex]
    simp

/-! ## 2. `compare_gates`, register level, exact -/

/-- if two unitaries differ by a scalar factor, the factor has modulus one -/
theorem unit_of_unitary_smul {m : Type} [Fintype m] [DecidableEq m] [Nonempty m] {A B : Matrix m m ℂ}
    (hA : A ∈ Matrix.unitaryGroup m ℂ) (hB : B ∈ Matrix.unitaryGroup m ℂ) {z : ℂ} (h : A = z • B) :
    ‖z‖ = 1 := by
  rw [Matrix.mem_unitaryGroup_iff'] at hA hB
  rw [h, star_smul, smul_mul_smul_comm, hB] at hA
  obtain ⟨i⟩ := ‹Nonempty m›
  have h1 := congrFun (congrFun hA i) i
  simp only [Matrix.smul_apply, Matrix.one_apply_eq, smul_eq_mul, mul_one] at h1
  have h2 : ((Complex.normSq z : ℝ) : ℂ) = 1 := by
    rw [Complex.normSq_eq_conj_mul_self]; exact h1
  have h3 : Complex.normSq z = 1 := by exact_mod_cast h2
  rw [Complex.normSq_eq_norm_sq] at h3
  have h4 : (‖z‖ - 1) * (‖z‖ + 1) = 0 := by ring_nf; rw [h3]; ring
  rcases mul_eq_zero.mp h4 with h5 | h5
  · linarith
  · have := norm_nonneg z; linarith

/-- a unitary is not the zero operator -/
theorem ne_zero_of_unitary {m : Type} [Fintype m] [DecidableEq m] [Nonempty m] {A : Matrix m m ℂ}
    (hA : A ∈ Matrix.unitaryGroup m ℂ) : A ≠ 0 := by
  intro h0
  rw [Matrix.mem_unitaryGroup_iff', h0, mul_zero] at hA
  obtain ⟨i⟩ := ‹Nonempty m›
  have := congrFun (congrFun hA i) i
  simp at this

/-- a unitary `N × N` matrix has an entry of modulus `≥ atol` as soon as `atol² · N ≤ 1` (so for a unitary gate
    operator on `n` qubits the "large entry" hypothesis of the acceptance theorems is automatic for
    `atol ≤ 2^{-n/2}`) -/
theorem exists_big_of_unitary {N : Nat} (hN : 0 < N) {A : Matrix (Fin N) (Fin N) ℂ}
    (hA : A ∈ Matrix.unitaryGroup (Fin N) ℂ) (atol : ℝ) (h : atol ^ 2 * N ≤ 1) :
    ∃ r c, atol ≤ ‖A r c‖ := by
  by_contra hcon
  have hlt : ∀ r c, ‖A r c‖ < atol := by
    intro r c
    by_contra hrc
    exact hcon ⟨r, c, not_lt.mp hrc⟩
  have h1 := congrFun (congrFun (Matrix.mem_unitaryGroup_iff'.mp hA) ⟨0, hN⟩) ⟨0, hN⟩
  rw [Matrix.mul_apply] at h1
  simp only [Matrix.star_apply, Matrix.one_apply_eq] at h1
  have h2 : (∑ i, ‖A i ⟨0, hN⟩‖ ^ 2 : ℝ) = 1 := by
    have : ((∑ i, ‖A i ⟨0, hN⟩‖ ^ 2 : ℝ) : ℂ) = 1 := by
      rw [← h1]
      push_cast
      apply Finset.sum_congr rfl
      intro i _
      have hstar : star (A i ⟨0, hN⟩) * A i ⟨0, hN⟩ = ((Complex.normSq (A i ⟨0, hN⟩) : ℝ) : ℂ) := by
        rw [Complex.normSq_eq_conj_mul_self]; rfl
      rw [hstar, Complex.normSq_eq_norm_sq]
      push_cast
      rfl
    exact_mod_cast this
  have h3 : (∑ i, ‖A i ⟨0, hN⟩‖ ^ 2 : ℝ) < ∑ _i : Fin N, atol ^ 2 :=
    Finset.sum_lt_sum_of_nonempty ⟨⟨0, hN⟩, Finset.mem_univ _⟩
      (fun i _ => pow_lt_pow_left₀ (hlt i _) (norm_nonneg _) two_ne_zero)
  rw [h2, Finset.sum_const, Finset.card_univ, Fintype.card_fin, nsmul_eq_mul] at h3
  linarith

/-- the register operator of a gate is the lift of its local matrix on any admissible enumeration -/
theorem gateOp_eq_lift_localMatrix {n : Nat} (idx : List Int) (hnd : idx.Nodup)
    (hreg : ∀ q ∈ idx, 0 ≤ q ∧ q < (n : Int)) {g : Gate ℝ} {A : Mat ℝ} (hA : localMatrix idx [g] = .ok A) :
    gateOp n g = lift (idx.map Int.toNat) (List.length_map _) (A.toMatrixOn (2 ^ idx.length)) := by
  rw [localMatrix_lift (n := n) idx hnd hreg hA []]
  simp [gateStmts]

/-- **`compare_gates` for any enumeration of the qubits, register level, exact.**  `idx` is a duplicate-free
    in-range list containing the operands of both gates. -/
theorem compareGatesWith_iff_exact (atol : ℝ) (hatol : 0 < atol) (n : Nat) (idx : List Int) (hnd : idx.Nodup)
    (hreg : ∀ q ∈ idx, 0 ≤ q ∧ q < (n : Int)) (g1 g2 : Gate ℝ)
    (h1 : ∀ q ∈ g1.operands, q ∈ idx) (hd1 : g1.dimOk) (h2 : ∀ q ∈ g2.operands, q ∈ idx) (hd2 : g2.dimOk)
    (hne : gateOp n g1 ≠ 0)
    (hcrisp : ∀ A B, localMatrix idx [g1] = .ok A → localMatrix idx [g2] = .ok B → CrispCmp atol A B) :
    (∃ v, compareGatesWith atol idx g1 g2 = .ok v) ∧
    (compareGatesWith atol idx g1 g2 = .ok true ↔ ∃ z : ℂ, ‖z‖ = 1 ∧ gateOp n g1 = z • gateOp n g2) := by
  obtain ⟨A, hA⟩ := (localMatrix_single_ok_iff idx g1).mpr ⟨h1, hd1⟩
  obtain ⟨B, hB⟩ := (localMatrix_single_ok_iff idx g2).mpr ⟨h2, hd2⟩
  have hgA := gateOp_eq_lift_localMatrix (n := n) idx hnd hreg hA
  have hgB := gateOp_eq_lift_localMatrix (n := n) idx hnd hreg hB
  have hneA : A.toMatrixOn (2 ^ idx.length) ≠ 0 := by
    intro h0
    apply hne
    rw [hgA, h0, lift_zero]
  rw [compareGatesWith_eq atol idx g1 g2 hA hB]
  refine ⟨⟨_, rfl⟩, ?_⟩
  rw [Except.ok.injEq, equivPhase_iff_crisp atol hatol _ A B (localMatrix_dim hA).1 (localMatrix_dim hB).1 hneA
    (hcrisp A B hA hB), hgA, hgB]
  constructor
  · rintro ⟨z, hz, H⟩
    exact ⟨z, hz, by rw [H, lift_smul]⟩
  · rintro ⟨z, hz, H⟩
    exact ⟨z, hz, (lift_eq_smul_iff _ _ (nodup_map_toNat idx hnd hreg) (map_toNat_lt idx hreg) z).mp H⟩

/-- the union of the operands of two in-range gates is an admissible enumeration -/
theorem dedup_union_reg {n : Nat} {g1 g2 : Gate ℝ} (h1 : g1.inReg n) (h2 : g2.inReg n) :
    ∀ q ∈ dedup (g1.operands ++ g2.operands), 0 ≤ q ∧ q < (n : Int) := by
  intro q hq
  rw [mem_dedup, List.mem_append] at hq
  rcases hq with hq | hq
  · exact h1 q hq
  · exact h2 q hq

/-- **C16 for `compare_gates`, register level, exact.**  For two gates with in-range operands and fitting matrix
    sizes, `g1`'s operator not zero (automatic for a unitary) and honest tolerance tests on the two local matrices
    over the union `U = dedup (g1.operands ++ g2.operands)`: `compare_gates(g1, g2)` is `True` **exactly when** the two
    operators on the whole register are equal up to a global phase (a scalar of modulus one); it never raises. -/
theorem compareGates_iff_exact (atol : ℝ) (hatol : 0 < atol) (n : Nat) (g1 g2 : Gate ℝ)
    (h1 : g1.inReg n) (hd1 : g1.dimOk) (h2 : g2.inReg n) (hd2 : g2.dimOk) (hne : gateOp n g1 ≠ 0)
    (hcrisp : ∀ A B, localMatrix (dedup (g1.operands ++ g2.operands)) [g1] = .ok A →
      localMatrix (dedup (g1.operands ++ g2.operands)) [g2] = .ok B → CrispCmp atol A B) :
    compareGates atol g1 g2 = .ok true ↔ ∃ z : ℂ, ‖z‖ = 1 ∧ gateOp n g1 = z • gateOp n g2 := by
  rw [compareGates_eq_with]
  exact (compareGatesWith_iff_exact atol hatol n _ (dedup_nodup _) (dedup_union_reg h1 h2) g1 g2
    (fun q hq => (mem_dedup _ q).mpr (List.mem_append_left _ hq)) hd1
    (fun q hq => (mem_dedup _ q).mpr (List.mem_append_right _ hq)) hd2 hne hcrisp).2

/-- … and otherwise it is `False` (no error) -/
theorem compareGates_false_iff_exact (atol : ℝ) (hatol : 0 < atol) (n : Nat) (g1 g2 : Gate ℝ)
    (h1 : g1.inReg n) (hd1 : g1.dimOk) (h2 : g2.inReg n) (hd2 : g2.dimOk) (hne : gateOp n g1 ≠ 0)
    (hcrisp : ∀ A B, localMatrix (dedup (g1.operands ++ g2.operands)) [g1] = .ok A →
      localMatrix (dedup (g1.operands ++ g2.operands)) [g2] = .ok B → CrispCmp atol A B) :
    compareGates atol g1 g2 = .ok false ↔ ¬ ∃ z : ℂ, ‖z‖ = 1 ∧ gateOp n g1 = z • gateOp n g2 := by
  rw [← compareGates_iff_exact atol hatol n g1 g2 h1 hd1 h2 hd2 hne hcrisp, compareGates_eq_with]
  obtain ⟨v, hv⟩ := (compareGatesWith_iff_exact atol hatol n _ (dedup_nodup _) (dedup_union_reg h1 h2) g1 g2
    (fun q hq => (mem_dedup _ q).mpr (List.mem_append_left _ hq)) hd1
    (fun q hq => (mem_dedup _ q).mpr (List.mem_append_right _ hq)) hd2 hne hcrisp).1
  rw [hv]
  cases v <;> simp

/-- for unitary gate operators (kept under its old name: since the measured phase is normalised,
    `compareGates_iff_exact` itself now has `‖z‖ = 1`; unitarity only supplies `gateOp n g1 ≠ 0`) -/
theorem compareGates_iff_exact_unitary (atol : ℝ) (hatol : 0 < atol) (n : Nat) (g1 g2 : Gate ℝ)
    (h1 : g1.inReg n) (hd1 : g1.dimOk) (h2 : g2.inReg n) (hd2 : g2.dimOk)
    (hu1 : gateOp n g1 ∈ Matrix.unitaryGroup (Fin (2 ^ n)) ℂ)
    (hcrisp : ∀ A B, localMatrix (dedup (g1.operands ++ g2.operands)) [g1] = .ok A →
      localMatrix (dedup (g1.operands ++ g2.operands)) [g2] = .ok B → CrispCmp atol A B) :
    compareGates atol g1 g2 = .ok true ↔ ∃ z : ℂ, ‖z‖ = 1 ∧ gateOp n g1 = z • gateOp n g2 := by
  have : Nonempty (Fin (2 ^ n)) := ⟨⟨0, Nat.two_pow_pos n⟩⟩
  exact compareGates_iff_exact atol hatol n g1 g2 h1 hd1 h2 hd2 (ne_zero_of_unitary hu1) hcrisp

/-! ## 3. `Gate.__eq__` (the dispatch `gateEq`), register level, exact -/

/-- an operator on qubit `q1` that is also an operator on a different qubit `q2` is a multiple of the identity
    (both are the same multiple) -/
theorem lift_disjoint_eq {n : Nat} (q1 q2 : Nat) (h1 : q1 < n) (h2 : q2 < n) (hne : q1 ≠ q2) (U V : Op 1) :
    (lift [q1] rfl U : Op n) = lift [q2] rfl V ↔ ∃ c : ℂ, U = c • (1 : Op 1) ∧ V = c • (1 : Op 1) := by
  have hnd1 : [q1].Nodup := by simp
  have hnd2 : [q2].Nodup := by simp
  have hlt1 : ∀ q ∈ [q1], q < n := by simpa using h1
  have hlt2 : ∀ q ∈ [q2], q < n := by simpa using h2
  constructor
  · intro h
    -- `U` commutes with every one-qubit operator
    have hcomm : ∀ W : Op 1, U * W = W * U := by
      intro W
      apply lift_injective (n := n) [q1] rfl hnd1 hlt1
      rw [lift_mul _ _ hnd1 hlt1, lift_mul _ _ hnd1 hlt1, h]
      exact lift_commute [q2] [q1] rfl rfl hnd2 hlt2 hnd1 hlt1
        (by intro q hq hq'; simp only [List.mem_singleton] at hq hq'; exact hne (hq'.symm.trans hq)) V W
    have hU : U ∈ Set.range (Matrix.scalar (Fin (2 ^ 1))) := by
      apply Matrix.mem_range_scalar_of_commute_single
      intro i j _
      exact (hcomm _).symm
    obtain ⟨c, hc⟩ := hU
    have hU' : U = c • (1 : Op 1) := by
      rw [← hc, Matrix.scalar_apply, Matrix.smul_one_eq_diagonal]
    refine ⟨c, hU', ?_⟩
    apply lift_injective (n := n) [q2] rfl hnd2 hlt2
    rw [← h, hU', lift_smul, lift_smul, lift_one, lift_one]
  · rintro ⟨c, rfl, rfl⟩
    rw [lift_smul, lift_smul, lift_one, lift_one]

/-- a plain rotation on an in-range qubit is the lift of the rotation on a one-qubit register -/
theorem gateOp_bsr_lift1 (n : Nat) (q : Int) (hq : 0 ≤ q ∧ q < (n : Int)) (ax : Vec3 ℝ) (an ph : ℝ) :
    gateOp n (.bsr q ax an ph) = lift [q.toNat] rfl (gateOp 1 (.bsr 0 ax an ph)) := by
  have := gateOp_eq_lift (n := n) [q] (by simp) (by simpa using hq) (.bsr q ax an ph) (by simp [Gate.operands])
  simp only [Gate.pos, List.idxOf_cons_self, List.length_cons, List.length_nil] at this
  exact this

/-- … which is the textbook operator `rot` -/
theorem gateOp1_bsr_apply (ax : Vec3 ℝ) (an ph : ℝ) (r c : Fin (2 ^ 1)) :
    gateOp 1 (.bsr 0 ax an ph) r c = Sem.rot ax an ph ⟨r.val, r.isLt⟩ ⟨c.val, c.isLt⟩ := by
  rw [gateOp_apply]
  simp only [denote, embed1, Int.toNat_zero]
  rw [if_pos (agreeOff_one_zero _ _)]
  have hb : ∀ x : Fin (2 ^ 1), bitOf x.val 0 = x.val := by
    intro x
    have : x.val < 2 := x.isLt
    unfold bitOf
    rcases Nat.lt_or_ge x.val 1 with h | h
    · have : x.val = 0 := by omega
      simp [this]
    · have : x.val = 1 := by omega
      simp [this]
  rw [hb r, hb c]
  exact can1_get ax an ph ⟨r.val, r.isLt⟩ ⟨c.val, c.isLt⟩

theorem gateOp1_bsr_eq_iff (a1 : Vec3 ℝ) (n1 p1 : ℝ) (a2 : Vec3 ℝ) (n2 p2 : ℝ) :
    gateOp 1 (.bsr 0 a1 n1 p1) = gateOp 1 (.bsr 0 a2 n2 p2) ↔ Sem.rot a1 n1 p1 = Sem.rot a2 n2 p2 := by
  constructor
  · intro h
    ext i j
    have := congrFun (congrFun h ⟨i.val, i.isLt⟩) ⟨j.val, j.isLt⟩
    rw [gateOp1_bsr_apply, gateOp1_bsr_apply] at this
    exact this
  · intro h
    ext r c
    rw [gateOp1_bsr_apply, gateOp1_bsr_apply, h]

theorem gateOp1_bsr_eq_smul_one_iff (a : Vec3 ℝ) (n1 p1 : ℝ) (c : ℂ) :
    gateOp 1 (.bsr 0 a n1 p1) = c • (1 : Op 1) ↔ Sem.rot a n1 p1 = c • (1 : Matrix (Fin 2) (Fin 2) ℂ) := by
  constructor
  · intro h
    ext i j
    have := congrFun (congrFun h ⟨i.val, i.isLt⟩) ⟨j.val, j.isLt⟩
    rw [gateOp1_bsr_apply] at this
    simp only [Matrix.smul_apply, Matrix.one_apply, Fin.ext_iff] at this ⊢
    exact this
  · intro h
    ext r c'
    rw [gateOp1_bsr_apply, h]
    simp only [Matrix.smul_apply, Matrix.one_apply, Fin.ext_iff]

/-- **when are two plain rotations the same register operator?**  On the same qubit: when the 2×2 operators are
    equal; on different qubits: when both are the same multiple of the identity. -/
theorem gateOp_bsr_eq_iff (n : Nat) (q1 q2 : Int) (hq1 : 0 ≤ q1 ∧ q1 < (n : Int)) (hq2 : 0 ≤ q2 ∧ q2 < (n : Int))
    (a1 : Vec3 ℝ) (n1 p1 : ℝ) (a2 : Vec3 ℝ) (n2 p2 : ℝ) :
    gateOp n (.bsr q1 a1 n1 p1) = gateOp n (.bsr q2 a2 n2 p2) ↔
      if q1 = q2 then Sem.rot a1 n1 p1 = Sem.rot a2 n2 p2
      else ∃ c : ℂ, Sem.rot a1 n1 p1 = c • (1 : Matrix (Fin 2) (Fin 2) ℂ) ∧
        Sem.rot a2 n2 p2 = c • (1 : Matrix (Fin 2) (Fin 2) ℂ) := by
  rw [gateOp_bsr_lift1 n q1 hq1, gateOp_bsr_lift1 n q2 hq2]
  by_cases hq : q1 = q2
  · subst hq
    rw [if_pos rfl, lift_eq_iff [q1.toNat] rfl (by simp) (by simp; omega), gateOp1_bsr_eq_iff]
  · rw [if_neg hq, lift_disjoint_eq q1.toNat q2.toNat (by omega) (by omega) (by omega)]
    constructor
    · rintro ⟨c, h1, h2⟩
      exact ⟨c, (gateOp1_bsr_eq_smul_one_iff _ _ _ c).mp h1, (gateOp1_bsr_eq_smul_one_iff _ _ _ c).mp h2⟩
    · rintro ⟨c, h1, h2⟩
      exact ⟨c, (gateOp1_bsr_eq_smul_one_iff _ _ _ c).mpr h1, (gateOp1_bsr_eq_smul_one_iff _ _ _ c).mpr h2⟩

/-- **the tests made by `BlochSphereRotation.__eq__` are honest**: the "is a multiple of the identity" test (made
    when the qubits differ) and the closeness test of the two operators (made when the qubits agree or the first
    test passed) hold only for exact equality. -/
def CrispBsr (atol : ℝ) (q1 : Int) (a1 : Vec3 ℝ) (n1 p1 : ℝ) (q2 : Int) (a2 : Vec3 ℝ) (n2 p2 : ℝ) : Prop :=
  (q1 ≠ q2 → ∀ i j : Fin 2,
    ‖Sem.rot a1 n1 p1 i j - (if i = j then Sem.rot a1 n1 p1 0 0 else 0)‖
      ≤ atol + 1e-5 * ‖(if i = j then Sem.rot a1 n1 p1 0 0 else 0)‖ →
    Sem.rot a1 n1 p1 i j = (if i = j then Sem.rot a1 n1 p1 0 0 else 0)) ∧
  ((q1 = q2 ∨ isScalar2 atol (can1 a1 n1 p1) = true) → ∀ i j : Fin 2,
    ‖Sem.rot a1 n1 p1 i j - Sem.rot a2 n2 p2 i j‖ ≤ atol + 1e-5 * ‖Sem.rot a2 n2 p2 i j‖ →
    Sem.rot a1 n1 p1 i j = Sem.rot a2 n2 p2 i j)

/-- **C16 for two plain rotations, register level, exact**: `Gate.__eq__` is `True` exactly when the two register
    operators are equal — *including* the phase. -/
theorem gateEq_bsr_iff_exact (atol : ℝ) (hatol : 0 ≤ atol) (n : Nat) (q1 q2 : Int)
    (hq1 : 0 ≤ q1 ∧ q1 < (n : Int)) (hq2 : 0 ≤ q2 ∧ q2 < (n : Int))
    (a1 : Vec3 ℝ) (n1 p1 : ℝ) (a2 : Vec3 ℝ) (n2 p2 : ℝ) (hc : CrispBsr atol q1 a1 n1 p1 q2 a2 n2 p2) :
    gateEq atol (.bsr q1 a1 n1 p1) (.bsr q2 a2 n2 p2) = .ok true ↔
      gateOp n (.bsr q1 a1 n1 p1) = gateOp n (.bsr q2 a2 n2 p2) := by
  rw [gateOp_bsr_eq_iff n q1 q2 hq1 hq2]
  simp only [gateEq, Except.ok.injEq]
  obtain ⟨hc1, hc2⟩ := hc
  by_cases hq : q1 = q2
  · subst hq
    rw [if_pos rfl]
    constructor
    · intro h
      obtain ⟨_, hcl⟩ := bsrEq_sound _ _ _ _ _ _ _ _ _ h
      ext i j
      exact hc2 (Or.inl rfl) i j (hcl i j)
    · intro h
      exact bsrEq_complete_exact atol hatol q1 _ _ _ _ _ _ h
  · rw [if_neg hq]
    constructor
    · intro h
      have hs : isScalar2 atol (can1 a1 n1 p1) = true := by
        rcases (bsrEq_sound _ _ _ _ _ _ _ _ _ h).1 with h' | h'
        · exact absurd h' hq
        · exact h'
      exact bsrEq_diff_qubit_sound_exact atol q1 q2 hq a1 n1 p1 a2 n2 p2 (hc1 hq) (hc2 (Or.inr hs)) h
    · rintro ⟨c, h1, h2⟩
      exact bsrEq_complete_exact_diff atol hatol q1 q2 _ _ _ _ _ _ c h1 h2

/-- is the gate a plain rotation? -/
def Gate.isBsr {α : Type} : Gate α → Bool
  | .bsr _ _ _ _ => true
  | _ => false

/-- **what `Gate.__eq__` decides** (specification): two plain rotations — the same register operator, phase
    included; any other pair — the same register operator up to a global phase (a unit scalar). -/
def SameOp (n : Nat) (g1 g2 : Gate ℝ) : Prop :=
  if g1.isBsr = true ∧ g2.isBsr = true then gateOp n g1 = gateOp n g2
  else ∃ z : ℂ, ‖z‖ = 1 ∧ gateOp n g1 = z • gateOp n g2

/-- the honest-test hypothesis for the comparison `g1 == g2`, following the dispatch -/
def CrispEq (atol : ℝ) : Gate ℝ → Gate ℝ → Prop
  | .bsr q1 a1 n1 p1, .bsr q2 a2 n2 p2 => CrispBsr atol q1 a1 n1 p1 q2 a2 n2 p2
  | g1, g2 => ∀ A B, localMatrix (dedup (g1.operands ++ g2.operands)) [g1] = .ok A →
      localMatrix (dedup (g1.operands ++ g2.operands)) [g2] = .ok B → CrispCmp atol A B

/-- every pair other than two plain rotations goes through `compare_gates` -/
theorem gateEq_iff_exact_of_not_both_bsr (atol : ℝ) (hatol : 0 < atol) (n : Nat) (g1 g2 : Gate ℝ)
    (hnb : ¬ (g1.isBsr = true ∧ g2.isBsr = true))
    (h1 : g1.inReg n) (hd1 : g1.dimOk) (h2 : g2.inReg n) (hd2 : g2.dimOk) (hne : gateOp n g1 ≠ 0)
    (hcrisp : ∀ A B, localMatrix (dedup (g1.operands ++ g2.operands)) [g1] = .ok A →
      localMatrix (dedup (g1.operands ++ g2.operands)) [g2] = .ok B → CrispCmp atol A B) :
    gateEq atol g1 g2 = .ok true ↔ ∃ z : ℂ, ‖z‖ = 1 ∧ gateOp n g1 = z • gateOp n g2 := by
  rw [gateEq_eq_compareGates atol g1 g2 (by
    by_contra hcon
    rw [not_or] at hcon
    apply hnb
    constructor
    · cases g1 with
      | bsr q ax an ph => rfl
      | matrix m ops => exact absurd (fun _ _ _ _ h => by cases h) hcon.1
      | ctrl c g => exact absurd (fun _ _ _ _ h => by cases h) hcon.1
    · cases g2 with
      | bsr q ax an ph => rfl
      | matrix m ops => exact absurd (fun _ _ _ _ h => by cases h) hcon.2
      | ctrl c g => exact absurd (fun _ _ _ _ h => by cases h) hcon.2)]
  exact compareGates_iff_exact atol hatol n g1 g2 h1 hd1 h2 hd2 hne hcrisp

/-- the hypotheses of the exact-level reading of `g1 == g2` -/
structure EqHyp (atol : ℝ) (n : Nat) (g1 g2 : Gate ℝ) : Prop where
  reg1 : g1.inReg n
  dim1 : g1.dimOk
  reg2 : g2.inReg n
  dim2 : g2.dimOk
  ne1 : gateOp n g1 ≠ 0
  crisp : CrispEq atol g1 g2

/-- **C16, `Gate.__eq__`, register level, exact**: under `EqHyp` (operands in range, matrix sizes fit, first operator
    not zero, honest tolerance tests), `g1 == g2` is `True` exactly when `SameOp n g1 g2`. -/
theorem gateEq_iff_exact (atol : ℝ) (hatol : 0 < atol) (n : Nat) (g1 g2 : Gate ℝ) (h : EqHyp atol n g1 g2) :
    gateEq atol g1 g2 = .ok true ↔ SameOp n g1 g2 := by
  obtain ⟨h1, hd1, h2, hd2, hne, hc⟩ := h
  cases g1 with
  | bsr q1 a1 n1 p1 =>
    cases g2 with
    | bsr q2 a2 n2 p2 =>
      simp only [SameOp, Gate.isBsr, and_self, if_true]
      exact gateEq_bsr_iff_exact atol hatol.le n q1 q2 (h1 q1 (by simp [Gate.operands]))
        (h2 q2 (by simp [Gate.operands])) a1 n1 p1 a2 n2 p2 hc
    | matrix m ops =>
      simp only [SameOp, Gate.isBsr, Bool.false_eq_true, and_false, if_false]
      exact gateEq_iff_exact_of_not_both_bsr atol hatol n _ _ (by simp [Gate.isBsr]) h1 hd1 h2 hd2 hne hc
    | ctrl c g =>
      simp only [SameOp, Gate.isBsr, Bool.false_eq_true, and_false, if_false]
      exact gateEq_iff_exact_of_not_both_bsr atol hatol n _ _ (by simp [Gate.isBsr]) h1 hd1 h2 hd2 hne hc
  | matrix m ops =>
    simp only [SameOp, Gate.isBsr, Bool.false_eq_true, false_and, if_false]
    exact gateEq_iff_exact_of_not_both_bsr atol hatol n _ _ (by simp [Gate.isBsr]) h1 hd1 h2 hd2 hne
      (by cases g2 <;> exact hc)
  | ctrl c g =>
    simp only [SameOp, Gate.isBsr, Bool.false_eq_true, false_and, if_false]
    exact gateEq_iff_exact_of_not_both_bsr atol hatol n _ _ (by simp [Gate.isBsr]) h1 hd1 h2 hd2 hne
      (by cases g2 <;> exact hc)

/-! ### `SameOp` is reflexive and symmetric; transitive except through a non-rotation -/

theorem SameOp.refl (n : Nat) (g : Gate ℝ) : SameOp n g g := by
  unfold SameOp
  split
  · rfl
  · exact ⟨1, norm_one, (one_smul _ _).symm⟩

theorem SameOp.symm {n : Nat} {g1 g2 : Gate ℝ} (h : SameOp n g1 g2) : SameOp n g2 g1 := by
  unfold SameOp at h ⊢
  by_cases hb : g1.isBsr = true ∧ g2.isBsr = true
  · rw [if_pos hb] at h
    rw [if_pos ⟨hb.2, hb.1⟩]
    exact h.symm
  · rw [if_neg hb] at h
    rw [if_neg (fun hb' => hb ⟨hb'.2, hb'.1⟩)]
    obtain ⟨z, hz, H⟩ := h
    exact ⟨z⁻¹, norm_inv_of_norm_one hz, by rw [H, smul_smul, inv_mul_cancel₀ (ne_zero_of_norm_one hz), one_smul]⟩

/-- in every case the operators agree up to a unit scalar -/
theorem SameOp.scalar {n : Nat} {g1 g2 : Gate ℝ} (h : SameOp n g1 g2) :
    ∃ z : ℂ, ‖z‖ = 1 ∧ gateOp n g1 = z • gateOp n g2 := by
  unfold SameOp at h
  split at h
  · exact ⟨1, norm_one, by rw [h, one_smul]⟩
  · exact h

/-- transitivity, except when two plain rotations are linked through a gate that is not one -/
theorem SameOp.trans_partial {n : Nat} {g1 g2 g3 : Gate ℝ}
    (hmid : g1.isBsr = true → g3.isBsr = true → g2.isBsr = true)
    (h12 : SameOp n g1 g2) (h23 : SameOp n g2 g3) : SameOp n g1 g3 := by
  by_cases hb : g1.isBsr = true ∧ g3.isBsr = true
  · have h2 := hmid hb.1 hb.2
    unfold SameOp at h12 h23 ⊢
    rw [if_pos ⟨hb.1, h2⟩] at h12
    rw [if_pos ⟨h2, hb.2⟩] at h23
    rw [if_pos hb, h12, h23]
  · obtain ⟨z, hz, H⟩ := h12.scalar
    obtain ⟨w, hw, K⟩ := h23.scalar
    unfold SameOp
    rw [if_neg hb]
    exact ⟨z * w, by rw [norm_mul, hz, hw, one_mul], by rw [H, K, smul_smul]⟩

/-- **reflexivity at the exact level** (register-level proof; cf. `gateEq_refl_exact` of `Equality`) -/
theorem gateEq_refl_crisp (atol : ℝ) (hatol : 0 < atol) (n : Nat) (g : Gate ℝ) (h : EqHyp atol n g g) :
    gateEq atol g g = .ok true :=
  (gateEq_iff_exact atol hatol n g g h).mpr (SameOp.refl n g)

/-- **symmetry at the exact level**: when the tests of both comparisons are honest, `g1 == g2` and `g2 == g1`
    agree (although they enumerate the union of the qubits in different orders and pivot on different entries). -/
theorem gateEq_symm_exact (atol : ℝ) (hatol : 0 < atol) (n : Nat) (g1 g2 : Gate ℝ)
    (h12 : EqHyp atol n g1 g2) (h21 : EqHyp atol n g2 g1) :
    gateEq atol g1 g2 = .ok true ↔ gateEq atol g2 g1 = .ok true := by
  rw [gateEq_iff_exact atol hatol n g1 g2 h12, gateEq_iff_exact atol hatol n g2 g1 h21]
  exact ⟨SameOp.symm, SameOp.symm⟩

/-  INTENDED (full transitivity): `g1 == g2 → g2 == g3 → g1 == g3` at the exact level.
    FALSE for the implementation: two plain rotations are compared *including* their phase, every other pair *up to*
    a phase, so with `g1 = I(0)`, `g2 = ControlledGate(1, I(0))` (the identity operator, not a plain rotation) and
    `g3 = BlochSphereRotation(0, axis, angle 0, phase π)` (the operator `-1`) one has `g1 == g2`, `g2 == g3` but
    `g1 != g3`; see `gateEq_not_transitive` below.  The strongest true variant excludes exactly this shape. -/
/-- **transitivity at the exact level, except through a non-rotation between two plain rotations** -/
theorem gateEq_trans_exact_partial (atol : ℝ) (hatol : 0 < atol) (n : Nat) (g1 g2 g3 : Gate ℝ)
    (hmid : g1.isBsr = true → g3.isBsr = true → g2.isBsr = true)
    (h12 : EqHyp atol n g1 g2) (h23 : EqHyp atol n g2 g3) (h13 : EqHyp atol n g1 g3)
    (e12 : gateEq atol g1 g2 = .ok true) (e23 : gateEq atol g2 g3 = .ok true) :
    gateEq atol g1 g3 = .ok true := by
  rw [gateEq_iff_exact atol hatol n _ _ h12] at e12
  rw [gateEq_iff_exact atol hatol n _ _ h23] at e23
  rw [gateEq_iff_exact atol hatol n _ _ h13]
  exact SameOp.trans_partial hmid e12 e23

/-- under `EqHyp` the comparison never raises: the verdict is a Boolean -/
theorem gateEq_total_exact (atol : ℝ) (hatol : 0 < atol) (n : Nat) (g1 g2 : Gate ℝ) (h : EqHyp atol n g1 g2) :
    ∃ v, gateEq atol g1 g2 = .ok v := by
  obtain ⟨h1, hd1, h2, hd2, hne, hc⟩ := h
  have key : ∀ hc' : (∀ A B, localMatrix (dedup (g1.operands ++ g2.operands)) [g1] = .ok A →
      localMatrix (dedup (g1.operands ++ g2.operands)) [g2] = .ok B → CrispCmp atol A B),
      ∃ v, compareGates atol g1 g2 = .ok v := fun hc' =>
    (compareGatesWith_iff_exact atol hatol n _ (dedup_nodup _) (dedup_union_reg h1 h2) g1 g2
      (fun q hq => (mem_dedup _ q).mpr (List.mem_append_left _ hq)) hd1
      (fun q hq => (mem_dedup _ q).mpr (List.mem_append_right _ hq)) hd2 hne hc').1
  cases g1 with
  | bsr q1 a1 n1 p1 =>
    cases g2 with
    | bsr q2 a2 n2 p2 => exact ⟨_, rfl⟩
    | matrix m ops => exact key hc
    | ctrl c g => exact key hc
  | matrix m ops => cases g2 <;> exact key hc
  | ctrl c g => cases g2 <;> exact key hc

/-- … and it is `False` exactly when the operators differ -/
theorem gateEq_false_iff_exact (atol : ℝ) (hatol : 0 < atol) (n : Nat) (g1 g2 : Gate ℝ) (h : EqHyp atol n g1 g2) :
    gateEq atol g1 g2 = .ok false ↔ ¬ SameOp n g1 g2 := by
  rw [← gateEq_iff_exact atol hatol n g1 g2 h]
  obtain ⟨v, hv⟩ := gateEq_total_exact atol hatol n g1 g2 h
  rw [hv]
  cases v <;> simp

/-! ## 5. Specification of `Circuit.__eq__` / `IR.__eq__` (definitions mirroring `/repo/opensquirrel/ir.py`,
       `circuit.py`) and statement-wise equality -/

section spec
variable {α : Type} [Scalar α]

-- (the definitions `axisClose`, `stmtEq`, `stmtsEq`, `circuitEq` live in `OSq/Model/CircuitEq.lean`, so that the driver can run them)

theorem stmtsEq_true_iff (atol : α) (l1 l2 : List (Stmt α)) :
    stmtsEq atol l1 l2 = .ok true ↔
      l1.length = l2.length ∧
        ∀ i (h1 : i < l1.length) (h2 : i < l2.length), stmtEq atol l1[i] l2[i] = .ok true := by
  induction l1 generalizing l2 with
  | nil =>
    cases l2 with
    | nil => simp [stmtsEq]
    | cons s2 r2 => simp [stmtsEq]
  | cons s1 r1 ih =>
    cases l2 with
    | nil => simp [stmtsEq]
    | cons s2 r2 =>
      simp only [stmtsEq, List.length_cons, Nat.add_right_cancel_iff]
      constructor
      · intro h
        have hs : stmtEq atol s1 s2 = .ok true := by
          cases hv : stmtEq atol s1 s2 with
          | error e => rw [hv] at h; cases h
          | ok v => cases v with
            | true => rfl
            | false => rw [hv] at h; cases h
        rw [hs] at h
        obtain ⟨hl, hall⟩ := (ih r2).mp h
        refine ⟨hl, ?_⟩
        intro i h1 h2
        cases i with
        | zero => exact hs
        | succ i => exact hall i (by simpa using h1) (by simpa using h2)
      · rintro ⟨hl, hall⟩
        have hs : stmtEq atol s1 s2 = .ok true := hall 0 (by simp) (by simp)
        rw [hs]
        apply (ih r2).mpr
        refine ⟨hl, ?_⟩
        intro i h1 h2
        exact hall (i + 1) (by simpa using h1) (by simpa using h2)

/-- **C16, "circuit equality is statement-wise"**: `Circuit.__eq__` is `True` exactly when the registers have the
    same sizes, the statement lists have the same length and the statements are pairwise equal. -/
theorem circuit_eq_pointwise (atol : α) (c1 c2 : Circuit α) :
    circuitEq atol c1 c2 = .ok true ↔
      (c1.nQubits = c2.nQubits ∧ c1.nBits = c2.nBits) ∧ c1.stmts.length = c2.stmts.length ∧
        ∀ i (h1 : i < c1.stmts.length) (h2 : i < c2.stmts.length),
          stmtEq atol c1.stmts[i] c2.stmts[i] = .ok true := by
  unfold circuitEq
  by_cases hr : c1.nQubits = c2.nQubits ∧ c1.nBits = c2.nBits
  · rw [if_pos hr]
    by_cases hl : c1.stmts.length = c2.stmts.length
    · rw [if_pos hl, stmtsEq_true_iff]
      exact ⟨fun h => ⟨hr, h⟩, fun h => h.2⟩
    · rw [if_neg hl]
      constructor
      · intro h; cases h
      · intro h; exact absurd h.2.1 hl
  · rw [if_neg hr]
    constructor
    · intro h; cases h
    · intro h; exact absurd h.1 hr

/-- the form asked for: equal circuits have the same length and pairwise equal statements -/
theorem circuitEq_sound (atol : α) (c1 c2 : Circuit α) (h : circuitEq atol c1 c2 = .ok true) :
    c1.stmts.length = c2.stmts.length ∧
      ∀ i (h1 : i < c1.stmts.length) (h2 : i < c2.stmts.length),
        stmtEq atol c1.stmts[i] c2.stmts[i] = .ok true :=
  ((circuit_eq_pointwise atol c1 c2).mp h).2

/-- one pair of statements that does not compare `True` makes the circuits unequal (or the comparison raise) -/
theorem circuitEq_ne_of_stmt (atol : α) (c1 c2 : Circuit α) (i : Nat) (h1 : i < c1.stmts.length)
    (h2 : i < c2.stmts.length) (h : stmtEq atol c1.stmts[i] c2.stmts[i] ≠ .ok true) :
    circuitEq atol c1 c2 ≠ .ok true := fun he => h ((circuitEq_sound atol c1 c2 he).2 i h1 h2)

/-- common prefix whose statements equal themselves, then a pair that compares `False`: the verdict is `False` -/
theorem stmtsEq_false_of_prefix (atol : α) (pre : List (Stmt α)) (s1 s2 : Stmt α) (post1 post2 : List (Stmt α))
    (hpre : ∀ s ∈ pre, stmtEq atol s s = .ok true) (hs : stmtEq atol s1 s2 = .ok false) :
    stmtsEq atol (pre ++ s1 :: post1) (pre ++ s2 :: post2) = .ok false := by
  induction pre with
  | nil => simp only [List.nil_append, stmtsEq, hs]
  | cons s rest ih =>
    simp only [List.cons_append, stmtsEq, hpre s List.mem_cons_self]
    exact ih (fun x hx => hpre x (List.mem_cons_of_mem _ hx))

end spec

/-- a statement equals itself at the exact level (gates: by hypothesis; measurements: `|a − a| = 0 ≤ atol + …`) -/
theorem stmtEq_refl_exact (atol : ℝ) (hatol : 0 ≤ atol) (s : Stmt ℝ)
    (hg : ∀ g nm, s = .gate g nm → gateEq atol g g = .ok true) : stmtEq atol s s = .ok true := by
  cases s with
  | gate g nm => exact hg g nm rfl
  | measure q b ax nm =>
    have hclose : ∀ x : ℝ, closeTo (1e-5 : ℝ) atol x x = true := by
      intro x
      simp only [closeTo, absS_real, sub_self, abs_zero, decide_eq_true_eq]
      have : (0 : ℝ) ≤ 1e-5 * |x| := mul_nonneg rtol_real_nonneg (abs_nonneg _)
      linarith
    simp [stmtEq, axisClose, hclose]
  | reset q nm => simp [stmtEq]
  | comment c => simp [stmtEq]

/-- **reflexivity of `Circuit.__eq__` at the exact level**: if every gate of the circuit equals itself (see
    `gateEq_refl_crisp`, or `gateEq_refl_exact` of `Equality`), the circuit equals itself. -/
theorem circuitEq_refl_exact (atol : ℝ) (hatol : 0 ≤ atol) (c : Circuit ℝ)
    (hg : ∀ g nm, Stmt.gate g nm ∈ c.stmts → gateEq atol g g = .ok true) : circuitEq atol c c = .ok true := by
  rw [circuit_eq_pointwise]
  refine ⟨⟨rfl, rfl⟩, rfl, ?_⟩
  intro i h1 _
  apply stmtEq_refl_exact atol hatol
  intro g nm he
  exact hg g nm (he ▸ List.getElem_mem h1)

theorem circuitEq_refl_crisp (atol : ℝ) (hatol : 0 < atol) (c : Circuit ℝ)
    (hg : ∀ g nm, Stmt.gate g nm ∈ c.stmts → EqHyp atol c.nQubits g g) : circuitEq atol c c = .ok true :=
  circuitEq_refl_exact atol hatol.le c (fun g nm h => gateEq_refl_crisp atol hatol c.nQubits g (hg g nm h))

/-- **two circuits that differ in one gate statement whose register operators differ are unequal**: for any two
    circuits, a position holding gates `g1`, `g2` with `¬ SameOp n g1 g2` (honest tests) excludes the verdict `True`. -/
theorem circuitEq_ne_of_gate_differs (atol : ℝ) (hatol : 0 < atol) (n : Nat) (c1 c2 : Circuit ℝ) (i : Nat)
    (h1 : i < c1.stmts.length) (h2 : i < c2.stmts.length) (g1 g2 : Gate ℝ) (nm1 nm2 : Option (Named ℝ))
    (e1 : c1.stmts[i] = .gate g1 nm1) (e2 : c2.stmts[i] = .gate g2 nm2)
    (hyp : EqHyp atol n g1 g2) (hdiff : ¬ SameOp n g1 g2) : circuitEq atol c1 c2 ≠ .ok true := by
  apply circuitEq_ne_of_stmt atol c1 c2 i h1 h2
  rw [e1, e2]
  intro he
  exact hdiff ((gateEq_iff_exact atol hatol n g1 g2 hyp).mp he)

/-- … and when the two circuits are otherwise identical (same registers, same statements before and after), the
    verdict is exactly `False` — no exception. -/
theorem circuitEq_false_of_gate_differs (atol : ℝ) (hatol : 0 < atol) (n nq nb : Nat)
    (pre post : List (Stmt ℝ)) (g1 g2 : Gate ℝ) (nm1 nm2 : Option (Named ℝ))
    (hpre : ∀ g nm, Stmt.gate g nm ∈ pre → gateEq atol g g = .ok true)
    (hyp : EqHyp atol n g1 g2) (hdiff : ¬ SameOp n g1 g2) :
    circuitEq atol ⟨nq, nb, pre ++ .gate g1 nm1 :: post⟩ ⟨nq, nb, pre ++ .gate g2 nm2 :: post⟩ = .ok false := by
  unfold circuitEq
  rw [if_pos ⟨rfl, rfl⟩, if_pos (by simp)]
  apply stmtsEq_false_of_prefix
  · intro s hs
    exact stmtEq_refl_exact atol hatol.le s (fun g nm he => hpre g nm (he ▸ hs))
  · show gateEq atol g1 g2 = .ok false
    rw [gateEq_false_iff_exact atol hatol n g1 g2 hyp]
    exact hdiff

/-! ## Exact inputs satisfy the crisp hypotheses: acceptance theorems without crispness, and non-vacuity -/

theorem flat_of_toMatrixOn_smul {N : Nat} {a b : Mat ℝ} (ha : a.n = N) (hb : b.n = N) {z : ℂ}
    (H : a.toMatrixOn N = z • b.toMatrixOn N) (k : Nat) (hk : k < N * N) : a.flat k = z * b.flat k := by
  have hN : 0 < N := by
    rcases Nat.eq_zero_or_pos N with h0 | h0
    · subst h0; simp at hk
    · exact h0
  rw [Mat.flat_eq_get a ha, Mat.flat_eq_get b hb]
  have := congrFun (congrFun H ⟨k / N, (Nat.div_lt_iff_lt_mul hN).mpr hk⟩) ⟨k % N, Nat.mod_lt _ hN⟩
  simpa [Mat.toMatrixOn_apply] using this

/-- two matrices that are exactly equal up to a unit factor, with an entry of modulus `≥ atol`, pass every test of
    `equivPhase` honestly -/
theorem crispCmp_of_smul (atol : ℝ) (N : Nat) (a b : Mat ℝ) (ha : a.n = N) (hb : b.n = N)
    (z : ℂ) (hz : ‖z‖ = 1) (H : a.toMatrixOn N = z • b.toMatrixOn N)
    (hbig : ∃ i j : Fin N, atol ≤ ‖a.toMatrixOn N i j‖) (hatol : 0 < atol) : CrispCmp atol a b := by
  obtain ⟨i, j, hij⟩ := hbig
  have hN : 0 < N := Nat.lt_of_le_of_lt (Nat.zero_le _) i.isLt
  have hflat := flat_of_toMatrixOn_smul ha hb H
  have hl : argmaxAbs a < N * N := by
    have := (argmaxAbs_spec a (by omega)).1
    rwa [ha] at this
  have hbigl : atol ≤ ‖a.flat (argmaxAbs a)‖ := by
    have := big_of_exists atol a ⟨i.val * N + j.val, by rw [ha]; exact Mat.index_lt i.isLt j.isLt, by
      rw [← Mat.get_eq_flat a ha]; exact hij⟩
    rw [Cx.abs_real] at this
    exact this
  have hnorm : ‖a.flat (argmaxAbs a)‖ = ‖b.flat (argmaxAbs a)‖ := by
    rw [hflat _ hl, norm_mul, hz, one_mul]
  have hbl : b.flat (argmaxAbs a) ≠ 0 := by
    intro h0
    rw [h0, norm_zero] at hnorm
    linarith
  have hph : pivotPhase a b = z := by
    apply pivotPhase_of_unit a b hz
    rw [hflat _ hl, mul_div_assoc, div_self hbl, mul_one]
  refine ⟨fun h => absurd h (not_lt.mpr hbigl), fun h => absurd h (not_lt.mpr (hnorm ▸ hbigl)), ?_⟩
  intro k hk _
  rw [hph]
  exact hflat k (ha ▸ hk)

/-- the same at the register level: local matrices (on any admissible enumeration) of two gate lists whose
    register operators are exactly equal up to a unit factor -/
theorem crispCmp_localMatrix_of_exact {n : Nat} (atol : ℝ) (hatol : 0 < atol) (idx : List Int) (hnd : idx.Nodup)
    (hreg : ∀ q ∈ idx, 0 ≤ q ∧ q < (n : Int)) {gs1 gs2 : List (Gate ℝ)} {A B : Mat ℝ}
    (hA : localMatrix idx gs1 = .ok A) (hB : localMatrix idx gs2 = .ok B) (z : ℂ) (hz : ‖z‖ = 1)
    (H : circOp n (gateStmts gs1) [] = z • circOp n (gateStmts gs2) [])
    (hbig : ∃ r c, atol ≤ ‖circOp n (gateStmts gs1) [] r c‖) : CrispCmp atol A B := by
  have hgA := localMatrix_lift (n := n) idx hnd hreg hA []
  have hgB := localMatrix_lift (n := n) idx hnd hreg hB []
  apply crispCmp_of_smul atol _ A B (localMatrix_dim hA).1 (localMatrix_dim hB).1 z hz _ _ hatol
  · rw [← hgA, ← hgB] at H
    exact (lift_eq_smul_iff _ _ (nodup_map_toNat idx hnd hreg) (map_toNat_lt idx hreg) z).mp H
  · obtain ⟨r, c, hrc⟩ := hbig
    rw [← hgA, lift_apply] at hrc
    split at hrc
    · exact ⟨_, _, hrc⟩
    · rw [norm_zero] at hrc; linarith

theorem ne_zero_of_big {n : Nat} {atol : ℝ} (hatol : 0 < atol) {M : Op n} (h : ∃ r c, atol ≤ ‖M r c‖) : M ≠ 0 := by
  obtain ⟨r, c, hrc⟩ := h
  intro h0
  rw [h0] at hrc
  simp at hrc
  linarith

/-- **acceptance without a crispness hypothesis (`compare_gates`)**: register operators exactly equal up to a phase,
    with an entry of modulus `≥ atol`, are reported equal for every positive tolerance. -/
theorem compareGates_accepts_exact (atol : ℝ) (hatol : 0 < atol) (n : Nat) (g1 g2 : Gate ℝ)
    (h1 : g1.inReg n) (hd1 : g1.dimOk) (h2 : g2.inReg n) (hd2 : g2.dimOk) (z : ℂ) (hz : ‖z‖ = 1)
    (H : gateOp n g1 = z • gateOp n g2) (hbig : ∃ r c, atol ≤ ‖gateOp n g1 r c‖) :
    compareGates atol g1 g2 = .ok true := by
  have hz0 : z ≠ 0 := by
    intro h0; rw [h0, norm_zero] at hz; exact zero_ne_one hz
  refine (compareGates_iff_exact atol hatol n g1 g2 h1 hd1 h2 hd2 (ne_zero_of_big hatol hbig) ?_).mpr ⟨z, hz, H⟩
  intro A B hA hB
  exact crispCmp_localMatrix_of_exact (n := n) atol hatol _ (dedup_nodup _) (dedup_union_reg h1 h2) hA hB z hz
    (by simpa [gateStmts] using H) (by simpa [gateStmts] using hbig)

/-- **acceptance without a crispness hypothesis (`check_gate_replacement`)** -/
theorem checkGateReplacement_accepts_exact (atol : ℝ) (hatol : 0 < atol) (n : Nat) (g : Gate ℝ) (gs : List (Gate ℝ))
    (hwf : GateWF n g) (hd : g.dimOk) (hds : ∀ r ∈ gs, r.dimOk)
    (hloc : ∀ r ∈ gs, ∀ q ∈ r.operands, q ∈ g.operands) (z : ℂ) (hz : ‖z‖ = 1)
    (H : circOp n (gateStmts gs) [] = z • gateOp n g) (hbig : ∃ r c, atol ≤ ‖gateOp n g r c‖) :
    checkGateReplacement atol g gs = none := by
  have hz0 : z ≠ 0 := by
    intro h0; rw [h0, norm_zero] at hz; exact zero_ne_one hz
  refine (checkGateReplacement_iff_exact atol hatol n g gs hwf hd hds (ne_zero_of_big hatol hbig) ?_).mpr
    ⟨hloc, z, hz, H⟩
  intro A B hA hB
  exact crispCmp_localMatrix_of_exact (n := n) atol hatol _ hwf.1 hwf.2 hA hB z⁻¹ (by rw [norm_inv, hz, inv_one])
    (by rw [H, smul_smul, inv_mul_cancel₀ hz0, one_smul]; simp [gateStmts]) (by simpa [gateStmts] using hbig)

/-! ### Concrete operators -/

/-- `I(q)` (any axis, angle 0, phase 0) is the identity operator of the register -/
theorem gateOp_bsr_zero (n : Nat) (q : Int) (hq : 0 ≤ q ∧ q < (n : Int)) (ax : Vec3 ℝ) :
    gateOp n (.bsr q ax 0 0) = 1 := by
  rw [gateOp_bsr_lift1 n q hq]
  have : gateOp 1 (.bsr 0 ax 0 0) = (1 : ℂ) • (1 : Op 1) :=
    (gateOp1_bsr_eq_smul_one_iff ax 0 0 1).mpr (by rw [Sem.rot_zero, one_smul])
  rw [this, one_smul, lift_one]

/-- angle `0`, phase `φ`: the scalar operator `e^{iφ}` -/
theorem gateOp_bsr_phase (n : Nat) (q : Int) (hq : 0 ≤ q ∧ q < (n : Int)) (ax : Vec3 ℝ) (φ : ℝ) :
    gateOp n (.bsr q ax 0 φ) = Complex.exp (Complex.I * φ) • (1 : Op n) := by
  rw [gateOp_bsr_lift1 n q hq,
    (gateOp1_bsr_eq_smul_one_iff ax 0 φ _).mpr (Sem.rot_angle_zero ax φ), lift_smul, lift_one]

/-- a controlled identity is the identity -/
theorem gateOp_ctrl_of_one (n : Nat) (c : Int) (g : Gate ℝ) (h : gateOp n g = 1) : gateOp n (.ctrl c g) = 1 := by
  ext r c'
  have hg := congrFun (congrFun h r) c'
  rw [gateOp_apply] at hg
  rw [gateOp_apply]
  simp only [denote, ctrlOf]
  split
  · exact hg
  · simp only [delta, Matrix.one_apply, Fin.ext_iff]
    split <;> simp

theorem one_big (n : Nat) (atol : ℝ) (h1 : atol ≤ 1) : ∃ r c, atol ≤ ‖(1 : Op n) r c‖ :=
  ⟨⟨0, Nat.two_pow_pos n⟩, ⟨0, Nat.two_pow_pos n⟩, by simpa using h1⟩

/-- Pauli `Z` as a rotation: axis `z`, angle `π`, phase `π/2` -/
theorem rot_Z_entries : Sem.rot (0, 0, 1) Real.pi (Real.pi / 2) = !![1, 0; 0, -1] := by
  have hI : Complex.exp (Complex.I * ((Real.pi / 2 : ℝ) : ℂ)) = Complex.I := by
    rw [mul_comm]; push_cast; exact Complex.exp_pi_div_two_mul_I
  rw [Sem.rot_eq, hI]
  ext i j
  fin_cases i <;> fin_cases j <;> simp

/-- `Z(t)` and `CZ(c, t)` as the default gate table builds them -/
noncomputable def gZ (t : Int) : Gate ℝ := .bsr t (0, 0, 1) Real.pi (Real.pi / 2)
noncomputable def gCZ (c t : Int) : Gate ℝ := .ctrl c (gZ t)

theorem eq_of_agreeOff_single {n b : Nat} {r c : Nat} (hr : r < 2 ^ n) (hc : c < 2 ^ n)
    (hag : agreeOff n [b] r c) (hb : r.testBit b = c.testBit b) : r = c := by
  apply Nat.eq_of_testBit_eq
  intro i
  by_cases hi : i < n
  · by_cases hib : i = b
    · rw [hib]; exact hb
    · exact hag i hi (by simpa using hib)
  · rw [testBit_ge hr (by omega), testBit_ge hc (by omega)]

/-- **`CZ` on any register**: the diagonal operator with `-1` exactly on the kets having both bits set -/
theorem gateOp_CZ_apply (n a b : Nat) (r c : Fin (2 ^ n)) :
    gateOp n (gCZ a b) r c =
      if r = c then (if (r.val.testBit a && r.val.testBit b) = true then -1 else 1) else 0 := by
  have hZ : ∀ i j : Fin 2, ((can1 ((0, 0, 1) : Vec3 ℝ) Real.pi (Real.pi / 2)).get i j).toC
      = (!![1, 0; 0, -1] : Matrix (Fin 2) (Fin 2) ℂ) i j := by
    intro i j; rw [can1_get, rot_Z_entries]
  have h00 := hZ 0 0
  have h01 := hZ 0 1
  have h10 := hZ 1 0
  have h11 := hZ 1 1
  simp only [Fin.val_zero, Fin.val_one, Matrix.of_apply, Matrix.cons_val', Matrix.cons_val_zero,
    Matrix.cons_val_one, Matrix.empty_val', Matrix.cons_val_fin_one] at h00 h01 h10 h11
  rw [gateOp_apply]
  simp only [gCZ, gZ, denote, ctrlOf, embed1, Int.toNat_natCast]
  by_cases hrc : r = c
  · subst hrc
    rw [if_pos rfl]
    by_cases hta : r.val.testBit a = true
    · rw [if_pos hta, if_pos (agreeOff_refl _ _ _)]
      by_cases htb : r.val.testBit b = true
      · simp only [bitOf, htb, hta, if_true, Bool.and_self]
        exact h11
      · simp only [Bool.not_eq_true] at htb
        simp only [bitOf, htb, hta, Bool.false_eq_true, if_false, Bool.and_false]
        exact h00
    · simp only [Bool.not_eq_true] at hta
      simp [hta, delta]
  · rw [if_neg hrc]
    have hv : r.val ≠ c.val := fun e => hrc (Fin.ext e)
    by_cases hta : c.val.testBit a = true
    · rw [if_pos hta]
      by_cases hag : agreeOff n [b] r.val c.val
      · rw [if_pos hag]
        have hb : r.val.testBit b ≠ c.val.testBit b :=
          fun e => hv (eq_of_agreeOff_single r.isLt c.isLt hag e)
        cases hrb : r.val.testBit b <;> cases hcb : c.val.testBit b
        · exact absurd (hrb.trans hcb.symm) hb
        · simp only [bitOf, hrb, hcb, Bool.false_eq_true, if_false, if_true]; exact h01
        · simp only [bitOf, hrb, hcb, Bool.false_eq_true, if_false, if_true]; exact h10
        · exact absurd (hrb.trans hcb.symm) hb
      · rw [if_neg hag]; exact Cx.toC_zero
    · rw [if_neg hta]
      simp [delta, hv]

/-- `CZ(a, b)` and `CZ(b, a)` are the same operator on every register -/
theorem gateOp_CZ_comm (n a b : Nat) : gateOp n (gCZ a b) = gateOp n (gCZ b a) := by
  ext r c
  rw [gateOp_CZ_apply, gateOp_CZ_apply, Bool.and_comm]

/-- the diagonal matrix `diag(1, 1, 1, -1)` as a matrix gate on qubits `(0, 1)` -/
noncomputable def mCZ : Mat ℝ :=
  Mat.ofFn 4 fun i j => if i = j then (if i = 3 then (⟨-1, 0⟩ : Cx ℝ) else Cx.one) else Cx.zero
noncomputable def gCZm : Gate ℝ := .matrix mCZ [0, 1]

theorem gateOp_CZm_apply (r c : Fin (2 ^ 2)) :
    gateOp 2 gCZm r c =
      if r = c then (if (r.val.testBit 0 && r.val.testBit 1) = true then -1 else 1) else 0 := by
  have key : ∀ r c : Fin (2 ^ 2), (subIdx r.val [0, 1] = subIdx c.val [0, 1] ↔ r = c) ∧
      (subIdx r.val [0, 1] = 3 ↔ (r.val.testBit 0 && r.val.testBit 1) = true) := by decide
  have hag : agreeOff 2 [0, 1] r.val c.val := by
    intro i hi hni
    simp only [List.mem_cons, List.not_mem_nil, or_false, not_or] at hni
    omega
  have hm1 : (⟨-1, 0⟩ : Cx ℝ).toC = -1 := by apply Complex.ext <;> simp
  rw [gateOp_apply]
  simp only [gCZm, denote, embedM, List.map_cons, List.map_nil, Int.toNat_zero, Int.toNat_one]
  have hs : ∀ x : Nat, subIdx x [0, 1] < 4 := fun x => subIdx_lt x [0, 1]
  rw [if_pos hag, mCZ, Mat.get_ofFn (hs _) (hs _)]
  by_cases hrc : r = c
  · rw [if_pos ((key r c).1.mpr hrc), if_pos hrc]
    by_cases h3 : subIdx r.val [0, 1] = 3
    · rw [if_pos h3, if_pos ((key r c).2.mp h3), hm1]
    · rw [if_neg h3, if_neg (fun h => h3 ((key r c).2.mpr h)), Cx.toC_one]
  · rw [if_neg (fun h => hrc ((key r c).1.mp h)), if_neg hrc, Cx.toC_zero]

theorem gateOp_CZm : gateOp 2 gCZm = gateOp 2 (gCZ 0 1) := by
  ext r c
  rw [gateOp_CZm_apply]
  exact (gateOp_CZ_apply 2 0 1 r c).symm

theorem gCZ_reg (a b : Nat) (n : Nat) (ha : a < n) (hb : b < n) : (gCZ a b).inReg n := by
  intro q hq
  simp only [gCZ, gZ, Gate.operands, List.mem_cons, List.not_mem_nil, or_false] at hq
  rcases hq with rfl | rfl <;> omega

theorem gCZ_big (n a b : Nat) (atol : ℝ) (h1 : atol ≤ 1) : ∃ r c, atol ≤ ‖gateOp n (gCZ a b) r c‖ := by
  refine ⟨⟨0, Nat.two_pow_pos n⟩, ⟨0, Nat.two_pow_pos n⟩, ?_⟩
  rw [gateOp_CZ_apply]
  simpa using h1

/-! ### Examples (non-vacuity of every main theorem) -/

-- 1. `lift_injective`: a one-qubit operator on qubit 5 of 7 is determined by its lift
example (a b : Op 1) (h : (lift [5] rfl a : Op 7) = lift [5] rfl b) : a = b :=
  lift_injective [5] rfl (by simp) (by simp) h

-- 4. `checkGateReplacement_iff_exact`, instantiated (with its crisp hypothesis discharged) on `CZ(0,1)` replaced by
--    `CZ(1,0)`: accepted, and the right-hand side holds with `z = 1`
example (atol : ℝ) (h0 : 0 < atol) (h1 : atol ≤ 1) :
    checkGateReplacement atol (gCZ 0 1) [gCZ 1 0] = none ∧
      ((∀ r ∈ [gCZ 1 0], ∀ q ∈ r.operands, q ∈ (gCZ 0 1).operands) ∧
        ∃ z : ℂ, ‖z‖ = 1 ∧ circOp 2 (gateStmts [gCZ 1 0]) [] = z • gateOp 2 (gCZ 0 1)) := by
  have hwf : GateWF 2 (gCZ 0 1) := ⟨by simp [gCZ, gZ, Gate.operands], gCZ_reg 0 1 2 (by omega) (by omega)⟩
  have hop : circOp 2 (gateStmts [gCZ 1 0]) [] = (1 : ℂ) • gateOp 2 (gCZ 0 1) := by
    simp only [gateStmts, List.map_cons, List.map_nil, circOp_gate, circOp_nil, Matrix.one_mul, one_smul]
    exact gateOp_CZ_comm 2 1 0
  have hacc := checkGateReplacement_accepts_exact atol h0 2 (gCZ 0 1) [gCZ 1 0] hwf trivial
    (by intro r hr; simp only [List.mem_singleton] at hr; subst hr; trivial)
    (by intro r hr q hq; simp only [List.mem_singleton] at hr; subst hr
        simp only [gCZ, gZ, Gate.operands, List.mem_cons, List.not_mem_nil, or_false] at hq ⊢
        omega)
    1 norm_one hop (gCZ_big 2 0 1 atol h1)
  refine ⟨hacc, ?_⟩
  exact (checkGateReplacement_iff_exact atol h0 2 (gCZ 0 1) [gCZ 1 0] hwf trivial
    (by intro r hr; simp only [List.mem_singleton] at hr; subst hr; trivial)
    (ne_zero_of_big h0 (gCZ_big 2 0 1 atol h1))
    (fun A B hA hB => crispCmp_localMatrix_of_exact (n := 2) atol h0 _ hwf.1 hwf.2 hA hB 1 norm_one
      (by rw [hop, one_smul, one_smul]; simp [gateStmts]) (by simpa [gateStmts] using gCZ_big 2 0 1 atol h1))).mp hacc

-- … the identity-gate case: the empty replacement is accepted for `I(0)` (and only for multiples of the identity)
example (atol : ℝ) (h0 : 0 < atol) (h1 : atol ≤ 1) (ax : Vec3 ℝ) :
    checkGateReplacement atol (.bsr 0 ax 0 0) [] = none := by
  have hq : (0 : Int) ≤ 0 ∧ (0 : Int) < ((1 : Nat) : Int) := by omega
  apply checkGateReplacement_accepts_exact atol h0 1 (.bsr 0 ax 0 0) [] ⟨by simp [Gate.operands], by
    intro q hq'; simp only [Gate.operands, List.mem_singleton] at hq'; subst hq'; exact hq⟩ trivial (by simp) (by simp)
    1 norm_one
  · rw [gateOp_bsr_zero 1 0 hq]; simp [gateStmts]
  · rw [gateOp_bsr_zero 1 0 hq]; exact one_big 1 atol h1

-- … a replacement touching a foreign qubit is rejected whatever it is
example (atol : ℝ) (ax : Vec3 ℝ) (an ph : ℝ) (r : Gate ℝ) (h : (3 : Int) ∈ r.operands) :
    checkGateReplacement atol (.ctrl 0 (.bsr 1 ax an ph)) [r] = some .value :=
  checkGateReplacement_reject_foreign atol _ _ r (by simp) 3 h (by simp [Gate.operands])

-- 2. `compareGates_iff_exact`: `CZ(0,1)`, `CZ(1,0)` and the matrix gate `diag(1,1,1,-1)` on `(0,1)` are pairwise equal
example (atol : ℝ) (h0 : 0 < atol) (h1 : atol ≤ 1) :
    compareGates atol (gCZ 0 1) (gCZ 1 0) = .ok true ∧ compareGates atol (gCZ 1 0) (gCZ 0 1) = .ok true ∧
    compareGates atol gCZm (gCZ 0 1) = .ok true ∧ compareGates atol (gCZ 1 0) gCZm = .ok true := by
  have hm : gCZm.inReg 2 := by
    intro q hq
    simp only [gCZm, Gate.operands, List.mem_cons, List.not_mem_nil, or_false] at hq
    rcases hq with rfl | rfl <;> omega
  have hmd : gCZm.dimOk := by simp [gCZm, Gate.dimOk, mCZ, Mat.ofFn]
  refine ⟨?_, ?_, ?_, ?_⟩
  · exact compareGates_accepts_exact atol h0 2 _ _ (gCZ_reg 0 1 2 (by omega) (by omega)) trivial
      (gCZ_reg 1 0 2 (by omega) (by omega)) trivial 1 norm_one (by rw [one_smul]; exact gateOp_CZ_comm 2 0 1)
      (gCZ_big 2 0 1 atol h1)
  · exact compareGates_accepts_exact atol h0 2 _ _ (gCZ_reg 1 0 2 (by omega) (by omega)) trivial
      (gCZ_reg 0 1 2 (by omega) (by omega)) trivial 1 norm_one (by rw [one_smul]; exact gateOp_CZ_comm 2 1 0)
      (gCZ_big 2 1 0 atol h1)
  · exact compareGates_accepts_exact atol h0 2 _ _ hm hmd (gCZ_reg 0 1 2 (by omega) (by omega)) trivial 1 norm_one
      (by rw [one_smul]; exact gateOp_CZm) (by rw [gateOp_CZm]; exact gCZ_big 2 0 1 atol h1)
  · exact compareGates_accepts_exact atol h0 2 _ _ (gCZ_reg 1 0 2 (by omega) (by omega)) trivial hm hmd 1 norm_one
      (by rw [one_smul, gateOp_CZm]; exact gateOp_CZ_comm 2 1 0) (gCZ_big 2 1 0 atol h1)

-- … the iff itself, with its crisp hypothesis discharged: the verdict `True` and the operator statement
example (atol : ℝ) (h0 : 0 < atol) (h1 : atol ≤ 1) :
    compareGates atol (gCZ 0 1) (gCZ 1 0) = .ok true ↔
      ∃ z : ℂ, ‖z‖ = 1 ∧ gateOp 5 (gCZ 0 1) = z • gateOp 5 (gCZ 1 0) :=
  compareGates_iff_exact atol h0 5 _ _ (gCZ_reg 0 1 5 (by omega) (by omega)) trivial
    (gCZ_reg 1 0 5 (by omega) (by omega)) trivial (ne_zero_of_big h0 (gCZ_big 5 0 1 atol h1))
    (fun A B hA hB => crispCmp_localMatrix_of_exact (n := 5) atol h0 _ (dedup_nodup _)
      (dedup_union_reg (gCZ_reg 0 1 5 (by omega) (by omega)) (gCZ_reg 1 0 5 (by omega) (by omega))) hA hB 1 norm_one
      (by rw [one_smul]; simpa [gateStmts] using gateOp_CZ_comm 5 0 1)
      (by simpa [gateStmts] using gCZ_big 5 0 1 atol h1))

-- `unit_of_unitary_smul`
example (z : ℂ) (h : (1 : Op 3) = z • (1 : Op 3)) : ‖z‖ = 1 :=
  have : Nonempty (Fin (2 ^ 3)) := ⟨⟨0, by decide⟩⟩
  unit_of_unitary_smul (one_mem _) (one_mem _) h

-- 3. `gateEq_bsr_iff_exact`: `X(0)` in its two representations — equal, and the register operators are equal
example (atol : ℝ) (h0 : 0 ≤ atol) :
    gateEq atol (.bsr 0 (1, 0, 0) Real.pi (Real.pi / 2)) (.bsr 0 (-1, 0, 0) Real.pi (-(Real.pi / 2))) = .ok true ∧
    gateOp 3 (.bsr 0 (1, 0, 0) Real.pi (Real.pi / 2)) = gateOp 3 (.bsr 0 (-1, 0, 0) Real.pi (-(Real.pi / 2))) := by
  have hq : (0 : Int) ≤ 0 ∧ (0 : Int) < ((3 : Nat) : Int) := by omega
  have hop : gateOp 3 (.bsr 0 (1, 0, 0) Real.pi (Real.pi / 2))
      = gateOp 3 (.bsr 0 (-1, 0, 0) Real.pi (-(Real.pi / 2))) := by
    rw [gateOp_bsr_eq_iff 3 0 0 hq hq, if_pos rfl]; exact rot_X_two_reps
  refine ⟨?_, hop⟩
  exact (gateEq_bsr_iff_exact atol h0 3 0 0 hq hq _ _ _ _ _ _
    ⟨fun h => absurd rfl h, fun _ i j _ => by rw [rot_X_two_reps]⟩).mpr hop

-- … `I(0)` vs `I(1)` (any axes): equal as gates, and the same register operator
example (atol : ℝ) (h0 : 0 ≤ atol) (ax ax' : Vec3 ℝ) :
    gateEq atol (.bsr 0 ax 0 0) (.bsr 1 ax' 0 0) = .ok true ∧
    gateOp 2 (.bsr 0 ax 0 0) = gateOp 2 (.bsr 1 ax' 0 0) := by
  have hq0 : (0 : Int) ≤ 0 ∧ (0 : Int) < ((2 : Nat) : Int) := by omega
  have hq1 : (0 : Int) ≤ 1 ∧ (1 : Int) < ((2 : Nat) : Int) := by omega
  have hop : gateOp 2 (.bsr 0 ax 0 0) = gateOp 2 (.bsr 1 ax' 0 0) := by
    rw [gateOp_bsr_zero 2 0 hq0, gateOp_bsr_zero 2 1 hq1]
  refine ⟨?_, hop⟩
  refine (gateEq_bsr_iff_exact atol h0 2 0 1 hq0 hq1 _ _ _ _ _ _ ⟨?_, ?_⟩).mpr hop
  · intro _ i j _
    rw [Sem.rot_zero]
    by_cases hij : i = j
    · subst hij; simp
    · simp [hij]
  · intro _ i j _
    rw [Sem.rot_zero, Sem.rot_zero]

-- … `X(0)` vs `X(1)` at `atol = 1e-7`: the crisp hypothesis holds, the verdict is not `True`, hence (by the iff) the
--    register operators differ
example : gateOp 2 (.bsr 0 (1, 0, 0) Real.pi (Real.pi / 2)) ≠ gateOp 2 (.bsr 1 (1, 0, 0) Real.pi (Real.pi / 2)) := by
  have hq0 : (0 : Int) ≤ 0 ∧ (0 : Int) < ((2 : Nat) : Int) := by omega
  have hq1 : (0 : Int) ≤ 1 ∧ (1 : Int) < ((2 : Nat) : Int) := by omega
  have hI : Complex.exp (Complex.I * ((Real.pi / 2 : ℝ) : ℂ)) = Complex.I := by
    rw [mul_comm]; push_cast; exact Complex.exp_pi_div_two_mul_I
  have hX : Sem.rot ((1, 0, 0) : Vec3 ℝ) Real.pi (Real.pi / 2) = !![0, 1; 1, 0] := by
    rw [Sem.rot_eq, hI]
    ext i j
    fin_cases i <;> fin_cases j <;> simp
  intro hop
  have := (gateEq_bsr_iff_exact (1e-7 : ℝ) (by norm_num) 2 0 1 hq0 hq1 _ _ _ _ _ _ ⟨?_, ?_⟩).mpr hop
  · simp only [gateEq, Except.ok.injEq] at this
    rw [bsrEq_ne_qubit _ 0 1 (by decide) _ _ _ _ _ _ isScalar2_X_false] at this
    cases this
  · intro _ i j h
    rw [hX] at h ⊢
    fin_cases i <;> fin_cases j <;> simp at h ⊢
    all_goals norm_num at h
  · intro h
    rcases h with h | h
    · exact absurd h (by decide)
    · rw [isScalar2_X_false] at h; cases h

/-- **`Gate.__eq__` is not transitive**, even on exact inputs: `I(0) == CI(1,0)` and `CI(1,0) == (−1)·I(0)` are `True`
    (compared up to a phase), but `I(0) == (−1)·I(0)` is `False` (two plain rotations are compared with their phase). -/
theorem gateEq_not_transitive (atol : ℝ) (h0 : 0 < atol) (h1 : atol ≤ 1) (ax : Vec3 ℝ) :
    gateEq atol (.bsr 0 ax 0 0) (.ctrl 1 (.bsr 0 ax 0 0)) = .ok true ∧
    gateEq atol (.ctrl 1 (.bsr 0 ax 0 0)) (.bsr 0 ax 0 Real.pi) = .ok true ∧
    gateEq atol (.bsr 0 ax 0 0) (.bsr 0 ax 0 Real.pi) = .ok false := by
  have hq0 : (0 : Int) ≤ 0 ∧ (0 : Int) < ((2 : Nat) : Int) := by omega
  have hI : gateOp 2 (.bsr 0 ax 0 0) = 1 := gateOp_bsr_zero 2 0 hq0 ax
  have hCI : gateOp 2 (.ctrl 1 (.bsr 0 ax 0 0)) = 1 := gateOp_ctrl_of_one 2 1 _ hI
  have hexp : Complex.exp (Complex.I * ((Real.pi : ℝ) : ℂ)) = -1 := by
    rw [mul_comm]; exact Complex.exp_pi_mul_I
  have hM : gateOp 2 (.bsr 0 ax 0 Real.pi) = (-1 : ℂ) • (1 : Op 2) := by
    rw [gateOp_bsr_phase 2 0 hq0, hexp]
  have hr1 : (Gate.bsr 0 ax 0 0 : Gate ℝ).inReg 2 := by
    intro q hq; simp only [Gate.operands, List.mem_singleton] at hq; subst hq; exact hq0
  have hr3 : (Gate.bsr 0 ax 0 Real.pi : Gate ℝ).inReg 2 := by
    intro q hq; simp only [Gate.operands, List.mem_singleton] at hq; subst hq; exact hq0
  have hr2 : (Gate.ctrl 1 (.bsr 0 ax 0 0) : Gate ℝ).inReg 2 := by
    intro q hq
    simp only [Gate.operands, List.mem_cons, List.not_mem_nil, or_false] at hq
    rcases hq with rfl | rfl <;> omega
  refine ⟨?_, ?_, ?_⟩
  · show compareGates atol _ _ = .ok true
    exact compareGates_accepts_exact atol h0 2 _ _ hr1 trivial hr2 trivial 1 norm_one
      (by rw [hI, hCI, one_smul]) (by rw [hI]; exact one_big 2 atol h1)
  · show compareGates atol _ _ = .ok true
    exact compareGates_accepts_exact atol h0 2 _ _ hr2 trivial hr3 trivial (-1) (by simp)
      (by rw [hCI, hM, smul_smul]; simp) (by rw [hCI]; exact one_big 2 atol h1)
  · simp only [gateEq, Except.ok.injEq]
    cases h : bsrEq atol 0 ax 0 0 0 ax 0 Real.pi with
    | false => rfl
    | true =>
      exfalso
      have := (bsrEq_sound _ _ _ _ _ _ _ _ _ h).2 0 0
      rw [Sem.rot_zero, Sem.rot_angle_zero, hexp] at this
      simp only [Matrix.one_apply_eq, Matrix.smul_apply, smul_eq_mul, mul_one, sub_neg_eq_add, norm_neg,
        norm_one] at this
      rw [rtol_real] at this
      norm_num at this
      linarith

-- 5. `circuit_eq_pointwise`: two circuits equal although a gate sits on another qubit (`I(0)` / `I(1)`) and the
--    measurement writes to another bit (the bit is not compared)
example (atol : ℝ) (h0 : 0 ≤ atol) (ax ax' : Vec3 ℝ) :
    circuitEq atol ⟨2, 2, [.gate (.bsr 0 ax 0 0) none, .measure 0 0 (0, 0, 1) none, .comment "a"]⟩
      ⟨2, 2, [.gate (.bsr 1 ax' 0 0) none, .measure 0 1 (0, 0, 1) none, .comment "a"]⟩ = .ok true := by
  have hg : gateEq atol (.bsr 0 ax 0 0) (.bsr 1 ax' 0 0) = .ok true := by
    simp only [gateEq, Except.ok.injEq]
    exact bsrEq_complete_exact_diff atol h0 0 1 _ _ _ _ _ _ 1 (by rw [Sem.rot_zero, one_smul])
      (by rw [Sem.rot_zero, one_smul])
  have hclose : ∀ x : ℝ, closeTo (1e-5 : ℝ) atol x x = true := by
    intro x
    simp only [closeTo, absS_real, sub_self, abs_zero, decide_eq_true_eq]
    have : (0 : ℝ) ≤ 1e-5 * |x| := mul_nonneg rtol_real_nonneg (abs_nonneg _)
    linarith
  simp [circuitEq, stmtsEq, stmtEq, hg, axisClose, hclose]

-- … `circuitEq_refl_exact`
example (ax : Vec3 ℝ) (an ph : ℝ) :
    circuitEq (1e-7 : ℝ) ⟨1, 1, [.gate (.bsr 0 ax an ph) none, .measure 0 0 (0, 0, 1) none]⟩
      ⟨1, 1, [.gate (.bsr 0 ax an ph) none, .measure 0 0 (0, 0, 1) none]⟩ = .ok true := by
  apply circuitEq_refl_exact _ (by norm_num)
  intro g nm hg
  simp only [List.mem_cons, Stmt.gate.injEq, reduceCtorEq, List.not_mem_nil, or_false] at hg
  obtain ⟨rfl, _⟩ := hg
  exact gateEq_refl_bsr _ (by norm_num) _ _ _ _

-- … `circuitEq_false_of_gate_differs`: replacing `I(0)` by `(−1)·I(0)` in an otherwise identical circuit
example (ax : Vec3 ℝ) :
    circuitEq (1e-7 : ℝ) ⟨1, 1, [.comment "c", .gate (.bsr 0 ax 0 0) none, .reset 0 none]⟩
      ⟨1, 1, [.comment "c", .gate (.bsr 0 ax 0 Real.pi) none, .reset 0 none]⟩ = .ok false := by
  have hq0 : (0 : Int) ≤ 0 ∧ (0 : Int) < ((1 : Nat) : Int) := by omega
  have hexp : Complex.exp (Complex.I * ((Real.pi : ℝ) : ℂ)) = -1 := by
    rw [mul_comm]; exact Complex.exp_pi_mul_I
  have hr : ∀ φ : ℝ, (Gate.bsr 0 ax 0 φ : Gate ℝ).inReg 1 := by
    intro φ q hq; simp only [Gate.operands, List.mem_singleton] at hq; subst hq; exact hq0
  have hne : gateOp 1 (.bsr 0 ax 0 0) ≠ gateOp 1 (.bsr 0 ax 0 Real.pi) := by
    rw [gateOp_bsr_zero 1 0 hq0, gateOp_bsr_phase 1 0 hq0, hexp]
    intro h
    have := congrFun (congrFun h ⟨0, by decide⟩) ⟨0, by decide⟩
    simp at this
    norm_num at this
  apply circuitEq_false_of_gate_differs (1e-7 : ℝ) (by norm_num) 1 1 1 [.comment "c"] [.reset 0 none]
    (.bsr 0 ax 0 0) (.bsr 0 ax 0 Real.pi) none none (by simp)
  · refine ⟨hr 0, trivial, hr Real.pi, trivial, ?_, ?_⟩
    · rw [gateOp_bsr_zero 1 0 hq0]
      exact ne_zero_of_big (atol := 1) one_pos (one_big 1 1 le_rfl)
    · refine ⟨fun h => absurd rfl h, ?_⟩
      intro _ i j h
      rw [Sem.rot_zero, Sem.rot_angle_zero, hexp] at h ⊢
      by_cases hij : i = j
      · subst hij
        simp only [Matrix.one_apply_eq, Matrix.smul_apply, smul_eq_mul, mul_one, sub_neg_eq_add, norm_neg,
          norm_one] at h
        rw [rtol_real] at h
        norm_num at h
      · simp [hij]
  · simp only [SameOp, Gate.isBsr, and_self, if_true]
    exact hne

end OSq

#print axioms OSq.lift_injective
#print axioms OSq.lift_eq_smul_iff
#print axioms OSq.equivPhase_iff_crisp
#print axioms OSq.crispCmp_localMatrix_of_exact
#print axioms OSq.checkGateReplacement_reject_foreign
#print axioms OSq.checkGateReplacement_iff_exact
#print axioms OSq.checkGateReplacement_reject_iff_exact
#print axioms OSq.checkGateReplacement_nil_iff_exact
#print axioms OSq.checkGateReplacement_accepts_exact
#print axioms OSq.unit_of_unitary_smul
#print axioms OSq.exists_big_of_unitary
#print axioms OSq.compareGatesWith_iff_exact
#print axioms OSq.compareGates_iff_exact
#print axioms OSq.compareGates_false_iff_exact
#print axioms OSq.compareGates_iff_exact_unitary
#print axioms OSq.compareGates_accepts_exact
#print axioms OSq.lift_disjoint_eq
#print axioms OSq.gateOp_bsr_eq_iff
#print axioms OSq.gateEq_bsr_iff_exact
#print axioms OSq.gateEq_iff_exact
#print axioms OSq.gateEq_false_iff_exact
#print axioms OSq.gateEq_refl_crisp
#print axioms OSq.gateEq_symm_exact
#print axioms OSq.gateEq_trans_exact_partial
#print axioms OSq.gateEq_not_transitive
#print axioms OSq.circuit_eq_pointwise
#print axioms OSq.circuitEq_refl_exact
#print axioms OSq.circuitEq_ne_of_gate_differs
#print axioms OSq.circuitEq_false_of_gate_differs
#print axioms OSq.gateOp_CZ_apply
#print axioms OSq.gateOp_CZm
