import OSq.Sem.Rot
import OSq.Proofs.ABA
import OSq.Proofs.Compose
import Mathlib.Tactic.Ring
import Mathlib.Tactic.FinCases
import Mathlib.Tactic.LinearCombination

/-
  OSq.Proofs.RotAlgebra — from quaternions to operators.

  The files `ABA.lean` and `Compose.lean` reason about unit quaternions `w + x i + y j + z k`; the specification
  of a single-qubit gate is the 2×2 complex matrix `OSq.Sem.rot n θ φ` (`OSq/Sem/Rot.lean`).  This file provides the
  algebra homomorphism `i ↦ −iσx, j ↦ −iσy, k ↦ −iσz` between the two, so that every quaternion identity becomes
  an identity between operators.

  Definitions
  * `qMat w x y z = w•1 − I•(x•σx + y•σy + z•σz)`     the operator of a quaternion (4 real components)
  * `ABA.Q.toMat q`, `Quat.toMat q`                   the same for the two quaternion structures in use
  * `Quat.toQ`, `ABA.Q.toQuat`                        conversion between the two quaternion structures
  * `eAxis i`                                         coordinate axis number `i` (`0 ↦ x`, `1 ↦ y`, other `↦ z`)

  Theorems
  * `qMat_eq`                 explicit entries `!![w − i z, −i x − y; −i x + y, w + i z]`
  * `Q.toMat_mul`             `(p * q).toMat = p.toMat * q.toMat`   (Hamilton product ↦ matrix product)
  * `qMat_mul`, `qMat_neg`     aliases of `Q.toMat_mul`, `Q.toMat_neg`
  * `Q.toMat_neg`, `Q.toMat_one'`   `(-q).toMat = -q.toMat`, `⟨1,0,0,0⟩.toMat = 1`
  * `Quat.toMat_mul`, `Quat.toMat_neg`, `Quat.toMat_one`   the same for `Compose.lean`'s `Quat`
  * `Quat.toQ_mul`, `Quat.toQ_neg`, `Quat.toMat_toQ`, `quat_toQ`   the conversion is a morphism and `quat ↦ Q.ofRot`
  * `qMat_injective`          `qMat` is injective (the four components are recovered from the matrix)
  * `rot_eq_qMat`             `rot n θ φ = exp(iφ) • (Q.ofRot n θ).toMat`
  * `rot_eq_qMat0`            `rot n θ 0 = (Q.ofRot n θ).toMat`
  * `rot_eq_quat`             `rot n θ φ = exp(iφ) • (quat n θ).toMat`  (for `Compose.lean`)
  * `rot_axis`                `rot (eAxis i) θ 0 = (Q.ofAxisAngle i θ).toMat`
  * `abaProduct_toMat`        `(abaProduct k θ1 θ2 θ3).toMat = rot e_ia θ3 0 * rot e_ib θ2 0 * rot e_ia θ1 0`
  * `aba_rot_of_product`      `abaProduct k θ1 θ2 θ3 = Q.ofRot n α → Ra(θ3)·Rb(θ2)·Ra(θ1) = rot n α 0`
  * `aba_rot`                 under the hypotheses of `aba_crisp` the angles returned by `abaAngles` satisfy
                              `rot e_ia θ3 0 * rot e_ib θ2 0 * rot e_ia θ1 0 = rot n α 0` (sign `+`, all six kinds)
  * `aba_rot_phase`           the same with the phase: `… = exp(-iφ) • rot n α φ`
  * `rot_mul_phase`, `rot_phase_smul`  bookkeeping of the phase argument
  * `rot_mul_rot`             `rot a θa φa * rot b θb φb = exp(i(φa+φb)) • (quat a θa * quat b θb).toMat`
-/
set_option linter.unnecessarySeqFocus false
open Matrix

namespace OSq
open Sem Complex

/-! ### the operator of a quaternion -/

/-- `w•1 − I•(x•σx + y•σy + z•σz)`: the image of `w + x i + y j + z k` under `i,j,k ↦ −iσx, −iσy, −iσz`. -/
noncomputable def qMat (w x y z : ℝ) : Matrix (Fin 2) (Fin 2) ℂ :=
  (w : ℂ) • (1 : Matrix (Fin 2) (Fin 2) ℂ) - I • ((x : ℂ) • σx + (y : ℂ) • σy + (z : ℂ) • σz)

theorem qMat_eq (w x y z : ℝ) :
    qMat w x y z = !![(w : ℂ) - I * z, -(I * x) - y; -(I * x) + y, (w : ℂ) + I * z] := by
  unfold qMat σx σy σz
  ext i j
  fin_cases i <;> fin_cases j <;> simp <;> ring_nf <;> simp [Complex.I_sq] <;> ring

/-- the four real components can be read off the matrix -/
theorem qMat_injective {w x y z w' x' y' z' : ℝ} (h : qMat w x y z = qMat w' x' y' z') :
    w = w' ∧ x = x' ∧ y = y' ∧ z = z' := by
  rw [qMat_eq, qMat_eq] at h
  have h00 := congrFun (congrFun h 0) 0
  have h01 := congrFun (congrFun h 0) 1
  simp at h00 h01
  have a := congrArg Complex.re h00
  have b := congrArg Complex.im h00
  have c := congrArg Complex.re h01
  have d := congrArg Complex.im h01
  simp at a b c d
  exact ⟨a, d, c, b⟩

namespace ABA.Q
/-- the operator of a quaternion of `ABA.lean` -/
noncomputable def toMat (q : ABA.Q) : Matrix (Fin 2) (Fin 2) ℂ := qMat q.w q.x q.y q.z

/-- **qMat_mul**: the Hamilton product is the matrix product. -/
theorem toMat_mul (p q : ABA.Q) : (p * q).toMat = p.toMat * q.toMat := by
  unfold toMat
  rw [qMat_eq, qMat_eq, qMat_eq]
  ext i j
  fin_cases i <;> fin_cases j <;>
    simp [Matrix.mul_apply, Fin.sum_univ_two, mul_def, mul] <;> ring_nf <;> simp [Complex.I_sq] <;> ring

theorem toMat_neg (q : ABA.Q) : (-q).toMat = - q.toMat := by
  show qMat (-q.w) (-q.x) (-q.y) (-q.z) = - qMat q.w q.x q.y q.z
  rw [qMat_eq, qMat_eq]
  ext i j
  fin_cases i <;> fin_cases j <;> simp <;> ring

theorem toMat_one' : (⟨1, 0, 0, 0⟩ : ABA.Q).toMat = 1 := by
  unfold toMat
  rw [qMat_eq]
  ext i j
  fin_cases i <;> fin_cases j <;> simp

end ABA.Q

/-! ### the second quaternion structure (`Compose.lean`) -/

namespace Quat
/-- conversion `Compose.Quat → ABA.Q` (same four components) -/
def toQ (p : Quat) : ABA.Q := ⟨p.w, p.x, p.y, p.z⟩
/-- the operator of a quaternion of `Compose.lean` -/
noncomputable def toMat (p : Quat) : Matrix (Fin 2) (Fin 2) ℂ := qMat p.w p.x p.y p.z

theorem toMat_toQ (p : Quat) : p.toQ.toMat = p.toMat := rfl
theorem toQ_mul (p q : Quat) : (p * q).toQ = p.toQ * q.toQ := rfl
theorem toQ_neg (p : Quat) : (-p).toQ = -p.toQ := rfl
theorem toQ_injective : Function.Injective toQ := by
  rintro ⟨a, b, c, d⟩ ⟨a', b', c', d'⟩ h
  simp only [toQ, ABA.Q.mk.injEq] at h
  obtain ⟨rfl, rfl, rfl, rfl⟩ := h
  rfl

theorem toMat_mul (p q : Quat) : (p * q).toMat = p.toMat * q.toMat := by
  rw [← toMat_toQ, toQ_mul, ABA.Q.toMat_mul]; rfl
theorem toMat_neg (p : Quat) : (-p).toMat = - p.toMat := by
  rw [← toMat_toQ, toQ_neg, ABA.Q.toMat_neg]; rfl
theorem toMat_one : (1 : Quat).toMat = 1 := ABA.Q.toMat_one'
end Quat

/-- **qMat_mul**, **qMat_neg** under the names of the task statement -/
theorem qMat_mul (p q : ABA.Q) : (p * q).toMat = p.toMat * q.toMat := ABA.Q.toMat_mul p q
theorem qMat_neg (q : ABA.Q) : (-q).toMat = - q.toMat := ABA.Q.toMat_neg q

/-- inverse conversion -/
def ABA.Q.toQuat (q : ABA.Q) : Quat := ⟨q.w, q.x, q.y, q.z⟩
theorem ABA.Q.toQ_toQuat (q : ABA.Q) : q.toQuat.toQ = q := rfl
theorem Quat.toQuat_toQ (p : Quat) : p.toQ.toQuat = p := rfl

/-- the rotation quaternions of the two files agree -/
theorem quat_toQ (n : Vec3 ℝ) (θ : ℝ) : (quat n θ).toQ = ABA.Q.ofRot n θ := rfl

/-! ### `rot` through `qMat` -/

/-- **rot_eq_qMat**: `R_n(θ, φ) = e^{iφ} · qMat (cos(θ/2), sin(θ/2) n)`. -/
theorem rot_eq_qMat (n : ℝ × ℝ × ℝ) (θ φ : ℝ) :
    rot n θ φ = Complex.exp (I * φ) • (ABA.Q.ofRot n θ).toMat := by
  rw [rot_eq, ABA.Q.toMat, qMat_eq]
  congr 1
  ext i j
  fin_cases i <;> fin_cases j <;> simp [ABA.Q.ofRot] <;> ring

theorem rot_eq_qMat0 (n : ℝ × ℝ × ℝ) (θ : ℝ) : rot n θ 0 = (ABA.Q.ofRot n θ).toMat := by
  rw [rot_eq_qMat]; simp

theorem rot_eq_quat (n : ℝ × ℝ × ℝ) (θ φ : ℝ) :
    rot n θ φ = Complex.exp (I * φ) • (quat n θ).toMat := rot_eq_qMat n θ φ

/-- the phase argument is a scalar factor -/
theorem rot_phase_smul (n : ℝ × ℝ × ℝ) (θ φ : ℝ) : rot n θ φ = Complex.exp (I * φ) • rot n θ 0 := by
  rw [rot_eq_qMat, rot_eq_qMat0]

theorem rot_phase_add (n : ℝ × ℝ × ℝ) (θ φ ψ : ℝ) :
    rot n θ (φ + ψ) = Complex.exp (I * ψ) • rot n θ φ := by
  rw [rot_phase_smul n θ (φ + ψ), rot_phase_smul n θ φ, smul_smul, ← Complex.exp_add]
  congr 2; push_cast; ring

/-- product of two rotations: phases add, quaternions multiply -/
theorem rot_mul_rot (a b : ℝ × ℝ × ℝ) (θa φa θb φb : ℝ) :
    rot a θa φa * rot b θb φb
      = Complex.exp (I * ((φa + φb : ℝ) : ℂ)) • (quat a θa * quat b θb).toMat := by
  rw [rot_eq_quat, rot_eq_quat, Quat.toMat_mul, smul_mul_smul_comm, ← Complex.exp_add]
  congr 2; push_cast; ring

/-! ### coordinate axes -/

/-- coordinate axis number `i` (`0 ↦ x`, `1 ↦ y`, otherwise `z`), the axes of `Rx`, `Ry`, `Rz` -/
def eAxis : Nat → ℝ × ℝ × ℝ
  | 0 => (1, 0, 0)
  | 1 => (0, 1, 0)
  | _ => (0, 0, 1)

theorem eAxis_unit (i : Nat) : (eAxis i).1 ^ 2 + (eAxis i).2.1 ^ 2 + (eAxis i).2.2 ^ 2 = 1 := by
  unfold eAxis; split <;> norm_num

theorem ofAxisAngle_eq_ofRot (i : Nat) (θ : ℝ) : ABA.Q.ofAxisAngle i θ = ABA.Q.ofRot (eAxis i) θ := by
  unfold ABA.Q.ofAxisAngle eAxis ABA.Q.ofRot
  split <;> simp

/-- **rot_axis**: rotation about coordinate axis `i` is the matrix of `Q.ofAxisAngle i θ`. -/
theorem rot_axis (i : Nat) (θ : ℝ) : rot (eAxis i) θ 0 = (ABA.Q.ofAxisAngle i θ).toMat := by
  rw [ofAxisAngle_eq_ofRot, rot_eq_qMat0]

/-! ### A-B-A at the operator level -/

/-- the quaternion `abaProduct` is the operator product `Ra(θ3) · Rb(θ2) · Ra(θ1)` (`θ1` applied first) -/
theorem abaProduct_toMat (k : ABAKind) (θ1 θ2 θ3 : ℝ) :
    (ABA.abaProduct k θ1 θ2 θ3).toMat
      = rot (eAxis k.ia) θ3 0 * rot (eAxis k.ib) θ2 0 * rot (eAxis k.ia) θ1 0 := by
  unfold ABA.abaProduct
  rw [ABA.Q.toMat_mul, ABA.Q.toMat_mul, rot_axis, rot_axis, rot_axis]

theorem aba_rot_of_product {k : ABAKind} {n : ℝ × ℝ × ℝ} {α θ1 θ2 θ3 : ℝ}
    (h : ABA.abaProduct k θ1 θ2 θ3 = ABA.Q.ofRot n α) :
    rot (eAxis k.ia) θ3 0 * rot (eAxis k.ib) θ2 0 * rot (eAxis k.ia) θ1 0 = rot n α 0 := by
  rw [← abaProduct_toMat, h, rot_eq_qMat0]

/-- **aba_rot**: under the hypotheses of `aba_crisp` (unit axis, angle in `[-π+atol, π+atol)`, the three
    tolerance tests crisp), the Euler angles returned by `abaAngles` satisfy, for all six kinds,
    `R_a(θ3) · R_b(θ2) · R_a(θ1) = R_n(α)` — exactly, with sign `+`. -/
theorem aba_rot (atol : ℝ) (k : ABAKind) (α : ℝ) (n : ℝ × ℝ × ℝ)
    (hat : 0 < atol) (hn : n.1^2 + n.2.1^2 + n.2.2^2 = 1)
    (h1 : -Real.pi + atol ≤ α) (h2 : α < Real.pi + atol)
    (hcπ : |α - Real.pi| < atol → α = Real.pi)
    (hca : |α - Real.pi| < atol → |Vec3.get n k.ia| < atol → Vec3.get n k.ia = 0)
    (hcs : ¬ (|α - Real.pi| < atol ∧ |Vec3.get n k.ia| < atol) →
           Real.sin (α / 2)^2 * ((Vec3.get n k.ib)^2 + (Vec3.get n k.ic)^2) < atol^2 →
           Real.sin (α / 2)^2 * ((Vec3.get n k.ib)^2 + (Vec3.get n k.ic)^2) = 0)
    {θ1 θ2 θ3 : ℝ} (h : abaAngles atol k α n = .ok (θ1, θ2, θ3)) :
    rot (eAxis k.ia) θ3 0 * rot (eAxis k.ib) θ2 0 * rot (eAxis k.ia) θ1 0 = rot n α 0 := by
  obtain ⟨t1, t2, t3, h', hp⟩ := ABA.aba_crisp atol k α n hat hn h1 h2 hcπ hca hcs
  rw [h] at h'
  injection h' with h'
  simp only [Prod.mk.injEq] at h'
  obtain ⟨rfl, rfl, rfl⟩ := h'
  exact aba_rot_of_product hp

/-- existence form (as `aba_crisp`) -/
theorem aba_rot_exists (atol : ℝ) (k : ABAKind) (α : ℝ) (n : ℝ × ℝ × ℝ)
    (hat : 0 < atol) (hn : n.1^2 + n.2.1^2 + n.2.2^2 = 1)
    (h1 : -Real.pi + atol ≤ α) (h2 : α < Real.pi + atol)
    (hcπ : |α - Real.pi| < atol → α = Real.pi)
    (hca : |α - Real.pi| < atol → |Vec3.get n k.ia| < atol → Vec3.get n k.ia = 0)
    (hcs : ¬ (|α - Real.pi| < atol ∧ |Vec3.get n k.ia| < atol) →
           Real.sin (α / 2)^2 * ((Vec3.get n k.ib)^2 + (Vec3.get n k.ic)^2) < atol^2 →
           Real.sin (α / 2)^2 * ((Vec3.get n k.ib)^2 + (Vec3.get n k.ic)^2) = 0) :
    ∃ θ1 θ2 θ3, abaAngles atol k α n = .ok (θ1, θ2, θ3) ∧
      rot (eAxis k.ia) θ3 0 * rot (eAxis k.ib) θ2 0 * rot (eAxis k.ia) θ1 0 = rot n α 0 := by
  obtain ⟨t1, t2, t3, h', hp⟩ := ABA.aba_crisp atol k α n hat hn h1 h2 hcπ hca hcs
  exact ⟨t1, t2, t3, h', aba_rot_of_product hp⟩

/-- with the input's phase: the product of the three phase-free rotations is `e^{-iφ} · R_n(α, φ)` -/
theorem aba_rot_phase {k : ABAKind} {n : ℝ × ℝ × ℝ} {α θ1 θ2 θ3 : ℝ} (φ : ℝ)
    (h : rot (eAxis k.ia) θ3 0 * rot (eAxis k.ib) θ2 0 * rot (eAxis k.ia) θ1 0 = rot n α 0) :
    rot (eAxis k.ia) θ3 0 * rot (eAxis k.ib) θ2 0 * rot (eAxis k.ia) θ1 0
      = Complex.exp (-(I * φ)) • rot n α φ := by
  rw [h, rot_phase_smul n α φ, smul_smul, ← Complex.exp_add]; simp

/-! ### non-vacuity -/

/-- `i·j = k` becomes `(−iσx)(−iσy) = −iσz` -/
example : (⟨0, 1, 0, 0⟩ : ABA.Q).toMat * (⟨0, 0, 1, 0⟩ : ABA.Q).toMat = (⟨0, 0, 0, 1⟩ : ABA.Q).toMat := by
  rw [← ABA.Q.toMat_mul]; congr 1; ext <;> simp [ABA.Q.mul_def, ABA.Q.mul]

/-- `Rz(π/2)·Rz(π/2) = Rz(π)` through the quaternions -/
example : rot (eAxis 2) (Real.pi / 2) 0 * rot (eAxis 2) (Real.pi / 2) 0 = rot (eAxis 2) Real.pi 0 := by
  simp only [rot_axis]
  rw [← ABA.Q.toMat_mul]
  congr 1
  have h1 : Real.pi / 2 / 2 = Real.pi / 4 := by ring
  have hs : Real.sqrt 2 * Real.sqrt 2 = 2 := Real.mul_self_sqrt (by norm_num)
  ext <;> simp [ABA.Q.ofAxisAngle, ABA.Q.mul_def, ABA.Q.mul, h1] <;> nlinarith [hs]

/-- `aba_rot` instantiated: ZYZ of the rotation by `π/2` about `x` (general branch) -/
example : ∃ θ1 θ2 θ3, abaAngles (1 / 1000 : ℝ) .ZYZ (Real.pi / 2) (1, 0, 0) = .ok (θ1, θ2, θ3) ∧
    rot (0, 0, 1) θ3 0 * rot (0, 1, 0) θ2 0 * rot (0, 0, 1) θ1 0 = rot (1, 0, 0) (Real.pi / 2) 0 := by
  have hpi := Real.two_le_pi
  have hnp : ¬ |Real.pi / 2 - Real.pi| < (1 / 1000 : ℝ) := by
    rw [abs_of_neg (by linarith)]; linarith
  refine aba_rot_exists (1 / 1000) .ZYZ (Real.pi / 2) (1, 0, 0) (by norm_num) (by norm_num)
    (by linarith) (by linarith) (fun h => absurd h hnp) (fun h => absurd h hnp) ?_
  intro _ h
  exfalso
  simp only [ABAKind.ib, ABAKind.ic, ABAKind.ia, Vec3.get] at h
  have : Real.sin (Real.pi / 2 / 2) = Real.sqrt 2 / 2 := by
    rw [show Real.pi / 2 / 2 = Real.pi / 4 by ring, Real.sin_pi_div_four]
  rw [this] at h
  have hs : Real.sqrt 2 * Real.sqrt 2 = 2 := Real.mul_self_sqrt (by norm_num)
  nlinarith [hs]

end OSq

#print axioms OSq.ABA.Q.toMat_mul
#print axioms OSq.Quat.toMat_mul
#print axioms OSq.rot_eq_qMat
#print axioms OSq.rot_axis
#print axioms OSq.rot_mul_rot
#print axioms OSq.aba_rot
