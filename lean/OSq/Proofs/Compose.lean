import OSq.Model.Passes
import OSq.Sem.RealScalar
import Mathlib.Tactic.Ring
import Mathlib.Tactic.Linarith
import Mathlib.Tactic.NormNum
import Mathlib.Tactic.FieldSimp
import Mathlib.Tactic.Positivity
import Mathlib.Algebra.Group.Defs

/-
  OSq.Proofs.Compose — the composition of two Bloch-sphere rotations (`composeRot`, Python
  `merger/general_merger.py: compose_bloch_sphere_rotations`) at `α := ℝ`, with unit quaternions
  (`rotation (n, θ) ↦ (cos(θ/2), sin(θ/2)·n)`, Hamilton product) standing for the 2×2 operators
  (`U(n,θ) = cos(θ/2)·I − i·sin(θ/2)·(n·σ)`; `i,j,k ↦ −iσx, −iσy, −iσz` is an algebra homomorphism).

  Theorems
  * `wv_eq_mul`                 the numbers `(w, v)` the code computes are the Hamilton product `quat a * quat b`.
  * `compose_pre_rounding`      (unit axes) `(w,v) = quat a * quat b`, `w² + |v|² = 1`, `|w| ≤ 1` so the clamp is the
                                identity, `Θ = 2·acos w ∈ [0,2π]`, `cos(Θ/2) = w`, `sin(Θ/2) = √(1−w²) = |v| ≥ 0`, and if
                                `sin(Θ/2) ≠ 0` the un-rounded axis `v/sin(Θ/2)` is a unit vector with
                                `quat (v/sin(Θ/2), Θ) = quat a * quat b`.
  * `compose_is_product_a_then_b_first`  `compose a b` denotes `U_a · U_b` (`b` applied first) — the Python docstring says
                                the opposite; the merger's call `compose(statement, accumulated)` is right.
                                (`quat_noncomm_witness` shows the order matters.)
  * `rint_error`, `roundTo_error`   `|rint y − y| ≤ 1/2`, `|roundTo s x − x| ≤ 1/(2s)` for `s > 0`.
  * `composeRot_real`           closed form of `composeRot` at ℝ for unit axes on one qubit.
  * `mkAxis_unit`, `mkAxis_error_iff_value`  `mkAxis` is the identity on unit vectors; at ℝ it fails only on the zero vector.
  * `normalizeAngle_shift`, `quat_shift`  `normalizeAngle` shifts by a multiple of `2π`; that changes `quat` by a sign.
  * `compose_crisp`             under the crisp hypotheses (honest identity test, exact rounding): identity branch
                                `quat a * quat b = ±1` and `r` is the identity rotation; general branch
                                `quat r = ± quat a * quat b`, `r.phase ≡ a.phase + b.phase (mod 2π)`, unit axis, name.
  * `compose_error_diff_qubits`, `compose_ok_same_qubit` (any `α`), `compose_error_cases`, `compose_ok_of_crisp`
                                the error branch: different qubits ⇒ `ValueError`; for unit axes nothing else errors
                                except `mkAxis` of an all-zero *rounded* axis, impossible when rounding is exact.
  * `PQuat`, `Rot.op`, `compose_crisp_op`  quaternions modulo sign form a monoid (operators up to the global phase −1);
                                under the crisp hypotheses `(composeRot a b).op = a.op * b.op` in both branches — the
                                per-composition hypothesis of `MergeAbs.Crisp` (file `MergeAbstract`) for `ρ := Rot.op`.
  * `compose_name` (any `α`)    the result keeps `b.nm` if `a` tests identity, `a.nm` if `b` (not `a`) does, else `none`
                                (the fresh identity rotation of the identity branch is anonymous).
-/
namespace OSq
open Real

/-! ### Unit quaternions (no matrix library needed) -/

/-- A quaternion `w + x i + y j + z k`.  The rotation operator
    `U(n, θ) = cos(θ/2) I − i sin(θ/2) (n·σ)` corresponds to `(cos(θ/2), sin(θ/2) n)` under the algebra
    homomorphism `i ↦ −iσ_x, j ↦ −iσ_y, k ↦ −iσ_z`, so the Hamilton product is the operator product. -/
@[ext] structure Quat where
  w : ℝ
  x : ℝ
  y : ℝ
  z : ℝ

namespace Quat
/-- Hamilton product -/
def mul (p q : Quat) : Quat :=
  ⟨p.w * q.w - p.x * q.x - p.y * q.y - p.z * q.z,
   p.w * q.x + p.x * q.w + p.y * q.z - p.z * q.y,
   p.w * q.y - p.x * q.z + p.y * q.w + p.z * q.x,
   p.w * q.z + p.x * q.y - p.y * q.x + p.z * q.w⟩
instance : Mul Quat := ⟨mul⟩
def neg (p : Quat) : Quat := ⟨-p.w, -p.x, -p.y, -p.z⟩
instance : Neg Quat := ⟨neg⟩
def one : Quat := ⟨1, 0, 0, 0⟩
instance : One Quat := ⟨one⟩
def normSq (p : Quat) : ℝ := p.w ^ 2 + p.x ^ 2 + p.y ^ 2 + p.z ^ 2

theorem mul_def (p q : Quat) : p * q = mul p q := rfl
theorem neg_def (p : Quat) : -p = neg p := rfl
theorem one_def : (1 : Quat) = ⟨1, 0, 0, 0⟩ := rfl

theorem normSq_mul (p q : Quat) : normSq (p * q) = normSq p * normSq q := by
  simp only [normSq, mul_def, mul]; ring

theorem mul_assoc' (p q r : Quat) : p * q * r = p * (q * r) := by
  ext <;> simp only [mul_def, mul] <;> ring
theorem one_mul' (p : Quat) : 1 * p = p := by
  ext <;> simp [mul_def, mul, one_def]
theorem mul_one' (p : Quat) : p * 1 = p := by
  ext <;> simp [mul_def, mul, one_def]
end Quat

/-- `rotation (n, θ) ↦ (cos(θ/2), sin(θ/2)·n)` -/
noncomputable def quat (n : Vec3 ℝ) (θ : ℝ) : Quat :=
  ⟨Real.cos (θ / 2), Real.sin (θ / 2) * n.1, Real.sin (θ / 2) * n.2.1, Real.sin (θ / 2) * n.2.2⟩

noncomputable def Rot.quat (r : Rot ℝ) : Quat := OSq.quat r.axis r.angle

/-- the axis is a unit vector -/
def UnitVec (n : Vec3 ℝ) : Prop := n.1 * n.1 + n.2.1 * n.2.1 + n.2.2 * n.2.2 = 1

theorem normSq_quat (n : Vec3 ℝ) (θ : ℝ) (hn : UnitVec n) : (quat n θ).normSq = 1 := by
  unfold UnitVec at hn
  simp only [Quat.normSq, quat]
  have := Real.sin_sq_add_cos_sq (θ / 2)
  nlinarith [this, hn]

/-! ### The numbers `compose_bloch_sphere_rotations a b` computes before any rounding -/

/-- the `acos` argument -/
noncomputable def cW (a b : Rot ℝ) : ℝ :=
  Real.cos (a.angle / 2) * Real.cos (b.angle / 2)
    - Real.sin (a.angle / 2) * Real.sin (b.angle / 2) * Vec3.dot a.axis b.axis

/-- component `i` of the unnormalised combined axis -/
noncomputable def cVi (a b : Rot ℝ) (i : Nat) : ℝ :=
  (Real.sin (a.angle / 2) * Real.cos (b.angle / 2)) * a.axis.get i
    + (Real.cos (a.angle / 2) * Real.sin (b.angle / 2)) * b.axis.get i
    + (Real.sin (a.angle / 2) * Real.sin (b.angle / 2)) * (Vec3.cross a.axis b.axis).get i

noncomputable def cV (a b : Rot ℝ) : Vec3 ℝ := (cVi a b 0, cVi a b 1, cVi a b 2)

/-- the combined angle `Θ = 2·acos w` -/
noncomputable def cTheta (a b : Rot ℝ) : ℝ := 2 * Real.arccos (cW a b)

/-- `(w, v)` is exactly the Hamilton product `quat a * quat b`. -/
theorem wv_eq_mul (a b : Rot ℝ) :
    (⟨cW a b, (cV a b).1, (cV a b).2.1, (cV a b).2.2⟩ : Quat) = a.quat * b.quat := by
  ext <;>
  simp only [Rot.quat, quat, Quat.mul_def, Quat.mul, cW, cV, cVi, Vec3.dot, Vec3.cross, Vec3.get] <;>
  ring

theorem cW_sq_add (a b : Rot ℝ) (ha : UnitVec a.axis) (hb : UnitVec b.axis) :
    cW a b ^ 2 + ((cV a b).1 ^ 2 + (cV a b).2.1 ^ 2 + (cV a b).2.2 ^ 2) = 1 := by
  have h := Quat.normSq_mul a.quat b.quat
  rw [← wv_eq_mul, Rot.quat, Rot.quat, normSq_quat _ _ ha, normSq_quat _ _ hb] at h
  simp only [Quat.normSq] at h
  linarith

theorem abs_cW_le_one (a b : Rot ℝ) (ha : UnitVec a.axis) (hb : UnitVec b.axis) : |cW a b| ≤ 1 := by
  have h := cW_sq_add a b ha hb
  apply abs_le_one_iff_mul_self_le_one.mpr
  nlinarith [sq_nonneg (cV a b).1, sq_nonneg (cV a b).2.1, sq_nonneg (cV a b).2.2]

/-- the clamp `max(min(x, 1), -1)` is the identity on `[-1, 1]` -/
theorem clamp1_of_abs_le_one (x : ℝ) (h : |x| ≤ 1) : clamp1 x = x := by
  obtain ⟨h1, h2⟩ := abs_le.mp h
  simp only [clamp1, maxS_real, minS_real, one_real]
  rw [min_eq_left h2, max_eq_left h1]

theorem cTheta_range (a b : Rot ℝ) : 0 ≤ cTheta a b ∧ cTheta a b ≤ 2 * Real.pi := by
  unfold cTheta
  constructor
  · have := Real.arccos_nonneg (cW a b); linarith
  · have := Real.arccos_le_pi (cW a b); linarith

theorem cos_half_cTheta (a b : Rot ℝ) (ha : UnitVec a.axis) (hb : UnitVec b.axis) :
    Real.cos (cTheta a b / 2) = cW a b := by
  obtain ⟨h1, h2⟩ := abs_le.mp (abs_cW_le_one a b ha hb)
  have : cTheta a b / 2 = Real.arccos (cW a b) := by unfold cTheta; ring
  rw [this, Real.cos_arccos h1 h2]

theorem sin_half_cTheta (a b : Rot ℝ) :
    Real.sin (cTheta a b / 2) = Real.sqrt (1 - cW a b ^ 2) := by
  have : cTheta a b / 2 = Real.arccos (cW a b) := by unfold cTheta; ring
  rw [this, Real.sin_arccos]

theorem sin_half_cTheta_eq_norm (a b : Rot ℝ) (ha : UnitVec a.axis) (hb : UnitVec b.axis) :
    Real.sin (cTheta a b / 2) = Vec3.norm (cV a b) := by
  rw [sin_half_cTheta]
  simp only [Vec3.norm, trig_sqrt_real]
  congr 1
  have h := cW_sq_add a b ha hb
  linarith

theorem sin_half_cTheta_nonneg (a b : Rot ℝ) : 0 ≤ Real.sin (cTheta a b / 2) := by
  rw [sin_half_cTheta]; exact Real.sqrt_nonneg _

theorem sin_half_cTheta_sq (a b : Rot ℝ) (ha : UnitVec a.axis) (hb : UnitVec b.axis) :
    Real.sin (cTheta a b / 2) ^ 2 = (cV a b).1 ^ 2 + (cV a b).2.1 ^ 2 + (cV a b).2.2 ^ 2 := by
  have h := cW_sq_add a b ha hb
  have hc := cos_half_cTheta a b ha hb
  have := Real.sin_sq_add_cos_sq (cTheta a b / 2)
  rw [hc] at this
  linarith

/-- the un-rounded combined axis `v / sin(Θ/2)` -/
noncomputable def cAxis (a b : Rot ℝ) : Vec3 ℝ :=
  (1 / Real.sin (cTheta a b / 2) * cVi a b 0, 1 / Real.sin (cTheta a b / 2) * cVi a b 1,
   1 / Real.sin (cTheta a b / 2) * cVi a b 2)

theorem cAxis_unit (a b : Rot ℝ) (ha : UnitVec a.axis) (hb : UnitVec b.axis)
    (hs : Real.sin (cTheta a b / 2) ≠ 0) : UnitVec (cAxis a b) := by
  have h := sin_half_cTheta_sq a b ha hb
  simp only [cV] at h
  simp only [UnitVec, cAxis]
  field_simp
  linarith

theorem quat_cAxis (a b : Rot ℝ) (ha : UnitVec a.axis) (hb : UnitVec b.axis)
    (hs : Real.sin (cTheta a b / 2) ≠ 0) : quat (cAxis a b) (cTheta a b) = a.quat * b.quat := by
  rw [← wv_eq_mul]
  ext
  · exact cos_half_cTheta a b ha hb
  all_goals (simp only [quat, cAxis, cV]; field_simp)

/-- **compose_pre_rounding.**  For unit axes, with `w = cW a b`, `v = cV a b`, `Θ = cTheta a b = 2·acos w`:
    `(w, v)` is the Hamilton product `quat a * quat b`; `w² + |v|² = 1`; `|w| ≤ 1`, so the clamp is the
    identity; `Θ ∈ [0, 2π]`, `cos(Θ/2) = w`, `sin(Θ/2) = √(1 − w²) = |v| ≥ 0`; and if `sin(Θ/2) ≠ 0`
    the un-rounded axis `v / sin(Θ/2)` is a unit vector with `quat (v / sin(Θ/2), Θ) = quat a * quat b`. -/
theorem compose_pre_rounding (a b : Rot ℝ) (ha : UnitVec a.axis) (hb : UnitVec b.axis) :
    (⟨cW a b, (cV a b).1, (cV a b).2.1, (cV a b).2.2⟩ : Quat) = a.quat * b.quat
    ∧ cW a b ^ 2 + ((cV a b).1 ^ 2 + (cV a b).2.1 ^ 2 + (cV a b).2.2 ^ 2) = 1
    ∧ |cW a b| ≤ 1
    ∧ clamp1 (cW a b) = cW a b
    ∧ (0 ≤ cTheta a b ∧ cTheta a b ≤ 2 * Real.pi)
    ∧ Real.cos (cTheta a b / 2) = cW a b
    ∧ Real.sin (cTheta a b / 2) = Real.sqrt (1 - cW a b ^ 2)
    ∧ Real.sin (cTheta a b / 2) = Vec3.norm (cV a b)
    ∧ 0 ≤ Real.sin (cTheta a b / 2)
    ∧ (Real.sin (cTheta a b / 2) ≠ 0 →
        UnitVec (cAxis a b) ∧ quat (cAxis a b) (cTheta a b) = a.quat * b.quat) :=
  ⟨wv_eq_mul a b, cW_sq_add a b ha hb, abs_cW_le_one a b ha hb,
   clamp1_of_abs_le_one _ (abs_cW_le_one a b ha hb), cTheta_range a b, cos_half_cTheta a b ha hb,
   sin_half_cTheta a b, sin_half_cTheta_eq_norm a b ha hb, sin_half_cTheta_nonneg a b,
   fun hs => ⟨cAxis_unit a b ha hb hs, quat_cAxis a b ha hb hs⟩⟩

/-! ### Rounding -/

theorem rint_error (y : ℝ) : |rint y - y| ≤ 1 / 2 := by
  have h1 := Int.floor_le y
  have h2 := Int.lt_floor_add_one y
  unfold rint
  simp only [trig_floor_real, half_real, one_real, two_real]
  split_ifs <;> rw [abs_le] <;> constructor <;> linarith

theorem roundTo_error (s x : ℝ) (hs : 0 < s) : |roundTo s x - x| ≤ 1 / (2 * s) := by
  unfold roundTo
  have h := rint_error (x * s)
  have e : rint (x * s) / s - x = (rint (x * s) - x * s) / s := by field_simp
  rw [e, abs_div, abs_of_pos hs, div_le_div_iff₀ hs (by positivity)]
  nlinarith [h]


/-- the model's scale literal `(1e7 : α)` at `α := ℝ` (elaborated through `Scalar.toOfScientific`) -/
noncomputable abbrev s7 : ℝ := @OfScientific.ofScientific ℝ Scalar.toOfScientific 1 false 7
theorem s7_eq : s7 = 10000000 := by
  show (1e7 : ℝ) = _
  norm_num

/-- `composeRot` at `ℝ`, for unit axes on the same qubit, in terms of `cTheta`, `cAxis`. -/
theorem composeRot_real (atol : ℝ) (a b : Rot ℝ) (ha : UnitVec a.axis) (hb : UnitVec b.axis)
    (hq : a.q = b.q) :
    composeRot atol a b =
      if |Real.sin (cTheta a b / 2)| < atol then .ok (identityRot a.q)
      else
        (mkAxis (roundTo s7 (cAxis a b).1, roundTo s7 (cAxis a b).2.1, roundTo s7 (cAxis a b).2.2)).map
          fun ax => ⟨a.q, ax, normalizeAngle atol (cTheta a b),
            normalizeAngle atol (roundTo s7 (a.phase + b.phase)),
            if a.isIdentity atol then b.nm else if b.isIdentity atol then a.nm else none⟩ := by
  have hne : (a.q != b.q) = false := by simp [hq]
  have key : clamp1 (Trig.cos (a.angle / two) * Trig.cos (b.angle / two) -
      Trig.sin (a.angle / two) * Trig.sin (b.angle / two) * a.axis.dot b.axis) = cW a b := by
    have e : Trig.cos (a.angle / two) * Trig.cos (b.angle / two) -
      Trig.sin (a.angle / two) * Trig.sin (b.angle / two) * a.axis.dot b.axis = cW a b := by
      simp only [cW, trig_cos_real, trig_sin_real, two_real]
    rw [e]; exact clamp1_of_abs_le_one _ (abs_cW_le_one a b ha hb)
  unfold composeRot
  simp only [hne, Bool.false_eq_true, ↓reduceIte, key]
  simp only [two_real, one_real, trig_sin_real, trig_cos_real,
    trig_acos_real, absS_real, cTheta, cAxis, cVi, s7]
  by_cases h : |sin (2 * arccos (cW a b) / 2)| < atol
  · rw [if_pos h]; exact (if_pos h).symm
  · rw [if_neg h]; refine Eq.trans ?_ (if_neg h).symm
    generalize mkAxis (α := ℝ) _ = m
    cases m <;> rfl

/-! ### `mkAxis`, `normalizeAngle` at ℝ -/

theorem vmaxAbs_real (v : Vec3 ℝ) : v.maxAbs = max (max |v.1| |v.2.1|) |v.2.2| := by
  simp only [Vec3.maxAbs, maxS_real, absS_real]

theorem vmaxAbs_eq_zero_iff (v : Vec3 ℝ) : v.maxAbs = 0 ↔ v = (0, 0, 0) := by
  rw [vmaxAbs_real]
  constructor
  · intro h
    have h1 : |v.1| ≤ 0 := h ▸ le_trans (le_max_left _ _) (le_max_left _ _)
    have h2 : |v.2.1| ≤ 0 := h ▸ le_trans (le_max_right _ _) (le_max_left _ _)
    have h3 : |v.2.2| ≤ 0 := h ▸ le_max_right _ _
    have e1 : v.1 = 0 := abs_eq_zero.mp (le_antisymm h1 (abs_nonneg _))
    have e2 : v.2.1 = 0 := abs_eq_zero.mp (le_antisymm h2 (abs_nonneg _))
    have e3 : v.2.2 = 0 := abs_eq_zero.mp (le_antisymm h3 (abs_nonneg _))
    obtain ⟨x, y, z⟩ := v
    simp only at e1 e2 e3
    rw [e1, e2, e3]
  · rintro rfl; simp

theorem vmaxAbs_nonneg (v : Vec3 ℝ) : 0 ≤ v.maxAbs := by
  rw [vmaxAbs_real]; exact le_trans (abs_nonneg _) (le_max_right _ _)

theorem maxAbs_pos_of_unit (u : Vec3 ℝ) (hu : UnitVec u) : 0 < u.maxAbs := by
  rcases (vmaxAbs_nonneg u).lt_or_eq with h | h
  · exact h
  · exfalso
    have := (vmaxAbs_eq_zero_iff u).mp h.symm
    rw [this] at hu
    simp [UnitVec] at hu

/-- `mkAxis` at ℝ fails exactly on the zero vector (everything is finite), with `ValueError`. -/
theorem mkAxis_error_iff_value (v : Vec3 ℝ) (e : Err) : mkAxis v = .error e ↔ (v = (0, 0, 0) ∧ e = .value) := by
  have hd : Scalar.decEqB v.maxAbs (zero : ℝ) = decide (v.maxAbs = 0) := by
    show decide (v.maxAbs = zero) = _
    rw [zero_real]
  unfold mkAxis
  simp only [trig_finite_real, Bool.not_true, Bool.or_false, hd, decide_eq_true_eq]
  by_cases h : v.maxAbs = 0
  · rw [if_pos h]
    constructor
    · intro he; injection he with he; exact ⟨(vmaxAbs_eq_zero_iff v).mp h, he.symm⟩
    · rintro ⟨_, rfl⟩; rfl
  · rw [if_neg h]
    constructor
    · intro he; cases he
    · rintro ⟨hv, _⟩; exact absurd ((vmaxAbs_eq_zero_iff v).mpr hv) h

/-- `mkAxis` is the identity on unit vectors (whichever way the magnitude pre-scaling test goes). -/
theorem mkAxis_unit (u : Vec3 ℝ) (hu : UnitVec u) : mkAxis u = .ok u := by
  have hl := maxAbs_pos_of_unit u hu
  have hd : Scalar.decEqB u.maxAbs (zero : ℝ) = false := by
    show decide (u.maxAbs = zero) = false
    rw [zero_real]; exact decide_eq_false (ne_of_gt hl)
  have hn : Vec3.norm u = 1 := by
    unfold UnitVec at hu
    simp only [Vec3.norm, trig_sqrt_real, hu, Real.sqrt_one]
  have hn2 : Vec3.norm (u.divBy u.maxAbs) = 1 / u.maxAbs := by
    unfold UnitVec at hu
    simp only [Vec3.norm, Vec3.divBy, trig_sqrt_real]
    have : u.1 / u.maxAbs * (u.1 / u.maxAbs) + u.2.1 / u.maxAbs * (u.2.1 / u.maxAbs)
        + u.2.2 / u.maxAbs * (u.2.2 / u.maxAbs) = (1 / u.maxAbs) ^ 2 := by
      field_simp; linarith
    rw [this, Real.sqrt_sq (le_of_lt (one_div_pos.mpr hl))]
  unfold mkAxis
  simp only [trig_finite_real, Bool.not_true, Bool.or_false, hd, Bool.false_eq_true, ↓reduceIte]
  split_ifs
  · rw [hn]; simp [Vec3.divBy]
  · rw [hn2]
    obtain ⟨x, y, z⟩ := u
    simp only [Vec3.divBy]
    have hne := ne_of_gt hl
    congr 1
    refine Prod.ext ?_ (Prod.ext ?_ ?_) <;> (simp only; field_simp)

theorem normalizeAngle_shift (atol x : ℝ) :
    ∃ m : ℤ, normalizeAngle atol x = x + m * (2 * Real.pi) := by
  unfold normalizeAngle
  simp only [two_real, pi_real, one_real, trig_floor_real]
  split_ifs
  · exact ⟨-⌊x / (2 * Real.pi)⌋, by push_cast; ring⟩
  · exact ⟨-⌊x / (2 * Real.pi)⌋ - 2, by push_cast; ring⟩
  · exact ⟨-⌊x / (2 * Real.pi)⌋ - 1, by push_cast; ring⟩

/-- shifting the angle by a multiple of `2π` changes the quaternion at most by sign -/
theorem quat_shift (n : Vec3 ℝ) (θ : ℝ) (m : ℤ) :
    quat n (θ + m * (2 * Real.pi)) = quat n θ ∨ quat n (θ + m * (2 * Real.pi)) = -quat n θ := by
  have e : (θ + m * (2 * Real.pi)) / 2 = θ / 2 + m * Real.pi := by ring
  rcases Int.even_or_odd m with hm | hm
  · left
    ext <;> simp only [quat, e, Real.cos_add_int_mul_pi, Real.sin_add_int_mul_pi, hm.neg_one_zpow, one_mul]
  · right
    ext <;> simp only [quat, e, Real.cos_add_int_mul_pi, Real.sin_add_int_mul_pi, hm.neg_one_zpow,
      Quat.neg_def, Quat.neg] <;> ring

theorem identityRot_quat (q : Int) : (identityRot q : Rot ℝ).quat = 1 := by
  ext <;> simp [identityRot, Rot.quat, quat, Quat.one_def]

/-- if `sin(Θ/2) = 0` the product of the two rotations is `±1` (the identity up to global phase) -/
theorem mul_eq_pm_one_of_sin_zero (a b : Rot ℝ) (ha : UnitVec a.axis) (hb : UnitVec b.axis)
    (hs : Real.sin (cTheta a b / 2) = 0) : a.quat * b.quat = 1 ∨ a.quat * b.quat = -1 := by
  have h1 := sin_half_cTheta_sq a b ha hb
  have h2 := cW_sq_add a b ha hb
  rw [hs] at h1
  have hv1 : (cV a b).1 = 0 := by nlinarith [sq_nonneg (cV a b).1, sq_nonneg (cV a b).2.1, sq_nonneg (cV a b).2.2]
  have hv2 : (cV a b).2.1 = 0 := by nlinarith [sq_nonneg (cV a b).1, sq_nonneg (cV a b).2.1, sq_nonneg (cV a b).2.2]
  have hv3 : (cV a b).2.2 = 0 := by nlinarith [sq_nonneg (cV a b).1, sq_nonneg (cV a b).2.1, sq_nonneg (cV a b).2.2]
  have hw : cW a b = 1 ∨ cW a b = -1 := by
    have : (cW a b - 1) * (cW a b + 1) = 0 := by nlinarith
    rcases mul_eq_zero.mp this with h | h
    · left; linarith
    · right; linarith
  rw [← wv_eq_mul, hv1, hv2, hv3]
  rcases hw with h | h
  · left; rw [h]; rfl
  · right; rw [h]; ext <;> simp [Quat.neg_def, Quat.neg, Quat.one_def]

/-! ### Facts valid for every scalar type -/
section generic
variable {α : Type} [Scalar α]

/-- rotations on different qubits: `ValueError` -/
theorem compose_error_diff_qubits (atol : α) (a b : Rot α) (h : a.q ≠ b.q) :
    composeRot atol a b = .error .value := by
  unfold composeRot
  simp [h]

/-- a successful composition is on one qubit, and the only error is `ValueError` -/
theorem compose_ok_same_qubit (atol : α) (a b r : Rot α) (h : composeRot atol a b = .ok r) :
    a.q = b.q ∧ r.q = a.q := by
  unfold composeRot at h
  split at h
  · cases h
  · rename_i hq
    have hq : a.q = b.q := by simpa using hq
    refine ⟨hq, ?_⟩
    simp only at h
    split at h
    · injection h with h; rw [← h]; rfl
    · split at h
      · cases h
      · injection h with h; rw [← h]

/-- **compose_name.** The result is either the fresh (anonymous) identity rotation, or it keeps `b`'s name when
    `a` tests as identity, `a`'s name when `b` (and not `a`) tests as identity, and is anonymous otherwise. -/
theorem compose_name (atol : α) (a b r : Rot α) (h : composeRot atol a b = .ok r) :
    r = identityRot a.q ∨
    r.nm = (if a.isIdentity atol then b.nm else if b.isIdentity atol then a.nm else none) := by
  unfold composeRot at h
  split at h
  · cases h
  · simp only at h
    split at h
    · injection h with h; exact Or.inl h.symm
    · split at h
      · cases h
      · injection h with h; right; rw [← h]

end generic

/-! ### Assembly at ℝ under the crisp hypotheses -/

/-- **compose_crisp.**  If `composeRot atol a b = .ok r` for unit axes, the identity test is honest and the
    rounding to 7 decimals is exact on the four rounded numbers (only needed in the non-identity branch), then
    `a`, `b`, `r` are on one qubit and either
    * (identity branch) `sin(Θ/2) = 0`, `quat a * quat b = ±1`, and `r` is the identity rotation
      (`quat r = 1`; the phase `a.phase + b.phase` is dropped — a global phase), or
    * (general branch) `r.axis` is the un-rounded unit axis, `quat r = ± quat a * quat b` (sign from `normalizeAngle`
      shifting `Θ` by a multiple of `2π`), `r.phase ≡ a.phase + b.phase (mod 2π)`, the name is as in
      `compose_name`, and `r.angle = normalizeAngle atol Θ`. -/
theorem compose_crisp (atol : ℝ) (hatol : 0 < atol) (a b r : Rot ℝ)
    (ha : UnitVec a.axis) (hb : UnitVec b.axis)
    (h : composeRot atol a b = .ok r)
    (hcrisp : |Real.sin (cTheta a b / 2)| < atol → Real.sin (cTheta a b / 2) = 0)
    (hround : ¬ |Real.sin (cTheta a b / 2)| < atol →
      roundTo s7 (cAxis a b).1 = (cAxis a b).1 ∧ roundTo s7 (cAxis a b).2.1 = (cAxis a b).2.1 ∧
      roundTo s7 (cAxis a b).2.2 = (cAxis a b).2.2 ∧
      roundTo s7 (a.phase + b.phase) = a.phase + b.phase) :
    a.q = b.q ∧ r.q = a.q ∧
    ((|Real.sin (cTheta a b / 2)| < atol ∧ Real.sin (cTheta a b / 2) = 0 ∧ r = identityRot a.q ∧ r.quat = 1
        ∧ (a.quat * b.quat = 1 ∨ a.quat * b.quat = -1))
     ∨ (¬ |Real.sin (cTheta a b / 2)| < atol ∧ Real.sin (cTheta a b / 2) ≠ 0
        ∧ r.axis = cAxis a b ∧ UnitVec r.axis
        ∧ (r.quat = a.quat * b.quat ∨ r.quat = -(a.quat * b.quat))
        ∧ (∃ m : ℤ, r.phase = a.phase + b.phase + m * (2 * Real.pi))
        ∧ r.nm = (if a.isIdentity atol then b.nm else if b.isIdentity atol then a.nm else none)
        ∧ r.angle = normalizeAngle atol (cTheta a b))) := by
  obtain ⟨hq, hrq⟩ := compose_ok_same_qubit atol a b r h
  refine ⟨hq, hrq, ?_⟩
  rw [composeRot_real atol a b ha hb hq] at h
  by_cases hs : |Real.sin (cTheta a b / 2)| < atol
  · left
    rw [if_pos hs] at h
    injection h with h
    have h0 := hcrisp hs
    exact ⟨hs, h0, h.symm, by rw [← h]; exact identityRot_quat _, mul_eq_pm_one_of_sin_zero a b ha hb h0⟩
  · right
    have hne : Real.sin (cTheta a b / 2) ≠ 0 := by
      intro h0; apply hs; rw [h0, abs_zero]; exact hatol
    obtain ⟨h1, h2, h3, hp⟩ := hround hs
    have hu := cAxis_unit a b ha hb hne
    rw [if_neg hs, h1, h2, h3, hp,
      show ((cAxis a b).1, (cAxis a b).2.1, (cAxis a b).2.2) = cAxis a b from rfl, mkAxis_unit _ hu] at h
    simp only [Except.map] at h
    injection h with h
    subst h
    refine ⟨hs, hne, rfl, hu, ?_, ?_, rfl, rfl⟩
    · obtain ⟨m, hm⟩ := normalizeAngle_shift atol (cTheta a b)
      simp only [Rot.quat, hm]
      have := quat_shift (cAxis a b) (cTheta a b) m
      rw [quat_cAxis a b ha hb hne] at this
      exact this
    · exact normalizeAngle_shift atol (a.phase + b.phase)

/-- the composition (the one the merger performs is `compose statement accumulated`) denotes the operator product
    `U_a · U_b`, i.e. **`b` is applied first, then `a`** — the Python docstring ("the first rotation is applied and
    then the second") says the opposite; the call site `compose(statement, accumulated)` is therefore right. -/
theorem compose_is_product_a_then_b_first (a b : Rot ℝ) (ha : UnitVec a.axis) (hb : UnitVec b.axis)
    (hs : Real.sin (cTheta a b / 2) ≠ 0) : quat (cAxis a b) (cTheta a b) = a.quat * b.quat :=
  quat_cAxis a b ha hb hs

/-- With unit axes on one qubit and exact rounding nothing errors. -/
theorem compose_ok_of_crisp (atol : ℝ) (hatol : 0 < atol) (a b : Rot ℝ)
    (ha : UnitVec a.axis) (hb : UnitVec b.axis) (hq : a.q = b.q)
    (hround : ¬ |Real.sin (cTheta a b / 2)| < atol →
      roundTo s7 (cAxis a b).1 = (cAxis a b).1 ∧ roundTo s7 (cAxis a b).2.1 = (cAxis a b).2.1 ∧
      roundTo s7 (cAxis a b).2.2 = (cAxis a b).2.2) :
    ∃ r, composeRot atol a b = .ok r := by
  rw [composeRot_real atol a b ha hb hq]
  by_cases hs : |Real.sin (cTheta a b / 2)| < atol
  · exact ⟨_, if_pos hs⟩
  · have hne : Real.sin (cTheta a b / 2) ≠ 0 := by
      intro h0; apply hs; rw [h0, abs_zero]; exact hatol
    obtain ⟨h1, h2, h3⟩ := hround hs
    rw [if_neg hs, h1, h2, h3,
      show ((cAxis a b).1, (cAxis a b).2.1, (cAxis a b).2.2) = cAxis a b from rfl,
      mkAxis_unit _ (cAxis_unit a b ha hb hne)]
    exact ⟨_, rfl⟩

/-- **Error branch** at ℝ: for unit axes the only errors are `ValueError`, raised when the qubits differ or
    when all three rounded axis components are `0` (`mkAxis` of the zero vector; impossible when rounding is exact,
    see `compose_ok_of_crisp`, because the un-rounded axis is a unit vector). -/
theorem compose_error_cases (atol : ℝ) (a b : Rot ℝ) (ha : UnitVec a.axis) (hb : UnitVec b.axis)
    (e : Err) (h : composeRot atol a b = .error e) :
    e = .value ∧ (a.q ≠ b.q ∨
      (a.q = b.q ∧ ¬ |Real.sin (cTheta a b / 2)| < atol ∧
       roundTo s7 (cAxis a b).1 = 0 ∧ roundTo s7 (cAxis a b).2.1 = 0 ∧ roundTo s7 (cAxis a b).2.2 = 0)) := by
  by_cases hq : a.q = b.q
  · rw [composeRot_real atol a b ha hb hq] at h
    by_cases hs : |Real.sin (cTheta a b / 2)| < atol
    · rw [if_pos hs] at h; cases h
    · rw [if_neg hs] at h
      cases hm : mkAxis (roundTo s7 (cAxis a b).1, roundTo s7 (cAxis a b).2.1, roundTo s7 (cAxis a b).2.2) with
      | ok ax => rw [hm] at h; cases h
      | error e' =>
        rw [hm] at h
        simp only [Except.map] at h
        injection h with h
        subst h
        obtain ⟨hv, he⟩ := (mkAxis_error_iff_value _ _).mp hm
        simp only [Prod.mk.injEq] at hv
        exact ⟨he, Or.inr ⟨hq, hs, hv.1, hv.2.1, hv.2.2⟩⟩
  · rw [compose_error_diff_qubits atol a b hq] at h
    injection h with h
    exact ⟨h.symm, Or.inl hq⟩

/-! ### Non-vacuity: concrete instances -/

/-- `X`-like and `Z`-like half turns on qubit 0 -/
noncomputable def exX : Rot ℝ := ⟨0, (1, 0, 0), Real.pi, 0, none⟩
noncomputable def exZ : Rot ℝ := ⟨0, (0, 0, 1), Real.pi, 0, none⟩

theorem exX_unit : UnitVec exX.axis := by simp [UnitVec, exX]
theorem exZ_unit : UnitVec exZ.axis := by simp [UnitVec, exZ]

example := compose_pre_rounding exX exZ exX_unit exZ_unit

/-- the order matters: `quat X * quat Z = −j` but `quat Z * quat X = +j` -/
theorem quat_noncomm_witness : (exX.quat * exZ.quat).y = -1 ∧ (exZ.quat * exX.quat).y = 1 := by
  constructor <;>
  simp [Rot.quat, quat, exX, exZ, Quat.mul_def, Quat.mul, Real.cos_pi_div_two, Real.sin_pi_div_two]

example : |roundTo s7 (1 / 3) - 1 / 3| ≤ 1 / (2 * s7) :=
  roundTo_error s7 (1 / 3) (by rw [s7_eq]; norm_num)

theorem rint_intCast (k : ℤ) : rint (k : ℝ) = k := by
  unfold rint
  simp only [trig_floor_real, Int.floor_intCast, sub_self, half_real]
  rw [if_pos (by norm_num)]

/-- numbers with at most 7 decimals are fixed points of the rounding -/
theorem roundTo_exact (x : ℝ) (k : ℤ) (hk : x * s7 = k) : roundTo s7 x = x := by
  have h7 : s7 ≠ 0 := by rw [s7_eq]; norm_num
  unfold roundTo
  rw [hk, rint_intCast, ← hk]
  field_simp

theorem ex_cW : cW exX exZ = 0 := by
  simp [cW, exX, exZ, Vec3.dot, Real.cos_pi_div_two]
theorem ex_cTheta : cTheta exX exZ = Real.pi := by
  rw [cTheta, ex_cW, Real.arccos_zero]; ring
theorem ex_cAxis : cAxis exX exZ = (0, -1, 0) := by
  unfold cAxis
  rw [ex_cTheta]
  simp [cVi, exX, exZ, Vec3.cross, Vec3.get, Real.cos_pi_div_two, Real.sin_pi_div_two]

/-- `compose_crisp` applies to a concrete non-trivial pair (general branch). -/
example : ∃ r, composeRot (1 / 10 ^ 7 : ℝ) exX exZ = .ok r ∧ r.axis = (0, -1, 0) ∧
    (r.quat = exX.quat * exZ.quat ∨ r.quat = -(exX.quat * exZ.quat)) := by
  have hs : ¬ |Real.sin (cTheta exX exZ / 2)| < (1 / 10 ^ 7 : ℝ) := by
    rw [ex_cTheta, Real.sin_pi_div_two]; norm_num
  have hr : roundTo s7 (cAxis exX exZ).1 = (cAxis exX exZ).1 ∧
      roundTo s7 (cAxis exX exZ).2.1 = (cAxis exX exZ).2.1 ∧
      roundTo s7 (cAxis exX exZ).2.2 = (cAxis exX exZ).2.2 := by
    rw [ex_cAxis]
    refine ⟨roundTo_exact _ 0 (by simp), roundTo_exact _ (-10000000) (by rw [s7_eq]; norm_num),
      roundTo_exact _ 0 (by simp)⟩
  have hp : roundTo s7 (exX.phase + exZ.phase) = exX.phase + exZ.phase :=
    roundTo_exact _ 0 (by simp [exX, exZ])
  obtain ⟨r, h⟩ := compose_ok_of_crisp (1 / 10 ^ 7) (by norm_num) exX exZ exX_unit exZ_unit rfl (fun _ => hr)
  obtain ⟨_, _, hc | hc⟩ := compose_crisp (1 / 10 ^ 7) (by norm_num) exX exZ r exX_unit exZ_unit h
    (fun h => absurd h hs) (fun _ => ⟨hr.1, hr.2.1, hr.2.2, hp⟩)
  · exact absurd hc.1 hs
  · exact ⟨r, h, by rw [hc.2.2.1, ex_cAxis], hc.2.2.2.2.1⟩

/-- the identity branch of `compose_crisp` is inhabited too: `X·X = −1`. -/
example : composeRot (1 / 10 ^ 7 : ℝ) exX exX = .ok (identityRot 0) ∧
    (exX.quat * exX.quat = 1 ∨ exX.quat * exX.quat = -1) := by
  have hw : cW exX exX = -1 := by
    simp [cW, exX, Vec3.dot, Real.cos_pi_div_two, Real.sin_pi_div_two]
  have hs : Real.sin (cTheta exX exX / 2) = 0 := by
    rw [cTheta, hw, Real.arccos_neg_one]
    rw [show 2 * Real.pi / 2 = Real.pi by ring, Real.sin_pi]
  refine ⟨?_, mul_eq_pm_one_of_sin_zero exX exX exX_unit exX_unit hs⟩
  rw [composeRot_real _ exX exX exX_unit exX_unit rfl, if_pos (by rw [hs]; norm_num)]
  rfl

/-! ### Operators up to the global phase `−1`: quaternions modulo sign, as a monoid -/

namespace Quat
theorem neg_neg' (p : Quat) : -(-p) = p := by ext <;> simp [neg_def, neg]
theorem neg_mul' (p q : Quat) : (-p) * q = -(p * q) := by
  ext <;> simp only [neg_def, neg, mul_def, mul] <;> ring
theorem mul_neg' (p q : Quat) : p * (-q) = -(p * q) := by
  ext <;> simp only [neg_def, neg, mul_def, mul] <;> ring

/-- equal up to sign -/
def sgnRel (p q : Quat) : Prop := p = q ∨ p = -q

theorem sgnRel_equiv : Equivalence sgnRel where
  refl := fun p => Or.inl rfl
  symm := by
    rintro p q (h | h)
    · exact Or.inl h.symm
    · right; rw [h, neg_neg']
  trans := by
    rintro p q r (h | h) (h' | h')
    · exact Or.inl (h.trans h')
    · exact Or.inr (h.trans h')
    · right; rw [h, h']
    · left; rw [h, h', neg_neg']

instance sgnSetoid : Setoid Quat := ⟨sgnRel, sgnRel_equiv⟩
end Quat

/-- quaternions modulo sign (`SU(2)/±1`-style operators: a rotation operator up to the global phase `−1`) -/
def PQuat : Type := Quotient Quat.sgnSetoid

namespace PQuat
def mk (p : Quat) : PQuat := Quotient.mk _ p

theorem mk_eq_iff (p q : Quat) : mk p = mk q ↔ (p = q ∨ p = -q) := by
  constructor
  · intro h; exact Quotient.exact h
  · intro h; exact Quotient.sound h

def mul : PQuat → PQuat → PQuat :=
  Quotient.map₂ (· * ·) (by
    rintro p p' (hp | hp) q q' (hq | hq)
    · left; rw [hp, hq]
    · right; rw [hp, hq, Quat.mul_neg']
    · right; rw [hp, hq, Quat.neg_mul']
    · left; rw [hp, hq, Quat.neg_mul', Quat.mul_neg', Quat.neg_neg'])

instance : Monoid PQuat where
  mul := mul
  one := mk 1
  mul_assoc := by
    rintro ⟨a⟩ ⟨b⟩ ⟨c⟩
    exact congrArg mk (Quat.mul_assoc' a b c)
  one_mul := by
    rintro ⟨a⟩
    exact congrArg mk (Quat.one_mul' a)
  mul_one := by
    rintro ⟨a⟩
    exact congrArg mk (Quat.mul_one' a)

theorem mk_mul (p q : Quat) : mk p * mk q = mk (p * q) := rfl
theorem one_def : (1 : PQuat) = mk 1 := rfl
end PQuat

/-- the operator (up to global phase) denoted by a rotation record; the `phase` field is a global phase -/
noncomputable def Rot.op (r : Rot ℝ) : PQuat := PQuat.mk r.quat

theorem identityRot_op (q : Int) : (identityRot q : Rot ℝ).op = 1 := by
  rw [Rot.op, identityRot_quat]; rfl

/-- **compose_crisp, operator form.** Under the crisp hypotheses the result of `composeRot a b` denotes the
    product `a.op * b.op` (= `U_a · U_b` up to global phase) — in both branches.  This is the per-composition
    hypothesis of `MergeAbs.Crisp` for `ρ := Rot.op`. -/
theorem compose_crisp_op (atol : ℝ) (hatol : 0 < atol) (a b r : Rot ℝ)
    (ha : UnitVec a.axis) (hb : UnitVec b.axis)
    (h : composeRot atol a b = .ok r)
    (hcrisp : |Real.sin (cTheta a b / 2)| < atol → Real.sin (cTheta a b / 2) = 0)
    (hround : ¬ |Real.sin (cTheta a b / 2)| < atol →
      roundTo s7 (cAxis a b).1 = (cAxis a b).1 ∧ roundTo s7 (cAxis a b).2.1 = (cAxis a b).2.1 ∧
      roundTo s7 (cAxis a b).2.2 = (cAxis a b).2.2 ∧
      roundTo s7 (a.phase + b.phase) = a.phase + b.phase) :
    r.op = a.op * b.op ∧ UnitVec r.axis := by
  obtain ⟨_, _, hc | hc⟩ := compose_crisp atol hatol a b r ha hb h hcrisp hround
  · obtain ⟨_, _, hr, hq, hm⟩ := hc
    refine ⟨?_, by rw [hr]; simp [identityRot, UnitVec]⟩
    rw [Rot.op, Rot.op, Rot.op, PQuat.mk_mul, hq, PQuat.mk_eq_iff]
    rcases hm with hm | hm
    · left; rw [hm]
    · right; rw [hm, Quat.neg_neg']
  · obtain ⟨_, _, _, hu, hq, _⟩ := hc
    refine ⟨?_, hu⟩
    rw [Rot.op, Rot.op, Rot.op, PQuat.mk_mul, PQuat.mk_eq_iff]
    exact hq

/-- the operator form on the concrete pair of `exX`, `exZ` is covered by the example above; the monoid is
    non-trivial: `X` and `Z` half-turns are different operators -/
example : exX.op ≠ exZ.op := by
  intro h
  rcases (PQuat.mk_eq_iff _ _).mp h with h | h
  · have := congrArg Quat.x h
    simp [Rot.quat, quat, exX, exZ, Real.sin_pi_div_two] at this
  · have := congrArg Quat.x h
    simp [Rot.quat, quat, exX, exZ, Real.sin_pi_div_two, Quat.neg_def, Quat.neg] at this

#print axioms compose_pre_rounding
#print axioms compose_is_product_a_then_b_first
#print axioms roundTo_error
#print axioms compose_crisp
#print axioms compose_ok_of_crisp
#print axioms compose_error_cases
#print axioms compose_error_diff_qubits
#print axioms compose_name
#print axioms compose_crisp_op

end OSq
