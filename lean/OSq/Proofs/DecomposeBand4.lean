import OSq.Proofs.DecomposeBand2
import OSq.Proofs.PipelineShape
import OSq.Proofs.Main

/-
  OSq.Proofs.DecomposeBand4 — part 4: the tolerance-level theorem for the **built-in decomposers** (six A-B-A, McKay,
  CNOT) with no hypothesis on what they return: from the exact output forms of `OSq.Proofs.Shape`
  (`aba_form`, `mckay_elems_exact`, `cnot_form`) every gate they emit is a rotation whose axis went through `mkAxis`
  (hence a unit vector, `mkAxis_real`), a `CNOT(c, t)` with `c ≠ t`, or a gate of the input passed through.

  * `DBand.GOK x`               `x.1.operands.Nodup ∧ x.1.Unitary`
  * `DBand.rotStmt_GOK`, `x90Stmt_GOK`, `cnotStmt_GOK`   the generated `R?(q, θ)`, `X90(q)`, `CNOT(c, t)`
  * `DBand.aba_GOK`, `mckay_GOK`, `cnot_GOK`, `DBand.run_GOK`   `GOK g`, `d.run atol g = .ok out` ⇒ `∀ x ∈ out, GOK x`
  * `decomposeBuiltin_ok_band'` **C01/C05 at tolerance level**: `c` well formed, gates `Gate.Unitary` on `≤ K` qubits,
                                `0 < atol`, `decomposeBuiltin atol d c.stmts = (out, none)` ⇒ `∃ z, ‖z‖ = 1 ∧ ∀ o,
                                ‖circOp c.nQubits out o − z • circOp c.nQubits c.stmts o‖ ≤ gateCount c.stmts · κ(K, atol)`
                                — for ALL inputs (no crisp hypothesis: in-band inputs on which the decomposition is only
                                right to `O(atol)` are covered, provided the run completes)
-/

open Matrix
open scoped Matrix.Norms.L2Operator

namespace OSq
namespace DBand

/-- distinct operands, unit axes, unitary matrix nodes -/
def GOK (x : GStmt ℝ) : Prop := x.1.operands.Nodup ∧ x.1.Unitary

theorem axis_unit {v ax : Vec3 ℝ} (h : mkAxis v = .ok ax) : ax.1 ^ 2 + ax.2.1 ^ 2 + ax.2.2 ^ 2 = 1 :=
  ((mkAxis_real v).2 ax h).2

theorem rotStmt_GOK (atol : ℝ) (n : String) (q : Int) {v ax : Vec3 ℝ} (h : mkAxis v = .ok ax) (θ : ℝ) :
    GOK (rotStmt atol n q ax θ) :=
  ⟨by simp [rotStmt, Gate.operands], axis_unit h⟩

theorem x90Stmt_GOK (atol : ℝ) (q : Int) {v ax : Vec3 ℝ} (h : mkAxis v = .ok ax) : GOK (x90Stmt atol q ax) :=
  ⟨by simp [x90Stmt, Gate.operands], axis_unit h⟩

theorem cnotStmt_GOK (atol : ℝ) (c t : Int) (hct : c ≠ t) {v ax : Vec3 ℝ} (h : mkAxis v = .ok ax) :
    GOK (cnotStmt atol c t ax) :=
  ⟨by simp [cnotStmt, Gate.operands, hct], axis_unit h⟩

theorem aba_GOK (atol : ℝ) (k : ABAKind) (g : GStmt ℝ) (hg : GOK g) (out : List (GStmt ℝ))
    (h : abaDecompose atol k g = .ok out) : ∀ x ∈ out, GOK x := by
  obtain ⟨g1, nm⟩ := g
  cases g1 with
  | bsr q ax an ph =>
    obtain ⟨t1, t2, t3, axA, axB, -, hA, hB, rfl⟩ := aba_form h
    intro x hx
    have hx' := (mem_filterOutIdentities.1 hx).1
    simp only [List.mem_cons, List.not_mem_nil, or_false] at hx'
    rcases hx' with rfl | rfl | rfl
    · exact rotStmt_GOK atol _ q hA _
    · exact rotStmt_GOK atol _ q hB _
    · exact rotStmt_GOK atol _ q hA _
  | matrix m ops =>
    simp only [abaDecompose, pure, Except.pure, Except.ok.injEq] at h
    subst h; intro x hx; simp only [List.mem_singleton] at hx; subst hx; exact hg
  | ctrl c g' =>
    simp only [abaDecompose, pure, Except.pure, Except.ok.injEq] at h
    subst h; intro x hx; simp only [List.mem_singleton] at hx; subst hx; exact hg

theorem mckay_GOK (atol : ℝ) (g : GStmt ℝ) (hg : GOK g) (out : List (GStmt ℝ))
    (h : mckayDecompose atol g = .ok out) : ∀ x ∈ out, GOK x := by
  obtain ⟨g1, nm⟩ := g
  cases g1 with
  | bsr q ax an ph =>
    rcases mckay_elems_exact h with ⟨-, rfl⟩ | ⟨-, H⟩
    · intro x hx; simp only [List.mem_singleton] at hx; subst hx; exact hg
    · intro x hx
      rcases H x hx with ⟨axZ, θ, hZ, rfl⟩ | ⟨axX, hX, rfl⟩
      · exact rotStmt_GOK atol _ q hZ _
      · exact x90Stmt_GOK atol q hX
  | matrix m ops =>
    simp only [mckayDecompose, pure, Except.pure, Except.ok.injEq] at h
    subst h; intro x hx; simp only [List.mem_singleton] at hx; subst hx; exact hg
  | ctrl c g' =>
    simp only [mckayDecompose, pure, Except.pure, Except.ok.injEq] at h
    subst h; intro x hx; simp only [List.mem_singleton] at hx; subst hx; exact hg

theorem cnot_GOK (atol : ℝ) (g : GStmt ℝ) (hg : GOK g) (out : List (GStmt ℝ))
    (h : cnotDecompose atol g = .ok out) : ∀ x ∈ out, GOK x := by
  obtain ⟨g1, nm⟩ := g
  have self : cnotDecompose atol (g1, nm) = .ok [(g1, nm)] → ∀ x ∈ out, GOK x := by
    intro h'
    rw [h'] at h
    cases h
    intro x hx; simp only [List.mem_singleton] at hx; subst hx; exact hg
  cases g1 with
  | bsr q ax an ph => exact self rfl
  | matrix m ops => exact self rfl
  | ctrl c g' =>
    cases g' with
    | matrix m ops => exact self rfl
    | ctrl c' g'' => exact self rfl
    | bsr t tax tan tph =>
      obtain ⟨axX, axY, axZ, xu, θ0, θ1, θ2, hX, hY, hZ, hct, -, -, hc | hc⟩ := cnot_form h
      · obtain ⟨-, φ, rfl⟩ := hc
        intro x hx
        have hx' := (mem_filterOutIdentities.1 hx).1
        simp only [List.mem_cons, List.not_mem_nil, or_false] at hx'
        rcases hx' with rfl | rfl | rfl | rfl | rfl | rfl
        · exact rotStmt_GOK atol _ t hZ _
        · exact rotStmt_GOK atol _ t hY _
        · exact cnotStmt_GOK atol c t hct hX
        · exact rotStmt_GOK atol _ t hY _
        · exact rotStmt_GOK atol _ t hZ _
        · exact rotStmt_GOK atol _ c hZ _
      · obtain ⟨-, t0, t1, t2, -, rfl⟩ := hc
        intro x hx
        have hx' := (mem_filterOutIdentities.1 hx).1
        simp only [List.mem_cons, List.not_mem_nil, or_false] at hx'
        rcases hx' with rfl | rfl | rfl | rfl | rfl | rfl | rfl | rfl
        · exact rotStmt_GOK atol _ t hZ _
        · exact cnotStmt_GOK atol c t hct hX
        · exact rotStmt_GOK atol _ t hZ _
        · exact rotStmt_GOK atol _ t hY _
        · exact cnotStmt_GOK atol c t hct hX
        · exact rotStmt_GOK atol _ t hY _
        · exact rotStmt_GOK atol _ t hZ _
        · exact rotStmt_GOK atol _ c hZ _

/-- **the built-in decomposers only emit gates with distinct operands, unit axes and unitary matrix nodes** (their
    fresh gates come from `mkBSR`/`mkCtrl` through the default-gate table; untouched gates are passed through) -/
theorem run_GOK (atol : ℝ) (dc : Decomposer) (g : GStmt ℝ) (hg : GOK g) (out : List (GStmt ℝ))
    (h : dc.run atol g = .ok out) : ∀ x ∈ out, GOK x := by
  cases dc with
  | aba k => exact aba_GOK atol k g hg out h
  | mckay => exact mckay_GOK atol g hg out h
  | cnot => exact cnot_GOK atol g hg out h

end DBand

/-- **The built-in decomposers, no hypothesis on what they return**: `c` well formed with `Gate.Unitary` gates on at
    most `K` qubits, `atol > 0`; if `Circuit.decompose(ABA / McKay / CNOT decomposer)` completes, the result is within
    `G·κ(K, atol)` of the original up to one unit phase, for all outcome assignments.  No crisp hypothesis. -/
theorem decomposeBuiltin_ok_band' (atol : ℝ) (hatol : 0 < atol) (dc : Decomposer) (c : Circuit ℝ)
    (out : List (Stmt ℝ)) (K : Nat) (hwf : c.wf = true)
    (hU : ∀ g nm, Stmt.gate g nm ∈ c.stmts → g.Unitary)
    (hK : ∀ g nm, Stmt.gate g nm ∈ c.stmts → g.operands.length ≤ K)
    (hrun : decomposeBuiltin atol dc c.stmts = (out, none)) :
    ∃ z : ℂ, ‖z‖ = 1 ∧ ∀ o,
      ‖circOp c.nQubits out o - z • circOp c.nQubits c.stmts o‖ ≤ (gateCount c.stmts : ℝ) * kappa K atol := by
  apply decomposeBuiltin_ok_band atol hatol dc c out K hwf hU hK _ hrun
  intro g nm repl hm hd
  exact DBand.run_GOK atol dc (g, nm) ⟨((Circuit.opOK_of_wf c hwf hU).2 g nm hm).1, hU g nm hm⟩ repl hd

/-! ## Non-vacuity -/

/-- the Z-Y-Z decomposer on the example circuit of `OSq.Proofs.Main` (a rotation about `x`, a controlled rotation, a
    measurement, a reset; `atol = 1/1000`): the run completes (`C01_aba_main`), and the theorem applies to it -/
example : ∃ out, decomposeBuiltin (1 / 1000 : ℝ) (.aba .ZYZ) exMCirc.stmts = (out, none) ∧
    ∃ z : ℂ, ‖z‖ = 1 ∧ ∀ o,
      ‖circOp 2 out o - z • circOp 2 exMCirc.stmts o‖ ≤ (gateCount exMCirc.stmts : ℝ) * kappa 2 (1 / 1000) := by
  obtain ⟨out, hrun, -⟩ := C01_aba_main (1 / 1000) (by norm_num) (by norm_num) .ZYZ exMCirc exMCirc_wf exMCirc_crisp
  refine ⟨out, hrun, ?_⟩
  have hg : ∀ g nm, Stmt.gate g nm ∈ exMCirc.stmts →
      g = .bsr 0 (1, 0, 0) (Real.pi / 2) (1 / 3) ∨ g = .ctrl 0 (.bsr 1 (0, 0, 1) 1 0) := by
    intro g nm hm
    simp only [exMCirc, List.mem_cons, Stmt.gate.injEq, reduceCtorEq, List.not_mem_nil, or_false] at hm
    rcases hm with ⟨rfl, _⟩ | ⟨rfl, _⟩
    · exact Or.inl rfl
    · exact Or.inr rfl
  exact decomposeBuiltin_ok_band' (1 / 1000) (by norm_num) (.aba .ZYZ) exMCirc out 2 exMCirc_wf
    (by
      intro g nm hm
      rcases hg g nm hm with rfl | rfl <;> simp [Gate.Unitary])
    (by
      intro g nm hm
      rcases hg g nm hm with rfl | rfl <;> simp [Gate.operands])
    hrun

end OSq

#print axioms OSq.DBand.run_GOK
#print axioms OSq.decomposeBuiltin_ok_band'
