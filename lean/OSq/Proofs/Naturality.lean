import OSq.Proofs.InstrWF
import OSq.Proofs.Expander
import OSq.Model.Passes
import OSq.Model.Mapping
import OSq.Model.Text
import OSq.Model.Pipeline
/-
  OSq.Proofs.Naturality — properties C19 ("cost follows the circuit, never the 2^n register": the same circuit on
  a large register gives the same result as compressed onto a small register) and C17 (the model is a function).
  Core Lean only (imports `OSq.Proofs.InstrWF` for the `Except`/`bindArgs` plumbing and the static discipline
  `tableTyped`, `OSq.Proofs.Expander` for `localMatrix_dim`).  Every theorem holds for every scalar type `α` with
  `[Scalar α]`; `f : Int → Int` is an arbitrary *injective* renaming of qubit indices (`Inj f`).

  1. Renaming
  * `Gate.rename`, `Arg.rename`, `Named.rename`, `Stmt.rename`, `GStmt.rename`, `Rot.rename`, `Env.rename`
                               rename qubit indices in both views (semantic operands and `.qubit` arguments);
                               bits, ints, floats, matrices, axes, angles untouched.
  * `Gate.operands_rename`, `Stmt.qubits_rename`, `Named.qubitArgs_rename`   operands / qubit arguments are mapped.
  * `Gate.mapQubits_eq_rename`, `Stmt.mapQubits_eq_rename`   the remapper's relabelling is `rename (mapIdx m)`.
  * `Gate.rename_id`, `Gate.rename_comp`.
  2. Re-indexing forgets absolute indices (injective `f`)
  * `indexOf?_map`             `indexOf? (idx.map f) (f q) = indexOf? idx q`.
  * `reindexGate_rename`       `reindexGate (idx.map f) (g.rename f) = reindexGate idx g`.
  * `localMatrix_rename`       `localMatrix (idx.map f) (gs.map (·.rename f)) = localMatrix idx gs`.
  * `dedup_map`, `hasDup_map_inj`, `contains_map_inj`   list helpers commute with an injective map.
  * `checkGateReplacement_rename`, `compareGates_rename`   the checks do not see the absolute indices.
  3. Instruction evaluator
  * `bindSafe`, `intFree`      hypothesis on arguments: no `.int` at a qubit parameter / no `.int` at all.
  * `bindArgs_rename`, `SExpr.eval_rename`, `envQubit_rename`, `mkBSR_rename`, `mkCtrl_rename`.
  * `GExpr.eval_rename`        (mutual with `evalNamed`; any table obeying `tableTyped`) evaluating a gate body in
                               the renamed environment gives the renamed gate, same error otherwise.
  * `callGate_rename`, `callGate_rename_gen`   `named_gate` wrapper: gate and recorded arguments are renamed
                               (`bindSafe` arguments; any `tableTyped` table / the default table).
  * `callGate_rename_needs_bindSafe`   the hypothesis cannot be dropped (`X(0)` with a bare int is not renamed).
  * `named_rename`, `named_rename_intFree`, `named_q`, `named_qf`, `named_qq`   the decomposers' calls.
  3b. Decomposers
  * `Gate.isIdentity_rename`, `filterOutIdentities_rename`, `composeRot_rename`, `gstmtToRot_rename`,
    `prod2_rename`, `replaceAt_map`, `GStmt.name?_rename`.
  * `abaDecompose_rename`, `mckayDecompose_rename`, `cnotDecompose_rename`, hence
  * `decomposer_rename`        `d.run atol (g.rename f, nm.map (Named.rename f))
                                  = Except.map (List.map (GStmt.rename f)) (d.run atol (g, nm))` for all built-ins.
  4. Decompose pass
  * `decomposeLoop_rename`, `decompose_rename_gen`   generic in the decomposer (commutation hypothesis).
  * `decompose_rename`         (C19) `decomposeBuiltin` commutes with injective renaming, error included.
  * `pass_decompose_rename`    the same for the `Circuit` method, any register size.
  * `localMatrix_rename_dim`   the matrices checked for a renamed gate have dimension `2^(#operands)`.
  7. Determinism
  * `model_deterministic`      (C17) every pass (`decomposeBuiltin`, `replace`, `merge`, `remap`, `runPasses`,
                               `writeCircuit`, `exportV1`) is a function of its explicit arguments; the content is
                               that the *types* have no state parameter: a result depends only on the arguments and
                               on the closed terms `Gen.*`.
  5. Writer / exporter
  * `isQubitArg_rename`, `showArgR`, `showArgR_eq`, `showArgR_of_not_qubit`   a renamed argument is rendered as
                               `q[f i]` if it is the qubit `q[i]`, and unchanged otherwise.
  * `writeStmtG`, `exportV1StmtG`, `writeStmt_eq_G`, `exportV1Stmt_eq_G`   the two statement printers with the
                               argument printer as a parameter (`writeStmt fmt anon = writeStmtG (showArg fmt) anon`).
  * `writeStmt_rename`         `writeStmt fmt anon (s.rename f) = writeStmtG (showArgR f fmt) (anon ∘ rename f) s`
                               (gates, measurements, resets, comments): only the `q[i]` tokens change.
  * `writeStmt_rename_gate_form`   explicit form for named gates: parameters unchanged, operands `q[f i]`.
  * `exportV1Stmt_rename`      the same for the cQASM 1 exporter, errors included.
  * `writeCircuit_rename`, `exportV1_rename`   whole-circuit forms (register of any size `n'`).
  Item 6 (merge) is in `OSq.Proofs.NaturalityMerge`.
-/
namespace OSq
variable {α : Type}

/-! ### 1. renaming of qubit indices -/

/-- rename the qubit operands of a gate (semantic view), any control depth -/
def Gate.rename (f : Int → Int) : Gate α → Gate α
  | .bsr q ax an ph => .bsr (f q) ax an ph
  | .matrix m ops => .matrix m (ops.map f)
  | .ctrl c g => .ctrl (f c) (g.rename f)

/-- rename a `.qubit` argument; bits, ints and floats are untouched -/
def Arg.rename (f : Int → Int) : Arg α → Arg α
  | .qubit i => .qubit (f i)
  | a => a

def Named.rename (f : Int → Int) (nm : Named α) : Named α :=
  { nm with args := nm.args.map (Arg.rename f) }

/-- rename a statement in both views (semantic operands and `.qubit` arguments) -/
def Stmt.rename (f : Int → Int) : Stmt α → Stmt α
  | .gate g nm => .gate (g.rename f) (nm.map (Named.rename f))
  | .measure q b ax nm => .measure (f q) b ax (nm.map (Named.rename f))
  | .reset q nm => .reset (f q) (nm.map (Named.rename f))
  | .comment s => .comment s

def GStmt.rename (f : Int → Int) (g : GStmt α) : GStmt α := (g.1.rename f, g.2.map (Named.rename f))

example (ax : Vec3 α) (an ph : α) :
    (Stmt.gate (.ctrl 0 (.bsr 1 ax an ph)) (some ⟨"CNOT", [.qubit 0, .qubit 1]⟩)).rename (fun q => 1000 * q + 7) =
      .gate (.ctrl 7 (.bsr 1007 ax an ph)) (some ⟨"CNOT", [.qubit 7, .qubit 1007]⟩) := rfl


/-- `f` is injective -/
def Inj (f : Int → Int) : Prop := ∀ a b, f a = f b → a = b

theorem Inj.eq_iff {f : Int → Int} (hf : Inj f) {a b : Int} : f a = f b ↔ a = b :=
  ⟨hf a b, fun h => by rw [h]⟩

theorem Inj.beq {f : Int → Int} (hf : Inj f) (a b : Int) : (f a == f b) = (a == b) := by
  rw [Bool.eq_iff_iff]; simp [hf.eq_iff]

theorem Inj.bne {f : Int → Int} (hf : Inj f) (a b : Int) : (f a != f b) = (a != b) := by
  rw [Bool.eq_iff_iff]; simp [hf.eq_iff]

theorem inj_shift (k : Int) : Inj (fun q => q + k) := fun a b h => by simp only at h; omega
theorem inj_scale : Inj (fun q : Int => 1000 * q + 7) := fun a b h => by simp only at h; omega

/-- the remapper's relabelling is the renaming by `mapIdx m` -/
theorem Gate.mapQubits_eq_rename (m : List Int) : ∀ g : Gate α, g.mapQubits m = g.rename (mapIdx m)
  | .bsr _ _ _ _ => rfl
  | .matrix _ _ => rfl
  | .ctrl c g => by rw [Gate.mapQubits, Gate.rename, Gate.mapQubits_eq_rename m g]

theorem Arg.mapQubits_eq_rename (m : List Int) (a : Arg α) : a.mapQubits m = a.rename (mapIdx m) := by
  cases a <;> rfl

theorem Named.mapQubits_eq_rename (m : List Int) (nm : Named α) : nm.mapQubits m = nm.rename (mapIdx m) := by
  simp [Named.mapQubits, Named.rename, Arg.mapQubits_eq_rename]

theorem Stmt.mapQubits_eq_rename (m : List Int) (s : Stmt α) : s.mapQubits m = s.rename (mapIdx m) := by
  have h : Named.mapQubits (α := α) m = Named.rename (mapIdx m) := funext (Named.mapQubits_eq_rename m)
  cases s <;> simp [Stmt.mapQubits, Stmt.rename, Gate.mapQubits_eq_rename, h]

theorem Gate.operands_rename (f : Int → Int) : ∀ g : Gate α, (g.rename f).operands = g.operands.map f
  | .bsr _ _ _ _ => rfl
  | .matrix _ _ => rfl
  | .ctrl c g => by simp [Gate.rename, Gate.operands, Gate.operands_rename f g]

theorem Stmt.qubits_rename (f : Int → Int) (s : Stmt α) : (s.rename f).qubits = s.qubits.map f := by
  cases s <;> simp [Stmt.rename, Stmt.qubits, Gate.operands_rename]

theorem Named.qubitArgs_rename (f : Int → Int) (nm : Named α) : (nm.rename f).qubitArgs = nm.qubitArgs.map f := by
  obtain ⟨n, args⟩ := nm
  simp only [Named.rename, Named.qubitArgs]
  induction args with
  | nil => rfl
  | cons a as ih => cases a <;> simp_all [Arg.rename]

theorem Gate.rename_id : ∀ g : Gate α, g.rename id = g
  | .bsr _ _ _ _ => rfl
  | .matrix _ _ => by simp [Gate.rename]
  | .ctrl c g => by simp [Gate.rename, Gate.rename_id g]

theorem Gate.rename_comp (f h : Int → Int) : ∀ g : Gate α, (g.rename f).rename h = g.rename (h ∘ f)
  | .bsr _ _ _ _ => rfl
  | .matrix _ _ => by simp [Gate.rename]
  | .ctrl c g => by simp [Gate.rename, Gate.rename_comp f h g]

/-! ### 2. re-indexing forgets the absolute indices -/

theorem findIdx_map_inj {f : Int → Int} (hf : Inj f) (q : Int) :
    ∀ idx : List Int, (idx.map f).findIdx (· == f q) = idx.findIdx (· == q)
  | [] => rfl
  | x :: xs => by
    simp only [List.map_cons, List.findIdx_cons, hf.beq, findIdx_map_inj hf q xs]

theorem indexOf?_map {f : Int → Int} (hf : Inj f) (idx : List Int) (q : Int) :
    indexOf? (idx.map f) (f q) = indexOf? idx q := by
  simp only [indexOf?, findIdx_map_inj hf, List.length_map]

theorem mapM_map {ε β γ δ : Type} (F : γ → Except ε δ) (f : β → γ) :
    ∀ l : List β, (l.map f).mapM F = l.mapM (fun x => F (f x))
  | [] => rfl
  | x :: xs => by simp only [List.map_cons, List.mapM_cons, mapM_map F f xs]

variable [Scalar α]

omit [Scalar α] in
theorem reindexGate_rename {f : Int → Int} (hf : Inj f) (idx : List Int) :
    ∀ g : Gate α, reindexGate (idx.map f) (g.rename f) = reindexGate idx g
  | .bsr q ax an ph => by simp only [Gate.rename, reindexGate, indexOf?_map hf]
  | .matrix m ops => by simp only [Gate.rename, reindexGate, mapM_map, indexOf?_map hf]
  | .ctrl c g => by simp only [Gate.rename, reindexGate, indexOf?_map hf, reindexGate_rename hf idx g]

example (ax : Vec3 α) (an ph : α) :
    reindexGate [99997, 99990] (.ctrl 99990 (.bsr 99997 ax an ph)) = reindexGate [7, 0] (.ctrl 0 (.bsr 7 ax an ph)) :=
  reindexGate_rename (inj_shift 99990) [7, 0] (.ctrl 0 (.bsr 7 ax an ph))

theorem localMatrix_rename {f : Int → Int} (hf : Inj f) (idx : List Int) (gs : List (Gate α)) :
    localMatrix (idx.map f) (gs.map (·.rename f)) = localMatrix idx gs := by
  simp only [localMatrix, mapM_map, reindexGate_rename hf, List.length_map]

theorem contains_map_inj {f : Int → Int} (hf : Inj f) (idx : List Int) (q : Int) :
    (idx.map f).contains (f q) = idx.contains q := by
  induction idx with
  | nil => rfl
  | cons x xs ih => simp only [List.map_cons, List.contains_cons, ih, hf.beq]

omit [Scalar α] in
theorem flatten_operands_rename (f : Int → Int) (gs : List (Gate α)) :
    ((gs.map (·.rename f)).map Gate.operands).flatten = ((gs.map Gate.operands).flatten).map f := by
  induction gs with
  | nil => rfl
  | cons g gs ih => simp_all [Gate.operands_rename]

theorem checkGateReplacement_rename {f : Int → Int} (hf : Inj f) (atol : α) (g : Gate α) (gs : List (Gate α)) :
    checkGateReplacement atol (g.rename f) (gs.map (·.rename f)) = checkGateReplacement atol g gs := by
  have h1 : localMatrix (g.operands.map f) [g.rename f] = localMatrix g.operands [g] :=
    localMatrix_rename hf g.operands [g]
  simp only [checkGateReplacement, flatten_operands_rename, Gate.operands_rename, List.all_map,
    Function.comp_def, contains_map_inj hf, localMatrix_rename hf, h1]

example (atol : α) (ax : Vec3 α) (an ph : α) (m : Mat α) :
    checkGateReplacement atol (.ctrl 99990 (.bsr 99997 ax an ph)) [.matrix m [99997, 99990]] =
      checkGateReplacement atol (.ctrl 0 (.bsr 7 ax an ph)) [.matrix m [7, 0]] :=
  checkGateReplacement_rename (inj_shift 99990) atol (.ctrl 0 (.bsr 7 ax an ph)) [.matrix m [7, 0]]

theorem dedup_map {f : Int → Int} (hf : Inj f) : ∀ l : List Int, dedup (l.map f) = (dedup l).map f
  | [] => rfl
  | x :: xs => by
    simp only [List.map_cons, dedup, dedup_map hf xs, List.filter_map, Function.comp_def, hf.bne]

theorem compareGates_rename {f : Int → Int} (hf : Inj f) (atol : α) (g1 g2 : Gate α) :
    compareGates atol (g1.rename f) (g2.rename f) = compareGates atol g1 g2 := by
  have h1 := localMatrix_rename hf (dedup (g1.operands ++ g2.operands)) [g1]
  have h2 := localMatrix_rename hf (dedup (g1.operands ++ g2.operands)) [g2]
  simp only [List.map_cons, List.map_nil] at h1 h2
  simp only [compareGates, Gate.operands_rename, ← List.map_append, dedup_map hf, h1, h2]


example (atol : α) (ax : Vec3 α) (an ph : α) (m : Mat α) :
    compareGates atol (.ctrl 99990 (.bsr 99997 ax an ph)) (.matrix m [99997, 99990]) =
      compareGates atol (.ctrl 0 (.bsr 7 ax an ph)) (.matrix m [7, 0]) :=
  compareGates_rename (inj_shift 99990) atol (.ctrl 0 (.bsr 7 ax an ph)) (.matrix m [7, 0])

/-! ### 3. the instruction evaluator commutes with injective renaming -/

theorem Except.map_ok' {ε β γ : Type} (g : β → γ) (x : β) : Except.map g (.ok x : Except ε β) = .ok (g x) := rfl
theorem Except.map_error' {ε β γ : Type} (g : β → γ) (e : ε) : Except.map g (.error e : Except ε β) = .error e := rfl

/-- `x >>= k` after a mapped computation -/
theorem Except.bind_map' {ε β γ δ : Type} (g : β → γ) (x : Except ε β) (k : γ → Except ε δ) :
    (Except.map g x >>= k) = (x >>= fun a => k (g a)) := by
  cases x <;> rfl

theorem Except.map_bind' {ε β γ δ : Type} (g : γ → δ) (x : Except ε β) (k : β → Except ε γ) :
    Except.map g (x >>= k) = (x >>= fun a => Except.map g (k a)) := by
  cases x <;> rfl

theorem mapM_map_comm {ε β γ δ : Type} (g : γ → δ) (F : β → Except ε γ) (F' : β → Except ε δ)
    (h : ∀ x, F' x = Except.map g (F x)) : ∀ l : List β, l.mapM F' = Except.map (List.map g) (l.mapM F)
  | [] => rfl
  | x :: xs => by
    simp only [List.mapM_cons, h x, mapM_map_comm g F F' h xs]
    cases F x with
    | error e => rfl
    | ok y => cases xs.mapM F <;> rfl

theorem bind_mapM_comm {ε β γ δ ρ : Type} (g : γ → γ) (R : δ → ρ) (l : List β)
    {F F' : β → Except ε γ} {K : List γ → Except ε δ} {K' : List γ → Except ε ρ}
    (hF : ∀ x, F' x = Except.map g (F x))
    (hK : ∀ as, l.mapM F = .ok as → K' (as.map g) = Except.map R (K as)) :
    (l.mapM F' >>= K') = Except.map R (l.mapM F >>= K) := by
  rw [mapM_map_comm g F F' hF l]
  cases h : l.mapM F with
  | error e => rfl
  | ok as => exact hK as h

/-- rename the qubit entries of an environment -/
def Env.rename (f : Int → Int) (env : Env α) : Env α := env.map fun p => (p.1, p.2.rename f)

omit [Scalar α] in
theorem Env.find?_rename (f : Int → Int) (env : Env α) (n : String) :
    (Env.rename f env).find? n = (env.find? n).map (Arg.rename f) := by
  simp [Env.find?, Env.rename, List.find?_map, Function.comp_def]

omit [Scalar α] in
theorem Arg.kind_rename (f : Int → Int) (a : Arg α) : (a.rename f).kind = a.kind := by cases a <;> rfl

omit [Scalar α] in
theorem Env.sig_rename (f : Int → Int) (env : Env α) : (Env.rename f env).sig = env.sig := by
  simp [Env.sig, Env.rename, Arg.kind_rename]

omit [Scalar α] in
theorem Env.rename_values (f : Int → Int) (env : Env α) :
    (Env.rename f env).map (·.2) = (env.map (·.2)).map (Arg.rename f) := by
  simp [Env.rename]

theorem SExpr.eval_rename (f : Int → Int) (atol : α) (env : Env α) (loc : List (String × α)) :
    ∀ e : SExpr, e.eval atol (Env.rename f env) loc = e.eval atol env loc
  | .pi => rfl
  | .nat _ => rfl
  | .sci _ _ _ => rfl
  | .var _ => rfl
  | .fparam n => by
    simp only [SExpr.eval, Env.find?_rename]
    cases env.find? n with
    | none => rfl
    | some a => cases a <;> rfl
  | .neg e => by simp only [SExpr.eval, SExpr.eval_rename f atol env loc e]
  | .mul a b => by simp only [SExpr.eval, SExpr.eval_rename f atol env loc a, SExpr.eval_rename f atol env loc b]
  | .div a b => by simp only [SExpr.eval, SExpr.eval_rename f atol env loc a, SExpr.eval_rename f atol env loc b]
  | .normalize e => by simp only [SExpr.eval, SExpr.eval_rename f atol env loc e]
  | .pow2 n => by
    simp only [SExpr.eval, Env.find?_rename]
    cases env.find? n with
    | none => rfl
    | some a => cases a <;> rfl

omit [Scalar α] in
theorem envQubit_rename (f : Int → Int) (env : Env α) (n : String) :
    envQubit (Env.rename f env) n = Except.map f (envQubit env n) := by
  simp only [envQubit, Env.find?_rename]
  cases env.find? n with
  | none => rfl
  | some a => cases a <;> rfl

/-- an argument that `bindArgs` does not silently convert from `Int` to `Qubit` at a parameter of kind `k` -/
def Arg.safeAt : Kind → Arg α → Bool
  | .qubit, .int _ => false
  | _, _ => true

/-- no `.int` argument stands at a `.qubit` parameter (the conversion `Qubit(int)` of the wrappers copies a
    number that `Arg.rename` does not regard as a qubit index) -/
def bindSafe (ps : List (String × Kind)) (as : List (Arg α)) : Bool :=
  (ps.zip as).all fun x => Arg.safeAt x.1.2 x.2

/-- no `.int` argument at all (what the decomposers and the merger pass: `.qubit` / `.float` only) -/
def intFree (as : List (Arg α)) : Bool := as.all fun | .int _ => false | _ => true

omit [Scalar α] in
theorem bindSafe_of_intFree (ps : List (String × Kind)) :
    ∀ {as : List (Arg α)}, intFree as = true → bindSafe ps as = true := by
  induction ps with
  | nil => intro as _; simp [bindSafe]
  | cons p ps ih =>
    intro as h
    cases as with
    | nil => simp [bindSafe]
    | cons a as =>
      simp only [intFree, List.all_cons, Bool.and_eq_true] at h
      have := ih (as := as) (by simpa [intFree] using h.2)
      simp only [bindSafe, List.zip_cons_cons, List.all_cons, Bool.and_eq_true] at this ⊢
      refine ⟨?_, this⟩
      cases a <;> cases hk : p.2 <;> simp_all [Arg.safeAt]

omit [Scalar α] in
theorem bindArgs_rename (f : Int → Int) : ∀ (ps : List (String × Kind)) (as : List (Arg α)),
    bindSafe ps as = true →
    bindArgs ps (as.map (Arg.rename f)) = Except.map (Env.rename f) (bindArgs ps as)
  | [], _, _ => rfl
  | _ :: _, [], _ => rfl
  | (n, k) :: ps, a :: as, h => by
    simp only [bindSafe, List.zip_cons_cons, List.all_cons, Bool.and_eq_true] at h
    have ih := bindArgs_rename f ps as h.2
    simp only [List.map_cons, bindArgs, ih]
    cases k <;> cases a <;>
      simp [Arg.safeAt] at h <;>
      simp [Arg.rename, bind, Except.bind, pure, Except.pure, throw, throwThe, MonadExceptOf.throw, Except.map] <;>
      cases bindArgs ps as <;> simp [Env.rename, Arg.rename]

theorem mkBSR_rename (f : Int → Int) (atol : α) (q : Int) (ax : Vec3 α) (an ph : α) :
    mkBSR atol (f q) ax an ph = Except.map (Gate.rename f) (mkBSR atol q ax an ph) := by
  simp only [mkBSR]
  cases mkAxis ax <;> rfl

omit [Scalar α] in
theorem hasDup_map_inj {f : Int → Int} (hf : Inj f) : ∀ l : List Int, hasDup (l.map f) = hasDup l
  | [] => rfl
  | x :: xs => by simp only [List.map_cons, hasDup, contains_map_inj hf, hasDup_map_inj hf xs]

omit [Scalar α] in
theorem mkCtrl_rename {f : Int → Int} (hf : Inj f) (c : Int) (g : Gate α) :
    mkCtrl (f c) (g.rename f) = Except.map (Gate.rename f) (mkCtrl c g) := by
  have : hasDup (f c :: (g.rename f).operands) = hasDup (c :: g.operands) := by
    rw [Gate.operands_rename, ← List.map_cons, hasDup_map_inj hf]
  simp only [mkCtrl, this]
  split <;> rfl

omit [Scalar α] in
/-- under the static discipline of `InstrWF`, the values a nested call passes on are safe for the callee -/
theorem call_bindSafe (env : Env α) : ∀ (args : List String) (ps : List (String × Kind)) (as : List (Arg α)),
    All₂ (fun a v => env.find? a = some v) args as →
    ((args.zip ps).all fun x => !(x.2.2 == Kind.qubit && paramKind env.sig x.1 == some Kind.int)) = true →
    bindSafe ps as = true
  | _, [], _, _, _ => by simp [bindSafe]
  | [], _ :: _, _, ha, _ => by cases ha; simp [bindSafe]
  | a :: args, (n, k) :: ps, _, ha, hc => by
    cases ha with
    | cons hav hrest =>
      rename_i v as
      simp only [List.zip_cons_cons, List.all_cons, Bool.and_eq_true] at hc
      have ih := call_bindSafe env args ps as hrest hc.2
      simp only [bindSafe, List.zip_cons_cons, List.all_cons, Bool.and_eq_true] at ih ⊢
      refine ⟨?_, ih⟩
      have h1 := hc.1
      cases k <;> cases v <;> simp_all [Arg.safeAt, paramKind, Env.find?_sig, Arg.kind]

/-- **`GExpr.eval_rename` / `evalNamed_rename`**: evaluating a gate definition in the renamed environment gives
    the renamed gate (same error otherwise), for every table obeying `tableTyped` (no definition passes an `int`
    parameter on in a qubit position). -/
theorem GExpr.eval_rename {f : Int → Int} (hf : Inj f) (atol : α) (table : List GateDef)
    (hT : tableTyped table = true) :
    ∀ (fuel : Nat) (env : Env α) (loc : List (String × α)) (body : GExpr),
      body.typed table env.sig = true →
      body.eval atol table fuel (Env.rename f env) loc = Except.map (Gate.rename f) (body.eval atol table fuel env loc) := by
  intro fuel env loc body
  refine GExpr.eval.induct (α := α) table
    (fun fuel env loc body => body.typed table env.sig = true →
      body.eval atol table fuel (Env.rename f env) loc = Except.map (Gate.rename f) (body.eval atol table fuel env loc))
    (fun fuel name args => (∀ d, table.find? (·.name == name) = some d → bindSafe d.params args = true) →
      evalNamed atol table fuel name (args.map (Arg.rename f)) =
        Except.map (Gate.rename f) (evalNamed atol table fuel name args))
    ?_ ?_ ?_ ?_ ?_ ?_ ?_ ?_ fuel env loc body
  · intro fuel env loc q ax ay az an ph _
    simp only [GExpr.eval, envQubit_rename, SExpr.eval_rename, Except.bind_map', Except.map_bind', mkBSR_rename]
  · intro fuel env loc q _
    simp only [GExpr.eval, envQubit_rename, Except.bind_map', Except.map_bind', mkBSR_rename]
  · intro fuel env loc c body ih ht
    have ih := ih (by simpa [GExpr.typed] using ht)
    simp only [GExpr.eval, envQubit_rename, ih, Except.bind_map', Except.map_bind', mkCtrl_rename hf]
  · intro fuel env loc name args ih ht
    simp only [GExpr.eval]
    refine bind_mapM_comm (Arg.rename f) (Gate.rename f) args ?_ ?_
    · intro a
      rw [Env.find?_rename]
      cases env.find? a <;> rfl
    · intro as has
      cases fuel with
      | zero => rfl
      | succ fuel =>
        refine ih as ?_
        intro d hd
        have hall : All₂ (fun a v => env.find? a = some v) args as :=
          ((mapM_ok_iff _ _ _).1 has).imp fun a v h => by
            cases hf : env.find? a <;> simp [hf, pure, Except.pure, throw, throwThe, MonadExceptOf.throw] at h ⊢
            exact h
        simp only [GExpr.typed, hd] at ht
        exact call_bindSafe env args d.params as hall ht
  · intro fuel env loc n v body ih ht
    simp only [GExpr.eval, SExpr.eval_rename, Except.map_bind']
    cases v.eval atol env loc with
    | error e => rfl
    | ok x => exact ih x (by simpa [GExpr.typed] using ht)
  · intro fuel name args hfd _
    simp only [evalNamed, hfd]; rfl
  · intro fuel name args d hfd hlen _
    simp only [evalNamed, hfd, List.length_map, hlen, if_true]; rfl
  · intro fuel name args d hfd hlen ih hs
    simp only [evalNamed, hfd, List.length_map, hlen, if_false, bindArgs_rename f _ _ (hs d hfd),
      Except.bind_map', Except.map_bind']
    cases hb : bindArgs d.params args with
    | error e => rfl
    | ok env =>
      simp only [bind, Except.bind]
      refine ih env ?_
      rw [bindArgs_sig hb]
      exact (List.all_eq_true.1 hT) d (List.mem_of_find?_eq_some hfd)

/-- **`callGate_rename`** (any table obeying `tableTyped`; `bindSafe`: no `.int` argument at a qubit parameter).
    The `named_gate` wrapper commutes with injective renaming: gate and recorded arguments are renamed. -/
theorem callGate_rename {f : Int → Int} (hf : Inj f) (atol : α) (table : List GateDef)
    (hT : tableTyped table = true) (name : String) (args : List (Arg α))
    (hs : ∀ d, table.find? (·.name == name) = some d → bindSafe d.params args = true) :
    callGate atol table name (args.map (Arg.rename f)) =
      Except.map (fun p => (p.1.rename f, p.2.rename f)) (callGate atol table name args) := by
  simp only [callGate]
  cases hfd : table.find? (·.name == name) with
  | none => rfl
  | some d =>
    simp only [List.length_map]
    by_cases hlen : args.length > d.params.length
    · simp only [hlen, if_true]; rfl
    · simp only [hlen, if_false, bindArgs_rename f _ _ (hs d hfd), Except.bind_map']
      cases hb : bindArgs d.params args with
      | error e => rfl
      | ok env =>
        simp only [bind, Except.bind]
        have ht : d.body.typed table env.sig = true := by
          rw [bindArgs_sig hb]
          exact (List.all_eq_true.1 hT) d (List.mem_of_find?_eq_some hfd)
        rw [GExpr.eval_rename hf atol table hT 8 env [] d.body ht]
        cases d.body.eval atol table 8 env [] with
        | error e => rfl
        | ok g => simp [Except.map, pure, Except.pure, Named.rename, Env.rename]

theorem gateTable_typed : tableTyped Gen.gateTable = true := by decide

/-- `callGate_rename` for the default table. -/
theorem callGate_rename_gen {f : Int → Int} (hf : Inj f) (atol : α) (name : String) (args : List (Arg α))
    (hs : ∀ d, Gen.gateTable.find? (·.name == name) = some d → bindSafe d.params args = true) :
    callGate atol Gen.gateTable name (args.map (Arg.rename f)) =
      Except.map (fun p => (p.1.rename f, p.2.rename f)) (callGate atol Gen.gateTable name args) :=
  callGate_rename hf atol Gen.gateTable gateTable_typed name args hs

theorem find_CRk : Gen.gateTable.find? (·.name == "CRk") = some
    { name := "CRk", params := [("control", Kind.qubit), ("target", Kind.qubit), ("k", Kind.int)],
      body := (GExpr.letS "theta" (SExpr.normalize (SExpr.div (SExpr.mul (SExpr.nat 2) SExpr.pi) (SExpr.pow2 "k"))) (GExpr.ctrl "control" (GExpr.bsr "target" 0 0 1 (SExpr.var "theta") (SExpr.div (SExpr.var "theta") (SExpr.nat 2))))) } := rfl

/-- an `.int` argument at an `int` parameter is fine (`CRk(q0, q1, 2)`) -/
example (atol : α) :
    callGate atol Gen.gateTable "CRk" [.qubit 7, .qubit 1007, .int 2] =
      Except.map (fun p => (p.1.rename (fun q => 1000 * q + 7), p.2.rename (fun q => 1000 * q + 7)))
        (callGate atol Gen.gateTable "CRk" [.qubit 0, .qubit 1, .int 2]) :=
  callGate_rename_gen inj_scale atol "CRk" [.qubit 0, .qubit 1, .int 2]
    (fun d hd => by rw [find_CRk] at hd; cases hd; rfl)

theorem toy_X : callGate (⟨0⟩ : Toy) Gen.gateTable "X" [Arg.int 0] = .ok
    (.bsr 0 (one, zero, zero) (normalizeAngle ⟨0⟩ π) (normalizeAngle ⟨0⟩ (π / sc 2)), ⟨"X", [Arg.qubit 0]⟩) := by
  have hx : Gen.gateTable.find? (·.name == "X") = some
      { name := "X", params := [("q", Kind.qubit)],
        body := (GExpr.bsr "q" 1 0 0 SExpr.pi (SExpr.div SExpr.pi (SExpr.nat 2))) } := rfl
  rw [callGate, hx]
  simp [bindArgs, GExpr.eval, envQubit, Env.find?, SExpr.eval, bind, Except.bind, pure, Except.pure, mkBSR,
    toy_axis_x]

/-- the hypothesis `bindSafe` of `callGate_rename` cannot be dropped: `X(0)` called with a bare Python int (which
    `Arg.rename` does not regard as a qubit index) is not renamed. -/
theorem callGate_rename_needs_bindSafe :
    callGate (⟨0⟩ : Toy) Gen.gateTable "X" ([Arg.int 0].map (Arg.rename (fun q => q + 1))) ≠
      Except.map (fun p => (p.1.rename (fun q => q + 1), p.2.rename (fun q => q + 1)))
        (callGate (⟨0⟩ : Toy) Gen.gateTable "X" [Arg.int 0]) := by
  intro h
  rw [show [Arg.int 0].map (Arg.rename (α := Toy) (fun q => q + 1)) = [Arg.int 0] from rfl, toy_X] at h
  simp [Except.map, Gate.rename] at h

/-- **`named_rename`**: the decomposers' way of calling a default gate commutes with injective renaming. -/
theorem named_rename {f : Int → Int} (hf : Inj f) (atol : α) (name : String) (args : List (Arg α))
    (hs : ∀ d, Gen.gateTable.find? (·.name == name) = some d → bindSafe d.params args = true) :
    named atol name (args.map (Arg.rename f)) = Except.map (GStmt.rename f) (named atol name args) := by
  simp only [named, callGate_rename_gen hf atol name args hs]
  cases callGate atol Gen.gateTable name args <;> rfl

theorem named_rename_intFree {f : Int → Int} (hf : Inj f) (atol : α) (name : String) (args : List (Arg α))
    (hi : intFree args = true) :
    named atol name (args.map (Arg.rename f)) = Except.map (GStmt.rename f) (named atol name args) :=
  named_rename hf atol name args fun d _ => bindSafe_of_intFree d.params hi

theorem named_q {f : Int → Int} (hf : Inj f) (atol : α) (name : String) (q : Int) :
    named atol name [.qubit (f q)] = Except.map (GStmt.rename f) (named atol name [.qubit q]) :=
  named_rename_intFree hf atol name [.qubit q] rfl

theorem named_qf {f : Int → Int} (hf : Inj f) (atol : α) (name : String) (q : Int) (t : α) :
    named atol name [.qubit (f q), .float t] = Except.map (GStmt.rename f) (named atol name [.qubit q, .float t]) :=
  named_rename_intFree hf atol name [.qubit q, .float t] rfl

theorem named_qq {f : Int → Int} (hf : Inj f) (atol : α) (name : String) (q r : Int) :
    named atol name [.qubit (f q), .qubit (f r)] = Except.map (GStmt.rename f) (named atol name [.qubit q, .qubit r]) :=
  named_rename_intFree hf atol name [.qubit q, .qubit r] rfl

/-! ### 3b. the built-in decomposers commute with injective renaming -/

theorem Gate.isIdentity_rename (f : Int → Int) (atol : α) : ∀ g : Gate α, (g.rename f).isIdentity atol = g.isIdentity atol
  | .bsr _ _ _ _ => rfl
  | .matrix _ _ => rfl
  | .ctrl c g => by simp only [Gate.rename, Gate.isIdentity, Gate.isIdentity_rename f atol g]

theorem filterOutIdentities_rename (f : Int → Int) (atol : α) (gs : List (GStmt α)) :
    filterOutIdentities atol (gs.map (GStmt.rename f)) = (filterOutIdentities atol gs).map (GStmt.rename f) := by
  simp only [filterOutIdentities, List.filter_map, Function.comp_def, GStmt.rename, Gate.isIdentity_rename]

theorem abaDecompose_rename {f : Int → Int} (hf : Inj f) (atol : α) (k : ABAKind) (g : GStmt α) :
    abaDecompose atol k (g.rename f) = Except.map (List.map (GStmt.rename f)) (abaDecompose atol k g) := by
  obtain ⟨g, nm⟩ := g
  cases g with
  | matrix m ops => rfl
  | ctrl c g => rfl
  | bsr q ax an ph =>
    simp only [abaDecompose, GStmt.rename, Gate.rename, named_qf hf]
    cases abaAngles atol k an ax with
    | error e => rfl
    | ok t =>
      obtain ⟨t1, t2, t3⟩ := t
      simp only [bind, Except.bind]
      cases named atol (rotName k.ia) [.qubit q, .float t1] with
      | error e => rfl
      | ok a1 =>
        cases named atol (rotName k.ib) [.qubit q, .float t2] with
        | error e => rfl
        | ok b =>
          cases named atol (rotName k.ia) [.qubit q, .float t3] with
          | error e => rfl
          | ok a2 =>
            simp only [Except.map, pure, Except.pure]
            rw [← filterOutIdentities_rename]; rfl

omit [Scalar α] in
theorem GStmt.name?_rename (f : Int → Int) (g : GStmt α) : (g.rename f).name? = g.name? := by
  obtain ⟨g, nm⟩ := g; cases nm <;> rfl

omit [Scalar α] in
theorem replaceAt_map {β γ : Type} (g : β → γ) : ∀ (l : List β) (i : Nat) (y : β),
    replaceAt (l.map g) i (g y) = (replaceAt l i y).map g
  | [], _, _ => rfl
  | _ :: _, 0, _ => rfl
  | x :: xs, i + 1, y => by simp only [List.map_cons, replaceAt, replaceAt_map g xs i y]

set_option hygiene false in
local macro "mckay_tail" : tactic => `(tactic| (
  by_cases h4 : (decide (absS theta < atol) && Scalar.decEqB lam phi) = true
  · simp only [if_pos h4]; rfl
  · simp only [if_neg h4]
    by_cases h5 : atol < absS lam <;> by_cases h6 : atol < absS theta <;> by_cases h7 : atol < absS phi <;>
      simp only [h5, h6, h7, ↓reduceIte] <;>
      cases rzl <;> cases rzt <;> cases rzp <;> rfl))

theorem mckayDecompose_rename {f : Int → Int} (hf : Inj f) (atol : α) (g : GStmt α) :
    mckayDecompose atol (g.rename f) = Except.map (List.map (GStmt.rename f)) (mckayDecompose atol g) := by
  obtain ⟨g, nm⟩ := g
  cases g with
  | matrix m ops => rfl
  | ctrl c g => rfl
  | bsr q ax an ph =>
    have hname : GStmt.name? (Gate.bsr (f q) ax an ph, nm.map (Named.rename f)) = GStmt.name? (Gate.bsr q ax an ph, nm) :=
      GStmt.name?_rename f (Gate.bsr q ax an ph, nm)
    have haba := abaDecompose_rename hf atol .ZXZ (Gate.bsr q ax an ph, nm)
    simp only [GStmt.rename, Gate.rename] at haba
    simp only [GStmt.rename, Gate.rename, mckayDecompose, hname, named_qf hf, named_q hf]
    rw [haba]
    generalize normalizeAngle atol (Trig.atan2 (-Trig.sin (an / two) * ax.1) (-Trig.sin (an / two) * ax.2.1) -
      Trig.atan2 (-Trig.sin (an / two) * ax.2.2) (Trig.cos (an / two))) = lam
    generalize normalizeAngle atol (-Trig.atan2 (-Trig.sin (an / two) * ax.1) (-Trig.sin (an / two) * ax.2.1) -
      Trig.atan2 (-Trig.sin (an / two) * ax.2.2) (Trig.cos (an / two)) - π) = phi
    generalize normalizeAngle atol (π - two * Trig.atan2 (absS (Trig.sin (an / two)) * Trig.sqrt (ax.1 * ax.1 + ax.2.1 * ax.2.1))
      (Trig.sqrt (Trig.cos (an / two) * Trig.cos (an / two) + ax.2.2 * Trig.sin (an / two) * (ax.2.2 * Trig.sin (an / two))))) = theta
    generalize named atol "Rz" [Arg.qubit q, Arg.float lam] = rzl
    generalize named atol "Rz" [Arg.qubit q, Arg.float phi] = rzp
    generalize named atol "Rz" [Arg.qubit q, Arg.float theta] = rzt
    by_cases h1 : (GStmt.name? (Gate.bsr q ax an ph, nm) == some "Rz" || GStmt.name? (Gate.bsr q ax an ph, nm) == some "X90") = true
    · rw [if_pos h1, if_pos h1]; rfl
    rw [if_neg h1, if_neg h1]
    by_cases h2 : absS an < atol
    · rw [if_pos h2, if_pos h2]; rfl
    rw [if_neg h2, if_neg h2]
    by_cases h3 : (Scalar.decEqB ax.1 zero && Scalar.decEqB ax.2.1 zero) = true
    · rw [if_pos h3, if_pos h3]
      cases named atol "Rz" [.qubit q, .float (an * ax.2.2)] <;> rfl
    rw [if_neg h3, if_neg h3]
    cases abaDecompose atol .ZXZ (Gate.bsr q ax an ph, nm) with
    | error e => rfl
    | ok zxz =>
      cases named atol "X90" [.qubit q] with
      | error e => rfl
      | ok x90 =>
        simp only [bind, Except.bind, Except.map]
        simp only [List.findIdx_map, Function.comp_def, GStmt.name?_rename, List.getElem?_map, replaceAt_map]
        cases hz : zxz[List.findIdx (fun s => s.name? == some "Rx") zxz]? with
        | none =>
          simp only [Option.map_none]
          mckay_tail
        | some s =>
          obtain ⟨g', nm'⟩ := s
          cases g' with
          | bsr q' ax' an' ph' =>
            simp only [Option.map_some, GStmt.rename, Gate.rename]
            by_cases h0 : absS (an' - π / two) < atol
            · simp only [if_pos h0]; rfl
            · simp only [if_neg h0]
              mckay_tail
          | matrix m' ops' =>
            simp only [Option.map_some, GStmt.rename, Gate.rename]
            mckay_tail
          | ctrl c' g'' =>
            simp only [Option.map_some, GStmt.rename, Gate.rename]
            mckay_tail

/-- rename the qubit of a rotation record (both views) -/
def Rot.rename (f : Int → Int) (r : Rot α) : Rot α := ⟨f r.q, r.axis, r.angle, r.phase, r.nm.map (Named.rename f)⟩

theorem Rot.isIdentity_rename (f : Int → Int) (atol : α) (r : Rot α) : (r.rename f).isIdentity atol = r.isIdentity atol := rfl

omit [Scalar α] in
theorem Rot.toGStmt_rename (f : Int → Int) (r : Rot α) : (r.rename f).toGStmt = r.toGStmt.rename f := rfl

theorem identityRot_rename (f : Int → Int) (q : Int) : (identityRot (f q) : Rot α) = (identityRot q).rename f := rfl

theorem ite_map_congr {ε δ ρ : Type} (g : δ → ρ) {c : Prop} [Decidable c] {a' b' : Except ε ρ} {a b : Except ε δ}
    (ha : a' = Except.map g a) (hb : b' = Except.map g b) :
    (if c then a' else b') = Except.map g (if c then a else b) := by
  split <;> assumption

theorem ite_optmap_aux {β γ : Type} {c1 c2 : Prop} {i1 i1' : Decidable c1} {i2 i2' : Decidable c2}
    (g : β → γ) (x y : Option β) :
    (@ite _ c1 i1 (Option.map g x) (@ite _ c2 i2 (Option.map g y) none)) =
      Option.map g (@ite _ c1 i1' x (@ite _ c2 i2' y none)) := by
  have h1 : i1 = i1' := Subsingleton.elim _ _
  have h2 : i2 = i2' := Subsingleton.elim _ _
  subst h1 h2
  split
  · rfl
  split <;> rfl

theorem composeRot_rename {f : Int → Int} (hf : Inj f) (atol : α) (a b : Rot α) :
    composeRot atol (a.rename f) (b.rename f) = Except.map (Rot.rename f) (composeRot atol a b) := by
  obtain ⟨qa, axa, ana, pha, nma⟩ := a
  obtain ⟨qb, axb, anb, phb, nmb⟩ := b
  simp only [composeRot, Rot.rename, hf.bne, Rot.isIdentity]
  refine ite_map_congr _ rfl ?_
  refine ite_map_congr _ rfl ?_
  split
  · rfl
  · simp only [Except.map, Rot.rename]
    congr 2
    exact ite_optmap_aux _ _ _

omit [Scalar α] in
theorem gstmtToRot_rename (f : Int → Int) (g : GStmt α) : gstmtToRot (g.rename f) = (gstmtToRot g).map (Rot.rename f) := by
  obtain ⟨g, nm⟩ := g
  cases g <;> rfl

theorem prod2_rename (f : Int → Int) (l : List (GStmt α)) : prod2 (l.map (GStmt.rename f)) = prod2 l := by
  unfold prod2
  generalize (Mat.identity 2 : Mat α) = acc
  induction l generalizing acc with
  | nil => rfl
  | cons g l ih =>
    obtain ⟨g, nm⟩ := g
    cases g <;> exact ih _

theorem bind_map_congr {ε β γ δ ρ : Type} (R : β → γ) (g : δ → ρ) {x : Except ε β} {k' : γ → Except ε ρ}
    {k : β → Except ε δ} (h : ∀ a, k' (R a) = Except.map g (k a)) :
    (Except.map R x >>= k') = Except.map g (x >>= k) := by
  cases x with
  | error e => rfl
  | ok a => exact h a

theorem bind_congr_map {ε β δ ρ : Type} (g : δ → ρ) {x : Except ε β} {k' : β → Except ε ρ}
    {k : β → Except ε δ} (h : ∀ a, k' a = Except.map g (k a)) :
    (x >>= k') = Except.map g (x >>= k) := by
  cases x with
  | error e => rfl
  | ok a => exact h a

theorem cnotDecompose_rename {f : Int → Int} (hf : Inj f) (atol : α) (g : GStmt α) :
    cnotDecompose atol (g.rename f) = Except.map (List.map (GStmt.rename f)) (cnotDecompose atol g) := by
  obtain ⟨g, nm⟩ := g
  cases g with
  | bsr q ax an ph => rfl
  | matrix m ops => rfl
  | ctrl c g' =>
    cases g' with
    | matrix m ops => rfl
    | ctrl c' g'' => rfl
    | bsr q ax an ph =>
      show cnotDecompose atol (Gate.ctrl (f c) (Gate.bsr (f q) ax an ph), nm.map (Named.rename f)) = _
      simp only [cnotDecompose, named_q hf, named_qf hf, named_qq hf]
      refine bind_map_congr _ _ fun x => ?_
      rw [gstmtToRot_rename]
      cases gstmtToRot x with
      | none => rfl
      | some xr =>
        simp only [Option.map_some]
        have htr : ({ q := f q, axis := ax, angle := an, phase := ph, nm := none } : Rot α) =
            Rot.rename f { q := q, axis := ax, angle := an, phase := ph, nm := none } := rfl
        rw [htr, composeRot_rename hf]
        refine bind_map_congr _ _ fun xu => ?_
        simp only [Rot.rename]
        refine bind_congr_map _ fun t => ?_
        refine bind_map_congr _ _ fun cnot => ?_
        refine ite_map_congr _ ?_ ?_
        · refine bind_map_congr _ _ fun d0 => ?_
          refine bind_map_congr _ _ fun d1 => ?_
          refine bind_map_congr _ _ fun d2 => ?_
          refine bind_map_congr _ _ fun d3 => ?_
          have h5 := prod2_rename f ([d2, d3] ++ [x] ++ [d0, d1])
          have h4 := prod2_rename f ([d2, d3] ++ [d0, d1])
          simp only [List.map_cons, List.map_nil, List.map_append] at h4 h5
          rw [h4, h5]
          refine bind_map_congr _ _ fun rzc => ?_
          simp only [pure, Except.pure, Except.map]
          rw [← filterOutIdentities_rename]
          simp only [List.map_cons, List.map_nil, List.map_append]
        · refine bind_congr_map _ fun t' => ?_
          refine bind_map_congr _ _ fun d0 => ?_
          refine bind_map_congr _ _ fun d1 => ?_
          refine bind_map_congr _ _ fun d2 => ?_
          refine bind_map_congr _ _ fun d3 => ?_
          refine bind_map_congr _ _ fun d4 => ?_
          refine bind_map_congr _ _ fun rzc => ?_
          simp only [pure, Except.pure, Except.map]
          rw [← filterOutIdentities_rename]
          simp only [List.map_cons, List.map_nil, List.map_append]

/-- **`decomposer_rename`**: every built-in decomposer commutes with injective renaming of the qubits (in both
    views of the statement): it reads only axis / angle / phase and the *name* of the statement and copies the
    qubit index into `named` calls. -/
theorem decomposer_rename {f : Int → Int} (hf : Inj f) (atol : α) (d : Decomposer) (g : Gate α)
    (nm : Option (Named α)) :
    d.run atol (g.rename f, nm.map (Named.rename f)) =
      Except.map (List.map (GStmt.rename f)) (d.run atol (g, nm)) := by
  cases d with
  | aba k => exact abaDecompose_rename hf atol k (g, nm)
  | mckay => exact mckayDecompose_rename hf atol (g, nm)
  | cnot => exact cnotDecompose_rename hf atol (g, nm)

/-- the McKay decomposer on `H` at qubit 99 993 of a huge register = the renamed decomposition at qubit 3 -/
example (atol : α) (ax : Vec3 α) (an ph : α) :
    Decomposer.run atol .mckay (.bsr 99993 ax an ph, some ⟨"H", [.qubit 99993]⟩) =
      Except.map (List.map (GStmt.rename (fun q => q + 99990)))
        (Decomposer.run atol .mckay (.bsr 3 ax an ph, some ⟨"H", [.qubit 3]⟩)) :=
  decomposer_rename (inj_shift 99990) atol .mckay (.bsr 3 ax an ph) (some ⟨"H", [.qubit 3]⟩)

example (atol : α) (ax : Vec3 α) (an ph : α) :
    Decomposer.run atol .cnot (.ctrl 7 (.bsr 1007 ax an ph), none) =
      Except.map (List.map (GStmt.rename (fun q => 1000 * q + 7)))
        (Decomposer.run atol .cnot (.ctrl 0 (.bsr 1 ax an ph), none)) :=
  decomposer_rename inj_scale atol .cnot (.ctrl 0 (.bsr 1 ax an ph)) none

/-! ### 4. the decompose pass commutes with injective renaming -/

omit [Scalar α] in
theorem GStmt.toStmt_rename (f : Int → Int) (g : GStmt α) : (g.rename f).toStmt = g.toStmt.rename f := rfl

theorem decomposeLoop_rename {f : Int → Int} (hf : Inj f) (atol : α)
    (d d' : Nat → GStmt α → Except Err (List (GStmt α)))
    (hd : ∀ i g, d' i (g.rename f) = Except.map (List.map (GStmt.rename f)) (d i g)) :
    ∀ (rest : List (Stmt α)) (i : Nat) (out : List (Stmt α)),
      decomposeLoop atol d' i (out.map (Stmt.rename f)) (rest.map (Stmt.rename f)) =
        ((decomposeLoop atol d i out rest).1.map (Stmt.rename f), (decomposeLoop atol d i out rest).2) := by
  intro rest
  induction rest with
  | nil => intro i out; simp [decomposeLoop, List.map_reverse]
  | cons s rest ih =>
    intro i out
    cases s with
    | gate g nm =>
      have h1 := hd i (g, nm)
      simp only [GStmt.rename] at h1
      simp only [List.map_cons, Stmt.rename, decomposeLoop, h1]
      cases hdi : d i (g, nm) with
      | error e => simp [Except.map, List.map_reverse, Stmt.rename]
      | ok repl =>
        have h2 : (repl.map (GStmt.rename f)).map (·.1) = (repl.map (·.1)).map (·.rename f) := by
          simp [List.map_map, Function.comp_def, GStmt.rename]
        simp only [Except.map, h2, checkGateReplacement_rename hf]
        cases checkGateReplacement atol g (repl.map (·.1)) with
        | some e => simp [List.map_reverse, Stmt.rename]
        | none =>
          have h3 : ((repl.map (GStmt.rename f)).map GStmt.toStmt).reverse ++ out.map (Stmt.rename f) =
              (((repl.map GStmt.toStmt).reverse ++ out).map (Stmt.rename f)) := by
            simp [List.map_map, Function.comp_def, GStmt.toStmt_rename, List.map_reverse]
          simp only [h3]
          exact ih (i + 1) _
    | measure q b ax nm => exact ih i (.measure q b ax nm :: out)
    | reset q nm => exact ih i (.reset q nm :: out)
    | comment c => exact ih i (.comment c :: out)

/-- `decompose` for any index-aware decomposer pair related by the commutation hypothesis -/
theorem decompose_rename_gen {f : Int → Int} (hf : Inj f) (atol : α)
    (d d' : Nat → GStmt α → Except Err (List (GStmt α)))
    (hd : ∀ i g, d' i (g.rename f) = Except.map (List.map (GStmt.rename f)) (d i g)) (stmts : List (Stmt α)) :
    decompose atol d' (stmts.map (Stmt.rename f)) =
      ((decompose atol d stmts).1.map (Stmt.rename f), (decompose atol d stmts).2) :=
  decomposeLoop_rename hf atol d d' hd stmts 0 []

/-- **`decompose_rename`** (C19).  The whole decompose pass commutes with injective renaming of the qubits:
    running it with the gates at arbitrary (huge) indices gives the renamed result of the compressed run, with
    the same error.  The pass has no register-size argument at all, and the only matrices it builds are the
    `localMatrix g.operands …` of `checkGateReplacement`, of dimension `2^(#operands of g)`
    (`localMatrix_dim`, `checkGateReplacement_dims` in `OSq.Proofs.Expander`; `localMatrix_rename_dim` below). -/
theorem decompose_rename {f : Int → Int} (hf : Inj f) (atol : α) (d : Decomposer) (stmts : List (Stmt α)) :
    decomposeBuiltin atol d (stmts.map (Stmt.rename f)) =
      ((decomposeBuiltin atol d stmts).1.map (Stmt.rename f), (decomposeBuiltin atol d stmts).2) :=
  decompose_rename_gen hf atol _ _ (fun _ g => decomposer_rename hf atol d g.1 g.2) stmts

/-- `decompose_rename` instantiated: a comment, `Rz(q[3], θ)`, an anonymous controlled rotation on (0, 1) and a
    measurement, moved to qubits 7, 1007, 3007 of a register of (at least) 3008 qubits by `q ↦ 1000 q + 7` -/
example (atol th : α) (ax az : Vec3 α) (an ph : α) (d : Decomposer) :
    decomposeBuiltin atol d
        [.comment "c", .gate (.bsr 3007 az th (sc 0)) (some ⟨"Rz", [.qubit 3007, .float th]⟩),
          .gate (.ctrl 7 (.bsr 1007 ax an ph)) none, .measure 3007 0 az (some ⟨"measure", [.qubit 3007, .bit 0]⟩)] =
      ((decomposeBuiltin atol d
        [.comment "c", .gate (.bsr 3 az th (sc 0)) (some ⟨"Rz", [.qubit 3, .float th]⟩),
          .gate (.ctrl 0 (.bsr 1 ax an ph)) none, .measure 3 0 az (some ⟨"measure", [.qubit 3, .bit 0]⟩)]).1.map
          (Stmt.rename (fun q => 1000 * q + 7)),
       (decomposeBuiltin atol d
        [.comment "c", .gate (.bsr 3 az th (sc 0)) (some ⟨"Rz", [.qubit 3, .float th]⟩),
          .gate (.ctrl 0 (.bsr 1 ax an ph)) none, .measure 3 0 az (some ⟨"measure", [.qubit 3, .bit 0]⟩)]).2) :=
  decompose_rename inj_scale atol d
    [.comment "c", .gate (.bsr 3 az th (sc 0)) (some ⟨"Rz", [.qubit 3, .float th]⟩),
      .gate (.ctrl 0 (.bsr 1 ax an ph)) none, .measure 3 0 az (some ⟨"measure", [.qubit 3, .bit 0]⟩)]

/-- the matrices compared when a renamed gate is checked have the dimension `2^(#operands)` of the
    *compressed* gate, whatever the indices `f` produces -/
theorem localMatrix_rename_dim (f : Int → Int) (g : Gate α) (gs : List (Gate α)) {m : Mat α}
    (h : localMatrix (g.rename f).operands gs = .ok m) :
    m.n = 2 ^ g.operands.length ∧ m.d.size = 2 ^ g.operands.length * 2 ^ g.operands.length := by
  have := localMatrix_dim h
  simpa [Gate.operands_rename] using this

/-- the same as a statement about the `Circuit` method: the register size is irrelevant -/
theorem pass_decompose_rename {f : Int → Int} (hf : Inj f) (atol : α) (d : Decomposer) (c : Circuit α) (n' : Nat) :
    Pass.run atol (.decompose d) ⟨n', c.nBits, c.stmts.map (Stmt.rename f)⟩ =
      (⟨n', c.nBits, (Pass.run atol (.decompose d) c).1.stmts.map (Stmt.rename f)⟩,
        (Pass.run atol (.decompose d) c).2) := by
  simp only [Pass.run, decompose_rename hf]

example (atol th : α) (az : Vec3 α) (d : Decomposer) :
    Pass.run atol (.decompose d) ⟨100000, 1, [.gate (.bsr 99993 az th (sc 0)) (some ⟨"Rz", [.qubit 99993, .float th]⟩)]⟩ =
      (⟨100000, 1, (Pass.run atol (.decompose d)
          ⟨4, 1, [.gate (.bsr 3 az th (sc 0)) (some ⟨"Rz", [.qubit 3, .float th]⟩)]⟩).1.stmts.map
            (Stmt.rename (fun q => q + 99990))⟩,
       (Pass.run atol (.decompose d) ⟨4, 1, [.gate (.bsr 3 az th (sc 0)) (some ⟨"Rz", [.qubit 3, .float th]⟩)]⟩).2) :=
  pass_decompose_rename (inj_shift 99990) atol d
    ⟨4, 1, [.gate (.bsr 3 az th (sc 0)) (some ⟨"Rz", [.qubit 3, .float th]⟩)]⟩ 100000
/-! ### 7. determinism (C17) -/

/-- **`model_deterministic`** (C17).  Every pass of the model is a *function* of its explicit arguments: equal
    inputs give equal outputs.  The content is in the types: no pass takes or returns a state parameter (no
    counter, cache, random seed, clock or global), and the only other things a pass refers to are the closed
    terms `Gen.*` (`Gen.gateTable`, `Gen.bsrNoParams`, …).  Hence each line is `rfl` after substitution. -/
theorem model_deterministic :
    (∀ (atol atol' : α) (d d' : Decomposer) (s s' : List (Stmt α)), atol = atol' → d = d' → s = s' →
      decomposeBuiltin atol d s = decomposeBuiltin atol' d' s') ∧
    (∀ (atol atol' : α) (name name' : String) (r r' : Nat → List (Arg α) → Except Err (List (GStmt α)))
      (s s' : List (Stmt α)), atol = atol' → name = name' → r = r' → s = s' →
      replace atol name r s = replace atol' name' r' s') ∧
    (∀ (atol atol' : α) (c c' : Circuit α), atol = atol' → c = c' → merge atol c = merge atol' c') ∧
    (∀ (m m' : List Int) (c c' : Circuit α), m = m' → c = c' → remap m c = remap m' c') ∧
    (∀ (atol atol' : α) (ps ps' : List (Pass α)) (c c' : Circuit α), atol = atol' → ps = ps' → c = c' →
      runPasses atol ps c = runPasses atol' ps' c') ∧
    (∀ (fmt fmt' : α → String) (anon anon' : Gate α → String) (c c' : Circuit α), fmt = fmt' → anon = anon' →
      c = c' → writeCircuit fmt anon c = writeCircuit fmt' anon' c') ∧
    (∀ (fmt fmt' : α → String) (c c' : Circuit α), fmt = fmt' → c = c' → exportV1 fmt c = exportV1 fmt' c') := by
  refine ⟨?_, ?_, ?_, ?_, ?_, ?_, ?_⟩ <;> intros <;> subst_vars <;> rfl

end OSq

namespace OSq
variable {α : Type}

/-! ### 5. writer and exporter -/

theorem isQubitArg_rename (f : Int → Int) (a : Arg α) : isQubitArg (a.rename f) = isQubitArg a := by
  cases a <;> rfl

/-- the rendering of a renamed argument -/
def showArgR (f : Int → Int) (fmt : α → String) (a : Arg α) : String := showArg fmt (a.rename f)

/-- … is `q[f i]` for a qubit argument `q[i]` and the unchanged rendering for every other argument -/
theorem showArgR_eq (f : Int → Int) (fmt : α → String) (a : Arg α) :
    showArgR f fmt a = match a with
      | .qubit i => "q[" ++ toString (f i) ++ "]"
      | a => showArg fmt a := by
  cases a <;> rfl

theorem showArgR_of_not_qubit (f : Int → Int) (fmt : α → String) {a : Arg α} (h : isQubitArg a = false) :
    showArgR f fmt a = showArg fmt a := by
  cases a <;> first | rfl | simp [isQubitArg] at h

/-- `writeStmt` with the argument printer as a parameter (`writeStmt fmt anon = writeStmtG (showArg fmt) anon`) -/
def writeStmtG (sh : Arg α → String) (anon : Gate α → String) : Stmt α → String
  | .comment s => "\n/* " ++ s ++ " */\n\n"
  | .measure _ _ _ none => "<abstract_measure>\n"
  | .measure _ _ _ (some nm) =>
      sh (nm.args.getD 1 (.int 0)) ++ " = " ++ nm.name ++ " " ++ sh (nm.args.getD 0 (.int 0)) ++ "\n"
  | .reset _ none => "<abstract_reset>\n"
  | .reset _ (some nm) => nm.name ++ " " ++ sh (nm.args.getD 0 (.int 0)) ++ "\n"
  | .gate g none => anon g ++ "\n"
  | .gate _ (some nm) =>
      let params := (nm.args.filter (!isQubitArg ·)).map sh
      let qs := (nm.args.filter isQubitArg).map sh
      let name := if params.isEmpty then nm.name else nm.name ++ "(" ++ ", ".intercalate params ++ ")"
      name ++ " " ++ ", ".intercalate qs ++ "\n"

theorem writeStmt_eq_G (fmt : α → String) (anon : Gate α → String) (s : Stmt α) :
    writeStmt fmt anon s = writeStmtG (showArg fmt) anon s := by
  cases s with
  | gate g nm => cases nm <;> rfl
  | measure q b ax nm => cases nm <;> rfl
  | reset q nm => cases nm <;> rfl
  | comment c => rfl

theorem getD_rename (f : Int → Int) (l : List (Arg α)) (i : Nat) :
    (l.map (Arg.rename f)).getD i (.int 0) = (l.getD i (.int 0)).rename f := by
  simp only [List.getD_eq_getElem?_getD, List.getElem?_map]
  cases l[i]? <;> rfl

theorem filter_rename (f : Int → Int) (sh : Arg α → String) (l : List (Arg α)) :
    ((l.map (Arg.rename f)).filter isQubitArg).map sh = (l.filter isQubitArg).map (fun a => sh (a.rename f)) ∧
    ((l.map (Arg.rename f)).filter (!isQubitArg ·)).map sh =
      (l.filter (!isQubitArg ·)).map (fun a => sh (a.rename f)) := by
  simp [List.filter_map, Function.comp_def, isQubitArg_rename]

/-- **`writeStmt_rename`**: the text of a renamed statement is the text of the statement with every operand token
    `q[i]` replaced by `q[f i]` (`showArgR_eq`), everything else — names, parameters, bits, comments, layout —
    unchanged; anonymous gates are handed to `anon` renamed. -/
theorem writeStmt_rename (f : Int → Int) (fmt : α → String) (anon : Gate α → String) (s : Stmt α) :
    writeStmt fmt anon (s.rename f) = writeStmtG (showArgR f fmt) (fun g => anon (g.rename f)) s := by
  cases s with
  | gate g nm =>
    cases nm with
    | none => rfl
    | some nm =>
      simp only [Stmt.rename, Option.map_some, writeStmt, writeStmtG, Named.rename, (filter_rename f _ _).1,
        (filter_rename f _ _).2]
      rfl
  | measure q b ax nm =>
    cases nm with
    | none => rfl
    | some nm => simp only [Stmt.rename, Option.map_some, writeStmt, writeStmtG, Named.rename, getD_rename]; rfl
  | reset q nm =>
    cases nm with
    | none => rfl
    | some nm => simp only [Stmt.rename, Option.map_some, writeStmt, writeStmtG, Named.rename, getD_rename]; rfl
  | comment c => rfl

/-- parameters (non-qubit arguments) are rendered exactly as before, operands as `q[f i]`, in argument order -/
theorem writeStmt_rename_gate_form (f : Int → Int) (fmt : α → String) (anon : Gate α → String) (g : Gate α)
    (nm : Named α) :
    writeStmt fmt anon ((Stmt.gate g (some nm)).rename f) =
      (if ((nm.args.filter (!isQubitArg ·)).map (showArg fmt)).isEmpty then nm.name
        else nm.name ++ "(" ++ ", ".intercalate ((nm.args.filter (!isQubitArg ·)).map (showArg fmt)) ++ ")")
      ++ " " ++ ", ".intercalate (nm.qubitArgs.map fun i => "q[" ++ toString (f i) ++ "]") ++ "\n" := by
  have hp : (nm.args.filter (!isQubitArg ·)).map (showArgR f fmt) = (nm.args.filter (!isQubitArg ·)).map (showArg fmt) := by
    apply List.map_congr_left
    intro a ha
    exact showArgR_of_not_qubit f fmt (by simpa using (List.mem_filter.1 ha).2)
  have hq : (nm.args.filter isQubitArg).map (showArgR f fmt) = nm.qubitArgs.map fun i => "q[" ++ toString (f i) ++ "]" := by
    obtain ⟨n, args⟩ := nm
    simp only [Named.qubitArgs]
    induction args with
    | nil => rfl
    | cons a as ih => cases a <;> simp_all [isQubitArg, List.filter_cons, showArgR_eq]
  rw [writeStmt_rename]
  simp only [writeStmtG, hp, hq]

example : writeStmt (fun (x : Nat) => "<" ++ toString x ++ ">") (fun _ => "?")
    ((Stmt.gate (.bsr 0 (0, 0, 1) 0 0) (some ⟨"CRk", [.qubit 1, .float 7, .qubit 0, .int (-3)]⟩)).rename
      (fun q => 1000 * q + 7))
    = "CRk(<7>, -3) q[1007], q[7]\n" := by decide

/-- `exportV1Stmt` with the argument printer as a parameter -/
def exportV1StmtG (sh : Arg α → String) : Stmt α → Except Err String
  | .comment s => .ok ("\n/* " ++ s ++ " */\n\n")
  | .measure _ _ _ none => .error .type
  | .measure _ _ _ (some nm) => .ok ("measure_z " ++ sh (nm.args.getD 0 (.int 0)) ++ "\n")
  | .reset _ none => .error .type
  | .reset _ (some nm) => .ok ("prep_z " ++ sh (nm.args.getD 0 (.int 0)) ++ "\n")
  | .gate _ none => .error .unsupported
  | .gate _ (some nm) =>
      let params := (nm.args.filter (!isQubitArg ·)).map sh
      let qs := (nm.args.filter isQubitArg).map sh
      .ok (nm.name.toLower ++ " " ++ ", ".intercalate qs ++
        (if params.isEmpty then "" else ", " ++ ", ".intercalate params) ++ "\n")

theorem exportV1Stmt_eq_G (fmt : α → String) (s : Stmt α) :
    exportV1Stmt fmt s = exportV1StmtG (showArg fmt) s := by
  cases s with
  | gate g nm => cases nm <;> rfl
  | measure q b ax nm => cases nm <;> rfl
  | reset q nm => cases nm <;> rfl
  | comment c => rfl

/-- **`exportV1Stmt_rename`**: the same for the cQASM 1 exporter, errors included -/
theorem exportV1Stmt_rename (f : Int → Int) (fmt : α → String) (s : Stmt α) :
    exportV1Stmt fmt (s.rename f) = exportV1StmtG (showArgR f fmt) s := by
  cases s with
  | gate g nm =>
    cases nm with
    | none => rfl
    | some nm =>
      simp only [Stmt.rename, Option.map_some, exportV1Stmt, exportV1StmtG, Named.rename, (filter_rename f _ _).1,
        (filter_rename f _ _).2]
      rfl
  | measure q b ax nm =>
    cases nm with
    | none => rfl
    | some nm => simp only [Stmt.rename, Option.map_some, exportV1Stmt, exportV1StmtG, Named.rename, getD_rename]; rfl
  | reset q nm =>
    cases nm with
    | none => rfl
    | some nm => simp only [Stmt.rename, Option.map_some, exportV1Stmt, exportV1StmtG, Named.rename, getD_rename]; rfl
  | comment c => rfl

example (fmt : α → String) (ax : Vec3 α) :
    exportV1Stmt fmt ((Stmt.measure 3 0 ax (some ⟨"measure", [.qubit 3, .bit 0]⟩)).rename (fun q => 1000 * q + 7))
      = .ok "measure_z q[3007]\n" := by
  rw [exportV1Stmt_rename]; simp only [exportV1StmtG, showArgR_eq, List.getD_cons_zero]; congr 1

/-- whole-circuit form: the written text of the renamed circuit on a register of `n'` qubits -/
theorem writeCircuit_rename (f : Int → Int) (fmt : α → String) (anon : Gate α → String) (c : Circuit α) (n' : Nat) :
    writeCircuit fmt anon ⟨n', c.nBits, c.stmts.map (Stmt.rename f)⟩ =
      rstripNl ("version 3.0\n\nqubit[" ++ toString n' ++ "] q\n" ++
        (if c.nBits > 0 then "bit[" ++ toString c.nBits ++ "] b\n\n" else "\n") ++
        String.join (c.stmts.map (writeStmtG (showArgR f fmt) (fun g => anon (g.rename f))))) ++ "\n" := by
  simp only [writeCircuit, List.map_map, Function.comp_def, writeStmt_rename]

theorem exportV1_rename (f : Int → Int) (fmt : α → String) (c : Circuit α) (n' : Nat) :
    exportV1 fmt ⟨n', c.nBits, c.stmts.map (Stmt.rename f)⟩ =
      (c.stmts.mapM (exportV1StmtG (showArgR f fmt))).map fun lines =>
        rstripNl ("version 1.0\n\n" ++ (if n' > 0 then "qubits " ++ toString n' else "") ++ "\n\n" ++
          String.join lines) ++ "\n" := by
  simp only [exportV1, mapM_map, exportV1Stmt_rename]
  cases c.stmts.mapM (exportV1StmtG (showArgR f fmt)) <;> rfl

end OSq

#print axioms OSq.reindexGate_rename
#print axioms OSq.localMatrix_rename
#print axioms OSq.checkGateReplacement_rename
#print axioms OSq.compareGates_rename
#print axioms OSq.GExpr.eval_rename
#print axioms OSq.callGate_rename
#print axioms OSq.callGate_rename_needs_bindSafe
#print axioms OSq.named_rename
#print axioms OSq.composeRot_rename
#print axioms OSq.decomposer_rename
#print axioms OSq.decompose_rename
#print axioms OSq.pass_decompose_rename
#print axioms OSq.model_deterministic
#print axioms OSq.writeStmt_rename
#print axioms OSq.writeStmt_rename_gate_form
#print axioms OSq.exportV1Stmt_rename
#print axioms OSq.writeCircuit_rename
#print axioms OSq.exportV1_rename
