import Batteries.Data.String.Lemmas
import OSq.Model.Text
/-
  OSq.Proofs.SplitOn — what `String.splitOn` computes, for the two places where the model uses it:
  `containsSub` (`OSq/Model/IR.lean`, the `"*/" in comment` test of `Comment.__post_init__`) and `fixExponent`
  (`OSq/Model/Text.lean`, `text.partition("e")` in `visit_float`).  `String.splitOn` is implemented by the
  well-founded byte-position loop `String.splitOnAux`, which `decide` cannot evaluate; the lemmas below relate
  it to lists of characters using Batteries' valid-position lemmas (`Batteries.Data.String.Lemmas`).
  Helper file for `OSq/Proofs/Writer.lean` (property C04 "comments safe") and `OSq/Proofs/FloatFmt.lean`.

  Theorems
  * `splitOn_char`      for a one-character separator, `s.splitOn sep = (s.toList.splitOn c).map String.ofList`.
  * `splitLenSpec_all`  invariant of the general search loop: it returns more than one piece iff the separator
                        occurs in the unread part of the text.
  * `containsSub_iff`   `containsSub s sub = true ↔ sub ≠ "" ∧ sub.toList <:+: s.toList` (contiguous occurrence);
    `containsSub_eq_false_iff`.
  * `mkComment_ok_iff_no_terminator`   a comment is accepted iff its text does not contain `*/`;
    `mkComment_error_iff_terminator`   and refused with `ValueError` iff it does.
  * `comment_safe`      in the text written for an accepted comment, `"\n/* " ++ s ++ " */\n\n"`, the terminator
                        `*/` occurs only at the very end of the comment (no occurrence in `"\n/* " ++ s ++ " *"`).
  * `infix_pair_iff`    executable test for an occurrence of a two-character block (used in the examples).
-/

namespace OSq
open String

theorem splitOnAux_char (c : Char) (pre cur rest : List Char) (acc : List String) :
    splitOnAux (ofList (pre ++ cur ++ rest)) (ofList [c]) ⟨utf8Len pre⟩ ⟨utf8Len pre + utf8Len cur⟩ 0 acc =
      acc.reverse ++ (List.splitOnPPrepend (· == c) rest cur.reverse).map ofList := by
  induction rest generalizing pre cur acc with
  | nil =>
    rw [String.splitOnAux.eq_1]
    have h1 : Pos.Raw.atEnd (ofList (pre ++ cur ++ [])) ⟨utf8Len pre + utf8Len cur⟩ = true := by
      have := (atEnd_of_valid (pre ++ cur) []).2 rfl
      simpa [utf8Len_append] using this
    rw [if_pos h1]
    rw [extract_of_valid pre cur []]
    simp
  | cons d rest ih =>
    rw [String.splitOnAux.eq_1]
    have h1 : ¬ Pos.Raw.atEnd (ofList (pre ++ cur ++ d :: rest)) ⟨utf8Len pre + utf8Len cur⟩ = true := by
      have := mt (atEnd_of_valid (pre ++ cur) (d :: rest)).1 (by simp)
      simpa [utf8Len_append] using this
    rw [if_neg h1]
    have hget : Pos.Raw.get (ofList (pre ++ cur ++ d :: rest)) ⟨utf8Len pre + utf8Len cur⟩ = d := by
      have := get_of_valid (pre ++ cur) (d :: rest)
      simpa [utf8Len_append] using this
    have hgetc : Pos.Raw.get (ofList [c]) 0 = c := by
      have := get_of_valid [] [c]
      simpa using this
    have hnext : Pos.Raw.next (ofList (pre ++ cur ++ d :: rest)) ⟨utf8Len pre + utf8Len cur⟩
        = ⟨utf8Len pre + utf8Len cur + d.utf8Size⟩ := by
      have := next_of_valid (pre ++ cur) d rest
      simpa [utf8Len_append] using this
    have hnextc : Pos.Raw.next (ofList [c]) 0 = ⟨c.utf8Size⟩ := by
      have := next_of_valid [] c []
      simpa using this
    rw [hget, hgetc]
    by_cases hdc : (d == c) = true
    · rw [if_pos hdc]
      simp only [hnext, hnextc]
      have hend : Pos.Raw.atEnd (ofList [c]) ⟨c.utf8Size⟩ = true := by
        have := (atEnd_of_valid [c] []).2 rfl
        simpa using this
      rw [if_pos hend]
      have hd : d = c := by simpa using hdc
      subst hd
      have hext : Pos.Raw.extract (ofList (pre ++ cur ++ d :: rest)) ⟨utf8Len pre⟩
          (Pos.Raw.unoffsetBy ⟨utf8Len pre + utf8Len cur + d.utf8Size⟩ ⟨d.utf8Size⟩) = ofList cur := by
        have := extract_of_valid pre cur (d :: rest)
        simpa [Pos.Raw.unoffsetBy] using this
      rw [hext]
      have := ih (pre ++ cur ++ [d]) [] (ofList cur :: acc)
      simp only [List.append_assoc, List.singleton_append, List.append_nil, utf8Len_append, utf8Len_cons,
        utf8Len_nil, Nat.zero_add, Nat.add_zero, List.reverse_nil, List.reverse_cons, Nat.add_assoc] at this ⊢
      rw [this, List.splitOnPPrepend_cons_pos (by simp)]
      simp
    · rw [if_neg hdc]
      have hun : Pos.Raw.unoffsetBy ⟨utf8Len pre + utf8Len cur⟩ 0 = ⟨utf8Len pre + utf8Len cur⟩ := by
        simp [Pos.Raw.unoffsetBy]
      rw [hun, hnext]
      have := ih pre (cur ++ [d]) acc
      simp only [List.append_assoc, List.singleton_append, utf8Len_append, utf8Len_cons,
        utf8Len_nil, Nat.zero_add, Nat.add_assoc, List.reverse_append, List.reverse_cons, List.reverse_nil,
        List.nil_append] at this ⊢
      rw [this, List.splitOnPPrepend_cons_neg (by simpa using hdc)]

/-- `String.splitOn` with a one-character separator is `List.splitOn` on the characters. -/
theorem splitOn_char (s sep : String) (c : Char) (hsep : sep.toList = [c]) :
    s.splitOn sep = (s.toList.splitOn c).map ofList := by
  have hsep' : sep = ofList [c] := by rw [← hsep, String.ofList_toList]
  have hne : (sep == "") = false := by
    rw [beq_eq_false_iff_ne]; intro h; rw [h] at hsep; simp at hsep
  have := splitOnAux_char c [] [] s.toList []
  simp only [List.nil_append, String.ofList_toList, utf8Len_nil, Nat.add_zero, List.reverse_nil] at this
  rw [String.splitOn, hne, hsep']
  simpa [List.splitOn] using this

example : "1e-05".splitOn "e" = ["1", "-05"] := by
  rw [splitOn_char _ _ 'e' rfl]; decide

/-! ### General separator: the number of pieces exceeds one iff the separator occurs -/

/-- the search state: `done ++ mat ++ rest` is the text, `mat` (already matched) `++ srest` the separator -/
def SplitLenSpec (done mat rest srest : List Char) (b : Pos.Raw) (acc : List String) : Prop :=
    acc.length + 1 ≤ (splitOnAux (ofList (done ++ mat ++ rest)) (ofList (mat ++ srest)) b
        ⟨utf8Len done + utf8Len mat⟩ ⟨utf8Len mat⟩ acc).length ∧
    (acc.length + 1 < (splitOnAux (ofList (done ++ mat ++ rest)) (ofList (mat ++ srest)) b
        ⟨utf8Len done + utf8Len mat⟩ ⟨utf8Len mat⟩ acc).length ↔ (mat ++ srest) <:+: (mat ++ rest))

theorem splitLenSpec_step (done mat rest srest : List Char) (b : Pos.Raw) (acc : List String) (hs : srest ≠ [])
    (ihTot : ∀ done' mat' rest' srest' b' acc', mat'.length + rest'.length < mat.length + rest.length →
      srest' ≠ [] → SplitLenSpec done' mat' rest' srest' b' acc')
    (ihS : ∀ done' mat' rest' srest' b' acc', mat'.length + rest'.length = mat.length + rest.length →
      srest'.length < srest.length → srest' ≠ [] → SplitLenSpec done' mat' rest' srest' b' acc') :
    SplitLenSpec done mat rest srest b acc := by
  unfold SplitLenSpec
  rw [String.splitOnAux.eq_1]
  have h0 : (⟨0⟩ : Pos.Raw) = 0 := rfl
  obtain ⟨e, srest', rfl⟩ := List.exists_cons_of_ne_nil hs
  cases rest with
  | nil =>
    have h1 : Pos.Raw.atEnd (ofList (done ++ mat ++ [])) ⟨utf8Len done + utf8Len mat⟩ = true := by
      have := (atEnd_of_valid (done ++ mat) []).2 rfl
      simpa [utf8Len_append] using this
    rw [if_pos h1]
    refine ⟨by simp, ?_⟩
    constructor
    · intro h; simp at h
    · intro h; have := h.length_le; simp at this; omega
  | cons d rest' =>
    have h1 : ¬ Pos.Raw.atEnd (ofList (done ++ mat ++ d :: rest')) ⟨utf8Len done + utf8Len mat⟩ = true := by
      have := mt (atEnd_of_valid (done ++ mat) (d :: rest')).1 (by simp)
      simpa [utf8Len_append] using this
    rw [if_neg h1]
    have hget : Pos.Raw.get (ofList (done ++ mat ++ d :: rest')) ⟨utf8Len done + utf8Len mat⟩ = d := by
      have := get_of_valid (done ++ mat) (d :: rest')
      simpa [utf8Len_append] using this
    have hgetc : Pos.Raw.get (ofList (mat ++ e :: srest')) ⟨utf8Len mat⟩ = e := by
      have := get_of_valid mat (e :: srest')
      simpa using this
    have hnext : Pos.Raw.next (ofList (done ++ mat ++ d :: rest')) ⟨utf8Len done + utf8Len mat⟩
        = ⟨utf8Len done + utf8Len mat + d.utf8Size⟩ := by
      have := next_of_valid (done ++ mat) d rest'
      simpa [utf8Len_append] using this
    have hnextc : Pos.Raw.next (ofList (mat ++ e :: srest')) ⟨utf8Len mat⟩ = ⟨utf8Len mat + e.utf8Size⟩ :=
      next_of_valid mat e srest'
    rw [hget, hgetc]
    by_cases hde : (d == e) = true
    · rw [if_pos hde]
      have hd : d = e := by simpa using hde
      subst hd
      simp only [hnext, hnextc]
      by_cases hsr : srest' = []
      · subst hsr
        have hend : Pos.Raw.atEnd (ofList (mat ++ [d])) ⟨utf8Len mat + d.utf8Size⟩ = true := by
          have := (atEnd_of_valid (mat ++ [d]) []).2 rfl
          simpa [utf8Len_append] using this
        rw [if_pos hend]
        have ih := ihTot (done ++ mat ++ [d]) [] rest' (mat ++ [d])
          ⟨utf8Len done + utf8Len mat + d.utf8Size⟩
          (Pos.Raw.extract (ofList (done ++ mat ++ d :: rest')) b
            (Pos.Raw.unoffsetBy ⟨utf8Len done + utf8Len mat + d.utf8Size⟩ ⟨utf8Len mat + d.utf8Size⟩) :: acc)
          (by simp; omega) (by simp)
        unfold SplitLenSpec at ih
        simp only [List.append_assoc, List.singleton_append, List.append_nil, List.nil_append, utf8Len_append,
          utf8Len_cons, utf8Len_nil, Nat.zero_add, Nat.add_zero, List.length_cons, Nat.add_assoc] at ih ⊢
        rw [h0] at ih
        refine ⟨by omega, ?_⟩
        constructor
        · intro _; exact ⟨[], rest', by simp⟩
        · intro _; omega
      · have hend : ¬ Pos.Raw.atEnd (ofList (mat ++ d :: srest')) ⟨utf8Len mat + d.utf8Size⟩ = true := by
          have := mt (atEnd_of_valid (mat ++ [d]) srest').1 hsr
          simpa [utf8Len_append] using this
        rw [if_neg hend]
        have ih := ihS done (mat ++ [d]) rest' srest' b acc (by simp; omega) (by simp) hsr
        unfold SplitLenSpec at ih
        simpa only [List.append_assoc, List.singleton_append, utf8Len_append, utf8Len_cons, utf8Len_nil,
          Nat.zero_add, Nat.add_assoc] using ih
    · rw [if_neg hde]
      have hne : d ≠ e := by simpa using hde
      have hun : Pos.Raw.unoffsetBy ⟨utf8Len done + utf8Len mat⟩ ⟨utf8Len mat⟩ = ⟨utf8Len done⟩ := by
        simp [Pos.Raw.unoffsetBy]
      rw [hun]
      have hnotpre : ¬ (mat ++ e :: srest') <+: (mat ++ d :: rest') := by
        intro h
        rw [List.prefix_append_right_inj, List.cons_prefix_cons] at h
        exact hne h.1.symm
      cases mat with
      | nil =>
        have hn : Pos.Raw.next (ofList (done ++ [] ++ d :: rest')) ⟨utf8Len done⟩ = ⟨utf8Len done + d.utf8Size⟩ := by
          simpa using next_of_valid done d rest'
        rw [hn]
        have ih := ihTot (done ++ [d]) [] rest' (e :: srest') b acc (by simp) (by simp)
        unfold SplitLenSpec at ih
        simp only [List.append_assoc, List.singleton_append, List.append_nil, List.nil_append, utf8Len_append,
          utf8Len_cons, utf8Len_nil, Nat.zero_add, Nat.add_zero] at ih ⊢
        rw [h0] at ih
        refine ⟨ih.1, ih.2.trans ?_⟩
        rw [List.infix_cons_iff]
        constructor
        · exact Or.inr
        · rintro (h | h)
          · exact absurd h (by simpa using hnotpre)
          · exact h
      | cons m mat' =>
        have hn : Pos.Raw.next (ofList (done ++ (m :: mat') ++ d :: rest')) ⟨utf8Len done⟩
            = ⟨utf8Len done + m.utf8Size⟩ := by
          simpa using next_of_valid done m (mat' ++ d :: rest')
        rw [hn]
        have ih := ihTot (done ++ [m]) [] (mat' ++ d :: rest') (m :: mat' ++ e :: srest') b acc (by simp) (by simp)
        unfold SplitLenSpec at ih
        simp only [List.append_assoc, List.append_nil, List.nil_append, utf8Len_append,
          utf8Len_cons, utf8Len_nil, Nat.zero_add, Nat.add_zero, List.cons_append] at ih ⊢
        rw [h0] at ih
        refine ⟨ih.1, ih.2.trans ?_⟩
        rw [List.infix_cons_iff (a := m)]
        constructor
        · exact Or.inr
        · rintro (h | h)
          · exact absurd h (by simpa using hnotpre)
          · exact h

theorem splitLenSpec_all (N : Nat) : ∀ (k : Nat) (done mat rest srest : List Char) (b : Pos.Raw) (acc : List String),
    mat.length + rest.length = N → srest.length = k → srest ≠ [] → SplitLenSpec done mat rest srest b acc := by
  induction N using Nat.strongRecOn with
  | _ N ihN =>
    intro k
    induction k using Nat.strongRecOn with
    | _ k ihk =>
      intro done mat rest srest b acc hN hk hs
      apply splitLenSpec_step done mat rest srest b acc hs
      · intro done' mat' rest' srest' b' acc' hlt hs'
        exact ihN _ (by omega) _ done' mat' rest' srest' b' acc' rfl rfl hs'
      · intro done' mat' rest' srest' b' acc' heq hlt hs'
        exact ihk _ (by omega) done' mat' rest' srest' b' acc' (by omega) rfl hs'


/-- `containsSub s sub` (defined through `String.splitOn`) holds iff `sub` is non-empty and occurs in `s`
    as a contiguous block of characters. -/
theorem containsSub_iff (s sub : String) : containsSub s sub = true ↔ sub ≠ "" ∧ sub.toList <:+: s.toList := by
  unfold containsSub String.splitOn
  by_cases he : sub = ""
  · subst he; simp
  · have hne : (sub == "") = false := by rw [beq_eq_false_iff_ne]; exact he
    have hl : sub.toList ≠ [] := by
      intro h; apply he; rw [← String.ofList_toList (s := sub), h]
    have := splitLenSpec_all _ _ [] [] s.toList sub.toList 0 [] rfl rfl hl
    unfold SplitLenSpec at this
    simp only [List.nil_append, String.ofList_toList, utf8Len_nil, Nat.add_zero, List.length_nil, Nat.zero_add] at this
    have h0 : (⟨0⟩ : Pos.Raw) = 0 := rfl
    rw [h0] at this
    simp only [hne, Bool.false_eq_true, if_false, gt_iff_lt, decide_eq_true_eq, this.2, ne_eq, he,
      not_false_eq_true, true_and]

theorem containsSub_eq_false_iff (s sub : String) (h : sub ≠ "") :
    containsSub s sub = false ↔ ¬ sub.toList <:+: s.toList := by
  rw [← Bool.not_eq_true, containsSub_iff]; simp [h]

/-! ### Comments are safe (C04) -/
variable {α : Type}

/-- A comment is accepted iff its text does not contain the comment terminator. -/
theorem mkComment_ok_iff_no_terminator (s : String) :
    (mkComment s : Except Err (Stmt α)) = .ok (.comment s) ↔ ¬ ['*', '/'] <:+: s.toList := by
  unfold mkComment
  have := containsSub_eq_false_iff s "*/" (by decide)
  cases h : containsSub s "*/"
  · simpa [h] using this
  · have h2 : ¬ containsSub s "*/" = false := by simp [h]
    rw [this] at h2
    simpa using h2

theorem mkComment_error_iff_terminator (s : String) :
    (mkComment s : Except Err (Stmt α)) = .error .value ↔ ['*', '/'] <:+: s.toList := by
  unfold mkComment
  have := containsSub_iff s "*/"
  cases h : containsSub s "*/"
  · have h2 : ¬ containsSub s "*/" = true := by simp [h]
    rw [this] at h2
    simpa using h2
  · have := this.1 h
    simpa using this.2

private theorem term_infix_tail (t : List Char) (h : ['*', '/'] <:+: t ++ [' ', '*']) : ['*', '/'] <:+: t := by
  induction t with
  | nil => exact absurd h (by decide)
  | cons x t ih =>
    rw [List.cons_append, List.infix_cons_iff] at h
    rcases h with h | h
    · rw [List.cons_prefix_cons] at h
      obtain ⟨rfl, h⟩ := h
      cases t with
      | nil => exact absurd h (by decide)
      | cons y t =>
        rw [List.cons_append, List.cons_prefix_cons] at h
        obtain ⟨rfl, _⟩ := h
        exact ⟨[], t, rfl⟩
    · exact List.infix_cons (ih h)

/-- The comment written by `writeStmt` / `exportV1Stmt` for an accepted comment text contains the terminator
    `*/` only as its last two non-blank characters: there is no occurrence in `"\n/* " ++ s ++ " *"`, the
    output without its final `"/\n\n"`.  Hence a comment can never end early and smuggle statements into
    the written program. -/
theorem comment_safe (s : String) (h : (mkComment s : Except Err (Stmt α)) = .ok (.comment s)) :
    ¬ ['*', '/'] <:+: ("\n/* " ++ s ++ " *").toList := by
  rw [mkComment_ok_iff_no_terminator] at h
  intro hi
  apply h
  apply term_infix_tail
  have e : ("\n/* " ++ s ++ " *").toList = '\n' :: '/' :: '*' :: ' ' :: (s.toList ++ [' ', '*']) := by
    simp [String.toList_append]
  rw [e] at hi
  rw [List.infix_cons_iff] at hi
  rcases hi with hi | hi
  · exact absurd hi (by simp [List.cons_prefix_cons])
  rw [List.infix_cons_iff] at hi
  rcases hi with hi | hi
  · exact absurd hi (by simp [List.cons_prefix_cons])
  rw [List.infix_cons_iff] at hi
  rcases hi with hi | hi
  · exact absurd hi (by simp [List.cons_prefix_cons])
  rw [List.infix_cons_iff] at hi
  rcases hi with hi | hi
  · exact absurd hi (by simp [List.cons_prefix_cons])
  exact hi

/-- executable test for an occurrence of the two-character block `a b` -/
def hasPair (a b : Char) : List Char → Bool
  | x :: y :: t => (x == a && y == b) || hasPair a b (y :: t)
  | _ => false

theorem infix_pair_iff (a b : Char) (l : List Char) : [a, b] <:+: l ↔ hasPair a b l = true := by
  induction l with
  | nil => simp [hasPair]
  | cons x t ih =>
    rw [List.infix_cons_iff, ih]
    cases t with
    | nil => simp [hasPair, List.cons_prefix_cons]
    | cons y t =>
      simp only [hasPair, List.cons_prefix_cons, List.nil_prefix, and_true, Bool.or_eq_true, Bool.and_eq_true,
        beq_iff_eq]
      constructor
      · rintro (⟨rfl, rfl⟩ | h)
        · exact Or.inl ⟨rfl, rfl⟩
        · exact Or.inr h
      · rintro (⟨rfl, rfl⟩ | h)
        · exact Or.inl ⟨rfl, rfl⟩
        · exact Or.inr h

-- non-vacuity
example : (mkComment "a comment" : Except Err (Stmt Nat)) = .ok (.comment "a comment") :=
  (mkComment_ok_iff_no_terminator _).2 (by rw [infix_pair_iff]; decide)
example : (mkComment "evil */ X q[0] /*" : Except Err (Stmt Nat)) = .error .value :=
  (mkComment_error_iff_terminator _).2 (by rw [infix_pair_iff]; decide)
example : containsSub "a comment" "*/" = false :=
  (containsSub_eq_false_iff _ _ (by decide)).2 (by rw [show "*/".toList = ['*', '/'] from rfl, infix_pair_iff]; decide)
example : containsSub "evil */ X q[0] /*" "*/" = true :=
  (containsSub_iff _ _).2 ⟨by decide, by rw [show "*/".toList = ['*', '/'] from rfl, infix_pair_iff]; decide⟩
example : ¬ ['*', '/'] <:+: ("\n/* " ++ "a comment" ++ " *").toList :=
  comment_safe (α := Nat) "a comment" ((mkComment_ok_iff_no_terminator _).2 (by rw [infix_pair_iff]; decide))

end OSq

#print axioms OSq.splitOn_char
#print axioms OSq.containsSub_iff
#print axioms OSq.mkComment_ok_iff_no_terminator
#print axioms OSq.mkComment_error_iff_terminator
#print axioms OSq.comment_safe
