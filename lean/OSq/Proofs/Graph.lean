import OSq.Model.Mapping
/-
  OSq.Proofs.Graph — structural theorems about `interactionGraph` / `insertEdge`
  (`OSq/Model/Mapping.lean`, Python `mapper/utils.py: make_interaction_graph`).
  Core Lean only; valid for every scalar type `α` (no `[Scalar α]` needed).

  Theorems
  * `operands_ne_nil`      a shape-correct gate (`Gate.shapeOk`) has at least one operand
                           (for *raw* values `Gate.matrix m []` has none; nothing below needs it).
  * `mem_insertEdge`       membership in `insertEdge e es`: old edges plus the normalised pair.
  * `nodup_insertEdge`     `insertEdge` preserves `Nodup`.
  * `graph_ok_iff`         the graph is produced iff every gate has at most two operands.
  * `graph_refuses`        some gate with ≥ 3 operands ⇒ result is `.error .value`.
  * `graph_error_value`    the only error the function can produce is `.value`.
  * `graph_edge_iff`       `(a,b)` is an edge iff `a ≤ b` and some gate has operands `[a,b]` or `[b,a]`.
  * `graph_nodup`          the edge list has no duplicates.
  * `graph_filter`         dropping any set of non-gates / gates with ≤ 1 operand does not change the result.
  * `graph_ignores`        … in particular for `keep` = "gate whose operand count is not 1".
  * `graph_ignores'`       … and for `keep` = "gate with at least two operands".
-/
namespace OSq
variable {α : Type}

/-- one step of the fold in `interactionGraph` -/
def graphStep (es : List (Int × Int)) (s : Stmt α) : Except Err (List (Int × Int)) :=
  match s with
  | .gate g _ =>
    match g.operands with
    | [_] => pure es
    | [a, b] => pure (insertEdge (a, b) es)
    | [] => pure es
    | _ => throw .value
  | _ => pure es

theorem interactionGraph_eq (stmts : List (Stmt α)) :
    interactionGraph stmts = stmts.foldlM graphStep [] := rfl

/-- `Gate.operands` is non-empty for every gate that passes the structural shape check
    (in particular for everything built by `mkBSR`/`mkMatrix`/`mkCtrl`). -/
theorem operands_ne_nil (g : Gate α) (h : g.shapeOk = true) : g.operands ≠ [] := by
  induction g with
  | bsr q ax an ph => simp [Gate.operands]
  | matrix m ops =>
    simp only [Gate.shapeOk, Bool.and_eq_true, decide_eq_true_eq] at h
    intro h0; simp only [Gate.operands] at h0; subst h0
    have := h.1.1; simp at this
  | ctrl c g _ => simp [Gate.operands]

/-! ### `insertEdge` -/

/-- the stored orientation of an edge -/
def normEdge (e : Int × Int) : Int × Int := if e.1 ≤ e.2 then e else (e.2, e.1)

theorem insertEdge_eq (e : Int × Int) (es : List (Int × Int)) :
    insertEdge e es = if normEdge e ∈ es then es else es ++ [normEdge e] := by
  simp only [insertEdge, normEdge, List.contains_iff_mem]
  split <;> rfl

theorem mem_insertEdge (p e : Int × Int) (es : List (Int × Int)) :
    p ∈ insertEdge e es ↔ p ∈ es ∨ p = normEdge e := by
  rw [insertEdge_eq]
  split
  · constructor
    · exact Or.inl
    · rintro (h | h)
      · exact h
      · subst h; assumption
  · simp

theorem nodup_insertEdge (e : Int × Int) (es : List (Int × Int)) (h : es.Nodup) :
    (insertEdge e es).Nodup := by
  rw [insertEdge_eq]
  split
  · exact h
  · rename_i hn
    rw [List.nodup_append]
    refine ⟨h, by simp, ?_⟩
    intro a ha b hb
    simp only [List.mem_singleton] at hb
    subst hb
    intro hab; subst hab; exact hn ha

theorem normEdge_eq_iff (a b x y : Int) :
    (a, b) = normEdge (x, y) ↔ a ≤ b ∧ (([x, y] : List Int) = [a, b] ∨ [x, y] = [b, a]) := by
  simp only [normEdge]
  split
  · rename_i h
    simp only [Prod.mk.injEq, List.cons.injEq, and_true]
    constructor
    · rintro ⟨rfl, rfl⟩; exact ⟨h, Or.inl ⟨rfl, rfl⟩⟩
    · rintro ⟨hab, (⟨rfl, rfl⟩ | ⟨rfl, rfl⟩)⟩
      · exact ⟨rfl, rfl⟩
      · exact ⟨by omega, by omega⟩
  · rename_i h
    simp only [Prod.mk.injEq, List.cons.injEq, and_true]
    constructor
    · rintro ⟨rfl, rfl⟩; exact ⟨by omega, Or.inr ⟨rfl, rfl⟩⟩
    · rintro ⟨hab, (⟨rfl, rfl⟩ | ⟨rfl, rfl⟩)⟩
      · exact absurd hab h
      · exact ⟨rfl, rfl⟩

/-! ### the step function -/

theorem graphStep_nongate (es : List (Int × Int)) (s : Stmt α) (h : s.isGate = false) :
    graphStep es s = .ok es := by
  cases s <;> simp_all [graphStep, Stmt.isGate, pure, Except.pure]

theorem graphStep_le_one (es : List (Int × Int)) (g : Gate α) (nm : Option (Named α))
    (h : g.operands.length ≤ 1) : graphStep es (.gate g nm) = .ok es := by
  simp only [graphStep]
  split <;> first | rfl | (rename_i h'; rw [h'] at h; simp at h) | skip
  rename_i h0 h1 h2
  match hops : g.operands, h with
  | [], _ => exact absurd hops h2
  | [x], _ => exact absurd hops (h0 x)

theorem graphStep_two (es : List (Int × Int)) (g : Gate α) (nm : Option (Named α)) (a b : Int)
    (h : g.operands = [a, b]) : graphStep es (.gate g nm) = .ok (insertEdge (a, b) es) := by
  simp only [graphStep, h]; rfl

theorem graphStep_ge_three (es : List (Int × Int)) (g : Gate α) (nm : Option (Named α))
    (h : 3 ≤ g.operands.length) : graphStep es (.gate g nm) = .error .value := by
  simp only [graphStep]
  split <;> first | rfl | (rename_i h'; rw [h'] at h; simp at h)

/-! ### the fold, from an arbitrary accumulator -/

theorem foldlM_cons_ok (es es1 : List (Int × Int)) (s : Stmt α) (rest : List (Stmt α))
    (h : graphStep es s = .ok es1) :
    (s :: rest).foldlM graphStep es = rest.foldlM graphStep es1 := by
  simp only [List.foldlM_cons, h, bind, Except.bind]

theorem foldlM_cons_err (es : List (Int × Int)) (s : Stmt α) (rest : List (Stmt α)) (e : Err)
    (h : graphStep es s = .error e) :
    (s :: rest).foldlM graphStep es = .error e := by
  simp only [List.foldlM_cons, h, bind, Except.bind]

/-- complete case analysis of one step -/
theorem graphStep_cases (es : List (Int × Int)) (s : Stmt α) :
    (graphStep es s = .ok es ∧ (s.isGate = false ∨ ∃ g nm, s = .gate g nm ∧ g.operands.length ≤ 1)) ∨
    (∃ g nm a b, s = .gate g nm ∧ g.operands = [a, b] ∧ graphStep es s = .ok (insertEdge (a, b) es)) ∨
    (∃ g nm, s = .gate g nm ∧ 3 ≤ g.operands.length ∧ graphStep es s = .error .value) := by
  cases hs : s with
  | gate g nm =>
    match hops : g.operands with
    | [] => exact Or.inl ⟨graphStep_le_one es g nm (by simp [hops]), Or.inr ⟨g, nm, rfl, by simp [hops]⟩⟩
    | [x] => exact Or.inl ⟨graphStep_le_one es g nm (by simp [hops]), Or.inr ⟨g, nm, rfl, by simp [hops]⟩⟩
    | [a, b] => exact Or.inr (Or.inl ⟨g, nm, a, b, rfl, hops, graphStep_two es g nm a b hops⟩)
    | a :: b :: c :: r =>
      exact Or.inr (Or.inr ⟨g, nm, rfl, by simp [hops], graphStep_ge_three es g nm (by simp [hops])⟩)
  | measure q b ax nm => exact Or.inl ⟨rfl, Or.inl rfl⟩
  | reset q nm => exact Or.inl ⟨rfl, Or.inl rfl⟩
  | comment c => exact Or.inl ⟨rfl, Or.inl rfl⟩

theorem fold_ok_iff (stmts : List (Stmt α)) (es : List (Int × Int)) :
    (∃ es', stmts.foldlM graphStep es = .ok es') ↔
      ∀ g nm, Stmt.gate g nm ∈ stmts → g.operands.length ≤ 2 := by
  induction stmts generalizing es with
  | nil => simp [pure, Except.pure]
  | cons s rest ih =>
    rcases graphStep_cases es s with ⟨h, hk⟩ | ⟨g, nm, a, b, rfl, hops, h⟩ | ⟨g, nm, rfl, h3, h⟩
    · rw [foldlM_cons_ok _ _ _ _ h, ih]
      constructor
      · intro H g nm hm
        rcases List.mem_cons.1 hm with rfl | hm
        · rcases hk with hk | ⟨g', nm', heq, hl⟩
          · simp [Stmt.isGate] at hk
          · cases heq; omega
        · exact H g nm hm
      · intro H g nm hm; exact H g nm (List.mem_cons_of_mem _ hm)
    · rw [foldlM_cons_ok _ _ _ _ h, ih]
      constructor
      · intro H g' nm' hm
        rcases List.mem_cons.1 hm with heq | hm
        · cases heq; simp [hops]
        · exact H g' nm' hm
      · intro H g nm hm; exact H g nm (List.mem_cons_of_mem _ hm)
    · rw [foldlM_cons_err _ _ _ _ h]
      constructor
      · rintro ⟨es', h'⟩; cases h'
      · intro H; have := H g nm (List.mem_cons_self ..); omega

theorem fold_error_value (stmts : List (Stmt α)) (es : List (Int × Int)) (e : Err)
    (h : stmts.foldlM graphStep es = .error e) : e = .value := by
  induction stmts generalizing es with
  | nil => simp [pure, Except.pure] at h
  | cons s rest ih =>
    rcases graphStep_cases es s with ⟨h1, _⟩ | ⟨g, nm, a, b, rfl, hops, h1⟩ | ⟨g, nm, rfl, h3, h1⟩
    · rw [foldlM_cons_ok _ _ _ _ h1] at h; exact ih _ h
    · rw [foldlM_cons_ok _ _ _ _ h1] at h; exact ih _ h
    · rw [foldlM_cons_err _ _ _ _ h1] at h; cases h; rfl

theorem fold_mem_iff (stmts : List (Stmt α)) (es es' : List (Int × Int))
    (h : stmts.foldlM graphStep es = .ok es') (a b : Int) :
    (a, b) ∈ es' ↔ (a, b) ∈ es ∨
      (a ≤ b ∧ ∃ g nm, Stmt.gate g nm ∈ stmts ∧ (g.operands = [a, b] ∨ g.operands = [b, a])) := by
  induction stmts generalizing es with
  | nil =>
    simp only [List.foldlM_nil, pure, Except.pure, Except.ok.injEq] at h
    subst h; simp
  | cons s rest ih =>
    rcases graphStep_cases es s with ⟨h1, hk⟩ | ⟨g, nm, x, y, rfl, hops, h1⟩ | ⟨g, nm, rfl, h3, h1⟩
    · rw [foldlM_cons_ok _ _ _ _ h1] at h
      rw [ih _ h]
      constructor
      · rintro (h | ⟨hab, g, nm, hm, ho⟩)
        · exact Or.inl h
        · exact Or.inr ⟨hab, g, nm, List.mem_cons_of_mem _ hm, ho⟩
      · rintro (h | ⟨hab, g, nm, hm, ho⟩)
        · exact Or.inl h
        · rcases List.mem_cons.1 hm with rfl | hm
          · rcases hk with hk | ⟨g', nm', heq, hl⟩
            · simp [Stmt.isGate] at hk
            · cases heq
              rcases ho with ho | ho <;> (rw [ho] at hl; simp at hl)
          · exact Or.inr ⟨hab, g, nm, hm, ho⟩
    · rw [foldlM_cons_ok _ _ _ _ h1] at h
      rw [ih _ h, mem_insertEdge, normEdge_eq_iff]
      constructor
      · rintro ((h | ⟨hab, ho⟩) | ⟨hab, g', nm', hm, ho⟩)
        · exact Or.inl h
        · exact Or.inr ⟨hab, g, nm, List.mem_cons_self .., by rw [hops]; exact ho⟩
        · exact Or.inr ⟨hab, g', nm', List.mem_cons_of_mem _ hm, ho⟩
      · rintro (h | ⟨hab, g', nm', hm, ho⟩)
        · exact Or.inl (Or.inl h)
        · rcases List.mem_cons.1 hm with heq | hm
          · cases heq
            exact Or.inl (Or.inr ⟨hab, by rw [← hops]; exact ho⟩)
          · exact Or.inr ⟨hab, g', nm', hm, ho⟩
    · rw [foldlM_cons_err _ _ _ _ h1] at h; cases h

theorem fold_nodup (stmts : List (Stmt α)) (es es' : List (Int × Int))
    (h : stmts.foldlM graphStep es = .ok es') (hn : es.Nodup) : es'.Nodup := by
  induction stmts generalizing es with
  | nil =>
    simp only [List.foldlM_nil, pure, Except.pure, Except.ok.injEq] at h
    subst h; exact hn
  | cons s rest ih =>
    rcases graphStep_cases es s with ⟨h1, _⟩ | ⟨g, nm, x, y, rfl, hops, h1⟩ | ⟨g, nm, rfl, h3, h1⟩
    · rw [foldlM_cons_ok _ _ _ _ h1] at h; exact ih _ h hn
    · rw [foldlM_cons_ok _ _ _ _ h1] at h; exact ih _ h (nodup_insertEdge _ _ hn)
    · rw [foldlM_cons_err _ _ _ _ h1] at h; cases h

theorem fold_filter (keep : Stmt α → Bool) (stmts : List (Stmt α)) (es : List (Int × Int))
    (hk : ∀ s ∈ stmts, keep s = false →
      s.isGate = false ∨ ∃ g nm, s = .gate g nm ∧ g.operands.length ≤ 1) :
    (stmts.filter keep).foldlM graphStep es = stmts.foldlM graphStep es := by
  induction stmts generalizing es with
  | nil => rfl
  | cons s rest ih =>
    have hrest : ∀ s ∈ rest, keep s = false →
        s.isGate = false ∨ ∃ g nm, s = .gate g nm ∧ g.operands.length ≤ 1 :=
      fun x hx => hk x (List.mem_cons_of_mem _ hx)
    cases hks : keep s with
    | true =>
      rw [List.filter_cons_of_pos (by simpa using hks)]
      simp only [List.foldlM_cons]
      congr 1; funext es1; exact ih es1 hrest
    | false =>
      rw [List.filter_cons_of_neg (by simp [hks])]
      have hstep : graphStep es s = .ok es := by
        rcases hk s (List.mem_cons_self ..) hks with h | ⟨g, nm, rfl, hl⟩
        · exact graphStep_nongate es s h
        · exact graphStep_le_one es g nm hl
      rw [foldlM_cons_ok _ _ _ _ hstep]
      exact ih es hrest

/-! ### Main theorems -/

/-- The interaction graph is produced iff every gate has at most two operands. -/
theorem graph_ok_iff (stmts : List (Stmt α)) :
    (∃ es, interactionGraph stmts = .ok es) ↔
      ∀ g nm, Stmt.gate g nm ∈ stmts → g.operands.length ≤ 2 :=
  fold_ok_iff stmts []

/-- The only exception the function can raise is `ValueError`. -/
theorem graph_error_value (stmts : List (Stmt α)) (e : Err)
    (h : interactionGraph stmts = .error e) : e = .value :=
  fold_error_value stmts [] e h

/-- A gate with three or more operands makes the function raise `ValueError`. -/
theorem graph_refuses (stmts : List (Stmt α)) (g : Gate α) (nm : Option (Named α))
    (hm : Stmt.gate g nm ∈ stmts) (h3 : 3 ≤ g.operands.length) :
    interactionGraph stmts = .error .value := by
  cases h : interactionGraph stmts with
  | ok es =>
    have := (graph_ok_iff stmts).1 ⟨es, h⟩ g nm hm
    omega
  | error e => rw [graph_error_value stmts e h]

/-- `(a, b)` is an edge exactly when `a ≤ b` and some gate acts on exactly the two qubits `a`, `b`
    (in either order). -/
theorem graph_edge_iff (stmts : List (Stmt α)) (es : List (Int × Int))
    (h : interactionGraph stmts = .ok es) (a b : Int) :
    (a, b) ∈ es ↔ a ≤ b ∧ ∃ g nm, Stmt.gate g nm ∈ stmts ∧
      (g.operands = [a, b] ∨ g.operands = [b, a]) := by
  have := fold_mem_iff stmts [] es h a b
  simpa using this

/-- No edge is listed twice. -/
theorem graph_nodup (stmts : List (Stmt α)) (es : List (Int × Int))
    (h : interactionGraph stmts = .ok es) : es.Nodup :=
  fold_nodup stmts [] es h List.nodup_nil

/-- General form of `graph_ignores`: any filter that only drops non-gates and gates with at most one
    operand leaves the result (edges, their order, and success/failure) unchanged. -/
theorem graph_filter (keep : Stmt α → Bool) (stmts : List (Stmt α))
    (hk : ∀ s ∈ stmts, keep s = false →
      s.isGate = false ∨ ∃ g nm, s = .gate g nm ∧ g.operands.length ≤ 1) :
    interactionGraph (stmts.filter keep) = interactionGraph stmts :=
  fold_filter keep stmts [] hk

/-- keep exactly the gates whose operand count is not 1 -/
def graphKeep : Stmt α → Bool
  | .gate g _ => g.operands.length != 1
  | _ => false

/-- keep exactly the gates with at least two operands -/
def graphKeep' : Stmt α → Bool
  | .gate g _ => decide (2 ≤ g.operands.length)
  | _ => false

/-- Removing every non-gate statement and every single-qubit gate does not change the result. -/
theorem graph_ignores (stmts : List (Stmt α)) :
    interactionGraph (stmts.filter graphKeep) = interactionGraph stmts := by
  apply graph_filter
  intro s _ hk
  cases s with
  | gate g nm =>
    right; refine ⟨g, nm, rfl, ?_⟩
    simp only [graphKeep, bne_eq_false_iff_eq] at hk; omega
  | _ => left; rfl

theorem graph_ignores' (stmts : List (Stmt α)) :
    interactionGraph (stmts.filter graphKeep') = interactionGraph stmts := by
  apply graph_filter
  intro s _ hk
  cases s with
  | gate g nm =>
    right; refine ⟨g, nm, rfl, ?_⟩
    simp only [graphKeep', decide_eq_false_iff_not] at hk; omega
  | _ => left; rfl

/-! ### Non-vacuity examples (at `α := Unit`; no scalar structure is needed) -/

private def mt : Mat Unit := ⟨0, #[]⟩
private def g1 (q : Int) : Stmt Unit := .gate (.bsr q ((), (), ()) () ()) none
private def g2 (a b : Int) : Stmt Unit := .gate (.ctrl a (.bsr b ((), (), ()) () ())) none
private def g3 (a b c : Int) : Stmt Unit := .gate (.matrix mt [a, b, c]) none
private def prog : List (Stmt Unit) :=
  [g1 0, g2 2 1, .comment "x", g2 1 2, .measure 0 0 ((), (), ()) none, g2 0 3, g1 3, .reset 1 none]

example : interactionGraph prog = .ok [(1, 2), (0, 3)] := rfl
example : ∃ es, interactionGraph prog = .ok es :=
  (graph_ok_iff prog).2 (by
    intro g nm hm
    simp only [prog, g1, g2, List.mem_cons, Stmt.gate.injEq, List.not_mem_nil, or_false,
      reduceCtorEq, false_or, or_false] at hm
    rcases hm with ⟨rfl, _⟩ | ⟨rfl, _⟩ | ⟨rfl, _⟩ | ⟨rfl, _⟩ | ⟨rfl, _⟩ <;> simp [Gate.operands])
example : (1, 2) ∈ [((1 : Int), (2 : Int)), (0, 3)] :=
  (graph_edge_iff prog _ rfl 1 2).2
    ⟨by decide, .ctrl 2 (.bsr 1 ((), (), ()) () ()), none, by simp [prog, g2], Or.inr rfl⟩
example : interactionGraph (prog ++ [g3 0 1 2, g2 5 6]) = .error .value :=
  graph_refuses _ (.matrix mt [0, 1, 2]) none (by simp [prog, g3]) (by simp [Gate.operands])
example : prog.filter graphKeep = [g2 2 1, g2 1 2, g2 0 3] := rfl
example : interactionGraph [g2 2 1, g2 1 2, g2 0 3] = interactionGraph prog :=
  graph_ignores prog

end OSq

#print axioms OSq.graph_ok_iff
#print axioms OSq.graph_refuses
#print axioms OSq.graph_edge_iff
#print axioms OSq.graph_nodup
#print axioms OSq.graph_ignores
#print axioms OSq.graph_ignores'
#print axioms OSq.operands_ne_nil
