import OSq.Model.Passes
/-
  OSq.Proofs.Shape — property C10: the *shape* of what the built-in decomposers emit
  (`abaDecompose`, `mckayDecompose`, `cnotDecompose`, `filterOutIdentities`, `named` of `OSq.Model.Passes`;
  Python `decomposer/aba_decomposer.py`, `mckay_decomposer.py`, `cnot_decomposer.py`, `utils/identity_filter.py`).
  Purely structural: every theorem holds for every scalar type `α` with `[Scalar α]` and every `atol`; the computed
  angles are treated as opaque values.  Core Lean only.

  Generated table, evaluated through `named` (all are `↔`: the call succeeds iff the literal axis normalises):
  * `named_rot_iff` (`named_Rx_iff`, `named_Ry_iff`, `named_Rz_iff`)  `R(q, θ)` is `rotStmt`: the rotation on `q`
        with angle `normalize_angle θ`, phase `normalize_angle 0`, named `R` with arguments `(q, θ)`.
  * `named_X90_iff`, `named_X_iff`, `named_I_iff`   likewise for `X90(q)`, `X(q)`, `I(q)`.
  * `named_CNOT_iff`   `CNOT(c, t)` succeeds iff the axis normalises and `c ≠ t`; it is `.ctrl c (X on t)`.
  * `mkBSR_ok_iff`, `mkCtrl_bsr`   the two constructors involved.

  A-B-A decomposers:
  * `aba_form`      exact output: `filterOutIdentities [A(θ1), B(θ2), A(θ3)]` with `(θ1,θ2,θ3) = abaAngles …`.
  * `aba_shape`     output is a `List.Sublist` of `[a1, b, a2]`, named rotations A, B, A on the input qubit; no identity.
  * `aba_length` (≤ 3), `aba_names` (names in order A,B,A), `aba_all_rot`, `aba_all_named`, `no_identity_aba`.
  * `aba_passthrough`   a gate that is not a `.bsr` is returned unchanged.

  CNOT decomposer (input `.ctrl c (.bsr t …)`):
  * `cnot_form`     exact output: one-CNOT form `filterOutIdentities [Rz t, Ry t, CNOT, Ry t, Rz t, Rz c]` when the guard
                    fires, else the two-CNOT form `filterOutIdentities [Rz t, CNOT, Rz t, Ry t, CNOT, Ry t, Rz t, Rz c]`.
  * `cnot_shape`    `c ≠ t`; output is a sublist of `pre ++ [rzc]`, `rzc` an `Rz` on the control, `pre` ≤ 7 gates that are
                    `CNOT(c,t)` (≤ 2) or `Ry`/`Rz` on the target; no identity.
  * `cnot_elems`, `cnot_names`, `cnot_all_named`, `cnot_count` (≤ 2 CNOTs), `no_identity_cnot`,
    `cnot_length` (≤ 8 — NOT 7: the two-CNOT form has eight members and all can survive the filter; see the
    example at the end of the file and the Python run quoted there).
  * `cnot_passthrough`   every gate that is not `.ctrl c (.bsr …)` is returned unchanged.

  McKay decomposer (input `.bsr q ax an ph`; defs `mckayAngles`, `mckayOpt`, `mckayTail`, `mckayRxAngle`, `optRz`,
  `mckayGeneric` name the pieces):
  * `mckayDecompose_bsr_eq`   closed form of the model's `do` block (join points / mutable `out` unfolded).
  * `mckay_form`    exact output, five cases: native name → `[g]`; `|angle| < atol` → `[]`; z-axis → `[Rz(angle·z)]`;
                    Z-X-Z shortcut → `filter [Rz θ1] ++ X90 :: filter [Rz θ3]`; generic → `mckayGeneric (mckayAngles …)`.
  * `mckay_shape`   every element is a rotation on `q` named `Rz` or `X90`; length ≤ 5; at most two `X90`.
  * `mckayGeneric_shape`  generic path: `Rz`s carry `atol < |parameter|`, exactly two `X90`, ≤ 5 gates.
  * `mckay_all_named`, `no_identity_mckay` (structural part; the ℝ statement is in `OSq.Proofs.ShapeReal`).
  * `mckay_passthrough` (non-rotations), `mckay_passthrough_native` (anything named `Rz`/`X90`), `mckay_null`.

  Examples (namespace `OSq.ShapeExamples`, toy scalar `Toy` = integers with trivial transcendental functions) run each
  decomposer inside the kernel on inputs that reach every branch: 3-gate and filtered A-B-A outputs, the 8-gate and the
  one-CNOT CNOT outputs, the generic and the shortcut McKay outputs, and all pass-through branches.

  All three:
  * `decomposer_operands_subset`   every emitted gate's operands lie in the input gate's operands, it has no repeated
        operand and is shape-correct if the input is (input assumed duplicate-free, for the pass-through branches).
-/
set_option linter.unusedSimpArgs false
set_option linter.unusedSectionVars false

namespace OSq
variable {α : Type} [Scalar α]

/-! ### helpers -/

private theorem bindOk {ε β γ : Type} {x : Except ε β} {f : β → Except ε γ} {c : γ} :
    (x >>= f) = .ok c ↔ ∃ a, x = .ok a ∧ f a = .ok c := by
  cases x <;> simp [bind, Except.bind]

/-! ### the generated table: lookups -/

private theorem find_I : Gen.gateTable.find? (·.name == "I") = some
    { name := "I", params := [("q", Kind.qubit)], body := (GExpr.identity "q") } := rfl
private theorem find_X : Gen.gateTable.find? (·.name == "X") = some
    { name := "X", params := [("q", Kind.qubit)],
      body := (GExpr.bsr "q" 1 0 0 SExpr.pi (SExpr.div SExpr.pi (SExpr.nat 2))) } := rfl
private theorem find_X90 : Gen.gateTable.find? (·.name == "X90") = some
    { name := "X90", params := [("q", Kind.qubit)],
      body := (GExpr.bsr "q" 1 0 0 (SExpr.div SExpr.pi (SExpr.nat 2)) (SExpr.nat 0)) } := rfl
private theorem find_Rx : Gen.gateTable.find? (·.name == "Rx") = some
    { name := "Rx", params := [("q", Kind.qubit), ("theta", Kind.float)],
      body := (GExpr.bsr "q" 1 0 0 (SExpr.fparam "theta") (SExpr.nat 0)) } := rfl
private theorem find_Ry : Gen.gateTable.find? (·.name == "Ry") = some
    { name := "Ry", params := [("q", Kind.qubit), ("theta", Kind.float)],
      body := (GExpr.bsr "q" 0 1 0 (SExpr.fparam "theta") (SExpr.nat 0)) } := rfl
private theorem find_Rz : Gen.gateTable.find? (·.name == "Rz") = some
    { name := "Rz", params := [("q", Kind.qubit), ("theta", Kind.float)],
      body := (GExpr.bsr "q" 0 0 1 (SExpr.fparam "theta") (SExpr.nat 0)) } := rfl
private theorem find_CNOT : Gen.gateTable.find? (·.name == "CNOT") = some
    { name := "CNOT", params := [("control", Kind.qubit), ("target", Kind.qubit)],
      body := (GExpr.ctrl "control" (GExpr.call "X" ["target"])) } := rfl

/-- the literal axis of `Rx` / `Ry` / `Rz` (index 0 / 1 / other) as written in `default_gates.py` -/
def axisLit : Nat → Vec3 α
  | 0 => (intToScalar 1, intToScalar 0, intToScalar 0)
  | 1 => (intToScalar 0, intToScalar 1, intToScalar 0)
  | _ => (intToScalar 0, intToScalar 0, intToScalar 1)

/-- what `R(q, Float(θ))` constructs for a rotation generator called `n` whose literal axis normalises to `ax` -/
def rotStmt (atol : α) (n : String) (q : Int) (ax : Vec3 α) (θ : α) : GStmt α :=
  (.bsr q ax (normalizeAngle atol θ) (normalizeAngle atol (sc 0)), some ⟨n, [.qubit q, .float θ]⟩)

/-- what `X90(q)` constructs -/
def x90Stmt (atol : α) (q : Int) (ax : Vec3 α) : GStmt α :=
  (.bsr q ax (normalizeAngle atol (π / sc 2)) (normalizeAngle atol (sc 0)), some ⟨"X90", [.qubit q]⟩)

/-- what `X(q)` constructs -/
def xStmt (atol : α) (q : Int) (ax : Vec3 α) : GStmt α :=
  (.bsr q ax (normalizeAngle atol π) (normalizeAngle atol (π / sc 2)), some ⟨"X", [.qubit q]⟩)

/-- what `CNOT(c, t)` constructs -/
def cnotStmt (atol : α) (c t : Int) (ax : Vec3 α) : GStmt α :=
  (.ctrl c (.bsr t ax (normalizeAngle atol π) (normalizeAngle atol (π / sc 2))),
    some ⟨"CNOT", [.qubit c, .qubit t]⟩)

theorem mkBSR_ok_iff {atol : α} {q : Int} {v : Vec3 α} {an ph : α} {g : Gate α} :
    mkBSR atol q v an ph = .ok g ↔
      ∃ ax, mkAxis v = .ok ax ∧ g = .bsr q ax (normalizeAngle atol an) (normalizeAngle atol ph) := by
  unfold mkBSR
  cases mkAxis v <;> simp [bind, Except.bind, pure, Except.pure, eq_comm]


private theorem named_via {atol : α} {name : String} {args : List (Arg α)} {d : GateDef} {env : Env α}
    (hf : Gen.gateTable.find? (·.name == name) = some d) (hlen : ¬ args.length > d.params.length)
    (hb : bindArgs d.params args = .ok env) (g : GStmt α) :
    named atol name args = .ok g ↔
      ∃ g', d.body.eval atol Gen.gateTable 8 env [] = .ok g' ∧ g = (g', some ⟨name, env.map (·.2)⟩) := by
  simp only [named, callGate, hf, hlen, if_false, hb, bind, Except.bind, pure, Except.pure]
  cases h : d.body.eval atol Gen.gateTable 8 env [] with
  | error e => simp
  | ok g' => simp [eq_comm]

private theorem via_mkBSR {atol : α} {q : Int} {v : Vec3 α} {an ph : α} {nm : Named α} {g : GStmt α} :
    (∃ g', mkBSR atol q v an ph = .ok g' ∧ g = (g', some nm)) ↔
      ∃ ax, mkAxis v = .ok ax ∧ g = (.bsr q ax (normalizeAngle atol an) (normalizeAngle atol ph), some nm) := by
  simp only [mkBSR_ok_iff]
  constructor
  · rintro ⟨_, ⟨ax, hax, rfl⟩, rfl⟩; exact ⟨ax, hax, rfl⟩
  · rintro ⟨ax, hax, rfl⟩; exact ⟨_, ⟨ax, hax, rfl⟩, rfl⟩

private theorem named_rot_aux (atol : α) (q : Int) (θ : α) (n : String) (x y z : Int)
    (hf : Gen.gateTable.find? (·.name == n) = some
      { name := n, params := [("q", Kind.qubit), ("theta", Kind.float)],
        body := (GExpr.bsr "q" x y z (SExpr.fparam "theta") (SExpr.nat 0)) }) (g : GStmt α) :
    named atol n [.qubit q, .float θ] = .ok g ↔
      ∃ ax, mkAxis (intToScalar x, intToScalar y, intToScalar z) = .ok ax ∧ g = rotStmt atol n q ax θ := by
  rw [named_via hf (by simp) (env := [("q", .qubit q), ("theta", .float θ)])
    (by simp [bindArgs, bind, Except.bind, pure, Except.pure])]
  have e : (GExpr.bsr "q" x y z (SExpr.fparam "theta") (SExpr.nat 0) : GExpr).eval atol Gen.gateTable 8 ([("q", .qubit q), ("theta", .float θ)] : Env α) [] = mkBSR atol q (intToScalar x, intToScalar y, intToScalar z) θ (sc 0) := by
    simp [GExpr.eval, SExpr.eval, envQubit, Env.find?, bind, Except.bind, pure, Except.pure]
  rw [e]; exact via_mkBSR

/-- **shape of `Rx/Ry/Rz(q, Float(θ))`** (`rotName i`): it succeeds iff the literal axis normalises, and then it is
    the rotation on `q` with that axis, angle `normalize_angle(θ)`, phase `normalize_angle(0)`, carrying its
    generator name and the arguments `(q, θ)`. -/
theorem named_rot_iff (atol : α) (i : Nat) (q : Int) (θ : α) (g : GStmt α) :
    named atol (rotName i) [.qubit q, .float θ] = .ok g ↔
      ∃ ax, mkAxis (axisLit i) = .ok ax ∧ g = rotStmt atol (rotName i) q ax θ := by
  match i with
  | 0 => exact named_rot_aux atol q θ "Rx" 1 0 0 find_Rx g
  | 1 => exact named_rot_aux atol q θ "Ry" 0 1 0 find_Ry g
  | (n + 2) => exact named_rot_aux atol q θ "Rz" 0 0 1 find_Rz g

theorem named_Rx_iff (atol : α) (q : Int) (θ : α) (g : GStmt α) :
    named atol "Rx" [.qubit q, .float θ] = .ok g ↔
      ∃ ax, mkAxis (axisLit 0) = .ok ax ∧ g = rotStmt atol "Rx" q ax θ := named_rot_iff atol 0 q θ g
theorem named_Ry_iff (atol : α) (q : Int) (θ : α) (g : GStmt α) :
    named atol "Ry" [.qubit q, .float θ] = .ok g ↔
      ∃ ax, mkAxis (axisLit 1) = .ok ax ∧ g = rotStmt atol "Ry" q ax θ := named_rot_iff atol 1 q θ g
theorem named_Rz_iff (atol : α) (q : Int) (θ : α) (g : GStmt α) :
    named atol "Rz" [.qubit q, .float θ] = .ok g ↔
      ∃ ax, mkAxis (axisLit 2) = .ok ax ∧ g = rotStmt atol "Rz" q ax θ := named_rot_iff atol 2 q θ g

theorem named_X90_iff (atol : α) (q : Int) (g : GStmt α) :
    named atol "X90" [.qubit q] = .ok g ↔ ∃ ax, mkAxis (axisLit 0) = .ok ax ∧ g = x90Stmt atol q ax := by
  rw [named_via find_X90 (by simp) (env := [("q", .qubit q)])
    (by simp [bindArgs, bind, Except.bind, pure, Except.pure])]
  have e : (GExpr.bsr "q" 1 0 0 (SExpr.div SExpr.pi (SExpr.nat 2)) (SExpr.nat 0) : GExpr).eval atol Gen.gateTable 8 ([("q", .qubit q)] : Env α) [] = mkBSR atol q (intToScalar 1, intToScalar 0, intToScalar 0) (π / sc 2) (sc 0) := by
    simp [GExpr.eval, SExpr.eval, envQubit, Env.find?, bind, Except.bind, pure, Except.pure]
  rw [e]; exact via_mkBSR

theorem named_X_iff (atol : α) (q : Int) (g : GStmt α) :
    named atol "X" [.qubit q] = .ok g ↔ ∃ ax, mkAxis (axisLit 0) = .ok ax ∧ g = xStmt atol q ax := by
  rw [named_via find_X (by simp) (env := [("q", .qubit q)])
    (by simp [bindArgs, bind, Except.bind, pure, Except.pure])]
  have e : (GExpr.bsr "q" 1 0 0 SExpr.pi (SExpr.div SExpr.pi (SExpr.nat 2)) : GExpr).eval atol Gen.gateTable 8 ([("q", .qubit q)] : Env α) [] = mkBSR atol q (intToScalar 1, intToScalar 0, intToScalar 0) π (π / sc 2) := by
    simp [GExpr.eval, SExpr.eval, envQubit, Env.find?, bind, Except.bind, pure, Except.pure]
  rw [e]; exact via_mkBSR

theorem named_I_iff (atol : α) (q : Int) (g : GStmt α) :
    named atol "I" [.qubit q] = .ok g ↔ ∃ ax, mkAxis ((one, zero, zero) : Vec3 α) = .ok ax ∧
      g = (.bsr q ax (normalizeAngle atol zero) (normalizeAngle atol zero), some ⟨"I", [.qubit q]⟩) := by
  rw [named_via find_I (by simp) (env := [("q", .qubit q)])
    (by simp [bindArgs, bind, Except.bind, pure, Except.pure])]
  have e : (GExpr.identity "q" : GExpr).eval atol Gen.gateTable 8 ([("q", .qubit q)] : Env α) [] = mkBSR atol q (one, zero, zero) zero zero := by
    simp [GExpr.eval, SExpr.eval, envQubit, Env.find?, bind, Except.bind, pure, Except.pure]
  rw [e]; exact via_mkBSR

theorem mkCtrl_bsr (c t : Int) (ax : Vec3 α) (an ph : α) :
    mkCtrl c (.bsr t ax an ph) = if c = t then .error .value else .ok (.ctrl c (.bsr t ax an ph)) := by
  by_cases h : c = t
  · simp [mkCtrl, Gate.operands, hasDup, h]
  · have h' : ¬ t = c := fun e => h e.symm
    simp [mkCtrl, Gate.operands, hasDup, h, h']

theorem named_CNOT_iff (atol : α) (c t : Int) (g : GStmt α) :
    named atol "CNOT" [.qubit c, .qubit t] = .ok g ↔
      ∃ ax, mkAxis (axisLit 0) = .ok ax ∧ c ≠ t ∧ g = cnotStmt atol c t ax := by
  rw [named_via find_CNOT (by simp) (env := [("control", .qubit c), ("target", .qubit t)])
    (by simp [bindArgs, bind, Except.bind, pure, Except.pure])]
  have e : (GExpr.ctrl "control" (GExpr.call "X" ["target"])).eval atol Gen.gateTable 8
      ([("control", .qubit c), ("target", .qubit t)] : Env α) [] =
      (mkBSR atol t (intToScalar 1, intToScalar 0, intToScalar 0) π (π / sc 2) >>= fun g => mkCtrl c g) := by
    simp [GExpr.eval, SExpr.eval, envQubit, Env.find?, bind, Except.bind, pure, Except.pure, evalNamed, find_X,
      bindArgs]
  rw [e]
  simp only [bindOk, mkBSR_ok_iff, axisLit, cnotStmt, List.map]
  constructor
  · rintro ⟨g', ⟨_, ⟨ax, hax, rfl⟩, h⟩, rfl⟩
    rw [mkCtrl_bsr] at h
    by_cases hct : c = t
    · simp [hct] at h
    · simp [hct] at h
      exact ⟨ax, hax, hct, by rw [h]⟩
  · rintro ⟨ax, hax, hct, rfl⟩
    exact ⟨_, ⟨_, ⟨ax, hax, rfl⟩, by rw [mkCtrl_bsr]; simp [hct]⟩, rfl⟩

/-! ### A-B-A decomposers -/

/-- **exact form of an A-B-A decomposition**: the three named rotations with the computed angles, minus identities. -/
theorem aba_form {atol : α} {k : ABAKind} {q : Int} {ax : Vec3 α} {an ph : α} {nm : Option (Named α)}
    {out : List (GStmt α)} (h : abaDecompose atol k (.bsr q ax an ph, nm) = .ok out) :
    ∃ t1 t2 t3 axA axB, abaAngles atol k an ax = .ok (t1, t2, t3) ∧
      mkAxis (axisLit k.ia) = .ok axA ∧ mkAxis (axisLit k.ib) = .ok axB ∧
      out = filterOutIdentities atol [rotStmt atol (rotName k.ia) q axA t1, rotStmt atol (rotName k.ib) q axB t2,
        rotStmt atol (rotName k.ia) q axA t3] := by
  simp only [abaDecompose, bindOk] at h
  obtain ⟨⟨t1, t2, t3⟩, hang, a1, h1, b, h2, a2, h3, hout⟩ := h
  obtain ⟨axA, hA, rfl⟩ := (named_rot_iff ..).1 h1
  obtain ⟨axB, hB, rfl⟩ := (named_rot_iff ..).1 h2
  obtain ⟨axA', hA', rfl⟩ := (named_rot_iff ..).1 h3
  rw [hA] at hA'; cases hA'
  cases hout
  exact ⟨t1, t2, t3, axA, axB, hang, hA, hB, rfl⟩

/-- `s` is a Bloch-sphere rotation on qubit `q` that carries the generator name `n` -/
def IsRot (q : Int) (n : String) (s : GStmt α) : Prop :=
  ∃ ax an ph args, s = (.bsr q ax an ph, some ⟨n, args⟩)

theorem isRot_rotStmt (atol : α) (n : String) (q : Int) (ax : Vec3 α) (θ : α) :
    IsRot q n (rotStmt atol n q ax θ) := ⟨_, _, _, _, rfl⟩

theorem IsRot.name? {q : Int} {n : String} {s : GStmt α} (h : IsRot q n s) : s.name? = some n := by
  obtain ⟨_, _, _, _, rfl⟩ := h; rfl
theorem IsRot.isSome {q : Int} {n : String} {s : GStmt α} (h : IsRot q n s) : s.2.isSome = true := by
  obtain ⟨_, _, _, _, rfl⟩ := h; rfl
theorem IsRot.operands {q : Int} {n : String} {s : GStmt α} (h : IsRot q n s) : s.1.operands = [q] := by
  obtain ⟨_, _, _, _, rfl⟩ := h; rfl

theorem mem_filterOutIdentities {atol : α} {l : List (GStmt α)} {s : GStmt α} :
    s ∈ filterOutIdentities atol l ↔ s ∈ l ∧ s.1.isIdentity atol = false := by
  simp [filterOutIdentities]

theorem filterOutIdentities_sublist (atol : α) (l : List (GStmt α)) :
    (filterOutIdentities atol l).Sublist l := List.filter_sublist

/-- **C10, A-B-A**: the output is a sublist of three named rotations `A, B, A` on the gate's qubit, and contains
    no identity. -/
theorem aba_shape {atol : α} {k : ABAKind} {q : Int} {ax : Vec3 α} {an ph : α} {nm : Option (Named α)}
    {out : List (GStmt α)} (h : abaDecompose atol k (.bsr q ax an ph, nm) = .ok out) :
    ∃ a1 b a2, IsRot q (rotName k.ia) a1 ∧ IsRot q (rotName k.ib) b ∧ IsRot q (rotName k.ia) a2 ∧
      out.Sublist [a1, b, a2] ∧ ∀ s ∈ out, s.1.isIdentity atol = false := by
  obtain ⟨t1, t2, t3, axA, axB, -, -, -, rfl⟩ := aba_form h
  exact ⟨_, _, _, isRot_rotStmt .., isRot_rotStmt .., isRot_rotStmt .., filterOutIdentities_sublist .., 
    fun s hs => (mem_filterOutIdentities.1 hs).2⟩

/-- at most three gates -/
theorem aba_length {atol : α} {k : ABAKind} {q : Int} {ax : Vec3 α} {an ph : α} {nm : Option (Named α)}
    {out : List (GStmt α)} (h : abaDecompose atol k (.bsr q ax an ph, nm) = .ok out) : out.length ≤ 3 := by
  obtain ⟨a1, b, a2, -, -, -, hsub, -⟩ := aba_shape h
  exact hsub.length_le

/-- the names appear in the order A, B, A -/
theorem aba_names {atol : α} {k : ABAKind} {q : Int} {ax : Vec3 α} {an ph : α} {nm : Option (Named α)}
    {out : List (GStmt α)} (h : abaDecompose atol k (.bsr q ax an ph, nm) = .ok out) :
    (out.map GStmt.name?).Sublist [some (rotName k.ia), some (rotName k.ib), some (rotName k.ia)] := by
  obtain ⟨a1, b, a2, h1, h2, h3, hsub, -⟩ := aba_shape h
  have := hsub.map GStmt.name?
  simpa [h1.name?, h2.name?, h3.name?] using this

/-- every emitted gate is a named rotation about axis A or B on the same qubit -/
theorem aba_all_rot {atol : α} {k : ABAKind} {q : Int} {ax : Vec3 α} {an ph : α} {nm : Option (Named α)}
    {out : List (GStmt α)} (h : abaDecompose atol k (.bsr q ax an ph, nm) = .ok out) :
    ∀ s ∈ out, IsRot q (rotName k.ia) s ∨ IsRot q (rotName k.ib) s := by
  obtain ⟨a1, b, a2, h1, h2, h3, hsub, -⟩ := aba_shape h
  intro s hs
  have := hsub.subset hs
  simp only [List.mem_cons, List.not_mem_nil, or_false] at this
  rcases this with rfl | rfl | rfl
  · exact .inl h1
  · exact .inr h2
  · exact .inl h3

theorem aba_all_named {atol : α} {k : ABAKind} {q : Int} {ax : Vec3 α} {an ph : α} {nm : Option (Named α)}
    {out : List (GStmt α)} (h : abaDecompose atol k (.bsr q ax an ph, nm) = .ok out) :
    ∀ s ∈ out, s.2.isSome = true := fun s hs => (aba_all_rot h s hs).elim IsRot.isSome IsRot.isSome

/-- no identity gate is emitted -/
theorem no_identity_aba {atol : α} {k : ABAKind} {q : Int} {ax : Vec3 α} {an ph : α} {nm : Option (Named α)}
    {out : List (GStmt α)} (h : abaDecompose atol k (.bsr q ax an ph, nm) = .ok out) :
    ∀ s ∈ out, s.1.isIdentity atol = false := by
  obtain ⟨_, _, _, -, -, -, -, hid⟩ := aba_shape h
  exact hid

/-- **pass-through**: a gate that is not a Bloch-sphere rotation is returned unchanged -/
theorem aba_passthrough (atol : α) (k : ABAKind) (g : Gate α) (nm : Option (Named α))
    (hg : ∀ q ax an ph, g ≠ .bsr q ax an ph) : abaDecompose atol k (g, nm) = .ok [(g, nm)] := by
  cases g with
  | bsr q ax an ph => exact absurd rfl (hg q ax an ph)
  | matrix m ops => rfl
  | ctrl c g => rfl

/-! ### CNOT decomposer -/

/-- `s` is `CNOT(c, t)`: an `X`-like rotation on `t` controlled by `c`, named `CNOT` with arguments `(c, t)` -/
def IsCnot (c t : Int) (s : GStmt α) : Prop :=
  ∃ ax an ph, s = (.ctrl c (.bsr t ax an ph), some ⟨"CNOT", [.qubit c, .qubit t]⟩)

theorem isCnot_cnotStmt (atol : α) (c t : Int) (ax : Vec3 α) : IsCnot c t (cnotStmt atol c t ax) := ⟨_, _, _, rfl⟩

theorem IsCnot.name? {c t : Int} {s : GStmt α} (h : IsCnot c t s) : s.name? = some "CNOT" := by
  obtain ⟨_, _, _, rfl⟩ := h; rfl
theorem IsCnot.isSome {c t : Int} {s : GStmt α} (h : IsCnot c t s) : s.2.isSome = true := by
  obtain ⟨_, _, _, rfl⟩ := h; rfl
theorem IsCnot.operands {c t : Int} {s : GStmt α} (h : IsCnot c t s) : s.1.operands = [c, t] := by
  obtain ⟨_, _, _, rfl⟩ := h; rfl

/-- **exact form of a CNOT decomposition** of `ControlledGate(c, BlochSphereRotation(t, …))`: the one-CNOT form
    `B · CNOT · A · Rz(c)` (6 gates) when the guard on the angles of `X·U` fires, else the two-CNOT form
    `C · CNOT · B · CNOT · A · Rz(c)` (8 gates); identities filtered out. -/
theorem cnot_form {atol : α} {c t : Int} {tax : Vec3 α} {tan tph : α} {nm : Option (Named α)}
    {out : List (GStmt α)} (h : cnotDecompose atol (.ctrl c (.bsr t tax tan tph), nm) = .ok out) :
    ∃ axX axY axZ xu θ0 θ1 θ2, mkAxis (axisLit 0) = .ok axX ∧ mkAxis (axisLit 1) = .ok axY ∧
      mkAxis (axisLit 2) = .ok axZ ∧ c ≠ t ∧
      composeRot atol ⟨t, axX, normalizeAngle atol π, normalizeAngle atol (π / sc 2), some ⟨"X", [.qubit t]⟩⟩
        ⟨t, tax, tan, tph, none⟩ = .ok xu ∧
      abaAngles atol .ZYZ xu.angle xu.axis = .ok (θ0, θ1, θ2) ∧
      ((absS (pymod (θ0 - θ2) (two * π)) < atol ∧ ∃ φ, out = filterOutIdentities atol
          [rotStmt atol "Rz" t axZ θ2, rotStmt atol "Ry" t axY (θ1 / two), cnotStmt atol c t axX,
           rotStmt atol "Ry" t axY (-θ1 / two), rotStmt atol "Rz" t axZ (-θ2), rotStmt atol "Rz" c axZ φ]) ∨
       (¬ absS (pymod (θ0 - θ2) (two * π)) < atol ∧ ∃ t0 t1 t2, abaAngles atol .ZYZ tan tax = .ok (t0, t1, t2) ∧
          out = filterOutIdentities atol
          [rotStmt atol "Rz" t axZ ((t0 - t2) / two), cnotStmt atol c t axX,
           rotStmt atol "Rz" t axZ (-(t0 + t2) / two), rotStmt atol "Ry" t axY (-t1 / two), cnotStmt atol c t axX,
           rotStmt atol "Ry" t axY (t1 / two), rotStmt atol "Rz" t axZ t2, rotStmt atol "Rz" c axZ tph])) := by
  simp only [cnotDecompose, bindOk] at h
  obtain ⟨x, hx, h⟩ := h
  obtain ⟨axX, hX, rfl⟩ := (named_X_iff ..).1 hx
  simp only [xStmt, gstmtToRot, bindOk] at h
  obtain ⟨xu, hxu, ⟨θ0, θ1, θ2⟩, hang, cn, hcn, h⟩ := h
  obtain ⟨axX', hX', hct, rfl⟩ := (named_CNOT_iff ..).1 hcn
  rw [hX] at hX'; cases hX'
  by_cases hg : absS (pymod (θ0 - θ2) (two * π)) < atol
  · simp only [hg, if_true, bindOk] at h
    obtain ⟨r1, h1, r2, h2, r3, h3, r4, h4, r5, h5, h⟩ := h
    obtain ⟨axY, hY, rfl⟩ := (named_Ry_iff ..).1 h1
    obtain ⟨axZ, hZ, rfl⟩ := (named_Rz_iff ..).1 h2
    obtain ⟨axZ', hZ', rfl⟩ := (named_Rz_iff ..).1 h3
    rw [hZ] at hZ'; cases hZ'
    obtain ⟨axY', hY', rfl⟩ := (named_Ry_iff ..).1 h4
    rw [hY] at hY'; cases hY'
    obtain ⟨axZ', hZ', rfl⟩ := (named_Rz_iff ..).1 h5
    rw [hZ] at hZ'; cases hZ'
    cases h
    exact ⟨axX, axY, axZ, xu, θ0, θ1, θ2, hX, hY, hZ, hct, hxu, hang, .inl ⟨hg, _, rfl⟩⟩
  · simp only [hg, if_false, bindOk] at h
    obtain ⟨⟨t0, t1, t2⟩, hang', r1, h1, r2, h2, r3, h3, r4, h4, r5, h5, r6, h6, h⟩ := h
    obtain ⟨axY, hY, rfl⟩ := (named_Ry_iff ..).1 h1
    obtain ⟨axZ, hZ, rfl⟩ := (named_Rz_iff ..).1 h2
    obtain ⟨axZ', hZ', rfl⟩ := (named_Rz_iff ..).1 h3
    rw [hZ] at hZ'; cases hZ'
    obtain ⟨axY', hY', rfl⟩ := (named_Ry_iff ..).1 h4
    rw [hY] at hY'; cases hY'
    obtain ⟨axZ', hZ', rfl⟩ := (named_Rz_iff ..).1 h5
    rw [hZ] at hZ'; cases hZ'
    obtain ⟨axZ', hZ', rfl⟩ := (named_Rz_iff ..).1 h6
    rw [hZ] at hZ'; cases hZ'
    cases h
    exact ⟨axX, axY, axZ, xu, θ0, θ1, θ2, hX, hY, hZ, hct, hxu, hang, .inr ⟨hg, t0, t1, t2, hang', rfl⟩⟩

/-- **C10, CNOT decomposer**: the output is a sublist of `pre ++ [rzc]` where `rzc` is an `Rz` on the control, and
    `pre` consists of at most seven gates on the same two qubits: `CNOT(c, t)` (at most two) and `Ry`/`Rz` on the
    target; no identity is emitted; control and target differ. -/
theorem cnot_shape {atol : α} {c t : Int} {tax : Vec3 α} {tan tph : α} {nm : Option (Named α)}
    {out : List (GStmt α)} (h : cnotDecompose atol (.ctrl c (.bsr t tax tan tph), nm) = .ok out) :
    c ≠ t ∧
    (∃ pre rzc, out.Sublist (pre ++ [rzc]) ∧ IsRot c "Rz" rzc ∧
      (∀ s ∈ pre, IsCnot c t s ∨ IsRot t "Ry" s ∨ IsRot t "Rz" s) ∧ pre.length ≤ 7 ∧
      (pre.filter (fun s => s.name? == some "CNOT")).length ≤ 2) ∧
    ∀ s ∈ out, s.1.isIdentity atol = false := by
  obtain ⟨axX, axY, axZ, xu, θ0, θ1, θ2, -, -, -, hct, -, -, h | h⟩ := cnot_form h
  · obtain ⟨-, φ, rfl⟩ := h
    refine ⟨hct, ⟨[rotStmt atol "Rz" t axZ θ2, rotStmt atol "Ry" t axY (θ1 / two), cnotStmt atol c t axX,
           rotStmt atol "Ry" t axY (-θ1 / two), rotStmt atol "Rz" t axZ (-θ2)], rotStmt atol "Rz" c axZ φ,
           filterOutIdentities_sublist .., isRot_rotStmt .., ?_, by simp, ?_⟩,
           fun s hs => (mem_filterOutIdentities.1 hs).2⟩
    · intro s hs
      simp only [List.mem_cons, List.not_mem_nil, or_false] at hs
      rcases hs with rfl | rfl | rfl | rfl | rfl
      · exact .inr (.inr (isRot_rotStmt ..))
      · exact .inr (.inl (isRot_rotStmt ..))
      · exact .inl (isCnot_cnotStmt ..)
      · exact .inr (.inl (isRot_rotStmt ..))
      · exact .inr (.inr (isRot_rotStmt ..))
    · simp [List.filter, GStmt.name?, rotStmt, cnotStmt]
  · obtain ⟨-, t0, t1, t2, -, rfl⟩ := h
    refine ⟨hct, ⟨[rotStmt atol "Rz" t axZ ((t0 - t2) / two), cnotStmt atol c t axX,
           rotStmt atol "Rz" t axZ (-(t0 + t2) / two), rotStmt atol "Ry" t axY (-t1 / two), cnotStmt atol c t axX,
           rotStmt atol "Ry" t axY (t1 / two), rotStmt atol "Rz" t axZ t2], rotStmt atol "Rz" c axZ tph,
           filterOutIdentities_sublist .., isRot_rotStmt .., ?_, by simp, ?_⟩,
           fun s hs => (mem_filterOutIdentities.1 hs).2⟩
    · intro s hs
      simp only [List.mem_cons, List.not_mem_nil, or_false] at hs
      rcases hs with rfl | rfl | rfl | rfl | rfl | rfl | rfl
      · exact .inr (.inr (isRot_rotStmt ..))
      · exact .inl (isCnot_cnotStmt ..)
      · exact .inr (.inr (isRot_rotStmt ..))
      · exact .inr (.inl (isRot_rotStmt ..))
      · exact .inl (isCnot_cnotStmt ..)
      · exact .inr (.inl (isRot_rotStmt ..))
      · exact .inr (.inr (isRot_rotStmt ..))
    · simp [List.filter, GStmt.name?, rotStmt, cnotStmt]

/-- every emitted gate is `CNOT(c, t)`, or `Ry`/`Rz` on the target, or `Rz` on the control -/
theorem cnot_elems {atol : α} {c t : Int} {tax : Vec3 α} {tan tph : α} {nm : Option (Named α)}
    {out : List (GStmt α)} (h : cnotDecompose atol (.ctrl c (.bsr t tax tan tph), nm) = .ok out) :
    ∀ s ∈ out, IsCnot c t s ∨ IsRot t "Ry" s ∨ IsRot t "Rz" s ∨ IsRot c "Rz" s := by
  obtain ⟨-, ⟨pre, rzc, hsub, hrz, hpre, -, -⟩, -⟩ := cnot_shape h
  intro s hs
  have := hsub.subset hs
  simp only [List.mem_append, List.mem_cons, List.not_mem_nil, or_false] at this
  rcases this with hp | rfl
  · rcases hpre s hp with h | h | h
    · exact .inl h
    · exact .inr (.inl h)
    · exact .inr (.inr (.inl h))
  · exact .inr (.inr (.inr hrz))

/-- every emitted gate is named `CNOT`, `Ry` or `Rz` -/
theorem cnot_names {atol : α} {c t : Int} {tax : Vec3 α} {tan tph : α} {nm : Option (Named α)}
    {out : List (GStmt α)} (h : cnotDecompose atol (.ctrl c (.bsr t tax tan tph), nm) = .ok out) :
    ∀ s ∈ out, s.name? = some "CNOT" ∨ s.name? = some "Ry" ∨ s.name? = some "Rz" := by
  intro s hs
  rcases cnot_elems h s hs with h | h | h | h
  · exact .inl h.name?
  · exact .inr (.inl h.name?)
  · exact .inr (.inr h.name?)
  · exact .inr (.inr h.name?)

theorem cnot_all_named {atol : α} {c t : Int} {tax : Vec3 α} {tan tph : α} {nm : Option (Named α)}
    {out : List (GStmt α)} (h : cnotDecompose atol (.ctrl c (.bsr t tax tan tph), nm) = .ok out) :
    ∀ s ∈ out, s.2.isSome = true := by
  intro s hs
  rcases cnot_elems h s hs with h | h | h | h
  · exact h.isSome
  · exact h.isSome
  · exact h.isSome
  · exact h.isSome

/-- at most eight gates (the two-CNOT form `C·CNOT·B·CNOT·A·Rz(c)` has 1+1+2+1+2+1 = 8 members) -/
theorem cnot_length {atol : α} {c t : Int} {tax : Vec3 α} {tan tph : α} {nm : Option (Named α)}
    {out : List (GStmt α)} (h : cnotDecompose atol (.ctrl c (.bsr t tax tan tph), nm) = .ok out) :
    out.length ≤ 8 := by
  obtain ⟨-, ⟨pre, rzc, hsub, -, -, hlen, -⟩, -⟩ := cnot_shape h
  have := hsub.length_le
  simp only [List.length_append, List.length_cons, List.length_nil] at this
  omega

/-- at most two `CNOT`s -/
theorem cnot_count {atol : α} {c t : Int} {tax : Vec3 α} {tan tph : α} {nm : Option (Named α)}
    {out : List (GStmt α)} (h : cnotDecompose atol (.ctrl c (.bsr t tax tan tph), nm) = .ok out) :
    (out.filter (fun s => s.name? == some "CNOT")).length ≤ 2 := by
  obtain ⟨-, ⟨pre, rzc, hsub, hrz, -, -, hcnt⟩, -⟩ := cnot_shape h
  have := (hsub.filter (fun s => s.name? == some "CNOT")).length_le
  have hz : (fun s : GStmt α => s.name? == some "CNOT") rzc = false := by simp [hrz.name?]
  rw [List.filter_append, List.filter_cons_of_neg (by simpa using hz)] at this
  simpa using Nat.le_trans this (by simpa using hcnt)

theorem no_identity_cnot {atol : α} {c t : Int} {tax : Vec3 α} {tan tph : α} {nm : Option (Named α)}
    {out : List (GStmt α)} (h : cnotDecompose atol (.ctrl c (.bsr t tax tan tph), nm) = .ok out) :
    ∀ s ∈ out, s.1.isIdentity atol = false := (cnot_shape h).2.2

/-- **pass-through**: every gate that is not a singly-controlled Bloch-sphere rotation (a plain rotation, a matrix
    gate, a control of a non-rotation, e.g. two or more controls) is returned unchanged -/
theorem cnot_passthrough (atol : α) (g : Gate α) (nm : Option (Named α))
    (hg : ∀ c t ax an ph, g ≠ .ctrl c (.bsr t ax an ph)) : cnotDecompose atol (g, nm) = .ok [(g, nm)] := by
  cases g with
  | bsr q ax an ph => rfl
  | matrix m ops => rfl
  | ctrl c g' =>
    cases g' with
    | bsr t ax an ph => exact absurd rfl (hg c t ax an ph)
    | matrix m ops => rfl
    | ctrl c' g'' => rfl

/-! ### McKay decomposer -/

/-- the three Euler angles `(λ, θ, φ)` of the generic McKay path, already normalised -/
def mckayAngles (atol : α) (axis : Vec3 α) (angle : α) : α × α × α :=
  let sh := Trig.sin (angle / two)
  let ch := Trig.cos (angle / two)
  let zaMod := Trig.sqrt (ch * ch + (axis.2.2 * sh) * (axis.2.2 * sh))
  let zbMod := absS sh * Trig.sqrt (axis.1 * axis.1 + axis.2.1 * axis.2.1)
  let theta := π - two * Trig.atan2 zbMod zaMod
  let alpha := Trig.atan2 (-sh * axis.2.2) ch
  let beta := Trig.atan2 (-sh * axis.1) (-sh * axis.2.1)
  (normalizeAngle atol (beta - alpha), normalizeAngle atol theta, normalizeAngle atol (-beta - alpha - π))

/-- `if abs(θ) > ATOL: decomposed_g.append(Rz(q, θ))` -/
def mckayOpt (atol : α) (q : Int) (θ : α) : Except Err (List (GStmt α)) :=
  if atol < absS θ then (named atol "Rz" [.qubit q, .float θ]) >>= fun r => pure [r] else pure []

/-- the generic McKay path, given the angles and the `X90` gate -/
def mckayTail (atol : α) (q : Int) (x90 : GStmt α) (lam theta phi : α) : Except Err (List (GStmt α)) :=
  if (decide (absS theta < atol) && Scalar.decEqB lam phi) = true then pure [x90, x90]
  else
    mckayOpt atol q lam >>= fun o1 =>
    mckayOpt atol q theta >>= fun o2 =>
    mckayOpt atol q phi >>= fun o3 =>
    pure (o1 ++ [x90] ++ o2 ++ [x90] ++ o3)

/-- the angle of the first gate named `Rx` of a list, if there is one and it is a rotation -/
def mckayRxAngle (zxz : List (GStmt α)) : Option α :=
  match zxz[zxz.findIdx fun s => s.name? == some "Rx"]? with
  | some (.bsr _ _ an _, _) => some an
  | _ => none

private def mckayTailRaw (atol : α) (q : Int) (x90 : GStmt α) (lam theta phi : α) : Except Err (List (GStmt α)) :=
  if absS theta < atol && Scalar.decEqB lam phi then pure [x90, x90]
  else do
    let mut out : List (GStmt α) := []
    if atol < absS lam then
      out := out ++ [← named atol "Rz" [.qubit q, .float lam]]
    out := out ++ [x90]
    if atol < absS theta then
      out := out ++ [← named atol "Rz" [.qubit q, .float theta]]
    out := out ++ [x90]
    if atol < absS phi then
      out := out ++ [← named atol "Rz" [.qubit q, .float phi]]
    pure out

private theorem mckayTailRaw_eq (atol : α) (q : Int) (x90 : GStmt α) (lam theta phi : α) :
    mckayTailRaw atol q x90 lam theta phi = mckayTail atol q x90 lam theta phi := by
  unfold mckayTailRaw mckayTail mckayOpt
  split
  · rfl
  · by_cases h1 : atol < absS lam <;> by_cases h2 : atol < absS theta <;> by_cases h3 : atol < absS phi <;>
      simp only [h1, h2, h3, if_true, if_false] <;>
      cases named atol "Rz" [.qubit q, .float lam] <;> cases named atol "Rz" [.qubit q, .float theta] <;>
      cases named atol "Rz" [.qubit q, .float phi] <;> simp [bind, Except.bind, pure, Except.pure]

private theorem mckayDecompose_bsr_eq_raw (atol : α) (q : Int) (ax : Vec3 α) (an ph : α) (nm : Option (Named α)) :
    mckayDecompose atol (.bsr q ax an ph, nm) =
      if (GStmt.name? (Gate.bsr q ax an ph, nm) == some "Rz" || GStmt.name? (Gate.bsr q ax an ph, nm) == some "X90") = true
      then .ok [(.bsr q ax an ph, nm)]
      else if absS an < atol then .ok []
      else if (Scalar.decEqB ax.1 zero && Scalar.decEqB ax.2.1 zero) = true then
        named atol "Rz" [.qubit q, .float (an * ax.2.2)] >>= fun r => pure [r]
      else
        abaDecompose atol .ZXZ (.bsr q ax an ph, nm) >>= fun zxz =>
        named atol "X90" [.qubit q] >>= fun x90 =>
        let tail := mckayTailRaw atol q x90 (mckayAngles atol ax an).1 (mckayAngles atol ax an).2.1
          (mckayAngles atol ax an).2.2
        match mckayRxAngle zxz with
        | some a =>
          if absS (a - π / two) < atol then pure (replaceAt zxz (zxz.findIdx fun s => s.name? == some "Rx") x90)
          else tail
        | none => tail := by
  unfold mckayDecompose
  split
  · rename_i q' ax' an' ph' heq
    cases heq
    split
    · rfl
    split
    · rfl
    split
    · rfl
    rfl
  · rename_i hne
    exact absurd rfl (hne q ax an ph)

/-- **`mckayDecompose` on a rotation, in closed form** (the model's `do` block with its join points and mutable
    `out` unfolded once and for all): pass-through for `Rz`/`X90`, nothing for a null angle, a single `Rz` for a
    rotation about `z`, else the Z-X-Z shortcut (first `Rx` replaced by `X90` when its angle is `π/2`), else the
    generic path `mckayTail` on `mckayAngles`. -/
theorem mckayDecompose_bsr_eq (atol : α) (q : Int) (ax : Vec3 α) (an ph : α) (nm : Option (Named α)) :
    mckayDecompose atol (.bsr q ax an ph, nm) =
      if (GStmt.name? (Gate.bsr q ax an ph, nm) == some "Rz" || GStmt.name? (Gate.bsr q ax an ph, nm) == some "X90") = true
      then .ok [(.bsr q ax an ph, nm)]
      else if absS an < atol then .ok []
      else if (Scalar.decEqB ax.1 zero && Scalar.decEqB ax.2.1 zero) = true then
        named atol "Rz" [.qubit q, .float (an * ax.2.2)] >>= fun r => pure [r]
      else
        abaDecompose atol .ZXZ (.bsr q ax an ph, nm) >>= fun zxz =>
        named atol "X90" [.qubit q] >>= fun x90 =>
        match mckayRxAngle zxz with
        | some a =>
          if absS (a - π / two) < atol then pure (replaceAt zxz (zxz.findIdx fun s => s.name? == some "Rx") x90)
          else mckayTail atol q x90 (mckayAngles atol ax an).1 (mckayAngles atol ax an).2.1 (mckayAngles atol ax an).2.2
        | none => mckayTail atol q x90 (mckayAngles atol ax an).1 (mckayAngles atol ax an).2.1 (mckayAngles atol ax an).2.2 := by
  rw [mckayDecompose_bsr_eq_raw]
  simp only [mckayTailRaw_eq]

private theorem zxz_replace (rz1 rx rz2 x : GStmt α) (f : GStmt α → Bool)
    (h1 : rz1.name? = some "Rz") (hx : rx.name? = some "Rx") (h2 : rz2.name? = some "Rz") :
    (f rx = true →
      ([rz1, rx, rz2].filter f)[([rz1, rx, rz2].filter f).findIdx fun s => s.name? == some "Rx"]? = some rx ∧
      replaceAt ([rz1, rx, rz2].filter f) (([rz1, rx, rz2].filter f).findIdx fun s => s.name? == some "Rx") x
          = [rz1].filter f ++ x :: [rz2].filter f) ∧
    (f rx = false →
      ([rz1, rx, rz2].filter f)[([rz1, rx, rz2].filter f).findIdx fun s => s.name? == some "Rx"]? = none) := by
  cases e1 : f rz1 <;> cases ex : f rx <;> cases e2 : f rz2 <;>
    simp [List.filter, List.findIdx_cons, replaceAt, h1, hx, h2, e1, ex, e2]

/-- `[Rz(q, θ)]` if `atol < |θ|`, else `[]` -/
def optRz (atol : α) (q : Int) (axZ : Vec3 α) (θ : α) : List (GStmt α) :=
  if atol < absS θ then [rotStmt atol "Rz" q axZ θ] else []

/-- the output of the generic McKay path for angles `(λ, θ, φ)` -/
def mckayGeneric (atol : α) (q : Int) (axX axZ : Vec3 α) (a : α × α × α) : List (GStmt α) :=
  if (decide (absS a.2.1 < atol) && Scalar.decEqB a.1 a.2.2) = true then [x90Stmt atol q axX, x90Stmt atol q axX]
  else optRz atol q axZ a.1 ++ [x90Stmt atol q axX] ++ optRz atol q axZ a.2.1 ++ [x90Stmt atol q axX] ++
    optRz atol q axZ a.2.2

theorem mckayOpt_eq {atol : α} {q : Int} {axZ : Vec3 α} (hZ : mkAxis (axisLit 2 : Vec3 α) = .ok axZ) (θ : α) :
    mckayOpt atol q θ = .ok (optRz atol q axZ θ) := by
  unfold mckayOpt optRz
  split
  · rw [(named_Rz_iff atol q θ _).2 ⟨axZ, hZ, rfl⟩]; rfl
  · rfl

theorem mckayTail_eq {atol : α} {q : Int} {axX axZ : Vec3 α} (hZ : mkAxis (axisLit 2 : Vec3 α) = .ok axZ)
    (lam theta phi : α) :
    mckayTail atol q (x90Stmt atol q axX) lam theta phi = .ok (mckayGeneric atol q axX axZ (lam, theta, phi)) := by
  unfold mckayTail mckayGeneric
  split
  · rfl
  · simp only [mckayOpt_eq hZ]; rfl

/-- **exact form of a McKay decomposition** of a rotation `g = .bsr q ax an ph` (with optional name `nm`). -/
theorem mckay_form {atol : α} {q : Int} {ax : Vec3 α} {an ph : α} {nm : Option (Named α)}
    {out : List (GStmt α)} (h : mckayDecompose atol (.bsr q ax an ph, nm) = .ok out) :
    -- (1) already native
    ((nm.map (·.name) = some "Rz" ∨ nm.map (·.name) = some "X90") ∧ out = [(.bsr q ax an ph, nm)]) ∨
    (¬ (nm.map (·.name) = some "Rz" ∨ nm.map (·.name) = some "X90") ∧
      -- (2) null rotation
      ((absS an < atol ∧ out = []) ∨
       (¬ absS an < atol ∧
        -- (3) rotation about z
        (((Scalar.decEqB ax.1 zero && Scalar.decEqB ax.2.1 zero) = true ∧
          ∃ axZ, mkAxis (axisLit 2 : Vec3 α) = .ok axZ ∧ out = [rotStmt atol "Rz" q axZ (an * ax.2.2)]) ∨
         ((Scalar.decEqB ax.1 zero && Scalar.decEqB ax.2.1 zero) = false ∧
          ∃ t1 t2 t3 axX axZ, abaAngles atol .ZXZ an ax = .ok (t1, t2, t3) ∧
            mkAxis (axisLit 0 : Vec3 α) = .ok axX ∧ mkAxis (axisLit 2 : Vec3 α) = .ok axZ ∧
            -- (4) Z-X-Z shortcut: the X rotation survived the identity filter and its angle is π/2
            (((rotStmt atol "Rx" q axX t2).1.isIdentity atol = false ∧
              absS (normalizeAngle atol t2 - π / two) < atol ∧
              out = filterOutIdentities atol [rotStmt atol "Rz" q axZ t1] ++ x90Stmt atol q axX ::
                    filterOutIdentities atol [rotStmt atol "Rz" q axZ t3]) ∨
            -- (5) generic path
             (((rotStmt atol "Rx" q axX t2).1.isIdentity atol = true ∨
                ¬ absS (normalizeAngle atol t2 - π / two) < atol) ∧
              out = mckayGeneric atol q axX axZ (mckayAngles atol ax an)))))))) := by
  rw [mckayDecompose_bsr_eq] at h
  have hname : ((GStmt.name? (Gate.bsr q ax an ph, nm) == some "Rz" ||
      GStmt.name? (Gate.bsr q ax an ph, nm) == some "X90") = true) ↔
      (nm.map (·.name) = some "Rz" ∨ nm.map (·.name) = some "X90") := by
    simp [GStmt.name?]
  by_cases hP : (nm.map (·.name) = some "Rz" ∨ nm.map (·.name) = some "X90")
  · rw [if_pos (hname.2 hP)] at h
    cases h; exact .inl ⟨hP, rfl⟩
  rw [if_neg (fun h' => hP (hname.1 h'))] at h
  refine .inr ⟨hP, ?_⟩
  by_cases hE : absS an < atol
  · rw [if_pos hE] at h; cases h; exact .inl ⟨hE, rfl⟩
  rw [if_neg hE] at h
  refine .inr ⟨hE, ?_⟩
  cases hZf : (Scalar.decEqB ax.1 zero && Scalar.decEqB ax.2.1 zero) with
  | true =>
    rw [hZf, if_pos rfl, bindOk] at h
    obtain ⟨r, hr, h⟩ := h
    obtain ⟨axZ, hZ, rfl⟩ := (named_Rz_iff ..).1 hr
    cases h
    exact .inl ⟨rfl, axZ, hZ, rfl⟩
  | false =>
    rw [hZf, if_neg (by simp), bindOk] at h
    obtain ⟨zxz, hzxz, h⟩ := h
    rw [bindOk] at h
    obtain ⟨x90, hx90, h⟩ := h
    obtain ⟨t1, t2, t3, axZ, axX, hang, hZ, hX, rfl⟩ := aba_form hzxz
    obtain ⟨axX', hX', rfl⟩ := (named_X90_iff ..).1 hx90
    have hX0 : mkAxis (axisLit 0 : Vec3 α) = .ok axX := hX
    rw [hX0] at hX'; cases hX'
    refine .inr ⟨rfl, t1, t2, t3, axX, axZ, hang, hX, hZ, ?_⟩
    have key := zxz_replace (rotStmt atol "Rz" q axZ t1) (rotStmt atol "Rx" q axX t2) (rotStmt atol "Rz" q axZ t3)
      (x90Stmt atol q axX) (fun g => !(g.1.isIdentity atol)) rfl rfl rfl
    have hrn : (rotName ABAKind.ZXZ.ia = "Rz") ∧ (rotName ABAKind.ZXZ.ib = "Rx") := ⟨rfl, rfl⟩
    simp only [hrn.1, hrn.2, filterOutIdentities] at h ⊢
    cases hid : (rotStmt atol "Rx" q axX t2).1.isIdentity atol with
    | true =>
      have hnone := key.2 (by simp [hid])
      have hrx : mckayRxAngle (List.filter (fun g => !Gate.isIdentity atol g.fst)
          [rotStmt atol "Rz" q axZ t1, rotStmt atol "Rx" q axX t2, rotStmt atol "Rz" q axZ t3]) = none := by
        unfold mckayRxAngle; rw [hnone]
      rw [hrx] at h
      simp only [] at h
      rw [mckayTail_eq hZ] at h
      cases h
      exact .inr ⟨.inl rfl, rfl⟩
    | false =>
      obtain ⟨hsome, hrep⟩ := key.1 (by simp [hid])
      have hrx : mckayRxAngle (List.filter (fun g => !Gate.isIdentity atol g.fst)
          [rotStmt atol "Rz" q axZ t1, rotStmt atol "Rx" q axX t2, rotStmt atol "Rz" q axZ t3]) =
          some (normalizeAngle atol t2) := by
        unfold mckayRxAngle; rw [hsome]; rfl
      rw [hrx] at h
      simp only [] at h
      by_cases hg : absS (normalizeAngle atol t2 - π / two) < atol
      · rw [if_pos hg] at h
        cases h
        exact .inl ⟨rfl, hg, hrep⟩
      · rw [if_neg hg, mckayTail_eq hZ] at h
        cases h
        exact .inr ⟨.inr hg, rfl⟩

theorem isRot_x90Stmt (atol : α) (q : Int) (ax : Vec3 α) : IsRot q "X90" (x90Stmt atol q ax) := ⟨_, _, _, _, rfl⟩

theorem mem_optRz {atol : α} {q : Int} {axZ : Vec3 α} {θ : α} {s : GStmt α} (h : s ∈ optRz atol q axZ θ) :
    s = rotStmt atol "Rz" q axZ θ ∧ atol < absS θ := by
  unfold optRz at h
  split at h
  · simp only [List.mem_cons, List.not_mem_nil, or_false] at h; exact ⟨h, ‹_›⟩
  · cases h

theorem optRz_length (atol : α) (q : Int) (axZ : Vec3 α) (θ : α) : (optRz atol q axZ θ).length ≤ 1 := by
  unfold optRz; split <;> simp

theorem optRz_filter_x90 (atol : α) (q : Int) (axZ : Vec3 α) (θ : α) :
    (optRz atol q axZ θ).filter (fun s => s.name? == some "X90") = [] := by
  unfold optRz; split <;> simp [GStmt.name?, rotStmt]

/-- shape of the generic McKay path: `Rz`s with `atol < |parameter|` and exactly two `X90`, at most five gates -/
theorem mckayGeneric_shape (atol : α) (q : Int) (axX axZ : Vec3 α) (a : α × α × α) :
    (∀ s ∈ mckayGeneric atol q axX axZ a,
      s = x90Stmt atol q axX ∨
      ∃ θ, (θ = a.1 ∨ θ = a.2.1 ∨ θ = a.2.2) ∧ s = rotStmt atol "Rz" q axZ θ ∧ atol < absS θ) ∧
    (mckayGeneric atol q axX axZ a).length ≤ 5 ∧
    ((mckayGeneric atol q axX axZ a).filter (fun s => s.name? == some "X90")).length = 2 := by
  unfold mckayGeneric
  split
  · refine ⟨?_, by simp, by simp [GStmt.name?, x90Stmt]⟩
    intro s hs
    simp only [List.mem_cons, List.not_mem_nil, or_false, or_self] at hs
    exact .inl hs
  · refine ⟨?_, ?_, ?_⟩
    · intro s hs
      simp only [List.mem_append, List.mem_cons, List.not_mem_nil, or_false] at hs
      rcases hs with (((hs | rfl) | hs) | rfl) | hs
      · exact .inr ⟨_, .inl rfl, mem_optRz hs⟩
      · exact .inl rfl
      · exact .inr ⟨_, .inr (.inl rfl), mem_optRz hs⟩
      · exact .inl rfl
      · exact .inr ⟨_, .inr (.inr rfl), mem_optRz hs⟩
    · have h1 := optRz_length atol q axZ a.1
      have h2 := optRz_length atol q axZ a.2.1
      have h3 := optRz_length atol q axZ a.2.2
      simp only [List.length_append, List.length_cons, List.length_nil]
      omega
    · simp only [List.filter_append, optRz_filter_x90]
      simp [GStmt.name?, x90Stmt]

private theorem foi_single (atol : α) (s : GStmt α) :
    filterOutIdentities atol [s] = if s.1.isIdentity atol then [] else [s] := by
  unfold filterOutIdentities
  cases h : s.1.isIdentity atol <;> simp [List.filter, h]

/-- **C10, McKay**: every emitted gate is a rotation on the input qubit named `Rz` or `X90`; at most five gates; at
    most two `X90`.  (Holds for every input rotation, also the pass-through one.) -/
theorem mckay_shape {atol : α} {q : Int} {ax : Vec3 α} {an ph : α} {nm : Option (Named α)}
    {out : List (GStmt α)} (h : mckayDecompose atol (.bsr q ax an ph, nm) = .ok out) :
    (∀ s ∈ out, IsRot q "Rz" s ∨ IsRot q "X90" s) ∧ out.length ≤ 5 ∧
    (out.filter (fun s => s.name? == some "X90")).length ≤ 2 := by
  rcases mckay_form h with ⟨hP, rfl⟩ | ⟨-, ⟨-, rfl⟩ | ⟨-, ⟨-, axZ, -, rfl⟩ | ⟨-, t1, t2, t3, axX, axZ, -, -, -, h4 | h5⟩⟩⟩
  · refine ⟨?_, by simp, ?_⟩
    · intro s hs
      simp only [List.mem_cons, List.not_mem_nil, or_false] at hs
      subst hs
      cases nm with
      | none => simp at hP
      | some n =>
        obtain ⟨name, args⟩ := n
        simp only [Option.map_some, Option.some.injEq] at hP
        rcases hP with rfl | rfl
        · exact .inl ⟨_, _, _, _, rfl⟩
        · exact .inr ⟨_, _, _, _, rfl⟩
    · exact Nat.le_trans (List.length_filter_le _ _) (by simp)
  · simp
  · refine ⟨?_, by simp, Nat.le_trans (List.length_filter_le _ _) (by simp)⟩
    intro s hs
    simp only [List.mem_cons, List.not_mem_nil, or_false] at hs
    subst hs
    exact .inl (isRot_rotStmt ..)
  · obtain ⟨-, -, rfl⟩ := h4
    simp only [foi_single]
    refine ⟨?_, ?_, ?_⟩
    · intro s hs
      simp only [List.mem_append, List.mem_cons] at hs
      rcases hs with hs | rfl | hs
      · split at hs
        · cases hs
        · simp only [List.mem_cons, List.not_mem_nil, or_false] at hs; subst hs; exact .inl (isRot_rotStmt ..)
      · exact .inr (isRot_x90Stmt ..)
      · split at hs
        · cases hs
        · simp only [List.mem_cons, List.not_mem_nil, or_false] at hs; subst hs; exact .inl (isRot_rotStmt ..)
    · split <;> split <;> simp
    · split <;> split <;> simp [GStmt.name?, rotStmt, x90Stmt]
  · obtain ⟨-, rfl⟩ := h5
    obtain ⟨hm, hl, hc⟩ := mckayGeneric_shape atol q axX axZ (mckayAngles atol ax an)
    refine ⟨?_, hl, Nat.le_of_eq hc⟩
    intro s hs
    rcases hm s hs with rfl | ⟨θ, -, rfl, -⟩
    · exact .inr (isRot_x90Stmt ..)
    · exact .inl (isRot_rotStmt ..)

theorem mckay_all_named {atol : α} {q : Int} {ax : Vec3 α} {an ph : α} {nm : Option (Named α)}
    {out : List (GStmt α)} (h : mckayDecompose atol (.bsr q ax an ph, nm) = .ok out) :
    ∀ s ∈ out, s.2.isSome = true := fun s hs => ((mckay_shape h).1 s hs).elim IsRot.isSome IsRot.isSome

/-- **pass-through** (1): a gate that is not a Bloch-sphere rotation is returned unchanged -/
theorem mckay_passthrough (atol : α) (g : Gate α) (nm : Option (Named α))
    (hg : ∀ q ax an ph, g ≠ .bsr q ax an ph) : mckayDecompose atol (g, nm) = .ok [(g, nm)] := by
  cases g with
  | bsr q ax an ph => exact absurd rfl (hg q ax an ph)
  | matrix m ops => rfl
  | ctrl c g => rfl

/-- **pass-through** (2): any gate whose name is `Rz` or `X90` is returned unchanged -/
theorem mckay_passthrough_native (atol : α) (g : Gate α) (nm : Option (Named α))
    (hn : nm.map (·.name) = some "Rz" ∨ nm.map (·.name) = some "X90") :
    mckayDecompose atol (g, nm) = .ok [(g, nm)] := by
  cases g with
  | bsr q ax an ph =>
    rw [mckayDecompose_bsr_eq, if_pos]
    rcases hn with h | h <;> simp [GStmt.name?, h]
  | matrix m ops => rfl
  | ctrl c g => rfl

/-- a rotation with `|angle| < atol` (not named `Rz`/`X90`) decomposes into nothing -/
theorem mckay_null (atol : α) (q : Int) (ax : Vec3 α) (an ph : α) (nm : Option (Named α))
    (hn : ¬ (nm.map (·.name) = some "Rz" ∨ nm.map (·.name) = some "X90")) (ha : absS an < atol) :
    mckayDecompose atol (.bsr q ax an ph, nm) = .ok [] := by
  rw [mckayDecompose_bsr_eq, if_neg, if_pos ha]
  simpa [GStmt.name?] using hn

/-- **no identity, structural part** (every scalar type): each gate emitted for a rotation not named `Rz`/`X90` is
    (a) a gate that passed the identity filter (Z-X-Z shortcut), or (b) an `X90`, or (c) an `Rz(q, θ)` whose
    *parameter* satisfies the guard `atol < |θ|` and is one of the three (normalised) `mckayAngles` (generic path), or
    is `angle * axis_z` of an input with
    `¬ |angle| < atol` and `axis_x == 0 and axis_y == 0` (rotation about z).  That (b), (c) are not identities needs facts about `normalizeAngle`
    and `π` that no abstract scalar provides; see `OSq.Proofs.ShapeReal` for `α = ℝ`. -/
theorem no_identity_mckay {atol : α} {q : Int} {ax : Vec3 α} {an ph : α} {nm : Option (Named α)}
    {out : List (GStmt α)} (h : mckayDecompose atol (.bsr q ax an ph, nm) = .ok out)
    (hn : ¬ (nm.map (·.name) = some "Rz" ∨ nm.map (·.name) = some "X90")) :
    ∀ s ∈ out, s.1.isIdentity atol = false ∨ (∃ axX, s = x90Stmt atol q axX) ∨
      ∃ axZ θ, s = rotStmt atol "Rz" q axZ θ ∧
        ((atol < absS θ ∧ (θ = (mckayAngles atol ax an).1 ∨ θ = (mckayAngles atol ax an).2.1 ∨
            θ = (mckayAngles atol ax an).2.2)) ∨
         (θ = an * ax.2.2 ∧ ¬ absS an < atol ∧ (Scalar.decEqB ax.1 zero && Scalar.decEqB ax.2.1 zero) = true)) := by
  rcases mckay_form h with ⟨hP, -⟩ | ⟨-, ⟨-, rfl⟩ | ⟨hE, ⟨hzf, axZ, -, rfl⟩ | ⟨-, t1, t2, t3, axX, axZ, -, -, -, h4 | h5⟩⟩⟩
  · exact absurd hP hn
  · simp
  · intro s hs
    simp only [List.mem_cons, List.not_mem_nil, or_false] at hs
    subst hs
    exact .inr (.inr ⟨axZ, _, rfl, .inr ⟨rfl, hE, hzf⟩⟩)
  · obtain ⟨-, -, rfl⟩ := h4
    intro s hs
    simp only [List.mem_append, List.mem_cons] at hs
    rcases hs with hs | rfl | hs
    · exact .inl (mem_filterOutIdentities.1 hs).2
    · exact .inr (.inl ⟨axX, rfl⟩)
    · exact .inl (mem_filterOutIdentities.1 hs).2
  · obtain ⟨-, rfl⟩ := h5
    intro s hs
    rcases (mckayGeneric_shape atol q axX axZ (mckayAngles atol ax an)).1 s hs with rfl | ⟨θ, hwhich, rfl, hθ⟩
    · exact .inr (.inl ⟨axX, rfl⟩)
    · exact .inr (.inr ⟨axZ, θ, rfl, .inl ⟨hθ, hwhich⟩⟩)

/-! ### operands of the emitted gates (used by the pipeline proofs) -/

private theorem ops_of_isRot {q : Int} {n : String} {s : GStmt α} {g : Gate α} (h : IsRot q n s) (hq : q ∈ g.operands) :
    (∀ x ∈ s.1.operands, x ∈ g.operands) ∧ hasDup s.1.operands = false ∧ s.1.shapeOk = true := by
  obtain ⟨_, _, _, _, rfl⟩ := h
  refine ⟨?_, rfl, rfl⟩
  intro x hx
  simp only [Gate.operands, List.mem_cons, List.not_mem_nil, or_false] at hx
  exact hx ▸ hq

private theorem ops_of_self {g : Gate α} {nm : Option (Named α)} {out : List (GStmt α)}
    (hd : hasDup g.operands = false) (h : Except.ok (ε := Err) [(g, nm)] = .ok out) :
    ∀ s ∈ out, (∀ x ∈ s.1.operands, x ∈ g.operands) ∧ hasDup s.1.operands = false ∧
      (g.shapeOk = true → s.1.shapeOk = true) := by
  cases h
  intro s hs
  simp only [List.mem_cons, List.not_mem_nil, or_false] at hs
  subst hs
  exact ⟨fun _ hx => hx, hd, id⟩

/-- **operands of a decomposition**: for each of the three built-in decomposers, every emitted gate acts on qubits of
    the input gate only, has no repeated operand, and is shape-correct if the input is.  The premise
    `hasDup g.operands = false` (true of every constructible gate) is only used by the pass-through branches; for
    the CNOT decomposer `control ≠ target` is *not* needed as a hypothesis: `CNOT(c, c)` raises (`named_CNOT_iff`),
    so a successful run already implies it (`cnot_shape`). -/
theorem decomposer_operands_subset (atol : α) (d : Decomposer) (g : Gate α) (nm : Option (Named α))
    (out : List (GStmt α)) (hd : hasDup g.operands = false) (h : d.run atol (g, nm) = .ok out) :
    ∀ s ∈ out, (∀ x ∈ s.1.operands, x ∈ g.operands) ∧ hasDup s.1.operands = false ∧
      (g.shapeOk = true → s.1.shapeOk = true) := by
  cases d with
  | aba k =>
    change abaDecompose atol k (g, nm) = .ok out at h
    cases g with
    | bsr q ax an ph =>
      intro s hs
      have hq : q ∈ (Gate.bsr q ax an ph).operands := by simp [Gate.operands]
      rcases aba_all_rot h s hs with hr | hr
      · obtain ⟨h1, h2, h3⟩ := ops_of_isRot hr hq; exact ⟨h1, h2, fun _ => h3⟩
      · obtain ⟨h1, h2, h3⟩ := ops_of_isRot hr hq; exact ⟨h1, h2, fun _ => h3⟩
    | matrix m ops =>
      rw [aba_passthrough atol k _ nm (by intro _ _ _ _ h; cases h)] at h; exact ops_of_self hd h
    | ctrl c g' =>
      rw [aba_passthrough atol k _ nm (by intro _ _ _ _ h; cases h)] at h; exact ops_of_self hd h
  | mckay =>
    change mckayDecompose atol (g, nm) = .ok out at h
    cases g with
    | bsr q ax an ph =>
      intro s hs
      have hq : q ∈ (Gate.bsr q ax an ph).operands := by simp [Gate.operands]
      rcases (mckay_shape h).1 s hs with hr | hr
      · obtain ⟨h1, h2, h3⟩ := ops_of_isRot hr hq; exact ⟨h1, h2, fun _ => h3⟩
      · obtain ⟨h1, h2, h3⟩ := ops_of_isRot hr hq; exact ⟨h1, h2, fun _ => h3⟩
    | matrix m ops =>
      rw [mckay_passthrough atol _ nm (by intro _ _ _ _ h; cases h)] at h; exact ops_of_self hd h
    | ctrl c g' =>
      rw [mckay_passthrough atol _ nm (by intro _ _ _ _ h; cases h)] at h; exact ops_of_self hd h
  | cnot =>
    change cnotDecompose atol (g, nm) = .ok out at h
    by_cases hg : ∃ c t ax an ph, g = .ctrl c (.bsr t ax an ph)
    · obtain ⟨c, t, ax, an, ph, rfl⟩ := hg
      have hct := (cnot_shape h).1
      have hc : c ∈ (Gate.ctrl c (.bsr t ax an ph)).operands := by simp [Gate.operands]
      have ht : t ∈ (Gate.ctrl c (.bsr t ax an ph)).operands := by simp [Gate.operands]
      intro s hs
      rcases cnot_elems h s hs with hr | hr | hr | hr
      · obtain ⟨_, _, _, rfl⟩ := hr
        refine ⟨fun x hx => ?_, ?_, fun _ => rfl⟩
        · simpa [Gate.operands] using hx
        · have : ¬ t = c := fun e => hct e.symm
          simp [Gate.operands, hasDup, this, hct]
      · obtain ⟨h1, h2, h3⟩ := ops_of_isRot hr ht; exact ⟨h1, h2, fun _ => h3⟩
      · obtain ⟨h1, h2, h3⟩ := ops_of_isRot hr ht; exact ⟨h1, h2, fun _ => h3⟩
      · obtain ⟨h1, h2, h3⟩ := ops_of_isRot hr hc; exact ⟨h1, h2, fun _ => h3⟩
    · rw [cnot_passthrough atol g nm (fun c t ax an ph hh => hg ⟨c, t, ax, an, ph, hh⟩)] at h
      exact ops_of_self hd h

end OSq

/-! ### examples (non-vacuity), at a toy scalar -/
namespace OSq.ShapeExamples
open OSq

/-- integers with trivial "transcendental" functions: enough to *run* the structural part of the model inside the
    kernel.  No theorem depends on it; it only shows that the hypotheses of the theorems above are satisfiable. -/
structure Toy where
  v : Int
deriving DecidableEq, Inhabited

instance : Scalar Toy where
  add a b := ⟨a.v + b.v⟩
  sub a b := ⟨a.v - b.v⟩
  mul a b := ⟨a.v * b.v⟩
  div a b := ⟨a.v / b.v⟩
  neg a := ⟨-a.v⟩
  lt a b := a.v < b.v
  le a b := a.v ≤ b.v
  natCast n := ⟨n⟩
  pi := ⟨3⟩
  sin := id
  cos := id
  tan := id
  acos := id
  sqrt := id
  atan2 a _ := a
  floor := id
  abs a := ⟨a.v.natAbs⟩
  copysign a _ := a
  finite _ := true
  ofScientific m s e := ⟨if s then 0 else m * 10 ^ e⟩
  decLt a b := inferInstanceAs (Decidable (a.v < b.v))
  decLe a b := inferInstanceAs (Decidable (a.v ≤ b.v))
  decEqB a b := a.v == b.v

def toyAxis : Nat → Vec3 Toy
  | 0 => (⟨1⟩, ⟨0⟩, ⟨0⟩)
  | 1 => (⟨0⟩, ⟨1⟩, ⟨0⟩)
  | _ => (⟨0⟩, ⟨0⟩, ⟨1⟩)

theorem toy_mkAxis (i : Nat) : mkAxis (axisLit i : Vec3 Toy) = .ok (toyAxis i) := by
  match i with
  | 0 => rfl
  | 1 => rfl
  | (n + 2) => exact (rfl : mkAxis ((intToScalar 0, intToScalar 0, intToScalar 1) : Vec3 Toy) = .ok (⟨0⟩, ⟨0⟩, ⟨1⟩))

theorem toy_rot (atol : Toy) (i : Nat) (q : Int) (θ : Toy) :
    named atol (rotName i) [.qubit q, .float θ] = .ok (rotStmt atol (rotName i) q (toyAxis i) θ) :=
  (named_rot_iff ..).2 ⟨_, toy_mkAxis i, rfl⟩
theorem toy_Rx (atol : Toy) (q : Int) (θ : Toy) :
    named atol "Rx" [.qubit q, .float θ] = .ok (rotStmt atol "Rx" q (toyAxis 0) θ) := toy_rot atol 0 q θ
theorem toy_Ry (atol : Toy) (q : Int) (θ : Toy) :
    named atol "Ry" [.qubit q, .float θ] = .ok (rotStmt atol "Ry" q (toyAxis 1) θ) := toy_rot atol 1 q θ
theorem toy_Rz (atol : Toy) (q : Int) (θ : Toy) :
    named atol "Rz" [.qubit q, .float θ] = .ok (rotStmt atol "Rz" q (toyAxis 2) θ) := toy_rot atol 2 q θ
theorem toy_x90 (atol : Toy) (q : Int) : named atol "X90" [.qubit q] = .ok (x90Stmt atol q (toyAxis 0)) :=
  (named_X90_iff ..).2 ⟨_, toy_mkAxis 0, rfl⟩
theorem toy_x (atol : Toy) (q : Int) : named atol "X" [.qubit q] = .ok (xStmt atol q (toyAxis 0)) :=
  (named_X_iff ..).2 ⟨_, toy_mkAxis 0, rfl⟩
theorem toy_cnot (atol : Toy) (c t : Int) (h : c ≠ t) :
    named atol "CNOT" [.qubit c, .qubit t] = .ok (cnotStmt atol c t (toyAxis 0)) :=
  (named_CNOT_iff ..).2 ⟨_, toy_mkAxis 0, h, rfl⟩

/-- `named_CNOT_iff`: `CNOT(c, c)` raises -/
example (atol : Toy) (c : Int) (g : GStmt Toy) : named atol "CNOT" [.qubit c, .qubit c] ≠ .ok g := by
  intro h; obtain ⟨_, _, hne, _⟩ := (named_CNOT_iff ..).1 h; exact hne rfl

/-- names of the emitted gates, `none` on failure -/
def names (r : Except Err (List (GStmt Toy))) : Option (List (Option String)) :=
  r.toOption.map (List.map GStmt.name?)

theorem of_names {r : Except Err (List (GStmt Toy))} {l : List (Option String)} (h : names r = some l) :
    ∃ out, r = .ok out ∧ out.map GStmt.name? = l := by
  cases r with
  | error e => simp [names, Except.toOption] at h
  | ok out => exact ⟨out, rfl, by simpa [names, Except.toOption] using h⟩

/-- `aba_shape` is not vacuous: a Z-Y-Z decomposition with all three members … -/
theorem toy_aba3 : names (abaDecompose (⟨0⟩:Toy) .ZYZ (.bsr 0 (⟨0⟩,⟨1⟩,⟨0⟩) ⟨1⟩ ⟨0⟩, none)) =
    some [some "Rz", some "Ry", some "Rz"] := by
  simp only [abaDecompose, toy_rot, bind, Except.bind, pure, Except.pure]
  rfl
example : ∃ out, abaDecompose (⟨0⟩:Toy) .ZYZ (.bsr 0 (⟨0⟩,⟨1⟩,⟨0⟩) ⟨1⟩ ⟨0⟩, none) = .ok out ∧
    out.map GStmt.name? = [some "Rz", some "Ry", some "Rz"] ∧ out.length ≤ 3 ∧
    ∀ s ∈ out, s.1.isIdentity (⟨0⟩:Toy) = false := by
  obtain ⟨out, h, hn⟩ := of_names toy_aba3
  exact ⟨out, h, hn, aba_length h, no_identity_aba h⟩

/-- … and one where the identity filter removes two of them -/
theorem toy_aba1 : names (abaDecompose (⟨1⟩:Toy) .XZX (.bsr 0 (⟨0⟩,⟨1⟩,⟨0⟩) ⟨2⟩ ⟨0⟩, none)) = some [some "Rz"] := by
  simp only [abaDecompose, toy_rot, bind, Except.bind, pure, Except.pure]
  rfl
example : ∃ out, abaDecompose (⟨1⟩:Toy) .XZX (.bsr 0 (⟨0⟩,⟨1⟩,⟨0⟩) ⟨2⟩ ⟨0⟩, none) = .ok out ∧
    (out.map GStmt.name?).Sublist [some "Rx", some "Rz", some "Rx"] ∧ out.length = 1 := by
  obtain ⟨out, h, hn⟩ := of_names toy_aba1
  exact ⟨out, h, aba_names h, by simpa using congrArg List.length hn⟩

/-- `aba_passthrough` on a controlled gate -/
example : abaDecompose (⟨0⟩:Toy) .XYX (.ctrl 1 (.bsr 0 (⟨0⟩,⟨1⟩,⟨0⟩) ⟨2⟩ ⟨0⟩), none) =
    .ok [(.ctrl 1 (.bsr 0 (⟨0⟩,⟨1⟩,⟨0⟩) ⟨2⟩ ⟨0⟩), none)] :=
  aba_passthrough _ _ _ _ (by intro _ _ _ _ h; cases h)

/-- **the CNOT decomposer can emit eight gates** (so `cnot_length` cannot be improved to 7): two-CNOT form, nothing
    filtered.  (Python agrees: `CNOTDecomposer().decompose(ControlledGate(1, BlochSphereRotation(0, axis=(1, 2, 3),
    angle=1.0, phase=0.5)))` returns 8 gates.) -/
theorem toy_cnot8 : names (cnotDecompose (⟨0⟩:Toy) (.ctrl 1 (.bsr 0 (⟨0⟩,⟨0⟩,⟨1⟩) ⟨2⟩ ⟨1⟩), none)) =
    some [some "Rz", some "CNOT", some "Rz", some "Ry", some "CNOT", some "Ry", some "Rz", some "Rz"] := by
  simp only [cnotDecompose, toy_x, toy_cnot _ 1 0 (by decide), toy_Ry, toy_Rz, bind, Except.bind, pure, Except.pure]
  rfl
example : ∃ out, cnotDecompose (⟨0⟩:Toy) (.ctrl 1 (.bsr 0 (⟨0⟩,⟨0⟩,⟨1⟩) ⟨2⟩ ⟨1⟩), none) = .ok out ∧
    out.length = 8 ∧ (out.filter (fun s => s.name? == some "CNOT")).length ≤ 2 ∧
    ∀ s ∈ out, IsCnot 1 0 s ∨ IsRot 0 "Ry" s ∨ IsRot 0 "Rz" s ∨ IsRot 1 "Rz" s := by
  obtain ⟨out, h, hn⟩ := of_names toy_cnot8
  exact ⟨out, h, by simpa using congrArg List.length hn, cnot_count h, cnot_elems h⟩

/-- the one-CNOT form, with three members filtered out -/
theorem toy_cnot3 : names (cnotDecompose (⟨1⟩:Toy) (.ctrl 1 (.bsr 0 (⟨0⟩,⟨1⟩,⟨0⟩) ⟨2⟩ ⟨2⟩), none)) =
    some [some "Ry", some "CNOT", some "Ry"] := by
  simp only [cnotDecompose, toy_x, toy_cnot _ 1 0 (by decide), toy_Ry, toy_Rz, bind, Except.bind, pure, Except.pure]
  rfl
example : ∃ out, cnotDecompose (⟨1⟩:Toy) (.ctrl 1 (.bsr 0 (⟨0⟩,⟨1⟩,⟨0⟩) ⟨2⟩ ⟨2⟩), none) = .ok out ∧
    out.length = 3 ∧ ∀ s ∈ out, s.1.isIdentity (⟨1⟩:Toy) = false := by
  obtain ⟨out, h, hn⟩ := of_names toy_cnot3
  exact ⟨out, h, by simpa using congrArg List.length hn, no_identity_cnot h⟩

/-- `cnot_passthrough` on a doubly-controlled gate -/
example : cnotDecompose (⟨0⟩:Toy) (.ctrl 2 (.ctrl 1 (.bsr 0 (⟨0⟩,⟨1⟩,⟨0⟩) ⟨2⟩ ⟨0⟩)), none) =
    .ok [(.ctrl 2 (.ctrl 1 (.bsr 0 (⟨0⟩,⟨1⟩,⟨0⟩) ⟨2⟩ ⟨0⟩)), none)] :=
  cnot_passthrough _ _ _ (by intro _ _ _ _ _ h; cases h)

/-- McKay, generic path: `X90 · Rz · X90 · Rz` (the first `Rz` is dropped by its guard) -/
theorem toy_mckay4 : names (mckayDecompose (⟨0⟩:Toy) (.bsr 0 (⟨0⟩,⟨1⟩,⟨0⟩) ⟨1⟩ ⟨0⟩, none)) =
    some [some "X90", some "Rz", some "X90", some "Rz"] := by
  simp only [mckayDecompose_bsr_eq, abaDecompose, mckayTail, mckayOpt, toy_rot, toy_x90, toy_Rz, bind, Except.bind,
    pure, Except.pure]
  rfl
example : ∃ out, mckayDecompose (⟨0⟩:Toy) (.bsr 0 (⟨0⟩,⟨1⟩,⟨0⟩) ⟨1⟩ ⟨0⟩, none) = .ok out ∧ out.length = 4 ∧
    (∀ s ∈ out, IsRot 0 "Rz" s ∨ IsRot 0 "X90" s) ∧ (out.filter (fun s => s.name? == some "X90")).length ≤ 2 := by
  obtain ⟨out, h, hn⟩ := of_names toy_mckay4
  exact ⟨out, h, by simpa using congrArg List.length hn, (mckay_shape h).1, (mckay_shape h).2.2⟩

/-- McKay, Z-X-Z shortcut: the `Rx` of the Z-X-Z decomposition is replaced by `X90`; one `Rz` was filtered out -/
theorem toy_mckay2 : names (mckayDecompose (⟨3⟩:Toy) (.bsr 0 (⟨1⟩,⟨0⟩,⟨0⟩) ⟨3⟩ ⟨0⟩, none)) =
    some [some "Rz", some "X90"] := by
  simp only [mckayDecompose_bsr_eq, abaDecompose, mckayTail, mckayOpt, toy_rot, toy_x90, toy_Rz, bind, Except.bind,
    pure, Except.pure]
  rfl
example : ∃ out, mckayDecompose (⟨3⟩:Toy) (.bsr 0 (⟨1⟩,⟨0⟩,⟨0⟩) ⟨3⟩ ⟨0⟩, none) = .ok out ∧ out.length = 2 ∧
    ∀ s ∈ out, IsRot 0 "Rz" s ∨ IsRot 0 "X90" s := by
  obtain ⟨out, h, hn⟩ := of_names toy_mckay2
  exact ⟨out, h, by simpa using congrArg List.length hn, (mckay_shape h).1⟩

/-- `mckay_passthrough_native`, `mckay_null` -/
example (g : Gate Toy) (args : List (Arg Toy)) :
    mckayDecompose (⟨0⟩:Toy) (g, some ⟨"X90", args⟩) = .ok [(g, some ⟨"X90", args⟩)] :=
  mckay_passthrough_native _ _ _ (.inr rfl)
example : mckayDecompose (⟨1⟩:Toy) (.bsr 0 (⟨0⟩,⟨1⟩,⟨0⟩) ⟨0⟩ ⟨0⟩, none) = .ok [] :=
  mckay_null _ _ _ _ _ _ (by simp) (by decide)

/-- `decomposer_operands_subset` on the eight-gate CNOT decomposition -/
example : ∃ out, Decomposer.cnot.run (⟨0⟩:Toy) (.ctrl 1 (.bsr 0 (⟨0⟩,⟨0⟩,⟨1⟩) ⟨2⟩ ⟨1⟩), none) = .ok out ∧
    out.length = 8 ∧ ∀ s ∈ out, (∀ x ∈ s.1.operands, x ∈ [1, 0]) ∧ hasDup s.1.operands = false := by
  obtain ⟨out, h, hn⟩ := of_names toy_cnot8
  have h' : Decomposer.cnot.run (⟨0⟩:Toy) (.ctrl 1 (.bsr 0 (⟨0⟩,⟨0⟩,⟨1⟩) ⟨2⟩ ⟨1⟩), none) = .ok out := h
  have key := decomposer_operands_subset _ _ _ _ _ (by decide) h'
  exact ⟨out, h', by simpa using congrArg List.length hn, fun s hs => ⟨(key s hs).1, (key s hs).2.1⟩⟩

end OSq.ShapeExamples

#print axioms OSq.named_rot_iff
#print axioms OSq.named_X90_iff
#print axioms OSq.named_X_iff
#print axioms OSq.named_I_iff
#print axioms OSq.named_CNOT_iff
#print axioms OSq.aba_form
#print axioms OSq.aba_shape
#print axioms OSq.aba_names
#print axioms OSq.aba_all_rot
#print axioms OSq.no_identity_aba
#print axioms OSq.aba_passthrough
#print axioms OSq.cnot_form
#print axioms OSq.cnot_shape
#print axioms OSq.cnot_elems
#print axioms OSq.cnot_count
#print axioms OSq.cnot_length
#print axioms OSq.cnot_passthrough
#print axioms OSq.mckayDecompose_bsr_eq
#print axioms OSq.mckay_form
#print axioms OSq.mckay_shape
#print axioms OSq.no_identity_mckay
#print axioms OSq.mckay_passthrough
#print axioms OSq.mckay_passthrough_native
#print axioms OSq.mckay_null
#print axioms OSq.decomposer_operands_subset
