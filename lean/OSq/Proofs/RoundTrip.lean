import OSq.Sem.Grammar
import OSq.Proofs.FloatFmt
/-
  OSq.Proofs.RoundTrip — reading back what the writers write (properties C04, C12, C20).
  The reader is the specification `OSq/Sem/Grammar.lean` (`readLine3`, `readProgram3`, `readLine1`,
  `readProgram1`); the writers are `writeStmt`, `writeCircuit`, `exportV1Stmt`, `exportV1` of
  `OSq/Model/Text.lean` (Python `writer/writer.py`, `exporter/cqasmv1_exporter.py`).

  Hypotheses (all explicit)
  * `Stmt.Writable s`   the statement is named and its name is an identifier (`isIdent`); a gate has no bit argument
                        and at least one qubit operand; a measure has arguments `[qubit, bit]`, a reset `[qubit]`;
                        a comment has no newline and no `*/`.
  * `hfmt : ∀ x, isParamTok (fmt x)`   the float formatter produces parameter tokens (non-empty, none of
                        `, ( ) [ ]`, space, newline, tab, carriage return).  `isParamTok_intText`: integers are rendered as such tokens.

  Definitions: `stmtBody fmt s` the line written for `s` (without newlines; `writeStmt_eq_body`),
  `expectedLine3 fmt s` the `Line3` expected back, `Block` / `blocksText` texts as sequences of lines with blank
  lines around them.

  Theorems
  * `readLine3_gate`       C20/C04: `name[(p1, …)] q[i], …` reads as `gate name (paramTexts fmt nm) nm.qubitArgs`.
  * `readLine3_measure`    `b[i] = name q[j]` reads as `measure i name j`.
  * `readLine3_reset`      `name q[j]` reads as `gate name [] [j]` (one-operand gate shape with the reset's name);
    `readLine3_reset_classify`  classified by name (`Line3.classify`) it is `reset name j`.
  * `readLine3_comment`    `/* text */` reads as `comment text`.
  * `readLine3_writeStmt`  (Theorem 1) all kinds: `readLine3 (stmtBody fmt s) = some (expectedLine3 fmt s)`.
  * `readLines_rstrip_blocks`  generic: a text that is a sequence of good blocks, right-stripped plus `"\n"`,
                           reads line by line as the block values and blank lines only.
  * `readProgram3_writeCircuit`  (Theorem 2, main) `readProgram3 (writeCircuit fmt anon c) =
                           some (c.nQubits, c.nBits, c.stmts.map (expectedLine3 fmt))`.
  * `readLine1_gate`, `readLine1_measure`, `readLine1_reset`, `readLine1_comment`, `readLine1_exportStmt`
                           C12 per line: lower-cased name, the qubits, then the parameters; `measure_z q[i]`,
                           `prep_z q[i]`; (`isIdent_toLower`: the lower-cased name is still an identifier).
  * `exportV1_writable`    on `Writable` statements the export succeeds.
  * `readProgram1_exportV1`  (Theorem 3) `exportV1 fmt c = .ok text → readProgram1 text =
                           some (c.nQubits, c.stmts.map (expectedLine1 fmt))` (no `qubits` line ⇒ size 0).
  * `isParamTok_intText`, `isParamTok_fmtFloat`   integers and `fmtFloat P x` (all `x`, also `inf`/`nan`) are
                           parameter tokens, so `hfmt` holds for the real formatter:
    `readProgram3_writeCircuit_float`, `readProgram1_exportV1_float`.
  * `decimalValue : String → Option ℚ`   the rational denoted by `[-]d+.d+(e[+-]d+)?`.
  * `decimalValue_fmtDigs` the text laid out by `fmtDigs` (after `fixExponent`, behind an optional sign) denotes
                           `± N(ds)·10^(decpt−|ds|)`, `ds` the significant digits — all five layouts.
  * `param_value_digits`   (Theorem 4) for a finite non-zero double the written text parses to `± d·10^(e−P)`, `d` a
                           `P`-digit integer, sign = sign bit, `|num/den − d·10^(e−P)| ≤ 10^(e−P)/2`.
  * `param_value`          … i.e. to a rational `v` with `10^(e−1) ≤ |v| < 10^e` and `|x − v| ≤ 10^(e−P)/2`
                           (`x = bitsValue bits` the exact value): correct to `P` (= 8) significant digits.
    `param_value_float`    the same for the text of a `.float x` argument; `param_value_zero`: `±0` ↦ `0`.
-/

namespace OSq
open Gram
variable {α : Type}

/-! ### Helper lemmas on character lists -/

theorem stripPrefix_append (p l : List Char) : stripPrefix p (p ++ l) = some l := by
  induction p with
  | nil => cases l <;> rfl
  | cons a t ih => simp [stripPrefix, ih]

theorem stripSuffix_append (s l : List Char) : stripSuffix s (l ++ s) = some l := by
  simp [stripSuffix, List.reverse_append, stripPrefix_append]

theorem splitAt1_append (c : Char) (a b : List Char) (h : c ∉ a) : splitAt1 c (a ++ c :: b) = some (a, b) := by
  induction a with
  | nil => simp [splitAt1]
  | cons x t ih =>
    have hx : x ≠ c := fun e => h (by simp [e])
    have ht : c ∉ t := fun e => h (by simp [e])
    simp [splitAt1, hx, ih ht]

theorem span_ident (w : List Char) (c : Char) (r : List Char) (hw : ∀ x ∈ w, isIdentChar x = true)
    (hc : isIdentChar c = false) :
    (w ++ c :: r).takeWhile isIdentChar = w ∧ (w ++ c :: r).dropWhile isIdentChar = c :: r := by
  rw [List.takeWhile_append_of_pos hw, List.dropWhile_append_of_pos hw]
  simp [hc]

theorem not_mem_intercalate {c : Char} {sep : List Char} {items : List (List Char)} (hs : c ∉ sep)
    (hi : ∀ x ∈ items, c ∉ x) : c ∉ sep.intercalate items := by
  induction items with
  | nil => simp
  | cons a t ih =>
    cases t with
    | nil => simpa using hi a (by simp)
    | cons b t =>
      rw [List.intercalate_cons_cons]
      simp only [List.mem_append, not_or]
      exact ⟨⟨hi a (by simp), hs⟩, ih (fun x hx => hi x (by simp [hx]))⟩

theorem splitOn_comma_intercalate (a : List Char) (t : List (List Char)) (h : ∀ x ∈ a :: t, ',' ∉ x) :
    ([',', ' '].intercalate (a :: t)).splitOn ',' = a :: t.map (' ' :: ·) := by
  induction t generalizing a with
  | nil => simpa using List.splitOn_eq_singleton (h a (by simp))
  | cons b t ih =>
    rw [List.intercalate_cons_cons]
    have : a ++ [',', ' '] ++ [',', ' '].intercalate (b :: t) = a ++ ',' :: (' ' :: [',', ' '].intercalate (b :: t)) := by
      simp
    rw [this, List.splitOn_append_cons_self_of_not_mem (h a (by simp)), List.splitOn_cons_eq_if_modifyHead,
      ih b (fun x hx => h x (List.mem_cons_of_mem _ hx)), if_neg (by decide)]
    rfl

theorem mapM_map_some {β γ : Type} (f : β → γ) (g : γ → Option β) (h : ∀ x, g (f x) = some x) (l : List β) :
    (l.map f).mapM g = some l := by
  induction l with
  | nil => rfl
  | cons a t ih => simp [List.mapM_cons, h, ih]

theorem flatMap_congr' {β γ : Type} {f g : β → List γ} {l : List β} (h : ∀ x ∈ l, f x = g x) :
    l.flatMap f = l.flatMap g := by
  induction l with
  | nil => rfl
  | cons a t ih =>
    rw [List.flatMap_cons, List.flatMap_cons, h a (by simp), ih (fun x hx => h x (List.mem_cons_of_mem _ hx))]

theorem mapM_stripSpace (t : List (List Char)) : (t.map (' ' :: ·)).mapM (stripPrefix [' ']) = some t := by
  induction t with
  | nil => rfl
  | cons a t ih => simp [List.mapM_cons, ih, stripPrefix]

theorem splitCommaSp_intercalate (items : List (List Char)) (hne : items ≠ []) (h : ∀ x ∈ items, ',' ∉ x) :
    splitCommaSp ([',', ' '].intercalate items) = some items := by
  obtain ⟨a, t, rfl⟩ := List.exists_cons_of_ne_nil hne
  simp only [splitCommaSp, splitOn_comma_intercalate a t h, mapM_stripSpace, Option.map_some]

/-! ### Numbers -/

theorem natText_toList (n : Nat) : (toString n).toList = Nat.toDigits 10 n := by
  rw [Nat.toString_eq_repr, Nat.toList_repr]

theorem natText_digits (n : Nat) : ∀ c ∈ (toString n).toList, c.isDigit = true := by
  intro c hc; rw [natText_toList] at hc
  exact Nat.isDigit_of_mem_toDigits (by decide) (by decide) hc

theorem natText_ne_nil (n : Nat) : (toString n).toList ≠ [] := by
  rw [natText_toList]; exact Nat.toDigits_ne_nil

theorem readNat_toString (n : Nat) : readNat (toString n).toList = some n := by
  have h1 : (toString n).toList.isEmpty = false := by simp
  have h2 : (toString n).toList.all Char.isDigit = true := List.all_eq_true.2 (natText_digits n)
  unfold readNat
  rw [h1, h2, natText_toList]
  simp

theorem intText_ofNat (m : Nat) : toString (Int.ofNat m) = toString m := rfl
theorem intText_negSucc (m : Nat) : toString (Int.negSucc m) = "-" ++ toString (m + 1) := rfl

theorem readInt_toString (i : Int) : readInt (toString i).toList = some i := by
  cases i with
  | ofNat m =>
    rw [intText_ofNat]
    have hr := readNat_toString m
    obtain ⟨c, t, hct⟩ := List.exists_cons_of_ne_nil (natText_ne_nil m)
    have hc : c ≠ '-' := by
      intro e
      have := natText_digits m c (by rw [hct]; simp)
      rw [e] at this; exact absurd this (by decide)
    rw [hct] at hr ⊢
    simp [readInt, hc, hr]
  | negSucc m =>
    rw [intText_negSucc, String.toList_append]
    show readInt ('-' :: (toString (m + 1)).toList) = _
    simp only [readInt, if_true, readNat_toString]
    rfl

theorem intText_chars (i : Int) : ∀ c ∈ (toString i).toList, c.isDigit = true ∨ c = '-' := by
  cases i with
  | ofNat m => intro c hc; rw [intText_ofNat] at hc; exact Or.inl (natText_digits m c hc)
  | negSucc m =>
    intro c hc
    rw [intText_negSucc, String.toList_append] at hc
    rcases List.mem_append.1 hc with h | h
    · right; simpa using h
    · exact Or.inl (natText_digits _ c h)

theorem intText_ne_nil (i : Int) : (toString i).toList ≠ [] := by
  cases i with
  | ofNat m => rw [intText_ofNat]; exact natText_ne_nil m
  | negSucc m => rw [intText_negSucc, String.toList_append]; simp

theorem intText_not_mem (i : Int) (c : Char) (hd : c.isDigit = false) (hm : c ≠ '-') : c ∉ (toString i).toList := by
  intro h
  rcases intText_chars i c h with h | h
  · rw [h] at hd; cases hd
  · exact hm h

/-- the nine characters a parameter token must not contain -/
def paramStop : List Char := [',', '(', ')', '[', ']', ' ', '\n', '\t', '\r']

theorem isParamChar_eq_false {c : Char} (h : isParamChar c = false) : c ∈ paramStop := by
  simp only [isParamChar, Bool.not_eq_false', Bool.or_eq_true, beq_iff_eq] at h
  simp only [paramStop, List.mem_cons, List.not_mem_nil, or_false]
  rcases h with (((((((h | h) | h) | h) | h) | h) | h) | h) | h <;> simp [h]

theorem isParamTokL_of_not_mem {l : List Char} (hne : l ≠ []) (h : ∀ c ∈ paramStop, c ∉ l) :
    isParamTokL l = true := by
  unfold isParamTokL
  rw [Bool.and_eq_true]
  refine ⟨by simpa using hne, List.all_eq_true.2 ?_⟩
  intro c hc
  cases hp : isParamChar c with
  | true => rfl
  | false => exact absurd hc (h c (isParamChar_eq_false hp))

theorem isParamTokL_not_mem {l : List Char} (h : isParamTokL l = true) : l ≠ [] ∧ ∀ c ∈ paramStop, c ∉ l := by
  unfold isParamTokL at h
  rw [Bool.and_eq_true] at h
  refine ⟨by simpa using h.1, ?_⟩
  intro c hc hm
  have := List.all_eq_true.1 h.2 c hm
  simp only [paramStop, List.mem_cons, List.not_mem_nil, or_false] at hc
  rcases hc with rfl | rfl | rfl | rfl | rfl | rfl | rfl | rfl | rfl <;> exact absurd this (by decide)

/-- the decimal rendering of an integer is a parameter token -/
theorem isParamTok_intText (v : Int) : isParamTok (toString v) = true := by
  apply isParamTokL_of_not_mem (intText_ne_nil v)
  intro c hc
  simp only [paramStop, List.mem_cons, List.not_mem_nil, or_false] at hc
  rcases hc with rfl | rfl | rfl | rfl | rfl | rfl | rfl | rfl | rfl <;> exact intText_not_mem v _ (by decide) (by decide)

/-! ### Tokens -/

theorem showQubit_toList (i : Int) : (showQubit i).toList = 'q' :: '[' :: ((toString i).toList ++ [']']) := by
  show ("q[" ++ toString i ++ "]").toList = _
  simp [String.toList_append]

theorem showBit_toList (i : Int) : (showBit i).toList = 'b' :: '[' :: ((toString i).toList ++ [']']) := by
  show ("b[" ++ toString i ++ "]").toList = _
  simp [String.toList_append]

theorem readIndexed_qubit (i : Int) : readIndexed 'q' (showQubit i).toList = some i := by
  rw [showQubit_toList]
  simp only [readIndexed, stripPrefix, if_true, Option.bind_some, stripSuffix_append, readInt_toString]

theorem showQubit_not_mem (i : Int) (c : Char) (hd : c.isDigit = false) (hm : c ≠ '-') (h1 : c ≠ 'q')
    (h2 : c ≠ '[') (h3 : c ≠ ']') : c ∉ (showQubit i).toList := by
  rw [showQubit_toList]
  simp only [List.mem_cons, List.mem_append, List.not_mem_nil, or_false, not_or]
  exact ⟨h1, h2, intText_not_mem i c hd hm, h3⟩

theorem readQubits_intercalate (qs : List Int) (hne : qs ≠ []) :
    readQubits ([',', ' '].intercalate (qs.map fun i => (showQubit i).toList)) = some qs := by
  unfold readQubits
  rw [splitCommaSp_intercalate _ (by simpa using hne)]
  · rw [Option.bind_some, mapM_map_some _ _ readIndexed_qubit]
  · intro x hx
    obtain ⟨i, _, rfl⟩ := List.mem_map.1 hx
    exact showQubit_not_mem i ',' (by decide) (by decide) (by decide) (by decide) (by decide)

/-! ### Dispatch of the line readers -/

theorem isIdentL_iff {l : List Char} : isIdentL l = true ↔ l ≠ [] ∧ ∀ x ∈ l, isIdentChar x = true := by
  simp [isIdentL]

theorem readLine3L_space (w r : List Char) (q : List Int) (hw : isIdentL w = true) (hq : readQubits r = some q)
    (hqne : q ≠ []) : readLine3L (w ++ ' ' :: r) = some (Line3.gate (String.ofList w) [] q) := by
  obtain ⟨hne, hall⟩ := isIdentL_iff.1 hw
  obtain ⟨h1, h2⟩ := span_ident w ' ' r hall (by decide)
  have hwe : w.isEmpty = false := by simpa using hne
  have hqe : q.isEmpty = false := by simpa using hqne
  simp only [readLine3L, h1, h2, hwe, hq, hqe]
  simp (config := {decide := true}) only [if_true, if_false]

theorem readLine3L_bracket (w r : List Char) (hw : isIdentL w = true) :
    readLine3L (w ++ '[' :: r) = readBracket3 w r := by
  obtain ⟨hne, hall⟩ := isIdentL_iff.1 hw
  obtain ⟨h1, h2⟩ := span_ident w '[' r hall (by decide)
  have hwe : w.isEmpty = false := by simpa using hne
  simp only [readLine3L, h1, h2, hwe]
  simp (config := {decide := true}) only [if_true, if_false]

theorem readLine3L_paren (w r : List Char) (hw : isIdentL w = true) :
    readLine3L (w ++ '(' :: r) = readParamGate3 w r := by
  obtain ⟨hne, hall⟩ := isIdentL_iff.1 hw
  obtain ⟨h1, h2⟩ := span_ident w '(' r hall (by decide)
  have hwe : w.isEmpty = false := by simpa using hne
  simp only [readLine3L, h1, h2, hwe]
  simp (config := {decide := true}) only [if_true, if_false]

theorem readLine3L_slash (r : List Char) :
    readLine3L ('/' :: r) = (readCommentText ('/' :: r)).map Line3.comment := by
  have h1 : ('/' :: r).takeWhile isIdentChar = [] := by rw [List.takeWhile_cons, if_neg (by decide)]
  have h2 : ('/' :: r).dropWhile isIdentChar = '/' :: r := by rw [List.dropWhile_cons, if_neg (by decide)]
  simp only [readLine3L, h1, h2, if_true, List.isEmpty_nil]

theorem readCommentText_comment (t : String) (h : ¬ ['*', '/'] <:+: t.toList) :
    readCommentText ("/* " ++ t ++ " */").toList = some t := by
  have e : ("/* " ++ t ++ " */").toList = "/* ".toList ++ (t.toList ++ " */".toList) := by
    simp [String.toList_append]
  have hp : hasPair '*' '/' t.toList = false := by
    cases hh : hasPair '*' '/' t.toList with
    | false => rfl
    | true => exact absurd ((infix_pair_iff _ _ _).2 hh) h
  rw [e]
  simp only [readCommentText, stripPrefix_append, Option.bind_some, stripSuffix_append, hp, String.ofList_toList]
  rfl

/-! ### What is written, and what is expected back -/

/-- the index carried by an operand -/
def Arg.index : Arg α → Int
  | .qubit i => i
  | .bit i => i
  | .int v => v
  | .float _ => 0

/-- The statements the writers are meant for (all true by construction of the Python IR):
    named, the name an identifier; a gate has no bit argument and at least one qubit operand; a measure has the
    arguments `[qubit, bit]`, a reset `[qubit]`; a comment is one line and does not contain `*/`. -/
def Stmt.Writable : Stmt α → Prop
  | .gate _ (some nm) => isIdent nm.name = true ∧ (∀ i, Arg.bit i ∉ nm.args) ∧ nm.qubitArgs ≠ []
  | .gate _ none => False
  | .measure _ _ _ (some nm) => isIdent nm.name = true ∧ ∃ q b, nm.args = [.qubit q, .bit b]
  | .measure _ _ _ none => False
  | .reset _ (some nm) => isIdent nm.name = true ∧ ∃ q, nm.args = [.qubit q]
  | .reset _ none => False
  | .comment t => noNl t ∧ ¬ ['*', '/'] <:+: t.toList

/-- the line written for a statement, without surrounding newlines -/
def stmtBody (fmt : α → String) : Stmt α → String
  | .gate _ (some nm) =>
      nm.name ++ (if paramTexts fmt nm = [] then "" else "(" ++ ", ".intercalate (paramTexts fmt nm) ++ ")")
        ++ " " ++ ", ".intercalate (qubitTexts fmt nm)
  | .measure _ _ _ (some nm) =>
      showArg fmt (nm.args.getD 1 (.int 0)) ++ " = " ++ nm.name ++ " " ++ showArg fmt (nm.args.getD 0 (.int 0))
  | .reset _ (some nm) => nm.name ++ " " ++ showArg fmt (nm.args.getD 0 (.int 0))
  | .comment t => "/* " ++ t ++ " */"
  | _ => ""

def Stmt.isComment : Stmt α → Bool
  | .comment _ => true
  | _ => false

/-- the line expected back from the reader -/
def expectedLine3 (fmt : α → String) : Stmt α → Line3
  | .gate _ (some nm) => .gate nm.name (paramTexts fmt nm) nm.qubitArgs
  | .measure _ _ _ (some nm) =>
      .measure (nm.args.getD 1 (.int 0)).index nm.name (nm.args.getD 0 (.int 0)).index
  | .reset _ (some nm) => .gate nm.name [] [(nm.args.getD 0 (.int 0)).index]
  | .comment t => .comment t
  | _ => .blank

/-- `writeStmt` is the body line plus a newline; a comment additionally gets a blank line before and after -/
theorem writeStmt_eq_body (fmt : α → String) (anon : Gate α → String) (s : Stmt α) (h : s.Writable) :
    writeStmt fmt anon s =
      (if s.isComment then "\n" else "") ++ stmtBody fmt s ++ "\n" ++ (if s.isComment then "\n" else "") := by
  cases s with
  | comment t =>
    apply String.toList_inj.1
    simp [writeStmt, stmtBody, Stmt.isComment, String.toList_append]
  | measure q b ax nm =>
    cases nm with
    | none => exact absurd h id
    | some nm => simp [writeStmt_measure_form, stmtBody, Stmt.isComment]
  | reset q nm =>
    cases nm with
    | none => exact absurd h id
    | some nm => simp [writeStmt_reset_form, stmtBody, Stmt.isComment]
  | gate g nm =>
    cases nm with
    | none => exact absurd h id
    | some nm => simp [writeStmt_gate_form, stmtBody, Stmt.isComment]

theorem sep_toList : ", ".toList = [',', ' '] := rfl

theorem qubitTexts_toList (fmt : α → String) (nm : Named α) :
    (qubitTexts fmt nm).map String.toList = nm.qubitArgs.map fun i => (showQubit i).toList := by
  rw [qubitTexts_eq, List.map_map]; rfl

theorem paramTexts_tok (fmt : α → String) (hfmt : ∀ x, isParamTok (fmt x) = true) (nm : Named α)
    (hb : ∀ i, Arg.bit i ∉ nm.args) : ∀ x ∈ paramTexts fmt nm, isParamTok x = true := by
  intro x hx
  simp only [paramTexts, List.mem_map, List.mem_filter] at hx
  obtain ⟨a, ⟨ha, hq⟩, rfl⟩ := hx
  cases a with
  | qubit i => simp [isQubitArg] at hq
  | bit i => exact absurd ha (hb i)
  | int v => exact isParamTok_intText v
  | float v => exact hfmt v

theorem gateBody_toList (fmt : α → String) (g : Gate α) (nm : Named α) :
    (stmtBody fmt (.gate g (some nm))).toList =
      nm.name.toList ++
        (if paramTexts fmt nm = [] then []
         else '(' :: ([',', ' '].intercalate ((paramTexts fmt nm).map String.toList) ++ [')'])) ++
        ' ' :: [',', ' '].intercalate (nm.qubitArgs.map fun i => (showQubit i).toList) := by
  simp only [stmtBody, String.toList_append, String.toList_intercalate, sep_toList, qubitTexts_toList]
  split <;> simp

/-- **C20 / C04** a named gate line reads back as its name, the parameter texts in argument order and the qubit
    operands in argument order. -/
theorem readLine3_gate (fmt : α → String) (hfmt : ∀ x, isParamTok (fmt x) = true) (g : Gate α) (nm : Named α)
    (h : (Stmt.gate g (some nm)).Writable) :
    readLine3 (stmtBody fmt (.gate g (some nm))) = some (.gate nm.name (paramTexts fmt nm) nm.qubitArgs) := by
  obtain ⟨hid, hb, hq⟩ := h
  unfold readLine3
  rw [gateBody_toList]
  have hQ := readQubits_intercalate nm.qubitArgs hq
  by_cases hp : paramTexts fmt nm = []
  · rw [if_pos hp, List.append_nil, readLine3L_space _ _ _ hid hQ hq, hp, String.ofList_toList]
  · rw [if_neg hp]
    have htok := paramTexts_tok fmt hfmt nm hb
    have hnot : ∀ c ∈ paramStop, ∀ x ∈ (paramTexts fmt nm).map String.toList, c ∉ x := by
      intro c hc x hx
      obtain ⟨p, hp', rfl⟩ := List.mem_map.1 hx
      exact (isParamTokL_not_mem (htok p hp')).2 c hc
    have hclose : ')' ∉ [',', ' '].intercalate ((paramTexts fmt nm).map String.toList) :=
      not_mem_intercalate (by decide) (hnot ')' (by decide))
    have e : nm.name.toList ++ '(' :: ([',', ' '].intercalate ((paramTexts fmt nm).map String.toList) ++ [')']) ++
        ' ' :: [',', ' '].intercalate (nm.qubitArgs.map fun i => (showQubit i).toList) =
        nm.name.toList ++ '(' :: ([',', ' '].intercalate ((paramTexts fmt nm).map String.toList) ++
          ')' :: (' ' :: [',', ' '].intercalate (nm.qubitArgs.map fun i => (showQubit i).toList))) := by simp
    have hall : ((paramTexts fmt nm).map String.toList).all isParamTokL = true := by
      rw [List.all_eq_true]
      intro x hx
      obtain ⟨p, hp', rfl⟩ := List.mem_map.1 hx
      exact htok p hp'
    have hqe : nm.qubitArgs.isEmpty = false := by simpa using hq
    rw [e, readLine3L_paren _ _ hid]
    simp only [readParamGate3, splitAt1_append _ _ _ hclose, Option.bind_some,
      splitCommaSp_intercalate _ (by simpa using hp) (hnot ',' (by decide)), hall, if_true, stripPrefix,
      hQ, hqe, Bool.false_eq_true, if_false, String.ofList_toList, List.map_map]
    congr 2
    simp

theorem isIdent_toList {s : String} (h : isIdent s = true) : isIdentL s.toList = true := h

/-- **C04** a named measure line `b[i] = name q[j]` reads back as `measure i name j`. -/
theorem readLine3_measure (fmt : α → String) (q b : Int) (ax : Vec3 α) (nm : Named α)
    (h : (Stmt.measure q b ax (some nm)).Writable) :
    readLine3 (stmtBody fmt (.measure q b ax (some nm))) =
      some (.measure (nm.args.getD 1 (.int 0)).index nm.name (nm.args.getD 0 (.int 0)).index) := by
  obtain ⟨hid, qi, bi, hargs⟩ := h
  obtain ⟨hne, hall⟩ := isIdentL_iff.1 (isIdent_toList hid)
  unfold readLine3
  have e : (stmtBody fmt (.measure q b ax (some nm))).toList =
      ['b'] ++ '[' :: ((toString bi).toList ++ ']' :: (" = ".toList ++ (nm.name.toList ++ ' ' :: (showQubit qi).toList))) := by
    simp only [stmtBody, hargs, List.getD_cons_succ, List.getD_cons_zero, showArg, String.toList_append,
      showBit_toList]
    simp
  have hclose : ']' ∉ (toString bi).toList := intText_not_mem bi ']' (by decide) (by decide)
  obtain ⟨h1, h2⟩ := span_ident nm.name.toList ' ' (showQubit qi).toList hall (by decide)
  rw [e, readLine3L_bracket _ _ (by decide)]
  simp only [readBracket3, splitAt1_append _ _ _ hclose, Option.bind_some]
  rw [if_neg (by decide), if_neg (by decide), if_pos (by decide : ['b'] = "b".toList)]
  simp only [readInt_toString, Option.bind_some, stripPrefix_append, h1, h2, isIdent_toList hid, if_true,
    stripPrefix, readIndexed_qubit, Option.map_some, String.ofList_toList, hargs, List.getD_cons_succ,
    List.getD_cons_zero, Arg.index]

/-- **C04** a named reset line `name q[j]` reads back in the one-operand gate shape with the reset's name. -/
theorem readLine3_reset (fmt : α → String) (q : Int) (nm : Named α) (h : (Stmt.reset q (some nm)).Writable) :
    readLine3 (stmtBody fmt (.reset q (some nm))) = some (.gate nm.name [] [(nm.args.getD 0 (.int 0)).index]) := by
  obtain ⟨hid, qi, hargs⟩ := h
  unfold readLine3
  have e : (stmtBody fmt (.reset q (some nm))).toList = nm.name.toList ++ ' ' :: (showQubit qi).toList := by
    simp only [stmtBody, hargs, List.getD_cons_zero, showArg, String.toList_append]
    simp
  have hQ := readQubits_intercalate [qi] (by simp)
  simp only [List.map_cons, List.map_nil, List.intercalate_singleton] at hQ
  rw [e, readLine3L_space _ _ _ (isIdent_toList hid) hQ (by simp), String.ofList_toList, hargs]
  rfl

/-- a reset line, classified by its name, is the reset of that qubit -/
theorem readLine3_reset_classify (fmt : α → String) (q : Int) (nm : Named α) (h : (Stmt.reset q (some nm)).Writable) :
    (readLine3 (stmtBody fmt (.reset q (some nm)))).map (Line3.classify (· == nm.name)) =
      some (.reset nm.name (nm.args.getD 0 (.int 0)).index) := by
  rw [readLine3_reset fmt q nm h]
  simp [Line3.classify]

/-- **C04** a comment line reads back as the comment text. -/
theorem readLine3_comment (fmt : α → String) (t : String) (h : (Stmt.comment t : Stmt α).Writable) :
    readLine3 (stmtBody fmt (.comment t : Stmt α)) = some (.comment t) := by
  unfold readLine3
  have hc := readCommentText_comment t h.2
  have e : ("/* " ++ t ++ " */").toList = '/' :: ('*' :: ' ' :: (t.toList ++ " */".toList)) := by
    simp [String.toList_append]
  show readLine3L ("/* " ++ t ++ " */").toList = _
  rw [e] at hc ⊢
  rw [readLine3L_slash, hc]
  rfl

/-- **Theorem 1** reading the line written for a statement gives the expected line, for every statement kind. -/
theorem readLine3_writeStmt (fmt : α → String) (hfmt : ∀ x, isParamTok (fmt x) = true) (s : Stmt α)
    (h : s.Writable) : readLine3 (stmtBody fmt s) = some (expectedLine3 fmt s) := by
  cases s with
  | comment t => exact readLine3_comment fmt t h
  | measure q b ax nm =>
    cases nm with
    | none => exact absurd h id
    | some nm => exact readLine3_measure fmt q b ax nm h
  | reset q nm =>
    cases nm with
    | none => exact absurd h id
    | some nm => exact readLine3_reset fmt q nm h
  | gate g nm =>
    cases nm with
    | none => exact absurd h id
    | some nm => exact readLine3_gate fmt hfmt g nm h

/-! ### Programs as sequences of blocks of lines -/

/-- a body line with `pre` empty lines before and `post` empty lines after it, and its reading -/
structure Block (β : Type) where
  pre : Nat
  body : List Char
  post : Nat
  val : β

section blocks
variable {β : Type}

def Block.text (b : Block β) : List Char :=
  List.replicate b.pre '\n' ++ (b.body ++ '\n' :: List.replicate b.post '\n')

def Block.lines (blank : β) (b : Block β) : List β :=
  List.replicate b.pre blank ++ b.val :: List.replicate b.post blank

/-- the body reads as `val`, has no newline and ends in a non-blank character -/
def Block.Good (rd : List Char → Option β) (b : Block β) : Prop :=
  rd b.body = some b.val ∧ '\n' ∉ b.body ∧ ∃ b0 c, b.body = b0 ++ [c] ∧ isWs c = false

def blocksText (bs : List (Block β)) : List Char := bs.flatMap Block.text

/-- right-strip on character lists (`rstripNl_toList`) -/
def rstripL (l : List Char) : List Char := (l.reverse.dropWhile isWs).reverse

theorem readLines_nil (rd : List Char → Option β) (blank : β) (hb : rd [] = some blank) :
    readLines rd [] = some [blank] := by
  simp [readLines, List.splitOn_nil, List.mapM_cons, hb]

theorem readLines_cons (rd : List Char → Option β) (a rest : List Char) (h : '\n' ∉ a) :
    readLines rd (a ++ '\n' :: rest) = (rd a).bind fun x => (readLines rd rest).map (x :: ·) := by
  unfold readLines
  rw [List.splitOn_append_cons_self_of_not_mem h, List.mapM_cons]
  cases rd a <;> simp [Option.map_eq_bind]

theorem readLines_nl (rd : List Char → Option β) (blank : β) (hb : rd [] = some blank) (k : Nat)
    (rest : List Char) :
    readLines rd (List.replicate k '\n' ++ rest) = (readLines rd rest).map (List.replicate k blank ++ ·) := by
  induction k with
  | zero => simp
  | succ k ih =>
    have := readLines_cons rd [] (List.replicate k '\n' ++ rest) (by simp)
    rw [List.replicate_succ, List.cons_append]
    rw [List.nil_append] at this
    rw [this, hb, Option.bind_some, ih, Option.map_map]
    congr 1

theorem readLines_block (rd : List Char → Option β) (blank : β) (hb : rd [] = some blank) (b : Block β)
    (hg : b.Good rd) (rest : List Char) :
    readLines rd (b.text ++ rest) = (readLines rd rest).map (b.lines blank ++ ·) := by
  unfold Block.text Block.lines
  rw [List.append_assoc, readLines_nl rd blank hb, List.append_assoc, List.cons_append,
    readLines_cons rd _ _ hg.2.1, hg.1, Option.bind_some, readLines_nl rd blank hb, Option.map_map, Option.map_map]
  congr 1
  funext xs
  simp

theorem readLines_blocks (rd : List Char → Option β) (blank : β) (hb : rd [] = some blank) (bs : List (Block β))
    (hg : ∀ b ∈ bs, b.Good rd) (rest : List Char) :
    readLines rd (blocksText bs ++ rest) = (readLines rd rest).map (bs.flatMap (Block.lines blank) ++ ·) := by
  induction bs with
  | nil => simp [blocksText]
  | cons b t ih =>
    have e : blocksText (b :: t) ++ rest = b.text ++ (blocksText t ++ rest) := by simp [blocksText]
    rw [e, readLines_block rd blank hb b (hg b (by simp)), ih (fun x hx => hg x (by simp [hx])), Option.map_map]
    congr 1
    funext xs
    simp

theorem rstripL_append_ws (a : List Char) (c : Char) (w : List Char) (hc : isWs c = false)
    (hw : ∀ x ∈ w, isWs x = true) : rstripL (a ++ [c] ++ w) = a ++ [c] := by
  unfold rstripL
  rw [List.reverse_append, List.dropWhile_append_of_pos (by intro x hx; exact hw x (List.mem_reverse.1 hx)),
    List.reverse_append, List.reverse_singleton, List.singleton_append, List.dropWhile_cons, hc]
  simp

theorem filter_lines (p : β → Bool) (blank : β) (hp : p blank = false) (bs : List (Block β)) :
    (bs.flatMap (Block.lines blank)).filter p = (bs.map Block.val).filter p := by
  induction bs with
  | nil => rfl
  | cons b t ih =>
    have hr : ∀ k, (List.replicate k blank).filter p = [] := by
      intro k; simp [hp]
    simp only [List.flatMap_cons, List.filter_append, List.map_cons, ih, Block.lines, List.filter_cons, hr,
      List.nil_append]
    split <;> simp

/-- **Programs**: if a text is a sequence of good blocks, then its right-stripped form plus one final newline
    reads (line by line) as the block values interspersed with blank lines only. -/
theorem readLines_rstrip_blocks (rd : List Char → Option β) (blank : β) (hb : rd [] = some blank)
    (p : β → Bool) (hp : p blank = false) (bs : List (Block β)) (hne : bs ≠ []) (hg : ∀ b ∈ bs, b.Good rd) :
    ∃ ys, readLines rd (rstripL (blocksText bs) ++ ['\n']) = some ys ∧ ys.filter p = (bs.map Block.val).filter p := by
  obtain ⟨bs', last, rfl⟩ : ∃ bs' last, bs = bs' ++ [last] :=
    ⟨bs.dropLast, bs.getLast hne, (List.dropLast_concat_getLast hne).symm⟩
  have hgl := hg last (by simp)
  obtain ⟨b0, c, hbody, hc⟩ := hgl.2.2
  let last' : Block β := { last with post := 0 }
  have hgl' : last'.Good rd := hgl
  have e : rstripL (blocksText (bs' ++ [last])) ++ ['\n'] = blocksText (bs' ++ [last']) ++ [] := by
    have e1 : blocksText (bs' ++ [last]) =
        (blocksText bs' ++ List.replicate last.pre '\n' ++ b0) ++ [c] ++ List.replicate (last.post + 1) '\n' := by
      simp [blocksText, Block.text, hbody, List.replicate_succ]
    rw [e1, rstripL_append_ws _ _ _ hc (by intro x hx; rw [(List.mem_replicate.1 hx).2]; rfl)]
    simp [blocksText, Block.text, last', hbody]
  have hg' : ∀ b ∈ bs' ++ [last'], b.Good rd := by
    intro b hb'
    rcases List.mem_append.1 hb' with h | h
    · exact hg b (by simp [h])
    · rw [List.mem_singleton.1 h]; exact hgl'
  refine ⟨(bs' ++ [last']).flatMap (Block.lines blank) ++ [blank], ?_, ?_⟩
  · rw [e, readLines_blocks rd blank hb _ hg', readLines_nil rd blank hb]; rfl
  · rw [List.filter_append, filter_lines p blank hp]
    simp [hp, last']

end blocks

/-! ### The statements as blocks -/

theorem intercalate_ends (sep : List Char) (P : Char → Prop) (items : List (List Char)) (hne : items ≠ [])
    (h : ∀ x ∈ items, ∃ y c, x = y ++ [c] ∧ P c) : ∃ y c, sep.intercalate items = y ++ [c] ∧ P c := by
  induction items with
  | nil => exact absurd rfl hne
  | cons a t ih =>
    cases t with
    | nil => simpa using h a (by simp)
    | cons b t =>
      obtain ⟨y, c, hy, hc⟩ := ih (by simp) (fun x hx => h x (List.mem_cons_of_mem _ hx))
      exact ⟨a ++ sep ++ y, c, by rw [List.intercalate_cons_cons, hy]; simp, hc⟩

theorem noNl_of_isIdent {s : String} (h : isIdent s = true) : noNl s := by
  intro hm
  have := (isIdentL_iff.1 (isIdent_toList h)).2 _ hm
  exact absurd this (by decide)

theorem noNl_of_isParamTok {s : String} (h : isParamTok s = true) : noNl s :=
  (isParamTokL_not_mem h).2 '\n' (by decide)

theorem stmtBody_noNl (fmt : α → String) (hfmt : ∀ x, isParamTok (fmt x) = true) (s : Stmt α) (h : s.Writable) :
    '\n' ∉ (stmtBody fmt s).toList := by
  have hf : ∀ x, noNl (fmt x) := fun x => noNl_of_isParamTok (hfmt x)
  show noNl (stmtBody fmt s)
  cases s with
  | comment t =>
    simp only [stmtBody, noNl_append]
    exact ⟨⟨by decide, h.1⟩, by decide⟩
  | measure q b ax nm =>
    cases nm with
    | none => exact absurd h id
    | some nm =>
      simp only [stmtBody, noNl_append]
      exact ⟨⟨⟨⟨noNl_showArg hf _, by decide⟩, noNl_of_isIdent h.1⟩, by decide⟩, noNl_showArg hf _⟩
  | reset q nm =>
    cases nm with
    | none => exact absurd h id
    | some nm =>
      simp only [stmtBody, noNl_append]
      exact ⟨⟨noNl_of_isIdent h.1, by decide⟩, noNl_showArg hf _⟩
  | gate g nm =>
    cases nm with
    | none => exact absurd h id
    | some nm =>
      simp only [stmtBody, noNl_append]
      refine ⟨⟨⟨noNl_of_isIdent h.1, ?_⟩, by decide⟩, noNl_intercalate (by decide) (noNl_qubitTexts hf nm)⟩
      split
      · decide
      · simp only [noNl_append]
        exact ⟨⟨by decide, noNl_intercalate (by decide) (noNl_paramTexts hf nm)⟩, by decide⟩

theorem showQubit_ends (i : Int) : ∃ y, (showQubit i).toList = y ++ [']'] :=
  ⟨'q' :: '[' :: (toString i).toList, by rw [showQubit_toList]; simp⟩

theorem showQubit_ends' (i : Int) : ∃ y c, (showQubit i).toList = y ++ [c] ∧ isWs c = false := by
  obtain ⟨y, hy⟩ := showQubit_ends i
  exact ⟨y, ']', hy, rfl⟩

theorem stmtBody_ends (fmt : α → String) (s : Stmt α) (h : s.Writable) :
    ∃ b0 c, (stmtBody fmt s).toList = b0 ++ [c] ∧ isWs c = false := by
  cases s with
  | comment t =>
    exact ⟨("/* " ++ t ++ " *").toList, '/', by simp [stmtBody, String.toList_append], rfl⟩
  | measure q b ax nm =>
    cases nm with
    | none => exact absurd h id
    | some nm =>
      obtain ⟨_, qi, bi, hargs⟩ := h
      obtain ⟨y, hy⟩ := showQubit_ends qi
      refine ⟨(showArg fmt (nm.args.getD 1 (.int 0)) ++ " = " ++ nm.name ++ " ").toList ++ y, ']', ?_, rfl⟩
      simp only [stmtBody, String.toList_append, hargs, List.getD_cons_zero, showArg, hy]
      simp
  | reset q nm =>
    cases nm with
    | none => exact absurd h id
    | some nm =>
      obtain ⟨_, qi, hargs⟩ := h
      obtain ⟨y, hy⟩ := showQubit_ends qi
      refine ⟨(nm.name ++ " ").toList ++ y, ']', ?_, rfl⟩
      simp only [stmtBody, String.toList_append, hargs, List.getD_cons_zero, showArg, hy]
      simp
  | gate g nm =>
    cases nm with
    | none => exact absurd h id
    | some nm =>
      obtain ⟨_, _, hq⟩ := h
      obtain ⟨y, c, hy, rfl⟩ := intercalate_ends [',', ' '] (· = ']') (nm.qubitArgs.map fun i => (showQubit i).toList)
        (by simpa using hq) (by
          intro x hx
          obtain ⟨i, _, rfl⟩ := List.mem_map.1 hx
          obtain ⟨y, hy⟩ := showQubit_ends i
          exact ⟨y, ']', hy, rfl⟩)
      refine ⟨nm.name.toList ++
        (if paramTexts fmt nm = [] then []
         else '(' :: ([',', ' '].intercalate ((paramTexts fmt nm).map String.toList) ++ [')'])) ++ ' ' :: y,
        ']', ?_, rfl⟩
      rw [gateBody_toList, hy]
      simp only [List.append_assoc, List.cons_append]

/-- the block written for a statement -/
def stmtBlock3 (fmt : α → String) (s : Stmt α) : Block Line3 :=
  ⟨if s.isComment then 1 else 0, (stmtBody fmt s).toList, if s.isComment then 1 else 0, expectedLine3 fmt s⟩

theorem stmtBlock3_text (fmt : α → String) (anon : Gate α → String) (s : Stmt α) (h : s.Writable) :
    (writeStmt fmt anon s).toList = (stmtBlock3 fmt s).text := by
  rw [writeStmt_eq_body fmt anon s h]
  unfold stmtBlock3 Block.text
  cases s.isComment <;> simp [String.toList_append]

theorem stmtBlock3_good (fmt : α → String) (hfmt : ∀ x, isParamTok (fmt x) = true) (s : Stmt α)
    (h : s.Writable) : (stmtBlock3 fmt s).Good readLine3L :=
  ⟨readLine3_writeStmt fmt hfmt s h, stmtBody_noNl fmt hfmt s h, stmtBody_ends fmt s h⟩

theorem expectedLine3_isStmt (fmt : α → String) (s : Stmt α) (h : s.Writable) :
    (expectedLine3 fmt s).isStmt = true := by
  cases s with
  | comment t => rfl
  | measure q b ax nm => cases nm with
    | none => exact absurd h id
    | some nm => rfl
  | reset q nm => cases nm with
    | none => exact absurd h id
    | some nm => rfl
  | gate g nm => cases nm with
    | none => exact absurd h id
    | some nm => rfl

/-! ### The cQASM 3 header as blocks -/

def hdrBlocks3 (nq nb : Nat) : List (Block Line3) :=
  [⟨0, "version 3.0".toList, 1, .version⟩,
   ⟨0, ("qubit[" ++ toString nq ++ "] q").toList, if nb > 0 then 0 else 1, .decl true nq⟩] ++
  (if nb > 0 then [⟨0, ("bit[" ++ toString nb ++ "] b").toList, 1, .decl false nb⟩] else [])

theorem v3Header_toList (nq nb : Nat) : (v3Header nq nb).toList = blocksText (hdrBlocks3 nq nb) := by
  have h1 : "version 3.0\n\nqubit[".toList = "version 3.0".toList ++ '\n' :: '\n' :: "qubit[".toList := by decide
  have h2 : "] q\n".toList = "] q".toList ++ ['\n'] := by decide
  have h3 : "] b\n\n".toList = "] b".toList ++ ['\n', '\n'] := by decide
  unfold v3Header hdrBlocks3 blocksText
  by_cases h : nb > 0
  · simp only [h, if_true, String.toList_append, h1, h2, h3]
    simp [Block.text, List.replicate]
  · simp only [h, if_false, String.toList_append, h1, h2]
    simp [Block.text, List.replicate]

theorem readLine3L_decl (isQ : Bool) (n : Nat) :
    readLine3L ((if isQ then "qubit[" else "bit[") ++ toString n ++ (if isQ then "] q" else "] b")).toList =
      some (.decl isQ n) := by
  have hclose : ']' ∉ (toString n).toList := fun hm => absurd (natText_digits n _ hm) (by decide)
  cases isQ with
  | true =>
    have e : ("qubit[" ++ toString n ++ "] q").toList = "qubit".toList ++ '[' :: ((toString n).toList ++ ']' :: " q".toList) := by
      simp only [String.toList_append]
      rw [show "qubit[".toList = "qubit".toList ++ ['['] by decide, show "] q".toList = ']' :: " q".toList by decide]
      simp
    simp only [if_true]
    rw [e, readLine3L_bracket _ _ (by decide)]
    simp only [readBracket3, splitAt1_append _ _ _ hclose, Option.bind_some, if_true, readNat_toString,
      Option.map_some]
  | false =>
    have e : ("bit[" ++ toString n ++ "] b").toList = "bit".toList ++ '[' :: ((toString n).toList ++ ']' :: " b".toList) := by
      simp only [String.toList_append]
      rw [show "bit[".toList = "bit".toList ++ ['['] by decide, show "] b".toList = ']' :: " b".toList by decide]
      simp
    simp only [Bool.false_eq_true, if_false]
    rw [e, readLine3L_bracket _ _ (by decide)]
    simp only [readBracket3, splitAt1_append _ _ _ hclose, Option.bind_some]
    rw [if_neg (by decide)]
    simp only [if_true, readNat_toString, Option.map_some]

theorem declText_noNl (a b : String) (n : Nat) (ha : noNl a) (hb : noNl b) :
    '\n' ∉ (a ++ toString n ++ b).toList := by
  show noNl (a ++ toString n ++ b)
  rw [noNl_append, noNl_append]
  exact ⟨⟨ha, noNl_natRepr n⟩, hb⟩

theorem hdrBlocks3_good (nq nb : Nat) : ∀ b ∈ hdrBlocks3 nq nb, b.Good readLine3L := by
  have hv : (⟨0, "version 3.0".toList, 1, .version⟩ : Block Line3).Good readLine3L :=
    ⟨by decide, by decide, "version 3.".toList, '0', by decide, rfl⟩
  have hq : ∀ k, (⟨0, ("qubit[" ++ toString nq ++ "] q").toList, k, .decl true nq⟩ : Block Line3).Good readLine3L :=
    fun k => ⟨readLine3L_decl true nq, declText_noNl _ _ _ (by decide) (by decide),
      ("qubit[" ++ toString nq ++ "] ").toList, 'q', by simp [String.toList_append], rfl⟩
  have hb : (⟨0, ("bit[" ++ toString nb ++ "] b").toList, 1, .decl false nb⟩ : Block Line3).Good readLine3L :=
    ⟨readLine3L_decl false nb, declText_noNl _ _ _ (by decide) (by decide),
      ("bit[" ++ toString nb ++ "] ").toList, 'b', by simp [String.toList_append], rfl⟩
  intro b hmem
  unfold hdrBlocks3 at hmem
  by_cases h : nb > 0
  · simp only [h, if_true, List.cons_append, List.nil_append, List.mem_cons, List.not_mem_nil, or_false] at hmem
    rcases hmem with rfl | rfl | rfl
    · exact hv
    · exact hq 0
    · exact hb
  · simp only [h, if_false, List.append_nil, List.mem_cons, List.not_mem_nil, or_false] at hmem
    rcases hmem with rfl | rfl
    · exact hv
    · exact hq 1

/-! ### Theorem 2: the whole cQASM 3 program -/

/-- **C04 (main)** For a circuit whose statements are all `Writable` (named, identifier names, well-shaped
    arguments, one-line comments without `*/`) and a formatter producing parameter tokens, reading the written
    program gives back the register sizes and, statement by statement in order, the instruction name, the qubit
    operands, the bit target and the parameter texts: nothing omitted, nothing added. -/
theorem readProgram3_writeCircuit (fmt : α → String) (anon : Gate α → String)
    (hfmt : ∀ x, isParamTok (fmt x) = true) (c : Circuit α) (h : ∀ s ∈ c.stmts, s.Writable) :
    readProgram3 (writeCircuit fmt anon c) = some (c.nQubits, c.nBits, c.stmts.map (expectedLine3 fmt)) := by
  have hT : (v3Header c.nQubits c.nBits ++ String.join (c.stmts.map (writeStmt fmt anon))).toList =
      blocksText (hdrBlocks3 c.nQubits c.nBits ++ c.stmts.map (stmtBlock3 fmt)) := by
    rw [String.toList_append, v3Header_toList, String.toList_join]
    unfold blocksText
    rw [List.flatMap_append]
    congr 1
    rw [List.flatMap_map, List.flatMap_map]
    apply flatMap_congr'
    intro s hs
    exact stmtBlock3_text fmt anon s (h s hs)
  have hW : (writeCircuit fmt anon c).toList =
      rstripL (blocksText (hdrBlocks3 c.nQubits c.nBits ++ c.stmts.map (stmtBlock3 fmt))) ++ ['\n'] := by
    rw [writeCircuit_lines, String.toList_append, rstripNl_toList, hT]; rfl
  have hgood : ∀ b ∈ hdrBlocks3 c.nQubits c.nBits ++ c.stmts.map (stmtBlock3 fmt), b.Good readLine3L := by
    intro b hb
    rcases List.mem_append.1 hb with hb | hb
    · exact hdrBlocks3_good _ _ b hb
    · obtain ⟨s, hs, rfl⟩ := List.mem_map.1 hb
      exact stmtBlock3_good fmt hfmt s (h s hs)
  obtain ⟨ys, hys, hfil⟩ := readLines_rstrip_blocks readLine3L Line3.blank (by decide)
    (fun x => !x.isBlank) rfl _ (by simp [hdrBlocks3]) hgood
  have hstm : (c.stmts.map (expectedLine3 fmt)).all Line3.isStmt = true := by
    rw [List.all_eq_true]
    intro x hx
    obtain ⟨s, hs, rfl⟩ := List.mem_map.1 hx
    exact expectedLine3_isStmt fmt s (h s hs)
  have hnb : (c.stmts.map (expectedLine3 fmt)).filter (fun x => !x.isBlank) = c.stmts.map (expectedLine3 fmt) := by
    rw [List.filter_eq_self]
    intro x hx
    have := List.all_eq_true.1 hstm x hx
    cases x <;> first | rfl | cases this
  have hsplit : splitBitDecl (c.stmts.map (expectedLine3 fmt)) = (0, c.stmts.map (expectedLine3 fmt)) := by
    generalize c.stmts.map (expectedLine3 fmt) = l at hstm
    cases l with
    | nil => rfl
    | cons x t =>
      have : x.isStmt = true := by
        rw [List.all_cons, Bool.and_eq_true] at hstm; exact hstm.1
      cases x <;> first | rfl | cases this
  unfold readProgram3
  rw [hW, hys, Option.bind_some]
  unfold collect3
  rw [hfil, List.map_append, List.filter_append, List.map_map]
  have hv : (Block.val ∘ stmtBlock3 fmt) = expectedLine3 fmt := rfl
  rw [hv, hnb]
  unfold hdrBlocks3
  by_cases hb : c.nBits > 0
  · simp only [hb, if_true, List.cons_append, List.nil_append, List.map_cons, List.map_nil, List.filter_cons,
      Line3.isBlank, Bool.not_false, List.filter_nil, splitBitDecl, hstm]
  · have h0 : c.nBits = 0 := by omega
    simp only [hb, if_false, List.append_nil, List.cons_append, List.nil_append, List.map_cons, List.map_nil,
      List.filter_cons, Line3.isBlank, Bool.not_false, List.filter_nil, if_true, hsplit, hstm]
    rw [h0]

-- non-vacuity: a gate with interleaved float / int parameters, a comment, a measure and a reset
section example3
private def exFmt (x : Nat) : String := toString x
private theorem exFmt_tok (x : Nat) : isParamTok (exFmt x) = true := isParamTok_intText (Int.ofNat x)
private def exCircuit : Circuit Nat :=
  ⟨2, 1, [.gate (.bsr 0 (0, 0, 1) 0 0) (some ⟨"CRk", [.qubit 1, .float 7, .qubit 0, .int (-3)]⟩),
          .comment "a comment",
          .measure 0 0 (0, 0, 1) (some ⟨"measure", [.qubit 0, .bit 0]⟩),
          .reset 1 (some ⟨"reset", [.qubit 1]⟩)]⟩
private theorem exCircuit_writable : ∀ s ∈ exCircuit.stmts, s.Writable := by
  intro s hs
  simp only [exCircuit, List.mem_cons, List.not_mem_nil, or_false] at hs
  rcases hs with rfl | rfl | rfl | rfl
  · exact ⟨by decide, by intro i hi; simp at hi, by decide⟩
  · exact ⟨by decide, by rw [infix_pair_iff]; decide⟩
  · exact ⟨by decide, 0, 0, rfl⟩
  · exact ⟨by decide, 1, rfl⟩

example : writeCircuit exFmt (fun _ => "?") exCircuit =
    "version 3.0\n\nqubit[2] q\nbit[1] b\n\nCRk(7, -3) q[1], q[0]\n\n/* a comment */\n\nb[0] = measure q[0]\nreset q[1]\n" := by
  decide
example : readProgram3 (writeCircuit exFmt (fun _ => "?") exCircuit) =
    some (2, 1, [.gate "CRk" ["7", "-3"] [1, 0], .comment "a comment", .measure 0 "measure" 0,
      .gate "reset" [] [1]]) := by
  rw [readProgram3_writeCircuit exFmt _ exFmt_tok exCircuit exCircuit_writable]
  decide
example : readLine3 (stmtBody exFmt (.gate (.bsr 0 (0, 0, 1) 0 0) (some ⟨"CRk", [.qubit 1, .float 7, .qubit 0, .int (-3)]⟩)))
    = some (.gate "CRk" ["7", "-3"] [1, 0]) :=
  readLine3_writeStmt exFmt exFmt_tok _ (exCircuit_writable _ (by simp [exCircuit]))
end example3

/-! ### cQASM 1: lines -/

theorem isIdentChar_toLower (c : Char) (h : isIdentChar c = true) : isIdentChar c.toLower = true := by
  unfold Char.toLower
  split
  · next hu =>
    have h1 := UInt32.le_iff_toNat_le.1 hu.1
    have h2 := UInt32.le_iff_toNat_le.1 hu.2
    simp only [isIdentChar, Char.isAlphanum, Char.isAlpha, Char.isLower, Char.isUpper, Char.isDigit,
      Bool.or_eq_true, Bool.and_eq_true, decide_eq_true_eq, beq_iff_eq, ge_iff_le]
    left; left; right
    have e : (c.val + ('a'.val - 'A'.val)).toNat = c.val.toNat + 32 := by
      rw [UInt32.toNat_add]
      have : ('a'.val - 'A'.val).toNat = 32 := by decide
      rw [this]
      have : ('Z'.val).toNat = 90 := by decide
      omega
    constructor
    · rw [UInt32.le_iff_toNat_le, e]
      have : ('A'.val).toNat = 65 := by decide
      have : ('a'.val).toNat = 97 := by decide
      omega
    · rw [UInt32.le_iff_toNat_le, e]
      have : ('Z'.val).toNat = 90 := by decide
      have : ('z'.val).toNat = 122 := by decide
      omega
  · exact h

/-- the lower-cased name of an identifier is an identifier -/
theorem isIdent_toLower {s : String} (h : isIdent s = true) : isIdent s.toLower = true := by
  obtain ⟨hne, hall⟩ := isIdentL_iff.1 (isIdent_toList h)
  show isIdentL s.toLower.toList = true
  rw [toLower_toList, isIdentL_iff]
  refine ⟨by simpa using hne, ?_⟩
  intro x hx
  obtain ⟨c, hc, rfl⟩ := List.mem_map.1 hx
  exact isIdentChar_toLower c (hall c hc)

theorem readLine1L_space (w r : List Char) (qp : List Int × List String) (hw : isIdentL w = true)
    (h : readOperands1 r = some qp) : readLine1L (w ++ ' ' :: r) = some (Line1.instr (String.ofList w) qp.1 qp.2) := by
  obtain ⟨hne, hall⟩ := isIdentL_iff.1 hw
  obtain ⟨h1, h2⟩ := span_ident w ' ' r hall (by decide)
  have hwe : w.isEmpty = false := by simpa using hne
  simp only [readLine1L, h1, h2, hwe, h]
  simp (config := {decide := true}) only [if_true, if_false]

theorem readLine1L_space_none (w r : List Char) (hw : isIdentL w = true) (h : readOperands1 r = none) :
    readLine1L (w ++ ' ' :: r) =
      if w ++ ' ' :: r = "version 1.0".toList then some Line1.version
      else if w = "qubits".toList then (readNat r).map Line1.qubits else none := by
  obtain ⟨hne, hall⟩ := isIdentL_iff.1 hw
  obtain ⟨h1, h2⟩ := span_ident w ' ' r hall (by decide)
  have hwe : w.isEmpty = false := by simpa using hne
  simp only [readLine1L, h1, h2, hwe, h]
  simp (config := {decide := true}) only [if_true, if_false]

theorem readLine1L_slash (r : List Char) :
    readLine1L ('/' :: r) = (readCommentText ('/' :: r)).map Line1.comment := by
  have h1 : ('/' :: r).takeWhile isIdentChar = [] := by rw [List.takeWhile_cons, if_neg (by decide)]
  have h2 : ('/' :: r).dropWhile isIdentChar = '/' :: r := by rw [List.dropWhile_cons, if_neg (by decide)]
  simp only [readLine1L, h1, h2, if_true, List.isEmpty_nil]

theorem readIndexed_none_of_no_bracket (l : List Char) (h : '[' ∉ l) : readIndexed 'q' l = none := by
  unfold readIndexed
  have : stripPrefix ['q', '['] l = none := by
    cases l with
    | nil => rfl
    | cons x t =>
      cases t with
      | nil => simp only [stripPrefix]; split <;> rfl
      | cons y t =>
        have hy : '[' ≠ y := fun e => h (by rw [e]; simp)
        simp only [stripPrefix, hy, if_false]
        split <;> rfl
  rw [this]; rfl

theorem readOperands1_intercalate (qs : List Int) (ps : List (List Char)) (hq : qs ≠ [])
    (hp : ∀ p ∈ ps, isParamTokL p = true) :
    readOperands1 ([',', ' '].intercalate (qs.map (fun i => (showQubit i).toList) ++ ps)) =
      some (qs, ps.map String.ofList) := by
  have hQ : ∀ x ∈ qs.map (fun i => (showQubit i).toList), (readIndexed 'q' x).isSome = true := by
    intro x hx
    obtain ⟨i, _, rfl⟩ := List.mem_map.1 hx
    rw [readIndexed_qubit]; rfl
  have hP : ∀ p ∈ ps, (readIndexed 'q' p).isSome = false := by
    intro p hp'
    rw [readIndexed_none_of_no_bracket p ((isParamTokL_not_mem (hp p hp')).2 '[' (by decide))]; rfl
  have htw : ps.takeWhile (fun t => (readIndexed 'q' t).isSome) = [] ∧
      ps.dropWhile (fun t => (readIndexed 'q' t).isSome) = ps := by
    cases ps with
    | nil => exact ⟨rfl, rfl⟩
    | cons a t => simp [hP a (by simp)]
  have hall : ps.all isParamTokL = true := List.all_eq_true.2 hp
  have hqe : (qs.map fun i => (showQubit i).toList).isEmpty = false := by simpa using hq
  unfold readOperands1
  rw [splitCommaSp_intercalate _ (by simpa using fun h => absurd h hq)]
  · simp only [Option.bind_some, List.takeWhile_append_of_pos hQ, List.dropWhile_append_of_pos hQ, htw.1, htw.2,
      List.append_nil, hqe, Bool.false_eq_true, if_false, hall, if_true, mapM_map_some _ _ readIndexed_qubit,
      Option.map_some]
  · intro x hx
    rcases List.mem_append.1 hx with hx | hx
    · obtain ⟨i, _, rfl⟩ := List.mem_map.1 hx
      exact showQubit_not_mem i ',' (by decide) (by decide) (by decide) (by decide) (by decide)
    · exact (isParamTokL_not_mem (hp x hx)).2 ',' (by decide)

/-- the line exported for a statement, without surrounding newlines -/
def stmtBody1 (fmt : α → String) : Stmt α → String
  | .gate _ (some nm) =>
      nm.name.toLower ++ " " ++ ", ".intercalate (qubitTexts fmt nm) ++
        (if paramTexts fmt nm = [] then "" else ", " ++ ", ".intercalate (paramTexts fmt nm))
  | .measure _ _ _ (some nm) => "measure_z " ++ showArg fmt (nm.args.getD 0 (.int 0))
  | .reset _ (some nm) => "prep_z " ++ showArg fmt (nm.args.getD 0 (.int 0))
  | .comment t => "/* " ++ t ++ " */"
  | _ => ""

/-- the line expected back from the cQASM 1 reader: lower-cased name, qubits, then parameters -/
def expectedLine1 (fmt : α → String) : Stmt α → Line1
  | .gate _ (some nm) => .instr nm.name.toLower nm.qubitArgs (paramTexts fmt nm)
  | .measure _ _ _ (some nm) => .instr "measure_z" [(nm.args.getD 0 (.int 0)).index] []
  | .reset _ (some nm) => .instr "prep_z" [(nm.args.getD 0 (.int 0)).index] []
  | .comment t => .comment t
  | _ => .blank

theorem exportV1Stmt_eq_body (fmt : α → String) (s : Stmt α) (h : s.Writable) :
    exportV1Stmt fmt s = .ok
      ((if s.isComment then "\n" else "") ++ stmtBody1 fmt s ++ "\n" ++ (if s.isComment then "\n" else "")) := by
  cases s with
  | comment t =>
    rw [exportV1Stmt_comment_form]
    congr 1
    apply String.toList_inj.1
    simp [stmtBody1, Stmt.isComment, String.toList_append]
  | measure q b ax nm =>
    cases nm with
    | none => exact absurd h id
    | some nm => simp [exportV1Stmt_measure_form, stmtBody1, Stmt.isComment]
  | reset q nm =>
    cases nm with
    | none => exact absurd h id
    | some nm => simp [exportV1Stmt_reset_form, stmtBody1, Stmt.isComment]
  | gate g nm =>
    cases nm with
    | none => exact absurd h id
    | some nm => simp [exportV1Stmt_gate_form, stmtBody1, Stmt.isComment]

theorem intercalate_append' (sep : List Char) (l m : List (List Char)) (hl : l ≠ []) (hm : m ≠ []) :
    sep.intercalate (l ++ m) = sep.intercalate l ++ sep ++ sep.intercalate m := by
  induction l with
  | nil => exact absurd rfl hl
  | cons a t ih =>
    cases t with
    | nil =>
      obtain ⟨b, m', rfl⟩ := List.exists_cons_of_ne_nil hm
      simp [List.intercalate_cons_cons]
    | cons b t =>
      have := ih (by simp)
      rw [List.cons_append, List.cons_append, List.intercalate_cons_cons, ← List.cons_append, this,
        List.intercalate_cons_cons]
      simp

theorem gateBody1_toList (fmt : α → String) (g : Gate α) (nm : Named α) (hq : nm.qubitArgs ≠ []) :
    (stmtBody1 fmt (.gate g (some nm))).toList =
      nm.name.toLower.toList ++ ' ' :: [',', ' '].intercalate
        ((nm.qubitArgs.map fun i => (showQubit i).toList) ++ (paramTexts fmt nm).map String.toList) := by
  simp only [stmtBody1, String.toList_append, String.toList_intercalate, sep_toList, qubitTexts_toList]
  by_cases hp : paramTexts fmt nm = []
  · simp [hp]
  · rw [if_neg hp, intercalate_append' _ _ _ (by simpa using hq) (by simpa using hp)]
    simp [String.toList_append, sep_toList]

/-- **C12** an exported gate line reads back as the lower-cased name, the qubits, then the parameters. -/
theorem readLine1_gate (fmt : α → String) (hfmt : ∀ x, isParamTok (fmt x) = true) (g : Gate α) (nm : Named α)
    (h : (Stmt.gate g (some nm)).Writable) :
    readLine1 (stmtBody1 fmt (.gate g (some nm))) =
      some (.instr nm.name.toLower nm.qubitArgs (paramTexts fmt nm)) := by
  obtain ⟨hid, hb, hq⟩ := h
  unfold readLine1
  have htok := paramTexts_tok fmt hfmt nm hb
  have hops := readOperands1_intercalate nm.qubitArgs ((paramTexts fmt nm).map String.toList) hq (by
    intro p hp
    obtain ⟨x, hx, rfl⟩ := List.mem_map.1 hp
    exact htok x hx)
  rw [gateBody1_toList fmt g nm hq, readLine1L_space _ _ _ (isIdent_toList (isIdent_toLower hid)) hops,
    String.ofList_toList]
  simp

theorem readLine1_oneQubit (name : String) (hid : isIdentL name.toList = true) (qi : Int) :
    readLine1L (name.toList ++ ' ' :: (showQubit qi).toList) = some (.instr name [qi] []) := by
  have hops := readOperands1_intercalate [qi] [] (by simp) (by simp)
  simp only [List.map_cons, List.map_nil, List.append_nil, List.intercalate_singleton] at hops
  rw [readLine1L_space _ _ _ hid hops, String.ofList_toList]

/-- **C12** a measure is exported as `measure_z q[i]`, a reset as `prep_z q[i]`. -/
theorem readLine1_measure (fmt : α → String) (q b : Int) (ax : Vec3 α) (nm : Named α)
    (h : (Stmt.measure q b ax (some nm)).Writable) :
    readLine1 (stmtBody1 fmt (.measure q b ax (some nm))) =
      some (.instr "measure_z" [(nm.args.getD 0 (.int 0)).index] []) := by
  obtain ⟨_, qi, bi, hargs⟩ := h
  unfold readLine1
  have e : (stmtBody1 fmt (.measure q b ax (some nm))).toList = "measure_z".toList ++ ' ' :: (showQubit qi).toList := by
    simp only [stmtBody1, hargs, List.getD_cons_zero, showArg, String.toList_append]
    rfl
  rw [e, readLine1_oneQubit "measure_z" (by decide), hargs]
  rfl

theorem readLine1_reset (fmt : α → String) (q : Int) (nm : Named α) (h : (Stmt.reset q (some nm)).Writable) :
    readLine1 (stmtBody1 fmt (.reset q (some nm))) =
      some (.instr "prep_z" [(nm.args.getD 0 (.int 0)).index] []) := by
  obtain ⟨_, qi, hargs⟩ := h
  unfold readLine1
  have e : (stmtBody1 fmt (.reset q (some nm))).toList = "prep_z".toList ++ ' ' :: (showQubit qi).toList := by
    simp only [stmtBody1, hargs, List.getD_cons_zero, showArg, String.toList_append]
    rfl
  rw [e, readLine1_oneQubit "prep_z" (by decide), hargs]
  rfl

theorem readLine1_comment (fmt : α → String) (t : String) (h : (Stmt.comment t : Stmt α).Writable) :
    readLine1 (stmtBody1 fmt (.comment t : Stmt α)) = some (.comment t) := by
  unfold readLine1
  have hc := readCommentText_comment t h.2
  have e : ("/* " ++ t ++ " */").toList = '/' :: ('*' :: ' ' :: (t.toList ++ " */".toList)) := by
    simp [String.toList_append]
  show readLine1L ("/* " ++ t ++ " */").toList = _
  rw [e] at hc ⊢
  rw [readLine1L_slash, hc]
  rfl

/-- reading the line exported for a statement gives the expected line, for every statement kind -/
theorem readLine1_exportStmt (fmt : α → String) (hfmt : ∀ x, isParamTok (fmt x) = true) (s : Stmt α)
    (h : s.Writable) : readLine1 (stmtBody1 fmt s) = some (expectedLine1 fmt s) := by
  cases s with
  | comment t => exact readLine1_comment fmt t h
  | measure q b ax nm =>
    cases nm with
    | none => exact absurd h id
    | some nm => exact readLine1_measure fmt q b ax nm h
  | reset q nm =>
    cases nm with
    | none => exact absurd h id
    | some nm => exact readLine1_reset fmt q nm h
  | gate g nm =>
    cases nm with
    | none => exact absurd h id
    | some nm => exact readLine1_gate fmt hfmt g nm h

/-! ### cQASM 1: programs -/

theorem isWs_false_of_isParamChar {c : Char} (h : isParamChar c = true) : isWs c = false := by
  simp only [isParamChar, Bool.not_eq_true', Bool.or_eq_false_iff, beq_eq_false_iff_ne] at h
  simp only [isWs, Bool.or_eq_false_iff, beq_eq_false_iff_ne]
  exact ⟨⟨⟨h.1.1.2, h.1.1.1.2⟩, h.1.2⟩, h.2⟩

theorem paramTok_ends {p : List Char} (h : isParamTokL p = true) : ∃ y c, p = y ++ [c] ∧ isWs c = false := by
  have hne : p ≠ [] := (isParamTokL_not_mem h).1
  refine ⟨p.dropLast, p.getLast hne, (List.dropLast_concat_getLast hne).symm, ?_⟩
  unfold isParamTokL at h
  rw [Bool.and_eq_true] at h
  exact isWs_false_of_isParamChar (List.all_eq_true.1 h.2 _ (List.getLast_mem hne))

theorem stmtBody1_noNl (fmt : α → String) (hfmt : ∀ x, isParamTok (fmt x) = true) (s : Stmt α) (h : s.Writable) :
    '\n' ∉ (stmtBody1 fmt s).toList := by
  have hf : ∀ x, noNl (fmt x) := fun x => noNl_of_isParamTok (hfmt x)
  show noNl (stmtBody1 fmt s)
  cases s with
  | comment t =>
    simp only [stmtBody1, noNl_append]
    exact ⟨⟨by decide, h.1⟩, by decide⟩
  | measure q b ax nm =>
    cases nm with
    | none => exact absurd h id
    | some nm =>
      simp only [stmtBody1, noNl_append]
      exact ⟨by decide, noNl_showArg hf _⟩
  | reset q nm =>
    cases nm with
    | none => exact absurd h id
    | some nm =>
      simp only [stmtBody1, noNl_append]
      exact ⟨by decide, noNl_showArg hf _⟩
  | gate g nm =>
    cases nm with
    | none => exact absurd h id
    | some nm =>
      simp only [stmtBody1, noNl_append]
      refine ⟨⟨⟨noNl_of_isIdent (isIdent_toLower h.1), by decide⟩,
        noNl_intercalate (by decide) (noNl_qubitTexts hf nm)⟩, ?_⟩
      split
      · decide
      · simp only [noNl_append]
        exact ⟨by decide, noNl_intercalate (by decide) (noNl_paramTexts hf nm)⟩

theorem stmtBody1_ends (fmt : α → String) (hfmt : ∀ x, isParamTok (fmt x) = true) (s : Stmt α) (h : s.Writable) :
    ∃ b0 c, (stmtBody1 fmt s).toList = b0 ++ [c] ∧ isWs c = false := by
  cases s with
  | comment t =>
    exact ⟨("/* " ++ t ++ " *").toList, '/', by simp [stmtBody1, String.toList_append], rfl⟩
  | measure q b ax nm =>
    cases nm with
    | none => exact absurd h id
    | some nm =>
      obtain ⟨_, qi, bi, hargs⟩ := h
      obtain ⟨y, hy⟩ := showQubit_ends qi
      refine ⟨"measure_z ".toList ++ y, ']', ?_, rfl⟩
      simp only [stmtBody1, String.toList_append, hargs, List.getD_cons_zero, showArg, hy]
      simp
  | reset q nm =>
    cases nm with
    | none => exact absurd h id
    | some nm =>
      obtain ⟨_, qi, hargs⟩ := h
      obtain ⟨y, hy⟩ := showQubit_ends qi
      refine ⟨"prep_z ".toList ++ y, ']', ?_, rfl⟩
      simp only [stmtBody1, String.toList_append, hargs, List.getD_cons_zero, showArg, hy]
      simp
  | gate g nm =>
    cases nm with
    | none => exact absurd h id
    | some nm =>
      obtain ⟨_, hb, hq⟩ := h
      have htok := paramTexts_tok fmt hfmt nm hb
      obtain ⟨y, c, hy, hc⟩ := intercalate_ends [',', ' '] (fun c => isWs c = false)
        ((nm.qubitArgs.map fun i => (showQubit i).toList) ++ (paramTexts fmt nm).map String.toList)
        (by simpa using fun h' _ => absurd h' hq) (by
          intro x hx
          rcases List.mem_append.1 hx with hx | hx
          · obtain ⟨i, _, rfl⟩ := List.mem_map.1 hx
            exact showQubit_ends' i
          · obtain ⟨p, hp, rfl⟩ := List.mem_map.1 hx
            exact paramTok_ends (htok p hp))
      refine ⟨nm.name.toLower.toList ++ ' ' :: y, c, ?_, hc⟩
      rw [gateBody1_toList fmt g nm hq, hy]
      simp only [List.append_assoc, List.cons_append]

/-- the block exported for a statement -/
def stmtBlock1 (fmt : α → String) (s : Stmt α) : Block Line1 :=
  ⟨if s.isComment then 1 else 0, (stmtBody1 fmt s).toList, if s.isComment then 1 else 0, expectedLine1 fmt s⟩

theorem stmtBlock1_good (fmt : α → String) (hfmt : ∀ x, isParamTok (fmt x) = true) (s : Stmt α)
    (h : s.Writable) : (stmtBlock1 fmt s).Good readLine1L :=
  ⟨readLine1_exportStmt fmt hfmt s h, stmtBody1_noNl fmt hfmt s h, stmtBody1_ends fmt hfmt s h⟩

theorem expectedLine1_isStmt (fmt : α → String) (s : Stmt α) (h : s.Writable) :
    (expectedLine1 fmt s).isStmt = true := by
  cases s with
  | comment t => rfl
  | measure q b ax nm => cases nm with
    | none => exact absurd h id
    | some nm => rfl
  | reset q nm => cases nm with
    | none => exact absurd h id
    | some nm => rfl
  | gate g nm => cases nm with
    | none => exact absurd h id
    | some nm => rfl

/-- the cQASM 1 header as blocks: without a `qubits` line for an empty register (as in the Python source) -/
def hdrBlocks1 (nq : Nat) : List (Block Line1) :=
  if nq > 0 then [⟨0, "version 1.0".toList, 1, .version⟩, ⟨0, ("qubits " ++ toString nq).toList, 1, .qubits nq⟩]
  else [⟨0, "version 1.0".toList, 3, .version⟩]

theorem v1Header_toList (nq : Nat) : (v1Header nq).toList = blocksText (hdrBlocks1 nq) := by
  have h1 : "version 1.0\n\n".toList = "version 1.0".toList ++ ['\n', '\n'] := by decide
  unfold v1Header hdrBlocks1 blocksText
  by_cases h : nq > 0
  · simp only [h, if_true, String.toList_append, h1]
    simp [Block.text, List.replicate]
  · simp only [h, if_false, String.toList_append, h1]
    simp [Block.text, List.replicate]

theorem readLine1L_qubits (n : Nat) : readLine1L ("qubits " ++ toString n).toList = some (.qubits n) := by
  have e : ("qubits " ++ toString n).toList = "qubits".toList ++ ' ' :: (toString n).toList := by
    rw [String.toList_append, show "qubits ".toList = "qubits".toList ++ [' '] by decide]; simp
  have hcomma : ',' ∉ (toString n).toList := fun hm => absurd (natText_digits n _ hm) (by decide)
  have hbr : '[' ∉ (toString n).toList := fun hm => absurd (natText_digits n _ hm) (by decide)
  have hops : readOperands1 (toString n).toList = none := by
    unfold readOperands1
    have := splitCommaSp_intercalate [(toString n).toList] (by simp) (by simpa using hcomma)
    rw [List.intercalate_singleton] at this
    rw [this]
    have hnone := readIndexed_none_of_no_bracket _ hbr
    simp only [Option.bind_some, List.takeWhile_cons, hnone, Option.isSome_none, Bool.false_eq_true, if_false,
      List.isEmpty_nil, if_true]
  rw [e, readLine1L_space_none _ _ (by decide) hops, if_neg (by intro h; cases h), if_pos rfl, readNat_toString]
  rfl

theorem hdrBlocks1_good (nq : Nat) : ∀ b ∈ hdrBlocks1 nq, b.Good readLine1L := by
  have hv : ∀ k, (⟨0, "version 1.0".toList, k, .version⟩ : Block Line1).Good readLine1L :=
    fun k => ⟨(by decide : readLine1L "version 1.0".toList = some .version),
      (by decide : '\n' ∉ "version 1.0".toList), "version 1.".toList, '0',
      (by decide : "version 1.0".toList = "version 1.".toList ++ ['0']), rfl⟩
  have hq : (⟨0, ("qubits " ++ toString nq).toList, 1, .qubits nq⟩ : Block Line1).Good readLine1L := by
    refine ⟨readLine1L_qubits nq, ?_, ?_⟩
    · show noNl ("qubits " ++ toString nq)
      rw [noNl_append]; exact ⟨by decide, noNl_natRepr nq⟩
    · obtain ⟨c, t, hct⟩ := List.exists_cons_of_ne_nil (natText_ne_nil nq)
      have hne := natText_ne_nil nq
      refine ⟨"qubits ".toList ++ (toString nq).toList.dropLast, (toString nq).toList.getLast hne, ?_, ?_⟩
      · rw [String.toList_append, List.append_assoc, List.dropLast_concat_getLast]
      · have := natText_digits nq _ (List.getLast_mem hne)
        generalize (toString nq).toList.getLast hne = d at this
        cases hw : isWs d with
        | false => rfl
        | true =>
          simp only [isWs, Bool.or_eq_true, beq_iff_eq] at hw
          rcases hw with ((rfl | rfl) | rfl) | rfl <;> exact absurd this (by decide)
  intro b hmem
  unfold hdrBlocks1 at hmem
  by_cases h : nq > 0
  · simp only [h, if_true, List.mem_cons, List.not_mem_nil, or_false] at hmem
    rcases hmem with rfl | rfl
    · exact hv 1
    · exact hq
  · simp only [h, if_false, List.mem_cons, List.not_mem_nil, or_false] at hmem
    rw [hmem]; exact hv 3

/-- On `Writable` statements the cQASM 1 exporter succeeds, with the header followed by one block per statement. -/
theorem exportV1_writable (fmt : α → String) (c : Circuit α) (h : ∀ s ∈ c.stmts, s.Writable) :
    ∃ text, exportV1 fmt c = .ok text ∧
      text.toList = rstripL (blocksText (hdrBlocks1 c.nQubits ++ c.stmts.map (stmtBlock1 fmt))) ++ ['\n'] := by
  let lines := c.stmts.map fun s =>
    (if s.isComment then "\n" else "") ++ stmtBody1 fmt s ++ "\n" ++ (if s.isComment then "\n" else "")
  refine ⟨_, (exportV1_ok_form fmt c _).2 ⟨lines, ?_, rfl⟩, ?_⟩
  · rw [List.map_map]
    apply List.map_congr_left
    intro s hs
    exact exportV1Stmt_eq_body fmt s (h s hs)
  · rw [String.toList_append, rstripNl_toList, String.toList_append, v1Header_toList, String.toList_join]
    show rstripL _ ++ ['\n'] = _
    congr 2
    unfold blocksText
    rw [List.flatMap_append]
    congr 1
    rw [List.flatMap_map, List.flatMap_map]
    apply flatMap_congr'
    intro s _
    unfold stmtBlock1 Block.text
    cases s.isComment <;> simp [String.toList_append]

/-- **Theorem 3 (C12)** When the cQASM 1 export of a circuit of `Writable` statements succeeds with `text`,
    reading `text` gives back the qubit register size and, statement by statement in order, the lower-cased
    name, the qubits, then the parameters (`measure_z q[i]`, `prep_z q[i]` for measure / reset). -/
theorem readProgram1_exportV1 (fmt : α → String) (hfmt : ∀ x, isParamTok (fmt x) = true) (c : Circuit α)
    (h : ∀ s ∈ c.stmts, s.Writable) (text : String) (hok : exportV1 fmt c = .ok text) :
    readProgram1 text = some (c.nQubits, c.stmts.map (expectedLine1 fmt)) := by
  obtain ⟨text', hok', hW⟩ := exportV1_writable fmt c h
  rw [hok] at hok'
  cases hok'
  have hgood : ∀ b ∈ hdrBlocks1 c.nQubits ++ c.stmts.map (stmtBlock1 fmt), b.Good readLine1L := by
    intro b hb
    rcases List.mem_append.1 hb with hb | hb
    · exact hdrBlocks1_good _ b hb
    · obtain ⟨s, hs, rfl⟩ := List.mem_map.1 hb
      exact stmtBlock1_good fmt hfmt s (h s hs)
  obtain ⟨ys, hys, hfil⟩ := readLines_rstrip_blocks readLine1L Line1.blank (by decide)
    (fun x => !x.isBlank) rfl _ (by unfold hdrBlocks1; split <;> simp) hgood
  have hstm : (c.stmts.map (expectedLine1 fmt)).all Line1.isStmt = true := by
    rw [List.all_eq_true]
    intro x hx
    obtain ⟨s, hs, rfl⟩ := List.mem_map.1 hx
    exact expectedLine1_isStmt fmt s (h s hs)
  have hnb : (c.stmts.map (expectedLine1 fmt)).filter (fun x => !x.isBlank) = c.stmts.map (expectedLine1 fmt) := by
    rw [List.filter_eq_self]
    intro x hx
    have := List.all_eq_true.1 hstm x hx
    cases x <;> first | rfl | cases this
  have hsplit : splitQubitsDecl (c.stmts.map (expectedLine1 fmt)) = (0, c.stmts.map (expectedLine1 fmt)) := by
    generalize c.stmts.map (expectedLine1 fmt) = l at hstm
    cases l with
    | nil => rfl
    | cons x t =>
      have : x.isStmt = true := by
        rw [List.all_cons, Bool.and_eq_true] at hstm; exact hstm.1
      cases x <;> first | rfl | cases this
  unfold readProgram1
  rw [hW, hys, Option.bind_some]
  unfold collect1
  rw [hfil, List.map_append, List.filter_append, List.map_map]
  have hv : (Block.val ∘ stmtBlock1 fmt) = expectedLine1 fmt := rfl
  rw [hv, hnb]
  unfold hdrBlocks1
  by_cases hb : c.nQubits > 0
  · simp only [hb, if_true, List.cons_append, List.nil_append, List.map_cons, List.map_nil, List.filter_cons,
      Line1.isBlank, Bool.not_false, List.filter_nil, splitQubitsDecl, hstm]
  · have h0 : c.nQubits = 0 := by omega
    simp only [hb, if_false, List.cons_append, List.nil_append, List.map_cons, List.map_nil,
      List.filter_cons, Line1.isBlank, Bool.not_false, List.filter_nil, if_true, hsplit, hstm]
    rw [h0]

-- non-vacuity for cQASM 1 (same circuit)
section example1
private theorem crk_lower : "CRk".toLower = "crk" := by
  apply String.toList_inj.1; rw [toLower_toList]; decide

example : ∃ text, exportV1 exFmt exCircuit = .ok text ∧
    readProgram1 text = some (2, [.instr "crk" [1, 0] ["7", "-3"], .comment "a comment",
      .instr "measure_z" [0] [], .instr "prep_z" [1] []]) := by
  obtain ⟨text, hok, _⟩ := exportV1_writable exFmt exCircuit exCircuit_writable
  refine ⟨text, hok, ?_⟩
  rw [readProgram1_exportV1 exFmt exFmt_tok exCircuit exCircuit_writable text hok]
  simp only [exCircuit, List.map_cons, List.map_nil, expectedLine1, crk_lower]
  decide
end example1

/-! ### The float formatter produces parameter tokens -/

theorem form_charset {l : List Char} (h : FixedForm l ∨ PointExpForm l) :
    l ≠ [] ∧ ∀ c ∈ l, c.isDigit = true ∨ c = '.' ∨ c = 'e' ∨ c = '+' ∨ c = '-' := by
  have hsgc : ∀ sg : List Char, (sg = [] ∨ sg = ['-']) → ∀ c ∈ sg, c = '-' := by
    rintro sg (rfl | rfl) c hc
    · cases hc
    · simpa using hc
  rcases h with ⟨sg, ip, fp, rfl, hsg, hip, _, hfp, _⟩ | ⟨sg, ip, fp, ex, rfl, hsg, hip, _, hfp, _, s, ds, rfl, hs, hds, _⟩
  · refine ⟨by simp, ?_⟩
    intro c hc
    simp only [List.mem_append, List.mem_cons] at hc
    rcases hc with (hc | hc) | hc | hc
    · exact Or.inr (Or.inr (Or.inr (Or.inr (hsgc sg hsg c hc))))
    · exact Or.inl (hip c hc)
    · exact Or.inr (Or.inl hc)
    · exact Or.inl (hfp c hc)
  · refine ⟨by simp, ?_⟩
    intro c hc
    simp only [List.mem_append, List.mem_cons] at hc
    rcases hc with ((hc | hc) | hc | hc) | hc | hc | hc
    · exact Or.inr (Or.inr (Or.inr (Or.inr (hsgc sg hsg c hc))))
    · exact Or.inl (hip c hc)
    · exact Or.inr (Or.inl hc)
    · exact Or.inl (hfp c hc)
    · exact Or.inr (Or.inr (Or.inl hc))
    · rcases hs with rfl | rfl
      · exact Or.inr (Or.inr (Or.inr (Or.inl hc)))
      · exact Or.inr (Or.inr (Or.inr (Or.inr hc)))
    · exact Or.inl (hds c hc)

theorem isParamTokL_of_form {l : List Char} (h : FixedForm l ∨ PointExpForm l) : isParamTokL l = true := by
  obtain ⟨hne, hcs⟩ := form_charset h
  apply isParamTokL_of_not_mem hne
  intro c hc hm
  simp only [paramStop, List.mem_cons, List.not_mem_nil, or_false] at hc
  rcases hcs c hm with h1 | h1 | h1 | h1 | h1 <;>
    rcases hc with rfl | rfl | rfl | rfl | rfl | rfl | rfl | rfl | rfl <;> exact absurd h1 (by decide)

/-- the written float (`fixExponent (format(x, '.P'))`) is a parameter token, for every bit pattern
    (finite: `[-]d+.d+(e[+-]dd+)?`; otherwise `inf`, `-inf`, `nan`) -/
theorem isParamTok_fixExponent_fmtBits (P : Nat) (bits : UInt64) :
    isParamTok (fixExponent (fmtBits P bits)) = true := by
  by_cases hf : FiniteBits bits
  · exact isParamTokL_of_form (fixExponent_form _ (fmtBits_form P bits hf))
  · have hex : (((bits >>> 52) &&& 0x7ff).toNat == 0x7ff) = true := by
      unfold FiniteBits at hf
      simpa using hf
    unfold fmtBits
    simp only []
    rw [hex]
    simp only [if_true]
    cases (bits >>> 63 != 0) <;> cases ((bits &&& 0xfffffffffffff).toNat == 0) <;>
      simp only [if_true, Bool.false_eq_true, if_false] <;>
      (rw [fixExponent_no_e _ (by decide)]; decide)

theorem isParamTok_fmtFloat (P : Nat) (x : Float) : isParamTok (fmtFloat P x) = true :=
  isParamTok_fixExponent_fmtBits P x.toBits

/-- Theorem 2 for the actual float formatter (no hypothesis on the formatter left) -/
theorem readProgram3_writeCircuit_float (P : Nat) (anon : Gate Float → String) (c : Circuit Float)
    (h : ∀ s ∈ c.stmts, s.Writable) :
    readProgram3 (writeCircuit (fmtFloat P) anon c) =
      some (c.nQubits, c.nBits, c.stmts.map (expectedLine3 (fmtFloat P))) :=
  readProgram3_writeCircuit (fmtFloat P) anon (isParamTok_fmtFloat P) c h

/-- Theorem 3 for the actual float formatter -/
theorem readProgram1_exportV1_float (P : Nat) (c : Circuit Float) (h : ∀ s ∈ c.stmts, s.Writable)
    (text : String) (hok : exportV1 (fmtFloat P) c = .ok text) :
    readProgram1 text = some (c.nQubits, c.stmts.map (expectedLine1 (fmtFloat P))) :=
  readProgram1_exportV1 (fmtFloat P) (isParamTok_fmtFloat P) c h text hok

-- non-vacuity with the real formatter: the hypotheses do not mention the parameter values
example (P : Nat) (anon : Gate Float → String) (θ : Float) :
    readProgram3 (writeCircuit (fmtFloat P) anon
      ⟨1, 0, [.gate (.bsr 0 (0, 0, 1) θ 0) (some ⟨"Rz", [.qubit 0, .float θ]⟩)]⟩) =
      some (1, 0, [.gate "Rz" [fmtFloat P θ] [0]]) :=
  readProgram3_writeCircuit_float P anon _ (by
    intro s hs
    simp only [List.mem_cons, List.not_mem_nil, or_false] at hs
    subst hs
    exact ⟨(by decide : isIdent "Rz" = true), by intro i hi; simp at hi, by simp [Named.qubitArgs]⟩)

/-! ### Theorem 4: the parameter text denotes the argument to `P` significant digits -/

/-- `[+-]d+` -/
def readExp : List Char → Option Int
  | [] => none
  | s :: ds =>
    if s = '+' then (readNat ds).map Int.ofNat
    else if s = '-' then (readNat ds).map (fun (n : Nat) => -(n : Int)) else none

/-- fraction digits and optional exponent part of `d+(e…)?` -/
def splitExp (r : List Char) : List Char × Option (List Char) :=
  match splitAt1 'e' r with
  | some q => (q.1, some q.2)
  | none => (r, none)

def expValue : Option (List Char) → Option Int
  | none => some 0
  | some x => readExp x

/-- the rational number denoted by `[-]d+.d+(e[+-]d+)?` -/
def decimalValueL (l0 : List Char) : Option ℚ :=
  let neg : Bool := l0.head? == some '-'
  let l := if neg then l0.tail else l0
  (splitAt1 '.' l).bind fun p =>
    (readNat p.1).bind fun _ => (readNat (splitExp p.2).1).bind fun _ =>
      (expValue (splitExp p.2).2).bind fun ex =>
        some ((if neg then -1 else 1) * (Nat.ofDigitChars 10 (p.1 ++ (splitExp p.2).1) 0 : ℚ) *
          (10 : ℚ) ^ (ex - ((splitExp p.2).1.length : Int)))

def decimalValue (s : String) : Option ℚ := decimalValueL s.toList

example : decimalValue "-12.50e-03" = some (-(1250 : ℚ) * 10 ^ (-5 : Int)) := by
  simp [decimalValue, decimalValueL, splitAt1, splitExp, expValue, readExp, readNat, Nat.ofDigitChars]

theorem splitAt1_none (c : Char) (l : List Char) (h : c ∉ l) : splitAt1 c l = none := by
  induction l with
  | nil => rfl
  | cons x t ih =>
    have hx : x ≠ c := fun e => h (by rw [e]; simp)
    simp [splitAt1, hx, ih (fun e => h (by simp [e]))]

theorem readNat_digits {l : List Char} (hd : Digits l) (hne : l ≠ []) :
    readNat l = some (Nat.ofDigitChars 10 l 0) := by
  have h1 : l.isEmpty = false := by simpa using hne
  have h2 : l.all Char.isDigit = true := List.all_eq_true.2 hd
  simp [readNat, h1, h2]

def expSuffix : Option (List Char) → List Char
  | none => []
  | some x => 'e' :: x

/-- evaluation of `decimalValueL` on a well-formed text -/
theorem decimalValueL_eval (neg : Bool) (ip fp : List Char) (ex : Option (List Char)) (e : Int)
    (hip : Digits ip) (hipne : ip ≠ []) (hfp : Digits fp) (hfpne : fp ≠ []) (hex : expValue ex = some e) :
    decimalValueL ((if neg then ['-'] else []) ++ ip ++ '.' :: fp ++
        expSuffix ex) =
      some ((if neg then -1 else 1) * (Nat.ofDigitChars 10 (ip ++ fp) 0 : ℚ) * (10 : ℚ) ^ (e - (fp.length : Int))) := by
  obtain ⟨c, t, rfl⟩ := List.exists_cons_of_ne_nil hipne
  have hc : c ≠ '-' := fun h => absurd (hip c (by simp)) (by rw [h]; decide)
  have hdot : '.' ∉ c :: t := hip.not_mem '.' rfl
  have hE : 'e' ∉ fp := hfp.not_mem 'e' rfl
  have hsp : splitExp (fp ++ expSuffix ex) = (fp, ex) := by
    cases ex with
    | none => simp [expSuffix, splitExp, splitAt1_none _ _ hE]
    | some x => simp [expSuffix, splitExp, splitAt1_append _ _ _ hE]
  have hhead : (((if neg then ['-'] else []) ++ (c :: t) ++ '.' :: fp ++
      expSuffix ex).head? == some '-') = neg := by
    cases neg <;> simp [hc]
  have htail : (if neg then ((if neg then ['-'] else []) ++ (c :: t) ++ '.' :: fp ++
      expSuffix ex).tail else ((if neg then ['-'] else []) ++ (c :: t) ++ '.' :: fp ++
      expSuffix ex)) =
      (c :: t) ++ '.' :: (fp ++ expSuffix ex) := by
    cases neg <;> simp
  unfold decimalValueL
  simp only [hhead, htail, splitAt1_append _ _ _ hdot, Option.bind_some, hsp, readNat_digits hip (by simp),
    readNat_digits hfp hfpne, hex]

/-! #### digits of the rounded number -/

theorem sigDigits_spec (d : Nat) (hd : 0 < d) : ∃ z, Nat.toDigits 10 d = sigDigits d ++ List.replicate z '0' := by
  have hs : (stripTrailingZeros (natDigits d)).toList =
      ((Nat.toDigits 10 d).reverse.dropWhile (· == '0')).reverse := by
    simp only [stripTrailingZeros, natDigits, String.toList_ofList, natText_toList]
  have hsplit : Nat.toDigits 10 d = ((Nat.toDigits 10 d).reverse.dropWhile (· == '0')).reverse ++
      ((Nat.toDigits 10 d).reverse.takeWhile (· == '0')).reverse := by
    rw [← List.reverse_append, List.takeWhile_append_dropWhile, List.reverse_reverse]
  have hz : ((Nat.toDigits 10 d).reverse.takeWhile (· == '0')).reverse =
      List.replicate ((Nat.toDigits 10 d).reverse.takeWhile (· == '0')).length '0' := by
    have : ∀ x ∈ ((Nat.toDigits 10 d).reverse.takeWhile (· == '0')), x = '0' := by
      intro x hx
      have := List.all_eq_true.1 (List.all_takeWhile (p := (· == '0')) (l := (Nat.toDigits 10 d).reverse)) x hx
      simpa using this
    rw [List.eq_replicate_of_mem this]
    simp
  refine ⟨((Nat.toDigits 10 d).reverse.takeWhile (· == '0')).length, ?_⟩
  unfold sigDigits
  simp only [hs]
  split
  · next hemp =>
    exfalso
    rw [List.isEmpty_iff] at hemp
    rw [hemp, List.nil_append, hz] at hsplit
    have := Nat.ofDigitChars_ten_toDigits (n := d)
    rw [hsplit, Nat.ofDigitChars_replicate_zero] at this
    omega
  · rw [← hz]; exact hsplit

theorem toDigits_length (P d : Nat) (hP : 1 ≤ P) (h1 : 10 ^ (P - 1) ≤ d) (h2 : d < 10 ^ P) :
    (Nat.toDigits 10 d).length = P := by
  have hle := (Nat.length_toDigits_le_iff (b := 10) (n := d) (k := P) (by decide) (by omega)).2 h2
  by_cases hP1 : P = 1
  · have := Nat.length_toDigits_pos (b := 10) (n := d); omega
  · have := mt (Nat.length_toDigits_le_iff (b := 10) (n := d) (k := P - 1) (by decide) (by omega)).1 (by omega)
    omega

/-- the significant digits `ds` and the number of stripped zeros: `d = N(ds)·10^z`, `|ds| + z = P` -/
theorem sigDigits_value (P d : Nat) (hP : 1 ≤ P) (h1 : 10 ^ (P - 1) ≤ d) (h2 : d < 10 ^ P) :
    ∃ z, Nat.ofDigitChars 10 (sigDigits d) 0 * 10 ^ z = d ∧ (sigDigits d).length + z = P := by
  have hd : 0 < d := Nat.lt_of_lt_of_le (Nat.pow_pos (by decide)) h1
  obtain ⟨z, hz⟩ := sigDigits_spec d hd
  refine ⟨z, ?_, ?_⟩
  · have := Nat.ofDigitChars_ten_toDigits (n := d)
    rw [hz, Nat.ofDigitChars_append, Nat.ofDigitChars_replicate_zero] at this
    rw [Nat.mul_comm]; exact this
  · have := toDigits_length P d hP h1 h2
    rw [hz] at this
    simpa using this

/-! #### the exponent part -/

theorem readExp_expDigits (e : Int) :
    readExp ((if e < 0 then "-" else "+").toList ++ (expDigits e.natAbs).toList) = some e := by
  have hN : readNat (expDigits e.natAbs).toList = some e.natAbs := by
    unfold expDigits
    split
    · have h0 : ("0" ++ toString e.natAbs).toList = '0' :: (toString e.natAbs).toList := by
        simp [String.toList_append]
      have hd : Digits ('0' :: (toString e.natAbs).toList) := by
        intro c hc
        rcases List.mem_cons.1 hc with rfl | hc
        · rfl
        · exact natText_digits _ c hc
      rw [h0, readNat_digits hd (by simp), Nat.ofDigitChars_cons, natText_toList]
      simp
    · exact readNat_toString _
  by_cases h : e < 0
  · have e1 : (if e < 0 then "-" else "+").toList = ['-'] := by rw [if_pos h]; rfl
    rw [e1, List.singleton_append]
    simp only [readExp, hN, Option.map_some, if_true]
    rw [if_neg (by decide)]
    congr 1
    show -((e.natAbs : Nat) : Int) = e
    omega
  · have e1 : (if e < 0 then "-" else "+").toList = ['+'] := by rw [if_neg h]; rfl
    rw [e1, List.singleton_append]
    simp only [readExp, hN, Option.map_some, if_true]
    congr 1
    show ((e.natAbs : Nat) : Int) = e
    omega

/-! #### the value of the laid-out digits -/

theorem sgnText_toList (neg : Bool) : (if neg then "-" else "").toList = if neg then ['-'] else [] := by
  cases neg <;> rfl

theorem qpow (N m : Nat) (t u : Int) (h : (m : Int) + t = u) :
    ((N * 10 ^ m : Nat) : ℚ) * (10 : ℚ) ^ t = (N : ℚ) * (10 : ℚ) ^ u := by
  push_cast
  rw [mul_assoc, ← zpow_natCast, ← zpow_add₀ (by norm_num), h]

theorem ofDigitChars_snoc_zero (l : List Char) :
    Nat.ofDigitChars 10 (l ++ ['0']) 0 = Nat.ofDigitChars 10 l 0 * 10 ^ 1 := by
  rw [Nat.ofDigitChars_append, Nat.ofDigitChars_cons, Nat.ofDigitChars_nil]
  simp [Nat.mul_comm]

theorem ofDigitChars_zeros_append (k : Nat) (l : List Char) :
    Nat.ofDigitChars 10 (List.replicate k '0' ++ l) 0 = Nat.ofDigitChars 10 l 0 := by
  rw [Nat.ofDigitChars_append, Nat.ofDigitChars_replicate_zero, Nat.mul_zero]

theorem ofDigitChars_append_zeros (k : Nat) (l : List Char) :
    Nat.ofDigitChars 10 (l ++ List.replicate k '0') 0 = Nat.ofDigitChars 10 l 0 * 10 ^ k := by
  rw [Nat.ofDigitChars_append, Nat.ofDigitChars_replicate_zero, Nat.mul_comm]

theorem pow_congr' (a : ℚ) {t u : Int} (h : t = u) : a * (10 : ℚ) ^ t = a * (10 : ℚ) ^ u := by rw [h]

theorem signMul (neg : Bool) (a b c d : ℚ) (h : a * b = c * d) :
    (if neg then (-1 : ℚ) else 1) * a * b = (if neg then (-1 : ℚ) else 1) * c * d := by
  rw [mul_assoc, mul_assoc, h]

/-- The text laid out by `fmtDigs` (behind an optional sign, after `fixExponent`) denotes
    `± N(ds) · 10^(decpt − |ds|)`, where `ds = sigDigits d` are the significant digits. -/
theorem decimalValue_fmtDigs (P d : Nat) (e : Int) (neg : Bool) :
    decimalValue (fixExponent ((if neg then "-" else "") ++ fmtDigs P d e)) =
      some ((if neg then -1 else 1) * (Nat.ofDigitChars 10 (sigDigits d) 0 : ℚ) *
        (10 : ℚ) ^ (e - ((sigDigits d).length : Int))) := by
  obtain ⟨hds, hne⟩ := sigDigits_digits d
  have hsgE : 'e' ∉ (if neg then ['-'] else []) := by cases neg <;> decide
  have hsgP : '.' ∉ (if neg then ['-'] else []) := by cases neg <;> decide
  unfold fmtDigs decimalValue
  simp only []
  generalize sigDigits d = ds at hds hne
  by_cases hc1 : e > (P : Int) - 1 ∨ e < -3
  · -- exponent notation
    rw [if_pos hc1]
    obtain ⟨a, rest, rfl⟩ := List.exists_cons_of_ne_nil hne
    have ha : Digits [a] := fun c hc => hds c (by simp at hc; simp [hc])
    have hrest : Digits rest := fun c hc => hds c (List.mem_cons_of_mem _ hc)
    obtain ⟨hxd, _⟩ := expDigits_form (e - 1).natAbs
    have hx : 'e' ∉ ((if e - 1 < 0 then "-" else "+") ++ expDigits (e - 1).natAbs).toList := by
      rw [String.toList_append, List.mem_append, not_or]
      exact ⟨by split <;> decide, hxd.not_mem 'e' rfl⟩
    have hexp : expValue (some ((if e - 1 < 0 then "-" else "+").toList ++ (expDigits (e - 1).natAbs).toList)) =
        some (e - 1) := readExp_expDigits (e - 1)
    simp only [List.take_succ_cons, List.take_zero, List.drop_succ_cons, List.drop_zero]
    cases rest with
    | nil =>
      simp only [List.isEmpty_nil, if_true]
      have hm : 'e' ∉ ((if neg then "-" else "") ++ String.ofList [a]).toList := by
        rw [String.toList_append, sgnText_toList, String.toList_ofList, List.mem_append, not_or]
        exact ⟨hsgE, ha.not_mem 'e' rfl⟩
      have hp : '.' ∉ ((if neg then "-" else "") ++ String.ofList [a]).toList := by
        rw [String.toList_append, sgnText_toList, String.toList_ofList, List.mem_append, not_or]
        exact ⟨hsgP, ha.not_mem '.' rfl⟩
      have := fixExponent_exp _ _ hm hx
      rw [if_neg hp] at this
      simp only [String.append_assoc] at this ⊢
      rw [this]
      have e1 : ((if neg then "-" else "") ++ (String.ofList [a] ++ (".0e" ++
          ((if e - 1 < 0 then "-" else "+") ++ expDigits (e - 1).natAbs)))).toList =
          (if neg then ['-'] else []) ++ [a] ++ '.' :: ['0'] ++
            expSuffix (some ((if e - 1 < 0 then "-" else "+").toList ++ (expDigits (e - 1).natAbs).toList)) := by
        simp only [String.toList_append, sgnText_toList, String.toList_ofList, expSuffix]
        rw [show ".0e".toList = ['.', '0', 'e'] from rfl]
        simp
      rw [e1, decimalValueL_eval neg [a] ['0'] _ (e - 1) ha (by simp) (by intro c hc; simp at hc; rw [hc]; rfl)
        (by simp) hexp, ofDigitChars_snoc_zero]
      congr 1
      apply signMul
      apply qpow
      simp
    | cons b t =>
      simp only [List.isEmpty_cons, Bool.false_eq_true, if_false]
      have hm : 'e' ∉ ((if neg then "-" else "") ++ String.ofList ([a] ++ ['.'] ++ b :: t)).toList := by
        rw [String.toList_append, sgnText_toList, String.toList_ofList]
        simp only [List.mem_append, List.mem_cons, List.not_mem_nil, or_false, not_or]
        exact ⟨hsgE, ⟨fun h => absurd (ha a (by simp)) (by rw [← h]; decide), by decide⟩,
          fun h => absurd (hrest b (by simp)) (by rw [← h]; decide), hrest.not_mem 'e' rfl ∘ List.mem_cons_of_mem _⟩
      have hp : '.' ∈ ((if neg then "-" else "") ++ String.ofList ([a] ++ ['.'] ++ b :: t)).toList := by
        rw [String.toList_append, String.toList_ofList]; simp
      have := fixExponent_exp _ _ hm hx
      rw [if_pos hp] at this
      simp only [String.append_assoc] at this ⊢
      rw [this]
      have e1 : ((if neg then "-" else "") ++ (String.ofList ([a] ++ ['.'] ++ b :: t) ++ ("e" ++
          ((if e - 1 < 0 then "-" else "+") ++ expDigits (e - 1).natAbs)))).toList =
          (if neg then ['-'] else []) ++ [a] ++ '.' :: (b :: t) ++
            expSuffix (some ((if e - 1 < 0 then "-" else "+").toList ++ (expDigits (e - 1).natAbs).toList)) := by
        simp only [String.toList_append, sgnText_toList, String.toList_ofList, expSuffix]
        rw [show "e".toList = ['e'] from rfl]
        simp
      rw [e1, decimalValueL_eval neg [a] (b :: t) _ (e - 1) ha (by simp) hrest (by simp) hexp]
      congr 1
      apply pow_congr'
      simp only [List.length_cons]
      push_cast
      omega
  · have hnoE : ∀ s : String, Digits (s.toList.filter (· != '.')) →
        'e' ∉ ((if neg then "-" else "") ++ s).toList := by
      intro s hs
      rw [String.toList_append, sgnText_toList, List.mem_append, not_or]
      refine ⟨hsgE, fun hm => ?_⟩
      have := hs 'e' (List.mem_filter.2 ⟨hm, by decide⟩)
      exact absurd this (by decide)
    rw [if_neg hc1]
    by_cases hle : e ≤ 0
    · -- 0.000ddd
      rw [if_pos hle]
      have hfp : Digits (List.replicate (-e).toNat '0' ++ ds) := Digits.append (digits_replicate_zero _) hds
      rw [fixExponent_no_e _ (hnoE _ (by
        intro c hc
        simp only [String.toList_append, String.toList_ofList, List.mem_filter, List.mem_append] at hc
        rcases hc with ⟨hc | hc, hne'⟩
        · have : c = '0' ∨ c = '.' := by
            have h2 : "0.".toList = ['0', '.'] := rfl
            rw [h2] at hc; simpa using hc
          rcases this with rfl | rfl
          · rfl
          · simp at hne'
        · exact hfp c (List.mem_append.2 hc)))]
      have e1 : ((if neg then "-" else "") ++ ("0." ++ String.ofList (List.replicate (-e).toNat '0' ++ ds))).toList =
          (if neg then ['-'] else []) ++ ['0'] ++ '.' :: (List.replicate (-e).toNat '0' ++ ds) ++ expSuffix none := by
        simp only [String.toList_append, sgnText_toList, String.toList_ofList, expSuffix]
        rw [show "0.".toList = ['0', '.'] from rfl]
        simp
      rw [e1, decimalValueL_eval neg ['0'] _ none 0 (by intro c hc; simp at hc; rw [hc]; rfl) (by simp) hfp
        (by simp [hne]) rfl]
      have : Nat.ofDigitChars 10 (['0'] ++ (List.replicate (-e).toNat '0' ++ ds)) 0 = Nat.ofDigitChars 10 ds 0 := by
        rw [← List.replicate_one, ← List.append_assoc, ← List.replicate_add, ofDigitChars_zeros_append]
      rw [this]
      congr 1
      apply pow_congr'
      simp only [List.length_append, List.length_replicate]
      push_cast
      omega
    · rw [if_neg hle]
      by_cases hlen : ds.length ≤ e.toNat
      · -- ddd000.0
        rw [if_pos hlen]
        have hip : Digits (ds ++ List.replicate (e.toNat - ds.length) '0') :=
          Digits.append hds (digits_replicate_zero _)
        rw [fixExponent_no_e _ (hnoE _ (by
          intro c hc
          simp only [String.toList_append, String.toList_ofList, List.mem_filter, List.mem_append] at hc
          rcases hc with ⟨hc | hc, hne'⟩
          · exact hip c (List.mem_append.2 hc)
          · have : c = '.' ∨ c = '0' := by
              have h2 : ".0".toList = ['.', '0'] := rfl
              rw [h2] at hc; simpa using hc
            rcases this with rfl | rfl
            · simp at hne'
            · rfl))]
        have e1 : ((if neg then "-" else "") ++ (String.ofList (ds ++ List.replicate (e.toNat - ds.length) '0') ++ ".0")).toList =
            (if neg then ['-'] else []) ++ (ds ++ List.replicate (e.toNat - ds.length) '0') ++ '.' :: ['0'] ++
              expSuffix none := by
          simp only [String.toList_append, sgnText_toList, String.toList_ofList, expSuffix]
          rw [show ".0".toList = ['.', '0'] from rfl]
          simp
        rw [e1, decimalValueL_eval neg _ ['0'] none 0 hip (by simp [hne]) (by intro c hc; simp at hc; rw [hc]; rfl)
          (by simp) rfl, ofDigitChars_snoc_zero, ofDigitChars_append_zeros, Nat.mul_assoc, ← Nat.pow_add]
        congr 1
        apply signMul
        apply qpow
        simp; omega
      · -- dd.ddd
        rw [if_neg hlen]
        have hdp : 0 < e.toNat := by omega
        have hipne : ds.take e.toNat ≠ [] := by
          intro h
          have := congrArg List.length h
          simp only [List.length_take, List.length_nil] at this
          have : 0 < ds.length := List.length_pos_iff.2 hne
          omega
        have hfpne : ds.drop e.toNat ≠ [] := by
          intro h
          have := congrArg List.length h
          simp only [List.length_drop, List.length_nil] at this
          omega
        rw [fixExponent_no_e _ (hnoE _ (by
          intro c hc
          simp only [String.toList_ofList, List.mem_filter, List.mem_append, List.mem_cons, List.not_mem_nil,
            or_false] at hc
          rcases hc with ⟨(hc | rfl) | hc, hne'⟩
          · exact hds c (List.mem_of_mem_take hc)
          · simp at hne'
          · exact hds c (List.mem_of_mem_drop hc)))]
        have e1 : ((if neg then "-" else "") ++ String.ofList (ds.take e.toNat ++ ['.'] ++ ds.drop e.toNat)).toList =
            (if neg then ['-'] else []) ++ ds.take e.toNat ++ '.' :: ds.drop e.toNat ++ expSuffix none := by
          simp only [String.toList_append, sgnText_toList, String.toList_ofList, expSuffix]
          simp
        rw [e1, decimalValueL_eval neg _ _ none 0 (hds.take _) hipne (hds.drop _) hfpne rfl,
          List.take_append_drop]
        congr 1
        apply pow_congr'
        simp only [List.length_drop]
        omega

/-! #### Theorem 4 -/

/-- the exact value of a finite double, as a rational: `± num/den` with `(num, den) = bitsFrac bits` -/
def bitsValue (bits : UInt64) : ℚ :=
  (if (bits >>> 63) != 0 then -1 else 1) * ((bitsFrac bits).1 : ℚ) / (bitsFrac bits).2

/-- **Theorem 4 (digits form)** For a finite non-zero double the written parameter text
    `fixExponent (format(x, '.P'))` parses (as `[-]d+.d+(e[+-]d+)?`) to `± d·10^(e−P)` where `d` is a `P`-digit
    integer, the sign is the sign bit, and `d·10^(e−P)` is within half a unit in the `P`-th significant digit of
    the exact absolute value `num/den` of the double. -/
theorem param_value_digits (P : Nat) (hP : 1 ≤ P) (bits : UInt64) (hf : FiniteBits bits) (hn : NonzeroBits bits) :
    ∃ (d : Nat) (e : Int),
      decimalValue (fixExponent (fmtBits P bits)) =
        some ((if (bits >>> 63) != 0 then (-1 : ℚ) else 1) * (d : ℚ) * (10 : ℚ) ^ (e - P)) ∧
      10 ^ (P - 1) ≤ d ∧ d < 10 ^ P ∧
      |((bitsFrac bits).1 : ℚ) / (bitsFrac bits).2 - d * (10 : ℚ) ^ (e - P)| ≤ (10 : ℚ) ^ (e - P) / 2 := by
  obtain ⟨d, e, htext, h1, h2, h3⟩ := fmtBits_correctly_rounded P hP bits hf hn
  refine ⟨d, e, ?_, h1, h2, h3⟩
  obtain ⟨z, hz, hlen⟩ := sigDigits_value P d hP h1 h2
  rw [htext]
  refine (decimalValue_fmtDigs P d e ((bits >>> 63) != 0)).trans (congrArg some ?_)
  apply signMul
  generalize Nat.ofDigitChars 10 (sigDigits d) 0 = N at hz ⊢
  generalize (sigDigits d).length = L at hlen ⊢
  subst hz
  symm
  apply qpow
  omega

/-- **Theorem 4** The parameter text of a finite non-zero double denotes the double to `P` significant digits:
    it parses to a rational `v` of decimal exponent `e` (`10^(e−1) ≤ |v| < 10^e`) with
    `|x − v| ≤ 10^(e−P)/2`, half a unit in the `P`-th significant digit (`x = bitsValue bits` exact). -/
theorem param_value (P : Nat) (hP : 1 ≤ P) (bits : UInt64) (hf : FiniteBits bits) (hn : NonzeroBits bits) :
    ∃ (v : ℚ) (e : Int), decimalValue (fixExponent (fmtBits P bits)) = some v ∧
      (10 : ℚ) ^ (e - 1) ≤ |v| ∧ |v| < (10 : ℚ) ^ e ∧ |bitsValue bits - v| ≤ (10 : ℚ) ^ (e - P) / 2 := by
  obtain ⟨d, e, hv, h1, h2, h3⟩ := param_value_digits P hP bits hf hn
  refine ⟨_, e, hv, ?_, ?_, ?_⟩
  · have hpos : (0 : ℚ) < (10 : ℚ) ^ (e - (P : Int)) := zpow_pos (by norm_num) _
    have habs : |(if (bits >>> 63 != 0) = true then (-1 : ℚ) else 1) * (d : ℚ) * (10 : ℚ) ^ (e - (P : Int))| =
        (d : ℚ) * (10 : ℚ) ^ (e - (P : Int)) := by
      rw [abs_mul, abs_mul, abs_of_pos hpos, abs_of_nonneg (Nat.cast_nonneg d : (0 : ℚ) ≤ (d : ℚ))]
      split <;> simp
    rw [habs]
    have e1 : (10 : ℚ) ^ (e - 1) = ((10 ^ (P - 1) : Nat) : ℚ) * (10 : ℚ) ^ (e - (P : Int)) := by
      push_cast
      rw [← zpow_natCast, ← zpow_add₀ (by norm_num)]
      congr 1; omega
    rw [e1]
    exact mul_le_mul_of_nonneg_right (by exact_mod_cast h1) hpos.le
  · have hpos : (0 : ℚ) < (10 : ℚ) ^ (e - (P : Int)) := zpow_pos (by norm_num) _
    have habs : |(if (bits >>> 63 != 0) = true then (-1 : ℚ) else 1) * (d : ℚ) * (10 : ℚ) ^ (e - (P : Int))| =
        (d : ℚ) * (10 : ℚ) ^ (e - (P : Int)) := by
      rw [abs_mul, abs_mul, abs_of_pos hpos, abs_of_nonneg (Nat.cast_nonneg d : (0 : ℚ) ≤ (d : ℚ))]
      split <;> simp
    rw [habs]
    have e1 : (10 : ℚ) ^ e = ((10 ^ P : Nat) : ℚ) * (10 : ℚ) ^ (e - (P : Int)) := by
      push_cast
      rw [← zpow_natCast, ← zpow_add₀ (by norm_num)]
      congr 1; omega
    rw [e1]
    exact mul_lt_mul_of_pos_right (by exact_mod_cast h2) hpos
  · unfold bitsValue
    have : ∀ σ : ℚ, (σ = -1 ∨ σ = 1) → ∀ a b : ℚ, |σ * a / ((bitsFrac bits).2 : ℚ) - σ * b * (10 : ℚ) ^ (e - (P : Int))| =
        |a / ((bitsFrac bits).2 : ℚ) - b * (10 : ℚ) ^ (e - (P : Int))| := by
      rintro σ (rfl | rfl) a b
      · rw [← abs_neg]; congr 1; ring
      · congr 1; ring
    rw [this _ (by split <;> simp)]
    exact h3

/-- a signed zero is written as `0.0` / `-0.0`, which denotes `0` -/
theorem param_value_zero (P : Nat) (bits : UInt64) (hf : FiniteBits bits) (hz : ¬ NonzeroBits bits) :
    decimalValue (fixExponent (fmtBits P bits)) = some 0 := by
  have hex : (((bits >>> 52) &&& 0x7ff).toNat == 0x7ff) = false := by
    rw [beq_eq_false_iff_ne]; exact hf
  have hzero : (((bits >>> 52) &&& 0x7ff).toNat == 0 && (bits &&& 0xfffffffffffff).toNat == 0) = true := by
    unfold NonzeroBits at hz
    simp only [Classical.not_not] at hz
    simp [hz.1, hz.2]
  unfold fmtBits
  simp only []
  rw [hex, hzero]
  simp only [Bool.false_eq_true, if_false, if_true]
  have e1 : ((if (bits >>> 63 != 0) = true then "-" else "") ++ "0.0").toList =
      (if (bits >>> 63 != 0) then ['-'] else []) ++ ['0'] ++ '.' :: ['0'] ++ expSuffix none := by
    rw [String.toList_append, sgnText_toList, show "0.0".toList = ['0', '.', '0'] from rfl]
    simp [expSuffix]
  rw [fixExponent_no_e _ (by rw [e1]; cases (bits >>> 63 != 0) <;> decide)]
  unfold decimalValue
  rw [e1, decimalValueL_eval _ ['0'] ['0'] none 0 (by intro c hc; simp at hc; rw [hc]; rfl) (by simp)
    (by intro c hc; simp at hc; rw [hc]; rfl) (by simp) rfl]
  simp [Nat.ofDigitChars]

/-- Theorem 4 for a float argument: `fmtFloat P x` is the parameter text of `.float x` (`showArg_float`). -/
theorem param_value_float (P : Nat) (hP : 1 ≤ P) (x : Float) (hf : FiniteBits x.toBits) (hn : NonzeroBits x.toBits) :
    ∃ (v : ℚ) (e : Int), decimalValue (showArg (fmtFloat P) (.float x)) = some v ∧
      (10 : ℚ) ^ (e - 1) ≤ |v| ∧ |v| < (10 : ℚ) ^ e ∧ |bitsValue x.toBits - v| ≤ (10 : ℚ) ^ (e - P) / 2 :=
  param_value P hP x.toBits hf hn

-- non-vacuity: the double 1e-05 (bits 0x3ee4f8b588e368f1) is written `1.0e-05`, which denotes exactly 10^-5
example : ∃ (v : ℚ) (e : Int), decimalValue (fixExponent (fmtBits 8 0x3ee4f8b588e368f1)) = some v ∧
    (10 : ℚ) ^ (e - 1) ≤ |v| ∧ |v| < (10 : ℚ) ^ e ∧
    |bitsValue 0x3ee4f8b588e368f1 - v| ≤ (10 : ℚ) ^ (e - (8 : Nat)) / 2 :=
  param_value 8 (by decide) _ (by decide) (by decide)
example : decimalValue "1.0e-05" = some ((10 : ℚ) ^ (-5 : Int)) := by
  have hd : ∀ c : Char, c.isDigit = true → Digits [c] := fun c h x hx => by simp at hx; rw [hx]; exact h
  have := decimalValueL_eval false ['1'] ['0'] (some "-05".toList) (-5) (hd _ rfl) (by decide) (hd _ rfl)
    (by decide) (by decide)
  simp only [Bool.false_eq_true, if_false, List.nil_append, expSuffix] at this
  rw [decimalValue, show "1.0e-05".toList = ['1'] ++ '.' :: ['0'] ++ 'e' :: "-05".toList from rfl, this]
  norm_num [Nat.ofDigitChars]
  rw [show '1'.toNat - '0'.toNat = 1 by decide]
  norm_num

end OSq

#print axioms OSq.readLine3_gate
#print axioms OSq.readLine3_measure
#print axioms OSq.readLine3_reset
#print axioms OSq.readLine3_comment
#print axioms OSq.readLine3_writeStmt
#print axioms OSq.readLines_rstrip_blocks
#print axioms OSq.readProgram3_writeCircuit
#print axioms OSq.readLine1_exportStmt
#print axioms OSq.readProgram1_exportV1
#print axioms OSq.isParamTok_intText
#print axioms OSq.isParamTok_fmtFloat
#print axioms OSq.readProgram3_writeCircuit_float
#print axioms OSq.readProgram1_exportV1_float
#print axioms OSq.decimalValue_fmtDigs
#print axioms OSq.param_value_digits
#print axioms OSq.param_value
#print axioms OSq.param_value_zero
#print axioms OSq.param_value_float
